(* Berge's theorem (C15b, B1 and B2): a matching of a finite undirected graph is maximum exactly
   when it has no augmenting path.  Pure graph theory over lists of pairs ([is_matching] of
   Spec/MatchSpec.v); the bridge to mate vectors of a view and to the exhaustive-search optimum
   [max_matching_size] is at the end. *)
From PG Require Import Lib.Io Model.View Model.MatchM Spec.Reach Spec.MatchSpec Spec.BergeSpec
  Proofs.MatchAccP Proofs.MatchOptP.

(* ------------------------------------------------------------------ *)
(* list facts                                                          *)

Lemma last_cons2 (x y : nat) t d : last (x :: y :: t) d = last (y :: t) d.
Proof. reflexivity. Qed.

Lemma last_in (l : list nat) d : l <> [] -> In (last l d) l.
Proof.
  intros Hne. destruct (exists_last Hne) as [l' [x ->]].
  rewrite last_last. apply in_or_app; right; left; reflexivity.
Qed.

Lemma last_rev (l : list nat) d : last (rev l) d = hd d l.
Proof. destruct l as [|a t]; [reflexivity|]. cbn [rev hd]. apply last_last. Qed.

Lemma hd_rev (l : list nat) d : hd d (rev l) = last l d.
Proof. rewrite <- (rev_involutive l) at 2. rewrite last_rev. reflexivity. Qed.

Lemma nodup_hd_last (x y : nat) t : NoDup (x :: y :: t) -> x <> last (x :: y :: t) 0.
Proof.
  intros Hnd E. inversion Hnd as [|? ? Hx _]; subst. apply Hx.
  rewrite last_cons2 in E. rewrite E. apply last_in. discriminate.
Qed.

(* ------------------------------------------------------------------ *)
(* lists of pairs                                                      *)

Lemma medge_sym M x y : medge M x y -> medge M y x.
Proof. unfold medge. tauto. Qed.

Lemma medge_endpoints M x y : medge M x y -> In x (endpoints M) /\ In y (endpoints M).
Proof. intros [H|H]; split; apply In_endpoints; eauto. Qed.

Lemma endpoints_medge M x : In x (endpoints M) -> exists y, medge M x y.
Proof.
  intros H. apply In_endpoints in H. destruct H as [i [j [Hin [-> | ->]]]].
  - exists j. left; exact Hin.
  - exists i. right; exact Hin.
Qed.

(* two pairs of a matching that share an end are the same pair *)
Lemma pairs_share M : NoDup (endpoints M) -> forall p q, In p M -> In q M ->
  (fst p = fst q \/ fst p = snd q \/ snd p = fst q \/ snd p = snd q) -> p = q.
Proof.
  induction M as [|[i j] t IH]; intros Hnd p q Hp Hq Hs; [destruct Hp|].
  rewrite endpoints_cons in Hnd. inversion Hnd as [|? ? Hi Hnd1]; subst.
  inversion Hnd1 as [|? ? Hj Hnd2]; subst.
  assert (Hout : forall r, In r t -> In (fst r) (endpoints t) /\ In (snd r) (endpoints t)).
  { intros [a b] Hr. split; apply In_endpoints; exists a, b; auto. }
  destruct Hp as [<-|Hp], Hq as [<-|Hq].
  - reflexivity.
  - exfalso. destruct (Hout q Hq) as [H1 H2]. cbn [fst snd] in Hs.
    destruct Hs as [E|[E|[E|E]]].
    + apply Hi. right. rewrite E. exact H1.
    + apply Hi. right. rewrite E. exact H2.
    + apply Hj. rewrite E. exact H1.
    + apply Hj. rewrite E. exact H2.
  - exfalso. destruct (Hout p Hp) as [H1 H2]. cbn [fst snd] in Hs.
    destruct Hs as [E|[E|[E|E]]].
    + apply Hi. right. rewrite <- E. exact H1.
    + apply Hj. rewrite <- E. exact H1.
    + apply Hi. right. rewrite <- E. exact H2.
    + apply Hj. rewrite <- E. exact H2.
  - apply IH; assumption.
Qed.

Lemma medge_unique M a b c : NoDup (endpoints M) -> medge M a b -> medge M a c -> b = c.
Proof.
  intros Hnd [H1|H1] [H2|H2].
  - pose proof (pairs_share M Hnd (a, b) (a, c) H1 H2 (or_introl eq_refl)) as E. congruence.
  - pose proof (pairs_share M Hnd (a, b) (c, a) H1 H2 (or_intror (or_introl eq_refl))) as E. congruence.
  - pose proof (pairs_share M Hnd (b, a) (a, c) H1 H2 (or_intror (or_intror (or_introl eq_refl)))) as E. congruence.
  - pose proof (pairs_share M Hnd (b, a) (c, a) H1 H2 (or_intror (or_intror (or_intror eq_refl)))) as E. congruence.
Qed.

(* one pair taken out *)
Lemma pairs_remove M i j : NoDup (endpoints M) -> In (i, j) M ->
  exists M', length M = S (length M') /\ NoDup (endpoints M') /\
    (forall p, In p M <-> p = (i, j) \/ In p M') /\
    ~ In i (endpoints M') /\ ~ In j (endpoints M') /\ i <> j.
Proof.
  intros Hnd Hin. apply in_split in Hin. destruct Hin as [M1 [M2 ->]]. exists (M1 ++ M2).
  rewrite endpoints_app, endpoints_cons in Hnd.
  apply NoDup_remove in Hnd. destruct Hnd as [Hnd Hi].
  assert (Hij : i <> j).
  { intros ->. apply Hi. apply in_or_app; right; left; reflexivity. }
  apply NoDup_remove in Hnd. destruct Hnd as [Hnd Hj].
  split; [rewrite !app_length; cbn [length]; lia|].
  rewrite endpoints_app. split; [exact Hnd|]. split; [|split; [|split; [exact Hj | exact Hij]]].
  - intros p. rewrite !in_app_iff. cbn [In]. split.
    + intros [H1|[H1|H1]]; [right; left; exact H1 | left; symmetry; exact H1 | right; right; exact H1].
    + intros [H1|[H1|H1]]; [right; left; symmetry; exact H1 | left; exact H1 | right; right; exact H1].
  - intros H1. apply Hi. rewrite in_app_iff in *. cbn [In]. tauto.
Qed.

Lemma medge_remove M x y : NoDup (endpoints M) -> medge M x y ->
  exists M', length M = S (length M') /\ NoDup (endpoints M') /\
    (forall a b, medge M a b <-> (a = x /\ b = y) \/ (a = y /\ b = x) \/ medge M' a b) /\
    ~ In x (endpoints M') /\ ~ In y (endpoints M') /\ x <> y.
Proof.
  intros Hnd [H|H]; destruct (pairs_remove M _ _ Hnd H) as [M' [H1 [H2 [H3 [H4 [H5 H6]]]]]];
    exists M'; (split; [exact H1|]); (split; [exact H2|]).
  - split; [|auto]. intros a b. unfold medge. rewrite (H3 (a, b)), (H3 (b, a)). split.
    + intros [[E|H7]|[E|H7]]; [injection E as -> ->; auto | auto | injection E as -> ->; auto | auto].
    + intros [[-> ->] | [[-> ->] | [H7|H7]]]; auto.
  - split; [|auto]. intros a b. unfold medge. rewrite (H3 (a, b)), (H3 (b, a)). split.
    + intros [[E|H7]|[E|H7]]; [injection E as -> ->; auto | auto | injection E as -> ->; auto | auto].
    + intros [[-> ->] | [[-> ->] | [H7|H7]]]; auto.
Qed.

(* the partner function *)
Lemma pmate_medge N x y : pmate N x = Some y -> medge N x y.
Proof.
  induction N as [|[a b] t IH]; cbn [pmate]; [discriminate|].
  destruct (Nat.eqb_spec x a) as [->|Ha].
  - intros H; injection H as <-. left; left; reflexivity.
  - destruct (Nat.eqb_spec x b) as [->|Hb].
    + intros H; injection H as <-. right; left; reflexivity.
    + intros H. destruct (IH H) as [H'|H']; [left|right]; right; exact H'.
Qed.

Lemma pmate_covered N x : In x (endpoints N) -> exists y, pmate N x = Some y.
Proof.
  induction N as [|[a b] t IH]; [intros []|]. rewrite endpoints_cons. cbn [pmate]. intros Hin.
  destruct (Nat.eqb_spec x a); [eauto|]. destruct (Nat.eqb_spec x b); [eauto|].
  apply IH. destruct Hin as [E|[E|Hin]]; [congruence | congruence | exact Hin].
Qed.

Lemma medge_pmate N x y : NoDup (endpoints N) -> medge N x y -> pmate N x = Some y.
Proof.
  intros Hnd H. destruct (pmate_covered N x) as [y' Hy']; [apply (medge_endpoints N x y H)|].
  rewrite Hy'. f_equal. apply (medge_unique N x y' y Hnd (pmate_medge N x y' Hy') H).
Qed.

Lemma endpoints_filter_incl f M x : In x (endpoints (filter f M)) -> In x (endpoints M).
Proof.
  intros H. apply In_endpoints in H. destruct H as [i [j [Hin Hx]]]. apply filter_In in Hin.
  apply In_endpoints. exists i, j. tauto.
Qed.

Lemma endpoints_filter_nodup f M : NoDup (endpoints M) -> NoDup (endpoints (filter f M)).
Proof.
  induction M as [|[i j] t IH]; intros Hnd; cbn [filter]; [exact Hnd|].
  rewrite endpoints_cons in Hnd. inversion Hnd as [|? ? Hi Hnd1]; subst.
  inversion Hnd1 as [|? ? Hj Hnd2]; subst.
  destruct (f (i, j)); [|apply IH; exact Hnd2].
  rewrite endpoints_cons. constructor; [|constructor; [|apply IH; exact Hnd2]].
  - intros [E|Hin]; [apply Hi; left; exact E | apply Hi; right; eapply endpoints_filter_incl; eauto].
  - intros Hin. apply Hj. eapply endpoints_filter_incl; eauto.
Qed.

(* ------------------------------------------------------------------ *)
(* the shape of alternating paths                                      *)

Lemma altp_len E M l : altp E M l -> exists x y t, l = x :: y :: t.
Proof. intros H. destruct H; eauto. Qed.

(* every vertex is an end of an E-edge of the path *)
Lemma altp_vertices E M l : altp E M l ->
  forall a, In a l -> exists b, In b l /\ (E a b \/ E b a).
Proof.
  induction 1 as [x y Hxy|x y z l Hxy Hyz Hl IH]; intros a Ha.
  - destruct Ha as [<-|[<-|[]]].
    + exists y. split; [right; left; reflexivity | left; exact Hxy].
    + exists x. split; [left; reflexivity | right; exact Hxy].
  - destruct Ha as [<-|[<-|Ha]].
    + exists y. split; [right; left; reflexivity | left; exact Hxy].
    + exists x. split; [left; reflexivity | right; exact Hxy].
    + destruct (IH a Ha) as [b [Hb Hab]]. exists b. split; [right; right; exact Hb | exact Hab].
Qed.

(* every vertex but the two ends has its M-partner on the path *)
Lemma altp_inner E M l : altp E M l ->
  forall b, In b l -> b = hd 0 l \/ b = last l 0 \/ exists c, In c l /\ medge M b c.
Proof.
  induction 1 as [x y Hxy|x y z l Hxy Hyz Hl IH]; intros b Hb.
  - destruct Hb as [<-|[<-|[]]]; [left; reflexivity | right; left; reflexivity].
  - destruct Hb as [<-|[<-|Hb]].
    + left; reflexivity.
    + right; right. exists z. split; [right; right; left; reflexivity | exact Hyz].
    + destruct (IH b Hb) as [E1|[E1|[c [Hc Hbc]]]].
      * cbn [hd] in E1. subst b. right; right. exists y.
        split; [right; left; reflexivity | apply medge_sym; exact Hyz].
      * right; left. rewrite !last_cons2. exact E1.
      * right; right. exists c. split; [right; right; exact Hc | exact Hbc].
Qed.

Lemma altp_mono (E1 E2 : nat -> nat -> Prop) M1 M2 l :
  (forall a b, medge M1 a b -> medge M2 a b) -> altp E1 M1 l ->
  (forall a b, In a l -> In b l -> E1 a b -> E2 a b) -> altp E2 M2 l.
Proof.
  intros HM H. induction H as [x y Hxy|x y z l Hxy Hyz Hl IH]; intros HE.
  - apply altp_edge. apply HE; [left; reflexivity | right; left; reflexivity | exact Hxy].
  - apply altp_step.
    + apply HE; [left; reflexivity | right; left; reflexivity | exact Hxy].
    + apply HM, Hyz.
    + apply IH. intros a b Ha Hb. apply HE; right; right; assumption.
Qed.

Lemma altp_snoc E M l : altp E M l -> forall y x, medge M (last l 0) y -> E y x ->
  altp E M (l ++ [y; x]).
Proof.
  induction 1 as [a b Hab|a b c l Hab Hbc Hl IH]; intros y x Hy Hx.
  - cbn [last] in Hy. cbn [app]. apply altp_step; [exact Hab | exact Hy | apply altp_edge; exact Hx].
  - rewrite !last_cons2 in Hy. cbn [app].
    apply altp_step; [exact Hab | exact Hbc | apply (IH y x Hy Hx)].
Qed.

Lemma altp_rev (E : nat -> nat -> Prop) M l : (forall a b, E a b -> E b a) -> altp E M l -> altp E M (rev l).
Proof.
  intros Hs. induction 1 as [x y Hxy|x y z l Hxy Hyz Hl IH].
  - cbn [rev app]. apply altp_edge. apply Hs, Hxy.
  - change (rev (x :: y :: z :: l)) with ((rev (z :: l) ++ [y]) ++ [x]).
    rewrite <- app_assoc. cbn [app]. apply altp_snoc; [exact IH | | apply Hs, Hxy].
    rewrite last_rev. cbn [hd]. apply medge_sym, Hyz.
Qed.

(* an augmenting path is an alternating path in the sense of [alt_from] *)
Lemma altp_alt_from adj M l : altp (nonm adj M) M l -> alt_from adj M false l.
Proof.
  induction 1 as [x y Hxy|x y z l Hxy Hyz Hl IH].
  - apply alt_n; [exact Hxy | apply alt_one].
  - apply alt_n; [exact Hxy|]. apply alt_m; [exact Hyz | exact IH].
Qed.

Theorem augmenting_alternating nodes adj M l : augmenting nodes adj M l -> alternating nodes adj M l.
Proof.
  intros [Ha [Hnd [Hn _]]]. split; [exact Hnd|]. split; [exact Hn|].
  exists false. apply altp_alt_from, Ha.
Qed.

(* the two ends of an augmenting path are distinct *)
Theorem augmenting_ends_distinct nodes adj M l : augmenting nodes adj M l -> hd 0 l <> last l 0.
Proof.
  intros [Ha [Hnd _]]. destruct (altp_len _ _ _ Ha) as [x [y [t ->]]]. cbn [hd].
  apply nodup_hd_last, Hnd.
Qed.

(* ------------------------------------------------------------------ *)
(* (a) flipping an augmenting path                                     *)

Lemma pairs_of_endpoints E M l : altp E M l -> endpoints (pairs_of l) = l.
Proof.
  induction 1 as [x y H|x y z l H1 H2 H3 IH]; [reflexivity|].
  change (pairs_of (x :: y :: z :: l)) with ((x, y) :: pairs_of (z :: l)).
  rewrite endpoints_cons, IH. reflexivity.
Qed.

Lemma pairs_of_E E M l : altp E M l -> forall i j, In (i, j) (pairs_of l) -> E i j.
Proof.
  induction 1 as [x y H|x y z l H1 H2 H3 IH]; intros i j Hin.
  - cbn [pairs_of In] in Hin. destruct Hin as [Hin|[]]. injection Hin as <- <-. exact H.
  - change (pairs_of (x :: y :: z :: l)) with ((x, y) :: pairs_of (z :: l)) in Hin.
    destruct Hin as [Hin|Hin]; [injection Hin as <- <-; exact H1 | apply IH; exact Hin].
Qed.

Theorem berge_flip nodes adj M l : is_matching nodes adj M -> augmenting nodes adj M l ->
  is_matching nodes adj (flip M l) /\ length (flip M l) = S (length M) /\
  (forall x, In x (endpoints M) -> In x (endpoints (flip M l))) /\
  (forall x, In x l -> In x (endpoints (flip M l))).
Proof.
  intros [Hnd Hm] [Ha [Hl [Hn [Hh Hw]]]].
  set (keep := fun p : nat * nat => negb (mem (fst p) l) && negb (mem (snd p) l)).
  assert (Hkeep : forall i j, In (i, j) (filter keep M) <-> In (i, j) M /\ ~ In i l /\ ~ In j l).
  { intros i j. rewrite filter_In. unfold keep. cbn [fst snd].
    rewrite andb_true_iff, !negb_true_iff, !mem_false. tauto. }
  assert (Hends : endpoints (flip M l) = endpoints (filter keep M) ++ l).
  { unfold flip. fold keep. rewrite endpoints_app, (pairs_of_endpoints _ _ _ Ha). reflexivity. }
  (* a covered vertex of the path has its partner on the path *)
  assert (Hclosed : forall b a, In b l -> medge M b a -> In a l).
  { intros b a Hb Hba. destruct (altp_inner _ _ _ Ha b Hb) as [E|[E|[c [Hc Hbc]]]].
    - exfalso. apply Hh. rewrite <- E. apply (medge_endpoints M b a Hba).
    - exfalso. apply Hw. rewrite <- E. apply (medge_endpoints M b a Hba).
    - rewrite (medge_unique M b a c Hnd Hba Hbc). exact Hc. }
  assert (Hcov : forall x, In x (endpoints M) -> In x (endpoints (flip M l))).
  { intros x Hx. rewrite Hends, in_app_iff.
    destruct (in_dec Nat.eq_dec x l) as [Hin|Hnin]; [right; exact Hin|]. left.
    apply In_endpoints in Hx. destruct Hx as [i [j [Hij Hx]]]. apply In_endpoints. exists i, j.
    split; [|exact Hx]. apply Hkeep. split; [exact Hij|]. destruct Hx as [-> | ->].
    - split; [exact Hnin|]. intros Hj. apply Hnin. apply (Hclosed j i Hj). right; exact Hij.
    - split; [|exact Hnin]. intros Hi. apply Hnin. apply (Hclosed i j Hi). left; exact Hij. }
  assert (Hnd' : NoDup (endpoints (flip M l))).
  { rewrite Hends. apply nodup_app'; [apply endpoints_filter_nodup; exact Hnd | exact Hl|].
    intros x Hx Hxl. apply In_endpoints in Hx. destruct Hx as [i [j [Hij Hx]]].
    apply Hkeep in Hij. destruct Hx as [-> | ->]; tauto. }
  split; [|split; [|split; [exact Hcov|]]].
  - split; [exact Hnd'|]. intros i j Hij. unfold flip in Hij. fold keep in Hij.
    apply in_app_or in Hij. destruct Hij as [Hij|Hij].
    + apply Hm. apply Hkeep in Hij. tauto.
    + pose proof (pairs_of_E _ _ _ Ha i j Hij) as [Hu _].
      assert (Hi : In i l /\ In j l).
      { rewrite <- (pairs_of_endpoints _ _ _ Ha). split; apply In_endpoints; exists i, j; auto. }
      destruct Hi as [Hi Hj]. auto.
  - destruct (altp_len _ _ _ Ha) as [x [y [t El]]].
    assert (Hne : hd 0 l <> last l 0).
    { rewrite El. cbn [hd]. apply nodup_hd_last. rewrite <- El. exact Hl. }
    assert (Hh' : In (hd 0 l) l) by (rewrite El; left; reflexivity).
    assert (Hw' : In (last l 0) l) by (apply last_in; rewrite El; discriminate).
    assert (L1 : length (endpoints (flip M l)) = length (hd 0 l :: last l 0 :: endpoints M)).
    { apply Nat.le_antisymm; apply NoDup_incl_length.
      - exact Hnd'.
      - intros z Hz. rewrite Hends in Hz. apply in_app_or in Hz. destruct Hz as [Hz|Hz].
        + right; right. eapply endpoints_filter_incl; eauto.
        + destruct (altp_inner _ _ _ Ha z Hz) as [E|[E|[c [_ Hzc]]]].
          * left; symmetry; exact E.
          * right; left; symmetry; exact E.
          * right; right. apply (medge_endpoints M z c Hzc).
      - constructor; [|constructor; [exact Hw | exact Hnd]].
        intros [E|Hin]; [apply Hne; symmetry; exact E | exact (Hh Hin)].
      - intros z [<-|[<-|Hz]].
        + rewrite Hends. apply in_or_app; right; exact Hh'.
        + rewrite Hends. apply in_or_app; right; exact Hw'.
        + apply Hcov, Hz. }
    cbn [length] in L1. rewrite !endpoints_length in L1. lia.
  - intros x Hx. rewrite Hends. apply in_or_app; right; exact Hx.
Qed.

(* an augmenting path from u gives a matching that covers what M covers, and u *)
Theorem augmenting_extends nodes adj M l : is_matching nodes adj M -> augmenting nodes adj M l ->
  extends nodes adj M (hd 0 l) /\ extends nodes adj M (last l 0).
Proof.
  intros HM HA. destruct (berge_flip nodes adj M l HM HA) as [H1 [_ [H3 H4]]].
  destruct HA as [Ha _]. destruct (altp_len _ _ _ Ha) as [x [y [t El]]].
  split; exists (flip M l); (split; [exact H1|]); (split; [exact H3|]); apply H4.
  - rewrite El. left; reflexivity.
  - apply last_in. rewrite El. discriminate.
Qed.

(* ------------------------------------------------------------------ *)
(* (b) a larger matching gives an augmenting path                      *)

Lemma exists_free (N M : list (nat * nat)) : NoDup (endpoints N) -> length M < length N ->
  exists x, In x (endpoints N) /\ ~ In x (endpoints M).
Proof.
  intros Hnd Hlt.
  assert (H : forall l : list nat, (forall x, In x l -> In x (endpoints M)) \/
                                   exists x, In x l /\ ~ In x (endpoints M)).
  { induction l as [|a t IH]; [left; intros x []|].
    destruct (in_dec Nat.eq_dec a (endpoints M)) as [Ha|Ha].
    - destruct IH as [IH|[x [H1 H2]]].
      + left. intros x [<-|Hx]; auto.
      + right. exists x. split; [right; exact H1 | exact H2].
    - right. exists a. split; [left; reflexivity | exact Ha]. }
  destruct (H (endpoints N)) as [Hall|Hex]; [|exact Hex]. exfalso.
  pose proof (NoDup_incl_length Hnd Hall) as Hle. rewrite !endpoints_length in Hle. lia.
Qed.

(* a pair of N that is not a pair of M *)
Definition EN (N M : list (nat * nat)) (x y : nat) : Prop := medge N x y /\ ~ medge M x y.

Lemma EN_sym N M a b : EN N M a b -> EN N M b a.
Proof. intros [H1 H2]. split; [apply medge_sym, H1 | intros H; apply H2, medge_sym, H]. Qed.

(* the symmetric-difference argument, as an induction on N: take a vertex x0 covered by N and free in
   M, its N-partner y; if y is free x0 y is the path; otherwise remove the pair x0 y from N and the
   pair y z from M, take a path for the smaller matchings and, if it ends in z, extend it by
   z y x0 *)
Lemma berge_core : forall k N M, length N = k -> NoDup (endpoints N) -> NoDup (endpoints M) ->
  length M < length N ->
  exists l, altp (EN N M) M l /\ NoDup l /\ mfree M (hd 0 l) /\ mfree M (last l 0).
Proof.
  induction k as [|k IH]; intros N M Hk HN HM Hlt; [lia|].
  destruct (exists_free N M HN Hlt) as [x0 [Hx0N Hx0M]].
  destruct (endpoints_medge N x0 Hx0N) as [y Hx0y].
  destruct (medge_remove N x0 y HN Hx0y) as [N1 [LN [HN1 [EN1 [Nx0 [Ny Hx0y_ne]]]]]].
  assert (Ex0y : EN N M x0 y).
  { split; [exact Hx0y|]. intros H. apply Hx0M. apply (medge_endpoints M x0 y H). }
  destruct (in_dec Nat.eq_dec y (endpoints M)) as [HyM|HyM].
  2:{ exists [x0; y]. split; [apply altp_edge; exact Ex0y|].
      split; [|split; [exact Hx0M | exact HyM]].
      constructor; [intros [E|[]]; apply Hx0y_ne; symmetry; exact E|].
      constructor; [intros [] | constructor]. }
  destruct (endpoints_medge M y HyM) as [z Hyz].
  destruct (medge_remove M y z HM Hyz) as [M1 [LM [HM1 [EM1 [My [Mz Hyz_ne]]]]]].
  destruct (IH N1 M1) as [Q [HQ [QN [Qh Qw]]]]; [lia | exact HN1 | exact HM1 | lia |].
  assert (QinN1 : forall a, In a Q -> In a (endpoints N1)).
  { intros a Ha. destruct (altp_vertices _ _ _ HQ a Ha) as [b [_ [[H _]|[H _]]]];
      apply (medge_endpoints N1 _ _ H). }
  assert (Qx0 : ~ In x0 Q) by (intros H; apply Nx0, QinN1, H).
  assert (Qy : ~ In y Q) by (intros H; apply Ny, QinN1, H).
  assert (HQ' : altp (EN N M) M Q).
  { apply (altp_mono (EN N1 M1) (EN N M) M1 M Q); [| exact HQ |].
    - intros a b H. apply EM1. right; right; exact H.
    - intros a b Ha Hb [H1 H2]. split; [apply EN1; right; right; exact H1|].
      intros H. apply EM1 in H. destruct H as [[-> _] | [[_ ->] | H]];
        [exact (Qy Ha) | exact (Qy Hb) | exact (H2 H)]. }
  assert (Hfree : forall a, mfree M1 a -> a <> y -> a <> z -> mfree M a).
  { intros a Ha Hay Haz Hin. destruct (endpoints_medge M a Hin) as [b Hab]. apply EM1 in Hab.
    destruct Hab as [[E _]|[[E _]|H]]; [congruence | congruence |].
    apply Ha. apply (medge_endpoints M1 a b H). }
  assert (Hcase : forall Q', altp (EN N M) M Q' -> NoDup Q' -> ~ In x0 Q' -> ~ In y Q' ->
            hd 0 Q' = z -> mfree M1 (last Q' 0) ->
            exists l, altp (EN N M) M l /\ NoDup l /\ mfree M (hd 0 l) /\ mfree M (last l 0)).
  { intros Q' A1 A2 A3 A4 A5 A6. destruct (altp_len _ _ _ A1) as [a [b [t E]]]. subst Q'.
    cbn [hd] in A5. subst a.
    exists (x0 :: y :: z :: b :: t).
    split; [apply altp_step; [exact Ex0y | exact Hyz | exact A1]|].
    split.
    { constructor; [intros [E|H]; [apply Hx0y_ne; symmetry; exact E | exact (A3 H)]|].
      constructor; [exact A4 | exact A2]. }
    split; [exact Hx0M|].
    do 2 rewrite last_cons2. apply Hfree; [exact A6 | | ].
    - intros E. apply A4. rewrite <- E. apply last_in. discriminate.
    - intros E. apply (nodup_hd_last z b t A2). symmetry; exact E. }
  destruct (altp_len _ _ _ HQ') as [q0 [q1 [qt EQ]]].
  assert (Qhin : In (hd 0 Q) Q) by (rewrite EQ; left; reflexivity).
  assert (Qwin : In (last Q 0) Q) by (apply last_in; rewrite EQ; discriminate).
  destruct (Nat.eq_dec (hd 0 Q) z) as [Ehz|Nhz].
  - apply (Hcase Q); assumption.
  - destruct (Nat.eq_dec (last Q 0) z) as [Ewz|Nwz].
    + apply (Hcase (rev Q)).
      * apply altp_rev; [apply EN_sym | exact HQ'].
      * apply NoDup_rev. exact QN.
      * rewrite <- in_rev. exact Qx0.
      * rewrite <- in_rev. exact Qy.
      * rewrite hd_rev. exact Ewz.
      * rewrite last_rev. exact Qh.
    + exists Q. split; [exact HQ'|]. split; [exact QN|]. split; apply Hfree; auto.
      * intros E. apply Qy. rewrite <- E. exact Qhin.
      * intros E. apply Qy. rewrite <- E. exact Qwin.
Qed.

Theorem berge_path nodes adj M M' : is_matching nodes adj M -> is_matching nodes adj M' ->
  length M < length M' -> exists l, augmenting nodes adj M l.
Proof.
  intros [HM Hm] [HM' Hm'] Hlt.
  destruct (berge_core (length M') M' M eq_refl HM' HM Hlt) as [l [Ha [Hnd [Hh Hw]]]].
  exists l. split; [|split; [exact Hnd|split; [|split; [exact Hh | exact Hw]]]].
  - apply (altp_mono (EN M' M) (nonm adj M) M M l); [auto | exact Ha|].
    intros a b _ _ [H1 H2]. split; [|exact H2].
    destruct H1 as [H1|H1]; destruct (Hm' _ _ H1) as [_ [_ Hu]]; [exact Hu | rewrite uadj_comm; exact Hu].
  - intros x Hx. destruct (altp_vertices _ _ _ Ha x Hx) as [b [_ [[H _]|[H _]]]];
      apply (matching_endpoints (conj HM' Hm')); apply (medge_endpoints M' _ _ H).
Qed.

(* ------------------------------------------------------------------ *)
(* Berge's theorem                                                     *)

Theorem berge nodes adj M :
  is_maximum nodes adj M <-> (is_matching nodes adj M /\ forall l, ~ augmenting nodes adj M l).
Proof.
  split.
  - intros [HM Hmax]. split; [exact HM|]. intros l Hl.
    destruct (berge_flip nodes adj M l HM Hl) as [H1 [H2 _]]. specialize (Hmax _ H1). lia.
  - intros [HM Hno]. split; [exact HM|]. intros M' HM'.
    destruct (Nat.le_gt_cases (length M') (length M)) as [Hle|Hgt]; [exact Hle|].
    exfalso. destruct (berge_path nodes adj M M' HM HM' Hgt) as [l Hl]. exact (Hno l Hl).
Qed.

(* the vertex form used for the search: there is an augmenting path with end u exactly when some
   matching covers u and everything M covers *)
Theorem extends_augmenting nodes adj M u : is_matching nodes adj M -> mfree M u ->
  extends nodes adj M u -> exists l, augmenting nodes adj M l.
Proof.
  intros HM Hu [N [HN [Hcov HuN]]].
  apply (berge_path nodes adj M N HM HN).
  destruct HM as [HM _]. destruct HN as [HN _].
  assert (Hle : length (u :: endpoints M) <= length (endpoints N)).
  { apply NoDup_incl_length; [constructor; [exact Hu | exact HM]|].
    intros x [<-|Hx]; [exact HuN | apply Hcov, Hx]. }
  cbn [length] in Hle. rewrite !endpoints_length in Hle. lia.
Qed.

(* ------------------------------------------------------------------ *)
(* B2: mate vectors of a view                                          *)

Lemma medge_m_edges m x y : msym m -> (medge (m_edges m) x y <-> m_mate m x = Some y).
Proof.
  intros Hs. unfold medge. rewrite !m_edges_spec. split.
  - intros [[_ H]|[_ H]]; [exact H | apply (Hs y x H)].
  - intros H. destruct (Hs x y H) as [H' Hne].
    destruct (Nat.lt_ge_cases x y) as [Hlt|Hge]; [left; auto | right; split; [lia | exact H']].
Qed.

Lemma mfree_m_edges m x : msym m -> (mfree (m_edges m) x <-> m_mate m x = None).
Proof.
  intros Hs. unfold mfree. rewrite <- (m_nodes_endpoints m x Hs), m_nodes_spec. split.
  - intros H. destruct (m_mate m x) as [j|]; [exfalso; apply H; eauto | reflexivity].
  - intros H [j Hj]. congruence.
Qed.

(* a valid matching without augmenting path has the size of the exhaustive-search optimum *)
Theorem no_augmenting_is_maximum v m n : VOk v -> valid_matching v m n ->
  (forall l, ~ vaugmenting v m l) -> n = max_matching_size (vnodes v) (vadj v).
Proof.
  intros Hv Hm Hno. destruct (valid_is_matching v m n Hv Hm) as [HM HL].
  pose proof (mms_upper (vnodes v) (vadj v) (m_edges m) HM) as Hup.
  destruct (mms_attained (vnodes v) (vadj v)) as [M' [HM' HL']].
  destruct (Nat.le_gt_cases (length M') (length (m_edges m))) as [Hle|Hgt]; [lia|].
  exfalso. destruct (berge_path _ _ _ _ HM HM' Hgt) as [l Hl]. exact (Hno l Hl).
Qed.

(* and conversely *)
Theorem maximum_no_augmenting v m n : VOk v -> valid_matching v m n ->
  n = max_matching_size (vnodes v) (vadj v) -> forall l, ~ vaugmenting v m l.
Proof.
  intros Hv Hm Hn l Hl. destruct (valid_is_matching v m n Hv Hm) as [HM HL].
  destruct (berge_flip _ _ _ _ HM Hl) as [H1 [H2 _]].
  pose proof (mms_upper _ _ _ H1) as Hup. lia.
Qed.

(* the same with the free-vertex form *)
Theorem no_extension_is_maximum v m n : VOk v -> valid_matching v m n ->
  (forall u, m_mate m u = None -> ~ extends (vnodes v) (vadj v) (m_edges m) u) ->
  n = max_matching_size (vnodes v) (vadj v).
Proof.
  intros Hv Hm Hno. apply (no_augmenting_is_maximum v m n Hv Hm). intros l Hl.
  destruct (valid_is_matching v m n Hv Hm) as [HM _].
  destruct (augmenting_extends _ _ _ _ HM Hl) as [He _].
  destruct Hm as [_ [Hs _]]. destruct Hl as [_ [_ [_ [Hh _]]]].
  apply (Hno (hd 0 l)); [apply mfree_m_edges; assumption | exact He].
Qed.

Print Assumptions berge.
Print Assumptions berge_flip.
Print Assumptions berge_path.
Print Assumptions no_augmenting_is_maximum.
