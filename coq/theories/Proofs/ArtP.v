(* articulation_points (Model/CutM.v) on a symmetric well-formed view: the explicit-stack
   machine never panics or runs out of fuel, and it returns exactly the cut nodes.

   The proof follows one call "visit cur" (BaseStep cur, its ProcessChild entries with the
   nested visits, RootCheck cur) as a big step of the machine, with the list O of open nodes
   (the callers, innermost first) as a ghost parameter. *)
From PG Require Import Lib.Io Model.View Model.Traversal Model.MatchM Model.CutM
                       Spec.Reach Spec.CutSpec Proofs.TravBase Proofs.DomSpecP
                       Proofs.ArtMachP Proofs.ArtGraphP.

Section Art.
Variable v : view.
Hypothesis Hv : VOk v.
Hypothesis Hsym : symmetric v.
Hypothesis Hbound : forall n, In n (vnodes v) -> n < vbound v.

Notation sz := (vbound v).
Notation cw := (connected_without v).

Lemma step_nodes a b : step v a b -> In a (vnodes v) /\ In b (vnodes v).
Proof. destruct Hv as [_ [Hn _]]. apply Hn. Qed.

(* newly visited between t and t' *)
Definition Nw (t t' : apt) (x : nat) : Prop := vis t' x = true /\ vis t x = false.

Record WFS (t : apt) : Prop := {
  s_sized : Sized v t;
  s_disc : forall x, vis t x = true -> exists d, dsc t x = Some d /\ d < a_time t;
  s_low : forall x, vis t x = true -> exists l, lw t x = Some l;
  s_nd : NoDup (a_pts t)
}.

(* every visited node that is not open has all its neighbours visited *)
Definition Closed (O : list nat) (t : apt) : Prop :=
  forall y z, vis t y = true -> ~ In y O -> step v y z -> vis t z = true.

Record Pre (O : list nat) (cur : nat) (cc : list (nat * nat)) (t : apt) : Prop := {
  p_wf : WFS t;
  p_cur : vis t cur = false;
  p_node : In cur (vnodes v);
  p_closed : Closed O t;
  p_open : forall y, In y O -> vis t y = true;
  p_par : par t cur = hd_error O;
  p_paru : forall x, vis t x = false -> x <> cur -> par t x = None;
  p_edge : forall p, hd_error O = Some p -> step v p cur;
  p_chain : forall p y, hd_error O = Some p -> In y O -> reach_in (fun z => In z O) v y p;
  p_cc : O = [] -> assoc_nat cc cur = None
}.

(* the invariant of the loop over the ProcessChild entries of cur; (t0, cc0) is the state
   in which cur was called, done lists the neighbours of cur processed so far *)
Record LI (O : list nat) (cur : nat) (t0 : apt) (cc0 : list (nat * nat)) (done : list nat)
          (t1 : apt) (cc1 : list (nat * nat)) : Prop := {
  l_wf : WFS t1;
  l_tm : a_time t0 <= a_time t1;
  l_mono : forall x, vis t0 x = true -> vis t1 x = true;
  l_cur : vis t1 cur = true;
  l_frame : forall x, vis t0 x = true ->
              dsc t1 x = dsc t0 x /\ lw t1 x = lw t0 x /\ par t1 x = par t0 x;
  l_curd : dsc t1 cur = Some (a_time t0);
  l_curp : par t1 cur = par t0 cur;
  l_paru : forall x, vis t1 x = false -> par t1 x = None;
  l_closed : Closed (cur :: O) t1;
  l_done : forall y, In y done -> vis t1 y = true;
  l_conn : forall x, Nw t0 t1 x -> reach_in (Nw t0 t1) v cur x;
  l_time : forall x, Nw t0 t1 x -> exists d, dsc t1 x = Some d /\ a_time t0 <= d;
  l_low : exists L, lw t1 cur = Some L /\ L <= a_time t0 /\
     (forall x y, (Nw t0 t1 x /\ x <> cur) \/ (x = cur /\ In y done) -> step v x y ->
                  vis t0 y = true -> ~ (x = cur /\ par t0 cur = Some y) ->
                  exists dy, dsc t0 y = Some dy /\ L <= dy) /\
     (L = a_time t0 \/
      exists x y dy, Nw t0 t1 x /\ step v x y /\ vis t0 y = true /\ dsc t0 y = Some dy /\ L = dy);
  l_pts_inc : forall c, In c (a_pts t0) -> In c (a_pts t1);
  l_pts : forall c, In c (a_pts t1) -> In c (a_pts t0) \/ (Nw t0 t1 c /\ cut_node v c);
  l_E : forall p, par t0 cur = Some p -> ~ In cur (a_pts t1) ->
          forall x, Nw t0 t1 x -> x <> cur -> cw cur x p;
  l_G : forall c', Nw t0 t1 c' -> c' <> cur -> ~ In c' (a_pts t1) ->
          forall x, Nw t0 t1 x -> x <> c' -> cw c' x cur;
  l_root : O = [] ->
     (cc_cnt cc1 cur = 0 /\ forall x, Nw t0 t1 x -> x = cur) \/
     (cc_cnt cc1 cur = 1 /\ exists w1, Nw t0 t1 w1 /\ w1 <> cur /\
        (forall x, Nw t0 t1 x -> x <> cur -> reach_in (fun z => Nw t0 t1 z /\ z <> cur) v w1 x) /\
        (forall x y, Nw t0 t1 x -> x <> cur -> step v x y -> Nw t0 t1 y)) \/
     (2 <= cc_cnt cc1 cur /\ cut_node v cur);
  l_cc : forall z, vis t0 z = true -> assoc_nat cc1 z = assoc_nat cc0 z
}.

Record Post (O : list nat) (cur : nat) (t0 : apt) (cc0 : list (nat * nat))
            (t' : apt) (cc' : list (nat * nat)) : Prop := {
  q_wf : WFS t';
  q_tm : a_time t0 <= a_time t';
  q_mono : forall x, vis t0 x = true -> vis t' x = true;
  q_cur : vis t' cur = true;
  q_frame : forall x, vis t0 x = true ->
              dsc t' x = dsc t0 x /\ lw t' x = lw t0 x /\ par t' x = par t0 x;
  q_curd : dsc t' cur = Some (a_time t0);
  q_curp : par t' cur = par t0 cur;
  q_paru : forall x, vis t' x = false -> par t' x = None;
  q_closed : Closed O t';
  q_conn : forall x, Nw t0 t' x -> reach_in (Nw t0 t') v cur x;
  q_time : forall x, Nw t0 t' x -> exists d, dsc t' x = Some d /\ a_time t0 <= d;
  q_low : exists L, lw t' cur = Some L /\ L <= a_time t0 /\
     (forall x y, Nw t0 t' x -> step v x y -> vis t0 y = true ->
                  ~ (x = cur /\ par t0 cur = Some y) ->
                  exists dy, dsc t0 y = Some dy /\ L <= dy) /\
     (L = a_time t0 \/
      exists x y dy, Nw t0 t' x /\ step v x y /\ vis t0 y = true /\ dsc t0 y = Some dy /\ L = dy);
  q_pts_inc : forall c, In c (a_pts t0) -> In c (a_pts t');
  q_pts : forall c, In c (a_pts t') -> In c (a_pts t0) \/ (Nw t0 t' c /\ cut_node v c);
  q_E : forall p, par t0 cur = Some p -> ~ In cur (a_pts t') ->
          forall x, Nw t0 t' x -> x <> cur -> cw cur x p;
  q_G : forall c', Nw t0 t' c' -> c' <> cur -> ~ In c' (a_pts t') ->
          forall x, Nw t0 t' x -> x <> c' -> cw c' x cur;
  q_R : O = [] -> ~ In cur (a_pts t') ->
          forall a b, Nw t0 t' a -> Nw t0 t' b -> a <> cur -> b <> cur -> cw cur a b;
  q_cc : forall z, vis t0 z = true -> assoc_nat cc' z = assoc_nat cc0 z
}.

(* ---- small facts about the state transformers ---- *)
Lemma vis_base cur t x : Sized v t -> cur < sz ->
  vis (st_base cur t) x = if Nat.eqb cur x then true else vis t x.
Proof.
  intros Z Hc. unfold vis, st_base. cbn [a_vis]. rewrite nth_upd.
  destruct (Nat.eqb cur x); [|reflexivity]. cbn [andb].
  pose proof (z_vis v t Z) as H. apply Nat.ltb_lt in Hc. rewrite H, Hc. reflexivity.
Qed.

Lemma dsc_base cur t x : Sized v t -> cur < sz ->
  dsc (st_base cur t) x = if Nat.eqb cur x then Some (a_time t) else dsc t x.
Proof.
  intros Z Hc. unfold dsc, st_base. cbn [a_disc]. rewrite nth_upd.
  destruct (Nat.eqb cur x); [|reflexivity]. cbn [andb].
  pose proof (z_disc v t Z) as H. apply Nat.ltb_lt in Hc. rewrite H, Hc. reflexivity.
Qed.

Lemma lw_base cur t x : Sized v t -> cur < sz ->
  lw (st_base cur t) x = if Nat.eqb cur x then Some (a_time t) else lw t x.
Proof.
  intros Z Hc. unfold lw, st_base. cbn [a_low]. rewrite nth_upd.
  destruct (Nat.eqb cur x); [|reflexivity]. cbn [andb].
  pose proof (z_low v t Z) as H. apply Nat.ltb_lt in Hc. rewrite H, Hc. reflexivity.
Qed.

Lemma lw_low cur o t x : Sized v t -> cur < sz ->
  lw (st_low cur o t) x = if Nat.eqb cur x then o else lw t x.
Proof.
  intros Z Hc. unfold lw, st_low. cbn [a_low]. rewrite nth_upd.
  destruct (Nat.eqb cur x); [|reflexivity]. cbn [andb].
  pose proof (z_low v t Z) as H. apply Nat.ltb_lt in Hc. rewrite H, Hc. reflexivity.
Qed.

Lemma par_tree cur ch t x : Sized v t -> ch < sz ->
  par (st_tree cur ch t) x = if Nat.eqb ch x then Some cur else par t x.
Proof.
  intros Z Hc. unfold par, st_tree. cbn [a_parent]. rewrite nth_upd.
  destruct (Nat.eqb ch x); [|reflexivity]. cbn [andb].
  pose proof (z_par v t Z) as H. apply Nat.ltb_lt in Hc. rewrite H, Hc. reflexivity.
Qed.

(* ---- the state after BaseStep ---- *)
Lemma li_init O cur cc0 t0 : Pre O cur cc0 t0 -> LI O cur t0 cc0 [] (st_base cur t0) cc0.
Proof.
  intros [W Hc Hn Hcl Hop Hp Hpu He Hch Hcc].
  pose proof (s_sized t0 W) as Z. pose proof (Hbound cur Hn) as Hlt.
  assert (Hvb : forall x, vis (st_base cur t0) x = if Nat.eqb cur x then true else vis t0 x)
    by (intros x; apply vis_base; assumption).
  assert (Hnw : forall x, Nw t0 (st_base cur t0) x -> x = cur).
  { intros x [H1 H2]. rewrite Hvb in H1. destruct (Nat.eqb_spec cur x); [congruence|congruence]. }
  assert (Hnc : Nw t0 (st_base cur t0) cur).
  { split; [rewrite Hvb, Nat.eqb_refl; reflexivity | exact Hc]. }
  constructor.
  - constructor.
    + apply sized_base; exact Z.
    + intros x Hx. rewrite Hvb in Hx. rewrite dsc_base by assumption. cbn [st_base a_time].
      destruct (Nat.eqb_spec cur x); [exists (a_time t0); split; [reflexivity | lia]|].
      destruct (s_disc t0 W x Hx) as [d [H1 H2]]. exists d. split; [exact H1 | lia].
    + intros x Hx. rewrite Hvb in Hx. rewrite lw_base by assumption.
      destruct (Nat.eqb_spec cur x); [eexists; reflexivity|]. apply (s_low t0 W x Hx).
    + apply (s_nd t0 W).
  - cbn [st_base a_time]. lia.
  - intros x Hx. rewrite Hvb. destruct (Nat.eqb cur x); [reflexivity | exact Hx].
  - rewrite Hvb, Nat.eqb_refl. reflexivity.
  - intros x Hx. assert (cur <> x) by congruence.
    rewrite dsc_base, lw_base by assumption. destruct (Nat.eqb_spec cur x); [congruence|].
    repeat split; reflexivity.
  - rewrite dsc_base by assumption. rewrite Nat.eqb_refl. reflexivity.
  - reflexivity.
  - intros x Hx. rewrite Hvb in Hx. destruct (Nat.eqb_spec cur x) as [|Hne]; [discriminate|].
    apply (Hpu x Hx). congruence.
  - intros y z Hy Hno Hs. rewrite Hvb in Hy. rewrite Hvb.
    destruct (Nat.eqb_spec cur z); [reflexivity|].
    destruct (Nat.eqb_spec cur y) as [->|Hne]; [exfalso; apply Hno; left; reflexivity|].
    apply (Hcl y z Hy); [intros Hin; apply Hno; right; exact Hin | exact Hs].
  - intros y [].
  - intros x Hx. rewrite (Hnw x Hx). apply ri_refl. exact Hnc.
  - intros x Hx. rewrite (Hnw x Hx). exists (a_time t0). split; [|lia].
    rewrite dsc_base by assumption. rewrite Nat.eqb_refl. reflexivity.
  - exists (a_time t0). split; [rewrite lw_base by assumption; rewrite Nat.eqb_refl; reflexivity|].
    split; [lia|]. split; [|left; reflexivity].
    intros x y [[Hx Hne]|[_ []]]. exfalso. apply Hne, Hnw, Hx.
  - intros c Hc'. exact Hc'.
  - intros c Hc'. left; exact Hc'.
  - intros p _ _ x Hx Hne. exfalso. apply Hne, Hnw, Hx.
  - intros c' Hc' Hne. exfalso. apply Hne, Hnw, Hc'.
  - intros HO. left. split; [unfold cc_cnt; rewrite (Hcc HO); reflexivity | exact Hnw].
  - intros z _. reflexivity.
Qed.

(* ---- ProcessChild cur ch, ch visited and the parent of cur: nothing changes ---- *)
Lemma li_skip O cur t0 cc0 done t1 cc1 ch :
  LI O cur t0 cc0 done t1 cc1 -> vis t1 ch = true -> par t1 cur = Some ch ->
  LI O cur t0 cc0 (ch :: done) t1 cc1.
Proof.
  intros I Hch Hp. destruct I. constructor; try assumption.
  - intros y [<-|Hy]; [exact Hch | apply l_done0; exact Hy].
  - destruct l_low0 as [L [H1 [H2 [H3 H4]]]]. exists L. split; [exact H1|]. split; [exact H2|].
    split; [|exact H4]. intros x y Hxy Hs Hy Hex.
    apply (H3 x y); try assumption.
    destruct Hxy as [Hxy|[-> [<-|Hin]]]; [left; exact Hxy | | right; split; [reflexivity | exact Hin]].
    exfalso. apply Hex. split; [reflexivity|]. rewrite <- l_curp0. exact Hp.
Qed.

(* ---- ProcessChild cur ch, ch visited, not the parent: low[cur] takes disc[ch] in ---- *)
Lemma li_back O cur t0 cc0 done t1 cc1 ch :
  Pre O cur cc0 t0 -> LI O cur t0 cc0 done t1 cc1 -> step v cur ch ->
  vis t1 ch = true -> par t1 cur <> Some ch ->
  LI O cur t0 cc0 (ch :: done) (st_low cur (omin (lw t1 cur) (dsc t1 ch)) t1) cc1.
Proof.
  intros P I Hs Hch Hp. destruct I.
  pose proof (s_sized t1 l_wf0) as Z.
  assert (Hlt : cur < sz) by (apply Hbound, (p_node O cur cc0 t0 P)).
  destruct l_low0 as [L [HL1 [HL2 [HL3 HL4]]]].
  destruct (s_disc t1 l_wf0 ch Hch) as [dch [Hd1 Hd2]].
  assert (Hom : omin (lw t1 cur) (dsc t1 ch) = Some (Nat.min L dch)) by (rewrite HL1, Hd1; reflexivity).
  rewrite Hom.
  assert (Hlw : forall x, lw (st_low cur (Some (Nat.min L dch)) t1) x =
                          if Nat.eqb cur x then Some (Nat.min L dch) else lw t1 x)
    by (intros x; apply lw_low; assumption).
  assert (Hc0 : vis t0 cur = false) by (apply (p_cur O cur cc0 t0 P)).
  constructor; try assumption.
  - constructor.
    + apply sized_low; exact Z.
    + apply (s_disc t1 l_wf0).
    + intros x Hx. rewrite Hlw. destruct (Nat.eqb cur x); [eexists; reflexivity | apply (s_low t1 l_wf0 x Hx)].
    + apply (s_nd t1 l_wf0).
  - intros x Hx. destruct (l_frame0 x Hx) as [F1 [F2 F3]]. split; [exact F1|]. split; [|exact F3].
    rewrite Hlw. destruct (Nat.eqb_spec cur x) as [->|]; [congruence | exact F2].
  - intros y [<-|Hy]; [exact Hch | apply l_done0; exact Hy].
  - exists (Nat.min L dch). split; [rewrite Hlw, Nat.eqb_refl; reflexivity|]. split; [lia|]. split.
    + intros x y Hxy Hsx Hy Hex.
      destruct Hxy as [Hxy|[-> [<-|Hin]]].
      * destruct (HL3 x y (or_introl Hxy) Hsx Hy Hex) as [dy [E1 E2]]. exists dy. split; [exact E1 | lia].
      * destruct (l_frame0 ch Hy) as [F1 _]. exists dch. split; [rewrite <- F1; exact Hd1 | lia].
      * destruct (HL3 cur y (or_intror (conj eq_refl Hin)) Hsx Hy Hex) as [dy [E1 E2]].
        exists dy. split; [exact E1 | lia].
    + destruct (Nat.le_gt_cases L dch) as [Hle|Hgt].
      * rewrite Nat.min_l by exact Hle. exact HL4.
      * rewrite Nat.min_r by lia. right.
        assert (Hv0 : vis t0 ch = true).
        { destruct (vis t0 ch) eqn:E0; [reflexivity | exfalso].
          destruct (l_time0 ch (conj Hch E0)) as [d [E1 E2]]. rewrite Hd1 in E1. injection E1 as <-. lia. }
        exists cur, ch, dch. split; [split; [exact l_cur0 | exact Hc0]|]. split; [exact Hs|].
        split; [exact Hv0|]. split; [|reflexivity]. destruct (l_frame0 ch Hv0) as [F1 _]. rewrite <- F1. exact Hd1.
Qed.

(* a set closed under steps that avoid c separates its members from the rest *)
Lemma cut_from_closed c (N : nat -> Prop) a b :
  In c (vnodes v) -> N a -> ~ N b -> a <> c -> b <> c -> connected v a b ->
  (forall x y, N x -> step v x y -> y <> c -> N y) -> cut_node v c.
Proof.
  intros Hc Ha Hb Hac Hbc Hab Hcl. split; [exact Hc|]. exists a, b.
  split; [exact Hac|]. split; [exact Hbc|]. split; [exact Hab|].
  intros H. apply Hb. apply (reach_in_closed v (fun y => y <> c) N a b Hcl Ha H).
Qed.

(* ---- the state in which a tree child is called ---- *)
Lemma pre_tree O cur t0 cc0 done t1 cc1 ch :
  Pre O cur cc0 t0 -> LI O cur t0 cc0 done t1 cc1 -> step v cur ch -> vis t1 ch = false ->
  Pre (cur :: O) ch (bump cc1 cur) (st_tree cur ch t1).
Proof.
  intros P I Hs Hch. destruct I.
  pose proof (s_sized t1 l_wf0) as Z.
  assert (Hchn : In ch (vnodes v)) by (apply (step_nodes cur ch Hs)).
  assert (Hlt : ch < sz) by (apply Hbound, Hchn).
  constructor.
  - constructor.
    + apply sized_tree; exact Z.
    + apply (s_disc t1 l_wf0).
    + apply (s_low t1 l_wf0).
    + apply (s_nd t1 l_wf0).
  - exact Hch.
  - exact Hchn.
  - exact l_closed0.
  - intros y [<-|Hy]; [exact l_cur0 | apply l_mono0, (p_open O cur cc0 t0 P y Hy)].
  - rewrite par_tree by assumption. rewrite Nat.eqb_refl. reflexivity.
  - intros x Hx Hne. rewrite par_tree by assumption.
    destruct (Nat.eqb_spec ch x); [congruence | apply l_paru0; exact Hx].
  - intros p Hp. cbn [hd_error] in Hp. injection Hp as <-. exact Hs.
  - intros p y Hp Hy. cbn [hd_error] in Hp. injection Hp as <-.
    destruct Hy as [<-|Hy]; [apply ri_refl; left; reflexivity|].
    destruct (hd_error O) as [p|] eqn:Ep; [|destruct O; [destruct Hy | discriminate Ep]].
    pose proof (p_chain O cur cc0 t0 P p y Ep Hy) as Hr.
    eapply ri_step; [|apply (p_edge O cur cc0 t0 P p Ep) | left; reflexivity].
    eapply reach_in_weaken; [|exact Hr]. intros z Hz. right; exact Hz.
  - discriminate.
Qed.

(* edges leaving the nodes visited under the child ch lead back into them or to cur, unless
   they reach an open node below cur *)
Lemma sub_closed O cur t0 cc0 done t1 cc1 ch t3 cc3 :
  Pre O cur cc0 t0 -> LI O cur t0 cc0 done t1 cc1 -> vis t1 ch = false ->
  Post (cur :: O) ch (st_tree cur ch t1) (bump cc1 cur) t3 cc3 ->
  (forall x y, Nw (st_tree cur ch t1) t3 x -> step v x y -> In y O -> False) ->
  forall x y, Nw (st_tree cur ch t1) t3 x -> step v x y -> y <> cur -> Nw (st_tree cur ch t1) t3 y.
Proof.
  intros P I Hch Q HO x y Hx Hs Hy. destruct I, Q.
  destruct Hx as [Hx3 Hx1]. change (vis t1 x = false) in Hx1.
  assert (HxO : ~ In x (cur :: O)).
  { intros [<-|Hin]; [congruence|].
    pose proof (l_mono0 x (p_open O cur cc0 t0 P x Hin)). congruence. }
  destruct (vis t1 y) eqn:Ey.
  - exfalso. destruct (in_dec Nat.eq_dec y (cur :: O)) as [[Hin|Hin]|Hout].
    + congruence.
    + apply (HO x y (conj Hx3 Hx1) Hs Hin).
    + pose proof (l_closed0 y x Ey Hout (step_sym v Hsym x y Hs)). congruence.
  - split; [|exact Ey]. apply (q_closed0 x y Hx3 HxO Hs).
Qed.

(* ---- ProcessChild cur ch with ch unvisited: the nested visit, then NoBackEdge cur ch ---- *)
Lemma li_tree O cur t0 cc0 done t1 cc1 ch t3 cc3 :
  Pre O cur cc0 t0 -> LI O cur t0 cc0 done t1 cc1 -> step v cur ch -> vis t1 ch = false ->
  Post (cur :: O) ch (st_tree cur ch t1) (bump cc1 cur) t3 cc3 ->
  LI O cur t0 cc0 (ch :: done) (st_ret cur ch t3) cc3.
Proof.
  intros P I Hs Hch Q.
  pose proof (sub_closed O cur t0 cc0 done t1 cc1 ch t3 cc3 P I Hch Q) as Hsub.
  destruct I, Q.
  set (ta := st_tree cur ch t1) in *. set (t2 := st_ret cur ch t3).
  pose proof (s_sized t3 q_wf0) as Z3. pose proof (s_sized t1 l_wf0) as Z1.
  assert (Hcn : In cur (vnodes v)) by (apply (p_node O cur cc0 t0 P)).
  assert (Hclt : cur < sz) by (apply Hbound, Hcn).
  assert (Hchlt : ch < sz) by (apply Hbound, (step_nodes cur ch Hs)).
  assert (Hc0 : vis t0 cur = false) by (apply (p_cur O cur cc0 t0 P)).
  assert (Hne : cur <> ch) by congruence.
  destruct l_low0 as [L [HL1 [HL2 [HL3 HL4]]]].
  destruct q_low0 as [Lw [HW1 [HW2 [HW3 HW4]]]].
  change (a_time ta) with (a_time t1) in *.
  assert (Hcur_ta : vis ta cur = true) by exact l_cur0.
  destruct (q_frame0 cur Hcur_ta) as [Fd [Fl Fp]].
  assert (Lcur : lw t3 cur = Some L) by (rewrite Fl; exact HL1).
  assert (Dcur : dsc t3 cur = Some (a_time t0)) by (rewrite Fd; exact l_curd0).
  assert (Pta : par ta cur = par t1 cur).
  { unfold ta. rewrite par_tree by assumption. destruct (Nat.eqb_spec ch cur); [congruence | reflexivity]. }
  assert (Pcur : par t3 cur = par t0 cur) by (rewrite Fp, Pta; exact l_curp0).
  assert (Pch : par ta ch = Some cur).
  { unfold ta. rewrite par_tree by assumption. rewrite Nat.eqb_refl. reflexivity. }
  assert (Hlw2 : forall x, lw t2 x = if Nat.eqb cur x then Some (Nat.min L Lw) else lw t3 x).
  { intros x. change (lw t2 x) with (lw (st_low cur (omin (lw t3 cur) (lw t3 ch)) t3) x).
    rewrite lw_low by assumption. rewrite Lcur, HW1. reflexivity. }
  assert (Hpts2 : forall c, In c (a_pts t2) <->
            In c (a_pts t3) \/ (c = cur /\ is_some (par t0 cur) = true /\ a_time t0 <= Lw)).
  { intros c. unfold t2, st_ret. cbn [st_pts a_pts]. rewrite Pcur, HW1, Dcur. cbn [oge].
    destruct (is_some (par t0 cur)); cbn [andb].
    - destruct (Nat.leb_spec (a_time t0) Lw) as [Hle|Hgt].
      + rewrite add_set_In'. cbn [st_low a_pts]. split; [intros [H|H]; [left; exact H | right; auto] | intros [H|[H _]]; auto].
      + cbn [st_low a_pts]. split; [intros H; left; exact H | intros [H|[_ [_ H]]]; [exact H | lia]].
    - cbn [st_low a_pts]. split; [intros H; left; exact H | intros [H|[_ [H _]]]; [exact H | discriminate]]. }
  assert (HN : forall x, Nw t0 t2 x <-> Nw t0 t1 x \/ Nw ta t3 x).
  { intros x. unfold Nw. change (vis t2 x) with (vis t3 x). change (vis ta x) with (vis t1 x). split.
    - intros [H1 H2]. destruct (vis t1 x) eqn:E; [left; split; auto | right; split; auto].
    - intros [[H1 H2]|[H1 H2]]; (split; [|]).
      + apply (q_mono0 x). exact H1.
      + exact H2.
      + exact H1.
      + destruct (vis t0 x) eqn:E; [|reflexivity]. apply l_mono0 in E. congruence. }
  assert (Hncur : forall z, Nw ta t3 z -> z <> cur).
  { intros z [_ Hz] ->. congruence. }
  assert (Hold0 : forall y, vis ta y = true -> (forall d, dsc ta y = Some d -> d < a_time t0) -> vis t0 y = true).
  { intros y Hy Hd. destruct (vis t0 y) eqn:E0; [reflexivity | exfalso].
    destruct (l_time0 y (conj Hy E0)) as [d [E1 E2]]. specialize (Hd d E1). lia. }
  constructor.
  - (* l_wf *) constructor.
    + unfold t2, st_ret. apply sized_pts, sized_low. exact Z3.
    + exact (s_disc t3 q_wf0).
    + intros x Hx. rewrite Hlw2. destruct (Nat.eqb cur x); [eexists; reflexivity | apply (s_low t3 q_wf0 x Hx)].
    + unfold t2, st_ret. cbn [st_pts a_pts].
      destruct (andb _ _); cbn [st_low a_pts]; [apply add_set_NoDup|]; apply (s_nd t3 q_wf0).
  - (* l_tm *) change (a_time t2) with (a_time t3). lia.
  - intros x Hx. apply (q_mono0 x), (l_mono0 x Hx).
  - apply (q_mono0 cur). exact l_cur0.
  - (* l_frame *) intros x Hx. pose proof (l_mono0 x Hx) as Hx1.
    destruct (l_frame0 x Hx) as [A1 [A2 A3]]. destruct (q_frame0 x Hx1) as [B1 [B2 B3]].
    split; [rewrite <- A1; exact B1|]. split.
    + rewrite Hlw2. destruct (Nat.eqb_spec cur x) as [->|Hn]; [congruence|]. rewrite <- A2. exact B2.
    + change (par t2 x) with (par t3 x). rewrite B3, <- A3. unfold ta. rewrite par_tree by assumption.
      destruct (Nat.eqb_spec ch x); [congruence | reflexivity].
  - exact Dcur.
  - exact Pcur.
  - exact q_paru0.
  - exact q_closed0.
  - intros y [<-|Hy]; [exact q_cur0 | apply (q_mono0 y), l_done0, Hy].
  - (* l_conn *) intros x Hx. apply HN in Hx. destruct Hx as [Hx|Hx].
    + eapply reach_in_weaken; [|apply l_conn0; exact Hx]. intros z Hz. apply HN. left; exact Hz.
    + apply (reach_in_left _ v cur ch x); [apply HN; left; split; assumption | exact Hs|].
      eapply reach_in_weaken; [|apply q_conn0; exact Hx]. intros z Hz. apply HN. right; exact Hz.
  - (* l_time *) intros x Hx. apply HN in Hx. destruct Hx as [Hx|Hx].
    + destruct (l_time0 x Hx) as [d [E1 E2]]. exists d. split; [|exact E2].
      destruct (q_frame0 x (proj1 Hx)) as [B1 _]. change (dsc t2 x) with (dsc t3 x). rewrite B1. exact E1.
    + destruct (q_time0 x Hx) as [d [E1 E2]]. exists d. split; [exact E1 | lia].
  - (* l_low *) exists (Nat.min L Lw). split; [rewrite Hlw2, Nat.eqb_refl; reflexivity|]. split; [lia|]. split.
    + intros x y Hxy Hsx Hy Hex. destruct Hxy as [[Hx Hxne]|[-> [<-|Hin]]].
      * apply HN in Hx. destruct Hx as [Hx|Hx].
        -- destruct (HL3 x y (or_introl (conj Hx Hxne)) Hsx Hy Hex) as [dy [E1 E2]].
           exists dy. split; [exact E1 | lia].
        -- destruct (HW3 x y Hx Hsx (l_mono0 y Hy)) as [dy [E1 E2]].
           { intros [-> Hpy]. rewrite Pch in Hpy. injection Hpy as <-. congruence. }
           exists dy. split; [rewrite <- (proj1 (l_frame0 y Hy)); exact E1 | lia].
      * exfalso. apply l_mono0 in Hy. congruence.
      * destruct (HL3 cur y (or_intror (conj eq_refl Hin)) Hsx Hy Hex) as [dy [E1 E2]].
        exists dy. split; [exact E1 | lia].
    + destruct (Nat.le_gt_cases L Lw) as [Hle|Hgt].
      * rewrite Nat.min_l by exact Hle.
        destruct HL4 as [E|[x [y [dy [Hx H]]]]]; [left; exact E | right].
        exists x, y, dy. split; [apply HN; left; exact Hx | exact H].
      * rewrite Nat.min_r by lia.
        destruct HW4 as [E|[x [y [dy [Hx [Hsx [Hvy [Hdy ELw]]]]]]]]; [lia | right].
        assert (Hv0 : vis t0 y = true).
        { apply (Hold0 y Hvy). intros d Hd. rewrite Hdy in Hd. injection Hd as <-. lia. }
        exists x, y, dy. split; [apply HN; right; exact Hx|]. split; [exact Hsx|]. split; [exact Hv0|].
        split; [rewrite <- (proj1 (l_frame0 y Hv0)); exact Hdy | exact ELw].
  - intros c Hc. apply Hpts2. left. apply (q_pts_inc0 c), l_pts_inc0, Hc.
  - (* l_pts *) intros c Hc. apply Hpts2 in Hc. destruct Hc as [Hc|[-> [Hp Hge]]].
    + destruct (q_pts0 c Hc) as [H|[H1 H2]].
      * destruct (l_pts0 c H) as [H'|[H1 H2]]; [left; exact H' | right; split; [apply HN; left; exact H1 | exact H2]].
      * right; split; [apply HN; right; exact H1 | exact H2].
    + right. split; [apply HN; left; split; assumption|].
      destruct (par t0 cur) as [p|] eqn:Ep; [|discriminate].
      assert (EO : hd_error O = Some p) by (rewrite <- (p_par O cur cc0 t0 P); exact Ep).
      assert (HpO : In p O) by (destruct O as [|p' O']; [discriminate | injection EO as ->; left; reflexivity]).
      assert (Hp0 : vis t0 p = true) by (apply (p_open O cur cc0 t0 P p HpO)).
      apply (cut_from_closed cur (Nw ta t3) ch p).
      * exact Hcn.
      * split; [exact q_cur0 | exact Hch].
      * intros [_ Hp']. change (vis t1 p = false) in Hp'. apply l_mono0 in Hp0. congruence.
      * congruence.
      * congruence.
      * eapply reach_step; [eapply reach_step; [apply reach_refl | apply (step_sym v Hsym cur ch Hs)]|].
        apply (step_sym v Hsym p cur). apply (p_edge O cur cc0 t0 P p EO).
      * apply Hsub. intros x y Hx Hsx HyO.
        assert (Hy0 : vis t0 y = true) by (apply (p_open O cur cc0 t0 P y HyO)).
        destruct (s_disc t0 (p_wf O cur cc0 t0 P) y Hy0) as [dy [E1 E2]].
        destruct (HW3 x y Hx Hsx (l_mono0 y Hy0)) as [dy' [E1' E2']].
        { intros [-> Hpy]. rewrite Pch in Hpy. injection Hpy as <-. congruence. }
        change (dsc t1 y = Some dy') in E1'. rewrite (proj1 (l_frame0 y Hy0)), E1 in E1'.
        injection E1' as <-. lia.
  - (* l_E *) intros p Hp Hnin x Hx Hxne. apply HN in Hx. destruct Hx as [Hx|Hx].
    + apply (l_E0 p Hp); [|exact Hx | exact Hxne].
      intros Hin. apply Hnin, Hpts2. left. apply (q_pts_inc0 cur). exact Hin.
    + assert (Hlt' : Lw < a_time t0).
      { destruct (Nat.lt_ge_cases Lw (a_time t0)) as [H|H]; [exact H | exfalso].
        apply Hnin, Hpts2. right. split; [reflexivity|]. split; [rewrite Hp; reflexivity | exact H]. }
      destruct HW4 as [E|[x' [y [dy [Hx' [Hsx [Hvy [Hdy ELw]]]]]]]]; [lia|].
      assert (Hv0 : vis t0 y = true).
      { apply (Hold0 y Hvy). intros d Hd. rewrite Hdy in Hd. injection Hd as <-. lia. }
      assert (HyO : In y O).
      { destruct (in_dec Nat.eq_dec y O) as [H|H]; [exact H | exfalso].
        pose proof (p_closed O cur cc0 t0 P y x' Hv0 H (step_sym v Hsym x' y Hsx)) as Hx0.
        apply l_mono0 in Hx0. destruct Hx' as [_ Hx']. change (vis t1 x' = false) in Hx'. congruence. }
      assert (EO : hd_error O = Some p) by (rewrite <- (p_par O cur cc0 t0 P); exact Hp).
      assert (Hycur : y <> cur) by congruence.
      apply (reach_in_trans v _ x y p).
      * eapply ri_step; [|exact Hsx | exact Hycur].
        eapply reach_in_weaken; [apply Hncur|].
        apply (reach_in_trans v _ x ch x'); [apply (reach_in_sym v Hsym), q_conn0, Hx | apply q_conn0, Hx'].
      * eapply reach_in_weaken; [|apply (p_chain O cur cc0 t0 P p y EO HyO)].
        intros z Hz ->. pose proof (p_open O cur cc0 t0 P cur Hz). congruence.
  - (* l_G *) intros c' Hc' Hcne Hnin x Hx Hxne.
    assert (Hnin3 : ~ In c' (a_pts t3)) by (intros H; apply Hnin, Hpts2; left; exact H).
    apply HN in Hc'. apply HN in Hx. destruct Hc' as [Hc'|Hc'].
    + assert (Hnin1 : ~ In c' (a_pts t1)) by (intros H; apply Hnin3, (q_pts_inc0 c'); exact H).
      destruct Hx as [Hx|Hx]; [apply (l_G0 c' Hc' Hcne Hnin1 x Hx Hxne)|].
      eapply ri_step; [|apply (step_sym v Hsym cur ch Hs) | congruence].
      eapply reach_in_weaken; [|apply (reach_in_sym v Hsym), q_conn0, Hx].
      intros z [_ Hz] ->. destruct Hc' as [Hc' _]. change (vis t1 c' = false) in Hz. congruence.
    + destruct Hx as [Hx|Hx].
      * eapply reach_in_weaken; [|apply (reach_in_sym v Hsym), l_conn0, Hx].
        intros z [Hz _] ->. destruct Hc' as [_ Hc']. change (vis t1 c' = false) in Hc'. congruence.
      * destruct (Nat.eq_dec c' ch) as [->|Hcch].
        -- apply (q_E0 cur Pch Hnin3 x Hx Hxne).
        -- eapply ri_step; [apply (q_G0 c' Hc' Hcch Hnin3 x Hx Hxne) | apply (step_sym v Hsym cur ch Hs) | congruence].
  - (* l_root *) intros HO.
    assert (Hcnt : cc_cnt cc3 cur = S (cc_cnt cc1 cur)).
    { unfold cc_cnt at 1. rewrite (q_cc0 cur Hcur_ta). fold (cc_cnt (bump cc1 cur) cur). apply bump_same. }
    assert (Hcl : forall x y, Nw ta t3 x -> step v x y -> y <> cur -> Nw ta t3 y).
    { apply Hsub. intros x y _ _ Hy. rewrite HO in Hy. destruct Hy. }
    destruct (l_root0 HO) as [[C0 Hall]|[[C1 [w1 [Hw1 [Hw1ne [Hconn Hclo]]]]]|[C2 Hcut]]].
    + right; left. split; [lia|]. exists ch. split; [apply HN; right; split; [exact q_cur0 | exact Hch]|].
      split; [congruence|]. split.
      * intros x Hx Hxn. apply HN in Hx. destruct Hx as [Hx|Hx]; [exfalso; apply Hxn, Hall, Hx|].
        eapply reach_in_weaken; [|apply q_conn0; exact Hx].
        intros z Hz. split; [apply HN; right; exact Hz | apply Hncur; exact Hz].
      * intros x y Hx Hxn Hsx. apply HN in Hx. destruct Hx as [Hx|Hx]; [exfalso; apply Hxn, Hall, Hx|].
        destruct (Nat.eq_dec y cur) as [->|Hyne]; [apply HN; left; split; assumption|].
        apply HN. right. apply (Hcl x y Hx Hsx Hyne).
    + right; right. split; [lia|].
      apply (cut_from_closed cur (fun z => Nw t0 t1 z /\ z <> cur) w1 ch).
      * exact Hcn.
      * split; assumption.
      * intros [[H _] _]. congruence.
      * exact Hw1ne.
      * congruence.
      * eapply reach_step; [|exact Hs]. apply (reachable_sym v Hsym).
        eapply reach_in_reachable. apply (l_conn0 w1 Hw1).
      * intros x y [Hx Hxn] Hsx Hyne. split; [apply (Hclo x y Hx Hxn Hsx) | exact Hyne].
    + right; right. split; [lia | exact Hcut].
  - (* l_cc *) intros z Hz. rewrite (q_cc0 z (l_mono0 z Hz)).
    rewrite bump_other; [apply l_cc0; exact Hz | intros ->; congruence].
Qed.

(* ---- RootCheck cur after all the neighbours of cur have been processed ---- *)
Lemma li_post O cur t0 cc0 done t2 cc2 :
  Pre O cur cc0 t0 -> LI O cur t0 cc0 done t2 cc2 -> (forall y, step v cur y -> In y done) ->
  Post O cur t0 cc0 (st_root cur cc2 t2) cc2.
Proof.
  intros P I Hall. destruct I.
  set (t' := st_root cur cc2 t2).
  assert (Hcn : In cur (vnodes v)) by (apply (p_node O cur cc0 t0 P)).
  assert (Hc0 : vis t0 cur = false) by (apply (p_cur O cur cc0 t0 P)).
  assert (Hpts' : forall c, In c (a_pts t') <->
            In c (a_pts t2) \/ (c = cur /\ par t0 cur = None /\ 2 <= cc_cnt cc2 cur)).
  { intros c. unfold t', st_root. cbn [st_pts a_pts]. rewrite l_curp0.
    destruct (par t0 cur) as [p|]; cbn [is_some negb andb].
    - split; [intros H; left; exact H | intros [H|[_ [H _]]]; [exact H | discriminate]].
    - destruct (Nat.ltb_spec 1 (cc_cnt cc2 cur)) as [Hlt|Hge].
      + rewrite add_set_In'. split; [intros [H|H]; [left; exact H | right; auto] | intros [H|[H _]]; auto].
      + split; [intros H; left; exact H | intros [H|[_ [_ H]]]; [exact H | lia]]. }
  assert (HO_of : par t0 cur = None -> O = []).
  { intros H. rewrite (p_par O cur cc0 t0 P) in H. destruct O; [reflexivity | discriminate]. }
  constructor; try assumption.
  - constructor.
    + unfold t', st_root. apply sized_pts. apply (s_sized t2 l_wf0).
    + exact (s_disc t2 l_wf0).
    + exact (s_low t2 l_wf0).
    + unfold t', st_root. cbn [st_pts a_pts]. destruct (andb _ _); [apply add_set_NoDup|]; apply (s_nd t2 l_wf0).
  - intros y z Hy HnO Hsz. destruct (Nat.eq_dec y cur) as [->|Hne].
    + apply l_done0, Hall, Hsz.
    + apply (l_closed0 y z Hy); [|exact Hsz]. intros [E|H]; [congruence | exact (HnO H)].
  - destruct l_low0 as [L [H1 [H2 [H3 H4]]]]. exists L. split; [exact H1|]. split; [exact H2|].
    split; [|exact H4]. intros x y Hx Hsx Hy Hex. apply (H3 x y); try assumption.
    destruct (Nat.eq_dec x cur) as [->|Hne]; [right; split; [reflexivity | apply Hall; exact Hsx] | left; split; assumption].
  - intros c Hc. apply Hpts'. left. apply l_pts_inc0, Hc.
  - intros c Hc. apply Hpts' in Hc. destruct Hc as [Hc|[-> [Hp Hcnt]]]; [apply l_pts0; exact Hc|].
    right. split; [split; assumption|].
    destruct (l_root0 (HO_of Hp)) as [[C _]|[[C _]|[_ Hcut]]]; [lia | lia | exact Hcut].
  - intros p Hp Hnin. apply (l_E0 p Hp). intros H. apply Hnin, Hpts'. left; exact H.
  - intros c' Hc' Hne Hnin. apply (l_G0 c' Hc' Hne). intros H. apply Hnin, Hpts'. left; exact H.
  - intros HO Hnin a b Ha Hb Hane Hbne.
    assert (Hp : par t0 cur = None) by (rewrite (p_par O cur cc0 t0 P), HO; reflexivity).
    destruct (l_root0 HO) as [[_ Hone]|[[_ [w1 [_ [_ [Hconn _]]]]]|[C _]]].
    + exfalso. apply Hane, Hone, Ha.
    + eapply reach_in_weaken; [|apply (reach_in_trans v _ a w1 b);
                                   [apply (reach_in_sym v Hsym), Hconn; assumption | apply Hconn; assumption]].
      intros z [_ Hz]. exact Hz.
    + exfalso. apply Hnin, Hpts'. right. split; [reflexivity|]. split; [exact Hp | exact C].
Qed.

(* ------------------------------------------------------------------ *)
(* The machine                                                         *)

Lemma option_nat_eq_dec (a b : option nat) : {a = b} + {a <> b}.
Proof. decide equality. apply Nat.eq_dec. Qed.

Definition VisitSpec (B : nat) : Prop :=
  forall O cur cc t, Pre O cur cc t -> phi v t <= B ->
  exists t' cc' k,
    (forall fuel rest, ap_loop (k + fuel) v (BaseStep cur :: rest) cc t = ap_loop fuel v rest cc' t') /\
    Post O cur t cc t' cc' /\ k + 1 + phi v t' <= phi v t.

Lemma loop_ok B : VisitSpec B -> forall chs O cur t0 cc0 done t1 cc1,
  Pre O cur cc0 t0 -> LI O cur t0 cc0 done t1 cc1 -> phi v t1 <= B ->
  (forall ch, In ch chs -> step v cur ch) ->
  exists t2 cc2 k,
    (forall fuel rest, ap_loop (k + fuel) v (map (ProcessChild cur) chs ++ rest) cc1 t1
                       = ap_loop fuel v rest cc2 t2) /\
    LI O cur t0 cc0 (rev chs ++ done) t2 cc2 /\ k + phi v t2 <= phi v t1 + length chs.
Proof.
  intros IHv. induction chs as [|ch chs IH]; intros O cur t0 cc0 done t1 cc1 P I HB Hst.
  - exists t1, cc1, 0. split; [intros; reflexivity|]. split; [exact I | cbn [length]; lia].
  - assert (Hs : step v cur ch) by (apply Hst; left; reflexivity).
    assert (Hst' : forall c, In c chs -> step v cur c) by (intros c Hc; apply Hst; right; exact Hc).
    pose proof (s_sized t1 (l_wf _ _ _ _ _ _ _ I)) as Z1.
    assert (Hclt : cur < sz) by (apply Hbound, (p_node O cur cc0 t0 P)).
    assert (Hchlt : ch < sz) by (apply Hbound, (step_nodes cur ch Hs)).
    cbn [map app rev length]. rewrite <- app_assoc. cbn [app].
    destruct (vis t1 ch) eqn:Ech.
    + destruct (option_nat_eq_dec (par t1 cur) (Some ch)) as [Ep|Ep].
      * pose proof (li_skip O cur t0 cc0 done t1 cc1 ch I Ech Ep) as I'.
        destruct (IH O cur t0 cc0 (ch :: done) t1 cc1 P I' HB Hst') as [t2 [cc2 [k [Hm [I2 Hk]]]]].
        exists t2, cc2, (S k). split; [|split; [exact I2 | lia]].
        intros fuel rest. cbn [Nat.add]. rewrite (E_skip v (k + fuel) cur ch _ cc1 t1 Z1 Hclt Ech Ep). apply Hm.
      * pose proof (li_back O cur t0 cc0 done t1 cc1 ch P I Hs Ech Ep) as I'.
        destruct (IH O cur t0 cc0 (ch :: done) _ cc1 P I' HB Hst') as [t2 [cc2 [k [Hm [I2 Hk]]]]].
        exists t2, cc2, (S k). split; [|split; [exact I2|]].
        -- intros fuel rest. cbn [Nat.add]. rewrite (E_back v (k + fuel) cur ch _ cc1 t1 Z1 Hclt Hchlt Ech Ep). apply Hm.
        -- change (phi v (st_low cur (omin (lw t1 cur) (dsc t1 ch)) t1)) with (phi v t1) in Hk. lia.
    + pose proof (pre_tree O cur t0 cc0 done t1 cc1 ch P I Hs Ech) as P'.
      destruct (IHv (cur :: O) ch (bump cc1 cur) (st_tree cur ch t1) P' HB) as [t3 [cc3 [kw [Hmw [Q Hkw]]]]].
      pose proof (li_tree O cur t0 cc0 done t1 cc1 ch t3 cc3 P I Hs Ech Q) as I'.
      change (phi v (st_tree cur ch t1)) with (phi v t1) in Hkw.
      assert (HB' : phi v (st_ret cur ch t3) <= B).
      { change (phi v (st_ret cur ch t3)) with (phi v t3). lia. }
      destruct (IH O cur t0 cc0 (ch :: done) _ cc3 P I' HB' Hst') as [t2 [cc2 [k [Hm [I2 Hk]]]]].
      change (phi v (st_ret cur ch t3)) with (phi v t3) in Hk.
      pose proof (s_sized t3 (q_wf _ _ _ _ _ _ Q)) as Z3.
      exists t2, cc2, (S (kw + S k)). split; [|split; [exact I2 | lia]].
      intros fuel rest. cbn [Nat.add].
      rewrite (E_tree v (kw + S k + fuel) cur ch _ cc1 t1 Z1 Hchlt Ech).
      replace (kw + S k + fuel) with (kw + S (k + fuel)) by lia. rewrite Hmw.
      rewrite (E_ret v (k + fuel) cur ch _ cc3 t3 Z3 Hclt Hchlt). apply Hm.
Qed.

Theorem visit_ok : forall B, VisitSpec B.
Proof.
  induction B as [|B IHB]; intros O cur cc t P HB.
  - exfalso. pose proof (phi_l_mark v (vis t) (fun _ => true) (vnodes v) cur (fun _ _ => eq_refl)
                          (p_node O cur cc t P) (p_cur O cur cc t P) eq_refl) as H.
    unfold phi in HB. lia.
  - pose proof (s_sized t (p_wf O cur cc t P)) as Z.
    assert (Hclt : cur < sz) by (apply Hbound, (p_node O cur cc t P)).
    assert (Hphi : phi v (st_base cur t) + 3 + outdeg v cur <= phi v t).
    { unfold phi. apply phi_l_mark.
      - intros x Hx. rewrite vis_base by assumption. destruct (Nat.eqb cur x); [reflexivity | exact Hx].
      - apply (p_node O cur cc t P).
      - apply (p_cur O cur cc t P).
      - rewrite vis_base by assumption. rewrite Nat.eqb_refl. reflexivity. }
    pose proof (li_init O cur cc t P) as I.
    destruct (loop_ok B IHB (rev (neighbors v cur)) O cur t cc [] _ cc P I ltac:(lia)) as [t2 [cc2 [kl [Hm [I2 Hk]]]]].
    { intros ch Hc. apply in_rev in Hc. exact Hc. }
    rewrite rev_involutive, app_nil_r in I2. rewrite rev_length in Hk. fold (outdeg v cur) in Hk.
    pose proof (li_post O cur t cc _ t2 cc2 P I2 (fun y Hy => Hy)) as Q.
    exists (st_root cur cc2 t2), cc2, (S (kl + 1)). split; [|split; [exact Q|]].
    + intros fuel rest. cbn [Nat.add]. rewrite (E_base v (kl + 1 + fuel) cur rest cc t Z Hclt).
      replace (kl + 1 + fuel) with (kl + S fuel) by lia. rewrite Hm.
      apply (E_root v fuel cur rest cc2 t2 (s_sized t2 (l_wf _ _ _ _ _ _ _ I2)) Hclt).
    + change (phi v (st_root cur cc2 t2)) with (phi v t2). lia.
Qed.

(* ------------------------------------------------------------------ *)
(* The outer loop over the nodes of the view                           *)

Definition nocut (c : nat) : Prop :=
  forall a b, a <> c -> b <> c -> connected v a b -> cw c a b.

Record TI (t : apt) : Prop := {
  t_wf : WFS t;
  t_closed : Closed [] t;
  t_paru : forall x, vis t x = false -> par t x = None;
  t_pts : forall c, In c (a_pts t) -> cut_node v c;
  t_nocut : forall c, vis t c = true -> ~ In c (a_pts t) -> nocut c
}.

Lemma nth_repeat_same {A} (a : A) n i : nth i (repeat a n) a = a.
Proof. revert i. induction n as [|n IH]; intros [|i]; cbn [repeat nth]; auto. Qed.

Definition ap_init : apt :=
  mkApt (repeat false sz) (repeat None sz) (repeat None sz) (repeat None sz) 0 [].

Lemma ti_init : TI ap_init.
Proof.
  assert (Hv0 : forall x, vis ap_init x = false) by (intros x; apply nth_repeat_same).
  constructor.
  - constructor.
    + constructor; cbn [ap_init a_vis a_low a_disc a_parent]; apply repeat_length.
    + intros x Hx. rewrite Hv0 in Hx. discriminate.
    + intros x Hx. rewrite Hv0 in Hx. discriminate.
    + constructor.
  - intros y z Hy. rewrite Hv0 in Hy. discriminate.
  - intros x _. apply nth_repeat_same.
  - intros c [].
  - intros c Hc. rewrite Hv0 in Hc. discriminate.
Qed.

Lemma pre_root t node : TI t -> In node (vnodes v) -> vis t node = false -> Pre [] node [] t.
Proof.
  intros [W Hcl Hpu Hpts Hnc] Hn Hvn. constructor; try assumption.
  - intros y [].
  - cbn [hd_error]. apply Hpu. exact Hvn.
  - intros x Hx _. apply Hpu. exact Hx.
  - intros p Hp. discriminate Hp.
  - intros p y Hp. discriminate Hp.
  - intros _. reflexivity.
Qed.

Lemma ti_step t node t' cc' : TI t -> In node (vnodes v) -> vis t node = false ->
  Post [] node t [] t' cc' -> TI t'.
Proof.
  intros T Hn Hvn Q. destruct T as [W Hcl Hpu Hpts Hnc]. destruct Q.
  (* the newly visited nodes are closed under steps, in both directions *)
  assert (Hfw : forall x y, Nw t t' x -> step v x y -> Nw t t' y).
  { intros x y [Hx Hx0] Hs. split; [apply (q_closed0 x y Hx (fun H => H) Hs)|].
    destruct (vis t y) eqn:E; [|reflexivity].
    pose proof (Hcl y x E (fun H => H) (step_sym v Hsym x y Hs)). congruence. }
  assert (Hbw : forall x y, ~ Nw t t' x -> step v x y -> ~ Nw t t' y).
  { intros x y Hx Hs Hy. apply Hx. apply (Hfw y x Hy (step_sym v Hsym x y Hs)). }
  constructor; try assumption.
  - intros c Hc. destruct (q_pts0 c Hc) as [H|[_ H]]; [apply Hpts; exact H | exact H].
  - intros c Hc Hnin. destruct (vis t c) eqn:Ec.
    + apply (Hnc c Ec). intros H. apply Hnin, q_pts_inc0, H.
    + assert (HcN : Nw t t' c) by (split; assumption).
      intros a b Hac Hbc Hab.
      assert (Hdec : Nw t t' a \/ ~ Nw t t' a).
      { unfold Nw. destruct (vis t' a), (vis t a); [right|left|right|right]; intuition congruence. }
      destruct Hdec as [Ha|Ha].
      * assert (Hb : Nw t t' b).
        { clear Hbc. induction Hab as [|x y Hax IH Hxy]; [exact Ha | apply (Hfw x y IH Hxy)]. }
        destruct (Nat.eq_dec c node) as [->|Hcn].
        -- apply (q_R0 eq_refl Hnin a b Ha Hb Hac Hbc).
        -- apply (reach_in_trans v _ a node b).
           ++ apply (q_G0 c HcN Hcn Hnin a Ha Hac).
           ++ apply (reach_in_sym v Hsym). apply (q_G0 c HcN Hcn Hnin b Hb Hbc).
      * assert (G : reach_in (fun y => y <> c) v a b /\ ~ Nw t t' b).
        { clear Hbc. induction Hab as [|x y Hax [IH1 IH2] Hxy].
          - split; [apply ri_refl; exact Hac | exact Ha].
          - pose proof (Hbw x y IH2 Hxy) as Hy. split; [|exact Hy].
            eapply ri_step; [exact IH1 | exact Hxy|]. intros ->. exact (Hy HcN). }
        apply G.
Qed.

Lemma ap_fold_ok : forall l t, (forall x, In x l -> In x (vnodes v)) -> TI t ->
  exists t', fold_left (fun acc node =>
                          rbind acc (fun t =>
                            rbind (getp (a_vis t) node) (fun seen =>
                              if seen then Ok t else ap_loop (ap_fuel v) v [BaseStep node] [] t)))
                       l (Ok t) = Ok t' /\ TI t' /\
             (forall x, vis t x = true -> vis t' x = true) /\ (forall x, In x l -> vis t' x = true).
Proof.
  induction l as [|node l IH]; intros t Hl T.
  - exists t. split; [reflexivity|]. split; [exact T|]. split; [auto | intros x []].
  - cbn [fold_left rbind].
    assert (Hn : In node (vnodes v)) by (apply Hl; left; reflexivity).
    pose proof (s_sized t (t_wf t T)) as Z.
    rewrite (getp_nth (a_vis t) node false) by (rewrite (z_vis v t Z); apply Hbound, Hn).
    cbn [rbind]. fold (vis t node). destruct (vis t node) eqn:Evn.
    + destruct (IH t (fun x Hx => Hl x (or_intror Hx)) T) as [t' [E [T' [Hm Hal]]]].
      exists t'. split; [exact E|]. split; [exact T'|]. split; [exact Hm|].
      intros x [<-|Hx]; [apply Hm; exact Evn | apply Hal; exact Hx].
    + pose proof (pre_root t node T Hn Evn) as P.
      destruct (visit_ok (phi v t) [] node [] t P (le_n _)) as [t1 [cc1 [k [Hm [Q Hk]]]]].
      pose proof (phi_fuel v t) as Hf.
      assert (Efuel : ap_fuel v = k + S (ap_fuel v - k - 1)) by lia.
      assert (Hrun : ap_loop (ap_fuel v) v [BaseStep node] [] t = Ok t1) by (rewrite Efuel, Hm; reflexivity).
      rewrite Hrun.
      pose proof (ti_step t node t1 cc1 T Hn Evn Q) as T1.
      destruct (IH t1 (fun x Hx => Hl x (or_intror Hx)) T1) as [t' [E [T' [Hm' Hal]]]].
      exists t'. split; [exact E|]. split; [exact T'|]. split.
      * intros x Hx. apply Hm', (q_mono _ _ _ _ _ _ Q), Hx.
      * intros x [<-|Hx]; [apply Hm', (q_cur _ _ _ _ _ _ Q) | apply Hal; exact Hx].
Qed.

Theorem articulation_points_ok :
  exists l, articulation_points v = Ok l /\ NoDup l /\ forall c, In c l <-> cut_node v c.
Proof.
  destruct (ap_fold_ok (vnodes v) ap_init (fun x Hx => Hx) ti_init) as [t' [E [T [_ Hal]]]].
  exists (a_pts t'). split.
  - unfold articulation_points. unfold ap_init in E. rewrite E. reflexivity.
  - split; [apply (s_nd t' (t_wf t' T))|]. intros c. split; [apply (t_pts t' T)|].
    intros Hc. destruct (in_dec Nat.eq_dec c (a_pts t')) as [H|H]; [exact H | exfalso].
    destruct Hc as [Hcn [a [b [Ha [Hb [Hab Hn]]]]]].
    apply Hn. apply (t_nocut t' T c (Hal c Hcn) H a b Ha Hb Hab).
Qed.
End Art.
