(* C17b, part 1: serde of GraphMap (Model/SerdeGM.v).
   - generic: first-occurrence deduplication, "last binding" in an association list
   - from_graph = add_node over the weights, then add_edge over the resolved endpoints
   - the deserializer: what is accepted, what the result is (any wire)
   The round trip itself is in SerdeGMQ.v. *)
From Coq Require Import Lia ZArith Permutation Bool.
From PG Require Import Lib.Io Model.GraphMapM Model.SerdeGM Spec.SimpleGraph
  Proofs.GraphMapL Proofs.GraphMapP Proofs.GraphMapR Proofs.GraphMapQ Proofs.GraphMapH.
Local Open Scope Z_scope.

(* ------------------------------------------------------------------ *)
(* Generic list facts                                                  *)

Lemma filter_filter' {A} (f g : A -> bool) (l : list A) :
  filter f (filter g l) = filter (fun y => andb (g y) (f y)) l.
Proof.
  induction l as [|x t IH]; cbn [filter]; auto.
  destruct (g x); cbn [filter andb]; rewrite IH; reflexivity.
Qed.

Lemma filter_ext_in' {A} (f g : A -> bool) (l : list A) :
  (forall y, In y l -> f y = g y) -> filter f l = filter g l.
Proof.
  induction l as [|x t IH]; intros H; cbn [filter]; auto.
  rewrite (H x (or_introl eq_refl)), IH; auto. intros y Hy. apply H. right; exact Hy.
Qed.

Lemma filter_all_true {A} (f : A -> bool) (l : list A) :
  (forall y, In y l -> f y = true) -> filter f l = l.
Proof.
  induction l as [|x t IH]; intros H; cbn [filter]; auto.
  rewrite (H x (or_introl eq_refl)), IH; auto. intros y Hy. apply H. right; exact Hy.
Qed.

Lemma Forall2_in_r {A B} (R : A -> B -> Prop) (l1 : list A) (l2 : list B) y :
  Forall2 R l1 l2 -> In y l2 -> exists x, In x l1 /\ R x y.
Proof.
  induction 1 as [|a b l1' l2' Hab HF IH]; intros Hy; [destruct Hy|].
  destruct Hy as [<-|Hy].
  - exists a. split; [left; reflexivity | exact Hab].
  - destruct (IH Hy) as [x [Hx HR]]. exists x. split; [right; exact Hx | exact HR].
Qed.

(* ------------------------------------------------------------------ *)
(* Deduplication keeping first occurrences                             *)

Section Dedup.
  Context {A : Type} (eqb : A -> A -> bool).
  Hypothesis eqb_spec : forall a b, eqb a b = true <-> a = b.

  Definition memb (x : A) (l : list A) : bool := existsb (eqb x) l.

  (* keep x, drop its later copies *)
  Fixpoint dedup_first (l : list A) : list A :=
    match l with
    | [] => []
    | x :: t => x :: filter (fun y => negb (eqb x y)) (dedup_first t)
    end.

  (* what add_node / a fresh IndexMap insertion does to the key list *)
  Definition push_new (acc : list A) (x : A) : list A := if memb x acc then acc else acc ++ [x].

  Lemma eqb_refl' x : eqb x x = true.
  Proof. apply eqb_spec; reflexivity. Qed.

  Lemma eqb_sym' x y : eqb x y = eqb y x.
  Proof.
    destruct (eqb x y) eqn:E1, (eqb y x) eqn:E2; auto.
    - apply eqb_spec in E1. subst. rewrite eqb_refl' in E2. discriminate.
    - apply eqb_spec in E2. subst. rewrite eqb_refl' in E1. discriminate.
  Qed.

  Lemma memb_iff x l : memb x l = true <-> In x l.
  Proof.
    unfold memb. rewrite existsb_exists. split.
    - intros [y [Hy He]]. apply eqb_spec in He. subst. exact Hy.
    - intros H. exists x. split; auto. apply eqb_refl'.
  Qed.

  Lemma memb_false x l : memb x l = false <-> ~ In x l.
  Proof. rewrite <- memb_iff. destruct (memb x l); split; intros H; congruence. Qed.

  Lemma memb_app x l r : memb x (l ++ r) = orb (memb x l) (memb x r).
  Proof. apply existsb_app. Qed.

  Lemma push_new_in acc x c : In c (push_new acc x) <-> In c acc \/ c = x.
  Proof.
    unfold push_new. destruct (memb x acc) eqn:E.
    - apply memb_iff in E. split; auto. intros [H| ->]; auto.
    - rewrite in_app_iff. cbn [In]. intuition.
  Qed.

  Lemma push_new_NoDup acc x : NoDup acc -> NoDup (push_new acc x).
  Proof.
    intros HN. unfold push_new. destruct (memb x acc) eqn:E; auto.
    apply NoDup_app_one; auto. apply memb_false; exact E.
  Qed.

  Lemma fold_push_new_in l : forall acc c,
    In c (fold_left push_new l acc) <-> In c acc \/ In c l.
  Proof.
    induction l as [|x t IH]; intros acc c; cbn [fold_left In]; [tauto|].
    rewrite IH, push_new_in. intuition.
  Qed.

  Lemma fold_push_new_NoDup l : forall acc, NoDup acc -> NoDup (fold_left push_new l acc).
  Proof.
    induction l as [|x t IH]; intros acc HN; cbn [fold_left]; auto.
    apply IH, push_new_NoDup, HN.
  Qed.

  Lemma fold_push_new_closed l : forall acc,
    fold_left push_new l acc = acc ++ filter (fun y => negb (memb y acc)) (dedup_first l).
  Proof.
    induction l as [|x t IH]; intros acc; cbn [fold_left dedup_first filter].
    - rewrite app_nil_r; reflexivity.
    - rewrite IH. unfold push_new. destruct (memb x acc) eqn:E; cbn [negb].
      + f_equal. rewrite filter_filter'. apply filter_ext_in'. intros y _.
        destruct (eqb x y) eqn:Exy; cbn [negb andb]; auto.
        apply eqb_spec in Exy. subst. rewrite E. reflexivity.
      + rewrite <- app_assoc. cbn [app]. f_equal. f_equal.
        rewrite filter_filter'. apply filter_ext_in'. intros y _.
        rewrite memb_app. unfold memb at 2. cbn [existsb]. rewrite orb_false_r.
        rewrite negb_orb, (eqb_sym' y x). apply andb_comm.
  Qed.

  Lemma fold_push_new_dedup l : fold_left push_new l [] = dedup_first l.
  Proof.
    rewrite fold_push_new_closed. cbn [app]. apply filter_all_true. intros y _. reflexivity.
  Qed.

  Lemma dedup_first_in l c : In c (dedup_first l) <-> In c l.
  Proof. rewrite <- fold_push_new_dedup, fold_push_new_in. cbn [In]. tauto. Qed.

  Lemma dedup_first_NoDup l : NoDup (dedup_first l).
  Proof. rewrite <- fold_push_new_dedup. apply fold_push_new_NoDup. constructor. Qed.

  Lemma dedup_first_id l : NoDup l -> dedup_first l = l.
  Proof.
    induction l as [|x t IH]; intros HN; cbn [dedup_first]; auto.
    inversion HN as [|x0 l0 Hnotin HN']; subst. rewrite IH by exact HN'. f_equal.
    apply filter_all_true. intros y Hy. destruct (eqb x y) eqn:E; auto.
    apply eqb_spec in E. subst. contradiction.
  Qed.

  (* the first occurrence of every element stays where it was relative to the others *)
  Lemma dedup_first_app_new l x : ~ In x l -> dedup_first (l ++ [x]) = dedup_first l ++ [x].
  Proof.
    intros Hx. rewrite <- !fold_push_new_dedup, fold_left_app. cbn [fold_left].
    unfold push_new at 1. rewrite fold_push_new_dedup.
    assert (E : memb x (dedup_first l) = false) by (apply memb_false; rewrite dedup_first_in; exact Hx).
    rewrite E. reflexivity.
  Qed.
End Dedup.

(* ------------------------------------------------------------------ *)
(* The last binding of a key in an association list                    *)

Definition last_binding {K V} (m : list (K * V)) (k : K) (x : V) : Prop :=
  exists l1 l2, m = l1 ++ (k, x) :: l2 /\ ~ In k (map fst l2).

Section Last.
  Context {K V : Type} (eqk : K -> K -> bool).
  Hypothesis eqk_spec : forall a b, eqk a b = true <-> a = b.

  Lemma im_get_app (l r : list (K * V)) k :
    im_get eqk (l ++ r) k = match im_get eqk l k with Some v => Some v | None => im_get eqk r k end.
  Proof.
    induction l as [|[k0 v0] t IH]; cbn [im_get app]; auto.
    destruct (eqk k0 k); auto.
  Qed.

  Lemma im_get_rev_last (m : list (K * V)) k x :
    im_get eqk (rev m) k = Some x <-> last_binding m k x.
  Proof.
    split.
    - induction m as [|[k' x'] m' IH] using rev_ind; [discriminate|].
      rewrite rev_app_distr. cbn [rev app im_get]. destruct (eqk k' k) eqn:E.
      + apply eqk_spec in E. subst k'. intros H. injection H as ->.
        exists m', []. split; [reflexivity | intros []].
      + intros H. destruct (IH H) as [l1 [l2 [Hm Hl2]]]. subst m'.
        exists l1, (l2 ++ [(k', x')]). split; [rewrite <- app_assoc; reflexivity|].
        rewrite map_app, in_app_iff. cbn [map fst In]. intros [Hin|[Hk|[]]]; [contradiction|].
        subst. rewrite (proj2 (eqk_spec k k) eq_refl) in E. discriminate.
    - intros [l1 [l2 [-> Hl2]]]. rewrite rev_app_distr. cbn [rev]. rewrite <- app_assoc. cbn [app].
      rewrite im_get_app.
      assert (Hn : im_get eqk (rev l2) k = None).
      { apply (im_get_none eqk eqk_spec). rewrite map_rev, <- in_rev. exact Hl2. }
      rewrite Hn. cbn [im_get]. rewrite (proj2 (eqk_spec k k) eq_refl). reflexivity.
  Qed.

  Lemma last_binding_in (m : list (K * V)) k x : last_binding m k x -> In (k, x) m.
  Proof. intros [l1 [l2 [-> _]]]. apply in_app_iff. right; left; reflexivity. Qed.

  Lemma last_binding_fun (m : list (K * V)) k x y : last_binding m k x -> last_binding m k y -> x = y.
  Proof. rewrite <- !im_get_rev_last. congruence. Qed.

  Lemma last_binding_total (m : list (K * V)) k : In k (map fst m) -> exists x, last_binding m k x.
  Proof.
    intros H. rewrite in_rev, <- map_rev in H.
    destruct (im_get_key_some eqk eqk_spec _ _ H) as [x Hx]. exists x. apply im_get_rev_last; exact Hx.
  Qed.
End Last.

(* ------------------------------------------------------------------ *)
(* from_graph, part 1: the nodes                                       *)

Definition nodes_only (l : list Z) : gm := fold_left add_node l gm_new.

Lemma memb_nkeys g n : memb Z.eqb n (nkeys g) = match im_get Z.eqb (gnodes g) n with Some _ => true | None => false end.
Proof.
  pose proof (nkey_iff (gnodes g) n) as H. pose proof (memb_iff Z.eqb Zeqb_spec' n (nkeys g)) as Hm.
  unfold nkeys in *. destruct (im_get Z.eqb (gnodes g) n) eqn:E.
  - apply Hm, H. discriminate.
  - apply (memb_false Z.eqb Zeqb_spec'). rewrite H. intros Hc; apply Hc; reflexivity.
Qed.

Lemma add_node_nkeys g n : nkeys (add_node g n) = push_new Z.eqb (nkeys g) n.
Proof.
  unfold add_node, push_new. rewrite memb_nkeys.
  destruct (im_get Z.eqb (gnodes g) n); auto.
  unfold nkeys. cbn [gnodes]. rewrite map_app. reflexivity.
Qed.

Lemma add_node_gedges g n : gedges (add_node g n) = gedges g.
Proof. unfold add_node. destruct (im_get Z.eqb (gnodes g) n); reflexivity. Qed.

Lemma add_node_adj g n c : adj_of (add_node g n) c = adj_of g c.
Proof.
  unfold add_node. destruct (im_get Z.eqb (gnodes g) n) eqn:E; auto.
  rewrite !adj_of_adjv_of. cbn [gnodes]. apply adjv_of_app_empty. exact E.
Qed.

Lemma fold_add_node_nkeys l : forall g, nkeys (fold_left add_node l g) = fold_left (push_new Z.eqb) l (nkeys g).
Proof. induction l as [|x t IH]; intros g; cbn [fold_left]; auto. rewrite IH, add_node_nkeys. reflexivity. Qed.

Lemma fold_add_node_gedges l : forall g, gedges (fold_left add_node l g) = gedges g.
Proof. induction l as [|x t IH]; intros g; cbn [fold_left]; auto. rewrite IH. apply add_node_gedges. Qed.

Lemma fold_add_node_adj l c : forall g, adj_of (fold_left add_node l g) c = adj_of g c.
Proof. induction l as [|x t IH]; intros g; cbn [fold_left]; auto. rewrite IH. apply add_node_adj. Qed.

Lemma fold_add_node_inv d l : forall g, GInv d g -> GInv d (fold_left add_node l g).
Proof. induction l as [|x t IH]; intros g HI; cbn [fold_left]; auto. apply IH, add_node_inv, HI. Qed.

Lemma nodes_only_nkeys l : nkeys (nodes_only l) = dedup_first Z.eqb l.
Proof. unfold nodes_only. rewrite fold_add_node_nkeys. apply (fold_push_new_dedup Z.eqb Zeqb_spec'). Qed.

Lemma nodes_only_gedges l : gedges (nodes_only l) = [].
Proof. unfold nodes_only. rewrite fold_add_node_gedges. reflexivity. Qed.

Lemma nodes_only_adj l c : adj_of (nodes_only l) c = [].
Proof. unfold nodes_only. rewrite fold_add_node_adj. reflexivity. Qed.

Lemma nodes_only_inv d l : GInv d (nodes_only l).
Proof. apply fold_add_node_inv, GInv_new. Qed.

(* ------------------------------------------------------------------ *)
(* from_graph, part 2: the edges                                       *)

Definition tkey (d : bool) (t : Z * Z * Z) : Z * Z := edge_key d (src t) (tgt t).
Definition tkl (d : bool) (l : list (Z * Z * Z)) : list ((Z * Z) * Z) := map (fun t => (tkey d t, snd t)) l.

Definition add_edges (d : bool) (g : gm) (l : list (Z * Z * Z)) : gm :=
  fold_left (fun g t => snd (add_edge d g (src t) (tgt t) (snd t))) l g.

(* the endpoints' weights of every wire edge, or None when an edge is null / out of range *)
Fixpoint resolve (nodes : list Z) (es : list (option (nat * nat * Z))) : option (list (Z * Z * Z)) :=
  match es with
  | [] => Some []
  | None :: _ => None
  | Some (a, b, w) :: rest =>
      match nth_error nodes a, nth_error nodes b with
      | Some na, Some nb => option_map (cons (na, nb, w)) (resolve nodes rest)
      | _, _ => None
      end
  end.

Lemma from_graph_edges_resolve d nodes es : forall g,
  from_graph_edges d nodes es g = option_map (add_edges d g) (resolve nodes es).
Proof.
  induction es as [|[[[a b] x]|] rest IH]; intros g; cbn [from_graph_edges resolve]; try reflexivity.
  destruct (nth_error nodes a) as [na|]; [|reflexivity].
  destruct (nth_error nodes b) as [nb|]; [|reflexivity].
  rewrite IH. destruct (resolve nodes rest); reflexivity.
Qed.

Definition isnone (e : option (nat * nat * Z)) : bool := match e with None => true | Some _ => false end.
Definition wire_bad (nodes : list Z) (e : option (nat * nat * Z)) : bool :=
  match e with
  | Some (a, b, _) => orb (Nat.leb (length nodes) a) (Nat.leb (length nodes) b)
  | None => true
  end.

Lemma resolve_none_iff nodes es : resolve nodes es = None <-> existsb (wire_bad nodes) es = true.
Proof.
  induction es as [|[[[a b] x]|] rest IH]; cbn [resolve existsb wire_bad].
  - split; discriminate.
  - destruct (nth_error nodes a) as [na|] eqn:Ea.
    + assert (Ha : Nat.leb (length nodes) a = false).
      { apply Nat.leb_gt. apply nth_error_Some. congruence. }
      rewrite Ha. destruct (nth_error nodes b) as [nb|] eqn:Eb.
      * assert (Hb : Nat.leb (length nodes) b = false).
        { apply Nat.leb_gt. apply nth_error_Some. congruence. }
        rewrite Hb. cbn [orb]. rewrite <- IH.
        destruct (resolve nodes rest); cbn [option_map]; split; congruence.
      * assert (Hb : Nat.leb (length nodes) b = true) by (apply Nat.leb_le, nth_error_None; exact Eb).
        rewrite Hb. cbn [orb]. split; auto.
    + assert (Ha : Nat.leb (length nodes) a = true) by (apply Nat.leb_le, nth_error_None; exact Ea).
      rewrite Ha. cbn [orb]. split; auto.
  - split; auto.
Qed.

Lemma wire_bad_iff nodes e : wire_bad nodes e = true <->
  (e = None \/ exists a b x, e = Some (a, b, x) /\ (length nodes <= a \/ length nodes <= b)%nat).
Proof.
  destruct e as [[[a b] x]|]; cbn [wire_bad].
  - rewrite orb_true_iff, !Nat.leb_le. split.
    + intros H. right. exists a, b, x. auto.
    + intros [H|[a' [b' [x' [H1 H2]]]]]; [discriminate|]. injection H1 as -> -> ->. exact H2.
  - split; auto.
Qed.

Lemma isnone_bad nodes es : existsb isnone es = true -> existsb (wire_bad nodes) es = true.
Proof.
  rewrite !existsb_exists. intros [e [He Hn]]. exists e. split; auto.
  destruct e; [discriminate | reflexivity].
Qed.

(* what resolve returns, edge by edge *)
Definition resolves (nodes : list Z) (e : option (nat * nat * Z)) (t : Z * Z * Z) : Prop :=
  exists i j, e = Some (i, j, snd t) /\ nth_error nodes i = Some (src t) /\ nth_error nodes j = Some (tgt t).

Lemma resolve_some nodes es : forall l, resolve nodes es = Some l -> Forall2 (resolves nodes) es l.
Proof.
  induction es as [|[[[a b] x]|] rest IH]; intros l H; cbn [resolve] in H.
  - injection H as <-. constructor.
  - destruct (nth_error nodes a) as [na|] eqn:Ea; [|discriminate].
    destruct (nth_error nodes b) as [nb|] eqn:Eb; [|discriminate].
    destruct (resolve nodes rest) as [l'|]; [|discriminate]. cbn [option_map] in H. injection H as <-.
    constructor; [|apply IH; reflexivity]. exists a, b. cbn. auto.
  - discriminate.
Qed.

(* ---- one add_edge ---- *)

Lemma add_edge_gedges d g a b w :
  gedges (snd (add_edge d g a b w)) = snd (im_insert zpair_eqb (gedges g) (edge_key d a b) w).
Proof.
  unfold add_edge. destruct (im_insert zpair_eqb (gedges g) (edge_key d a b) w) as [old e'].
  destruct old; reflexivity.
Qed.

Lemma memb_ekeys g k : memb zpair_eqb k (ekeys g) = match im_get zpair_eqb (gedges g) k with Some _ => true | None => false end.
Proof.
  pose proof (im_get_none zpair_eqb zpair_eqb_spec (gedges g) k) as H.
  pose proof (memb_iff zpair_eqb zpair_eqb_spec k (ekeys g)) as Hm.
  unfold ekeys in *. destruct (im_get zpair_eqb (gedges g) k) eqn:E.
  - apply Hm. eapply (im_get_some_key zpair_eqb zpair_eqb_spec). exact E.
  - apply (memb_false zpair_eqb zpair_eqb_spec). apply H. reflexivity.
Qed.

Lemma add_edge_ekeys d g a b w :
  ekeys (snd (add_edge d g a b w)) = push_new zpair_eqb (ekeys g) (edge_key d a b).
Proof.
  unfold ekeys at 1. rewrite add_edge_gedges, im_insert_keys. unfold push_new. rewrite memb_ekeys.
  destruct (im_get zpair_eqb (gedges g) (edge_key d a b)); reflexivity.
Qed.

Lemma add_edge_get d g a b w k :
  im_get zpair_eqb (gedges (snd (add_edge d g a b w))) k =
  if zpair_eqb (edge_key d a b) k then Some w else im_get zpair_eqb (gedges g) k.
Proof. rewrite add_edge_gedges. apply (im_insert_get zpair_eqb zpair_eqb_spec). Qed.

Lemma add_edge_gnodes_new d g a b w :
  im_get zpair_eqb (gedges g) (edge_key d a b) = None ->
  gnodes (snd (add_edge d g a b w)) = add_edge_nodes (gnodes g) a b.
Proof.
  intros Hn. unfold add_edge.
  pose proof (im_insert_fst zpair_eqb (gedges g) (edge_key d a b) w) as Hf.
  destruct (im_insert zpair_eqb (gedges g) (edge_key d a b) w) as [old e']. cbn [fst] in Hf.
  rewrite Hn in Hf. subst old. reflexivity.
Qed.

Lemma add_edge_gnodes_old d g a b w x :
  im_get zpair_eqb (gedges g) (edge_key d a b) = Some x ->
  gnodes (snd (add_edge d g a b w)) = gnodes g.
Proof.
  intros Hn. unfold add_edge.
  pose proof (im_insert_fst zpair_eqb (gedges g) (edge_key d a b) w) as Hf.
  destruct (im_insert zpair_eqb (gedges g) (edge_key d a b) w) as [old e']. cbn [fst] in Hf.
  rewrite Hn in Hf. subst old. reflexivity.
Qed.

Lemma push_adj_keys_same nodes a x : In a (map fst nodes) -> map fst (push_adj nodes a x) = map fst nodes.
Proof.
  intros H. rewrite push_adj_keys. apply nkey_iff in H.
  destruct (im_get Z.eqb nodes a); [reflexivity | congruence].
Qed.

(* add_edge between two present nodes leaves the node order untouched *)
Lemma add_edge_nkeys_same d g a b w :
  In a (nkeys g) -> In b (nkeys g) -> nkeys (snd (add_edge d g a b w)) = nkeys g.
Proof.
  intros Ha Hb. unfold nkeys in *.
  destruct (im_get zpair_eqb (gedges g) (edge_key d a b)) as [x|] eqn:E.
  - rewrite (add_edge_gnodes_old d g a b w x E). reflexivity.
  - rewrite (add_edge_gnodes_new d g a b w E). unfold add_edge_nodes.
    destruct (a =? b).
    + apply push_adj_keys_same; exact Ha.
    + rewrite push_adj_keys_same; rewrite push_adj_keys_same; auto.
Qed.

(* ---- the loop ---- *)

Lemma add_edges_inv d l : forall g, GInv d g -> GInv d (add_edges d g l).
Proof.
  induction l as [|t rest IH]; intros g HI; cbn [add_edges fold_left]; auto.
  apply IH, add_edge_inv, HI.
Qed.

Lemma add_edges_nkeys d l : forall g,
  (forall t, In t l -> In (src t) (nkeys g) /\ In (tgt t) (nkeys g)) ->
  nkeys (add_edges d g l) = nkeys g.
Proof.
  induction l as [|t rest IH]; intros g H; cbn [add_edges fold_left]; auto.
  destruct (H t (or_introl eq_refl)) as [Ha Hb].
  pose proof (add_edge_nkeys_same d g (src t) (tgt t) (snd t) Ha Hb) as Hk.
  fold (add_edges d (snd (add_edge d g (src t) (tgt t) (snd t))) rest).
  rewrite IH; [exact Hk|]. intros t' Ht'. rewrite Hk. apply H. right; exact Ht'.
Qed.

Lemma add_edges_ekeys d l : forall g,
  ekeys (add_edges d g l) = fold_left (push_new zpair_eqb) (map (tkey d) l) (ekeys g).
Proof.
  induction l as [|t rest IH]; intros g; cbn [add_edges fold_left map]; auto.
  fold (add_edges d (snd (add_edge d g (src t) (tgt t) (snd t))) rest).
  rewrite IH, add_edge_ekeys. reflexivity.
Qed.

(* the weight of a key after the loop: the last wire edge with this key, else the old weight *)
Lemma add_edges_get d l : forall g k,
  im_get zpair_eqb (gedges (add_edges d g l)) k =
  match im_get zpair_eqb (rev (tkl d l)) k with Some x => Some x | None => im_get zpair_eqb (gedges g) k end.
Proof.
  induction l as [|t rest IH]; intros g k; cbn [add_edges fold_left tkl map rev]; auto.
  fold (add_edges d (snd (add_edge d g (src t) (tgt t) (snd t))) rest). fold (tkl d rest).
  rewrite IH, add_edge_get, im_get_app_one. fold (tkey d t).
  destruct (im_get zpair_eqb (rev (tkl d rest)) k); auto. destruct (zpair_eqb (tkey d t) k); reflexivity.
Qed.

(* ------------------------------------------------------------------ *)
(* The deserializer                                                    *)

Lemma deser_gm_eq d w : deser_gm d w =
  match gw_holes w with
  | _ :: _ => None
  | [] =>
      if existsb isnone (gw_edges w) then None
      else if negb (Bool.eqb (gw_directed w) d) then None
      else if existsb (wire_bad (gw_nodes w)) (gw_edges w) then None
      else option_map (add_edges d (nodes_only (gw_nodes w))) (resolve (gw_nodes w) (gw_edges w))
  end.
Proof. unfold deser_gm. rewrite from_graph_edges_resolve. reflexivity. Qed.

Theorem deser_gm_some d w g' : deser_gm d w = Some g' ->
  gw_holes w = [] /\ gw_directed w = d /\
  exists l, resolve (gw_nodes w) (gw_edges w) = Some l /\ g' = add_edges d (nodes_only (gw_nodes w)) l.
Proof.
  rewrite deser_gm_eq. destruct (gw_holes w); [|discriminate].
  destruct (existsb isnone (gw_edges w)); [discriminate|].
  destruct (Bool.eqb (gw_directed w) d) eqn:Ed; cbn [negb]; [|discriminate].
  destruct (existsb (wire_bad (gw_nodes w)) (gw_edges w)); [discriminate|].
  destruct (resolve (gw_nodes w) (gw_edges w)) as [l|]; cbn [option_map]; [|discriminate].
  intros H. injection H as <-. split; auto. split; [apply eqb_prop; exact Ed|]. exists l; auto.
Qed.

Theorem deser_gm_intro d w l :
  gw_holes w = [] -> gw_directed w = d -> resolve (gw_nodes w) (gw_edges w) = Some l ->
  deser_gm d w = Some (add_edges d (nodes_only (gw_nodes w)) l).
Proof.
  intros Hh Hd Hr. rewrite deser_gm_eq, Hh, Hd, eqb_reflx. cbn [negb].
  assert (Hb : existsb (wire_bad (gw_nodes w)) (gw_edges w) = false).
  { destruct (existsb (wire_bad (gw_nodes w)) (gw_edges w)) eqn:E; auto.
    apply resolve_none_iff in E. congruence. }
  assert (Hn : existsb isnone (gw_edges w) = false).
  { destruct (existsb isnone (gw_edges w)) eqn:E; auto.
    apply (isnone_bad (gw_nodes w)) in E. congruence. }
  rewrite Hn, Hb, Hr. reflexivity.
Qed.

(* T4: rejection happens exactly for holes, a wrong edge property, a null edge or an endpoint out of range *)
Theorem deser_gm_none_iff d w :
  deser_gm d w = None <->
  (gw_holes w <> [] \/ gw_directed w <> d \/
   exists e, In e (gw_edges w) /\
     (e = None \/ exists a b x, e = Some (a, b, x) /\
        (length (gw_nodes w) <= a \/ length (gw_nodes w) <= b)%nat)).
Proof.
  assert (Hbad : existsb (wire_bad (gw_nodes w)) (gw_edges w) = true <->
    exists e, In e (gw_edges w) /\
     (e = None \/ exists a b x, e = Some (a, b, x) /\
        (length (gw_nodes w) <= a \/ length (gw_nodes w) <= b)%nat)).
  { rewrite existsb_exists. split; intros [e [He Hb]]; exists e; split; auto; apply wire_bad_iff; exact Hb. }
  rewrite <- Hbad. rewrite deser_gm_eq.
  destruct (gw_holes w) as [|h hs].
  - destruct (existsb isnone (gw_edges w)) eqn:En.
    { apply (isnone_bad (gw_nodes w)) in En. split; auto. }
    destruct (Bool.eqb (gw_directed w) d) eqn:Ed; cbn [negb].
    + apply eqb_prop in Ed.
      destruct (existsb (wire_bad (gw_nodes w)) (gw_edges w)) eqn:Eb; [split; auto|].
      destruct (resolve (gw_nodes w) (gw_edges w)) as [l|] eqn:Er; cbn [option_map].
      * split; [discriminate|]. intros [H|[H|H]]; [congruence | congruence | discriminate].
      * apply resolve_none_iff in Er. congruence.
    + apply eqb_false_iff in Ed. split; auto.
  - split; auto. intros _. left. discriminate.
Qed.

(* ---- the wire read as a list of (canonical key, weight), in wire order ---- *)

Definition wire_key (d : bool) (nodes : list Z) (e : option (nat * nat * Z)) : option ((Z * Z) * Z) :=
  match e with
  | Some (i, j, x) =>
      match nth_error nodes i, nth_error nodes j with
      | Some a, Some b => Some (edge_key d a b, x)
      | _, _ => None
      end
  | None => None
  end.

Definition wire_kl (d : bool) (w : gwire) : list ((Z * Z) * Z) :=
  flat_map (fun e => match wire_key d (gw_nodes w) e with Some p => [p] | None => [] end) (gw_edges w).

(* positional reading: wire edge e resolves to the key/weight pair p *)
Definition wire_resolves (d : bool) (nodes : list Z) (e : option (nat * nat * Z)) (p : (Z * Z) * Z) : Prop :=
  exists i j a b, e = Some (i, j, snd p) /\ nth_error nodes i = Some a /\ nth_error nodes j = Some b /\
                  fst p = edge_key d a b.

Lemma resolve_wire_kl d nodes es : forall l, resolve nodes es = Some l ->
  flat_map (fun e => match wire_key d nodes e with Some p => [p] | None => [] end) es = tkl d l.
Proof.
  induction es as [|[[[a b] x]|] rest IH]; intros l H; cbn [resolve] in H.
  - injection H as <-. reflexivity.
  - cbn [flat_map wire_key].
    destruct (nth_error nodes a) as [na|] eqn:Ea; [|discriminate].
    destruct (nth_error nodes b) as [nb|] eqn:Eb; [|discriminate].
    destruct (resolve nodes rest) as [l'|]; [|discriminate]. cbn [option_map] in H. injection H as <-.
    rewrite (IH l' eq_refl). reflexivity.
  - discriminate.
Qed.

Lemma resolve_wire_resolves d nodes es l : resolve nodes es = Some l ->
  Forall2 (wire_resolves d nodes) es (tkl d l).
Proof.
  intros H. apply resolve_some in H. induction H as [|e t es' l' [i [j [He [Hi Hj]]]] HF IH]; cbn [tkl map].
  - constructor.
  - constructor; [|exact IH]. exists i, j, (src t), (tgt t). cbn [fst snd]. auto.
Qed.

Lemma in_wire_kl d w k x : In (k, x) (wire_kl d w) <->
  exists i j a b, In (Some (i, j, x)) (gw_edges w) /\ nth_error (gw_nodes w) i = Some a /\
                  nth_error (gw_nodes w) j = Some b /\ edge_key d a b = k.
Proof.
  unfold wire_kl. rewrite in_flat_map. split.
  - intros [[[[i j] x']|] [He Hin]]; cbn [wire_key] in Hin; [|destruct Hin].
    destruct (nth_error (gw_nodes w) i) as [a|] eqn:Ei; [|destruct Hin].
    destruct (nth_error (gw_nodes w) j) as [b|] eqn:Ej; [|destruct Hin].
    destruct Hin as [Hin|[]]. injection Hin as <- <-. exists i, j, a, b. auto.
  - intros [i [j [a [b [He [Hi [Hj Hk]]]]]]]. exists (Some (i, j, x)). split; auto.
    cbn [wire_key]. rewrite Hi, Hj, Hk. left; reflexivity.
Qed.

(* T3: whatever the accepted wire, the result satisfies the invariant; its nodes are the node weights
   deduplicated (first occurrences, in order); its edge keys are the wire edges' canonical keys
   deduplicated (first occurrences, in order); each key is bound to the weight of the LAST wire edge
   with that key. *)
Theorem deser_gm_safe d w g' : deser_gm d w = Some g' ->
  GInv d g' /\
  nkeys g' = dedup_first Z.eqb (gw_nodes w) /\
  Forall2 (wire_resolves d (gw_nodes w)) (gw_edges w) (wire_kl d w) /\
  ekeys g' = dedup_first zpair_eqb (map fst (wire_kl d w)) /\
  (forall k x, In (k, x) (gedges g') <-> last_binding (wire_kl d w) k x).
Proof.
  intros H. destruct (deser_gm_some d w g' H) as [Hh [Hd [l [Hr ->]]]].
  pose proof (nodes_only_inv d (gw_nodes w)) as HI0.
  pose proof (add_edges_inv d l _ HI0) as HI.
  assert (Hkl : wire_kl d w = tkl d l) by (apply resolve_wire_kl; exact Hr).
  split; [exact HI|]. split; [|split; [|split]].
  - rewrite add_edges_nkeys; [apply nodes_only_nkeys|].
    intros t Ht. rewrite nodes_only_nkeys, !(dedup_first_in Z.eqb Zeqb_spec').
    apply resolve_some in Hr. destruct (Forall2_in_r _ _ _ _ Hr Ht) as [e [_ [i [j [_ [Hi Hj]]]]]].
    split; eapply nth_error_In; eauto.
  - rewrite Hkl. apply resolve_wire_resolves; exact Hr.
  - rewrite add_edges_ekeys. unfold ekeys at 1. rewrite nodes_only_gedges. cbn [map].
    rewrite (fold_push_new_dedup zpair_eqb zpair_eqb_spec), Hkl. unfold tkl. rewrite map_map. reflexivity.
  - intros k x. rewrite <- (im_get_iff zpair_eqb zpair_eqb_spec) by (apply (gi_edges_nodup d _ HI)).
    rewrite add_edges_get, nodes_only_gedges, Hkl. cbn [im_get].
    rewrite <- (im_get_rev_last zpair_eqb zpair_eqb_spec).
    destruct (im_get zpair_eqb (rev (tkl d l)) k); split; congruence.
Qed.

(* The same in the form "for every wire": nothing is assumed about w. *)
Definition deser_safe_stmt (d : bool) (w : gwire) (g' : gm) : Prop :=
  GInv d g' /\
  nkeys g' = dedup_first Z.eqb (gw_nodes w) /\
  (forall c, In c (nkeys g') <-> In c (gw_nodes w)) /\
  Forall2 (wire_resolves d (gw_nodes w)) (gw_edges w) (wire_kl d w) /\
  ekeys g' = dedup_first zpair_eqb (map fst (wire_kl d w)) /\
  (forall k x, In (k, x) (gedges g') <-> last_binding (wire_kl d w) k x) /\
  (forall k x, In (k, x) (gedges g') ->
     exists i j a b, In (Some (i, j, x)) (gw_edges w) /\ nth_error (gw_nodes w) i = Some a /\
                     nth_error (gw_nodes w) j = Some b /\ edge_key d a b = k) /\
  (forall i j x, In (Some (i, j, x)) (gw_edges w) ->
     exists a b x', nth_error (gw_nodes w) i = Some a /\ nth_error (gw_nodes w) j = Some b /\
                    In (edge_key d a b, x') (gedges g')).

Lemma Forall2_in_l {A B} (R : A -> B -> Prop) (l1 : list A) (l2 : list B) x :
  Forall2 R l1 l2 -> In x l1 -> exists y, In y l2 /\ R x y.
Proof.
  induction 1 as [|a b l1' l2' Hab HF IH]; intros Hx; [destruct Hx|].
  destruct Hx as [<-|Hx].
  - exists b. split; [left; reflexivity | exact Hab].
  - destruct (IH Hx) as [y [Hy HR]]. exists y. split; [right; exact Hy | exact HR].
Qed.

Theorem deser_gm_safe_full d w :
  match deser_gm d w with None => True | Some g' => deser_safe_stmt d w g' end.
Proof.
  destruct (deser_gm d w) as [g'|] eqn:E; [|exact I].
  destruct (deser_gm_safe d w g' E) as [HI [Hn [HF [Hk Hl]]]].
  split; [exact HI|]. split; [exact Hn|]. split; [|split; [exact HF|split; [exact Hk|split; [exact Hl|split]]]].
  - intros c. rewrite Hn. apply (dedup_first_in Z.eqb Zeqb_spec').
  - intros k x Hin. apply Hl, last_binding_in in Hin. apply in_wire_kl in Hin. exact Hin.
  - intros i j x Hin. destruct (Forall2_in_l _ _ _ _ HF Hin) as [[k x'] [Hp [i' [j' [a [b [He [Hi [Hj Hkk]]]]]]]]].
    cbn [fst snd] in *. injection He as <- <- <-. subst k.
    assert (Hkey : In (edge_key d a b) (map fst (wire_kl d w))).
    { apply (in_map fst) in Hp. exact Hp. }
    destruct (last_binding_total zpair_eqb zpair_eqb_spec _ _ Hkey) as [x' Hx'].
    exists a, b, x'. split; [exact Hi|]. split; [exact Hj|]. apply Hl. exact Hx'.
Qed.
