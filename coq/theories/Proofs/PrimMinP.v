(* Proofs for C12b, Prim: the total weight of the tree emitted by min_spanning_tree_prim
   is minimal.

   The argument uses ONLY the "returns an entry of minimal weight" half of [mpop_spec]
   ([forall y, In y h -> hw m <= hw y]) besides the split [h = l1 ++ m :: l2]: it does not
   depend on the order in which the heap breaks ties.

   [POk v] alone is not enough (see Props/C12b.v for the counterexample): it lets the two
   listings (a,b,w) / (b,a,w') of one edge carry different weights.  What is proved under
   [POk v] alone is minimality among the competitor trees all of whose edges are listed with
   the same weight from both ends ([SymIn]); under [WSym v] that is every tree.

   The loop invariant [TInv] says, for every threshold c:
     there is a node r of the tree (the node taken by the last edge heavier than c, or n0) with
     (B) every heap entry of weight <= c whose target is not yet taken starts at a node that
         the emitted edges of weight <= c connect to r;
     (C) two taken nodes that the competitor edges G of weight <= c connect are connected by
         the emitted edges of weight <= c.
   (C) at the end is the threshold condition of the exchange/majorization argument
   ([major_weight], the same argument as [kruskal_minimal]). *)
From Coq Require Import Lia ZArith Permutation.
From PG Require Import Lib.Io Model.View Model.Traversal Model.MstM
  Spec.Partition Spec.Forest Proofs.UnionFindH Proofs.ForestP Proofs.MstP Proofs.PrimP.

Local Notation lowc c l := (ends (filter (fun e : nat * nat * Z => Z.leb (snd e) c) l)).

(* ------------------------------------------------------------------ *)
(* the definitions used by the statements                               *)

(* F is a spanning tree of the component of n0, made of edges(a) entries: exactly what
   C12_prim_spanning_tree gives for the decoded stream *)
Definition comp_tree (v : view) (n0 : nat) (F : list (nat * nat * Z)) : Prop :=
  incl F (oedges v) /\ acyclic_edges (ends F) /\
  (forall x, uconn (ends F) n0 x <-> uconn (ends (oedges v)) n0 x) /\
  (forall a b, In (a, b) (ends F) -> uconn (ends F) n0 a).

(* every edge is listed from both of its ends with the same weight *)
Definition WSym (v : view) : Prop :=
  forall a b w, In (a, b, w) (oedges v) -> In (b, a, w) (oedges v).

(* the edges of G are listed from both ends with the same weight *)
Definition SymIn (v : view) (G : list (nat * nat * Z)) : Prop :=
  forall a b w, In (a, b, w) G -> In (a, b, w) (oedges v) /\ In (b, a, w) (oedges v).

(* an undirected view: edge_references and edges(a) show the same weighted edges *)
Definition UView (v : view) : Prop :=
  MOk v /\ POk v /\
  (forall a b w, In (a, b, w) (gedges v) -> In (a, b, w) (oedges v) /\ In (b, a, w) (oedges v)) /\
  (forall a b w, In (a, b, w) (oedges v) -> In (a, b, w) (gedges v) \/ In (b, a, w) (gedges v)).

(* ------------------------------------------------------------------ *)
(* small facts                                                          *)

Lemma in_lowc c (l : list (nat * nat * Z)) x y :
  In (x, y) (lowc c l) <-> exists w, In (x, y, w) l /\ (w <= c)%Z.
Proof.
  split.
  - intros Hi. apply in_ends in Hi. destruct Hi as [w Hi]. apply filter_In in Hi.
    destruct Hi as [Hi Hw]. simpl in Hw. apply Z.leb_le in Hw. exists w; auto.
  - intros [w [Hi Hw]]. apply in_ends. exists w. apply filter_In. split; auto.
    simpl. apply Z.leb_le; auto.
Qed.

Lemma lowc_lift c (X Y : list (nat * nat * Z)) : incl X Y ->
  forall x y, conn (lowc c X) x y -> conn (lowc c Y) x y.
Proof.
  intros Hi. apply conn_incl. apply ends_filter_incl; auto.
Qed.

Lemma pushed_src a : forall es k y, In y (pushed a es k) -> fst (snd y) = a.
Proof.
  induction es as [|e r IH]; intros k y Hy; simpl in Hy.
  - destruct Hy.
  - destruct Hy as [Hy|Hy]; [subst y; reflexivity | eapply IH; eauto].
Qed.

(* ------------------------------------------------------------------ *)
(* the exchange argument: below every threshold A connects what B's edges connect *)

Lemma major_weight (A B : list (nat * nat * Z)) :
  acyclic_edges (ends A) -> acyclic_edges (ends B) ->
  (forall x y, conn (ends A) x y <-> conn (ends B) x y) ->
  (forall x y w, In (x, y, w) B -> conn (lowc w A) x y) ->
  (weight A <= weight B)%Z.
Proof.
  intros HA HB Heq Hthr.
  assert (Len : length A = length B).
  { apply Nat.le_antisymm.
    - rewrite <- (map_length fst A), <- (map_length fst B).
      apply (forest_rank _ _ HA HB). intros x y C. apply Heq; exact C.
    - rewrite <- (map_length fst A), <- (map_length fst B).
      apply (forest_rank _ _ HB HA). intros x y C. apply Heq; exact C. }
  assert (Thr : forall t, cntle t (map snd B) <= cntle t (map snd A)).
  { intros t. rewrite !cntle_filter.
    set (f := fun e : nat * nat * Z => Z.leb (snd e) t).
    rewrite <- (map_length fst (filter f B)), <- (map_length fst (filter f A)).
    apply forest_rank.
    - apply (acyclic_filter f B [] [] (incl_refl _) HB).
    - apply (acyclic_filter f A [] [] (incl_refl _) HA).
    - apply conn_sub. intros x y Hxy.
      apply in_ends in Hxy. destruct Hxy as [w Hxy].
      apply filter_In in Hxy. destruct Hxy as [HF Hw]. unfold f in Hw. simpl in Hw.
      apply Z.leb_le in Hw.
      eapply conn_incl; [|exact (Hthr x y w HF)].
      apply ends_filter_incl; [apply incl_refl|].
      intros e He. unfold f. apply Z.leb_le. apply Z.leb_le in He. lia. }
  pose proof (majorize (length A) (map snd A) (map snd B)) as M.
  rewrite !map_length in M. specialize (M eq_refl (eq_sym Len) Thr).
  exact M.
Qed.

(* ------------------------------------------------------------------ *)
(* the threshold invariant                                              *)

Definition TInv (v : view) (G : list (nat * nat * Z)) (taken : list nat) (h : mheap)
           (acc : list (nat * nat * Z)) : Prop :=
  forall c : Z, exists r : nat,
    In r taken /\
    (forall y, In y h -> (fst (fst y) <= c)%Z -> ~ In (snd (snd y)) taken ->
       conn (lowc c (decode v acc)) r (fst (snd y))) /\
    (forall a b, In a taken -> In b taken ->
       conn (lowc c G) a b -> conn (lowc c (decode v acc)) a b).

Lemma tinv_init v G n0 : TInv v G [n0] (pushed n0 (out_edges v n0) 0) [].
Proof.
  intros c. exists n0. split; [left; reflexivity|]. split.
  - intros y Hy _ _. rewrite (pushed_src _ _ _ _ Hy). apply c_refl.
  - intros a b [Ha|[]] [Hb|[]] _. subst a b. apply c_refl.
Qed.

Lemma tinv_skip v G taken (h : mheap) acc m l1 l2 :
  h = l1 ++ m :: l2 -> TInv v G taken h acc -> TInv v G taken (l1 ++ l2) acc.
Proof.
  intros Eh TI c. destruct (TI c) as [r [Hr [B C]]]. exists r.
  split; [exact Hr|]. split; [|exact C].
  intros y Hy. apply B. rewrite Eh. apply in_app_iff in Hy. apply in_app_iff. simpl. tauto.
Qed.

Lemma tinv_take v G n0 taken (h : mheap) k acc w q s t l1 l2 so to_ :
  SymIn v G ->
  PInv v n0 taken h k acc ->
  h = l1 ++ (w, q, (s, t)) :: l2 ->
  (forall y, In y h -> (w <= hw y)%Z) ->
  TInv v G taken h acc ->
  ~ In t taken ->
  nth_error (vnodes v) so = Some s -> nth_error (vnodes v) to_ = Some t ->
  TInv v G (t :: taken) ((l1 ++ l2) ++ pushed t (out_edges v t) k) (acc ++ [(so, to_, w)]).
Proof.
  intros HG K Eh Hmin TI Ht Hso Hto.
  assert (Ed : decode v (acc ++ [(so, to_, w)]) = decode v acc ++ [(s, t, w)]).
  { rewrite decode_app. simpl. unfold node_at.
    rewrite (nth_error_nth (vnodes v) so 0 Hso), (nth_error_nth (vnodes v) to_ 0 Hto).
    reflexivity. }
  assert (Hm : In (w, q, (s, t)) h) by (rewrite Eh; apply in_app_iff; simpl; auto).
  assert (Hin : forall y, In y (l1 ++ l2) -> In y h).
  { intros y Hy. rewrite Eh. apply in_app_iff in Hy. apply in_app_iff. simpl. tauto. }
  intros c. rewrite Ed.
  destruct (TI c) as [r [Hr [B C]]].
  assert (Lift : forall x y, conn (lowc c (decode v acc)) x y ->
                             conn (lowc c (decode v acc ++ [(s, t, w)])) x y).
  { apply lowc_lift. intros e He. apply in_app_iff; auto. }
  destruct (Z_le_gt_dec w c) as [Hwc|Hwc].
  - (* the emitted edge is light: same r *)
    assert (Hrs : conn (lowc c (decode v acc)) r s).
    { apply (B (w, q, (s, t)) Hm); [exact Hwc | exact Ht]. }
    assert (Hst : conn (lowc c (decode v acc ++ [(s, t, w)])) s t).
    { apply c_base. apply in_lowc. exists w. split; [apply in_app_iff; simpl; auto | exact Hwc]. }
    assert (Hrt : conn (lowc c (decode v acc ++ [(s, t, w)])) r t).
    { eapply c_trans; [apply Lift; exact Hrs | exact Hst]. }
    assert (Cross : forall p p' w', In (p, p', w') (oedges v) -> (w' <= c)%Z ->
                      In p taken -> ~ In p' taken -> conn (lowc c (decode v acc)) r p).
    { intros p p' w' Hi Hw' Hp Hp'.
      destruct (pi_closed K p p' w' Hp Hi) as [N|Hh]; [contradiction|].
      apply in_map_iff in Hh. destruct Hh as [y [Ey Hy]].
      unfold hedge in Ey. injection Ey as E1 E2 E3.
      rewrite <- E1. apply B; [exact Hy | rewrite E3; exact Hw' | rewrite E2; exact Hp']. }
    assert (Old : forall x, In x taken -> conn (lowc c G) t x ->
                    conn (lowc c (decode v acc)) r x).
    { intros x Hx Cx.
      assert (R : (~ In t taken \/ conn (lowc c (decode v acc)) r t) <->
                  (~ In x taken \/ conn (lowc c (decode v acc)) r x)).
      { apply (conn_respects (fun z => ~ In z taken \/ conn (lowc c (decode v acc)) r z)
                 (lowc c G)); [|exact Cx].
        intros p p' Hi. apply in_lowc in Hi. destruct Hi as [w' [HiG Hw']].
        destruct (HG p p' w' HiG) as [O1 O2].
        destruct (in_dec Nat.eq_dec p taken) as [Hp|Hp];
          destruct (in_dec Nat.eq_dec p' taken) as [Hp'|Hp'].
        - assert (Cpp : conn (lowc c (decode v acc)) p p').
          { apply C; auto. apply c_base. apply in_lowc. exists w'; auto. }
          split; intros [N|Cr]; try contradiction; right.
          + eapply c_trans; [exact Cr | exact Cpp].
          + eapply c_trans; [exact Cr | apply c_sym; exact Cpp].
        - split; intros _; [left; exact Hp' | right; apply (Cross p p' w'); auto].
        - split; intros _; [right; apply (Cross p' p w'); auto | left; exact Hp].
        - split; intros _; left; auto. }
      destruct R as [R _]. destruct (R (or_introl Ht)) as [N|Cx']; [contradiction | exact Cx']. }
    exists r. split; [right; exact Hr|]. split.
    + intros y Hy Hyc Hyt. apply in_app_iff in Hy. destruct Hy as [Hy|Hy].
      * apply Lift. apply B; [apply Hin; exact Hy | exact Hyc |].
        intros N. apply Hyt. right; exact N.
      * rewrite (pushed_src _ _ _ _ Hy). exact Hrt.
    + intros a b [Ha|Ha] [Hb|Hb] Cab.
      * subst a b. apply c_refl.
      * subst a. eapply c_trans; [apply c_sym; exact Hrt | apply Lift, Old; auto].
      * subst b. eapply c_trans; [apply c_sym, Lift, Old; auto; apply c_sym; exact Cab | exact Hrt].
      * apply Lift. apply C; auto.
  - (* the emitted edge is heavy: nothing light was in the heap; r := t *)
    assert (NoLight : forall y, In y h -> (fst (fst y) <= c)%Z -> False).
    { intros y Hy Hyc. pose proof (Hmin y Hy) as M. unfold hw in M. lia. }
    assert (X : forall a b w0, In (a, b, w0) (oedges v) -> (w0 <= c)%Z -> In a taken -> In b taken).
    { intros a b w0 Hi0 Hw0 Ha. destruct (pi_closed K a b w0 Ha Hi0) as [Hb|Hh]; auto.
      exfalso. apply in_map_iff in Hh. destruct Hh as [y [Ey Hy]].
      unfold hedge in Ey. injection Ey as E1 E2 E3.
      apply (NoLight y Hy). rewrite E3. exact Hw0. }
    assert (Closed : forall x y, conn (lowc c G) x y -> (In x taken <-> In y taken)).
    { apply (conn_respects (fun z => In z taken)). intros p p' Hi.
      apply in_lowc in Hi. destruct Hi as [w' [HiG Hw']].
      destruct (HG p p' w' HiG) as [O1 O2].
      split; [apply (X p p' w') | apply (X p' p w')]; auto. }
    exists t. split; [left; reflexivity|]. split.
    + intros y Hy Hyc Hyt. apply in_app_iff in Hy. destruct Hy as [Hy|Hy].
      * exfalso. apply (NoLight y); [apply Hin; exact Hy | exact Hyc].
      * rewrite (pushed_src _ _ _ _ Hy). apply c_refl.
    + intros a b [Ha|Ha] [Hb|Hb] Cab.
      * subst a b. apply c_refl.
      * subst a. exfalso. apply Ht. apply (Closed _ _ Cab). exact Hb.
      * subst b. exfalso. apply Ht. apply (Closed _ _ Cab). exact Ha.
      * apply Lift. apply C; auto.
Qed.

(* ------------------------------------------------------------------ *)
(* the loop (same structure as PrimP.prim_drive_ok), carrying both invariants *)

Lemma prim_drive_min v G n0 : POk v -> SymIn v G -> forall fuel taken h k acc,
  PInv v n0 taken h k acc -> TInv v G taken h acc ->
  length h + rem_out v taken (vnodes v) < fuel ->
  exists l taken' h' k', prim_drive fuel v taken h k acc = Ok l /\
    PInv v n0 taken' h' k' l /\ TInv v G taken' h' l /\
    (h' = [] \/ length taken' = length (vnodes v)).
Proof.
  intros Hok HG. induction fuel as [|f IH]; intros taken h k acc K TI Hf; [lia|].
  simpl. unfold vnode_count.
  destruct (Nat.eqb_spec (length taken) (length (vnodes v))) as [El|El].
  { simpl. exists acc, taken, h, k. auto. }
  destruct (mpop h) as [[m h']|] eqn:Em.
  - destruct (mpop_spec h m h' (pi_hnd K) Em) as [[l1 [l2 [Eh Eh']]] Hmin].
    destruct m as [[w q] [s t]].
    assert (Hlen : length h = S (length (l1 ++ l2))).
    { rewrite Eh, !app_length. simpl. lia. }
    subst h'.
    destruct (pstep_m v n0 taken h k acc w q s t l1 l2 K Eh) as [Hs Hst].
    destruct (mem t taken) eqn:Et.
    + apply (IH taken (l1 ++ l2) k acc); [| |lia].
      * eapply pinv_skip; [exact K | exact Eh | apply mem_In; exact Et].
      * eapply tinv_skip; [exact Eh | exact TI].
    + rewrite push_edges_spec.
      pose proof Hok as [_ [Htgt _]].
      assert (Htv : In t (vnodes v)) by (apply (Htgt s t w); auto).
      assert (Hsv : In s (vnodes v)) by (apply (pi_in K); auto).
      destruct (index_in_0 (vnodes v) s Hsv) as [so [Es Hso]].
      destruct (index_in_0 (vnodes v) t Htv) as [to_ [Et' Hto]].
      rewrite Es, Et'.
      assert (Hnt : ~ In t taken).
      { intros Hi. apply mem_In in Hi. congruence. }
      apply (IH (t :: taken)).
      * eapply pinv_take; [exact Hok | exact K | exact Eh | exact Hnt | exact Hso | exact Hto].
      * eapply tinv_take; [exact HG | exact K | exact Eh | exact Hmin | exact TI | exact Hnt
                          | exact Hso | exact Hto].
      * rewrite app_length, pushed_length.
        pose proof (rem_out_take v t taken Et (vnodes v) Htv). lia.
  - apply mpop_none in Em. subst h. exists acc, taken, [], k. auto.
Qed.

(* the whole run *)
Lemma prim_final v G n0 rest : POk v -> SymIn v G -> vnodes v = n0 :: rest ->
  exists l taken h k, prim v = Ok l /\ PInv v n0 taken h k l /\ TInv v G taken h l /\
    (forall x, conn (ends (oedges v)) n0 x -> In x taken).
Proof.
  intros Hok HG Ev.
  assert (Hn : In n0 (vnodes v)) by (rewrite Ev; left; auto).
  unfold prim. rewrite Ev. cbv iota. rewrite push_edges_spec. cbv beta iota.
  destruct (prim_drive_min v G n0 Hok HG (4 * trav_fuel v + 4) [n0]
              (pushed n0 (out_edges v n0) 0) (length (out_edges v n0)) []
              (pinv_init v n0 Hn) (tinv_init v G n0))
    as [l [taken [h [k [E [K [TI Hend]]]]]]].
  { rewrite pushed_length.
    assert (Em : mem n0 [] = false) by reflexivity.
    pose proof (rem_out_take v n0 [] Em (vnodes v) Hn) as R.
    rewrite <- all_out_length in R. unfold trav_fuel. lia. }
  exists l, taken, h, k. split; [exact E|]. split; [exact K|]. split; [exact TI|].
  destruct Hend as [Eh|El].
  - subst h. intros x C.
    apply (conn_respects (fun z => In z taken) (ends (oedges v))) with (x := n0) (y := x); auto.
    + intros a b Hi. apply in_ends in Hi. destruct Hi as [w Hi]. split; intros H.
      * destruct (pi_closed K a b w H Hi) as [Hb|[]]; auto.
      * pose proof Hok as [_ [_ Hsym]]. destruct (Hsym a b w Hi) as [w' Hi'].
        destruct (pi_closed K b a w' H Hi') as [Ha|[]]; auto.
    + exact (pi_n0 K).
  - intros x C.
    assert (Hincl : incl (vnodes v) taken).
    { apply NoDup_length_incl; [exact (pi_nd K) | lia | exact (pi_in K)]. }
    destruct (conn_inside (fun z => In z (vnodes v)) (ends (oedges v))) with (x := n0) (y := x)
      as [E0|[_ Hx]]; auto.
    + intros a b Hi. apply in_ends in Hi. destruct Hi as [w Hi]. split.
      * apply in_oedges in Hi. tauto.
      * pose proof Hok as [_ [Htgt _]]. apply (Htgt a b w); auto.
    + subst x. exact (pi_n0 K).
Qed.

(* ------------------------------------------------------------------ *)
(* the cut / threshold property of the emitted tree                      *)

Theorem prim_threshold v n0 rest l G : POk v -> vnodes v = n0 :: rest -> prim v = Ok l ->
  SymIn v G ->
  forall c a b, conn (ends (oedges v)) n0 a -> conn (ends (oedges v)) n0 b ->
    conn (lowc c G) a b -> conn (lowc c (decode v l)) a b.
Proof.
  intros Hok Ev Ep HG c a b Ca Cb Cab.
  destruct (prim_final v G n0 rest Hok HG Ev) as [l0 [taken [h [k [E0 [K [TI All]]]]]]].
  rewrite Ep in E0. inversion E0; subst l0. clear E0.
  destruct (TI c) as [r [_ [_ C]]].
  apply C; auto.
Qed.

(* one edge listed from both ends with weight w, in the component of n0: its ends are
   connected by emitted edges of weight <= w *)
Corollary prim_cut_property v n0 rest l : POk v -> vnodes v = n0 :: rest -> prim v = Ok l ->
  forall x y w, In (x, y, w) (oedges v) -> In (y, x, w) (oedges v) ->
    conn (ends (oedges v)) n0 x ->
    conn (lowc w (decode v l)) x y.
Proof.
  intros Hok Ev Ep x y w H1 H2 Cx.
  apply (prim_threshold v n0 rest l [(x, y, w)] Hok Ev Ep).
  - intros a b w' [Hi|[]]. inversion Hi; subst. auto.
  - exact Cx.
  - eapply c_trans; [exact Cx|]. apply c_base. apply in_ends. exists w; auto.
  - apply c_base. apply in_lowc. exists w. split; [left; reflexivity | lia].
Qed.

(* ------------------------------------------------------------------ *)
(* minimality                                                           *)

Lemma prim_comp_tree v n0 rest l : POk v -> vnodes v = n0 :: rest -> prim v = Ok l ->
  comp_tree v n0 (decode v l).
Proof.
  intros Hok Ev Ep.
  destruct (prim_spanning_tree v n0 rest Hok Ev) as [l0 [E0 [TSub [TAc [TSp [THang _]]]]]].
  rewrite Ep in E0. inversion E0; subst l0. clear E0.
  split; [exact TSub|]. split; [exact TAc|]. split; [exact TSp | exact THang].
Qed.

(* two spanning trees of the component of n0 connect the same pairs *)
Lemma comp_tree_conn v n0 A B : comp_tree v n0 A -> comp_tree v n0 B ->
  forall x y, conn (ends A) x y -> conn (ends B) x y.
Proof.
  intros [AI [AA [AS AH]]] [BI [BA [BS BH]]]. unfold uconn in *.
  apply conn_sub. intros a b Hi.
  assert (Ca : conn (ends A) n0 a) by (apply (AH a b Hi)).
  assert (Cb : conn (ends A) n0 b).
  { eapply c_trans; [exact Ca | apply c_base; exact Hi]. }
  apply AS, BS in Ca. apply AS, BS in Cb.
  eapply c_trans; [apply c_sym; exact Ca | exact Cb].
Qed.

Theorem prim_minimal_partial v n0 rest l : POk v -> vnodes v = n0 :: rest -> prim v = Ok l ->
  forall F, comp_tree v n0 F ->
    (forall a b w, In (a, b, w) F -> In (b, a, w) (oedges v)) ->
    (weight l <= weight F)%Z.
Proof.
  intros Hok Ev Ep F HF Hsym.
  pose proof (prim_comp_tree v n0 rest l Hok Ev Ep) as HT.
  assert (HG : SymIn v F).
  { intros a b w Hi. split; [apply HF; exact Hi | apply Hsym; exact Hi]. }
  rewrite <- (weight_decode v l).
  apply major_weight.
  - apply HT.
  - apply HF.
  - intros x y. split; [apply (comp_tree_conn v n0 _ _ HT HF) | apply (comp_tree_conn v n0 _ _ HF HT)].
  - intros x y w Hi.
    destruct HF as [FI [FA [FS FH]]]. unfold uconn in *.
    assert (Cx : conn (ends F) n0 x).
    { apply (FH x y). apply in_ends. exists w; exact Hi. }
    assert (Cy : conn (ends F) n0 y).
    { eapply c_trans; [exact Cx|]. apply c_base. apply in_ends. exists w; exact Hi. }
    apply (prim_threshold v n0 rest l F Hok Ev Ep HG w x y).
    + apply FS; exact Cx.
    + apply FS; exact Cy.
    + apply c_base. apply in_lowc. exists w. split; [exact Hi | lia].
Qed.

Theorem prim_minimal v n0 rest l : POk v -> WSym v -> vnodes v = n0 :: rest -> prim v = Ok l ->
  comp_tree v n0 (decode v l) /\ weight (decode v l) = weight l /\
  forall F, comp_tree v n0 F -> (weight l <= weight F)%Z.
Proof.
  intros Hok HW Ev Ep. split; [apply (prim_comp_tree v n0 rest l Hok Ev Ep)|].
  split; [apply weight_decode|].
  intros F HF. apply (prim_minimal_partial v n0 rest l Hok Ev Ep F HF).
  intros a b w Hi. apply HW. apply HF. exact Hi.
Qed.

(* ------------------------------------------------------------------ *)
(* Prim and Kruskal agree on the total weight of a connected undirected view *)

Lemma uview_wsym v : UView v -> WSym v.
Proof.
  intros [_ [_ [U1 U2]]] a b w Hi.
  destruct (U2 a b w Hi) as [H|H]; apply U1 in H; tauto.
Qed.

Lemma uview_conn v : UView v ->
  forall x y, conn (ends (gedges v)) x y <-> conn (ends (oedges v)) x y.
Proof.
  intros [_ [_ [U1 U2]]] x y. split; apply conn_sub; intros a b Hi;
    apply in_ends in Hi; destruct Hi as [w Hi].
  - apply c_base. apply in_ends. exists w. destruct (U1 a b w Hi) as [O _]. exact O.
  - destruct (U2 a b w Hi) as [H|H].
    + apply c_base. apply in_ends. exists w; exact H.
    + apply c_sym, c_base. apply in_ends. exists w; exact H.
Qed.

Theorem prim_kruskal_same_weight v n0 rest lp lk : UView v -> vnodes v = n0 :: rest ->
  (forall x, In x (vnodes v) -> uconn (ends (gedges v)) n0 x) ->
  prim v = Ok lp -> kruskal v = Ok lk -> weight lp = weight lk.
Proof.
  intros U Ev Hc Ep Ek. pose proof U as [HM [HP [U1 U2]]].
  pose proof (uview_conn v U) as GO.
  unfold uconn in Hc.
  pose proof (prim_comp_tree v n0 rest lp HP Ev Ep) as [TSub [TAc [TSp THang]]].
  pose proof (kruskal_spanning_forest v lk HM Ek) as [KSub [KAc KSp]].
  unfold spanning, uconn in *.
  assert (Nodes : forall a b w, In (a, b, w) (oedges v) -> In a (vnodes v) /\ In b (vnodes v)).
  { intros a b w Hi. split.
    - apply in_oedges in Hi. tauto.
    - destruct HP as [_ [Htgt _]]. apply (Htgt a b w Hi). }
  assert (ConnT : forall x, In x (vnodes v) -> conn (ends (decode v lp)) n0 x).
  { intros x Hx. apply TSp. apply GO. apply Hc; exact Hx. }
  apply Z.le_antisymm.
  - (* Prim <= Kruskal: the Kruskal forest is a spanning tree of the component of n0 *)
    rewrite <- (weight_decode v lk).
    apply (prim_minimal_partial v n0 rest lp HP Ev Ep (decode v lk)).
    + split; [|split; [|split]].
      * intros [[a b] w] Hi. apply KSub in Hi. apply U1 in Hi. tauto.
      * exact KAc.
      * intros x. unfold uconn. split; intros C.
        -- apply GO, KSp; exact C.
        -- apply KSp, GO; exact C.
      * intros a b Hi. unfold uconn. apply KSp. apply Hc.
        apply in_ends in Hi. destruct Hi as [w Hi]. apply KSub, U1 in Hi.
        destruct Hi as [Hi _]. apply (Nodes a b w Hi).
    + intros a b w Hi. apply KSub, U1 in Hi. tauto.
  - (* Kruskal <= Prim: the threshold property of Kruskal against the Prim tree *)
    rewrite <- (weight_decode v lk), <- (weight_decode v lp).
    destruct (kruskal_inv v lk HM Ek) as [u [P K]].
    apply major_weight; auto.
    + intros x y. split; intros C.
      * apply KSp, GO in C. revert x y C. apply conn_sub. intros a b Hi.
        apply in_ends in Hi. destruct Hi as [w Hi]. destruct (Nodes a b w Hi) as [Na Nb].
        eapply c_trans; [apply c_sym, ConnT; exact Na | apply ConnT; exact Nb].
      * apply KSp, GO. revert x y C. apply conn_incl. intros [a b] Hi.
        apply in_ends in Hi. destruct Hi as [w Hi]. apply in_ends. exists w. apply TSub; exact Hi.
    + intros x y w Hi. apply TSub in Hi.
      assert (Thr : forall a b, In (a, b, w) (gedges v) -> conn (lowc w (decode v lk)) a b).
      { intros a b Hg.
        assert (Hp : In (a, b, w) (map hedge P)).
        { eapply Permutation_in; [apply (final_edges v u P lk K) | exact Hg]. }
        apply in_map_iff in Hp. destruct Hp as [p [Ep' Hp]].
        pose proof (ki_thr K p Hp) as C. rewrite Ep' in C. simpl in C.
        assert (Hw : hw p = w) by (unfold hedge in Ep'; inversion Ep'; reflexivity).
        rewrite Hw in C. exact C. }
      destruct (U2 x y w Hi) as [Hg|Hg]; [apply Thr; exact Hg | apply c_sym, Thr; exact Hg].
Qed.

(* ------------------------------------------------------------------ *)
(* checkers (used for the concrete examples)                            *)

Definition eq3 (e e' : nat * nat * Z) : bool :=
  andb (andb (Nat.eqb (fst (fst e)) (fst (fst e'))) (Nat.eqb (snd (fst e)) (snd (fst e'))))
       (Z.eqb (snd e) (snd e')).
Definition mem3 (e : nat * nat * Z) (l : list (nat * nat * Z)) : bool := existsb (eq3 e) l.
Definition flip3 (e : nat * nat * Z) : nat * nat * Z := (snd (fst e), fst (fst e), snd e).

Lemma mem3_In e l : mem3 e l = true -> In e l.
Proof.
  unfold mem3. intros H. apply existsb_exists in H. destruct H as [e' [Hi E]].
  unfold eq3 in E. apply andb_true_iff in E. destruct E as [E E3].
  apply andb_true_iff in E. destruct E as [E1 E2].
  apply Nat.eqb_eq in E1. apply Nat.eqb_eq in E2. apply Z.eqb_eq in E3.
  destruct e as [[a b] w], e' as [[a' b'] w']. simpl in *. subst. exact Hi.
Qed.

Definition wsym_b (v : view) : bool :=
  forallb (fun e => mem3 (flip3 e) (oedges v)) (oedges v).

Lemma wsym_b_sound v : wsym_b v = true -> WSym v.
Proof.
  unfold wsym_b. intros H a b w Hi. rewrite forallb_forall in H.
  apply (mem3_In (b, a, w)). apply (H (a, b, w) Hi).
Qed.

Definition uview_b (v : view) : bool :=
  andb (andb (mok_b v) (pok_b v))
       (andb (forallb (fun e => andb (mem3 e (oedges v)) (mem3 (flip3 e) (oedges v))) (gedges v))
             (forallb (fun e => orb (mem3 e (gedges v)) (mem3 (flip3 e) (gedges v))) (oedges v))).

Lemma uview_b_sound v : uview_b v = true -> UView v.
Proof.
  unfold uview_b. intros H. apply andb_true_iff in H. destruct H as [H12 H34].
  apply andb_true_iff in H12. destruct H12 as [H1 H2].
  apply andb_true_iff in H34. destruct H34 as [H3 H4].
  rewrite forallb_forall in H3. rewrite forallb_forall in H4.
  split; [apply mok_b_sound; exact H1|]. split; [apply pok_b_sound; exact H2|]. split.
  - intros a b w Hi. specialize (H3 _ Hi). apply andb_true_iff in H3. destruct H3 as [A B].
    split; [apply (mem3_In (a, b, w)); exact A | apply (mem3_In (b, a, w)); exact B].
  - intros a b w Hi. specialize (H4 _ Hi). apply orb_true_iff in H4. destruct H4 as [A|B].
    + left. apply (mem3_In (a, b, w)); exact A.
    + right. apply (mem3_In (b, a, w)); exact B.
Qed.

(* a sufficient test for comp_tree (it asks F to connect the two ends of EVERY edges(a)
   entry, which is what comp_tree says when the view is connected) *)
Fixpoint acyclic_b (prev es : list (nat * nat)) : bool :=
  match es with
  | [] => true
  | (a, b) :: t => andb (negb (Nat.eqb (qf prev a) (qf prev b))) (acyclic_b ((a, b) :: prev) t)
  end.

Lemma acyclic_b_sound : forall es prev, acyclic_b prev es = true -> acyclic_from prev es.
Proof.
  induction es as [|[a b] t IH]; intros prev H; simpl in *; auto.
  apply andb_true_iff in H. destruct H as [H1 H2]. split.
  - intros C. apply qf_conn in C. apply Nat.eqb_eq in C. rewrite C in H1. discriminate.
  - apply IH; exact H2.
Qed.

Definition comp_tree_b (v : view) (n0 : nat) (F : list (nat * nat * Z)) : bool :=
  andb (andb (forallb (fun e => mem3 e (oedges v)) F) (acyclic_b [] (ends F)))
       (andb (forallb (fun p => Nat.eqb (qf (ends F) (fst p)) (qf (ends F) (snd p))) (ends (oedges v)))
             (forallb (fun p => Nat.eqb (qf (ends F) n0) (qf (ends F) (fst p))) (ends F))).

Lemma comp_tree_b_sound v n0 F : comp_tree_b v n0 F = true -> comp_tree v n0 F.
Proof.
  unfold comp_tree_b. intros H. apply andb_true_iff in H. destruct H as [H12 H34].
  apply andb_true_iff in H12. destruct H12 as [H1 H2].
  apply andb_true_iff in H34. destruct H34 as [H3 H4].
  rewrite forallb_forall in H1. rewrite forallb_forall in H3. rewrite forallb_forall in H4.
  assert (FI : incl F (oedges v)).
  { intros e He. apply mem3_In. apply H1; exact He. }
  split; [exact FI|]. split; [apply acyclic_b_sound; exact H2|]. split.
  - intros x. unfold uconn. split.
    + apply conn_incl. intros [a b] Hi. apply in_ends in Hi. destruct Hi as [w Hi].
      apply in_ends. exists w. apply FI; exact Hi.
    + apply conn_sub. intros a b Hi. apply qf_conn. apply Nat.eqb_eq. apply (H3 (a, b) Hi).
  - intros a b Hi. unfold uconn. apply qf_conn. apply Nat.eqb_eq. apply (H4 (a, b) Hi).
Qed.
