(* C07b, last part: no panic on one encoding when another succeeds, for the algorithms of
   InvarianceP2-4.  Under the well-formedness of both views every one of them returns Ok on
   both (never Panic, never OutOfFuel). *)
From Coq Require Import Permutation Lia ZArith NArith List.
From PG Require Import Lib.Io Model.View Model.Traversal Model.AlgoBasic Model.ShortestM Model.MstM
                       Model.CutM Model.MatchM Model.FlowM Model.MiscM
                       Spec.Reach Spec.Paths Spec.AlgoSpec Spec.Forest Spec.ViewIso Spec.EPaths
                       Spec.DomSpec Spec.CutSpec Spec.FlowSpec Spec.MatchSpec Spec.MiscSpec
                       Proofs.AlgoAll Proofs.BellmanFordP Proofs.FncP Proofs.FloydP
                       Proofs.DomAccP Proofs.ArtP Proofs.TarjanExactP Proofs.AstarP Proofs.KspGenP
                       Proofs.PrimP Proofs.FlowP Proofs.MatchGreedyP Proofs.MatchFindJoinP Proofs.MatchTotalP
                       Proofs.MiscTredViewP
                       Proofs.IsoP Proofs.InvarianceP Proofs.InvarianceP2 Proofs.InvarianceP3 Proofs.InvarianceP4
                       Props.C11b.
Set Implicit Arguments.
Unset Strict Implicit.
Local Open Scope nat_scope.

Lemma prim_total v : POk v -> exists l, prim v = Ok l.
Proof.
  intros P. destruct (vnodes v) as [|n0 rest] eqn:E.
  - exists []. apply (prim_empty v E).
  - destruct (prim_spanning_tree v n0 rest P E) as [l [El _]]. exists l. exact El.
Qed.

Theorem no_panic_transfer2 p v1 v2 : view_iso p v1 v2 ->
  (* dominators, articulation_points, tarjan_scc + node_component_index, transitive reduction *)
  (Reach.VOk v1 -> Reach.VOk v2 ->
     (forall root d1 d2, In root (vnodes v1) ->
        exists m1 m2, simple_fast v1 root d1 = Ok m1 /\ simple_fast v2 (p root) d2 = Ok m2) /\
     (CutSpec.symmetric v1 -> CutSpec.symmetric v2 ->
      (forall n, In n (vnodes v1) -> n < vbound v1) -> (forall n, In n (vnodes v2) -> n < vbound v2) ->
        exists l1 l2, articulation_points v1 = Ok l1 /\ articulation_points v2 = Ok l2) /\
     ((forall n, In n (vnodes v1) -> n < vbound v1) -> (forall n, In n (vnodes v2) -> n < vbound v2) ->
      (N.of_nat (length (vnodes v1)) < USIZE_MAX)%N -> (N.of_nat (length (vnodes v2)) < USIZE_MAX)%N ->
      forall d1 d2, exists t1 o1 t2 o2,
        tarjan_run v1 d1 = Ok (t1, o1) /\ tarjan_run v2 d2 = Ok (t2, o2) /\
        forall x, In x (vnodes v1) -> exists i1 i2,
          node_component_index t1 d1 x = Ok i1 /\ node_component_index t2 d2 (p x) = Ok i2) /\
     ((forall n, In n (vnodes v1) -> n < vbound v1) -> (forall n, In n (vnodes v2) -> n < vbound v2) ->
      no_parallel_in v1 -> no_parallel_in v2 ->
      forall o1 o2, toposort v1 = Ok (inr o1) -> toposort v2 = Ok (inr o2) ->
        exists g1 rm1 r1 g2 rm2 r2,
          dag_to_toposorted_adjacency_list v1 o1 = Ok (g1, rm1) /\ dag_transitive_reduction_closure g1 = Ok r1 /\
          dag_to_toposorted_adjacency_list v2 o2 = Ok (g2, rm2) /\ dag_transitive_reduction_closure g2 = Ok r2)) /\
  (* astar (enough fuel; any heuristic), k_shortest_path (every k) *)
  (Paths.VOk v1 -> Paths.VOk v2 -> nonneg v1 ->
     (forall s (g1 g2 : nat -> bool) (e1 e2 : nat -> Z) f1 f2,
        astar_fuel_bound v1 s <= f1 -> astar_fuel_bound v2 (p s) <= f2 ->
        exists r1 r2, astar_run f1 v1 s g1 e1 = Ok r1 /\ astar_run f2 v2 (p s) g2 e2 = Ok r2) /\
     ((forall a e, In e (out_edges v1 a) -> tgt e < vbound v1) ->
      (forall a e, In e (out_edges v2 a) -> tgt e < vbound v2) ->
      (forall a, NoDup (out_edges v1 a)) -> (forall a, NoDup (out_edges v2 a)) ->
      forall s k, s < vbound v1 -> p s < vbound v2 ->
        exists m1 m2, k_shortest_path v1 (vbound v1) s None k = Ok m1 /\
                      k_shortest_path v2 (vbound v2) (p s) None k = Ok m2)) /\
  (* spfa (side conditions of C11b_spfa), find_negative_cycle *)
  (BOk v1 -> BOk v2 ->
     (forall s kmin kmax Dg1 Dg2, In s (vnodes v1) ->
        (forall a, length (out_edges v1 a) <= Dg1) -> (forall a, length (out_edges v2 a) <= Dg2) ->
        (forall w x, walk v1 s w x -> length w <= vbound v1 * vbound v1 * Dg1 -> (kmin <= walk_cost w)%Z) ->
        (forall w x, walk v2 (p s) w x -> length w <= vbound v2 * vbound v2 * Dg2 -> (kmin <= walk_cost w)%Z) ->
        (forall w x, walk v1 s w x -> NoDup (s :: map tgt w) -> (walk_cost w < kmax)%Z) ->
        (forall w x, walk v2 (p s) w x -> NoDup (p s :: map tgt w) -> (walk_cost w < kmax)%Z) ->
        exists r1 r2, spfa kmin kmax v1 s = Ok r1 /\ spfa kmin kmax v2 (p s) = Ok r2) /\
     ((forall a, In a (vnodes v1) -> Paths.in_cap v1 a) -> (forall a, In a (vnodes v2) -> Paths.in_cap v2 a) ->
      forall s, In s (vnodes v1) ->
        exists r1 r2, find_negative_cycle v1 s = Ok r1 /\ find_negative_cycle v2 (p s) = Ok r2)) /\
  (* floyd_warshall *)
  (FloydP.FOk v1 -> FloydP.FOk v2 -> forall kmin kmax, (0 <= kmax)%Z ->
     exists r1 r2, floyd_warshall kmin kmax v1 = Ok r1 /\ floyd_warshall kmin kmax v2 = Ok r2) /\
  (* Prim *)
  (POk v1 -> POk v2 -> exists l1 l2, prim v1 = Ok l1 /\ prim v2 = Ok l2) /\
  (* greedy_matching, maximum_matching *)
  (MatchSpec.MOk v1 -> MatchSpec.MOk v2 ->
     (exists r1 r2, greedy_inner v1 = Ok r1 /\ greedy_inner v2 = Ok r2) /\
     (EidOk v1 -> EidOk v2 -> CapOk v1 -> CapOk v2 -> forall d1 d2,
        exists r1 r2, maximum_matching v1 d1 = Ok r1 /\ maximum_matching v2 d2 = Ok r2)) /\
  (* ford_fulkerson *)
  (FlowSpec.FOk v1 -> FlowSpec.FOk v2 -> forall s t w1 w2, In s (vnodes v1) -> In t (vnodes v1) -> s <> t ->
     exists r1 r2, ford_fulkerson v1 s t w1 = Ok r1 /\ ford_fulkerson v2 (p s) (p t) w2 = Ok r2).
Proof.
  intros H. split; [|split; [|split; [|split; [|split; [|split]]]]].
  - intros V1 V2. split; [|split; [|split]].
    + intros root d1 d2 Hr.
      destruct (simple_fast_iso d1 d2 H V1 V2 Hr) as [m1 [m2 [E1 [E2 _]]]]. exists m1, m2. split; assumption.
    + intros S1 S2 B1 B2.
      destruct (articulation_points_iso H V1 V2 S1 S2 B1 B2) as [l1 [l2 [E1 [E2 _]]]]. exists l1, l2. split; assumption.
    + intros B1 B2 U1 U2 d1 d2.
      destruct (tarjan_exact v1 d1 V1 B1 U1) as [t1 [o1 [E1 _]]].
      destruct (tarjan_exact v2 d2 V2 B2 U2) as [t2 [o2 [E2 _]]].
      exists t1, o1, t2, o2. split; [exact E1|]. split; [exact E2|]. intros x Hx.
      destruct (proj2 (tarjan_component_index v1 d1 V1 B1 U1 t1 o1 E1) x Hx) as [i1 [_ [_ [_ I1]]]].
      destruct (proj2 (tarjan_component_index v2 d2 V2 B2 U2 t2 o2 E2) (p x) (iso_img H Hx)) as [i2 [_ [_ [_ I2]]]].
      exists (N.of_nat i1), (N.of_nat i2). split; assumption.
    + intros B1 B2 P1 P2 o1 o2 E1 E2.
      destruct (tred_closure_iso H V1 V2 B1 B2 P1 P2 E1 E2)
        as [g1 [rm1 [tr1 [tc1 [g2 [rm2 [tr2 [tc2 [A1 [T1 [A2 [T2 _]]]]]]]]]]]].
      exists g1, rm1, (tr1, tc1), g2, rm2, (tr2, tc2). repeat split; assumption.
  - intros V1 V2 N1. pose proof (proj1 (nonneg_iso H) N1) as N2. split.
    + intros s g1 g2 e1 e2 f1 f2 F1 F2.
      destruct (astar_run_total g1 e1 V1 N1 F1) as [r1 [E1 _]].
      destruct (astar_run_total g2 e2 V2 N2 F2) as [r2 [E2 _]].
      exists r1, r2. split; assumption.
    + intros T1 T2 D1 D2 s k B1 B2.
      destruct (ksp_gen_exact k V1 N1 T1 B1 D1) as [m1 [E1 _]].
      destruct (ksp_gen_exact k V2 N2 T2 B2 D2) as [m2 [E2 _]].
      exists m1, m2. split; assumption.
  - intros B1 B2. split.
    + intros s kmin kmax Dg1 Dg2 Hs D1 D2 L1 L2 U1 U2.
      destruct (spfa_iso H B1 B2 Hs D1 D2 L1 L2 U1 U2) as [r1 [r2 [E1 [E2 _]]]]. exists r1, r2. split; assumption.
    + intros C1 C2 s Hs.
      destruct (find_negative_cycle_iso H B1 B2 Hs C1 C2) as [r1 [r2 [E1 [E2 _]]]]. exists r1, r2. split; assumption.
  - intros F1 F2 kmin kmax K.
    destruct (fw_total_sound kmin F1 K) as [r1 [E1 _]]. destruct (fw_total_sound kmin F2 K) as [r2 [E2 _]].
    exists r1, r2. split; assumption.
  - intros P1 P2. destruct (prim_total P1) as [l1 E1]. destruct (prim_total P2) as [l2 E2].
    exists l1, l2. split; assumption.
  - intros M1 M2. split.
    + destruct (greedy_inner_valid v1 M1) as [m1 [n1 [E1 _]]]. destruct (greedy_inner_valid v2 M2) as [m2 [n2 [E2 _]]].
      exists (m1, n1), (m2, n2). split; assumption.
    + intros I1 I2 C1 C2 d1 d2.
      destruct (maximum_matching_total v1 d1 M1 I1 C1) as [m1 [n1 [E1 _]]].
      destruct (maximum_matching_total v2 d2 M2 I2 C2) as [m2 [n2 [E2 _]]].
      exists (m1, n1), (m2, n2). split; assumption.
  - intros F1 F2 s t w1 w2 Hs Ht Hst.
    destruct (ford_fulkerson_iso w1 w2 H F1 F2 Hs Ht Hst) as [a1 [b1 [a2 [b2 [E1 [E2 _]]]]]].
    exists (a1, b1), (a2, b2). split; assumption.
Qed.
