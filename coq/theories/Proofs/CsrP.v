(* Proofs about the Csr model: the structural invariant, absence of panics and
   fuel exhaustion, and what one insertion does to every row. *)
From PG Require Import Lib.ListExtra Lib.Io Model.CsrM Spec.CsrSpec Proofs.CsrSearch.
Set Implicit Arguments.

Arguments ci_len_row {g}.
Arguments ci_row0 {g}.
Arguments ci_mono {g} _ {i x y}.
Arguments ci_last {g}.
Arguments ci_cedges {g}.
Arguments ci_targets {g}.
Arguments ci_rows_asc {g} _ {a s e}.

(* ------------------------------------------------------------------ *)
(* slices, insert_at, bump_from                                        *)

Lemma slice_ok {A} (l : list A) s e : s <= e -> e <= length l -> slice l s e = Ok (seg l s e).
Proof.
  intros H1 H2. unfold slice.
  destruct (Nat.leb_spec s e); try lia. destruct (Nat.leb_spec e (length l)); try lia.
  reflexivity.
Qed.

Lemma insert_at_ok {A} (l : list A) i x : i <= length l -> insert_at l i x = Ok (ins l i x).
Proof.
  intros H. unfold insert_at. destruct (Nat.leb_spec i (length l)); try lia. reflexivity.
Qed.

Lemma nth_error_bump l k i :
  nth_error (bump_from l k) i =
  option_map (fun x => if Nat.leb k i then S x else x) (nth_error l i).
Proof.
  revert k i; induction l as [|h t IH]; intros k i.
  - destruct k, i; reflexivity.
  - destruct k as [|k]; destruct i as [|i]; cbn [bump_from nth_error option_map]; auto.
    + rewrite IH. reflexivity.
    + rewrite IH. reflexivity.
Qed.

Lemma bump_length l k : length (bump_from l k) = length l.
Proof.
  revert k; induction l as [|h t IH]; intros [|k]; cbn [bump_from length]; auto.
Qed.

(* ------------------------------------------------------------------ *)
(* Reading the invariant                                               *)

Lemma node_count_inv g : CInv g -> node_count g = length (nweights g).
Proof. intros I. unfold node_count. rewrite (ci_len_row I). lia. Qed.

Lemma row_mono g : CInv g -> forall j i x y, i <= j ->
  nth_error (row g) i = Some x -> nth_error (row g) j = Some y -> x <= y.
Proof.
  intros I. induction j as [|j IH]; intros i x y Hij Hi Hj.
  - assert (i = 0) by lia; subst. rewrite Hi in Hj; inversion Hj; lia.
  - destruct (Nat.eq_dec i (S j)) as [->|Hne].
    + rewrite Hi in Hj; inversion Hj; lia.
    + destruct (@nth_error_lt_Some _ (row g) j) as [z Hz].
      { apply nth_error_Some_lt in Hj. lia. }
      assert (x <= z) by (apply (IH i x z); auto; lia).
      pose proof (ci_mono I Hz Hj). lia.
Qed.

Lemma row_bounds g a : CInv g -> a < node_count g ->
  exists s e, nth_error (row g) a = Some s /\ nth_error (row g) (S a) = Some e /\
              s <= e /\ e <= length (column g).
Proof.
  intros I Ha. rewrite (node_count_inv I) in Ha.
  destruct (@nth_error_lt_Some _ (row g) a) as [s Hs]; [rewrite (ci_len_row I); lia|].
  destruct (@nth_error_lt_Some _ (row g) (S a)) as [e He]; [rewrite (ci_len_row I); lia|].
  exists s, e. repeat split; auto.
  - eapply (ci_mono I); eauto.
  - eapply (row_mono I); [| exact He | exact (ci_last I)]. lia.
Qed.

(* Everything the accessors return for a node in range. *)
Lemma row_view g a : CInv g -> a < node_count g ->
  exists s e, nth_error (row g) a = Some s /\ nth_error (row g) (S a) = Some e /\
    s <= e /\ e <= length (column g) /\
    neighbors_of g a = Ok (s, seg (column g) s e) /\
    neighbors_slice g a = Ok (seg (column g) s e) /\
    edges_slice g a = Ok (seg (cedges g) s e) /\
    out_degree g a = Ok (e - s) /\
    ascending (seg (column g) s e).
Proof.
  intros I Ha. destruct (row_bounds I Ha) as [s [e [Hs [He [Hse Hel]]]]].
  exists s, e.
  assert (Hnr : neighbors_range g a = Ok (s, e)).
  { unfold neighbors_range. rewrite Hs, He. reflexivity. }
  assert (Hno : neighbors_of g a = Ok (s, seg (column g) s e)).
  { unfold neighbors_of. rewrite Hnr. cbn [rbind]. rewrite slice_ok by auto. reflexivity. }
  repeat split; auto.
  - unfold neighbors_slice. rewrite Hno. reflexivity.
  - unfold edges_slice. rewrite Hnr. cbn [rbind]. apply slice_ok; auto.
    rewrite (ci_cedges I); auto.
  - unfold out_degree. rewrite Hnr. reflexivity.
  - exact (ci_rows_asc I Hs He).
Qed.

Lemma row_targets g a ts : CInv g -> a < node_count g -> neighbors_slice g a = Ok ts ->
  forall b, In b ts -> b < node_count g.
Proof.
  intros I Ha E b Hb.
  destruct (row_view I Ha) as [s [e [_ [_ [_ [_ [_ [Hn _]]]]]]]].
  rewrite Hn in E; inversion E; subst ts.
  apply seg_In in Hb. pose proof (ci_targets I) as F. rewrite Forall_forall in F. auto.
Qed.

(* find_edge_pos does not depend on the cutoff, and never panics. *)
Lemma find_edge_pos_ok g a b : CInv g -> a < node_count g ->
  exists s e, nth_error (row g) a = Some s /\ nth_error (row g) (S a) = Some e /\
    find_edge_pos g a b = Ok (shift_pos s (lin_search (seg (column g) s e) b 0)).
Proof.
  intros I Ha. destruct (row_view I Ha) as [s [e [Hs [He [_ [_ [Hno [_ [_ [_ Hasc]]]]]]]]]].
  exists s, e. repeat split; auto.
  unfold find_edge_pos. rewrite Hno. cbn [rbind].
  destruct (Nat.ltb (length (seg (column g) s e)) BINARY_SEARCH_CUTOFF); auto.
  rewrite binary_search_lin_search by auto. reflexivity.
Qed.

Lemma contains_edge_ok g a b ts : CInv g -> a < node_count g -> neighbors_slice g a = Ok ts ->
  exists r, contains_edge g a b = Ok r /\ (r = true <-> In b ts).
Proof.
  intros I Ha E.
  destruct (row_view I Ha) as [s [e [Hs [He [_ [_ [_ [Hn [_ [_ Hasc]]]]]]]]]].
  rewrite Hn in E; inversion E; subst ts.
  destruct (find_edge_pos_ok b I Ha) as [s' [e' [Hs' [He' Hf]]]].
  rewrite Hs in Hs'; inversion Hs'; subst s'. rewrite He in He'; inversion He'; subst e'.
  unfold contains_edge. rewrite Hf. cbn [rmap].
  pose proof (lin_search_found_iff _ b Hasc) as Hiff.
  destruct (lin_search (seg (column g) s e) b 0) as [i|i]; cbn [shift_pos].
  - exists true; split; auto. split; auto. intros _. apply Hiff; eauto.
  - exists false; split; auto. split; [discriminate|]. intros Hin. apply Hiff in Hin.
    destruct Hin as [k Hk]; discriminate.
Qed.

(* ------------------------------------------------------------------ *)
(* with_nodes, add_node, clear_edges                                   *)

Lemma with_nodes_inv n : CInv (with_nodes n).
Proof.
  constructor; cbn [with_nodes row nweights column cedges length].
  - rewrite !repeat_length. reflexivity.
  - reflexivity.
  - intros i x y Hi Hj. apply nth_error_In, repeat_spec in Hi. apply nth_error_In, repeat_spec in Hj. lia.
  - rewrite repeat_length. apply (@nth_error_repeat _ 0 (S n) n). lia.
  - reflexivity.
  - constructor.
  - intros a s e Hs He.
    apply nth_error_In, repeat_spec in Hs. apply nth_error_In, repeat_spec in He. subst.
    constructor.
Qed.

Lemma with_nodes_count n : node_count (with_nodes n) = n.
Proof. unfold node_count, with_nodes; cbn [row]. rewrite repeat_length. simpl. lia. Qed.

Lemma add_node_ok g w : CInv g ->
  exists g', add_node g w = Ok (node_count g, g') /\ CInv g' /\
    node_count g' = S (node_count g) /\ nweights g' = nweights g ++ [w] /\
    column g' = column g /\ cedges g' = cedges g /\ ecount g' = ecount g /\
    row g' = ins (row g) (node_count g) (length (column g)).
Proof.
  intros I. pose proof (node_count_inv I) as Hn. pose proof (ci_len_row I) as Hl.
  unfold add_node. fold (node_count g).
  rewrite insert_at_ok by lia. cbn [rbind]. rewrite insert_at_ok by lia. cbn [rbind].
  eexists; split; [reflexivity|].
  assert (Hnc : node_count (mkCsr (column g) (cedges g) (ins (row g) (node_count g) (length (column g)))
                   (ins (nweights g) (node_count g) w) (ecount g)) = S (node_count g)).
  { unfold node_count at 1; cbn [row]. rewrite ins_length. unfold node_count. lia. }
  assert (Hnw : ins (nweights g) (node_count g) w = nweights g ++ [w]).
  { unfold ins. rewrite Hn, firstn_all, skipn_all. reflexivity. }
  splits; auto.
  constructor; cbn [row nweights column cedges].
  - rewrite !ins_length. lia.
  - rewrite nth_error_ins by lia. bcases; try lia.
    + exact (ci_row0 I).
    + pose proof (ci_last I) as L. rewrite <- Hn, <- e, (ci_row0 I) in L.
      symmetry; exact L.
  - intros i x y. rewrite !nth_error_ins by lia.
    destruct (Nat.ltb_spec i (node_count g)); destruct (Nat.ltb_spec (S i) (node_count g)); try lia.
    + apply (ci_mono I).
    + destruct (Nat.eqb_spec (S i) (node_count g)); try lia.
      intros Hi Hy; inversion Hy; subst.
      eapply (row_mono I); [| exact Hi | exact (ci_last I)]. lia.
    + destruct (Nat.eqb_spec i (node_count g)); destruct (Nat.eqb_spec (S i) (node_count g)); try lia.
      * intros Hx Hy; inversion Hx; subst. replace (S (node_count g) - 1) with (length (nweights g)) in Hy by lia.
        rewrite (ci_last I) in Hy; inversion Hy; lia.
      * intros Hx Hy. apply nth_error_Some_lt in Hy. lia.
  - rewrite ins_length, nth_error_ins by lia. bcases; try lia.
    replace (S (length (nweights g)) - 1) with (length (nweights g)) by lia. exact (ci_last I).
  - exact (ci_cedges I).
  - rewrite Hnc. eapply Forall_impl; [|exact (ci_targets I)]. cbn beta. intros t Ht; lia.
  - intros a s e. rewrite !nth_error_ins by lia.
    destruct (Nat.ltb_spec a (node_count g)); destruct (Nat.ltb_spec (S a) (node_count g)); try lia.
    + apply (ci_rows_asc I).
    + destruct (Nat.eqb_spec (S a) (node_count g)); try lia.
      intros Hs He; inversion He; subst e.
      eapply (ci_rows_asc I); [exact Hs|]. replace (S a) with (length (nweights g)) by lia. exact (ci_last I).
    + destruct (Nat.eqb_spec a (node_count g)); destruct (Nat.eqb_spec (S a) (node_count g)); try lia.
      * intros Hs He; inversion Hs; subst s. replace (S a - 1) with (length (nweights g)) in He by lia.
        rewrite (ci_last I) in He; inversion He; subst e. rewrite Nat.sub_diag. constructor.
      * intros Hs He. apply nth_error_Some_lt in He. lia.
Qed.

Lemma clear_edges_inv d g : CInv g -> CInv (clear_edges d g).
Proof.
  intros I. pose proof (ci_len_row I) as Hl.
  assert (Hz : forall i x, nth_error (map (fun _ : nat => 0) (row g)) i = Some x -> x = 0).
  { intros i x H. apply nth_error_In, in_map_iff in H. destruct H as [y [Hy _]]. auto. }
  constructor; cbn [clear_edges row nweights column cedges length].
  - rewrite map_length; auto.
  - destruct (row g); [discriminate|reflexivity].
  - intros i x y Hx Hy. apply Hz in Hx. apply Hz in Hy. lia.
  - rewrite nth_error_map. destruct (@nth_error_lt_Some _ (row g) (length (nweights g))) as [x Hx]; try lia.
    rewrite Hx. reflexivity.
  - reflexivity.
  - constructor.
  - intros a s e Hs He. apply Hz in Hs. apply Hz in He. subst. constructor.
Qed.

Lemma clear_edges_count d g : node_count (clear_edges d g) = node_count g.
Proof. unfold node_count, clear_edges; cbn [row]. rewrite map_length. reflexivity. Qed.

Lemma clear_edges_rows d g a : CInv g -> a < node_count g ->
  neighbors_slice (clear_edges d g) a = Ok [] /\ edges_slice (clear_edges d g) a = Ok [].
Proof.
  intros I Ha. pose proof (clear_edges_inv d I) as I'.
  rewrite <- (clear_edges_count d) in Ha.
  destruct (row_view I' Ha) as [s [e [Hs [He [Hse [Hel [_ [Hn [Hw _]]]]]]]]].
  cbn [clear_edges column length] in Hel.
  assert (e = 0) by lia. assert (s = 0) by lia. subst.
  rewrite Hn, Hw. rewrite !seg_nil. auto.
Qed.

(* ------------------------------------------------------------------ *)
(* One insertion into row a at absolute position p                     *)

Definition ins_edge (g : csr) (a p b w : nat) : csr :=
  mkCsr (ins (column g) p b) (ins (cedges g) p w) (bump_from (row g) (S a)) (nweights g) (ecount g).

(* How any segment between consecutive row offsets changes. *)
Lemma seg_bump {A} (l : list A) g a s e p x a' s' e' : CInv g ->
  length l = length (column g) ->
  nth_error (row g) a = Some s -> nth_error (row g) (S a) = Some e -> s <= p -> p <= e ->
  nth_error (bump_from (row g) (S a)) a' = Some s' ->
  nth_error (bump_from (row g) (S a)) (S a') = Some e' ->
  exists s0 e0, nth_error (row g) a' = Some s0 /\ nth_error (row g) (S a') = Some e0 /\
    (a' = a -> s0 = s /\ e0 = e /\ seg (ins l p x) s' e' = ins (seg l s e) (p - s) x) /\
    (a' <> a -> seg (ins l p x) s' e' = seg l s0 e0).
Proof.
  intros I Hlen Hs He Hsp Hpe. rewrite !nth_error_bump.
  destruct (nth_error (row g) a') as [s0|] eqn:Hs0; [|discriminate].
  destruct (nth_error (row g) (S a')) as [e0|] eqn:He0; [|discriminate].
  unfold option_map. intros Hs' He'.
  assert (Es : s' = if Nat.leb (S a) a' then S s0 else s0) by congruence.
  assert (Ee : e' = if Nat.leb (S a) (S a') then S e0 else e0) by congruence.
  subst s' e'. clear Hs' He'.
  assert (He0len : e0 <= length l).
  { rewrite Hlen. eapply (row_mono I); [| exact He0 | exact (ci_last I)].
    apply nth_error_Some_lt in He0. rewrite (ci_len_row I) in He0. lia. }
  assert (Helen : e <= length l).
  { rewrite Hlen. eapply (row_mono I); [| exact He | exact (ci_last I)].
    apply nth_error_Some_lt in He. rewrite (ci_len_row I) in He. lia. }
  pose proof (ci_mono I Hs0 He0) as Hse0.
  exists s0, e0. split; [reflexivity|]. split; [reflexivity|]. split.
  - intros ->. rewrite Hs in Hs0; inversion Hs0; subst s0. rewrite He in He0; inversion He0; subst e0.
    destruct (Nat.leb_spec (S a) a); try lia. destruct (Nat.leb_spec (S a) (S a)); try lia.
    splits; auto. apply seg_ins_in; auto.
  - intros Hne. destruct (Nat.lt_ge_cases a' a) as [L|L].
    + destruct (Nat.leb_spec (S a) a'); try lia. destruct (Nat.leb_spec (S a) (S a')); try lia.
      assert (e0 <= s) by (eapply (row_mono I); [| exact He0 | exact Hs]; lia).
      apply seg_ins_before; lia.
    + destruct (Nat.leb_spec (S a) a'); try lia. destruct (Nat.leb_spec (S a) (S a')); try lia.
      assert (e <= s0) by (eapply (row_mono I); [| exact He | exact Hs0]; lia).
      apply seg_ins_after; lia.
Qed.

Lemma ins_edge_inv g a s e i b w : CInv g -> a < node_count g -> b < node_count g ->
  nth_error (row g) a = Some s -> nth_error (row g) (S a) = Some e -> i <= e - s ->
  ascending (ins (seg (column g) s e) i b) ->
  CInv (ins_edge g a (s + i) b w).
Proof.
  intros I Ha Hb Hs He Hi Hasc.
  pose proof (node_count_inv I) as Hn. pose proof (ci_len_row I) as Hl.
  pose proof (ci_mono I Hs He) as Hse.
  assert (Hnc : node_count (ins_edge g a (s + i) b w) = node_count g).
  { unfold node_count, ins_edge; cbn [row]. rewrite bump_length. reflexivity. }
  constructor; unfold ins_edge; cbn [row nweights column cedges].
  - rewrite bump_length; auto.
  - rewrite nth_error_bump, (ci_row0 I). reflexivity.
  - intros k x y. rewrite !nth_error_bump.
    destruct (nth_error (row g) k) as [x0|] eqn:Hx0; [|discriminate].
    destruct (nth_error (row g) (S k)) as [y0|] eqn:Hy0; [|discriminate].
    unfold option_map. intros Hx Hy. apply Some_inj in Hx. apply Some_inj in Hy. subst x y.
    pose proof (ci_mono I Hx0 Hy0).
    bcases; lia.
  - rewrite nth_error_bump, (ci_last I), ins_length. cbn [option_map].
    destruct (Nat.leb_spec (S a) (length (nweights g))); try lia. reflexivity.
  - rewrite !ins_length. rewrite (ci_cedges I). reflexivity.
  - fold (ins_edge g a (s + i) b w). rewrite Hnc. rewrite Forall_forall. intros t Ht.
    apply In_ins in Ht. destruct Ht as [->|Ht]; auto.
    pose proof (ci_targets I) as F. rewrite Forall_forall in F. auto.
  - intros a' s' e' Hs' He'.
    destruct (@seg_bump _ (column g) g a s e (s + i) b a' s' e' I eq_refl Hs He) as
        [s0 [e0 [Hs0 [He0 [Heq Hne]]]]]; auto; try lia.
    fold (seg (ins (column g) (s + i) b) s' e').
    destruct (Nat.eq_dec a' a) as [E|E].
    + destruct (Heq E) as [_ [_ R]]. rewrite R. replace (s + i - s) with i by lia. exact Hasc.
    + rewrite (Hne E). exact (ci_rows_asc I Hs0 He0).
Qed.

(* The rows of the graph after the insertion. *)
Lemma ins_edge_rows g a s e i b w : CInv g -> a < node_count g ->
  nth_error (row g) a = Some s -> nth_error (row g) (S a) = Some e -> i <= e - s ->
  CInv (ins_edge g a (s + i) b w) ->
  neighbors_slice (ins_edge g a (s + i) b w) a = Ok (ins (seg (column g) s e) i b) /\
  edges_slice (ins_edge g a (s + i) b w) a = Ok (ins (seg (cedges g) s e) i w) /\
  (forall a', a' < node_count g -> a' <> a ->
     neighbors_slice (ins_edge g a (s + i) b w) a' = neighbors_slice g a' /\
     edges_slice (ins_edge g a (s + i) b w) a' = edges_slice g a').
Proof.
  intros I Ha Hs He Hi I'.
  pose proof (ci_mono I Hs He) as Hse.
  assert (Hnc : node_count (ins_edge g a (s + i) b w) = node_count g).
  { unfold node_count, ins_edge; cbn [row]. rewrite bump_length. reflexivity. }
  assert (K : forall a', a' < node_count g ->
     exists s' e' s0 e0,
       neighbors_slice (ins_edge g a (s + i) b w) a' = Ok (seg (ins (column g) (s + i) b) s' e') /\
       edges_slice (ins_edge g a (s + i) b w) a' = Ok (seg (ins (cedges g) (s + i) w) s' e') /\
       neighbors_slice g a' = Ok (seg (column g) s0 e0) /\
       edges_slice g a' = Ok (seg (cedges g) s0 e0) /\
       (a' = a -> seg (ins (column g) (s + i) b) s' e' = ins (seg (column g) s e) (s + i - s) b /\
                  seg (ins (cedges g) (s + i) w) s' e' = ins (seg (cedges g) s e) (s + i - s) w) /\
       (a' <> a -> seg (ins (column g) (s + i) b) s' e' = seg (column g) s0 e0 /\
                   seg (ins (cedges g) (s + i) w) s' e' = seg (cedges g) s0 e0)).
  { intros a' Ha'. assert (Ha'' : a' < node_count (ins_edge g a (s + i) b w)) by (rewrite Hnc; auto).
    destruct (row_view I' Ha'') as [s' [e' [Hs' [He' [_ [_ [_ [N' [W' _]]]]]]]]].
    cbn [ins_edge row column cedges] in Hs', He', N', W'.
    destruct (@seg_bump _ (column g) g a s e (s + i) b a' s' e' I eq_refl Hs He) as
        [s0 [e0 [Hs0 [He0 [Heq Hne]]]]]; auto; try lia.
    destruct (@seg_bump _ (cedges g) g a s e (s + i) w a' s' e' I (ci_cedges I) Hs He) as
        [s1 [e1 [Hs1 [He1 [Heq1 Hne1]]]]]; auto; try lia.
    rewrite Hs0 in Hs1; inversion Hs1; subst s1. rewrite He0 in He1; inversion He1; subst e1.
    destruct (row_view I Ha') as [s2 [e2 [Hs2 [He2 [_ [_ [_ [N [W _]]]]]]]]].
    rewrite Hs0 in Hs2; inversion Hs2; subst s2. rewrite He0 in He2; inversion He2; subst e2.
    exists s', e', s0, e0. repeat split; auto.
    - apply Heq; auto.
    - apply Heq1; auto. }
  replace (s + i - s) with i in K by lia.
  split; [|split].
  - destruct (K a Ha) as [s' [e' [s0 [e0 [N' [_ [_ [_ [Heq _]]]]]]]]].
    rewrite N'. f_equal. apply Heq; auto.
  - destruct (K a Ha) as [s' [e' [s0 [e0 [_ [W' [_ [_ [Heq _]]]]]]]]].
    rewrite W'. f_equal. apply Heq; auto.
  - intros a' Ha' Hne.
    destruct (K a' Ha') as [s' [e' [s0 [e0 [N' [W' [N [W [_ Hneq]]]]]]]]].
    rewrite N', W', N, W. destruct (Hneq Hne) as [R1 R2]. rewrite R1, R2. auto.
Qed.

(* ------------------------------------------------------------------ *)
(* add_edge_ (one direction)                                           *)

Lemma add_edge_err g a b w : ~ (a < node_count g /\ b < node_count g) ->
  add_edge_ g a b w = Ok (AddErr a b, g).
Proof.
  intros H. unfold add_edge_.
  destruct (Nat.ltb_spec a (node_count g)); destruct (Nat.ltb_spec b (node_count g));
    cbn [andb negb]; auto; tauto.
Qed.

Lemma add_edge_found g a b w ts : CInv g -> a < node_count g -> b < node_count g ->
  neighbors_slice g a = Ok ts -> In b ts -> add_edge_ g a b w = Ok (AddOk false, g).
Proof.
  intros I Ha Hb E Hin. unfold add_edge_.
  destruct (Nat.ltb_spec a (node_count g)); try lia.
  destruct (Nat.ltb_spec b (node_count g)); try lia. cbn [andb negb].
  destruct (row_view I Ha) as [s [e [Hs [He [_ [_ [_ [Hn [_ [_ Hasc]]]]]]]]]].
  rewrite Hn in E; inversion E; subst ts.
  destruct (find_edge_pos_ok b I Ha) as [s' [e' [Hs' [He' Hf]]]].
  rewrite Hs in Hs'; inversion Hs'; subst s'. rewrite He in He'; inversion He'; subst e'.
  rewrite Hf. cbn [rbind].
  apply (lin_search_found_iff _ b Hasc) in Hin. destruct Hin as [k Hk]. rewrite Hk. reflexivity.
Qed.

Lemma add_edge_insert g a b w ts ws : CInv g -> a < node_count g -> b < node_count g ->
  neighbors_slice g a = Ok ts -> edges_slice g a = Ok ws -> ~ In b ts ->
  exists i g', add_edge_ g a b w = Ok (AddOk true, g') /\ CInv g' /\
    node_count g' = node_count g /\ nweights g' = nweights g /\ ecount g' = ecount g /\
    length (column g') = S (length (column g)) /\
    i <= length ts /\ ascending (ins ts i b) /\
    neighbors_slice g' a = Ok (ins ts i b) /\ edges_slice g' a = Ok (ins ws i w) /\
    (forall a', a' < node_count g -> a' <> a ->
       neighbors_slice g' a' = neighbors_slice g a' /\ edges_slice g' a' = edges_slice g a').
Proof.
  intros I Ha Hb E Ew Hnin. unfold add_edge_.
  destruct (Nat.ltb_spec a (node_count g)); try lia.
  destruct (Nat.ltb_spec b (node_count g)); try lia. cbn [andb negb].
  destruct (row_view I Ha) as [s [e [Hs [He [Hse [Hel [_ [Hn [Hw [_ Hasc]]]]]]]]]].
  rewrite Hn in E; inversion E; subst ts. rewrite Hw in Ew; inversion Ew; subst ws.
  destruct (find_edge_pos_ok b I Ha) as [s' [e' [Hs' [He' Hf]]]].
  rewrite Hs in Hs'; inversion Hs'; subst s'. rewrite He in He'; inversion He'; subst e'.
  rewrite Hf. cbn [rbind].
  destruct (lin_search (seg (column g) s e) b 0) as [k|i] eqn:El.
  { exfalso. apply Hnin. apply (lin_search_found_iff _ b Hasc). eauto. }
  destruct (lin_search_insert _ _ _ Hasc El) as [Hi [_ [Hlo Hhi]]].
  rewrite seg_length in Hi by auto.
  cbn [shift_pos]. rewrite (Nat.add_comm i s).
  rewrite insert_at_ok by lia. cbn [rbind].
  rewrite insert_at_ok by (rewrite (ci_cedges I); lia). cbn [rbind].
  pose proof (ci_len_row I) as Hl. pose proof (node_count_inv I) as Hnc.
  destruct (Nat.leb_spec (S a) (length (row g))); try lia.
  fold (ins_edge g a (s + i) b w).
  assert (Hasc' : ascending (ins (seg (column g) s e) i b)).
  { apply ascending_ins; auto. rewrite seg_length; auto. }
  pose proof (ins_edge_inv w I Ha Hb Hs He Hi Hasc') as I'.
  destruct (ins_edge_rows I Ha Hs He Hi I') as [R1 [R2 R3]].
  exists i, (ins_edge g a (s + i) b w). splits; auto.
  - unfold node_count, ins_edge; cbn [row]. rewrite bump_length. reflexivity.
  - cbn [ins_edge column]. apply ins_length.
  - rewrite seg_length; auto.
Qed.

(* add_edge_ never panics and keeps the invariant, whatever the arguments *)
Lemma add_edge_total g a b w : CInv g ->
  exists r g', add_edge_ g a b w = Ok (r, g') /\ CInv g' /\ node_count g' = node_count g.
Proof.
  intros I.
  destruct (Nat.lt_ge_cases a (node_count g)) as [Ha|Ha];
    [destruct (Nat.lt_ge_cases b (node_count g)) as [Hb|Hb]|].
  - destruct (row_view I Ha) as [s [e [_ [_ [_ [_ [_ [Hn [Hw _]]]]]]]]].
    destruct (in_dec Nat.eq_dec b (seg (column g) s e)) as [Hin|Hnin].
    + rewrite (add_edge_found w I Ha Hb Hn Hin). eauto.
    + destruct (add_edge_insert w I Ha Hb Hn Hw Hnin) as [i [g' [E [I' [Hc _]]]]].
      rewrite E. eauto.
  - rewrite add_edge_err by lia. eauto.
  - rewrite add_edge_err by lia. eauto.
Qed.

(* The accessors never panic and never run out of fuel on a node in range. *)
Lemma queries_total g a b : CInv g -> a < node_count g ->
  exists ts ws c,
    neighbors_slice g a = Ok ts /\ edges_slice g a = Ok ws /\
    out_degree g a = Ok (length ts) /\ contains_edge g a b = Ok c /\
    (c = true <-> In b ts) /\ length ws = length ts /\ ascending ts /\
    (forall t, In t ts -> t < node_count g).
Proof.
  intros I Ha.
  destruct (row_view I Ha) as [s [e [Hs [He [Hse [Hel [_ [N [W [D Hasc]]]]]]]]]].
  destruct (contains_edge_ok b I Ha N) as [c [C Hc]].
  exists (seg (column g) s e), (seg (cedges g) s e), c. splits; auto.
  - rewrite D, seg_length; auto.
  - rewrite !seg_length; auto. rewrite (ci_cedges I); auto.
  - apply (row_targets I Ha N).
Qed.
