(* T6, second half: histories against the stamped multigraph of Spec/MGraph.v.
   The model is polymorphic in the edge weight, so a history can carry in each added edge's
   weight the value of a global insertion counter; the abstraction of the model state is then
   literally a stamped multigraph.  Every history refines the specification, and every
   adjacency list is the specification's: the incident edges by decreasing stamp. *)
From Coq Require Import Permutation Sorted.
From PG Require Import Lib.ListArr Lib.Walk Model.GraphM Spec.MGraph
  Proofs.GraphP Proofs.GraphQ Proofs.GraphRE Proofs.GraphRN Proofs.GraphRev Proofs.GraphH
  Proofs.GraphT.
Set Implicit Arguments.

(* ------------------------------------------------------------------ *)
(* Sorted lists                                                        *)

Lemma StronglySorted_map_in {A B} (R : A -> A -> Prop) (R' : B -> B -> Prop) (f : A -> B) l :
  StronglySorted R l ->
  (forall x y, In x l -> In y l -> R x y -> R' (f x) (f y)) ->
  StronglySorted R' (map f l).
Proof.
  induction 1 as [|a l Hs IH Hf]; intros H; simpl; constructor.
  - apply IH. intros x y Hx Hy. apply H; simpl; auto.
  - apply Forall_forall. intros z Hz. apply in_map_iff in Hz. destruct Hz as [y [<- Hy]].
    rewrite Forall_forall in Hf. apply H; simpl; auto.
Qed.

Lemma StronglySorted_ext_in {A} (R R' : A -> A -> Prop) l :
  StronglySorted R l ->
  (forall x y, In x l -> In y l -> R x y -> R' x y) ->
  StronglySorted R' l.
Proof. intros H1 H2. rewrite <- (map_id l). eapply StronglySorted_map_in; eauto. Qed.

Lemma StronglySorted_remove (R : nat -> nat -> Prop) e l :
  StronglySorted R l -> StronglySorted R (remove Nat.eq_dec e l).
Proof.
  induction 1 as [|a l Hs IH Hf]; simpl; [constructor|].
  destruct (Nat.eq_dec e a); auto. constructor; auto.
  apply Forall_forall. intros z Hz. apply in_remove in Hz.
  rewrite Forall_forall in Hf. apply Hf; tauto.
Qed.

Lemma sorted_unique (R : nat -> nat -> Prop) :
  (forall x y, R x y -> R y x -> False) ->
  forall l1 l2,
  StronglySorted R l1 -> StronglySorted R l2 -> NoDup l1 -> NoDup l2 ->
  (forall x, In x l1 <-> In x l2) -> l1 = l2.
Proof.
  intros Asym. induction l1 as [|x1 t1 IH]; intros [|x2 t2] S1 S2 N1 N2 E; auto.
  - exfalso. apply (proj2 (E x2)). simpl; auto.
  - exfalso. apply (proj1 (E x1)). simpl; auto.
  - inversion S1 as [|a1 l1' S1' F1]; subst. inversion S2 as [|a2 l2' S2' F2]; subst.
    inversion N1 as [|b1 m1 Hn1 N1']; subst. inversion N2 as [|b2 m2 Hn2 N2']; subst.
    rewrite Forall_forall in F1, F2.
    assert (Ex : x1 = x2).
    { destruct (Nat.eq_dec x1 x2) as [|Hne]; auto. exfalso.
      assert (H2 : In x2 t1).
      { destruct (proj2 (E x2) (or_introl eq_refl)) as [H|H]; auto. congruence. }
      assert (H1 : In x1 t2).
      { destruct (proj1 (E x1) (or_introl eq_refl)) as [H|H]; auto. congruence. }
      eapply Asym; eauto. }
    subst x2. f_equal. apply IH; auto.
    intros x. split; intros Hx.
    + destruct (proj1 (E x) (or_intror Hx)) as [H|H]; auto. subst x. contradiction.
    + destruct (proj2 (E x) (or_intror Hx)) as [H|H]; auto. subst x. contradiction.
Qed.

(* insertion sort by decreasing key *)
Lemma insert_desc_perm key x l : Permutation (insert_desc key x l) (x :: l).
Proof.
  induction l as [|y t IH]; simpl; auto.
  destruct (Nat.ltb (key y) (key x)); auto.
  eapply perm_trans; [apply perm_skip; apply IH|]. apply perm_swap.
Qed.

Lemma sort_desc_perm key l : Permutation (sort_desc key l) l.
Proof.
  induction l as [|x t IH]; simpl; auto.
  eapply perm_trans; [apply insert_desc_perm|]. apply perm_skip. auto.
Qed.

Lemma insert_desc_sorted key x l :
  StronglySorted (fun a b => key b < key a) l ->
  (forall y, In y l -> key y <> key x) ->
  StronglySorted (fun a b => key b < key a) (insert_desc key x l).
Proof.
  induction 1 as [|y t Hs IH Hf]; intros Hne; simpl.
  - constructor; constructor.
  - rewrite Forall_forall in Hf.
    destruct (Nat.ltb_spec (key y) (key x)) as [Hlt|Hge].
    + constructor; [constructor; auto; apply Forall_forall; auto|].
      apply Forall_forall. intros z [<-|Hz]; auto. specialize (Hf z Hz). lia.
    + assert (Hxy : key x < key y).
      { specialize (Hne y (or_introl eq_refl)). lia. }
      constructor.
      * apply IH. intros z Hz. apply Hne. simpl; auto.
      * apply Forall_forall. intros z Hz.
        apply (Permutation_in _ (insert_desc_perm key x t)) in Hz.
        destruct Hz as [<-|Hz]; auto.
Qed.

Lemma sort_desc_sorted key l :
  NoDup l -> (forall x y, In x l -> In y l -> x <> y -> key x <> key y) ->
  StronglySorted (fun a b => key b < key a) (sort_desc key l).
Proof.
  induction 1 as [|x t Hx Hnd IH]; intros Hinj; simpl; [constructor|].
  apply insert_desc_sorted.
  - apply IH. intros a b Ha Hb. apply Hinj; simpl; auto.
  - intros y Hy. apply (Permutation_in _ (sort_desc_perm key t)) in Hy.
    apply Hinj; simpl; auto. intros ->. contradiction.
Qed.

Lemma swap_remove_nth_ren {A} (l : list A) e x :
  e < length l -> x < length l -> x <> e ->
  nth_error (swap_remove l e) (ren (length l - 1) e x) = nth_error l x.
Proof.
  intros He Hx Hne. rewrite swap_remove_nth by auto. unfold ren.
  destruct (Nat.eqb_spec x (length l - 1)) as [->|Hxm].
  - rewrite Nat.eqb_refl. destruct (Nat.eqb_spec e (length l - 1)); [congruence|reflexivity].
  - destruct (Nat.eqb_spec x e); [contradiction|].
    destruct (Nat.ltb_spec x (length l - 1)); [reflexivity|lia].
Qed.

Lemma swap_remove_incl {A} (l : list A) e v :
  e < length l -> In v (swap_remove l e) -> In v l.
Proof.
  intros He Hin. apply In_nth_error in Hin. destruct Hin as [x Hx].
  apply swap_remove_nth_in in Hx; auto. destruct Hx as [y Hy]. eapply nth_error_In; eauto.
Qed.

Section GraphS.
  Context {NW EW : Type}.
  Variable cap : nat.
  Variable capcheck : bool.
  Variable debug : bool.

  Notation sgraph := (graph NW (EW * nat)).
  Notation GInv := (@GInv NW (EW * nat) cap).
  Notation adj := (@adj NW (EW * nat) cap).
  Notation adjf := (@adjf NW (EW * nat) cap).
  Notation mgraph := (mgraph NW EW).

  (* ------------------------------------------------------------------ *)
  (* Stamping a history                                                  *)

  Definition is_add (o : op NW EW) : nat := match o with OAddEdge _ _ _ => 1 | _ => 0 end.

  Definition stamp_op (c : nat) (o : op NW EW) : op NW (EW * nat) :=
    match o with
    | OAddNode w => OAddNode w
    | OAddEdge a b w => OAddEdge a b (w, c)
    | ORemoveEdge e => ORemoveEdge e
    | ORemoveNode a => ORemoveNode a
    | OReverse => OReverse
    | OClearEdges => OClearEdges
    end.

  Fixpoint stamp_ops (c : nat) (ops : list (op NW EW)) : list (op NW (EW * nat)) :=
    match ops with
    | [] => []
    | o :: rest => stamp_op c o :: stamp_ops (c + is_add o) rest
    end.

  Fixpoint clock_after (c : nat) (ops : list (op NW EW)) : nat :=
    match ops with
    | [] => c
    | o :: rest => clock_after (c + is_add o) rest
    end.

  Lemma stamp_ops_length c ops : length (stamp_ops c ops) = length ops.
  Proof. revert c; induction ops as [|o r IH]; intros c; simpl; auto. Qed.

  (* the multigraph a model state stands for *)
  Definition mabs (g : sgraph) (c : nat) : mgraph :=
    mkM (map (@nwt NW) (gnodes g)) (etrip g) c.

  Definition stamps (g : sgraph) : list nat := map (fun t => snd (snd t)) (etrip g).
  Definition desc (S : list nat) (x y : nat) : Prop := nth y S 0 < nth x S 0.

  (* stamps below the clock, pairwise distinct, and every adjacency list by decreasing stamp *)
  Record SInv (g : sgraph) (c : nat) : Prop := {
    si_lt : Forall (fun s => s < c) (stamps g);
    si_nd : NoDup (stamps g);
    si_sorted : forall k i, StronglySorted (desc (stamps g)) (adjf g k i)
  }.

  Lemma stamps_length g : length (stamps g) = length (gedges g).
  Proof. unfold stamps, etrip. rewrite !map_length. reflexivity. Qed.

  Lemma SInv_empty : SInv g_empty 0.
  Proof.
    constructor; simpl; try constructor.
    intros k i. rewrite (proj2 (@T1_empty NW (EW * nat) cap)). constructor.
  Qed.

  Lemma adjf_oob' (g : sgraph) k i : GInv g -> length (gnodes g) <= i -> adjf g k i = [].
  Proof. intros I H. apply adjf_oob; auto. apply (gi_ecap I). Qed.

  (* direction indices above 1 behave as 1 *)
  Lemma adjf_SS (g : sgraph) k i : GInv g -> adjf g (S k) i = adjf g 1 i.
  Proof.
    intros I. destruct (Nat.lt_ge_cases i (length (gnodes g))) as [Hi|Hi].
    - symmetry. apply adjf_adj; [apply (gi_ecap I)|].
      exact (adj_adjf (S k) I Hi).
    - rewrite !adjf_oob'; auto.
  Qed.

  (* ------------------------------------------------------------------ *)
  (* remove_edge keeps the stamp invariant                               *)

  Lemma SInv_remove_edge (g g' : sgraph) c e :
    GInv g -> GInv g' -> SInv g c -> e < length (gedges g) ->
    length (gnodes g') = length (gnodes g) ->
    etrip g' = swap_remove (etrip g) e ->
    (forall k i, i < length (gnodes g) ->
       adjf g' k i = map (ren (length (gedges g) - 1) e) (remove Nat.eq_dec e (adjf g k i))) ->
    SInv g' c.
  Proof.
    intros I I' [Hlt Hnd Hs] He Hn Het Hadj.
    assert (HS : stamps g' = swap_remove (stamps g) e).
    { unfold stamps. rewrite Het. apply map_swap_remove. }
    assert (HeS : e < length (stamps g)) by (rewrite stamps_length; auto).
    constructor.
    - rewrite HS. rewrite Forall_forall in *. intros v Hv. apply Hlt.
      eapply swap_remove_incl; eauto.
    - rewrite HS. destruct (nth_error_lt_Some _ HeS) as [v Hv].
      pose proof (swap_remove_perm _ _ Hv) as P.
      apply (Permutation_NoDup P) in Hnd. inversion Hnd; auto.
    - intros k i. destruct (Nat.lt_ge_cases i (length (gnodes g))) as [Hi|Hi].
      + rewrite Hadj by auto.
        apply StronglySorted_map_in with (R := desc (stamps g)).
        * apply StronglySorted_remove. apply Hs.
        * intros x y Hx Hy Hxy. apply in_remove in Hx. apply in_remove in Hy.
          destruct Hx as [Hx Hxe]. destruct Hy as [Hy Hye].
          pose proof (adjf_lt I k i x Hx) as Hxl. pose proof (adjf_lt I k i y Hy) as Hyl.
          unfold desc in *. rewrite HS.
          assert (G : forall z, z < length (gedges g) -> z <> e ->
                    nth (ren (length (gedges g) - 1) e z) (swap_remove (stamps g) e) 0 = nth z (stamps g) 0).
          { intros z Hz Hze.
            pose proof (@swap_remove_nth_ren _ (stamps g) e z HeS) as Q.
            rewrite stamps_length in Q. specialize (Q Hz Hze).
            destruct (nth_error (stamps g) z) as [v|] eqn:Ez.
            - rewrite (nth_error_nth _ _ 0 Q). rewrite (nth_error_nth _ _ 0 Ez). reflexivity.
            - apply nth_error_None in Ez. rewrite stamps_length in Ez. lia. }
          rewrite !G; auto.
      + rewrite adjf_oob'; auto; [constructor|lia].
  Qed.

  Lemma re_star_SInv (g g' : sgraph) c :
    re_star cap debug g g' -> SInv g c -> SInv g' c.
  Proof.
    intros H; induction H as [g | g e w g1 g' I He Hr Hst IH]; auto.
    intros SI. apply IH.
    destruct (proj2 (@T3_remove_edge NW (EW * nat) cap debug g e I) He)
      as [ed [g'' [_ [Hr' [I' [Hn [Het [_ Hadj]]]]]]]].
    rewrite Hr in Hr'. injection Hr' as _ <-.
    apply (@SInv_remove_edge g g1 c e I I' SI He (map_eq_length _ _ _ Hn) Het Hadj).
  Qed.

  (* ------------------------------------------------------------------ *)
  (* One operation: refinement and the stamp invariant                   *)

  Notation step := (@step NW (EW * nat) cap capcheck debug).
  Notation run := (@run NW (EW * nat) cap capcheck debug).
  Notation room := (@room NW (EW * nat) cap capcheck).
  Notation mstep := (@mstep NW EW cap capcheck).
  Notation mrun := (@mrun NW EW cap capcheck).

  Lemma etrip_reverse (g : sgraph) : etrip (reverse g) = map (@m_flip EW) (etrip g).
  Proof. unfold etrip, reverse. simpl. rewrite !map_map. reflexivity. Qed.

  Lemma sstep_spec (g : sgraph) c o :
    GInv g -> room g 1 -> SInv g c ->
    exists g1, step g (stamp_op c o) = Ok g1 /\ GInv g1 /\
               length (gnodes g1) <= S (length (gnodes g)) /\
               length (gedges g1) <= S (length (gedges g)) /\
               mstep (mabs g c) o (mabs g1 (c + is_add o)) /\
               SInv g1 (c + is_add o).
  Proof.
    intros I R SI.
    destruct o as [w|a b w|e|a| |]; cbn [stamp_op step is_add GraphH.step];
      rewrite ?Nat.add_0_r, ?Nat.add_1_r.
    - (* add_node *)
      destruct (@T1_add_node NW (EW * nat) cap capcheck g w I) as [Hlim Hok].
      destruct (Nat.eq_dec (length (gnodes g)) cap) as [E|E].
      + destruct R as [Rc|[R _]]; [|lia].
        rewrite Hlim by auto. exists g. simpl.
        split; [reflexivity|split; [exact I|split; [lia|split; [lia|split; [|exact SI]]]]].
        apply ms_add_node_limit; auto. simpl. rewrite map_length. auto.
      + destruct Hok as [g' [Eq [I' [Hn [He Hadj]]]]]; [pose proof (gi_ncap I); lia|].
        rewrite Eq. exists g'. simpl.
        assert (Het : etrip g' = etrip g) by (unfold etrip; rewrite He; reflexivity).
        split; [reflexivity|split; [exact I'|]].
        split; [apply (f_equal (@length _)) in Hn; rewrite app_length, !map_length in Hn; simpl in Hn; lia|].
        split; [rewrite He; lia|]. split.
        * unfold mabs. rewrite Hn, Het.
          apply (@ms_add_node NW EW cap capcheck (mkM (map (@nwt NW) (gnodes g)) (etrip g) c) w).
          simpl. rewrite map_length. tauto.
        * destruct SI as [S1 S2 S3]. constructor; unfold stamps in *; rewrite ?Het; auto.
          intros k i. rewrite Hadj. apply S3.
    - (* add_edge *)
      destruct (@T1_add_edge NW (EW * nat) cap capcheck g a b (w, c) I) as [Hlim [Hoob Hok]].
      destruct (Nat.eq_dec (length (gedges g)) cap) as [E|E].
      + destruct R as [Rc|[_ R]]; [|lia].
        rewrite Hlim by auto. exists g. simpl.
        split; [reflexivity|split; [exact I|split; [lia|split; [lia|split]]]].
        * apply (@ms_add_edge_fail NW EW cap capcheck (mabs g c)). left. simpl.
          unfold etrip. rewrite map_length. auto.
        * destruct SI as [S1 S2 S3]. constructor; auto.
          eapply Forall_impl; [|exact S1]. intros s Hs. simpl in Hs. lia.
      + assert (Hm : length (gedges g) < cap) by (pose proof (gi_ecap I); lia).
        destruct (Nat.lt_ge_cases a (length (gnodes g))) as [Ha|Ha];
          [destruct (Nat.lt_ge_cases b (length (gnodes g))) as [Hb|Hb]|].
        * destruct (Hok Hm Ha Hb) as [g' [Eq [I' [Hn [Het Hadj]]]]].
          rewrite Eq. exists g'. simpl.
          assert (Hnl : length (gnodes g') = length (gnodes g)) by (eapply map_eq_length; eauto).
          assert (Hel : length (gedges g') = S (length (gedges g))).
          { apply (f_equal (@length _)) in Het. unfold etrip in Het.
            rewrite app_length, !map_length in Het. simpl in Het. lia. }
          split; [reflexivity|split; [exact I'|split; [lia|split; [lia|split]]]].
          -- unfold mabs. rewrite Hn, Het.
             apply (@ms_add_edge NW EW cap capcheck (mkM (map (@nwt NW) (gnodes g)) (etrip g) c) a b w);
               simpl; rewrite ?map_length; auto.
             unfold etrip. rewrite map_length. tauto.
          -- destruct SI as [S1 S2 S3].
             assert (HS : stamps g' = stamps g ++ [c]).
             { unfold stamps. rewrite Het, map_app. reflexivity. }
             assert (Hold : forall x, x < length (gedges g) -> nth x (stamps g') 0 = nth x (stamps g) 0).
             { intros x Hx. rewrite HS. apply app_nth1. rewrite stamps_length. auto. }
             assert (Hnew : nth (length (gedges g)) (stamps g') 0 = c).
             { rewrite HS, app_nth2 by (rewrite stamps_length; lia).
               rewrite stamps_length, Nat.sub_diag. reflexivity. }
             assert (Hbelow : forall x, x < length (gedges g) -> nth x (stamps g) 0 < c).
             { intros x Hx. rewrite Forall_forall in S1. apply S1. apply nth_In.
               rewrite stamps_length. auto. }
             constructor.
             ++ rewrite HS. apply Forall_app. split.
                ** eapply Forall_impl; [|exact S1]. intros s Hs. simpl in Hs. lia.
                ** constructor; [lia|constructor].
             ++ rewrite HS. apply NoDup_insert with (l2 := []); rewrite ?app_nil_r; auto.
                intros Hin. rewrite Forall_forall in S1. specialize (S1 c Hin). lia.
             ++ intros k i. destruct (Nat.lt_ge_cases i (length (gnodes g))) as [Hi|Hi].
                ** rewrite Hadj by auto.
                   assert (Tl : StronglySorted (desc (stamps g')) (adjf g k i)).
                   { eapply StronglySorted_ext_in; [apply S3|].
                     intros x y Hx Hy Hxy. unfold desc in *.
                     rewrite !Hold; auto; eapply adjf_lt; eauto. }
                   destruct (Nat.eqb i (sel (a, b) k)); auto.
                   constructor; auto. apply Forall_forall. intros y Hy.
                   unfold desc. rewrite Hnew, Hold by (eapply adjf_lt; eauto).
                   apply Hbelow. eapply adjf_lt; eauto.
                ** rewrite adjf_oob'; auto; [constructor|lia].
        * rewrite Hoob by auto. exists g. simpl.
          split; [reflexivity|split; [exact I|split; [lia|split; [lia|split]]]].
          -- apply (@ms_add_edge_fail NW EW cap capcheck (mabs g c)). right. simpl.
             rewrite map_length. auto.
          -- destruct SI as [S1 S2 S3]. constructor; auto.
             eapply Forall_impl; [|exact S1]. intros s Hs. simpl in Hs. lia.
        * rewrite Hoob by auto. exists g. simpl.
          split; [reflexivity|split; [exact I|split; [lia|split; [lia|split]]]].
          -- apply (@ms_add_edge_fail NW EW cap capcheck (mabs g c)). right. simpl.
             rewrite map_length. auto.
          -- destruct SI as [S1 S2 S3]. constructor; auto.
             eapply Forall_impl; [|exact S1]. intros s Hs. simpl in Hs. lia.
    - (* remove_edge *)
      destruct (@T3_remove_edge NW (EW * nat) cap debug g e I) as [Hoob Hok].
      destruct (Nat.lt_ge_cases e (length (gedges g))) as [He|He].
      + destruct (Hok He) as [ed [g' [_ [Eq [I' [Hn [Het [Hel Hadj]]]]]]]].
        rewrite Eq. exists g'. simpl.
        assert (Hnl : length (gnodes g') = length (gnodes g)) by (eapply map_eq_length; eauto).
        split; [reflexivity|split; [exact I'|split; [lia|split; [lia|split]]]].
        * unfold mabs. rewrite Hn, Het.
          apply (@ms_remove_edge NW EW cap capcheck (mkM (map (@nwt NW) (gnodes g)) (etrip g) c) e).
          simpl. unfold etrip. rewrite map_length. auto.
        * apply (@SInv_remove_edge g g' c e I I' SI He Hnl Het Hadj).
      + rewrite Hoob by auto. exists g. simpl.
        split; [reflexivity|split; [exact I|split; [lia|split; [lia|split; [|exact SI]]]]].
        apply ms_remove_edge_none. simpl. unfold etrip. rewrite map_length. auto.
    - (* remove_node *)
      destruct (Nat.lt_ge_cases a (length (gnodes g))) as [Ha|Ha].
      + destruct (remove_node_spec debug I Ha)
          as [n [g2 [g' [_ [Eq [I' [Hn [Hp [Hst [I2 [Hn2 [Het Hadj]]]]]]]]]]]].
        rewrite Eq. exists g'. simpl.
        assert (Hnl : length (gnodes g') = length (gnodes g) - 1).
        { apply (f_equal (@length _)) in Hn.
          rewrite swap_remove_length in Hn by (rewrite map_length; auto).
          rewrite !map_length in Hn. auto. }
        assert (Hel : length (gedges g') <= length (gedges g)).
        { apply Permutation_length in Hp. unfold etrip in Hp. rewrite !map_length in Hp.
          pose proof (filter_len_le (not_inc a) (map (@etr (EW * nat)) (gedges g))) as Hf.
          rewrite map_length in Hf. lia. }
        split; [reflexivity|split; [exact I'|split; [lia|split; [lia|split]]]].
        * unfold mabs. rewrite Hn.
          apply (@ms_remove_node NW EW cap capcheck (mkM (map (@nwt NW) (gnodes g)) (etrip g) c) a (etrip g')).
          -- simpl. rewrite map_length. auto.
          -- simpl. rewrite map_length. exact Hp.
        * pose proof (re_star_SInv Hst SI) as [S1 S2 S3].
          assert (HS : stamps g' = stamps g2).
          { unfold stamps. rewrite Het, map_map. reflexivity. }
          constructor; rewrite ?HS; auto.
          intros k i. destruct (Nat.lt_ge_cases i (length (gnodes g) - 1)) as [Hi|Hi].
          -- set (i0 := if Nat.eqb i a then length (gnodes g) - 1 else i).
             assert (Hi0 : i0 < length (gnodes g2)).
             { unfold i0. rewrite Hn2. destruct (Nat.eqb i a); lia. }
             rewrite (adjf_adj (gi_ecap I') (Hadj k i _ Hi (adj_adjf k I2 Hi0))).
             apply S3.
          -- rewrite adjf_oob'; auto; [constructor|lia].
      + rewrite remove_node_oob by auto. exists g. simpl.
        split; [reflexivity|split; [exact I|split; [lia|split; [lia|split; [|exact SI]]]]].
        apply ms_remove_node_none. simpl. rewrite map_length. auto.
    - (* reverse *)
      destruct (@T5_reverse NW (EW * nat) cap g I) as [I' [Hn [Hw [He Hadj]]]].
      exists (reverse g).
      split; [reflexivity|split; [exact I'|]].
      split; [unfold reverse; simpl; rewrite map_length; lia|].
      split; [unfold reverse; simpl; rewrite map_length; lia|]. split.
      + unfold mabs. rewrite Hn, etrip_reverse.
        apply (@ms_reverse NW EW cap capcheck (mkM (map (@nwt NW) (gnodes g)) (etrip g) c)).
      + destruct SI as [S1 S2 S3].
        assert (HS : stamps (reverse g) = stamps g).
        { unfold stamps. rewrite etrip_reverse, map_map. reflexivity. }
        constructor; rewrite ?HS; auto.
        intros [|k] i.
        * rewrite (proj1 (Hadj i)). apply S3.
        * rewrite (adjf_SS k i I'). rewrite (proj2 (Hadj i)). apply S3.
    - (* clear_edges *)
      destruct (@T5_clear_edges NW (EW * nat) cap g I) as [I' [Hn [He Hadj]]].
      exists (clear_edges cap g).
      split; [reflexivity|split; [exact I'|]].
      split; [unfold clear_edges; simpl; rewrite map_length; lia|].
      split; [unfold clear_edges; simpl; lia|]. split.
      + unfold mabs. rewrite Hn.
        apply (@ms_clear NW EW cap capcheck (mkM (map (@nwt NW) (gnodes g)) (etrip g) c)).
      + constructor; simpl; try constructor. intros k i. rewrite Hadj. constructor.
  Qed.

  Theorem srun_spec : forall ops (g : sgraph) c,
    GInv g -> room g (length ops) -> SInv g c ->
    exists g', run g (stamp_ops c ops) = Ok g' /\ GInv g' /\
               mrun (mabs g c) ops (mabs g' (clock_after c ops)) /\
               SInv g' (clock_after c ops).
  Proof.
    induction ops as [|o ops IH]; intros g c I R SI; cbn [stamp_ops clock_after GraphH.run].
    - exists g. split; auto. split; auto. split; [constructor|auto].
    - assert (R1 : room g 1).
      { destruct R as [R|[R1 R2]]; [left; auto|right]. simpl in R1, R2. lia. }
      destruct (sstep_spec o I R1 SI) as [g1 [Es [I1 [Ln [Le [Ms S1]]]]]].
      rewrite Es. cbn [rbind].
      destruct (IH g1 (c + is_add o) I1) as [g' [Er [I' [Mr S']]]]; auto.
      { destruct R as [R|[Ra Rb]]; [left; auto|right]. simpl in Ra, Rb. lia. }
      exists g'. split; auto. split; auto. split; auto. econstructor; eauto.
  Qed.

  (* ------------------------------------------------------------------ *)
  (* The adjacency lists are the specification's                         *)

  Lemma m_stamp_mabs g c x : m_stamp (mabs g c) x = nth x (stamps g) 0.
  Proof.
    assert (E : nth_error (stamps g) x =
                option_map (fun t => snd (snd t)) (nth_error (etrip g) x)).
    { unfold stamps. apply nth_error_map. }
    unfold m_stamp, medge. cbn [mabs medges].
    destruct (nth_error (etrip g) x) as [t|]; simpl in E.
    - symmetry. apply nth_error_nth. exact E.
    - symmetry. apply nth_overflow. apply nth_error_None. exact E.
  Qed.

  Lemma m_ep_mabs g c k x : m_ep (mabs g c) k x = ept g k x.
  Proof.
    unfold m_ep, mabs, ept, etrip. simpl. rewrite nth_error_map.
    destruct (nth_error (gedges g) x); reflexivity.
  Qed.

  Theorem adjf_m_adj (g : sgraph) c k a :
    GInv g -> SInv g c -> adjf g k a = m_adj (mabs g c) k a.
  Proof.
    intros I [S1 S2 S3]. unfold m_adj.
    set (key := m_stamp (mabs g c)).
    set (inc := m_incident (mabs g c) k a).
    assert (Hinc : forall x, In x inc <-> x < length (gedges g) /\ ept g k x = a).
    { intros x. unfold inc, m_incident. rewrite filter_In, in_seq, m_ep_mabs, Nat.eqb_eq.
      simpl. unfold etrip. rewrite map_length. intuition lia. }
    assert (Hnd : NoDup inc) by (apply NoDup_filter; apply seq_NoDup).
    assert (Hinj : forall x y, In x inc -> In y inc -> x <> y -> key x <> key y).
    { intros x y Hx Hy Hxy. unfold key. rewrite !m_stamp_mabs.
      apply Hinc in Hx. apply Hinc in Hy.
      intros E. apply Hxy.
      apply (proj1 (NoDup_nth (stamps g) 0) S2); rewrite ?stamps_length; tauto. }
    apply (@sorted_unique (desc (stamps g))).
    - unfold desc. intros x y H1 H2. lia.
    - apply S3.
    - eapply StronglySorted_ext_in; [apply (sort_desc_sorted key Hnd Hinj)|].
      intros x y _ _ H. unfold desc. unfold key in H. rewrite !m_stamp_mabs in H. auto.
    - apply adjf_NoDup; auto.
    - apply (Permutation_NoDup (Permutation_sym (sort_desc_perm key inc))); auto.
    - intros x.
      assert (Hs : In x (sort_desc key inc) <-> In x inc).
      { split; apply Permutation_in; [apply sort_desc_perm|apply Permutation_sym, sort_desc_perm]. }
      rewrite Hs, Hinc.
      destruct (Nat.lt_ge_cases a (length (gnodes g))) as [Ha|Ha].
      + apply adjf_in; auto.
      + rewrite adjf_oob' by auto. split; [intros []|].
        intros [Hx Hep]. exfalso.
        destruct (nth_error_lt_Some _ Hx) as [ed Ex].
        unfold ept in Hep. rewrite Ex in Hep.
        destruct (gi_ends I _ Ex). destruct k; simpl in Hep; lia.
  Qed.

  (* T6: every history from the empty graph *)
  Theorem history_refines ops :
    capcheck = true \/ length ops <= cap ->
    exists g, run g_empty (stamp_ops 0 ops) = Ok g /\ GInv g /\
      mrun m_empty ops (mabs g (clock_after 0 ops)) /\
      forall k a, adjf g k a = m_adj (mabs g (clock_after 0 ops)) k a.
  Proof.
    intros H.
    destruct (@srun_spec ops g_empty 0) as [g [Er [I [Mr SI]]]].
    - apply GInv_empty.
    - destruct H as [H|H]; [left; auto|right]. simpl. lia.
    - apply SInv_empty.
    - exists g. split; auto. split; auto. split; auto.
      intros k a. apply adjf_m_adj; auto.
  Qed.
End GraphS.
