(* T2: under the invariant every fuelled walk of the Graph model succeeds and every query
   returns what the explicit adjacency lists prescribe. *)
From PG Require Import Lib.ListArr Lib.Walk Model.GraphM Proofs.GraphP.
Set Implicit Arguments.

Section GraphQ.
  Context {NW EW : Type}.
  Variable cap : nat.

  Notation node := (node NW).
  Notation edge := (edge EW).
  Notation graph := (graph NW EW).
  Notation adj := (@adj NW EW cap).
  Notation GInv := (@GInv NW EW cap).

  (* total endpoint reader (0 for a missing edge; never used on one) *)
  Definition ept (g : graph) (k x : nat) : nat :=
    match nth_error (gedges g) x with Some ed => sel (enode ed) k | None => 0 end.
  Definition src (g : graph) := ept g 0.
  Definition tgt (g : graph) := ept g 1.

  Lemma ept_epo g k x i : epo (gedges g) k x = Some i -> ept g k x = i.
  Proof.
    unfold epo, ept. destruct (nth_error (gedges g) x); simpl; congruence.
  Qed.

  Lemma epo_ept g k x : x < length (gedges g) -> epo (gedges g) k x = Some (ept g k x).
  Proof.
    intros Hx. destruct (nth_error_lt_Some (gedges g) Hx) as [ed E].
    unfold epo, ept. rewrite E. reflexivity.
  Qed.

  (* ------------------------------------------------------------------ *)
  (* The fuelled walks                                                   *)

  Lemma nxe_None_nth (es : list edge) k h : nxe es k h = None -> nth_error es h = None.
  Proof. unfold nxe. destruct (nth_error es h); simpl; congruence. Qed.

  Lemma nxe_Some_nth (es : list edge) k h y :
    nxe es k h = Some y -> exists ed, nth_error es h = Some ed /\ sel (enext ed) k = y.
  Proof.
    unfold nxe. destruct (nth_error es h) as [ed|]; simpl; [|discriminate].
    intros [= <-]. eauto.
  Qed.

  Lemma chain_lseg (es : list edge) k h l t :
    nxe es k t = None -> lseg (nxe es k) h l t ->
    forall fuel, length l < fuel -> chain fuel es h k = Ok l.
  Proof.
    intros Ht H; induction H as [h | h h' l t Hh Hl IH]; intros fuel Hf;
      (destruct fuel as [|f]; [simpl in Hf; lia|]); cbn [chain].
    - rewrite (nxe_None_nth _ _ _ Ht). reflexivity.
    - destruct (nxe_Some_nth _ _ _ Hh) as [ed [E1 E2]]. rewrite E1, E2.
      rewrite IH; auto. simpl in Hf. lia.
  Qed.

  Lemma chain_cap (g : graph) k fuel :
    length (gedges g) <= cap -> chain (S fuel) (gedges g) cap k = Ok [].
  Proof.
    intros Hc. cbn [chain]. rewrite (proj2 (nth_error_None (gedges g) cap)); auto.
  Qed.

  Lemma node_next_some (g : graph) i n : nth_error (gnodes g) i = Some n -> node_next cap g i = nnext n.
  Proof. intros H. unfold node_next. rewrite H. reflexivity. Qed.

  Lemma node_next_none (g : graph) i : length (gnodes g) <= i -> node_next cap g i = (cap, cap).
  Proof. intros H. unfold node_next. rewrite (proj2 (nth_error_None (gnodes g) i)); auto. Qed.

  Lemma chain_adj (g : graph) k i l :
    length (gedges g) <= cap -> adj g k i l ->
    chain (fuel_of g) (gedges g) (sel (node_next cap g i) k) k = Ok l.
  Proof.
    intros Hc [n [Hn H]]. rewrite (node_next_some _ _ Hn).
    eapply chain_lseg; eauto.
    - apply nxe_oob; auto.
    - unfold fuel_of. pose proof (@adj_length NW EW cap g k i l Hc).
      assert (adj g k i l) by (exists n; auto). intuition lia.
  Qed.

  (* the lists as a function, read off the structure by the executable walk *)
  Definition adjf (g : graph) (k i : nat) : list nat :=
    match chain (fuel_of g) (gedges g) (sel (node_next cap g i) k) k with
    | Ok l => l
    | _ => []
    end.

  Lemma adjf_adj g k i l : length (gedges g) <= cap -> adj g k i l -> adjf g k i = l.
  Proof. intros Hc H. unfold adjf. rewrite (chain_adj Hc H). reflexivity. Qed.

  Lemma adj_adjf g k i : GInv g -> i < length (gnodes g) -> adj g k i (adjf g k i).
  Proof.
    intros I Hi. destruct (GInv_adj_ex k I Hi) as [l H].
    rewrite (adjf_adj (gi_ecap I) H). auto.
  Qed.

  Lemma adjf_oob g k i : length (gedges g) <= cap -> length (gnodes g) <= i -> adjf g k i = [].
  Proof.
    intros Hc Hi. unfold adjf. rewrite (node_next_none _ Hi).
    assert (E : sel (cap, cap) k = cap) by (destruct k; reflexivity). rewrite E.
    unfold fuel_of. rewrite chain_cap; auto.
  Qed.

  Lemma adjf_in g k i x : GInv g -> i < length (gnodes g) ->
    (In x (adjf g k i) <-> x < length (gedges g) /\ ept g k x = i).
  Proof.
    intros I Hi. rewrite (GInv_adj_in x I (adj_adjf k I Hi)). split.
    - intros H. split; [eapply epo_Some; eauto|apply ept_epo; auto].
    - intros [H1 H2]. rewrite epo_ept by auto. congruence.
  Qed.

  Lemma adjf_NoDup g k i : GInv g -> NoDup (adjf g k i).
  Proof.
    intros I. destruct (Nat.lt_ge_cases i (length (gnodes g))) as [Hi|Hi].
    - eapply adj_NoDup; [apply (gi_ecap I)|apply adj_adjf; auto].
    - rewrite adjf_oob; auto; [constructor|apply (gi_ecap I)].
  Qed.

  Lemma adjf_empty_iff g k i n : GInv g -> nth_error (gnodes g) i = Some n ->
    (adjf g k i = [] <-> sel (nnext n) k = cap).
  Proof.
    intros I Hn.
    assert (Hi : i < length (gnodes g)) by (eapply nth_error_Some_lt; eauto).
    pose proof (adj_adjf k I Hi) as [n' [Hn' H]].
    assert (n' = n) by congruence. subst n'.
    split.
    - intros E. rewrite E in H. apply lseg_nil_inv in H. auto.
    - intros E. rewrite E in H.
      apply lseg_none_start in H; [tauto|]. apply nxe_oob. apply (gi_ecap I).
  Qed.

  (* ------------------------------------------------------------------ *)
  (* Walk results turned into reports                                    *)

  Lemma flat_map_edges {T} (g : graph) (F : nat -> edge -> T) (c : edge -> bool) l :
    (forall x, In x l -> x < length (gedges g)) ->
    exists r,
      flat_map (fun i => match edge_at g i with
                         | Some ed => if c ed then [] else [F i ed]
                         | None => [] end) l = r /\
      Forall2 (fun i y => exists ed, nth_error (gedges g) i = Some ed /\ y = F i ed)
              (filter (fun i => match nth_error (gedges g) i with
                                | Some ed => negb (c ed) | None => false end) l) r.
  Proof.
    induction l as [|x l IH]; intros Hb.
    - exists []; split; [reflexivity|constructor].
    - destruct IH as [r [E R]]; [intros y Hy; apply Hb; simpl; auto|].
      destruct (nth_error_lt_Some (gedges g) (Hb x (or_introl eq_refl))) as [ed Hx].
      cbn [flat_map filter]. unfold edge_at at 1. rewrite Hx, E.
      destruct (c ed); simpl.
      + exists r; split; auto.
      + exists (F x ed :: r); split; auto. constructor; eauto.
  Qed.

  Lemma flat_map_nodes (g : graph) k (c : nat -> bool) l :
    (forall x, In x l -> x < length (gedges g)) ->
    flat_map (fun i => match edge_at g i with
                       | Some ed => if c (fst (enode ed)) then [] else [(i, sel (enode ed) k)]
                       | None => [] end) l =
    map (fun e => (e, ept g k e)) (filter (fun e => negb (c (src g e))) l).
  Proof.
    induction l as [|x l IH]; intros Hb; [reflexivity|].
    destruct (nth_error_lt_Some (gedges g) (Hb x (or_introl eq_refl))) as [ed Hx].
    cbn [flat_map filter].
    rewrite IH by (intros y Hy; apply Hb; simpl; auto).
    assert (E1 : edge_at g x = Some ed) by exact Hx.
    assert (E2 : src g x = fst (enode ed)) by (unfold src, ept; rewrite Hx; reflexivity).
    assert (E3 : ept g k x = sel (enode ed) k) by (unfold ept; rewrite Hx; reflexivity).
    rewrite E1, E2. destruct (c (fst (enode ed))); simpl; [reflexivity|].
    rewrite E3. reflexivity.
  Qed.

  Lemma filter_true_id {A} (f : A -> bool) l : (forall x, In x l -> f x = true) -> filter f l = l.
  Proof.
    induction l as [|x l IH]; intros H; simpl; auto.
    rewrite (H x) by (simpl; auto). f_equal. apply IH. intros y Hy. apply H. simpl; auto.
  Qed.

  Lemma neighbors_raw_spec (g : graph) skip n0 n1 lo li :
    chain (fuel_of g) (gedges g) n0 0 = Ok lo ->
    chain (fuel_of g) (gedges g) n1 1 = Ok li ->
    (forall x, In x lo -> x < length (gedges g)) ->
    (forall x, In x li -> x < length (gedges g)) ->
    neighbors_raw g skip n0 n1 =
      Ok (map (fun e => (e, tgt g e)) lo ++
          map (fun e => (e, src g e)) (filter (fun e => negb (Nat.eqb (src g e) skip)) li)).
  Proof.
    intros C0 C1 B0 B1. unfold neighbors_raw. rewrite C0, C1. cbn [rbind].
    f_equal. f_equal.
    - pose proof (@flat_map_nodes g 1 (fun _ => false) lo B0) as E. cbn [sel] in E.
      rewrite E. rewrite filter_true_id by reflexivity. reflexivity.
    - pose proof (@flat_map_nodes g 0 (fun s => Nat.eqb s skip) li B1) as E. cbn [sel] in E.
      exact E.
  Qed.

  Section Queries.
    Variable g : graph.
    Hypothesis I : GInv g.

    Let Hc : length (gedges g) <= cap := gi_ecap I.

    Lemma adjf_lt k i x : In x (adjf g k i) -> x < length (gedges g).
    Proof.
      intros Hin. destruct (Nat.lt_ge_cases i (length (gnodes g))) as [Hi|Hi].
      - eapply adj_in_lt; [apply (adj_adjf k I Hi)|eauto].
      - rewrite adjf_oob in Hin; auto. contradiction.
    Qed.

    Lemma chain_adjf k i :
      chain (fuel_of g) (gedges g) (sel (node_next cap g i) k) k = Ok (adjf g k i).
    Proof.
      destruct (Nat.lt_ge_cases i (length (gnodes g))) as [Hi|Hi].
      - apply chain_adj; auto. apply adj_adjf; auto.
      - rewrite adjf_oob; auto. rewrite (node_next_none _ Hi).
        assert (E : sel (cap, cap) k = cap) by (destruct k; reflexivity). rewrite E.
        apply chain_cap; auto.
    Qed.

    Lemma chain_adjf0 i : chain (fuel_of g) (gedges g) (fst (node_next cap g i)) 0 = Ok (adjf g 0 i).
    Proof. exact (chain_adjf 0 i). Qed.

    Lemma chain_adjf1 i : chain (fuel_of g) (gedges g) (snd (node_next cap g i)) 1 = Ok (adjf g 1 i).
    Proof. exact (chain_adjf 1 i). Qed.

    Lemma src_lt x : x < length (gedges g) -> src g x < length (gnodes g).
    Proof.
      intros Hx. destruct (nth_error_lt_Some (gedges g) Hx) as [ed E].
      unfold src, ept. rewrite E. apply (gi_ends I _ E).
    Qed.

    Lemma tgt_lt x : x < length (gedges g) -> tgt g x < length (gnodes g).
    Proof.
      intros Hx. destruct (nth_error_lt_Some (gedges g) Hx) as [ed E].
      unfold tgt, ept. rewrite E. apply (gi_ends I _ E).
    Qed.

    (* Neighbors, directed graph: the out-list with targets / the in-list with sources,
       most recently added edge first. *)
    Theorem neighbors_directed_out a :
      neighbors_directed cap true g a 0 = Ok (map (fun e => (e, tgt g e)) (adjf g 0 a)).
    Proof.
      unfold neighbors_directed, neighbors_directed_nx. cbn [Nat.eqb].
      rewrite (@neighbors_raw_spec g cap _ _ (adjf g 0 a) []).
      - simpl. rewrite app_nil_r. reflexivity.
      - apply (chain_adjf 0 a).
      - apply chain_cap; auto.
      - intros x. apply adjf_lt.
      - intros x [].
    Qed.

    Theorem neighbors_directed_in a k :
      neighbors_directed cap true g a (S k) = Ok (map (fun e => (e, src g e)) (adjf g 1 a)).
    Proof.
      unfold neighbors_directed, neighbors_directed_nx. cbn [Nat.eqb].
      rewrite (@neighbors_raw_spec g cap _ _ [] (adjf g 1 a)).
      - simpl. rewrite filter_true_id; auto.
        intros x Hx. apply adjf_lt in Hx. pose proof (src_lt Hx). pose proof (gi_ncap I).
        apply negb_true_iff. apply Nat.eqb_neq. lia.
      - apply chain_cap; auto.
      - apply (chain_adjf 1 a).
      - intros x [].
      - intros x. apply adjf_lt.
    Qed.

    (* Neighbors, undirected graph (either direction argument): out-list targets, then the
       in-list sources with the self-loops (already reported by the first part) skipped. *)
    Theorem neighbors_undirected_spec a :
      neighbors_undirected cap g a =
        Ok (map (fun e => (e, tgt g e)) (adjf g 0 a) ++
            map (fun e => (e, src g e))
                (filter (fun e => negb (Nat.eqb (src g e) a)) (adjf g 1 a))).
    Proof.
      unfold neighbors_undirected, neighbors_undirected_nx.
      apply neighbors_raw_spec.
      - apply (chain_adjf 0 a).
      - apply (chain_adjf 1 a).
      - intros x. apply adjf_lt.
      - intros x. apply adjf_lt.
    Qed.

    Theorem neighbors_directed_undirected a k :
      neighbors_directed cap false g a k = neighbors_undirected cap g a.
    Proof. reflexivity. Qed.

    (* Edges iterator *)
    Definition eref (sw : bool) (e : nat) (r : nat * (nat * nat) * EW) : Prop :=
      exists ed, nth_error (gedges g) e = Some ed /\
                 r = (e, if sw then swapp (enode ed) else enode ed, ewt ed).

    Lemma flat_map_eref (sw : bool) l :
      (forall x, In x l -> x < length (gedges g)) ->
      exists r,
        flat_map (fun i => match edge_at g i with
                           | Some ed => [(i, if sw then swapp (enode ed) else enode ed, ewt ed)]
                           | None => [] end) l = r /\
        Forall2 (eref sw) l r.
    Proof.
      intros Hb.
      destruct (@flat_map_edges _ g (fun i ed => (i, if sw then swapp (enode ed) else enode ed, ewt ed))
                  (fun _ => false) l Hb) as [r [E R]].
      exists r; split; auto.
      rewrite filter_true_id in R; auto.
      intros x Hx. destruct (nth_error_lt_Some (gedges g) (Hb x Hx)) as [ed Ex]. rewrite Ex. reflexivity.
    Qed.

    Lemma flat_map_eref_skip (sw : bool) a l :
      (forall x, In x l -> x < length (gedges g)) ->
      exists r,
        flat_map (fun i => match edge_at g i with
                           | Some ed => if andb true (Nat.eqb (fst (enode ed)) a) then []
                                        else [(i, if sw then swapp (enode ed) else enode ed, ewt ed)]
                           | None => [] end) l = r /\
        Forall2 (eref sw) (filter (fun e => negb (Nat.eqb (src g e) a)) l) r.
    Proof.
      intros Hb.
      destruct (@flat_map_edges _ g (fun i ed => (i, if sw then swapp (enode ed) else enode ed, ewt ed))
                  (fun ed => andb true (Nat.eqb (fst (enode ed)) a)) l Hb) as [r [E R]].
      exists r; split; auto.
      erewrite filter_ext_in; [exact R|].
      intros x Hx. destruct (nth_error_lt_Some (gedges g) (Hb x Hx)) as [ed Ex].
      unfold src, ept. rewrite Ex. reflexivity.
    Qed.

    (* directed: exactly the out-list (Outgoing) or the in-list (Incoming), as stored *)
    Theorem edges_directed_out a :
      exists r, edges_directed cap true g a 0 = Ok r /\ Forall2 (eref false) (adjf g 0 a) r.
    Proof.
      unfold edges_directed, edges_directed_nx. cbn [Nat.eqb negb orb andb].
      rewrite (chain_adjf0 a). cbn [rbind flat_map].
      destruct (@flat_map_eref false (adjf g 0 a) (adjf_lt 0 a)) as [r [E R]].
      exists r. rewrite app_nil_r. split; auto. f_equal. exact E.
    Qed.

    Theorem edges_directed_in a k :
      exists r, edges_directed cap true g a (S k) = Ok r /\ Forall2 (eref false) (adjf g 1 a) r.
    Proof.
      unfold edges_directed, edges_directed_nx. cbn [Nat.eqb negb orb andb].
      rewrite (chain_adjf1 a). cbn [rbind flat_map app].
      destruct (@flat_map_edges _ g (fun i ed => (i, enode ed, ewt ed))
                  (fun _ => false) (adjf g 1 a) (adjf_lt 1 a)) as [r [E R]].
      exists r. split; [f_equal; exact E|].
      rewrite filter_true_id in R; auto.
      intros x Hx. destruct (nth_error_lt_Some (gedges g) (adjf_lt 1 a x Hx)) as [ed Ex].
      rewrite Ex. reflexivity.
    Qed.

    (* undirected: every incident edge once (a self-loop only from the out-list);
       Outgoing reports the queried node as source (in-list entries swapped),
       Incoming reports it as target (out-list entries swapped). *)
    Theorem edges_undirected_out a :
      exists r1 r2, edges_directed cap false g a 0 = Ok (r1 ++ r2) /\
        Forall2 (eref false) (adjf g 0 a) r1 /\
        Forall2 (eref true) (filter (fun e => negb (Nat.eqb (src g e) a)) (adjf g 1 a)) r2.
    Proof.
      unfold edges_directed, edges_directed_nx. cbn [Nat.eqb negb orb andb].
      rewrite (chain_adjf0 a), (chain_adjf1 a). cbn [rbind].
      destruct (@flat_map_eref false (adjf g 0 a) (adjf_lt 0 a)) as [r1 [E1 R1]].
      destruct (@flat_map_eref_skip true a (adjf g 1 a) (adjf_lt 1 a)) as [r2 [E2 R2]].
      exists r1, r2. split; auto. f_equal. f_equal; [exact E1|exact E2].
    Qed.

    Theorem edges_undirected_in a k :
      exists r1 r2, edges_directed cap false g a (S k) = Ok (r1 ++ r2) /\
        Forall2 (eref true) (adjf g 0 a) r1 /\
        Forall2 (eref false) (filter (fun e => negb (Nat.eqb (src g e) a)) (adjf g 1 a)) r2.
    Proof.
      unfold edges_directed, edges_directed_nx. cbn [Nat.eqb negb orb andb].
      rewrite (chain_adjf0 a), (chain_adjf1 a). cbn [rbind].
      destruct (@flat_map_eref true (adjf g 0 a) (adjf_lt 0 a)) as [r1 [E1 R1]].
      destruct (@flat_map_eref_skip false a (adjf g 1 a) (adjf_lt 1 a)) as [r2 [E2 R2]].
      exists r1, r2. split; auto. f_equal. f_equal; [exact E1|exact E2].
    Qed.

    (* find_edge *)
    Lemma find_walk_lseg k b h l t :
      nxe (gedges g) k t = None -> lseg (nxe (gedges g) k) h l t ->
      forall fuel, length l < fuel ->
      find_walk fuel (gedges g) h k b = Ok (find (fun x => Nat.eqb (ept g (1 - k) x) b) l).
    Proof.
      intros Ht H; induction H as [h | h h' l t Hh Hl IH]; intros fuel Hf;
        (destruct fuel as [|f]; [simpl in Hf; lia|]); cbn [find_walk find].
      - rewrite (nxe_None_nth _ _ _ Ht). reflexivity.
      - destruct (nxe_Some_nth _ _ _ Hh) as [ed [E1 E2]]. rewrite E1.
        unfold ept at 1. rewrite E1.
        destruct (Nat.eqb (sel (enode ed) (1 - k)) b); auto.
        rewrite E2. apply IH; auto. simpl in Hf. lia.
    Qed.

    Lemma find_walk_adjf k a b n :
      nth_error (gnodes g) a = Some n ->
      find_walk (fuel_of g) (gedges g) (sel (nnext n) k) k b =
        Ok (find (fun x => Nat.eqb (ept g (1 - k) x) b) (adjf g k a)).
    Proof.
      intros Hn.
      assert (Ha : a < length (gnodes g)) by (eapply nth_error_Some_lt; eauto).
      pose proof (adj_adjf k I Ha) as Hadj.
      pose proof (adj_length Hc Hadj) as Hlen.
      destruct Hadj as [n' [Hn' H]]. assert (n' = n) by congruence. subst n'.
      eapply find_walk_lseg; eauto.
      - apply nxe_oob; auto.
      - unfold fuel_of. lia.
    Qed.

    Lemma find_walk_out a b n :
      nth_error (gnodes g) a = Some n ->
      find_walk (fuel_of g) (gedges g) (fst (nnext n)) 0 b =
        Ok (find (fun x => Nat.eqb (tgt g x) b) (adjf g 0 a)).
    Proof. exact (@find_walk_adjf 0 a b n). Qed.

    Lemma find_walk_in a b n :
      nth_error (gnodes g) a = Some n ->
      find_walk (fuel_of g) (gedges g) (snd (nnext n)) 1 b =
        Ok (find (fun x => Nat.eqb (src g x) b) (adjf g 1 a)).
    Proof. exact (@find_walk_adjf 1 a b n). Qed.

    Theorem find_edge_directed a b :
      find_edge true g a b = Ok (find (fun x => Nat.eqb (tgt g x) b) (adjf g 0 a)).
    Proof.
      unfold find_edge. destruct (nth_error (gnodes g) a) as [n|] eqn:Hn.
      - apply (find_walk_out a b Hn).
      - rewrite adjf_oob; auto. apply nth_error_None; auto.
    Qed.

    Theorem find_edge_undirected_spec a b :
      find_edge false g a b =
        Ok (match find (fun x => Nat.eqb (tgt g x) b) (adjf g 0 a) with
            | Some e => Some e
            | None => find (fun x => Nat.eqb (src g x) b) (adjf g 1 a)
            end).
    Proof.
      unfold find_edge, find_edge_undirected. destruct (nth_error (gnodes g) a) as [n|] eqn:Hn.
      - rewrite (find_walk_out a b Hn). cbn [rbind].
        destruct (find (fun x => Nat.eqb (tgt g x) b) (adjf g 0 a)) as [e|]; [reflexivity|].
        rewrite (find_walk_in a b Hn). cbn [rmap].
        destruct (find (fun x => Nat.eqb (src g x) b) (adjf g 1 a)); reflexivity.
      - assert (Ha : length (gnodes g) <= a) by (apply nth_error_None; auto).
        rewrite !adjf_oob; auto.
    Qed.

    (* consequences in terms of the multigraph: soundness and completeness of find_edge *)
    Theorem find_edge_directed_some a b e :
      find_edge true g a b = Ok (Some e) ->
      e < length (gedges g) /\ src g e = a /\ tgt g e = b.
    Proof.
      rewrite find_edge_directed. intros [= E]. apply find_some in E. destruct E as [Hin Hb].
      apply Nat.eqb_eq in Hb.
      destruct (Nat.lt_ge_cases a (length (gnodes g))) as [Ha|Ha].
      - apply (adjf_in 0 e I Ha) in Hin. tauto.
      - rewrite adjf_oob in Hin; auto. contradiction.
    Qed.

    Theorem find_edge_directed_none a b :
      find_edge true g a b = Ok None ->
      forall e, e < length (gedges g) -> ~ (src g e = a /\ tgt g e = b).
    Proof.
      rewrite find_edge_directed. intros [= E] e He [Hs Ht].
      assert (Ha : a < length (gnodes g)) by (rewrite <- Hs; apply src_lt; auto).
      assert (Hin : In e (adjf g 0 a)) by (apply (adjf_in 0 e I Ha); auto).
      pose proof (find_none _ _ E _ Hin) as Hn. cbv beta in Hn.
      apply Nat.eqb_neq in Hn. auto.
    Qed.

    Theorem find_edge_undirected_some a b e :
      find_edge false g a b = Ok (Some e) ->
      e < length (gedges g) /\
      ((src g e = a /\ tgt g e = b) \/ (src g e = b /\ tgt g e = a)).
    Proof.
      rewrite find_edge_undirected_spec. intros [= E].
      destruct (Nat.lt_ge_cases a (length (gnodes g))) as [Ha|Ha].
      - destruct (find (fun x => Nat.eqb (tgt g x) b) (adjf g 0 a)) as [e0|] eqn:E0.
        + injection E as ->. apply find_some in E0. destruct E0 as [Hin Hb].
          apply Nat.eqb_eq in Hb. apply (adjf_in 0 e I Ha) in Hin. tauto.
        + apply find_some in E. destruct E as [Hin Hb].
          apply Nat.eqb_eq in Hb. apply (adjf_in 1 e I Ha) in Hin.
          change (ept g 1 e) with (tgt g e) in Hin. tauto.
      - rewrite !adjf_oob in E; auto. discriminate.
    Qed.

    Theorem find_edge_undirected_none a b :
      find_edge false g a b = Ok None ->
      forall e, e < length (gedges g) ->
        ~ (src g e = a /\ tgt g e = b) /\ ~ (src g e = b /\ tgt g e = a).
    Proof.
      rewrite find_edge_undirected_spec. intros [= E] e He.
      destruct (find (fun x => Nat.eqb (tgt g x) b) (adjf g 0 a)) as [e0|] eqn:E0; [discriminate|].
      split; intros [Hs Ht].
      - assert (Ha : a < length (gnodes g)) by (rewrite <- Hs; apply src_lt; auto).
        assert (Hin : In e (adjf g 0 a)) by (apply (adjf_in 0 e I Ha); auto).
        pose proof (find_none _ _ E0 _ Hin) as Hn. cbv beta in Hn.
        apply Nat.eqb_neq in Hn. auto.
      - assert (Ha : a < length (gnodes g)) by (rewrite <- Ht; apply tgt_lt; auto).
        assert (Hin : In e (adjf g 1 a)) by (apply (adjf_in 1 e I Ha); auto).
        pose proof (find_none _ _ E _ Hin) as Hn. cbv beta in Hn.
        apply Nat.eqb_neq in Hn. auto.
    Qed.

    (* externals *)
    Definition isnil (l : list nat) : bool := match l with [] => true | _ => false end.

    Lemma flat_map_combine_seq {A} (f : A -> bool) (l : list A) : forall s,
      flat_map (fun '(i, n) => if f n then [i] else []) (combine (seq s (length l)) l) =
      filter (fun i => match nth_error l (i - s) with Some n => f n | None => false end)
             (seq s (length l)).
    Proof.
      induction l as [|x l IH]; intros s; [reflexivity|].
      cbn [length seq combine flat_map filter]. rewrite Nat.sub_diag. cbn [nth_error].
      rewrite IH.
      assert (E : filter (fun i => match nth_error l (i - S s) with Some n => f n | None => false end)
                    (seq (S s) (length l)) =
                  filter (fun i => match nth_error (x :: l) (i - s) with Some n => f n | None => false end)
                    (seq (S s) (length l))).
      { apply filter_ext_in. intros i Hi. apply in_seq in Hi.
        replace (i - s) with (S (i - S s)) by lia. reflexivity. }
      rewrite E. destruct (f x); reflexivity.
    Qed.

    Theorem externals_spec directed k :
      externals cap directed g k =
        filter (fun i => andb (isnil (adjf g k i)) (orb directed (isnil (adjf g (1 - k) i))))
               (seq 0 (length (gnodes g))).
    Proof.
      unfold externals.
      rewrite (flat_map_combine_seq
                 (fun n => andb (Nat.eqb (sel (nnext n) k) cap)
                                (orb directed (Nat.eqb (sel (nnext n) (1 - k)) cap)))).
      apply filter_ext_in. intros i Hi. apply in_seq in Hi. rewrite Nat.sub_0_r.
      destruct (nth_error_lt_Some (gnodes g) (proj2 Hi)) as [n Hn]. rewrite Hn.
      assert (B : forall k', Nat.eqb (sel (nnext n) k') cap = isnil (adjf g k' i)).
      { intros k'. pose proof (adjf_empty_iff k' i I Hn) as Hiff.
        destruct (Nat.eqb_spec (sel (nnext n) k') cap) as [E|E].
        - rewrite (proj2 Hiff E). reflexivity.
        - destruct (adjf g k' i); [tauto|reflexivity]. }
      rewrite !B. reflexivity.
    Qed.
  End Queries.
End GraphQ.
