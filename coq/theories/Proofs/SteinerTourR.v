(* C20g, part 2: from the tour to the factor 2.
   On an undirected view (every step can be taken backwards with the same weight) the shortest-walk distance
   is a metric on every set of mutually reachable nodes; the tour of Proofs/SteinerTour.v through the terminals,
   along an optimal Steiner tree, costs at most 2 * opt; dropping its closing edge leaves a Hamiltonian path on
   the terminals whose edges, taken from the metric closure, are one of closure_trees.  Hence every minimum
   spanning tree of the closure weighs at most 2 * opt, and so does every result of the mirror. *)
From Coq Require Import Lia ZArith List Bool Permutation.
From PG Require Import Lib.Io Model.View Model.Traversal Model.ShortestM Model.UnionFindM Model.MstM Model.MiscM Model.SteinerM
  Spec.Partition Spec.Forest Spec.MiscSpec Spec.Paths Spec.EPaths
  Proofs.UnionFindH Proofs.ForestP Proofs.MstP Proofs.PrimP Proofs.FloydP Proofs.FloydCompleteP Proofs.DijkstraP
  Proofs.MiscSteinerP1 Proofs.MiscSteinerP2 Proofs.SteinerMP1 Proofs.SteinerMP2 Proofs.SteinerMP3 Proofs.SteinerMP
  Proofs.SteinerMW Proofs.SteinerTour.
Import ListNotations.
Local Open Scope nat_scope.

(* every step can be taken backwards with the same weight: what an UnGraph shows *)
Definition Undirected (v : view) : Prop := forall a b w, estep v a b w -> estep v b a w.

Lemma undirected_flag v : vdirected v = false -> Undirected v.
Proof.
  intros F a b w [i [H|[_ H]]]; exists i; [right; split; [exact F | exact H] | left; exact H].
Qed.

Lemma ewalk_rev v : Undirected v -> forall a p b, ewalk v a p b -> exists q, ewalk v b q a /\ ecost q = ecost p.
Proof.
  intros HU a p b W. induction W as [a | a b w p c Hs Hp [q [Wq Cq]]].
  - exists []. split; [constructor | reflexivity].
  - exists (q ++ [(a, w)]). split.
    + apply (ewalk_app Wq). constructor; [apply HU, Hs | constructor].
    + rewrite ecost_app. cbn [ecost snd]. lia.
Qed.

Lemma edist_unique v i j x y : edist v i j x -> edist v i j y -> x = y.
Proof.
  intros [[p1 [W1 C1]] L1] [[p2 [W2 C2]] L2]. pose proof (L1 _ W2). pose proof (L2 _ W1). lia.
Qed.

(* ------------------------------------------------------------------ *)
(* list facts                                                           *)

Lemma pairs_after_nodup : forall l, NoDup l -> NoDup (pairs_after l).
Proof.
  induction l as [|x t IH]; intros ND; [constructor|]. inversion ND as [|u r Hx Hr]; subst.
  cbn [pairs_after]. apply NoDup_app_intro.
  - clear IH Hx ND. induction Hr as [|y t Hy Ht IHt]; [constructor|]. cbn [map]. constructor; [|exact IHt].
    intros Hin. apply in_map_iff in Hin. destruct Hin as [z [Ez Hz]]. injection Ez as <-. apply Hy, Hz.
  - apply IH, Hr.
  - intros [a b] H1 H2. apply in_map_iff in H1. destruct H1 as [z [Ez _]]. injection Ez as <- <-.
    apply pairs_after_In in H2. apply Hx, H2.
Qed.

Lemma pairs_after_total : forall l x y, In x l -> In y l -> x <> y ->
  In (x, y) (pairs_after l) \/ In (y, x) (pairs_after l).
Proof.
  induction l as [|h t IH]; intros x y Hx Hy Hne; [destruct Hx|]. cbn [pairs_after].
  destruct Hx as [Ex|Hx]; destruct Hy as [Ey|Hy].
  - exfalso. apply Hne. congruence.
  - subst h. left. apply in_app_iff. left. apply in_map, Hy.
  - subst h. right. apply in_app_iff. left. apply in_map, Hx.
  - destruct (IH x y Hx Hy Hne) as [H|H]; [left | right]; apply in_app_iff; right; exact H.
Qed.

Lemma weight_perm l l' : Permutation l l' -> weight l = weight l'.
Proof.
  unfold weight. intros P. induction P as [| x l l' P IH | x y l | l l' l'' P1 IH1 P2 IH2]; cbn [map fold_right]; lia.
Qed.

Definition tri_dec : forall x y : nat * nat * Z, {x = y} + {x <> y}.
Proof. intros x y. repeat decide equality. Defined.

Definition pick (T : list (nat * nat * Z)) (cl : list (nat * nat * Z)) : list (nat * nat * Z) :=
  filter (fun e => if in_dec tri_dec e T then true else false) cl.

Lemma pick_perm T cl : NoDup cl -> NoDup T -> incl T cl -> Permutation (pick T cl) T.
Proof.
  intros Nc NT Hi. apply NoDup_Permutation; [apply NoDup_filter, Nc | exact NT|].
  intros e. unfold pick. rewrite filter_In. destruct (in_dec tri_dec e T) as [Hin|Hn].
  - split; [intros _; exact Hin | intros _; split; [apply Hi, Hin | reflexivity]].
  - split; [intros [_ F]; discriminate F | intros Hin; exfalso; apply Hn, Hin].
Qed.

(* ------------------------------------------------------------------ *)
(* a Hamiltonian path on the terminals, with its edges in either orientation *)

Section Chain.
  Variable D : nat -> nat -> Z.

  Inductive ochain : nat -> list nat -> list (nat * nat * Z) -> Prop :=
  | oc_nil x : ochain x [] []
  | oc_cons x y t a b w T : ((a, b) = (x, y) \/ (a, b) = (y, x)) -> w = D x y -> ochain y t T ->
      ochain x (y :: t) ((a, b, w) :: T).

  Lemma ochain_length x L T : ochain x L T -> length T = length L.
  Proof. intros H. induction H as [x | x y t a b w T Ho Ew Hc IH]; [reflexivity|]. cbn [length]. rewrite IH. reflexivity. Qed.

  Lemma ochain_weight x L T : ochain x L T -> weight T = pcost D (x :: L).
  Proof.
    intros H. induction H as [x | x y t a b w T Ho Ew Hc IH]; [reflexivity|].
    rewrite pcost_cons. unfold weight in *. cbn [map snd fold_right]. rewrite IH, Ew. reflexivity.
  Qed.

  Lemma ochain_ends x L T : ochain x L T -> forall a b w, In (a, b, w) T -> In a (x :: L) /\ In b (x :: L).
  Proof.
    intros H. induction H as [x | x y t a b w T Ho Ew Hc IH]; intros a' b' w' Hin; [destruct Hin|].
    destruct Hin as [E|Hin].
    - injection E as <- <- <-. destruct Ho as [E|E]; injection E as -> ->; split; cbn [In]; auto.
    - destruct (IH a' b' w' Hin) as [H1 H2]. split; right; assumption.
  Qed.

  Lemma ochain_nodup x L T : ochain x L T -> NoDup (x :: L) -> NoDup T.
  Proof.
    intros H. induction H as [x | x y t a b w T Ho Ew Hc IH]; intros ND; [constructor|].
    inversion ND as [|u r Hx Hr]; subst u r. constructor; [|apply IH, Hr].
    intros Hin. destruct (ochain_ends y t T Hc a b w Hin) as [Ha Hb].
    destruct Ho as [E|E]; injection E as -> ->; apply Hx; assumption.
  Qed.

  Lemma ochain_acyclic x L T : ochain x L T -> forall prev, NoDup (x :: L) ->
    (forall a b, In (a, b) prev -> ~ In a L /\ ~ In b L) -> acyclic_from prev (ends T).
  Proof.
    intros H. induction H as [x | x y t a b w T Ho Ew Hc IH]; intros prev ND Hp; [exact I|].
    inversion ND as [|u r Hx Hr]; subst u r. inversion Hr as [|u r Hy Ht]; subst u r.
    change (ends ((a, b, w) :: T)) with ((a, b) :: ends T). cbn [acyclic_from]. split.
    - assert (G : ~ conn prev x y).
      { intros C. destruct (conn_inside (fun z => ~ In z (y :: t)) prev Hp x y C) as [E|[_ H2]].
        - apply Hx. left. symmetry. exact E.
        - apply H2. left. reflexivity. }
      destruct Ho as [E|E]; injection E as -> ->; [exact G | intros C; apply G, c_sym, C].
    - apply IH; [exact Hr|]. intros a' b' [E|Hin].
      + assert (Hxt : ~ In x t) by (intros Hin; apply Hx; right; exact Hin).
        injection E as <- <-. destruct Ho as [E|E]; injection E as -> ->; split; assumption.
      + destruct (Hp a' b' Hin) as [H1 H2]. split; intros Hz; [apply H1 | apply H2]; right; exact Hz.
  Qed.

  Lemma ochain_exists terms cl :
    (forall x y, In x terms -> In y terms -> x <> y ->
       exists a b w, In (a, b, w) cl /\ ((a, b) = (x, y) \/ (a, b) = (y, x)) /\ w = D x y) ->
    forall L x, NoDup (x :: L) -> incl (x :: L) terms -> exists T, ochain x L T /\ incl T cl.
  Proof.
    intros Hcl. induction L as [|y t IH]; intros x ND Hi.
    - exists []. split; [constructor | intros e []].
    - inversion ND as [|u r Hx Hr]; subst.
      destruct (IH y Hr) as [T [Hc Hs]]; [intros z Hz; apply Hi; right; exact Hz|].
      destruct (Hcl x y) as [a [b [w [Hin [Ho Ew]]]]].
      { apply Hi. left. reflexivity. } { apply Hi. right. left. reflexivity. }
      { intros E. apply Hx. left. symmetry. exact E. }
      exists ((a, b, w) :: T). split; [constructor; assumption|].
      intros e [<-|He]; [exact Hin | apply Hs, He].
  Qed.
End Chain.

(* ------------------------------------------------------------------ *)
(* the distance matrix of floyd_warshall is a metric on mutually reachable nodes of an undirected view *)

Lemma sok_fw_dist v terms d prev : SOk v terms -> floyd_warshall KMIN KMAX v = Ok (Some (d, prev)) ->
  forall i j, In i (vnodes v) -> In j (vnodes v) -> ereachable v i j -> edist v i j (dm d i j).
Proof.
  intros H E i j Hi Hj Hr.
  assert (HNN : ~ eneg_cycle v).
  { intros [a [c [W Hc]]]. pose proof (ecost_nonneg v (so_nonneg v terms H) a c a W). lia. }
  destruct (fw_path_spec KMIN KMAX v (so_fok v terms H) HNN (so_max v terms H)) as [d' [p' [E' [_ [_ [Hex _]]]]]].
  { intros i0 p k q j0 W1 W2. pose proof (ecost_nonneg v (so_nonneg v terms H) _ _ _ W1).
    pose proof (ecost_nonneg v (so_nonneg v terms H) _ _ _ W2). unfold KMIN. lia. }
  rewrite E in E'. injection E' as <- <-.
  apply (Hex i j); [apply (fk_lt (so_fok v terms H)), Hi | apply (fk_lt (so_fok v terms H)), Hj | exact Hr].
Qed.

Section Reduce.
  Variables (v : view) (terms : list nat) (cl : list (nat * nat * Z)) (d : list (list Z))
            (prev : list (list (option nat))).
  Hypothesis H : SOk v terms.
  Hypothesis HU : Undirected v.
  Hypothesis E1 : metric_closure v terms = Ok cl.
  Hypothesis E2 : floyd_warshall KMIN KMAX v = Ok (Some (d, prev)).

  Let D (a b : nat) : Z := dm d a b.

  Lemma nnc : ~ eneg_cycle v.
  Proof. intros [a [c [W Hc]]]. pose proof (ecost_nonneg v (so_nonneg v terms H) a c a W). lia. Qed.

  Lemma D_dist a b : In a (vnodes v) -> In b (vnodes v) -> ereachable v a b -> edist v a b (D a b).
  Proof. intros Ha Hb Hr. apply (sok_fw_dist v terms d prev H E2 a b Ha Hb Hr). Qed.

  Lemma ereach_sym a b : ereachable v a b -> ereachable v b a.
  Proof. intros [p W]. destruct (ewalk_rev v HU a p b W) as [q [Wq _]]. exists q. exact Wq. Qed.

  Lemma ereach_trans a b c : ereachable v a b -> ereachable v b c -> ereachable v a c.
  Proof. intros [p W1] [q W2]. exists (p ++ q). apply (ewalk_app W1 W2). Qed.

  (* a set of mutually reachable nodes *)
  Variable K : list nat.
  Hypothesis HK : incl K (vnodes v).
  Hypothesis HR : forall a b, In a K -> In b K -> ereachable v a b.

  Lemma DK_refl a : In a K -> D a a = 0%Z.
  Proof.
    intros Ha. apply (edist_unique v a a); [apply D_dist; [apply HK, Ha | apply HK, Ha | apply HR; exact Ha] | apply (edist_self a nnc)].
  Qed.

  Lemma DK_le a b : In a K -> In b K -> (D b a <= D a b)%Z.
  Proof.
    intros Ha Hb.
    destruct (D_dist a b (HK a Ha) (HK b Hb) (HR a b Ha Hb)) as [[p [W C]] _].
    destruct (D_dist b a (HK b Hb) (HK a Ha) (HR b a Hb Ha)) as [_ L].
    destruct (ewalk_rev v HU a p b W) as [q [Wq Cq]]. specialize (L q Wq). lia.
  Qed.

  Lemma DK_sym a b : In a K -> In b K -> D a b = D b a.
  Proof. intros Ha Hb. pose proof (DK_le a b Ha Hb). pose proof (DK_le b a Hb Ha). lia. Qed.

  Lemma DK_tri a b c : In a K -> In b K -> In c K -> (D a c <= D a b + D b c)%Z.
  Proof.
    intros Ha Hb Hc.
    destruct (D_dist a b (HK a Ha) (HK b Hb) (HR a b Ha Hb)) as [[p [Wp Cp]] _].
    destruct (D_dist b c (HK b Hb) (HK c Hc) (HR b c Hb Hc)) as [[q [Wq Cq]] _].
    destruct (D_dist a c (HK a Ha) (HK c Hc) (HR a c Ha Hc)) as [_ L].
    specialize (L (p ++ q) (ewalk_app Wp Wq)). rewrite ecost_app in L. lia.
  Qed.

  Lemma DK_step a b w : In a K -> In b K -> estep v a b w -> (D a b <= w)%Z.
  Proof.
    intros Ha Hb Hs. destruct (D_dist a b (HK a Ha) (HK b Hb) (HR a b Ha Hb)) as [_ L].
    assert (W : ewalk v a [(b, w)] b) by (constructor; [exact Hs | constructor]).
    specialize (L _ W). cbn [ecost snd] in L. lia.
  Qed.

  Hypothesis HTK : incl terms K.

  (* the entries of the closure are D, whichever way round *)
  Lemma cl_entry x y : In x terms -> In y terms -> x <> y ->
    exists a b w, In (a, b, w) cl /\ ((a, b) = (x, y) \/ (a, b) = (y, x)) /\ w = D x y.
  Proof.
    intros Hx Hy Hne.
    assert (G : forall a b, In (a, b) (pairs_after terms) -> exists w, In (a, b, w) cl /\ w = D a b).
    { intros a b Hab. rewrite <- (metric_closure_ends v terms cl E1) in Hab. apply ends_In in Hab.
      destruct Hab as [w Hin]. exists w. split; [exact Hin|].
      destruct (metric_closure_dist v terms cl H E1 a b w Hin) as [Ha [Hb Hd]].
      apply (edist_iff a b w (so_refs v terms H)) in Hd.
      apply (edist_unique v a b w (D a b) Hd).
      apply D_dist; [apply HK, HTK, Ha | apply HK, HTK, Hb | apply HR; apply HTK; assumption]. }
    destruct (pairs_after_total terms x y Hx Hy Hne) as [Hp|Hp]; destruct (G _ _ Hp) as [w [Hin Ew]].
    - exists x, y, w. split; [exact Hin|]. split; [left; reflexivity | exact Ew].
    - exists y, x, w. split; [exact Hin|]. split; [right; reflexivity|].
      rewrite Ew. apply DK_sym; apply HTK; assumption.
  Qed.

  Lemma cl_nodup : NoDup cl.
  Proof.
    apply (NoDup_map_inv fst). fold (ends cl). rewrite (metric_closure_ends v terms cl E1).
    apply pairs_after_nodup, (so_nodup v terms H).
  Qed.

  (* a Hamiltonian path on the terminals is a tree of closure_trees, no heavier than the path *)
  Lemma path_closure_tree L : Permutation L terms ->
    exists t', In t' (closure_trees (vbound v) (length terms) cl) /\ sumw t' = pcost D L.
  Proof.
    intros PL.
    assert (NL : NoDup L) by (apply (Permutation_NoDup (Permutation_sym PL)), (so_nodup v terms H)).
    assert (IL : incl L terms) by (intros z Hz; apply (Permutation_in z PL), Hz).
    pose proof (Permutation_length PL) as LL. pose proof (so_two v terms H) as H2.
    destruct L as [|x L]; [cbn [length] in LL; lia|].
    destruct (ochain_exists D terms cl cl_entry L x NL IL) as [T [Hc Hs]].
    pose proof (ochain_nodup D x L T Hc NL) as NT.
    pose proof (pick_perm T cl cl_nodup NT Hs) as PP.
    exists (pick T cl). split.
    - unfold closure_trees. apply filter_In. split.
      + apply subseqs_In_st. unfold pick. apply sublist_filter.
      + apply andb_true_iff. split.
        * apply Nat.eqb_eq. rewrite (Permutation_length PP), (ochain_length D x L T Hc). cbn [length] in LL. lia.
        * rewrite acyclic_b_fold. apply (tc_fold_spec (vbound v) (pick T cl) _ [] (abs_new (vbound v))). split.
          -- intros a b w Hin. apply (Permutation_in _ PP) in Hin.
             destruct (ochain_ends D x L T Hc a b w Hin) as [Ha Hb].
             split; apply (sok_terms_bound v terms H), IL; assumption.
          -- apply (acyclic_from_perm (ends T)).
             ++ unfold ends. apply Permutation_map, Permutation_sym, PP.
             ++ apply (ochain_acyclic D x L T Hc [] NL). intros a b [].
    - rewrite sumw_weight, (weight_perm _ _ PP). apply (ochain_weight D x L T Hc).
  Qed.
End Reduce.

(* ------------------------------------------------------------------ *)
(* T1: some spanning tree of the closure weighs at most twice the optimum *)

Lemma conn_ereachable v F : Undirected v -> incl F (gedges v) ->
  forall x y, conn (ends F) x y -> ereachable v x y.
Proof.
  intros HU HF x y C. induction C as [x | x y Hi | x y C IH | x y z C1 IH1 C2 IH2].
  - exists []. constructor.
  - apply ends_In in Hi. destruct Hi as [w Hin]. apply HF, gedges_In in Hin. destruct Hin as [i Hin].
    exists [(y, w)]. constructor; [exists i; left; exact Hin | constructor].
  - destruct IH as [p W]. destruct (ewalk_rev v HU _ _ _ W) as [q [Wq _]]. exists q. exact Wq.
  - destruct IH1 as [p W1]. destruct IH2 as [q W2]. exists (p ++ q). apply (ewalk_app W1 W2).
Qed.

Theorem closure_tree_le_twice_opt v terms cl opt : SOk v terms -> Undirected v ->
  metric_closure v terms = Ok cl -> steiner_opt v terms = Some opt ->
  exists t', In t' (closure_trees (vbound v) (length terms) cl) /\ (sumw t' <= 2 * opt)%Z.
Proof.
  intros H HU E1 Eo.
  destruct (sok_floyd v terms H) as [d [prev [E2 _]]].
  destruct (steiner_opt_minimum v terms opt (so_mok v terms H) Eo) as [[K [F [_ [_ [[HK [HTK [HF HT]]] Ew]]]]] _].
  assert (HR : forall a b, In a K -> In b K -> ereachable v a b).
  { intros a b Ha Hb. destruct HT as [_ [_ [_ [_ Hc]]]]. apply (conn_ereachable v F HU HF a b), Hc; assumption. }
  set (D := fun a b : nat => dm d a b).
  assert (HE : EdgeOk D F).
  { intros a b w Hin. destruct (tree_edges_ok K F HT a b w Hin) as [Ha [Hb _]].
    apply (DK_step v terms d prev H E2 K HK HR a b w Ha Hb).
    apply HF, gedges_In in Hin. destruct Hin as [i Hin]. exists i. left. exact Hin. }
  destruct (cycle_tour (fun x => In x K) D
              (DK_refl v terms d prev H E2 K HK HR)
              (DK_sym v terms d prev H HU E2 K HK HR)
              (DK_tri v terms d prev H E2 K HK HR)
              (length F) K F terms eq_refl HT (fun x Hx => Hx) HE (so_nodup v terms H) (sok_terms_ne v terms H) HTK)
    as [L [PL Hc]].
  assert (HL : AllDm (fun x => In x K) L) by (intros x Hx; apply HTK, (Permutation_in x PL), Hx).
  pose proof (pcost_le_closed (fun x => In x K) D
                (DK_refl v terms d prev H E2 K HK HR) (DK_sym v terms d prev H HU E2 K HK HR)
                (DK_tri v terms d prev H E2 K HK HR) L HL) as Hp.
  destruct (path_closure_tree v terms cl d prev H HU E1 E2 K HK HR HTK L PL) as [t' [Ht' Es]].
  exists t'. split; [exact Ht'|]. fold D in Es. rewrite Es. lia.
Qed.

(* T2: every result of the mirror weighs at most twice the optimum *)
Theorem steiner_two_approx v terms cl d prev tree nodes es opt : SOk v terms -> SimpleRefs v -> Undirected v ->
  metric_closure v terms = Ok cl -> floyd_warshall KMIN KMAX v = Ok (Some (d, prev)) ->
  In tree (closure_msts (vbound v) (length terms) cl) -> steiner_for v terms prev tree = Ok (nodes, es) ->
  steiner_opt v terms = Some opt -> (sumw es <= 2 * opt)%Z.
Proof.
  intros H HS HU E1 E2 Ht Es Eo.
  destruct (closure_tree_le_twice_opt v terms cl opt H HU E1 Eo) as [t' [Ht' Hw]].
  pose proof (weight_le_closure_mst v terms cl d prev H HS E1 E2 tree nodes es Ht Es).
  pose proof (closure_msts_minimal (vbound v) (length terms) cl tree t' Ht Ht'). lia.
Qed.

Theorem closure_mst_le_twice_opt v terms cl tree opt : SOk v terms -> Undirected v ->
  metric_closure v terms = Ok cl -> In tree (closure_msts (vbound v) (length terms) cl) ->
  steiner_opt v terms = Some opt -> (sumw tree <= 2 * opt)%Z.
Proof.
  intros H HU E1 Ht Eo.
  destruct (closure_tree_le_twice_opt v terms cl opt H HU E1 Eo) as [t' [Ht' Hw]].
  pose proof (closure_msts_minimal (vbound v) (length terms) cl tree t' Ht Ht'). lia.
Qed.

Theorem possible_implies_check_0 v terms nodes es : steiner_possible v terms nodes es = true ->
  length terms <= 5 -> SOk v terms -> SimpleRefs v -> Undirected v -> steiner_check v terms nodes es = 0.
Proof.
  intros E H5 H HS HU.
  pose proof (possible_run v terms nodes es H H5 E) as HR.
  destruct (steiner_run_clauses v terms nodes es H HR) as [C1 [C2 [C3 C4]]].
  destruct (steiner_check_verdicts v terms nodes es (so_mok v terms H)) as [_ [V0 _]].
  apply V0. repeat split; try assumption.
  - apply C1.
  - apply C1.
  - intros opt Eo. destruct HR as [cl [d [prev [tree [E1 [E2 [Ht Es]]]]]]].
    apply (steiner_two_approx v terms cl d prev tree nodes es opt H HS HU E1 E2 Ht Es Eo).
Qed.
