(* C20: boolean checks of the hypotheses of the C20 theorems (symmetric, loop_free, inout_ids_ok,
   erefs_out_ok, no parallel edges), for concrete views. *)
From PG Require Import Lib.Io Model.View Model.MiscM Spec.Reach Spec.MiscSpec Proofs.MiscColorP.

Lemma out_edges_key v a x : In x (out_edges v a) -> In a (map fst (vout v)).
Proof.
  unfold out_edges. destruct (assoc_nat (vout v) a) as [l|] eqn:E; [|intros []].
  intros _. apply assoc_nat_In in E. apply in_map_iff. exists (a, l). split; [reflexivity | exact E].
Qed.

Lemma neighbors_key v a b : In b (neighbors v a) -> In a (map fst (vout v)).
Proof.
  unfold neighbors. intros H. apply in_map_iff in H. destruct H as [x [_ Hx]]. eapply out_edges_key; eauto.
Qed.

(* ---- symmetric, loop_free ---- *)
Definition symmetricb (v : view) : bool :=
  forallb (fun a => forallb (fun b => mem a (neighbors v b)) (neighbors v a)) (map fst (vout v)).
Definition loop_freeb (v : view) : bool :=
  forallb (fun a => negb (mem a (neighbors v a))) (map fst (vout v)).

Lemma symmetricb_ok v : symmetricb v = true -> symmetric v.
Proof.
  unfold symmetricb, symmetric, step. rewrite forallb_forall. intros H a b Hab.
  specialize (H a (neighbors_key _ _ _ Hab)). rewrite forallb_forall in H. apply mem_In, H, Hab.
Qed.

Lemma loop_freeb_ok v : loop_freeb v = true -> loop_free v.
Proof.
  unfold loop_freeb, loop_free, step. rewrite forallb_forall. intros H a Ha.
  specialize (H a (neighbors_key _ _ _ Ha)). apply negb_true_iff, mem_false in H. contradiction.
Qed.

(* ---- equality of edge entries ---- *)
Definition eref_eqb (x y : eref) : bool :=
  Nat.eqb (eid x) (eid y) && Nat.eqb (tgt x) (tgt y) && Z.eqb (ewgt x) (ewgt y).
Definition memE (x : eref) (l : list eref) : bool := existsb (eref_eqb x) l.

Lemma eref_eqb_eq x y : eref_eqb x y = true <-> x = y.
Proof.
  destruct x as [[e t] w], y as [[e' t'] w']. unfold eref_eqb, eid, tgt, ewgt. cbn [fst snd].
  rewrite !andb_true_iff, !Nat.eqb_eq, Z.eqb_eq. split.
  - intros [[-> ->] ->]. reflexivity.
  - intros E. injection E as -> -> ->. auto.
Qed.

Lemma memE_In x l : memE x l = true <-> In x l.
Proof.
  unfold memE. rewrite existsb_exists. split.
  - intros [y [Hy E]]. apply eref_eqb_eq in E. subst y. exact Hy.
  - intros H. exists x. split; [exact H | apply eref_eqb_eq; reflexivity].
Qed.

(* ---- inout_ids_ok ---- *)
Definition inout_ids_okb (v : view) : bool :=
  forallb (fun b => forallb (fun x => memE (eid x, b, ewgt x) (out_edges v (tgt x))) (in_edges v b)) (vnodes v)
  && forallb (fun a => forallb (fun x => orb (negb (mem (tgt x) (vnodes v)))
                                             (memE (eid x, a, ewgt x) (in_edges v (tgt x))))
                               (out_edges v a)) (map fst (vout v)).

Lemma inout_ids_okb_ok v : inout_ids_okb v = true -> inout_ids_ok v.
Proof.
  unfold inout_ids_okb, inout_ids_ok. rewrite andb_true_iff, !forallb_forall. intros [H1 H2] a b e w Hb. split.
  - intros Hin. specialize (H1 b Hb). rewrite forallb_forall in H1. specialize (H1 _ Hin).
    cbn [eid tgt ewgt fst snd] in H1. apply memE_In, H1.
  - intros Hin. specialize (H2 a (out_edges_key _ _ _ Hin)). rewrite forallb_forall in H2.
    specialize (H2 _ Hin). cbn [eid tgt ewgt fst snd] in H2.
    apply orb_true_iff in H2. destruct H2 as [H2|H2].
    + apply negb_true_iff, mem_false in H2. contradiction.
    + apply memE_In, H2.
Qed.

(* ---- erefs_out_ok ---- *)
Definition erefs_out_okb (v : view) : bool :=
  forallb (fun '(e, a, t, w) => mem a (vnodes v) && memE (e, t, w) (out_edges v a)) (verefs v)
  && forallb (fun a => forallb (fun x => existsb (fun '(e, a', t, w) =>
                 Nat.eqb e (eid x) && Nat.eqb a' a && Nat.eqb t (tgt x) && Z.eqb w (ewgt x)) (verefs v))
                               (out_edges v a)) (vnodes v)
  && nodupb (edge_ids v).

Lemma erefs_out_okb_ok v : erefs_out_okb v = true -> erefs_out_ok v.
Proof.
  unfold erefs_out_okb, erefs_out_ok. rewrite !andb_true_iff, !forallb_forall, nodupb_iff.
  intros [[H1 H2] H3]. split; [|exact H3]. intros e a t w. split.
  - intros Hin. specialize (H1 _ Hin). cbn beta iota in H1. apply andb_true_iff in H1.
    destruct H1 as [Ha Hm]. split; [apply mem_In, Ha | apply memE_In, Hm].
  - intros [Ha Hin]. specialize (H2 a Ha). rewrite forallb_forall in H2. specialize (H2 _ Hin).
    apply existsb_exists in H2. destruct H2 as [[[[e' a'] t'] w'] [Hq E]].
    cbn [eid tgt ewgt fst snd] in E. rewrite !andb_true_iff, !Nat.eqb_eq, Z.eqb_eq in E.
    destruct E as [[[-> ->] ->] ->]. exact Hq.
Qed.

(* ---- no parallel edges: out-lists and in-lists without repeated neighbour ---- *)
Definition no_parallel_outb (v : view) : bool := forallb (fun a => nodupb (neighbors v a)) (map fst (vout v)).
Definition no_parallel_inb (v : view) : bool := forallb (fun b => nodupb (neighbors_in v b)) (vnodes v).

Lemma no_parallel_outb_ok v : no_parallel_outb v = true -> forall a, NoDup (neighbors v a).
Proof.
  unfold no_parallel_outb. rewrite forallb_forall. intros H a.
  destruct (neighbors v a) as [|b l] eqn:E; [constructor|].
  rewrite <- E. apply nodupb_iff, H. apply (neighbors_key v a b). rewrite E. left; reflexivity.
Qed.

Lemma no_parallel_inb_ok v : no_parallel_inb v = true -> forall b, In b (vnodes v) -> NoDup (neighbors_in v b).
Proof.
  unfold no_parallel_inb. rewrite forallb_forall. intros H b Hb. apply nodupb_iff, H, Hb.
Qed.
