(* StableGraph, second round: states of the same shape (weights replaced, links untouched),
   find_edge / find_edge_undirected (U1), try_update_edge (U2), map (F2), node / edge weight
   assignment. *)
From PG Require Import Lib.ListArr Lib.ListExtra Lib.Walk Model.GraphM Model.StableM
  Proofs.GraphP Proofs.GraphRE Proofs.StableP Proofs.StableE Proofs.StableH.
Set Implicit Arguments.

(* ------------------------------------------------------------------ *)
(* Generic facts                                                       *)

Lemma map_eq_nth {A B} (f : A -> B) (l l' : list A) i :
  map f l' = map f l ->
  match nth_error l' i, nth_error l i with
  | Some a', Some a => f a' = f a
  | None, None => True
  | _, _ => False
  end.
Proof.
  intros E. assert (H : option_map f (nth_error l' i) = option_map f (nth_error l i)).
  { rewrite <- !nth_error_map, E. reflexivity. }
  destruct (nth_error l' i), (nth_error l i); simpl in H; try discriminate; auto. congruence.
Qed.

Lemma nsome_isS {A B} (l' : list (option A)) : forall (l : list (option B)),
  map (@isS _) l' = map (@isS _) l -> nsome l' = nsome l.
Proof.
  induction l' as [|x l' IH]; intros [|y l] E; simpl in E; try discriminate; auto.
  injection E as E1 E2. destruct x, y; simpl in *; try discriminate; auto.
Qed.

Definition eqo (o : option nat) (b : nat) : bool :=
  match o with Some t => Nat.eqb t b | None => false end.

Lemma eqo_true o b : eqo o b = true <-> o = Some b.
Proof.
  destruct o as [t|]; simpl; [|split; discriminate].
  destruct (Nat.eqb_spec t b); split; intros H; congruence.
Qed.

(* ------------------------------------------------------------------ *)
(* States of the same shape                                            *)

Definition shape_eq (g g' : IG) : Prop :=
  map (fun n => isS (nwt n)) (gnodes g') = map (fun n => isS (nwt n)) (gnodes g) /\
  map (@nnext _) (gnodes g') = map (@nnext _) (gnodes g) /\
  map (fun e => isS (ewt e)) (gedges g') = map (fun e => isS (ewt e)) (gedges g) /\
  map (@enext _) (gedges g') = map (@enext _) (gedges g) /\
  map (@enode _) (gedges g') = map (@enode _) (gedges g).

Section Shape.
  Variables (g g' : IG).
  Hypothesis Sh : shape_eq g g'.

  Lemma sh_node i :
    match nth_error (gnodes g') i, nth_error (gnodes g) i with
    | Some n', Some n => isS (nwt n') = isS (nwt n) /\ nnext n' = nnext n
    | None, None => True
    | _, _ => False
    end.
  Proof.
    destruct Sh as [H1 [H2 _]].
    pose proof (map_eq_nth _ _ _ i H1) as A. pose proof (map_eq_nth _ _ _ i H2) as B.
    destruct (nth_error (gnodes g') i), (nth_error (gnodes g) i); auto.
  Qed.

  Lemma sh_edge x :
    match nth_error (gedges g') x, nth_error (gedges g) x with
    | Some e', Some e => isS (ewt e') = isS (ewt e) /\ enext e' = enext e /\ enode e' = enode e
    | None, None => True
    | _, _ => False
    end.
  Proof.
    destruct Sh as [_ [_ [H1 [H2 H3]]]].
    pose proof (map_eq_nth _ _ _ x H1) as A. pose proof (map_eq_nth _ _ _ x H2) as B.
    pose proof (map_eq_nth _ _ _ x H3) as C.
    destruct (nth_error (gedges g') x), (nth_error (gedges g) x); auto.
  Qed.

  Lemma sh_nlen : length (gnodes g') = length (gnodes g).
  Proof. destruct Sh as [_ [H _]]. eapply map_eq_length; eauto. Qed.

  Lemma sh_elen : length (gedges g') = length (gedges g).
  Proof. destruct Sh as [_ [_ [_ [H _]]]]. eapply map_eq_length; eauto. Qed.

  Lemma sh_nwo i : isS (nwo g' i) = isS (nwo g i).
  Proof.
    pose proof (sh_node i) as H. unfold nwo.
    destruct (nth_error (gnodes g') i), (nth_error (gnodes g) i); try contradiction; auto. tauto.
  Qed.

  Lemma sh_ewo x : isS (ewo g' x) = isS (ewo g x).
  Proof.
    pose proof (sh_edge x) as H. unfold ewo.
    destruct (nth_error (gedges g') x), (nth_error (gedges g) x); try contradiction; auto. tauto.
  Qed.

  Lemma sh_nwo_none i : nwo g' i = None <-> nwo g i = None.
  Proof. pose proof (sh_nwo i) as H. destruct (nwo g' i), (nwo g i); simpl in H; split; congruence. Qed.

  Lemma sh_ewo_none x : ewo g' x = None <-> ewo g x = None.
  Proof. pose proof (sh_ewo x) as H. destruct (ewo g' x), (ewo g x); simpl in H; split; congruence. Qed.

  Lemma sh_nwo_live i : nwo g' i <> None <-> nwo g i <> None.
  Proof. pose proof (sh_nwo_none i). tauto. Qed.

  Lemma sh_ewo_live x : ewo g' x <> None <-> ewo g x <> None.
  Proof. pose proof (sh_ewo_none x). tauto. Qed.

  Lemma sh_hdn k i : hdn (gnodes g') k i = hdn (gnodes g) k i.
  Proof.
    pose proof (sh_node i) as H. unfold hdn.
    destruct (nth_error (gnodes g') i), (nth_error (gnodes g) i); try contradiction; auto.
    simpl. destruct H as [_ ->]. reflexivity.
  Qed.

  Lemma sh_nxe k x : nxe (gedges g') k x = nxe (gedges g) k x.
  Proof.
    pose proof (sh_edge x) as H. unfold nxe.
    destruct (nth_error (gedges g') x), (nth_error (gedges g) x); try contradiction; auto.
    simpl. destruct H as [_ [-> _]]. reflexivity.
  Qed.

  Lemma sh_epo k x : epo (gedges g') k x = epo (gedges g) k x.
  Proof.
    pose proof (sh_edge x) as H. unfold epo.
    destruct (nth_error (gedges g') x), (nth_error (gedges g) x); try contradiction; auto.
    simpl. destruct H as [_ [_ ->]]. reflexivity.
  Qed.

  Lemma sh_fnx i : fnx g' i = fnx g i.
  Proof.
    pose proof (sh_node i) as H. unfold fnx.
    destruct (nth_error (gnodes g') i) as [n'|], (nth_error (gnodes g) i) as [n|]; try contradiction; auto.
    destruct H as [H1 H2]. rewrite H2. destruct (nwt n'), (nwt n); simpl in H1; try discriminate; auto.
  Qed.

  Lemma sh_fex x : fex g' x = fex g x.
  Proof.
    pose proof (sh_edge x) as H. unfold fex.
    destruct (nth_error (gedges g') x) as [e'|], (nth_error (gedges g) x) as [e|]; try contradiction; auto.
    destruct H as [H1 [H2 _]]. rewrite H2. destruct (ewt e'), (ewt e); simpl in H1; try discriminate; auto.
  Qed.

  Lemma sh_nsome_n : nsome (map (@nwt _) (gnodes g')) = nsome (map (@nwt _) (gnodes g)).
  Proof. apply nsome_isS. rewrite !map_map. apply Sh. Qed.

  Lemma sh_nsome_e : nsome (map (@ewt _) (gedges g')) = nsome (map (@ewt _) (gedges g)).
  Proof. apply nsome_isS. rewrite !map_map. apply Sh. Qed.

  Lemma sh_adj cap k i l : adj cap g k i l <-> adj cap g' k i l.
  Proof.
    rewrite !adj_hdn. rewrite sh_hdn.
    split; intros [h [Hh H]]; exists h; (split; [exact Hh|]);
      (eapply lseg_ext; [|exact H]); intros x; [apply sh_nxe|symmetry; apply sh_nxe].
  Qed.
End Shape.

Lemma shape_eq_refl g : shape_eq g g.
Proof. repeat split. Qed.

Lemma shape_SInv cap s g' : shape_eq (sg s) g' -> SInv cap s -> SInv cap (with_g s g').
Proof.
  intros Sh I. set (g := sg s) in *. pose proof (si_g I) as G. fold g in G.
  constructor; cbn [with_g sg ncount ecount free_node free_edge].
  - constructor.
    + rewrite (sh_nlen Sh). apply (sgi_ncap G).
    + rewrite (sh_elen Sh). apply (sgi_ecap G).
    + intros k x i Hx Hep. apply lv_None. apply (sh_nwo_live Sh).
      apply lv_None. apply (sgi_ends G k x).
      * apply (sh_ewo_live Sh). exact Hx.
      * rewrite <- (sh_epo Sh). exact Hep.
    + intros k i Hi. apply lv_None in Hi. apply (sh_nwo_live Sh) in Hi.
      destruct (sgi_adj G k (proj2 (lv_None g i) Hi)) as [l [Hl C]].
      exists l. split; [apply (sh_adj Sh); exact Hl|].
      intros x. rewrite C, (sh_epo Sh). pose proof (sh_ewo_live Sh x). tauto.
  - intros a H. discriminate.
  - rewrite (sh_nsome_n Sh). apply (si_nc I).
  - rewrite (sh_nsome_e Sh). apply (si_ec I).
  - destruct (si_fn I) as [l [Hl [Hb C]]]. fold g in Hl, Hb, C. exists l. split; [|split].
    + eapply lseg_ext; [|exact Hl]. intros x. apply (sh_fnx Sh).
    + eapply bkp_frame; [|exact Hb]. intros x _. apply (sh_hdn Sh).
    + intros i. rewrite C, (sh_nlen Sh). pose proof (sh_nwo_none Sh i). tauto.
  - destruct (si_fe I) as [l [Hl C]]. fold g in Hl, C. exists l. split.
    + eapply lseg_ext; [|exact Hl]. intros x. apply (sh_fex Sh).
    + intros x. rewrite C, (sh_elen Sh). pose proof (sh_ewo_none Sh x). tauto.
Qed.

(* ------------------------------------------------------------------ *)
(* Assigning the weight of a live edge / a live node                   *)

Definition set_ew (g : IG) (ix w : nat) : IG :=
  match nth_error (gedges g) ix with
  | Some ed => mkGraph (gnodes g) (upd (gedges g) ix (mkEdge (Some w) (enext ed) (enode ed)))
  | None => g
  end.

Definition set_nw (g : IG) (a w : nat) : IG :=
  match nth_error (gnodes g) a with
  | Some n => mkGraph (upd (gnodes g) a (mkNode (Some w) (nnext n))) (gedges g)
  | None => g
  end.

Lemma set_ew_shape g ix w : ewo g ix <> None -> shape_eq g (set_ew g ix w).
Proof.
  intros Hl. unfold set_ew. unfold ewo in Hl.
  destruct (nth_error (gedges g) ix) as [ed|] eqn:E; [|apply shape_eq_refl].
  unfold shape_eq. cbn [gnodes gedges]. split; [reflexivity|]. split; [reflexivity|].
  split; [|split].
  - eapply map_upd_same; [exact E|]. cbn [ewt]. destruct (ewt ed); [reflexivity|congruence].
  - eapply map_upd_same; [exact E|]. reflexivity.
  - eapply map_upd_same; [exact E|]. reflexivity.
Qed.

Lemma set_nw_shape g a w : nwo g a <> None -> shape_eq g (set_nw g a w).
Proof.
  intros Hl. unfold set_nw. unfold nwo in Hl.
  destruct (nth_error (gnodes g) a) as [n|] eqn:E; [|apply shape_eq_refl].
  unfold shape_eq. cbn [gnodes gedges]. split; [|split; [|repeat split]].
  - eapply map_upd_same; [exact E|]. cbn [nwt]. destruct (nwt n); [reflexivity|congruence].
  - eapply map_upd_same; [exact E|]. reflexivity.
Qed.

Lemma set_ew_ewo g ix w x : ewo g ix <> None ->
  ewo (set_ew g ix w) x = if Nat.eqb x ix then Some w else ewo g x.
Proof.
  intros Hl. unfold set_ew. unfold ewo in Hl.
  destruct (nth_error (gedges g) ix) as [ed|] eqn:E; [|congruence].
  unfold ewo. cbn [gedges]. rewrite nth_error_upd. rewrite (Nat.eqb_sym x ix).
  destruct (Nat.eqb_spec ix x) as [<-|Hne]; [|reflexivity].
  destruct (Nat.ltb_spec ix (length (gedges g))) as [_|H]; [reflexivity|].
  exfalso. apply nth_error_Some_lt in E. lia.
Qed.

Lemma set_nw_nwo g a w j : nwo g a <> None ->
  nwo (set_nw g a w) j = if Nat.eqb j a then Some w else nwo g j.
Proof.
  intros Hl. unfold set_nw. unfold nwo in Hl.
  destruct (nth_error (gnodes g) a) as [n|] eqn:E; [|congruence].
  unfold nwo. cbn [gnodes]. rewrite nth_error_upd. rewrite (Nat.eqb_sym j a).
  destruct (Nat.eqb_spec a j) as [<-|Hne]; [|reflexivity].
  destruct (Nat.ltb_spec a (length (gnodes g))) as [_|H]; [reflexivity|].
  exfalso. apply nth_error_Some_lt in E. lia.
Qed.

Lemma set_ew_nodes g ix w : gnodes (set_ew g ix w) = gnodes g.
Proof. unfold set_ew. destruct (nth_error (gedges g) ix); reflexivity. Qed.

Lemma set_nw_edges g a w : gedges (set_nw g a w) = gedges g.
Proof. unfold set_nw. destruct (nth_error (gnodes g) a); reflexivity. Qed.

(* everything a same-shape replacement preserves, in the vocabulary of the invariant *)
Record same_links (cap : nat) (s s' : sgraph) : Prop := {
  sl_nlen : length (gnodes (sg s')) = length (gnodes (sg s));
  sl_elen : length (gedges (sg s')) = length (gedges (sg s));
  sl_nlive : forall j, nwo (sg s') j = None <-> nwo (sg s) j = None;
  sl_elive : forall x, ewo (sg s') x = None <-> ewo (sg s) x = None;
  sl_epo : forall k x, epo (gedges (sg s')) k x = epo (gedges (sg s)) k x;
  sl_adj : forall k i l, adj cap (sg s) k i l <-> adj cap (sg s') k i l;
  sl_fnx : forall i, fnx (sg s') i = fnx (sg s) i;
  sl_fex : forall x, fex (sg s') x = fex (sg s) x;
  sl_bk : forall i, hdn (gnodes (sg s')) 1 i = hdn (gnodes (sg s)) 1 i;
  sl_nc : ncount s' = ncount s;
  sl_ec : ecount s' = ecount s;
  sl_fn : free_node s' = free_node s;
  sl_fe : free_edge s' = free_edge s
}.

Lemma shape_same_links cap s g' : shape_eq (sg s) g' -> same_links cap s (with_g s g').
Proof.
  intros Sh. constructor; cbn [with_g sg ncount ecount free_node free_edge]; try reflexivity.
  - apply (sh_nlen Sh).
  - apply (sh_elen Sh).
  - apply (sh_nwo_none Sh).
  - apply (sh_ewo_none Sh).
  - apply (sh_epo Sh).
  - intros k i l. apply (sh_adj Sh).
  - apply (sh_fnx Sh).
  - apply (sh_fex Sh).
  - intros i. apply (sh_hdn Sh).
Qed.

(* ------------------------------------------------------------------ *)
(* F2: map                                                             *)

Lemma s_map_shape f s : shape_eq (sg s) (sg (s_map f s)).
Proof.
  unfold s_map, shape_eq. cbn [with_g sg gnodes gedges]. rewrite !map_map. cbn [nwt nnext ewt enext enode].
  repeat split; try reflexivity; apply map_ext; intros x.
  - destruct (nwt x); reflexivity.
  - destruct (ewt x); reflexivity.
Qed.

Lemma s_map_nwo f s j : nwo (sg (s_map f s)) j = option_map f (nwo (sg s) j).
Proof.
  unfold s_map, nwo. cbn [with_g sg gnodes]. rewrite nth_error_map.
  destruct (nth_error (gnodes (sg s)) j); reflexivity.
Qed.

Lemma s_map_ewo f s x : ewo (sg (s_map f s)) x = option_map f (ewo (sg s) x).
Proof.
  unfold s_map, ewo. cbn [with_g sg gedges]. rewrite nth_error_map.
  destruct (nth_error (gedges (sg s)) x); reflexivity.
Qed.

Theorem s_map_spec cap f s :
  SInv cap s ->
  SInv cap (s_map f s) /\
  (forall j, nwo (sg (s_map f s)) j = option_map f (nwo (sg s) j)) /\
  (forall x, ewo (sg (s_map f s)) x = option_map f (ewo (sg s) x)) /\
  same_links cap s (s_map f s).
Proof.
  intros I. pose proof (s_map_shape f s) as Sh.
  assert (E : s_map f s = with_g s (sg (s_map f s))) by reflexivity.
  split; [rewrite E; apply shape_SInv; auto|].
  split; [apply s_map_nwo|]. split; [apply s_map_ewo|].
  rewrite E at 1. rewrite E at 1. apply shape_same_links. exact Sh.
Qed.

(* ------------------------------------------------------------------ *)
(* U1: find_edge                                                       *)

Lemma find_walk_lseg_s (es : list (edge (option nat))) k b h l t :
  nxe es k t = None -> lseg (nxe es k) h l t ->
  forall fuel, length l < fuel ->
  find_walk fuel es h k b = Ok (find (fun x => eqo (epo es (1 - k) x) b) l).
Proof.
  intros Ht H; induction H as [h | h h' l t Hh Hl IH]; intros fuel Hf;
    (destruct fuel as [|f]; [simpl in Hf; lia|]); cbn [find_walk find].
  - unfold nxe in Ht. destruct (nth_error es h) eqn:E; [discriminate Ht|reflexivity].
  - destruct (nxe_Some_nth' _ _ _ Hh) as [ed [E1 E2]]. unfold epo. rewrite E1.
    cbn [option_map eqo].
    destruct (Nat.eqb (sel (enode ed) (1 - k)) b); auto.
    rewrite E2. apply IH; auto. simpl in Hf. lia.
Qed.

Section Find.
  Variable cap : nat.
  Notation adj := (@adj (option nat) (option nat) cap).
  Notation SInv := (SInv cap).

  (* the predicate tested along the direction-k list: the other endpoint is b *)
  Definition other_is (g : IG) (k b x : nat) : bool := eqo (epo (gedges g) (1 - k) x) b.

  Lemma get_node_live s a : nwo (sg s) a <> None ->
    exists n, get_node s a = Some n /\ nth_error (gnodes (sg s)) a = Some n.
  Proof.
    intros H. unfold get_node. unfold nwo in H.
    destruct (nth_error (gnodes (sg s)) a) as [n|]; [|congruence].
    destruct (nwt n); [eauto|congruence].
  Qed.

  Lemma get_node_vacant s a : nwo (sg s) a = None -> get_node s a = None.
  Proof.
    intros H. unfold get_node. unfold nwo in H.
    destruct (nth_error (gnodes (sg s)) a) as [n|]; auto. rewrite H. reflexivity.
  Qed.

  Lemma s_find_walk s k a b l n :
    SInv s -> adj (sg s) k a l -> nth_error (gnodes (sg s)) a = Some n ->
    find_walk (fuel_of (sg s)) (gedges (sg s)) (sel (nnext n) k) k b =
      Ok (find (other_is (sg s) k b) l).
  Proof.
    intros I Hadj Hn. pose proof (sgi_ecap (si_g I)) as Hc.
    pose proof (adj_length Hc Hadj) as Hlen.
    destruct Hadj as [n' [Hn' H]]. assert (n' = n) by congruence. subst n'.
    eapply find_walk_lseg_s; eauto.
    - apply nxe_oob; auto.
    - unfold fuel_of. lia.
  Qed.

  Theorem s_find_edge_undirected_lists s a b lo li :
    SInv s -> nwo (sg s) a <> None -> adj (sg s) 0 a lo -> adj (sg s) 1 a li ->
    s_find_edge_undirected s a b =
      Ok match find (other_is (sg s) 0 b) lo with
         | Some e => Some (e, 0)
         | None => option_map (fun e => (e, 1)) (find (other_is (sg s) 1 b) li)
         end.
  Proof.
    intros I La Ho Hi. destruct (get_node_live s a La) as [n [Hg Hn]].
    unfold s_find_edge_undirected. rewrite Hg. unfold find_edge_undirected. rewrite Hn.
    change (fst (nnext n)) with (sel (nnext n) 0). change (snd (nnext n)) with (sel (nnext n) 1).
    rewrite (s_find_walk b I Ho Hn). cbn [rbind].
    destruct (find (other_is (sg s) 0 b) lo); [reflexivity|].
    rewrite (s_find_walk b I Hi Hn). reflexivity.
  Qed.

  Theorem s_find_edge_lists directed s a b lo li :
    SInv s -> nwo (sg s) a <> None -> adj (sg s) 0 a lo -> adj (sg s) 1 a li ->
    s_find_edge directed s a b =
      Ok match find (other_is (sg s) 0 b) lo with
         | Some e => Some e
         | None => if directed then None else find (other_is (sg s) 1 b) li
         end.
  Proof.
    intros I La Ho Hi. destruct (get_node_live s a La) as [n [Hg Hn]].
    unfold s_find_edge. rewrite Hg. unfold find_edge. destruct directed.
    - rewrite Hn. change (fst (nnext n)) with (sel (nnext n) 0).
      rewrite (s_find_walk b I Ho Hn). destruct (find (other_is (sg s) 0 b) lo); reflexivity.
    - pose proof (s_find_edge_undirected_lists b I La Ho Hi) as E.
      unfold s_find_edge_undirected in E. rewrite Hg in E. rewrite E. cbn [rmap].
      destruct (find (other_is (sg s) 0 b) lo); [reflexivity|].
      destruct (find (other_is (sg s) 1 b) li); reflexivity.
  Qed.

  Theorem s_find_edge_vacant directed s a b :
    nwo (sg s) a = None ->
    s_find_edge directed s a b = Ok None /\ s_find_edge_undirected s a b = Ok None.
  Proof.
    intros H. unfold s_find_edge, s_find_edge_undirected. rewrite (get_node_vacant s a H). auto.
  Qed.

  (* [joins g x a b]: x is a live edge from a to b *)
  Definition joins (g : IG) (x a b : nat) : Prop :=
    ewo g x <> None /\ epo (gedges g) 0 x = Some a /\ epo (gedges g) 1 x = Some b.

  Lemma lists_exist s a : SInv s -> nwo (sg s) a <> None ->
    exists lo li, adj (sg s) 0 a lo /\ adj (sg s) 1 a li /\
      (forall x, In x lo <-> (ewo (sg s) x <> None /\ epo (gedges (sg s)) 0 x = Some a)) /\
      (forall x, In x li <-> (ewo (sg s) x <> None /\ epo (gedges (sg s)) 1 x = Some a)).
  Proof.
    intros I La. pose proof (proj2 (lv_None (sg s) a) La) as Lv.
    destruct (sgi_adj (si_g I) 0 Lv) as [lo [Ho Co]].
    destruct (sgi_adj (si_g I) 1 Lv) as [li [Hi Ci]].
    exists lo, li. auto.
  Qed.

  Lemma find_out_some s a b lo e :
    (forall x, In x lo <-> (ewo (sg s) x <> None /\ epo (gedges (sg s)) 0 x = Some a)) ->
    find (other_is (sg s) 0 b) lo = Some e -> joins (sg s) e a b.
  Proof.
    intros C H. apply find_some in H. destruct H as [Hin Hb]. apply C in Hin.
    destruct Hin as [Hl Ha]. unfold other_is in Hb. apply eqo_true in Hb. split; auto.
  Qed.

  Lemma find_in_some s a b li e :
    (forall x, In x li <-> (ewo (sg s) x <> None /\ epo (gedges (sg s)) 1 x = Some a)) ->
    find (other_is (sg s) 1 b) li = Some e -> joins (sg s) e b a.
  Proof.
    intros C H. apply find_some in H. destruct H as [Hin Hb]. apply C in Hin.
    destruct Hin as [Hl Ha]. unfold other_is in Hb. apply eqo_true in Hb. split; auto.
  Qed.

  Lemma find_out_none s a b lo :
    (forall x, In x lo <-> (ewo (sg s) x <> None /\ epo (gedges (sg s)) 0 x = Some a)) ->
    find (other_is (sg s) 0 b) lo = None -> forall x, ~ joins (sg s) x a b.
  Proof.
    intros C H x [Hl [Ha Hb]].
    assert (Hin : In x lo) by (apply C; auto).
    pose proof (find_none _ _ H x Hin) as Hf. unfold other_is in Hf.
    change (1 - 0) with 1 in Hf. rewrite Hb in Hf. simpl in Hf. rewrite Nat.eqb_refl in Hf. discriminate.
  Qed.

  Lemma find_in_none s a b li :
    (forall x, In x li <-> (ewo (sg s) x <> None /\ epo (gedges (sg s)) 1 x = Some a)) ->
    find (other_is (sg s) 1 b) li = None -> forall x, ~ joins (sg s) x b a.
  Proof.
    intros C H x [Hl [Hb Ha]].
    assert (Hin : In x li) by (apply C; auto).
    pose proof (find_none _ _ H x Hin) as Hf. unfold other_is in Hf.
    change (1 - 1) with 0 in Hf. rewrite Hb in Hf. simpl in Hf. rewrite Nat.eqb_refl in Hf. discriminate.
  Qed.

  Lemma vacant_no_edge s a : SInv s -> nwo (sg s) a = None ->
    forall k x, ewo (sg s) x <> None -> epo (gedges (sg s)) k x <> Some a.
  Proof.
    intros I Hv k x Hx Hep. pose proof (sgi_ends (si_g I) k x Hx Hep) as L.
    apply lv_None in L. contradiction.
  Qed.

  (* soundness and completeness against the live edges *)
  Theorem s_find_edge_sound_complete directed s a b :
    SInv s ->
    exists o, s_find_edge directed s a b = Ok o /\
      match o with
      | Some e => joins (sg s) e a b \/
                  (directed = false /\ joins (sg s) e b a /\ forall x, ~ joins (sg s) x a b)
      | None => forall x, ~ joins (sg s) x a b /\ (directed = false -> ~ joins (sg s) x b a)
      end.
  Proof.
    intros I. destruct (nwo (sg s) a) as [wa|] eqn:Ea.
    - assert (La : nwo (sg s) a <> None) by congruence.
      destruct (lists_exist a I La) as [lo [li [Ho [Hi [Co Ci]]]]].
      rewrite (s_find_edge_lists directed b I La Ho Hi).
      eexists; split; [reflexivity|].
      destruct (find (other_is (sg s) 0 b) lo) as [e|] eqn:Fo.
      + left. eapply find_out_some; eauto.
      + destruct directed.
        * intros x. split; [eapply find_out_none; eauto|discriminate].
        * destruct (find (other_is (sg s) 1 b) li) as [e|] eqn:Fi.
          -- right. split; auto. split; [eapply find_in_some; eauto|eapply find_out_none; eauto].
          -- intros x. split; [eapply find_out_none; eauto|]. intros _. eapply find_in_none; eauto.
    - rewrite (proj1 (s_find_edge_vacant directed s a b Ea)). eexists; split; [reflexivity|].
      intros x. split.
      + intros [Hl [Ha _]]. eapply (vacant_no_edge I Ea); eauto.
      + intros _ [Hl [_ Ha]]. eapply (vacant_no_edge I Ea); eauto.
  Qed.

  Theorem s_find_edge_undirected_sound_complete s a b :
    SInv s ->
    exists o, s_find_edge_undirected s a b = Ok o /\
      match o with
      | Some (e, k) => (k = 0 /\ joins (sg s) e a b) \/
                       (k = 1 /\ joins (sg s) e b a /\ forall x, ~ joins (sg s) x a b)
      | None => forall x, ~ joins (sg s) x a b /\ ~ joins (sg s) x b a
      end.
  Proof.
    intros I. destruct (nwo (sg s) a) as [wa|] eqn:Ea.
    - assert (La : nwo (sg s) a <> None) by congruence.
      destruct (lists_exist a I La) as [lo [li [Ho [Hi [Co Ci]]]]].
      rewrite (s_find_edge_undirected_lists b I La Ho Hi).
      eexists; split; [reflexivity|].
      destruct (find (other_is (sg s) 0 b) lo) as [e|] eqn:Fo.
      + left. split; auto. eapply find_out_some; eauto.
      + destruct (find (other_is (sg s) 1 b) li) as [e|] eqn:Fi; cbn [option_map].
        * right. split; auto. split; [eapply find_in_some; eauto|eapply find_out_none; eauto].
        * intros x. split; [eapply find_out_none; eauto|eapply find_in_none; eauto].
    - rewrite (proj2 (s_find_edge_vacant true s a b Ea)). eexists; split; [reflexivity|].
      intros x. split.
      + intros [Hl [Ha _]]. eapply (vacant_no_edge I Ea); eauto.
      + intros [Hl [_ Ha]]. eapply (vacant_no_edge I Ea); eauto.
  Qed.

  (* ------------------------------------------------------------------ *)
  (* U2: try_update_edge                                                 *)
  Variable capcheck : bool.
  Variable debug : bool.

  Lemma upd_edge_set_ew (g : IG) ix w : ewo g ix <> None ->
    upd_edge g ix (fun e => mkEdge (Some w) (enext e) (enode e)) = Ok (set_ew g ix w).
  Proof.
    intros H. unfold upd_edge, set_ew. unfold ewo in H.
    destruct (nth_error (gedges g) ix); [reflexivity|congruence].
  Qed.

  Lemma upd_node_set_nw (g : IG) a w : nwo g a <> None ->
    upd_node g a (fun n => mkNode (Some w) (nnext n)) = Ok (set_nw g a w).
  Proof.
    intros H. unfold upd_node, set_nw. unfold nwo in H.
    destruct (nth_error (gnodes g) a); [reflexivity|congruence].
  Qed.

  Theorem set_ew_spec s ix w :
    SInv s -> ewo (sg s) ix <> None ->
    let s' := with_g s (set_ew (sg s) ix w) in
    SInv s' /\
    (forall x, ewo (sg s') x = if Nat.eqb x ix then Some w else ewo (sg s) x) /\
    (forall j, nwo (sg s') j = nwo (sg s) j) /\
    gnodes (sg s') = gnodes (sg s) /\
    same_links cap s s'.
  Proof.
    intros I Hl s'. pose proof (set_ew_shape (sg s) ix w Hl) as Sh.
    split; [apply shape_SInv; auto|]. split; [intros x; apply set_ew_ewo; auto|].
    split; [|split].
    - intros j. unfold s', nwo. cbn [with_g sg]. rewrite set_ew_nodes. reflexivity.
    - apply set_ew_nodes.
    - apply shape_same_links. exact Sh.
  Qed.

  Theorem set_nw_spec s a w :
    SInv s -> nwo (sg s) a <> None ->
    let s' := with_g s (set_nw (sg s) a w) in
    SInv s' /\
    (forall j, nwo (sg s') j = if Nat.eqb j a then Some w else nwo (sg s) j) /\
    (forall x, ewo (sg s') x = ewo (sg s) x) /\
    gedges (sg s') = gedges (sg s) /\
    same_links cap s s'.
  Proof.
    intros I Hl s'. pose proof (set_nw_shape (sg s) a w Hl) as Sh.
    split; [apply shape_SInv; auto|]. split; [intros x; apply set_nw_nwo; auto|].
    split; [|split].
    - intros j. unfold s', ewo. cbn [with_g sg]. rewrite set_nw_edges. reflexivity.
    - apply set_nw_edges.
    - apply shape_same_links. exact Sh.
  Qed.

  Theorem s_try_update_edge_spec directed s a b w :
    SInv s ->
    exists o, s_find_edge directed s a b = Ok o /\
      match o with
      | Some ix =>
          ewo (sg s) ix <> None /\
          s_try_update_edge cap capcheck debug directed s a b w
            = Ok (inr ix, with_g s (set_ew (sg s) ix w))
      | None =>
          s_try_update_edge cap capcheck debug directed s a b w
            = s_try_add_edge cap capcheck debug s a b w
      end.
  Proof.
    intros I. destruct (s_find_edge_sound_complete directed a b I) as [o [Hf Ho]].
    exists o. split; auto. unfold s_try_update_edge. rewrite Hf. cbn [rbind].
    destruct o as [ix|]; [|reflexivity].
    assert (Hl : ewo (sg s) ix <> None).
    { destruct Ho as [[H _]|[_ [[H _] _]]]; exact H. }
    split; auto. rewrite (upd_edge_set_ew _ _ w Hl). unfold ewo in Hl.
    destruct (nth_error (gedges (sg s)) ix) as [ed|]; [|congruence].
    destruct (ewt ed); [reflexivity|congruence].
  Qed.
End Find.
