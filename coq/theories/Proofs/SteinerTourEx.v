(* C20g: examples.  The witness of C20e is an undirected view: the theorems apply.  A directed 4-cycle
   satisfies SOk and SimpleRefs but is not Undirected: there the mirror's only result is heavier than twice
   the optimum (the optimum of steiner_opt ignores edge directions), so the hypothesis Undirected is needed. *)
From Coq Require Import Lia ZArith List Bool.
From PG Require Import Lib.Io Model.View Model.ShortestM Model.MiscM Model.SteinerM
  Spec.Forest Spec.MiscSpec Spec.Paths Spec.EPaths
  Proofs.SteinerMP1 Proofs.SteinerMP Proofs.SteinerMW Proofs.SteinerMEx Proofs.SteinerTour Proofs.SteinerTourR.
Import ListNotations.
Local Open Scope nat_scope.

Example w_undirected : Undirected w_view.
Proof. apply undirected_flag. reflexivity. Qed.

(* a spanning tree of the closure within twice the optimum 6 *)
Example w_closure_tree :
  metric_closure w_view w_T = Ok [(3, 2, 2%Z); (3, 5, 4%Z); (3, 1, 2%Z); (2, 5, 4%Z); (2, 1, 1%Z); (5, 1, 4%Z)] /\
  steiner_opt w_view w_T = Some 6%Z /\
  In [(3, 2, 2%Z); (3, 5, 4%Z); (2, 1, 1%Z)]
     (closure_trees 6 4 [(3, 2, 2%Z); (3, 5, 4%Z); (3, 1, 2%Z); (2, 5, 4%Z); (2, 1, 1%Z); (5, 1, 4%Z)]) /\
  Z.le (sumw [(3, 2, 2%Z); (3, 5, 4%Z); (2, 1, 1%Z)]) (2 * 6)%Z.
Proof. vm_compute. repeat split; try reflexivity; [|discriminate]. auto 20. Qed.

Example w_check_0 : forall nodes es, steiner_possible w_view w_T nodes es = true ->
  steiner_check w_view w_T nodes es = 0.
Proof.
  intros nodes es E. apply (possible_implies_check_0 w_view w_T nodes es E); [vm_compute; lia | exact w_sok | exact w_simple | exact w_undirected].
Qed.

Example w_two_approx : forall nodes es, SteinerRun w_view w_T nodes es -> (sumw es <= 12)%Z.
Proof.
  intros nodes es [cl [d [prev [tree [E1 [E2 [Ht Es]]]]]]].
  apply (steiner_two_approx w_view w_T cl d prev tree nodes es 6%Z w_sok w_simple w_undirected E1 E2 Ht Es).
  vm_compute. reflexivity.
Qed.

(* the directed 4-cycle 0 -> 1 -> 2 -> 3 -> 0, unit weights; terminals 1, 0 *)
Definition d_view : view :=
  mkView true 4 None [0; 1; 2; 3]
    [(0, [(0, 1, 1%Z)]); (1, [(1, 2, 1%Z)]); (2, [(2, 3, 1%Z)]); (3, [(3, 0, 1%Z)])]
    [] 4 4
    [(0, 0, 1, 1%Z); (1, 1, 2, 1%Z); (2, 2, 3, 1%Z); (3, 3, 0, 1%Z)].
Definition d_T : list nat := [1; 0].

Example d_sok : SOk d_view d_T.
Proof.
  apply (sok_b_ok d_view d_T 1%Z 0 [([(1, 1%Z)], [(2, 1%Z); (3, 1%Z); (0, 1%Z)]); ([], [])]).
  vm_compute. reflexivity.
Qed.

Example d_simple : SimpleRefs d_view.
Proof. unfold SimpleRefs. vm_compute. repeat constructor; cbn [In]; intuition congruence. Qed.

Example d_not_undirected : ~ Undirected d_view.
Proof.
  intros HU. assert (Hs : estep d_view 0 1 1%Z) by (apply estep_b_ok; vm_compute; reflexivity).
  apply HU, estep_b_ok in Hs. vm_compute in Hs. discriminate Hs.
Qed.

(* the closure holds dist(1, 0) = 3, the only result is the path 1 -> 2 -> 3 -> 0 of weight 3, while the tree
   made of the edge 0 -> 1 alone weighs 1: verdict 5 *)
Example d_counterexample :
  metric_closure d_view d_T = Ok [(1, 0, 3%Z)] /\
  closure_trees 4 2 [(1, 0, 3%Z)] = [[(1, 0, 3%Z)]] /\
  steiner_opt d_view d_T = Some 1%Z /\
  steiner_outputs d_view d_T = Ok [([0; 1; 2; 3], [(1, 2, 1%Z); (2, 3, 1%Z); (3, 0, 1%Z)])] /\
  steiner_possible d_view d_T [0; 1; 2; 3] [(1, 2, 1%Z); (2, 3, 1%Z); (3, 0, 1%Z)] = true /\
  steiner_check d_view d_T [0; 1; 2; 3] [(1, 2, 1%Z); (2, 3, 1%Z); (3, 0, 1%Z)] = 5.
Proof. vm_compute. repeat split; reflexivity. Qed.
