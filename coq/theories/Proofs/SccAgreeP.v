(* tarjan_scc and kosaraju_scc report the same components: two lists of classes of mutual
   reachability that both cover the nodes hold the same classes (as sets), and when both
   are duplicate-free they have the same number of them. *)
From Coq Require Import NArith.
From PG Require Import Lib.Io Model.View Model.Traversal Model.AlgoBasic Spec.Reach Spec.AlgoSpec
                       Proofs.KosarajuP Proofs.TarjanP Proofs.TarjanExactP.

Lemma mutual_sym v a b : mutual v a b -> mutual v b a.
Proof. intros [H1 H2]. split; assumption. Qed.

Lemma mutual_trans v a b c : mutual v a b -> mutual v b c -> mutual v a c.
Proof. intros [H1 H2] [H3 H4]. split; eapply reachable_trans; eauto. Qed.

(* two members of a class are mutually reachable, and a class holds whatever is mutually
   reachable with one of its members *)
Lemma class_mutual v c a b : scc_class v c -> In a c -> In b c -> mutual v a b.
Proof.
  intros [r [_ H]] Ha Hb. apply H in Ha. apply H in Hb.
  apply (mutual_trans v a r b (mutual_sym v r a Ha) Hb).
Qed.

Lemma class_closed v c a b : scc_class v c -> In a c -> mutual v a b -> In b c.
Proof.
  intros [r [_ H]] Ha Hab. apply H. apply H in Ha. apply (mutual_trans v r a b Ha Hab).
Qed.

Lemma class_nonempty v c : scc_class v c -> exists r, In r c /\ In r (vnodes v).
Proof. intros [r [Nr H]]. exists r. split; [apply H; apply mutual_refl | exact Nr]. Qed.

(* the same sets *)
Lemma classes_match v l1 l2 :
  Forall (scc_class v) l1 -> Forall (scc_class v) l2 ->
  (forall x, In x (vnodes v) -> In x (concat l2)) ->
  forall c, In c l1 -> exists c', In c' l2 /\ forall z, In z c <-> In z c'.
Proof.
  intros H1 H2 Hcov c Hc. rewrite Forall_forall in H1, H2.
  destruct (class_nonempty v c (H1 c Hc)) as [r [Hr Nr]].
  apply Hcov in Nr. apply in_concat in Nr. destruct Nr as [c' [Hc' Hr']].
  exists c'. split; [exact Hc'|]. intros z. split.
  - intros Hz. apply (class_closed v c' r z (H2 c' Hc') Hr'). apply (class_mutual v c r z (H1 c Hc) Hr Hz).
  - intros Hz. apply (class_closed v c r z (H1 c Hc) Hr). apply (class_mutual v c' r z (H2 c' Hc') Hr' Hz).
Qed.

(* counting: an injection between lists *)
Lemma pigeon {A B} (R : A -> B -> Prop) : forall (l1 : list A) (l2 : list B),
  ForallOrdPairs (fun a1 a2 => forall b, R a1 b -> R a2 b -> False) l1 ->
  (forall a, In a l1 -> exists b, In b l2 /\ R a b) ->
  length l1 <= length l2.
Proof.
  induction l1 as [|a l1 IH]; intros l2 Hp Hex; [cbn [length]; lia|].
  inversion Hp as [|a' l' Ha Hp']; subst.
  destruct (Hex a (or_introl eq_refl)) as [b [Hb Rab]].
  destruct (in_split b l2 Hb) as [p [q ->]].
  rewrite app_length. cbn [length].
  assert (H : length l1 <= length (p ++ q)); [|rewrite app_length in H; lia].
  apply IH; [exact Hp'|]. intros a1 Ha1.
  destruct (Hex a1 (or_intror Ha1)) as [b1 [Hb1 Rab1]].
  exists b1. split; [|exact Rab1].
  apply in_app_or in Hb1. destruct Hb1 as [H|[<-|H]]; [apply in_or_app; left; exact H | | apply in_or_app; right; exact H].
  exfalso. rewrite Forall_forall in Ha. apply (Ha a1 Ha1 b Rab Rab1).
Qed.

Lemma nodup_concat_pairs (l : list (list nat)) : NoDup (concat l) ->
  ForallOrdPairs (fun c1 c2 => forall h, In h c1 -> In h c2 -> False) l.
Proof.
  induction l as [|c l IH]; intros H; [constructor|]. cbn [concat] in H. constructor.
  - apply Forall_forall. intros c2 Hc2 h H1 H2.
    apply (Proofs.ToposortP.nodup_app_disj c (concat l) h H H1). apply in_concat. exists c2. split; assumption.
  - apply IH. apply (nodup_app_r _ _ H).
Qed.

Lemma fop_impl {A} (P Q : A -> A -> Prop) (l : list A) :
  (forall a b, In a l -> In b l -> P a b -> Q a b) -> ForallOrdPairs P l -> ForallOrdPairs Q l.
Proof.
  intros HPQ H. induction H as [|a l Ha Hl IH]; [constructor|]. constructor.
  - rewrite Forall_forall in *. intros b Hb. apply HPQ; [left; reflexivity | right; exact Hb | apply Ha; exact Hb].
  - apply IH. intros a' b' Ha' Hb'. apply HPQ; right; assumption.
Qed.

Lemma classes_count_le v l1 l2 :
  Forall (scc_class v) l1 -> Forall (scc_class v) l2 -> NoDup (concat l1) ->
  (forall x, In x (vnodes v) -> In x (concat l2)) ->
  length l1 <= length l2.
Proof.
  intros H1 H2 Hnd Hcov. rewrite Forall_forall in H1, H2.
  apply (pigeon (fun c c' : list nat => scc_class v c' /\ exists h, In h c /\ In h c')).
  - apply (fop_impl (fun c1 c2 : list nat => forall h, In h c1 -> In h c2 -> False) _ l1);
      [|apply (nodup_concat_pairs l1 Hnd)].
    intros c1 c2 Hc1 Hc2 Hd c' [Hcl [h1 [Ha1 Hb1]]] [_ [h2 [Ha2 Hb2]]].
    apply (Hd h2); [|exact Ha2].
    apply (class_closed v c1 h1 h2 (H1 c1 Hc1) Ha1). apply (class_mutual v c' h1 h2 Hcl Hb1 Hb2).
  - intros c Hc.
    destruct (classes_match v l1 l2 (proj2 (Forall_forall _ _) H1) (proj2 (Forall_forall _ _) H2) Hcov c Hc)
      as [c' [Hc' Heq]].
    exists c'. split; [exact Hc'|]. split; [apply H2; exact Hc'|].
    destruct (class_nonempty v c (H1 c Hc)) as [r [Hr _]]. exists r. split; [exact Hr | apply Heq; exact Hr].
Qed.

(* ------------------------------------------------------------------ *)
(* tarjan_scc against kosaraju_scc                                     *)

Theorem tarjan_kosaraju_agree v debug lk lt :
  VOk v -> (forall n, In n (vnodes v) -> n < vbound v) ->
  (N.of_nat (length (vnodes v)) < USIZE_MAX)%N ->
  kosaraju_scc v = Ok lk -> tarjan_scc v debug = Ok lt ->
  (forall c, In c lt -> exists c', In c' lk /\ forall z, In z c <-> In z c') /\
  (forall c', In c' lk -> exists c, In c lt /\ forall z, In z c' <-> In z c) /\
  length lt = length lk.
Proof.
  intros Hv Hb Hs Ek Et.
  destruct (kosaraju_spec v Hv) as [lk' [Ek' [Ndk [Ink [Clk _]]]]].
  rewrite Ek in Ek'. injection Ek' as <-.
  destruct (tarjan_scc_of_run v debug lt Et) as [t Er].
  destruct (tarjan_exact v debug Hv Hb Hs) as [t' [out [Er' [Ndt [Int [_ [Clt _]]]]]]].
  rewrite Er in Er'. injection Er' as _ <-.
  assert (Ck : forall x, In x (vnodes v) -> In x (concat lk)) by (intros x Hx; apply Ink; exact Hx).
  assert (Ct : forall x, In x (vnodes v) -> In x (concat lt)) by (intros x Hx; apply Int; exact Hx).
  split; [apply (classes_match v lt lk Clt Clk Ck)|].
  split; [apply (classes_match v lk lt Clk Clt Ct)|].
  apply Nat.le_antisymm; [apply (classes_count_le v lt lk Clt Clk Ndt Ck) | apply (classes_count_le v lk lt Clk Clt Ndk Ct)].
Qed.
