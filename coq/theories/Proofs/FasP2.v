(* C20d, part 2: greedy_fas returns a feedback arc set (accepted by fas_check), and its exact shape. *)
From Coq Require Import Lia Permutation Bool.
From PG Require Import Lib.Io Model.View Model.MiscM Model.FasM Spec.Reach Spec.MiscSpec
                       Proofs.MiscColorP Proofs.MiscFasP Proofs.FasP.
Import ListNotations.

(* the (source, target) pairs in edge_references order, the sequence, positions in it *)
Definition es_of (v : view) : list (nat * nat) := map (fun '(_, s, t, _) => (s, t)) (verefs v).
Definition fas_seq (v : view) : list nat := good_node_sequence (es_of v).
Definition pos (x : nat) (l : list nat) : nat := match index_of x l 0 with Some a => a | None => 0 end.
(* an edge that does not point forward in the sequence *)
Definition backward (sq : list nat) (q : nat * nat * nat * Z) : bool :=
  let '(_, s, t, _) := q in Nat.leb (pos t sq) (pos s sq).
Definition id4 (q : nat * nat * nat * Z) : nat := let '(e, _, _, _) := q in e.

Lemma index_of_in x l : forall i, In x l -> exists a, index_of x l i = Some a.
Proof.
  induction l as [|h t IH]; intros i Hin; [destruct Hin|]. cbn [index_of].
  destruct (Nat.eqb_spec h x) as [E|E]; [exists i; reflexivity|].
  destruct Hin as [Hx|Hx]; [contradiction | exact (IH (S i) Hx)].
Qed.

Lemma index_of_lt x l : forall i a, index_of x l i = Some a -> i <= a < i + length l /\ nth (a - i) l (S x) = x.
Proof.
  induction l as [|h t IH]; intros i a; cbn [index_of length]; [discriminate|].
  destruct (Nat.eqb_spec h x) as [E|E].
  - intros H; inversion H; subst. rewrite Nat.sub_diag. cbn [nth]. split; [lia | reflexivity].
  - intros H. destruct (IH _ _ H) as [H1 H2]. split; [lia|].
    replace (a - i) with (S (a - S i)) by lia. exact H2.
Qed.

Lemma endpoints_in_seq v e s t w : In (e, s, t, w) (verefs v) -> In s (fas_seq v) /\ In t (fas_seq v).
Proof.
  intros Hin. unfold fas_seq.
  assert (Hp : In (s, t) (es_of v)).
  { unfold es_of. apply in_map_iff. exists (e, s, t, w). split; [reflexivity | exact Hin]. }
  split; apply (proj2 (sequence_is_an_ordering (es_of v))); exists s, t; (split; [exact Hp|]); [left | right]; reflexivity.
Qed.

Lemma flat_map_filter {A B} (f : A -> list B) (p : A -> bool) (g : A -> B) (l : list A) :
  (forall q, In q l -> f q = if p q then [g q] else []) -> flat_map f l = map g (filter p l).
Proof.
  induction l as [|h t IH]; intros H; cbn [flat_map filter map]; [reflexivity|].
  rewrite (H h (or_introl eq_refl)), IH by (intros q Hq; apply H; right; exact Hq).
  destruct (p h); reflexivity.
Qed.

(* F3: the answer is the sub-list of the edge ids, in edge_references order, of the edges that do not
   point forward in the sequence *)
Theorem greedy_fas_exact_shape v :
  greedy_fas v = map id4 (filter (backward (fas_seq v)) (verefs v)).
Proof.
  unfold greedy_fas. fold (es_of v). fold (fas_seq v).
  apply flat_map_filter. intros [[[e s] t] w] Hin.
  destruct (endpoints_in_seq v e s t w Hin) as [Hs Ht].
  destruct (index_of_in s (fas_seq v) 0 Hs) as [a Ea]. destruct (index_of_in t (fas_seq v) 0 Ht) as [b Eb].
  unfold backward, pos, id4. rewrite Ea, Eb. reflexivity.
Qed.

Lemma greedy_fas_in v e :
  In e (greedy_fas v) <-> exists s t w, In (e, s, t, w) (verefs v) /\ pos t (fas_seq v) <= pos s (fas_seq v).
Proof.
  rewrite greedy_fas_exact_shape, in_map_iff. split.
  - intros [[[[e' s] t] w] [E H]]. cbn [id4] in E. subst e'. apply filter_In in H. destruct H as [H1 H2].
    exists s, t, w. split; [exact H1|]. unfold backward in H2. apply Nat.leb_le. exact H2.
  - intros [s [t [w [H1 H2]]]]. exists (e, s, t, w). split; [reflexivity|]. apply filter_In. split; [exact H1|].
    unfold backward. apply Nat.leb_le. exact H2.
Qed.

Lemma nodup_map_filter {A B} (g : A -> B) (p : A -> bool) (l : list A) :
  NoDup (map g l) -> NoDup (map g (filter p l)).
Proof.
  induction l as [|h t IH]; cbn [map filter]; intros H; [constructor|].
  inversion H as [|? ? Hni Hnd]; subst. destruct (p h); [|apply IH; exact Hnd].
  cbn [map]. constructor; [|apply IH; exact Hnd].
  intros Hin. apply Hni. apply in_map_iff in Hin. destruct Hin as [x [E Hx]].
  apply filter_In in Hx. apply in_map_iff. exists x. split; [exact E | apply Hx].
Qed.

(* positions are injective on the members of the sequence *)
Lemma pos_inj l x y : In x l -> In y l -> pos x l = pos y l -> x = y.
Proof.
  intros Hx Hy. unfold pos.
  destruct (index_of_in x l 0 Hx) as [a Ea]. destruct (index_of_in y l 0 Hy) as [b Eb].
  rewrite Ea, Eb. intros ->.
  destruct (index_of_lt _ _ _ _ Ea) as [_ H1]. destruct (index_of_lt _ _ _ _ Eb) as [_ H2].
  rewrite Nat.sub_0_r in H1, H2.
  rewrite <- H1, <- H2.
  apply nth_indep. destruct (index_of_lt _ _ _ _ Ea) as [H _]. lia.
Qed.

(* a strict ranking that every edge increases excludes cycles *)
Lemma rank_acyclic v (r : nat -> nat) : (forall a b, step v a b -> r a < r b) -> acyclic v.
Proof.
  intros Hr.
  assert (Hle : forall a b, reachable v a b -> r a <= r b).
  { intros a b R. induction R as [|x y _ IH Hs]; [lia|]. specialize (Hr x y Hs). lia. }
  intros c [c' [Hs R]]. specialize (Hr c c' Hs). specialize (Hle c' c R). lia.
Qed.

(* every edge that is left points forward in the sequence *)
Lemma remaining_forward v : nodes_ok v -> erefs_out_ok v ->
  forall a b, step (without_edges v (greedy_fas v)) a b -> pos a (fas_seq v) < pos b (fas_seq v).
Proof.
  intros Hn [He _] a b Hs.
  pose proof (without_edges_step_sub _ _ _ _ Hs) as Hs0. destruct (Hn a b Hs0) as [Ha _].
  apply without_edges_step in Hs. destruct Hs as [e [w [Hin Hni]]].
  assert (Hq : In (e, a, b, w) (verefs v)) by (apply He; split; assumption).
  destruct (le_lt_dec (pos b (fas_seq v)) (pos a (fas_seq v))) as [L|L]; [|exact L].
  exfalso. apply Hni. apply greedy_fas_in. exists a, b, w. split; assumption.
Qed.

(* F2 *)
Theorem greedy_fas_FasOK v : nodes_ok v -> erefs_out_ok v -> FasOK v (greedy_fas v).
Proof.
  intros Hn He. split; [|split; [|split]].
  - rewrite greedy_fas_exact_shape. apply nodup_map_filter. exact (proj2 He).
  - intros e Hin. rewrite greedy_fas_exact_shape in Hin. apply in_map_iff in Hin.
    destruct Hin as [q [E Hq]]. apply filter_In in Hq. unfold edge_ids. apply in_map_iff.
    exists q. split; [exact E | apply Hq].
  - intros e s w Hin. apply greedy_fas_in. exists s, s, w. split; [exact Hin | lia].
  - apply (rank_acyclic _ (fun x => pos x (fas_seq v))). exact (remaining_forward v Hn He).
Qed.

Theorem greedy_fas_check v : VOk v -> inout_ids_ok v -> erefs_out_ok v -> fas_check v (greedy_fas v) = 0.
Proof.
  intros Hv Hi He. apply (fas_check_iff v _ Hv Hi). apply greedy_fas_FasOK; [apply Hv | exact He].
Qed.
