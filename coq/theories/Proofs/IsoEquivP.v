(* C13, S5-S6: Isomorphic is an equivalence, SubIsomorphic a preorder compatible with it; the
   necessary conditions (node and edge counts) that justify the early returns of the wrappers. *)
From PG Require Import Lib.Io Model.IsoM Spec.IsoSpec Proofs.IsoRefP.
From Coq Require Import Permutation.

(* ------------------------------------------------------------------ *)
(* the predicates                                                       *)

Lemma wmatch_refl m x : wmatch m x x = true.
Proof. unfold wmatch. destruct (Z.eqb m 0); auto. apply Z.eqb_refl. Qed.

Lemma wmatch_sym m x y : wmatch m x y = wmatch m y x.
Proof. unfold wmatch. destruct (Z.eqb m 0); auto. apply Z.eqb_sym. Qed.

Lemma wmatch_trans m x y z : wmatch m x y = true -> wmatch m y z = true -> wmatch m x z = true.
Proof.
  unfold wmatch. destruct (Z.eqb m 0); auto.
  rewrite !Z.eqb_eq. congruence.
Qed.

Lemma edge_ok_refl em o : edge_ok em o o.
Proof. destruct o; simpl; auto. apply wmatch_refl. Qed.

Lemma edge_ok_sym em o0 o1 : edge_ok em o0 o1 -> edge_ok em o1 o0.
Proof. destruct o0, o1; simpl; auto. rewrite wmatch_sym. auto. Qed.

Lemma edge_ok_trans em o0 o1 o2 : edge_ok em o0 o1 -> edge_ok em o1 o2 -> edge_ok em o0 o2.
Proof.
  destruct o0, o1, o2; simpl; auto; try contradiction. apply wmatch_trans.
Qed.

(* ------------------------------------------------------------------ *)
(* identity, composition, inverse                                       *)

Lemma embedding_id nm em g : embedding nm em g g (fun a => a).
Proof.
  split; [|split; [|split]]; auto.
  - intros a b _ _. apply edge_ok_refl.
  - intros a _. apply wmatch_refl.
Qed.

Lemma embedding_comp nm em g0 g1 g2 f h :
  embedding nm em g0 g1 f -> embedding nm em g1 g2 h -> embedding nm em g0 g2 (fun a => h (f a)).
Proof.
  intros [Hr1 [Hi1 [He1 Hn1]]] [Hr2 [Hi2 [He2 Hn2]]].
  split; [|split; [|split]].
  - intros a Ha. auto.
  - intros a b Ha Hb E. apply Hi2 in E; auto.
  - intros a b Ha Hb. apply (edge_ok_trans em _ (ew g1 (f a) (f b))); auto.
  - intros a Ha. apply (wmatch_trans nm _ (nwt g1 (f a))); auto.
Qed.

Lemma index_of_In x l :
  In x l -> index_of x l < length l /\ nth (index_of x l) l 0 = x.
Proof.
  induction l as [|h t IH]; simpl; [tauto|].
  intros Hin. destruct (Nat.eqb h x) eqn:E.
  - apply Nat.eqb_eq in E. split; [lia | auto].
  - apply Nat.eqb_neq in E. destruct Hin as [Hin|Hin]; [contradiction|].
    destruct (IH Hin) as [H1 H2]. split; [lia | auto].
Qed.

Lemma inj_seq_NoDup (f : nat -> nat) n :
  (forall a b, a < n -> b < n -> f a = f b -> a = b) -> NoDup (map f (seq 0 n)).
Proof.
  intros Hinj. apply NoDup_map_inj_in; [|apply seq_NoDup].
  intros x y Hx Hy. apply in_seq in Hx. apply in_seq in Hy. apply Hinj; lia.
Qed.

(* an injection of {0..n-1} into itself is onto (pigeonhole) *)
Lemma inj_surj (f : nat -> nat) n :
  (forall a, a < n -> f a < n) ->
  (forall a b, a < n -> b < n -> f a = f b -> a = b) ->
  forall b, b < n -> In b (map f (seq 0 n)).
Proof.
  intros Hr Hinj b Hb.
  assert (Hincl : incl (seq 0 n) (map f (seq 0 n))).
  { apply NoDup_length_incl.
    - apply inj_seq_NoDup; auto.
    - rewrite map_length; auto.
    - intros y Hy. apply in_map_iff in Hy. destruct Hy as [a [<- Ha]].
      apply in_seq in Ha. apply in_seq. specialize (Hr a). lia. }
  apply Hincl. apply in_seq. lia.
Qed.

Lemma embedding_inv nm em g0 g1 f :
  s_n g0 = s_n g1 -> embedding nm em g0 g1 f ->
  exists h, embedding nm em g1 g0 h /\
            (forall a, a < s_n g0 -> h (f a) = a) /\
            (forall b, b < s_n g1 -> f (h b) = b).
Proof.
  intros Hn [Hr [Hi [He Hw]]].
  set (l := map f (seq 0 (s_n g0))).
  set (h := fun b => index_of b l).
  assert (Hh : forall b, b < s_n g1 -> h b < s_n g0 /\ f (h b) = b).
  { intros b Hb.
    assert (Hin : In b l).
    { unfold l. apply inj_surj; auto; try lia. intros a Ha. rewrite Hn. auto. }
    destruct (index_of_In b l Hin) as [H1 H2].
    unfold l in H1 at 2. rewrite map_length, seq_length in H1.
    split; auto.
    unfold l in H2 at 2. rewrite nth_map_seq in H2; auto. }
  assert (Hfh : forall a, a < s_n g0 -> h (f a) = a).
  { intros a Ha. destruct (Hh (f a) (Hr a Ha)) as [H1 H2]. apply Hi; auto. }
  exists h. split; [|split]; auto; [|intros b Hb; apply Hh; auto].
  split; [|split; [|split]].
  - intros b Hb. apply Hh; auto.
  - intros a b Ha Hb E.
    destruct (Hh a Ha) as [_ H1]. destruct (Hh b Hb) as [_ H2]. congruence.
  - intros a b Ha Hb.
    destruct (Hh a Ha) as [Ha1 Ha2]. destruct (Hh b Hb) as [Hb1 Hb2].
    apply edge_ok_sym. specialize (He (h a) (h b) Ha1 Hb1).
    rewrite Ha2, Hb2 in He. exact He.
  - intros a Ha. destruct (Hh a Ha) as [Ha1 Ha2].
    specialize (Hw (h a) Ha1). rewrite Ha2 in Hw. rewrite wmatch_sym. exact Hw.
Qed.

(* ------------------------------------------------------------------ *)
(* S5                                                                   *)

Lemma Isomorphic_refl nm em g : Isomorphic nm em g g.
Proof. split; auto. exists (fun a => a). apply embedding_id. Qed.

Lemma Isomorphic_sym nm em g0 g1 : Isomorphic nm em g0 g1 -> Isomorphic nm em g1 g0.
Proof.
  intros [Hn [f Hf]]. split; auto.
  destruct (embedding_inv nm em g0 g1 f Hn Hf) as [h [Hh _]]. exists h; auto.
Qed.

Lemma Isomorphic_trans nm em g0 g1 g2 :
  Isomorphic nm em g0 g1 -> Isomorphic nm em g1 g2 -> Isomorphic nm em g0 g2.
Proof.
  intros [Hn1 [f Hf]] [Hn2 [h Hh]]. split; [congruence|].
  exists (fun a => h (f a)). apply (embedding_comp nm em g0 g1 g2); auto.
Qed.

Lemma SubIsomorphic_refl nm em g : SubIsomorphic nm em g g.
Proof. exists (fun a => a). apply embedding_id. Qed.

Lemma SubIsomorphic_trans nm em g0 g1 g2 :
  SubIsomorphic nm em g0 g1 -> SubIsomorphic nm em g1 g2 -> SubIsomorphic nm em g0 g2.
Proof.
  intros [f Hf] [h Hh]. exists (fun a => h (f a)). apply (embedding_comp nm em g0 g1 g2); auto.
Qed.

Lemma Isomorphic_SubIsomorphic nm em g0 g1 : Isomorphic nm em g0 g1 -> SubIsomorphic nm em g0 g1.
Proof. intros [_ H]. exact H. Qed.

Lemma SubIsomorphic_iso_l nm em g0 g1 h :
  Isomorphic nm em g0 g1 -> (SubIsomorphic nm em g0 h <-> SubIsomorphic nm em g1 h).
Proof.
  intros Hiso. split; intros H.
  - apply (SubIsomorphic_trans nm em g1 g0 h); auto.
    apply Isomorphic_SubIsomorphic. apply Isomorphic_sym; auto.
  - apply (SubIsomorphic_trans nm em g0 g1 h); auto.
    apply Isomorphic_SubIsomorphic; auto.
Qed.

Lemma SubIsomorphic_iso_r nm em g0 g1 h :
  Isomorphic nm em g0 g1 -> (SubIsomorphic nm em h g0 <-> SubIsomorphic nm em h g1).
Proof.
  intros Hiso. split; intros H.
  - apply (SubIsomorphic_trans nm em h g0 g1); auto.
    apply Isomorphic_SubIsomorphic; auto.
  - apply (SubIsomorphic_trans nm em h g1 g0); auto.
    apply Isomorphic_SubIsomorphic. apply Isomorphic_sym; auto.
Qed.

Lemma Isomorphic_iso_l nm em g0 g1 h :
  Isomorphic nm em g0 g1 -> (Isomorphic nm em g0 h <-> Isomorphic nm em g1 h).
Proof.
  intros Hiso. split; intros H.
  - apply (Isomorphic_trans nm em g1 g0 h); auto. apply Isomorphic_sym; auto.
  - apply (Isomorphic_trans nm em g0 g1 h); auto.
Qed.

Lemma Isomorphic_iso_r nm em g0 g1 h :
  Isomorphic nm em g0 g1 -> (Isomorphic nm em h g0 <-> Isomorphic nm em h g1).
Proof.
  intros Hiso. split; intros H.
  - apply (Isomorphic_trans nm em h g0 g1); auto.
  - apply (Isomorphic_trans nm em h g1 g0); auto. apply Isomorphic_sym; auto.
Qed.

(* the inverse of an isomorphism, in the executable reference *)
Lemma is_iso_sym nm em g0 g1 : is_iso nm em g0 g1 = is_iso nm em g1 g0.
Proof.
  apply bool_eq_iff. rewrite !is_iso_iff. split; apply Isomorphic_sym.
Qed.

(* ------------------------------------------------------------------ *)
(* edges of simple graphs                                               *)

Definition has_edge (dir : bool) (es : list (nat * nat * Z)) (a b : nat) (w : Z) : Prop :=
  exists s t, In (s, t, w) es /\ nkey dir s t = nkey dir a b.

Lemma nkey_eq_iff dir s t a b :
  nkey dir s t = nkey dir a b <-> (s = a /\ t = b) \/ (dir = false /\ s = b /\ t = a).
Proof.
  unfold nkey. destruct dir; split.
  - intros E. inversion E. auto.
  - intros [[-> ->]|[E _]]; [reflexivity | discriminate].
  - intros E. inversion E as [[E1 E2]]. lia.
  - intros [[-> ->]|[_ [-> ->]]]; [reflexivity|].
    rewrite Nat.min_comm, Nat.max_comm. reflexivity.
Qed.

Lemma edge_test_iff dir s t a b :
  orb (andb (Nat.eqb s a) (Nat.eqb t b)) (andb (negb dir) (andb (Nat.eqb s b) (Nat.eqb t a))) = true
  <-> nkey dir s t = nkey dir a b.
Proof.
  rewrite nkey_eq_iff, orb_true_iff, !andb_true_iff, negb_true_iff, !Nat.eqb_eq. tauto.
Qed.

Lemma edge_w_Some dir es a b w : edge_w dir es a b = Some w -> has_edge dir es a b w.
Proof.
  induction es as [|[[s t] w0] r IH]; simpl; [discriminate|].
  destruct (orb (andb (Nat.eqb s a) (Nat.eqb t b))
                (andb (negb dir) (andb (Nat.eqb s b) (Nat.eqb t a)))) eqn:E.
  - intros H. inversion H; subst. exists s, t. split; [simpl; auto|].
    apply edge_test_iff; auto.
  - intros H. destruct (IH H) as [s' [t' [Hin Hk]]]. exists s', t'. split; simpl; auto.
Qed.

Lemma edge_w_None dir es a b :
  edge_w dir es a b = None <-> (forall w, ~ has_edge dir es a b w).
Proof.
  split.
  - induction es as [|[[s t] w0] r IH]; simpl.
    + intros _ w [s [t [[] _]]].
    + destruct (orb (andb (Nat.eqb s a) (Nat.eqb t b))
                    (andb (negb dir) (andb (Nat.eqb s b) (Nat.eqb t a)))) eqn:E; [discriminate|].
      intros H w [s' [t' [[Hin|Hin] Hk]]].
      * inversion Hin; subst. apply edge_test_iff in Hk. congruence.
      * apply (IH H w). exists s', t'. auto.
  - intros H. destruct (edge_w dir es a b) as [w|] eqn:E; auto.
    exfalso. apply (H w). apply edge_w_Some; auto.
Qed.

Lemma has_edge_unique dir es a b w w' :
  NoDup (map (ekey dir) es) -> has_edge dir es a b w -> has_edge dir es a b w' -> w = w'.
Proof.
  intros Hnd [s [t [Hin Hk]]] [s' [t' [Hin' Hk']]].
  assert (E : (s, t, w) = (s', t', w')).
  { apply (NoDup_map_In_inj (ekey dir) es Hnd); auto. unfold ekey; simpl. congruence. }
  congruence.
Qed.

Lemma has_edge_edge_w dir es a b w :
  NoDup (map (ekey dir) es) -> has_edge dir es a b w -> edge_w dir es a b = Some w.
Proof.
  intros Hnd H. destruct (edge_w dir es a b) as [w'|] eqn:E.
  - apply edge_w_Some in E. f_equal. apply (has_edge_unique dir es a b w' w); auto.
  - exfalso. rewrite edge_w_None in E. exact (E w H).
Qed.

(* equal slots have equal contents *)
Lemma edge_w_ext dir es es' a b a' b' :
  NoDup (map (ekey dir) es') ->
  (forall w, has_edge dir es a b w <-> has_edge dir es' a' b' w) ->
  edge_w dir es a b = edge_w dir es' a' b'.
Proof.
  intros Hnd H. destruct (edge_w dir es a b) as [w|] eqn:E.
  - symmetry. apply has_edge_edge_w; auto. apply H. apply edge_w_Some; auto.
  - symmetry. apply edge_w_None. intros w Hw. rewrite edge_w_None in E.
    apply (E w). apply H; auto.
Qed.

(* an injective map of the nodes maps distinct slots to distinct slots *)
Lemma nkey_map_inj dir (f : nat -> nat) n s t s' t' :
  (forall a b, a < n -> b < n -> f a = f b -> a = b) ->
  s < n -> t < n -> s' < n -> t' < n ->
  nkey dir (f s) (f t) = nkey dir (f s') (f t') -> nkey dir s t = nkey dir s' t'.
Proof.
  intros Hinj Hs Ht Hs' Ht'. rewrite !nkey_eq_iff.
  intros [[E1 E2]|[Hd [E1 E2]]]; [left|right; split; auto]; split; apply Hinj; auto.
Qed.

Lemma nkey_map dir (f : nat -> nat) s t s' t' :
  nkey dir s t = nkey dir s' t' -> nkey dir (f s) (f t) = nkey dir (f s') (f t').
Proof.
  rewrite !nkey_eq_iff. intros [[-> ->]|[Hd [-> ->]]]; auto.
Qed.

Lemma ekey_map_edge dir f s t w : ekey dir (map_edge f (s, t, w)) = nkey dir (f s) (f t).
Proof. reflexivity. Qed.

Lemma simple_map_edge dir (f : nat -> nat) n es :
  (forall a b, a < n -> b < n -> f a = f b -> a = b) ->
  (forall s t w, In (s, t, w) es -> s < n /\ t < n) ->
  NoDup (map (ekey dir) es) -> NoDup (map (ekey dir) (map (map_edge f) es)).
Proof.
  intros Hinj Hends Hnd. rewrite map_map.
  apply NoDup_map_inj_in; [|exact (NoDup_map_inv _ _ Hnd)].
  intros [[s t] w] [[s' t'] w'] Hx Hy E.
  rewrite !ekey_map_edge in E.
  destruct (Hends _ _ _ Hx) as [Hs Ht]. destruct (Hends _ _ _ Hy) as [Hs' Ht'].
  apply (NoDup_map_In_inj (ekey dir) es Hnd); auto.
  unfold ekey; simpl. apply (nkey_map_inj dir f n); auto.
Qed.

(* ------------------------------------------------------------------ *)
(* S6                                                                   *)

Lemma Isomorphic_nodes nm em g0 g1 : Isomorphic nm em g0 g1 -> s_n g0 = s_n g1.
Proof. intros [H _]; exact H. Qed.

Lemma SubIsomorphic_nodes nm em g0 g1 : SubIsomorphic nm em g0 g1 -> s_n g0 <= s_n g1.
Proof.
  intros [f [Hr [Hi _]]].
  assert (H : length (map f (seq 0 (s_n g0))) <= length (seq 0 (s_n g1))).
  { apply NoDup_incl_length; [apply inj_seq_NoDup; auto|].
    intros y Hy. apply in_map_iff in Hy. destruct Hy as [a [<- Ha]].
    apply in_seq in Ha. apply in_seq. specialize (Hr a). lia. }
  rewrite map_length, !seq_length in H. exact H.
Qed.

Lemma SubIsomorphic_edges nm em g0 g1 :
  wf g0 -> s_dir g0 = s_dir g1 -> SubIsomorphic nm em g0 g1 ->
  length (s_es g0) <= length (s_es g1).
Proof.
  intros [Hends Hnd] Hdir [f [Hr [Hi [He _]]]].
  assert (H : length (map (ekey (s_dir g0)) (map (map_edge f) (s_es g0)))
              <= length (map (ekey (s_dir g0)) (s_es g1))).
  { apply NoDup_incl_length; [apply (simple_map_edge (s_dir g0) f (s_n g0)); auto|].
    intros k Hk. apply in_map_iff in Hk. destruct Hk as [e' [<- He']].
    apply in_map_iff in He'. destruct He' as [[[s t] w] [<- Hin]].
    destruct (Hends s t w Hin) as [Hs Ht].
    specialize (He s t Hs Ht). unfold ew in He.
    destruct (edge_w (s_dir g0) (s_es g0) s t) as [w0|] eqn:E0.
    - destruct (edge_w (s_dir g1) (s_es g1) (f s) (f t)) as [w1|] eqn:E1; [|contradiction].
      apply edge_w_Some in E1. destruct E1 as [s1 [t1 [Hin1 Hk1]]].
      rewrite ekey_map_edge. rewrite Hdir. rewrite <- Hk1.
      apply in_map_iff. exists (s1, t1, w1). split; auto.
    - exfalso. rewrite edge_w_None in E0. apply (E0 w). exists s, t. auto. }
  rewrite !map_length in H. exact H.
Qed.

Lemma Isomorphic_edges nm em g0 g1 :
  wf g0 -> wf g1 -> s_dir g0 = s_dir g1 -> Isomorphic nm em g0 g1 ->
  length (s_es g0) = length (s_es g1).
Proof.
  intros W0 W1 Hdir Hiso.
  assert (H1 : length (s_es g0) <= length (s_es g1)).
  { apply (SubIsomorphic_edges nm em); auto. apply Isomorphic_SubIsomorphic; auto. }
  assert (H2 : length (s_es g1) <= length (s_es g0)).
  { apply (SubIsomorphic_edges nm em); auto.
    apply Isomorphic_SubIsomorphic. apply Isomorphic_sym; auto. }
  lia.
Qed.

(* the early returns of the wrappers *)
Lemma is_iso_nodes_false nm em g0 g1 : s_n g0 <> s_n g1 -> is_iso nm em g0 g1 = false.
Proof. intros H. apply is_iso_false_iff. intros Hi. apply H. exact (Isomorphic_nodes nm em g0 g1 Hi). Qed.

Lemma is_iso_edges_false nm em g0 g1 :
  wf g0 -> wf g1 -> s_dir g0 = s_dir g1 ->
  length (s_es g0) <> length (s_es g1) -> is_iso nm em g0 g1 = false.
Proof.
  intros W0 W1 Hd H. apply is_iso_false_iff. intros Hi. apply H.
  exact (Isomorphic_edges nm em g0 g1 W0 W1 Hd Hi).
Qed.

Lemma is_sub_iso_nodes_false nm em g0 g1 : s_n g1 < s_n g0 -> is_sub_iso nm em g0 g1 = false.
Proof.
  intros H. apply is_sub_iso_false_iff. intros Hi.
  apply (SubIsomorphic_nodes nm em) in Hi. lia.
Qed.

Lemma is_sub_iso_edges_false nm em g0 g1 :
  wf g0 -> s_dir g0 = s_dir g1 ->
  length (s_es g1) < length (s_es g0) -> is_sub_iso nm em g0 g1 = false.
Proof.
  intros W0 Hd H. apply is_sub_iso_false_iff. intros Hi.
  apply (SubIsomorphic_edges nm em g0 g1 W0 Hd) in Hi. lia.
Qed.
