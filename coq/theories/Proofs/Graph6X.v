(* Further graph6 facts for Props/C18b.v: the upper triangle lists each pair lin < col < n once,
   and the encoder is injective on bit lists of the right length. *)
From Coq Require Import NArith List Lia FinFun.
From PG Require Import Lib.ListArr Lib.Io Spec.Graph6Spec Model.Graph6M Proofs.Graph6P.
Import ListNotations.

Lemma sel_in {A} (l : list A) : forall (u : list bool) x,
  In x (map fst (filter snd (combine l u))) -> In x l.
Proof.
  induction l as [|a l IH]; intros [|b u] x H; simpl in *; try contradiction.
  destruct b; simpl in H.
  - destruct H as [H|H]; [left; exact H|right; eapply IH; exact H].
  - right; eapply IH; exact H.
Qed.

Lemma sel_inj {A} (l : list A) : NoDup l -> forall u1 u2,
  length u1 = length l -> length u2 = length l ->
  map fst (filter snd (combine l u1)) = map fst (filter snd (combine l u2)) -> u1 = u2.
Proof.
  induction 1 as [|a l Hn Hd IH]; intros [|b1 u1] [|b2 u2] L1 L2 E; simpl in *; try discriminate; try reflexivity.
  injection L1 as L1. injection L2 as L2.
  destruct b1, b2; simpl in E.
  - injection E as E. f_equal. apply IH; assumption.
  - exfalso. apply Hn. apply (sel_in l u2 a). rewrite <- E. left; reflexivity.
  - exfalso. apply Hn. apply (sel_in l u1 a). rewrite E. left; reflexivity.
  - f_equal. apply IH; assumption.
Qed.

Lemma upper_pairs_in n lin col : In (lin, col) (upper_pairs n) <-> 1 <= col < n /\ lin < col.
Proof.
  unfold upper_pairs. rewrite in_flat_map. split.
  - intros [c [Hc H]]. apply in_seq in Hc. apply in_map_iff in H. destruct H as [l [E Hl]].
    injection E as -> ->. apply in_seq in Hl. lia.
  - intros [Hc Hl]. exists col. split; [apply in_seq; lia|].
    apply in_map_iff. exists lin. split; [reflexivity|apply in_seq; lia].
Qed.

Lemma NoDup_flat_map_disj {A B} (f : A -> list B) (l : list A) :
  (forall a, In a l -> NoDup (f a)) ->
  (forall a1 a2 b, In a1 l -> In a2 l -> In b (f a1) -> In b (f a2) -> a1 = a2) ->
  NoDup l -> NoDup (flat_map f l).
Proof.
  intros Hf Hdisj Hl. induction Hl as [|a l Hn Hd IH]; simpl; [constructor|].
  assert (IH' : NoDup (flat_map f l)).
  { apply IH; intros; [apply Hf; right; assumption|eapply Hdisj; eauto; right; assumption]. }
  clear IH. assert (Ha := Hf a (or_introl eq_refl)).
  assert (D : forall b, In b (f a) -> ~ In b (flat_map f l)).
  { intros b Hb Hc. apply in_flat_map in Hc. destruct Hc as [a2 [Ha2 Hb2]].
    apply Hn. rewrite (Hdisj a a2 b (or_introl eq_refl) (or_intror Ha2) Hb Hb2). exact Ha2. }
  revert Ha D. generalize (f a) as m. induction m as [|b m IHm]; intros Ha D; simpl; [exact IH'|].
  inversion Ha as [|? ? Hb Hm]; subst. constructor.
  - rewrite in_app_iff. intros [H|H]; [contradiction|]. apply (D b (or_introl eq_refl) H).
  - apply IHm; [exact Hm|]. intros b' Hb'. apply D. right; exact Hb'.
Qed.

Lemma upper_pairs_NoDup n : NoDup (upper_pairs n).
Proof.
  unfold upper_pairs. apply NoDup_flat_map_disj.
  - intros c _. apply Injective_map_NoDup; [|apply seq_NoDup].
    intros x y E. injection E as E. exact E.
  - intros c1 c2 [l c] _ _ H1 H2. apply in_map_iff in H1. apply in_map_iff in H2.
    destruct H1 as [? [E1 _]]. destruct H2 as [? [E2 _]]. congruence.
  - apply seq_NoDup.
Qed.

Lemma encode_injective n u1 u2 :
  (N.of_nat n <= 258047)%N -> length u1 = n * (n - 1) / 2 -> length u2 = n * (n - 1) / 2 ->
  encode (N.of_nat n) u1 = encode (N.of_nat n) u2 -> u1 = u2.
Proof.
  intros Hn L1 L2 E.
  destruct (decode_encode false n u1 Hn L1) as [s1 [E1 D1]].
  destruct (decode_encode false n u2 Hn L2) as [s2 [E2 D2]].
  rewrite E1, E2 in E. injection E as ->. rewrite D1 in D2. injection D2 as D2.
  apply (sel_inj (upper_pairs n) (upper_pairs_NoDup n)); rewrite ?upper_pairs_length; assumption.
Qed.
