(* maximum_matching (Gabow): the invariant of one search (SI), its initial state, and its
   preservation when scan_edge gives a vertex label (the non-blossom case).  (M3) *)
From PG Require Import Lib.Io Model.View Model.Traversal Model.MatchM Spec.Reach Spec.MatchSpec
  Proofs.TravBase Proofs.MatchGreedyP Proofs.MatchShapeP Proofs.MatchAugP Proofs.MatchFlipP.

(* ------------------------------------------------------------------ *)
(* outer vertices, their number, the first non-outer vertex of a list   *)

Definition outb (labs : list label) (x : nat) : bool := is_outer (nth x labs LNone).

Lemma outerv_outb labs x : outerv labs x <-> outb labs x = true.
Proof.
  unfold outerv, outb. split.
  - intros [lb [H1 H2]]. rewrite (nth_error_nth labs x LNone H1). exact H2.
  - intros H. destruct (nth_error labs x) as [lb|] eqn:E.
    + exists lb. split; [reflexivity|]. rewrite (nth_error_nth labs x LNone E) in H. exact H.
    + apply nth_error_None in E. rewrite nth_overflow in H by exact E. discriminate.
Qed.

Lemma outerv_dec labs x : {outerv labs x} + {~ outerv labs x}.
Proof.
  destruct (outb labs x) eqn:E.
  - left. apply outerv_outb. exact E.
  - right. intros H. apply outerv_outb in H. congruence.
Qed.

Lemma outerv_lt labs x : outerv labs x -> x < length labs.
Proof. intros [lb [H _]]. eapply nth_error_Some_lt; eauto. Qed.

Lemma outerv_upd labs i l u : i < length labs ->
  (outerv (upd labs i l) u <-> (u = i /\ is_outer l = true) \/ (u <> i /\ outerv labs u)).
Proof.
  intros Hi. unfold outerv. rewrite nth_error_upd, (proj2 (Nat.ltb_lt _ _) Hi).
  destruct (Nat.eqb_spec i u) as [->|Hne].
  - split.
    + intros [lb [H1 H2]]. injection H1 as <-. left. auto.
    + intros [[_ H]|[H _]]; [exists l; auto | contradiction].
  - split.
    + intros H. right. split; [congruence | exact H].
    + intros [[H _]|[_ H]]; [congruence | exact H].
Qed.

Definition nout (labs : list label) : nat := length (filter is_outer labs).

Definition b2n (b : bool) : nat := if b then 1 else 0.

Lemma nout_upd : forall labs i l, i < length labs ->
  nout (upd labs i l) + b2n (outb labs i) = nout labs + b2n (is_outer l).
Proof.
  unfold nout, outb. induction labs as [|h t IH]; intros i l Hi; cbn [length] in Hi; [lia|].
  destruct i as [|i].
  - cbn [upd filter nth]. destruct (is_outer l), (is_outer h); cbn [length b2n]; lia.
  - cbn [upd filter nth]. assert (Hi' : i < length t) by lia. specialize (IH i l Hi').
    destruct (is_outer h); cbn [length]; lia.
Qed.

Lemma nout_le labs : nout labs <= length labs.
Proof. unfold nout. apply filter_length_le. Qed.

Lemma nout_pos labs u : outerv labs u -> 0 < nout labs.
Proof.
  intros [lb [H1 H2]]. unfold nout.
  assert (Hin : In lb (filter is_outer labs)).
  { apply filter_In. split; [eapply nth_error_In; eauto | exact H2]. }
  destruct (filter is_outer labs); [destruct Hin | cbn [length]; lia].
Qed.

(* first non-outer vertex of l, or d *)
Fixpoint fno (labs : list label) (d : nat) (l : list nat) : nat :=
  match l with
  | [] => d
  | x :: t => if outb labs x then fno labs d t else x
  end.

Lemma outb_upd_ne labs i l x : x <> i -> outb (upd labs i l) x = outb labs x.
Proof.
  intros Hne. unfold outb. rewrite nth_upd.
  destruct (Nat.eqb_spec i x) as [->|_]; [contradiction | reflexivity].
Qed.

Lemma fno_upd_notin labs i lb d : forall l, ~ In i l -> fno (upd labs i lb) d l = fno labs d l.
Proof.
  induction l as [|x t IH]; intros Hn; cbn [fno]; [reflexivity|].
  rewrite outb_upd_ne by (intros ->; apply Hn; left; reflexivity).
  rewrite IH by (intros H; apply Hn; right; exact H). reflexivity.
Qed.

(* ------------------------------------------------------------------ *)
(* the invariant of a search from start                                *)

Record SI (v : view) (start : nat) (s : mst) (pth : nat -> list nat) (rk : nat -> nat) : Prop := {
  si_gm : forall i j, m_mate (mate s) i = Some j -> joined v i j;
  si_cnt : csum (mate s) = 2 * nedges s;
  si_lab : LabOk v (mate s) (lab s) pth rk;
  si_lablen : length (lab s) = S (vbound v);
  si_finlen : length (fin s) = S (vbound v);
  si_start : nth_error (lab s) start = Some LStart;
  si_start_only : forall u, nth_error (lab s) u = Some LStart -> u = start;
  si_start_free : m_mate (mate s) start = None;
  si_rk : forall u, outerv (lab s) u -> rk u < nout (lab s);
  si_queue : forall x, In x (queue s) -> outerv (lab s) x;
  (* first_inner of an outer vertex z is the first non-outer vertex after z on any path through z *)
  si_fin : forall u p1 z p2, outerv (lab s) u -> pth u = p1 ++ z :: p2 -> outerv (lab s) z ->
             nth_error (fin s) z = Some (fno (lab s) (vbound v) p2);
  (* a non-outer vertex of a path is the mate of an outer vertex o with a vertex label, and the
     path continues as P(o) *)
  si_inner : forall u f, outerv (lab s) u -> In f (pth u) -> ~ outerv (lab s) f ->
             exists pre o x, pth u = pre ++ pth o /\ (exists k, length pre = 2 * k) /\
                             pth o = o :: f :: pth x /\
                             nth_error (lab s) o = Some (LVertex x);
  (* a flag left by find_join on edge id e: the ends of e are by now in one blossom *)
  si_flag : forall z e, nth_error (lab s) z = Some (LFlag e) ->
             forall a er, In er (out_edges v a) -> eid er = e ->
               outerv (lab s) a /\ outerv (lab s) (tgt er) /\
               nth_error (fin s) a = nth_error (fin s) (tgt er)
}.

Definition SInv (v : view) (start : nat) (s : mst) : Prop := exists pth rk, SI v start s pth rk.

(* between two searches *)
Definition BInv (v : view) (s : mst) : Prop :=
  GM v (mate s) /\ csum (mate s) = 2 * nedges s /\
  lab s = repeat LNone (S (vbound v)) /\ length (fin s) = S (vbound v).

Definition GMn (v : view) (s : mst) : Prop := GM v (mate s) /\ csum (mate s) = 2 * nedges s.

Lemma SI_GM v start s pth rk : SI v start s pth rk -> GM v (mate s).
Proof.
  intros I. pose proof (si_lab _ _ _ _ _ I) as HL.
  split; [apply (lo_len HL)|]. split; [apply (lo_dummy HL)|]. split; [apply (lo_sym HL) | apply (si_gm _ _ _ _ _ I)].
Qed.

Lemma SInv_GMn v start s : SInv v start s -> GMn v s.
Proof. intros [pth [rk I]]. split; [eapply SI_GM; eauto | apply (si_cnt _ _ _ _ _ I)]. Qed.

(* every path vertex is outer or the mate of an outer vertex *)
Lemma SI_tree v start s pth rk u x : SI v start s pth rk -> outerv (lab s) u -> In x (pth u) ->
  outerv (lab s) x \/ exists o, m_mate (mate s) x = Some o /\ outerv (lab s) o.
Proof.
  intros I Hu Hx. destruct (outerv_dec (lab s) x) as [Ho|Hn]; [left; exact Ho|]. right.
  destruct (si_inner _ _ _ _ _ I u x Hu Hx Hn) as [pre [o [y [_ [_ [Hpo Hlo]]]]]].
  pose proof (si_lab _ _ _ _ _ I) as HL.
  assert (Hoo : outerv (lab s) o) by (exists (LVertex y); auto).
  exists o. split; [|exact Hoo].
  apply (lo_sym HL o x). rewrite (lo_mate HL o 0 o Hoo) by (rewrite Hpo; reflexivity).
  rewrite Hpo. reflexivity.
Qed.

(* an outer vertex other than start is matched *)
Lemma SI_outer_matched v start s pth rk u : SI v start s pth rk -> outerv (lab s) u -> u <> start ->
  m_mate (mate s) u <> None.
Proof.
  intros I Hu Hne. pose proof (si_lab _ _ _ _ _ I) as HL. pose proof Hu as [lb [Hlb Hlo]].
  assert (H0 : nth_error (pth u) 0 = Some u).
  { destruct (lo_hd HL u Hu) as [rest ->]. reflexivity. }
  rewrite (lo_mate HL u 0 u Hu H0).
  destruct lb as [| |x|e a b|e]; cbn [is_outer] in Hlo; try discriminate.
  - exfalso. apply Hne. apply (si_start_only _ _ _ _ _ I). exact Hlb.
  - destruct (lo_vertex HL u x Hlb) as [_ [_ [w ->]]]. discriminate.
  - destruct (lo_edge HL u e a b Hlb) as [Ha [Hb [_ [_ Hc]]]].
    assert (Hgen : forall x y a0 b0, outerv (lab s) y -> pth u = u :: rev a0 ++ pth y ->
                     pth x = a0 ++ u :: b0 -> nth_error (pth u) (S (2 * 0)) <> None).
    { intros x y a0 b0 Hy Hpu Hpx. rewrite Hpu. cbn [nth_error Nat.mul].
      destruct (lo_hd HL y Hy) as [resty ->]. destruct (rev a0); discriminate. }
    destruct Hc as [[a0 [b0 [H1 [H2 _]]]]|[a0 [b0 [H1 [H2 _]]]]].
    + apply (Hgen a b a0 b0 Hb H2 H1).
    + apply (Hgen b a a0 b0 Ha H2 H1).
Qed.

(* ------------------------------------------------------------------ *)
(* the initial state of a search                                       *)

Lemma repeat_LNone_nth n x : nth x (repeat LNone n) LNone = LNone.
Proof. destruct (nth_in_or_default x (repeat LNone n) LNone) as [H|H]; [apply repeat_spec in H|]; exact H. Qed.

Lemma init_SInv v start s fin1 vis1 :
  BInv v s -> start < vbound v -> m_mate (mate s) start = None ->
  fin1 = upd (fin s) start (vbound v) ->
  SInv v start (mkMst (mate s) (upd (lab s) start LStart) fin1 vis1 [start] (nedges s)).
Proof.
  intros [HG [Hc [Hlab Hfl]]] Hst Hfree ->.
  exists (fun _ => [start]), (fun _ => 0).
  assert (Hll : start < length (lab s)) by (rewrite Hlab, repeat_length; lia).
  assert (Hout : forall u, outerv (upd (lab s) start LStart) u <-> u = start).
  { intros u. rewrite outerv_upd by exact Hll. split.
    - intros [[H _]|[_ H]]; [exact H|]. apply outerv_outb in H. unfold outb in H.
      rewrite Hlab, repeat_LNone_nth in H. discriminate.
    - intros ->. left. auto. }
  assert (Hnth : forall u, nth_error (upd (lab s) start LStart) u =
                           if Nat.eqb start u then Some LStart else nth_error (lab s) u).
  { intros u. rewrite nth_error_upd, (proj2 (Nat.ltb_lt _ _) Hll). reflexivity. }
  assert (Hnone : forall u lb, nth_error (lab s) u = Some lb -> lb = LNone).
  { intros u lb H. rewrite Hlab in H. apply nth_error_In, repeat_spec in H. exact H. }
  destruct HG as [G1 [G2 [G3 G4]]].
  constructor; cbn [mate lab fin queue nedges].
  - exact G4.
  - exact Hc.
  - constructor.
    + exact G1.
    + exact G2.
    + exact G3.
    + intros u Hu. apply Hout in Hu. subst u. exists []. reflexivity.
    + intros u x _ [<-|[]]. exact Hst.
    + intros u _. repeat constructor. intros [].
    + intros u _. exists 0. reflexivity.
    + intros u j a _ Ha. destruct j as [|j].
      * cbn [Nat.mul nth_error] in *. injection Ha as <-. exact Hfree.
      * replace (2 * S j) with (S (S (2 * j))) in Ha by lia. cbn [nth_error] in Ha.
        destruct (2 * j); discriminate.
    + intros u Hu. rewrite Hnth in Hu. destruct (Nat.eqb_spec start u) as [->|_]; [reflexivity|].
      apply Hnone in Hu. discriminate.
    + intros u x Hu. rewrite Hnth in Hu. destruct (Nat.eqb_spec start u) as [->|_]; [discriminate|].
      apply Hnone in Hu. discriminate.
    + intros u e a b Hu. rewrite Hnth in Hu. destruct (Nat.eqb_spec start u) as [->|_]; [discriminate|].
      apply Hnone in Hu. discriminate.
    + intros u j a b _ Ha. cbn [nth_error] in Ha. destruct (2 * j); discriminate.
  - rewrite upd_length, Hlab, repeat_length. reflexivity.
  - rewrite upd_length. exact Hfl.
  - rewrite Hnth, Nat.eqb_refl. reflexivity.
  - intros u Hu. rewrite Hnth in Hu. destruct (Nat.eqb_spec start u) as [->|_]; [reflexivity|].
    apply Hnone in Hu. discriminate.
  - exact Hfree.
  - intros u Hu. eapply nout_pos; eauto.
  - intros x [<-|[]]. apply Hout. reflexivity.
  - intros u p1 z p2 _ Hp Hz. apply Hout in Hz. subst z.
    destruct p1 as [|a p1]; [|destruct p1; discriminate].
    cbn [app] in Hp. injection Hp as <-. cbn [fno].
    apply nth_error_upd_eq. lia.
  - intros u f Hu [<-|[]] Hn. exfalso. apply Hn. apply Hout. reflexivity.
  - intros z e Hz. rewrite Hnth in Hz. destruct (Nat.eqb_spec start z) as [->|_]; [discriminate|].
    apply Hnone in Hz. discriminate.
Qed.

(* ------------------------------------------------------------------ *)
(* giving a vertex label (scan_edge, the non-blossom case)             *)

Section VertexLabel.
Variable v : view.
Variable start : nat.
Variable s : mst.
Variable pth : nat -> list nat.
Variable rk : nat -> nat.
Hypothesis I : SI v start s pth rk.
Variables outer other mv : nat.
Hypothesis Houter : outerv (lab s) outer.
Hypothesis Hjoin : joined v other outer.
Hypothesis Hmo : m_mate (mate s) other = Some mv.
Hypothesis Hno : ~ outerv (lab s) other.
Hypothesis Hnm : ~ outerv (lab s) mv.

Let HL := si_lab _ _ _ _ _ I.
Let lab' := upd (lab s) mv (LVertex outer).
Let fin' := upd (fin s) mv other.
Let pth' := fun u => if Nat.eqb u mv then mv :: other :: pth outer else pth u.
Let rk' := fun u => if Nat.eqb u mv then nout (lab s) else rk u.

Lemma vl_mv_other : m_mate (mate s) mv = Some other /\ other <> mv.
Proof. apply (lo_sym HL other mv Hmo). Qed.

Lemma vl_lt : mv < vbound v /\ other < vbound v.
Proof. apply (GM_lt v (mate s) mv other (SI_GM _ _ _ _ _ I)). apply vl_mv_other. Qed.

Lemma vl_mv_len : mv < length (lab s).
Proof. rewrite (si_lablen _ _ _ _ _ I). pose proof vl_lt. lia. Qed.

Lemma vl_notin u : outerv (lab s) u -> ~ In mv (pth u) /\ ~ In other (pth u).
Proof.
  intros Hu. destruct vl_mv_other as [Hmm Hne]. split; intros Hin.
  - destruct (SI_tree _ _ _ _ _ u mv I Hu Hin) as [H|[o [H1 H2]]]; [contradiction|].
    rewrite Hmm in H1. injection H1 as <-. contradiction.
  - destruct (SI_tree _ _ _ _ _ u other I Hu Hin) as [H|[o [H1 H2]]]; [contradiction|].
    rewrite Hmo in H1. injection H1 as <-. contradiction.
Qed.

Lemma vl_outer u : outerv lab' u <-> u = mv \/ outerv (lab s) u.
Proof.
  unfold lab'. rewrite outerv_upd by apply vl_mv_len. cbn [is_outer]. split.
  - intros [[H _]|[_ H]]; auto.
  - intros [->|H]; [left; auto|]. right. split; [|exact H]. intros ->. contradiction.
Qed.

Lemma vl_nth u : nth_error lab' u = if Nat.eqb mv u then Some (LVertex outer) else nth_error (lab s) u.
Proof. unfold lab'. rewrite nth_error_upd, (proj2 (Nat.ltb_lt _ _) vl_mv_len). reflexivity. Qed.

Lemma vl_nth_ne u : u <> mv -> nth_error lab' u = nth_error (lab s) u.
Proof. intros H. rewrite vl_nth. destruct (Nat.eqb_spec mv u); [congruence | reflexivity]. Qed.

Lemma vl_pth_ne u : u <> mv -> pth' u = pth u.
Proof. intros H. unfold pth'. destruct (Nat.eqb_spec u mv); [contradiction | reflexivity]. Qed.

Lemma vl_pth_mv : pth' mv = mv :: other :: pth outer.
Proof. unfold pth'. rewrite Nat.eqb_refl. reflexivity. Qed.

Lemma vl_rk_ne u : u <> mv -> rk' u = rk u.
Proof. intros H. unfold rk'. destruct (Nat.eqb_spec u mv); [contradiction | reflexivity]. Qed.

Lemma vl_old_ne u : outerv (lab s) u -> u <> mv.
Proof. intros H ->. contradiction. Qed.

Lemma vl_LabOk : LabOk v (mate s) lab' pth' rk'.
Proof.
  destruct vl_mv_other as [Hmm Hne]. destruct vl_lt as [Lm Lo].
  destruct (vl_notin outer Houter) as [Nm No].
  pose proof (vl_old_ne outer Houter) as Hom.
  constructor.
  - apply (lo_len HL).
  - apply (lo_dummy HL).
  - apply (lo_sym HL).
  - intros u Hu. apply vl_outer in Hu. destruct (Nat.eq_dec u mv) as [->|Hn].
    + rewrite vl_pth_mv. eauto.
    + destruct Hu as [->|Hu]; [contradiction|]. rewrite vl_pth_ne by exact Hn. apply (lo_hd HL u Hu).
  - intros u x Hu Hx. apply vl_outer in Hu. destruct (Nat.eq_dec u mv) as [->|Hn].
    + rewrite vl_pth_mv in Hx. destruct Hx as [<-|[<-|Hx]]; [exact Lm | exact Lo |].
      apply (lo_range HL outer x Houter Hx).
    + destruct Hu as [->|Hu]; [contradiction|]. rewrite vl_pth_ne in Hx by exact Hn.
      apply (lo_range HL u x Hu Hx).
  - intros u Hu. apply vl_outer in Hu. destruct (Nat.eq_dec u mv) as [->|Hn].
    + rewrite vl_pth_mv. constructor; [|constructor; [exact No | apply (lo_nodup HL outer Houter)]].
      intros [E|Hin]; [congruence | contradiction].
    + destruct Hu as [->|Hu]; [contradiction|]. rewrite vl_pth_ne by exact Hn. apply (lo_nodup HL u Hu).
  - intros u Hu. apply vl_outer in Hu. destruct (Nat.eq_dec u mv) as [->|Hn].
    + rewrite vl_pth_mv. destruct (lo_odd HL outer Houter) as [k Hk]. exists (S k). cbn [length]. lia.
    + destruct Hu as [->|Hu]; [contradiction|]. rewrite vl_pth_ne by exact Hn. apply (lo_odd HL u Hu).
  - intros u j a Hu Ha. apply vl_outer in Hu. destruct (Nat.eq_dec u mv) as [->|Hn].
    + rewrite vl_pth_mv in *. destruct j as [|j].
      * change (Some mv = Some a) in Ha. injection Ha as <-. rewrite Hmm. reflexivity.
      * replace (2 * S j) with (S (S (2 * j))) in * by lia.
        change (nth_error (pth outer) (2 * j) = Some a) in Ha.
        change (m_mate (mate s) a = nth_error (pth outer) (S (2 * j))).
        apply (lo_mate HL outer j a Houter Ha).
    + destruct Hu as [->|Hu]; [contradiction|]. rewrite vl_pth_ne in * by exact Hn.
      apply (lo_mate HL u j a Hu Ha).
  - intros u Hu. destruct (Nat.eq_dec u mv) as [->|Hn].
    + rewrite vl_nth, Nat.eqb_refl in Hu. discriminate.
    + rewrite vl_nth_ne in Hu by exact Hn. rewrite vl_pth_ne by exact Hn. apply (lo_start HL u Hu).
  - intros u x Hu. destruct (Nat.eq_dec u mv) as [->|Hn].
    + rewrite vl_nth, Nat.eqb_refl in Hu. injection Hu as <-.
      split; [apply vl_outer; right; exact Houter|]. split.
      * rewrite (vl_rk_ne outer Hom). unfold rk'. rewrite Nat.eqb_refl. apply (si_rk _ _ _ _ _ I outer Houter).
      * exists other. rewrite vl_pth_mv, (vl_pth_ne outer Hom). reflexivity.
    + rewrite vl_nth_ne in Hu by exact Hn. destruct (lo_vertex HL u x Hu) as [Hx [Hr [w Hp]]].
      pose proof (vl_old_ne x Hx) as Hxm.
      split; [apply vl_outer; right; exact Hx|]. split.
      * rewrite (vl_rk_ne u Hn), (vl_rk_ne x Hxm). exact Hr.
      * exists w. rewrite (vl_pth_ne u Hn), (vl_pth_ne x Hxm). exact Hp.
  - intros u e a b Hu. destruct (Nat.eq_dec u mv) as [->|Hn].
    + rewrite vl_nth, Nat.eqb_refl in Hu. discriminate.
    + rewrite vl_nth_ne in Hu by exact Hn.
      destruct (lo_edge HL u e a b Hu) as [Ha [Hb [Ra [Rb Hc]]]].
      pose proof (vl_old_ne a Ha) as Ham. pose proof (vl_old_ne b Hb) as Hbm.
      split; [apply vl_outer; right; exact Ha|]. split; [apply vl_outer; right; exact Hb|].
      rewrite (vl_rk_ne u Hn), (vl_rk_ne a Ham), (vl_rk_ne b Hbm), (vl_pth_ne u Hn), (vl_pth_ne a Ham), (vl_pth_ne b Hbm).
      split; [exact Ra|]. split; [exact Rb|].
      destruct Hc as [[a0 [b0 [H1 [H2 H3]]]]|[a0 [b0 [H1 [H2 H3]]]]]; [left | right];
        exists a0, b0; (split; [exact H1|]); (split; [exact H2|]);
        intros z Hz; destruct (H3 z Hz) as [Hzo Hzr];
        (split; [apply vl_outer; right; exact Hzo | rewrite (vl_rk_ne z (vl_old_ne z Hzo)); exact Hzr]).
  - intros u j a b Hu Ha Hb. apply vl_outer in Hu. destruct (Nat.eq_dec u mv) as [->|Hn].
    + rewrite vl_pth_mv in *. destruct j as [|j].
      * change (Some other = Some a) in Ha. injection Ha as <-.
        destruct (lo_hd HL outer Houter) as [rest Hrest]. rewrite Hrest in Hb.
        change (Some outer = Some b) in Hb. injection Hb as <-. exact Hjoin.
      * replace (2 * S j) with (S (S (2 * j))) in * by lia.
        change (nth_error (pth outer) (S (2 * j)) = Some a) in Ha.
        change (nth_error (pth outer) (S (S (2 * j))) = Some b) in Hb.
        apply (lo_join HL outer j a b Houter Ha Hb).
    + destruct Hu as [->|Hu]; [contradiction|]. rewrite vl_pth_ne in * by exact Hn.
      apply (lo_join HL u j a b Hu Ha Hb).
Qed.

Lemma vl_fno l : ~ In mv l -> fno lab' (vbound v) l = fno (lab s) (vbound v) l.
Proof. apply fno_upd_notin. Qed.

Lemma vl_SI q' : (forall x, In x q' -> x = mv \/ In x (queue s)) ->
  SI v start (mkMst (mate s) lab' fin' (vis s) q' (nedges s)) pth' rk'.
Proof.
  intros Hq. destruct vl_mv_other as [Hmm Hne]. destruct vl_lt as [Lm Lo].
  pose proof (vl_old_ne outer Houter) as Hom.
  assert (Hstart_out : outerv (lab s) start) by (exists LStart; split; [apply (si_start _ _ _ _ _ I) | reflexivity]).
  pose proof (vl_old_ne start Hstart_out) as Hsm.
  assert (Hfin_ne : forall z, z <> mv -> nth_error fin' z = nth_error (fin s) z).
  { intros z Hz. unfold fin'. apply nth_error_upd_neq. congruence. }
  constructor; cbn [mate lab fin queue nedges].
  - apply (si_gm _ _ _ _ _ I).
  - apply (si_cnt _ _ _ _ _ I).
  - apply vl_LabOk.
  - unfold lab'. rewrite upd_length. apply (si_lablen _ _ _ _ _ I).
  - unfold fin'. rewrite upd_length. apply (si_finlen _ _ _ _ _ I).
  - rewrite vl_nth_ne by exact Hsm. apply (si_start _ _ _ _ _ I).
  - intros u Hu. destruct (Nat.eq_dec u mv) as [->|Hn].
    + rewrite vl_nth, Nat.eqb_refl in Hu. discriminate.
    + rewrite vl_nth_ne in Hu by exact Hn. apply (si_start_only _ _ _ _ _ I u Hu).
  - apply (si_start_free _ _ _ _ _ I).
  - intros u Hu. apply vl_outer in Hu.
    pose proof (nout_upd (lab s) mv (LVertex outer) vl_mv_len) as Hn. fold lab' in Hn.
    assert (Hob : outb (lab s) mv = false).
    { destruct (outb (lab s) mv) eqn:E; [|reflexivity]. exfalso. apply Hnm. apply outerv_outb. exact E. }
    rewrite Hob in Hn. cbn [is_outer b2n] in Hn.
    unfold rk'. destruct (Nat.eqb_spec u mv) as [->|Hne']; [lia|].
    destruct Hu as [->|Hu]; [contradiction|]. pose proof (si_rk _ _ _ _ _ I u Hu). lia.
  - intros x Hx. apply vl_outer. destruct (Hq x Hx) as [->|Hx']; [left; reflexivity|].
    right. apply (si_queue _ _ _ _ _ I x Hx').
  - intros u p1 z p2 Hu Hp Hz. apply vl_outer in Hu. apply vl_outer in Hz.
    destruct (Nat.eq_dec u mv) as [->|Hn].
    + rewrite vl_pth_mv in Hp. destruct (vl_notin outer Houter) as [Nm No].
      destruct p1 as [|x1 p1].
      * cbn [app] in Hp. injection Hp as <- <-. cbn [fno].
        assert (Hob : outb lab' other = false).
        { destruct (outb lab' other) eqn:E; [|reflexivity]. exfalso.
          apply outerv_outb, vl_outer in E. destruct E as [E|E]; [contradiction | contradiction]. }
        rewrite Hob. unfold fin'. apply nth_error_upd_eq. rewrite (si_finlen _ _ _ _ _ I). lia.
      * cbn [app] in Hp. injection Hp as <- Hp. destruct p1 as [|x2 p1].
        -- cbn [app] in Hp. injection Hp as <- _. exfalso. destruct Hz as [Hz|Hz]; contradiction.
        -- cbn [app] in Hp. injection Hp as <- Hp.
           assert (Hzin : In z (pth outer)) by (rewrite Hp; apply in_or_app; right; left; reflexivity).
           assert (Hzm : z <> mv) by (intros ->; contradiction).
           destruct Hz as [Hz|Hz]; [contradiction|].
           rewrite Hfin_ne by exact Hzm. rewrite vl_fno.
           ++ apply (si_fin _ _ _ _ _ I outer p1 z p2 Houter Hp Hz).
           ++ intros Hin. apply Nm. rewrite Hp. apply in_or_app; right; right; exact Hin.
    + destruct Hu as [->|Hu]; [contradiction|]. rewrite vl_pth_ne in Hp by exact Hn.
      destruct (vl_notin u Hu) as [Nm No].
      assert (Hzm : z <> mv).
      { intros ->. apply Nm. rewrite Hp. apply in_or_app; right; left; reflexivity. }
      destruct Hz as [Hz|Hz]; [contradiction|].
      rewrite Hfin_ne by exact Hzm. rewrite vl_fno.
      * apply (si_fin _ _ _ _ _ I u p1 z p2 Hu Hp Hz).
      * intros Hin. apply Nm. rewrite Hp. apply in_or_app; right; right; exact Hin.
  - intros u f Hu Hf Hnf. apply vl_outer in Hu.
    assert (Hfm : f <> mv) by (intros ->; apply Hnf; apply vl_outer; left; reflexivity).
    assert (Hnf' : ~ outerv (lab s) f) by (intros H; apply Hnf; apply vl_outer; right; exact H).
    assert (Hold : forall y, outerv (lab s) y -> In f (pth y) ->
              exists pre o x, pth y = pre ++ pth' o /\ (exists k, length pre = 2 * k) /\
                              pth' o = o :: f :: pth' x /\
                              nth_error lab' o = Some (LVertex x)).
    { intros y Hy Hfy. destruct (si_inner _ _ _ _ _ I y f Hy Hfy Hnf') as [pre [o [x [H1 [Hev [H2 H3]]]]]].
      assert (Hoo : outerv (lab s) o) by (exists (LVertex x); auto).
      destruct (lo_vertex HL o x H3) as [Hxo _].
      exists pre, o, x. rewrite (vl_pth_ne o (vl_old_ne o Hoo)), (vl_pth_ne x (vl_old_ne x Hxo)).
      rewrite vl_nth_ne by (apply vl_old_ne; exact Hoo). auto. }
    destruct (Nat.eq_dec u mv) as [->|Hn].
    + rewrite vl_pth_mv in Hf. destruct Hf as [E|[<-|Hf]]; [congruence| |].
      * exists [], mv, outer. rewrite vl_pth_mv, (vl_pth_ne outer Hom), vl_nth, Nat.eqb_refl.
        split; [reflexivity|]. split; [exists 0; reflexivity | auto].
      * destruct (Hold outer Houter Hf) as [pre [o [x [H1 [[k Hk] [H2 H3]]]]]].
        exists (mv :: other :: pre), o, x. rewrite vl_pth_mv, H1.
        split; [reflexivity|]. split; [exists (S k); cbn [length]; lia | auto].
    + destruct Hu as [->|Hu]; [contradiction|]. rewrite vl_pth_ne in * by exact Hn.
      apply (Hold u Hu Hf).
  - intros z e Hz a er Ha He. destruct (Nat.eq_dec z mv) as [->|Hn].
    + rewrite vl_nth, Nat.eqb_refl in Hz. discriminate.
    + rewrite vl_nth_ne in Hz by exact Hn.
      destruct (si_flag _ _ _ _ _ I z e Hz a er Ha He) as [H1 [H2 H3]].
      split; [apply vl_outer; right; exact H1|]. split; [apply vl_outer; right; exact H2|].
      rewrite !Hfin_ne by (apply vl_old_ne; assumption). exact H3.
Qed.

End VertexLabel.

Print Assumptions init_SInv.
Print Assumptions vl_SI.
