(* C20c, part 2: at most two colours on a 2-colourable view (D4), the checker dsatur_from decides
   "a possible output" (D5), what the differential run's verdict implies, and the heap (D6). *)
From PG Require Import Lib.Io Model.View Model.MiscM Spec.Reach Spec.MiscSpec Model.DsaturM
                       Spec.DsaturSpec Proofs.MiscColorP Proofs.DsaturP.

(* ------------------------------------------------------------------ *)
(* D4: two colours on 2-colourable views                                *)

Definition b2n (b : bool) : nat := if b then 1 else 0.

(* some proper 2-colouring of the whole view (self-loops ignored) extends the state *)
Definition Inv2 (v : view) (col : list (nat * nat)) : Prop :=
  exists g : nat -> bool,
    (forall a b, In a (vnodes v) -> In b (neighbors v a) -> a <> b -> g a <> g b) /\
    forall x c, In (x, c) col -> c = b2n (g x).

Lemma saturation_0 v col y : saturation v col y = 0 -> adj_colors v col y = [].
Proof. unfold saturation. apply dedup_length_0. Qed.

Lemma Inv2_step v a b : nodes_ok v -> symmetric v -> StOk v a -> Inv2 v a -> dsatur_step v a b -> Inv2 v b.
Proof.
  intros Hno Hs [Hnd Hincl] [g [Hg Hcol]] Hst. destruct Hst as [col x Hx].
  apply candidates_iff in Hx. destruct Hx as [Hxu Hmax].
  pose proof Hxu as Hxu'. apply uncolored_iff in Hxu'. destruct Hxu' as [Hxn Hxc].
  destruct (next_color_spec v col x) as [Hfree Hbelow].
  destruct (adj_colors v col x) as [|c0 used] eqn:Eadj.
  - (* saturation 0: a new component is started; nobody uncoloured has a coloured neighbour *)
    assert (Er : next_color v col x = 0).
    { destruct (next_color v col x) as [|r]; [reflexivity|]. destruct (Hbelow 0); lia. }
    rewrite Er.
    assert (Hsat0 : forall y, In y (uncolored v col) -> adj_colors v col y = []).
    { intros y Hy. apply saturation_0. specialize (Hmax y Hy). apply score_le_iff in Hmax.
      unfold score in Hmax. cbn [fst snd] in Hmax. unfold saturation at 2 4 in Hmax.
      rewrite Eadj in Hmax. cbn [dedup length] in Hmax. lia. }
    exists (fun z => if mem z (map fst col) then g z else xorb (g z) (g x)). split.
    + intros a b Ha Hb Hne. destruct (Hno a b Hb) as [_ Hbn].
      destruct (mem a (map fst col)) eqn:Ea; destruct (mem b (map fst col)) eqn:Eb.
      * apply Hg; assumption.
      * exfalso. apply mem_In in Ea. apply mem_false in Eb.
        destruct (In_fst_exists col a Ea) as [ca Hca].
        assert (Hin : In ca (adj_colors v col b)) by (apply adj_colors_iff; exists a; split; assumption).
        rewrite (Hsat0 b) in Hin; [exact Hin | apply uncolored_iff; split; assumption].
      * exfalso. apply mem_In in Eb. apply mem_false in Ea.
        destruct (In_fst_exists col b Eb) as [cb Hcb].
        assert (Hin : In cb (adj_colors v col a)).
        { apply adj_colors_iff. exists b. split; [exact Hcb | apply Hs, Hb]. }
        rewrite (Hsat0 a) in Hin; [exact Hin | apply uncolored_iff; split; assumption].
      * specialize (Hg a b Ha Hb Hne). destruct (g a), (g b), (g x); cbn; congruence.
    + intros z c [E|Hin].
      * injection E as <- <-. apply mem_false in Hxc. rewrite Hxc. rewrite xorb_nilpotent. reflexivity.
      * assert (Hz : mem z (map fst col) = true).
        { apply mem_In, in_map_iff. exists (z, c). split; [reflexivity | exact Hin]. }
        rewrite Hz. apply Hcol, Hin.
  - (* a coloured neighbour exists: all of them sit on the other side, with one colour *)
    exists g. split; [exact Hg|].
    assert (Hused : forall c, In c (c0 :: used) -> c = b2n (negb (g x))).
    { intros c Hc. rewrite <- Eadj in Hc. apply adj_colors_iff in Hc. destruct Hc as [y [Hin Hxy]].
      assert (Hyc : In y (map fst col)) by (apply in_map_iff; exists (y, c); split; [reflexivity | exact Hin]).
      assert (Hne : y <> x) by (intros ->; contradiction).
      specialize (Hg y x (Hincl y Hyc) Hxy Hne). rewrite (Hcol y c Hin).
      destruct (g y), (g x); cbn; congruence. }
    intros z c [E|Hin]; [|apply Hcol, Hin]. injection E as <- <-.
    pose proof (Hused c0 (or_introl eq_refl)) as Hc0.
    destruct (g x); cbn [negb b2n] in *.
    + (* every coloured neighbour has colour 0 *)
      destruct (next_color v col x) as [|[|r]]; [|reflexivity|].
      * exfalso. apply Hfree. left. exact Hc0.
      * exfalso. assert (H1 : In 1 (c0 :: used)) by (apply Hbelow; lia). apply Hused in H1. discriminate.
    + destruct (next_color v col x) as [|r]; [reflexivity|].
      exfalso. assert (H0 : In 0 (c0 :: used)) by (apply Hbelow; lia). apply Hused in H0. discriminate.
Qed.

Lemma Inv2_reachable v col : nodes_ok v -> symmetric v -> TwoColourableNL v ->
  dsatur_steps v [] col -> Inv2 v col.
Proof.
  intros Hno Hs [g Hg] H.
  assert (HP : StOk v col /\ Inv2 v col); [|apply HP].
  apply (steps_inv v (fun c => StOk v c /\ Inv2 v c)) with (a := []) (2 := H).
  - intros a b [H1 H2] Hst. split; [eapply StOk_step; eassumption | eapply Inv2_step; eassumption].
  - split; [apply StOk_nil|]. exists g. split; [exact Hg | intros x c []].
Qed.

Lemma Inv2_count v col : Inv2 v col -> color_count col <= 2.
Proof.
  intros [g [_ Hcol]]. destruct col as [|p t]; [cbn; lia|].
  destruct (color_count_spec (p :: t)) as [[m [Em Hm]] _]; [discriminate|].
  apply in_map_iff in Hm. destruct Hm as [[x c] [E Hin]]. cbn in E. subst c.
  rewrite Em, (Hcol x m Hin). destruct (g x); cbn; lia.
Qed.

(* every reachable state (a fortiori every complete run) uses at most two colours *)
Lemma reachable_two_colours v col : nodes_ok v -> symmetric v -> TwoColourableNL v ->
  dsatur_steps v [] col -> color_count col <= 2.
Proof. intros Hno Hs H2 H. eapply Inv2_count, Inv2_reachable; eassumption. Qed.

Lemma TwoColourable_NL v : TwoColourable v -> TwoColourableNL v.
Proof. intros [g Hg]. exists g. intros a b Ha Hb _. apply Hg; assumption. Qed.

(* ------------------------------------------------------------------ *)
(* D5: the checker                                                      *)

(* pairs put on top of a state do not change the colours it gave *)
Lemma assoc_col_app_old e a x : ~ In x (map fst e) -> assoc_col (e ++ a) x = assoc_col a x.
Proof.
  induction e as [|[k c] t IH]; cbn [app map fst In assoc_col]; [reflexivity|]. intros H.
  destruct (Nat.eqb_spec k x) as [->|Hne]; [exfalso; apply H; left; reflexivity|].
  apply IH. intros Hin. apply H. right. exact Hin.
Qed.

Lemma steps_keep v a c x : StOk v a -> dsatur_steps v a c -> In x (map fst a) ->
  assoc_col c x = assoc_col a x.
Proof.
  intros Ha Hs Hx. pose proof (StOk_steps v a c Hs Ha) as [Hnd _].
  destruct (steps_ext v a c Hs) as [e ->]. apply assoc_col_app_old.
  rewrite map_app in Hnd. intros Hin.
  revert Hnd Hin Hx. generalize (map fst e) (map fst a). intros l1 l2 Hnd H1 H2.
  induction l1 as [|h t IH]; [destruct H1|]. cbn [app] in Hnd. inversion Hnd as [|? ? Hh Ht]; subst.
  destruct H1 as [->|H1]; [apply Hh, in_or_app; right; exact H2 | apply IH; assumption].
Qed.

(* the relation the checker decides, from any state *)
Definition run_to (v : view) (target col : list (nat * nat)) : Prop :=
  exists col', dsatur_steps v col col' /\ uncolored v col' = [] /\
               forall x, In x (vnodes v) -> ~ In x (map fst col) -> assoc_col col' x = assoc_col target x.

Lemma dsatur_from_sound v target : forall fuel col, StOk v col ->
  dsatur_from fuel v target col = true -> run_to v target col.
Proof.
  induction fuel as [|f IH]; intros col Hok; cbn [dsatur_from].
  - destruct (uncolored v col) as [|u0 ut] eqn:E; [|discriminate]. intros _.
    exists col. split; [apply dss_refl|]. split; [exact E|]. intros x Hx Hc. exfalso.
    assert (H : In x (uncolored v col)) by (apply uncolored_iff; split; assumption). rewrite E in H. exact H.
  - destruct (uncolored v col) as [|u0 ut] eqn:E.
    + intros _. exists col. split; [apply dss_refl|]. split; [exact E|]. intros x Hx Hc. exfalso.
      assert (H : In x (uncolored v col)) by (apply uncolored_iff; split; assumption). rewrite E in H. exact H.
    + intros H. apply existsb_exists in H. destruct H as [x [Hx H]].
      destruct (assoc_col target x) as [c|] eqn:Et; [|discriminate].
      apply andb_true_iff in H. destruct H as [Hc Hrec]. apply Nat.eqb_eq in Hc. subst c.
      assert (Hstep : dsatur_step v col ((x, next_color v col x) :: col)) by (apply ds_step, Hx).
      pose proof (StOk_step v _ _ Hok Hstep) as Hok'.
      destruct (IH _ Hok' Hrec) as [col' [Hs [Hu Hag]]].
      exists col'. split; [eapply dss_step; eassumption|]. split; [exact Hu|].
      intros y Hy Hyc. destruct (Nat.eq_dec x y) as [<-|Hne].
      * rewrite (steps_keep v _ col' x Hok' Hs); [|left; reflexivity].
        cbn [assoc_col]. rewrite Nat.eqb_refl. symmetry. exact Et.
      * apply Hag; [exact Hy|]. cbn [map fst In]. tauto.
Qed.

Lemma dsatur_from_complete v target : forall fuel col, StOk v col ->
  length (uncolored v col) <= fuel -> run_to v target col -> dsatur_from fuel v target col = true.
Proof.
  induction fuel as [|f IH]; intros col Hok Hlen [col' [Hs [Hu Hag]]]; cbn [dsatur_from].
  - destruct (uncolored v col); [reflexivity | cbn in Hlen; lia].
  - destruct (uncolored v col) as [|u0 ut] eqn:E; [reflexivity|].
    destruct Hs as [col|col b col' Hst Hss]; [rewrite Hu in E; discriminate|].
    pose proof (StOk_step v _ _ Hok Hst) as Hok'. destruct Hst as [col x Hx].
    apply existsb_exists. exists x. split; [exact Hx|].
    pose proof (candidates_uncolored v col x Hx) as Hxu.
    pose proof Hxu as Hxu'. apply uncolored_iff in Hxu'. destruct Hxu' as [Hxn Hxc].
    rewrite <- (Hag x Hxn Hxc).
    rewrite (steps_keep v _ col' x Hok' Hss); [|left; reflexivity].
    cbn [assoc_col]. rewrite Nat.eqb_refl, Nat.eqb_refl. cbn [andb].
    apply IH; [exact Hok'| |].
    + pose proof (uncolored_decreases v col x (next_color v col x) Hxu) as Hd. rewrite E in Hd. cbn [length] in Hd, Hlen. lia.
    + exists col'. split; [exact Hss|]. split; [exact Hu|]. intros y Hy Hyc.
      apply Hag; [exact Hy|]. cbn [map fst In] in Hyc. tauto.
Qed.

Lemma filter_len {A} (p : A -> bool) l : length (filter p l) <= length l.
Proof. induction l as [|h t IH]; cbn [filter length]; [lia|]. destruct (p h); cbn [length]; lia. Qed.

Lemma uncolored_nil_length v : length (uncolored v []) <= length (vnodes v).
Proof. unfold uncolored. apply filter_len. Qed.

Theorem dsatur_from_iff v target :
  dsatur_from (length (vnodes v)) v target [] = true <->
  exists col, dsatur_output v col /\ agree_on v col target.
Proof.
  split.
  - intros H. destruct (dsatur_from_sound v target _ [] (StOk_nil v) H) as [col [Hs [Hu Hag]]].
    exists col. split; [split; assumption|]. intros x Hx. apply Hag; [exact Hx | intros []].
  - intros [col [[Hs Hu] Hag]]. apply dsatur_from_complete; [apply StOk_nil | apply uncolored_nil_length|].
    exists col. split; [exact Hs|]. split; [exact Hu|]. intros x Hx _. apply Hag, Hx.
Qed.

(* all complete runs from a state *)
Fixpoint dsatur_runs (fuel : nat) (v : view) (col : list (nat * nat)) : list (list (nat * nat)) :=
  match uncolored v col with
  | [] => [col]
  | _ :: _ =>
      match fuel with
      | O => []
      | S f => flat_map (fun x => dsatur_runs f v ((x, next_color v col x) :: col)) (candidates v col)
      end
  end.

Lemma dsatur_runs_sound v : forall fuel col col',
  In col' (dsatur_runs fuel v col) -> dsatur_steps v col col' /\ uncolored v col' = [].
Proof.
  induction fuel as [|f IH]; intros col col'; cbn [dsatur_runs].
  - destruct (uncolored v col) eqn:E; [|intros []]. intros [<-|[]]. split; [apply dss_refl | exact E].
  - destruct (uncolored v col) eqn:E.
    + intros [<-|[]]. split; [apply dss_refl | exact E].
    + intros H. apply in_flat_map in H. destruct H as [x [Hx H]]. destruct (IH _ _ H) as [Hs Hu].
      split; [|exact Hu]. eapply dss_step; [apply ds_step, Hx | exact Hs].
Qed.

Lemma dsatur_runs_complete v : forall fuel col col', length (uncolored v col) <= fuel ->
  dsatur_steps v col col' -> uncolored v col' = [] -> In col' (dsatur_runs fuel v col).
Proof.
  induction fuel as [|f IH]; intros col col' Hlen Hs Hu; cbn [dsatur_runs].
  - destruct (uncolored v col) eqn:E; [|cbn in Hlen; lia].
    destruct Hs as [col|col b col' Hst Hss]; [left; reflexivity|]. exfalso.
    destruct Hst as [col x Hx]. apply candidates_uncolored in Hx. rewrite E in Hx. exact Hx.
  - destruct (uncolored v col) as [|u0 ut] eqn:E.
    + destruct Hs as [col|col b col' Hst Hss]; [left; reflexivity|]. exfalso.
      destruct Hst as [col x Hx]. apply candidates_uncolored in Hx. rewrite E in Hx. exact Hx.
    + destruct Hs as [col|col b col' Hst Hss]; [rewrite Hu in E; discriminate|].
      destruct Hst as [col x Hx]. apply in_flat_map. exists x. split; [exact Hx|].
      apply IH; [|exact Hss | exact Hu].
      pose proof (uncolored_decreases v col x (next_color v col x) (candidates_uncolored v col x Hx)) as Hd.
      rewrite E in Hd. cbn [length] in Hd, Hlen. lia.
Qed.

Theorem dsatur_runs_iff v col :
  In col (dsatur_runs (length (vnodes v)) v []) <-> dsatur_output v col.
Proof.
  split; [apply dsatur_runs_sound|]. intros [Hs Hu].
  apply dsatur_runs_complete; [apply uncolored_nil_length | exact Hs | exact Hu].
Qed.

(* ------------------------------------------------------------------ *)
(* what an accepted colouring satisfies                                 *)

Lemma agree_colours_incl v A B : ColTotal v A -> ColTotal v B ->
  (forall x, In x (vnodes v) -> assoc_col A x = assoc_col B x) ->
  forall c, In c (map snd A) -> In c (map snd B).
Proof.
  intros [HndA HA] [HndB HB] Hag c Hc. apply in_map_iff in Hc. destruct Hc as [[x c0] [E Hin]]. cbn in E. subst c0.
  assert (Hx : In x (vnodes v)).
  { apply HA. apply in_map_iff. exists (x, c). split; [reflexivity | exact Hin]. }
  pose proof (In_assoc_col A x c HndA Hin) as Ha. rewrite (Hag x Hx) in Ha.
  apply assoc_col_Some in Ha. apply in_map_iff. exists (x, c). split; [reflexivity | exact Ha].
Qed.

Lemma agree_same_colours v col target : ColTotal v col -> ColTotal v target -> agree_on v col target ->
  forall c, In c (map snd col) <-> In c (map snd target).
Proof.
  intros Hc Ht Hag c. split.
  - apply (agree_colours_incl v col target Hc Ht Hag).
  - apply (agree_colours_incl v target col Ht Hc). intros x Hx. symmetry. apply Hag, Hx.
Qed.

Lemma Grundy_transfer v col target : nodes_ok v -> ColTotal v target -> agree_on v col target ->
  Grundy v col -> Grundy v target.
Proof.
  intros Hno [_ Ht] Hag HG x c Hx c' Hc'.
  assert (Hxn : In x (vnodes v)).
  { apply Ht. apply assoc_col_Some in Hx. apply in_map_iff. exists (x, c). split; [reflexivity | exact Hx]. }
  rewrite <- (Hag x Hxn) in Hx. destruct (HG x c Hx c' Hc') as [y [Hy Hyc]].
  exists y. split; [exact Hy|]. rewrite <- (Hag y); [exact Hyc|]. apply (Hno y x Hy).
Qed.

Theorem possible_implies v target k : nodes_ok v -> symmetric v -> ColTotal v target ->
  dsatur_possible v target k = true ->
  ColProper v target /\ ColRange target k /\ Grundy v target /\ k <= max_degree v + 1 /\
  (TwoColourableNL v -> k <= 2).
Proof.
  intros Hno Hs Ht H. unfold dsatur_possible in H. apply andb_true_iff in H. destruct H as [H Hk].
  apply Nat.eqb_eq in Hk. apply dsatur_from_iff in H. destruct H as [col [Hout Hag]].
  pose proof (output_total v col Hout) as Hc. pose proof Hout as [Hr _].
  assert (HR : ColRange target (color_count col)).
  { intros c. rewrite <- (agree_same_colours v col target Hc Ht Hag c). apply (reachable_range v col Hr). }
  assert (Hcc : color_count target = color_count col) by (apply ColRange_color_count, HR).
  rewrite Hk, Hcc. split; [|split; [exact HR|split; [|split]]].
  - intros a b Ha Hb Hne. destruct (output_proper v col Hno Hs Hout a b Ha Hb Hne) as [ca [cb [Ea [Eb Hd]]]].
    exists ca, cb. rewrite <- (Hag a Ha), <- (Hag b (proj2 (Hno a b Hb))). split; [exact Ea|]. split; [exact Eb | exact Hd].
  - apply (Grundy_transfer v col target Hno Ht Hag). apply Grundy_reachable, Hr.
  - apply reachable_count_bound; assumption.
  - intros H2. apply (reachable_two_colours v col Hno Hs H2 Hr).
Qed.

(* so the machine check subsumes the colouring checker *)
Theorem possible_implies_coloring_check v target k : VOk v -> symmetric v -> ColTotal v target ->
  dsatur_possible v target k = true -> coloring_check v target k = 0.
Proof.
  intros Hv Hs Ht H. destruct Hv as [Hcap [Hno Hio]].
  destruct (possible_implies v target k Hno Hs Ht H) as [H1 [H2 [_ [_ H3]]]].
  apply (coloring_check_iff target k (conj Hcap (conj Hno Hio)) Hs).
  split; [exact Ht|]. split; [exact H1|]. split; [exact H2|]. intros H4. apply H3, TwoColourable_NL, H4.
Qed.

(* ------------------------------------------------------------------ *)
(* D6: the heap                                                         *)

Lemma heap_init_ok v : heap_ok v [] (heap_init v).
Proof.
  split.
  - intros x Hx. apply uncolored_iff in Hx. unfold heap_init. apply in_map_iff. exists x.
    split; [reflexivity | apply Hx].
  - intros s x Hin _. unfold heap_init in Hin. apply in_map_iff in Hin. destruct Hin as [y [E _]].
    injection E as <- <-. apply score_le_refl.
Qed.

(* the entry the loop uses belongs to a candidate of the machine, and carries its current score *)
Lemma heap_pops_candidate v col h s x : heap_ok v col h -> heap_pops v col h s x ->
  In x (candidates v col) /\ s = score v col x.
Proof.
  intros [Hcur Hstale] [Hin [Hx Hmax]].
  assert (Es : s = score v col x).
  { apply score_le_antisym; [apply Hstale; assumption | apply (Hmax _ x (Hcur x Hx) Hx)]. }
  split; [|exact Es]. apply candidates_iff. split; [exact Hx|]. intros y Hy.
  rewrite <- Es. apply (Hmax _ y (Hcur y Hy) Hy).
Qed.

Lemma score_mono v col x c y : score_le (score v col y) (score v ((x, c) :: col) y) = true.
Proof.
  apply score_le_iff. unfold score, saturation. cbn [fst snd]. rewrite adj_colors_cons.
  pose proof (dedup_app_le (if mem y (neighbors v x) then [c] else []) (adj_colors v col y)). lia.
Qed.

(* the pushes of the loop body keep the heap in order *)
Lemma heap_after_ok v col x c h h' : heap_ok v col h -> heap_after v col x c h h' ->
  heap_ok v ((x, c) :: col) h'.
Proof.
  intros [Hcur Hstale] [Hkeep [Hnew Honly]].
  assert (Hun : forall y, In y (uncolored v ((x, c) :: col)) -> In y (uncolored v col) /\ y <> x).
  { intros y Hy. apply uncolored_iff in Hy. cbn [map fst In] in Hy. split; [apply uncolored_iff; tauto|].
    intros ->. tauto. }
  split.
  - intros y Hy. destruct (Hun y Hy) as [Hy0 Hne]. destruct (mem y (neighbors v x)) eqn:E.
    + apply Hnew, mem_In, E.
    + assert (Es : score v ((x, c) :: col) y = score v col y).
      { unfold score, saturation. rewrite adj_colors_cons, E. reflexivity. }
      rewrite Es. apply Hkeep; [apply Hcur, Hy0 | exact Hne].
  - intros s y Hin Hy. destruct (Hun y Hy) as [Hy0 _]. destruct (Honly _ Hin) as [Hold|[y0 [_ E]]].
    + eapply score_le_trans; [apply Hstale; eassumption | apply score_mono].
    + injection E as -> ->. apply score_le_refl.
Qed.

(* one iteration of the loop that colours a node is a step of the machine *)
Theorem heap_simulation v col h s x h' : heap_ok v col h -> heap_pops v col h s x ->
  heap_after v col x (next_color v col x) h h' ->
  dsatur_step v col ((x, next_color v col x) :: col) /\ heap_ok v ((x, next_color v col x) :: col) h'.
Proof.
  intros Hok Hpop Haft. split.
  - apply ds_step. apply (heap_pops_candidate v col h s x Hok Hpop).
  - apply (heap_after_ok v col x _ h h' Hok Haft).
Qed.

(* conversely every candidate of the machine can be the node the loop uses *)
Lemma heap_candidate_pops v col h x : heap_ok v col h -> In x (candidates v col) ->
  heap_pops v col h (score v col x) x.
Proof.
  intros [Hcur Hstale] Hx. apply candidates_iff in Hx. destruct Hx as [Hxu Hmax].
  split; [apply Hcur, Hxu|]. split; [exact Hxu|]. intros s' x' Hin Hx'.
  eapply score_le_trans; [apply Hstale; eassumption | apply Hmax, Hx'].
Qed.

(* ------------------------------------------------------------------ *)
(* the statements of Props/C20c.v                                       *)

Theorem machine_never_stuck v :
  (forall col, uncolored v col <> [] -> candidates v col <> []) /\
  (forall col, exists col', dsatur_steps v col col' /\ uncolored v col' = []) /\
  (exists col, dsatur_output v col) /\
  (forall col, dsatur_output v col ->
     ColTotal v col /\ (NoDup (vnodes v) -> length col = length (vnodes v))).
Proof.
  split; [apply candidates_nonempty|]. split; [|split; [apply output_exists|]].
  - intros col. apply (run_exists_from v _ col (le_n _)).
  - intros col Hout. pose proof (output_total v col Hout) as Ht. split; [exact Ht|].
    intros Hn. apply ColTotal_length; assumption.
Qed.

Theorem reachable_grundy v col : dsatur_steps v [] col ->
  Grundy v col /\ ColRange col (color_count col) /\
  (symmetric v -> color_count col <= max_degree v + 1).
Proof.
  intros H. split; [apply Grundy_reachable, H|]. split; [apply (reachable_range v col H)|].
  intros Hs. apply reachable_count_bound; assumption.
Qed.

Theorem output_two_colours v col : nodes_ok v -> symmetric v -> TwoColourableNL v ->
  dsatur_output v col -> color_count col <= 2.
Proof. intros Hno Hs H2 [Hr _]. apply (reachable_two_colours v col Hno Hs H2 Hr). Qed.

Theorem output_two_colours_strict v col : nodes_ok v -> symmetric v -> TwoColourable v ->
  dsatur_output v col -> color_count col <= 2.
Proof. intros Hno Hs H2. apply output_two_colours; [assumption | assumption | apply TwoColourable_NL, H2]. Qed.

(* ------------------------------------------------------------------ *)
(* undirected example views from an edge list                           *)

Definition uview (n : nat) (es : list (nat * nat)) : view :=
  let ies := combine (seq 0 (length es)) es in
  let o := map (fun a => (a, flat_map (fun '(i, (s, t)) =>
                 (if Nat.eqb s a then [(i, t, 1%Z)] else []) ++
                 (if andb (Nat.eqb t a) (negb (Nat.eqb s t)) then [(i, s, 1%Z)] else [])) ies)) (seq 0 n) in
  mkView false n (Some n) (seq 0 n) o o (length es) (length es)
         (map (fun '(i, (s, t)) => (i, s, t, 1%Z)) ies).
