(* The operation decoder of Model/StableIO.v against the operation type of Proofs/StableH2.v:
   the state after StableIO.step is the state after step2 on the decoded operation. *)
From PG Require Import Lib.Io Lib.ListArr Model.GraphM Model.StableM Model.StableIO
  Proofs.StableP Proofs.StableH Proofs.StableU Proofs.StableX Proofs.StableFM Proofs.StableH2.

Section Link.
  Variable cap : nat.
  Variable capcheck : bool.
  Variable debug : bool.

  (* the state-changing codes and the two find_edge queries; every other code is a query that
     returns the state unchanged *)
  Definition decode2 (o : line) : option sop2 :=
    let '(code, a) := o in
    match code with
    | 0 | 1 => Some (PAddNode (arg a 0))
    | 2 | 3 => Some (PAddEdge (arg a 0) (arg a 1) (arg a 2))
    | 4 | 5 => Some (PUpdateEdge (arg a 0) (arg a 1) (arg a 2))
    | 6 => Some (PRemoveNode (arg a 0))
    | 7 => Some (PRemoveEdge (arg a 0))
    | 8 => Some PReverse
    | 9 => Some PClear
    | 10 => Some PClearEdges
    | 11 => Some (PRetainNodes (keepmod (arg a 0) (arg a 1)))
    | 12 => Some (PRetainEdges (keepmod (arg a 0) (arg a 1)))
    | 13 => Some (PExtend (triples a))
    | 14 => Some (PFilterMap (fun w => if keepmod (arg a 0) (arg a 1) w then Some (S w) else None)
                             (fun w => if keepmod (arg a 2) (arg a 3) w then Some (S w) else None))
    | 15 => Some (PMap S)
    | 16 => Some (PSetNodeWeight (arg a 0) (arg a 1))
    | 17 => Some (PSetEdgeWeight (arg a 0) (arg a 1))
    | 21 => Some (PFindEdge (arg a 0) (arg a 1))
    | 22 => Some (PFindEdgeUndirected (arg a 0) (arg a 1))
    | 27 => Some PToFromGraph
    | _ => None
    end.

  Definition next2 (d : bool) (s : sgraph) (p : option sop2) : sgraph :=
    match p with
    | Some p => match step2 cap capcheck debug d s p with Ok (_, s') => s' | _ => s end
    | None => s
    end.

  Ltac crush :=
    cbn [fst rbind]; try reflexivity;
    match goal with
    | |- context [s_filter_map ?a ?b ?c ?f ?g ?h] => destruct (s_filter_map a b c f g h); crush
    | |- context [match ?x with _ => _ end] =>
        lazymatch x with
        | context [match _ with _ => _ end] => fail
        | _ => destruct x; crush
        end
    end.

  Theorem step_state d s o :
    fst (step cap capcheck debug d s o) = next2 d s (decode2 o).
  Proof.
    destruct o as [code a].
    let rec go n :=
      lazymatch n with
      | 0 => idtac
      | S ?m => destruct code as [|code];
                [cbn [step decode2 next2 step2]; unfold mutr, rmap; crush|go m]
      end in go 28.
    reflexivity.
  Qed.

  Fixpoint states (d : bool) (s : sgraph) (ops : list line) : sgraph :=
    match ops with
    | [] => s
    | o :: rest => states d (fst (step cap capcheck debug d s o)) rest
    end.

  (* the harness's own run function with checked indices: every state it goes through satisfies
     the invariant *)
  Theorem states_inv d ops : forall s,
    capcheck = true -> SInv cap s -> SInv cap (states d s ops).
  Proof.
    induction ops as [|o ops IH]; intros s Hc I; cbn [states]; auto.
    apply IH; auto.
    rewrite step_state.
    unfold next2. destruct (decode2 o) as [p|]; auto.
    destruct (@step2_ok cap capcheck debug d s p I) as [r [s' [Hrun [I' _]]]].
    { intros Hf. congruence. }
    rewrite Hrun. exact I'.
  Qed.
End Link.
