(* C17, StableGraph side, part 2: StableGraph::deserialize is total (never panics, never runs out
   of fuel), returns an error or a graph satisfying SInv whose slots are exactly those denoted by
   the wire value; exact acceptance condition. *)
From PG Require Import Lib.ListArr Lib.ListExtra Lib.Walk Model.GraphM Model.StableM Model.SerdeM
  Spec.SerdeSpec Proofs.GraphP Proofs.GraphRE Proofs.GraphRN Proofs.StableP Proofs.StableE
  Proofs.SerdeGP Proofs.SerdeIL Proofs.SerdeSP.
Set Implicit Arguments.

(* the edge slot built from a wire edge *)
Definition edge0 (cap : nat) (o : option (nat * nat * nat)) : iedge :=
  match o with
  | Some (s, t, w) => mkEdge (Some w) (cap, cap) (s, t)
  | None => mkEdge None (cap, cap) (cap, cap)
  end.

(* slot contents of a wire value *)
Definition slot_at (slots : list (option nat)) (i : nat) : option nat :=
  match nth_error slots i with Some o => o | None => None end.
Definition wedge_at (es : list (option (nat * nat * nat))) (x : nat) : option (nat * nat * nat) :=
  match nth_error es x with Some o => o | None => None end.

Section SerdeSQ.
  Variable cap : nat.
  Variable capcheck : bool.

  (* what a successful load returns *)
  Definition loaded (slots : list (option nat)) (es : list (option (nat * nat * nat))) (s : sgraph) : Prop :=
    SInv cap s /\
    map (@nwt _) (gnodes (sg s)) = slots /\
    map edata (gedges (sg s)) = map edata (map (edge0 cap) es).

  Definition ends_ok (slots : list (option nat)) (es : list (option (nat * nat * nat))) : Prop :=
    forall a b x, In (Some (a, b, x)) es -> occupied slots a /\ occupied slots b.

  Definition build (slots : list (option nat)) (es : list (option (nat * nat * nat))) : res (option sgraph) :=
    let nodes := map (fun o => mkNode o (cap, cap)) slots in
    let edges := map (edge0 cap) es in
    rbind (link_free_nodes cap nodes 0 cap (mkGraph nodes edges)) (fun '(g1, fn, nc) =>
      link_stable_edges cap edges 0 (mkSG g1 nc 0 fn cap)).

  Lemma deser_stable_unfold directed (w : wire) :
    deser_stable cap capcheck directed w =
    if negb (Bool.eqb (w_directed w) directed) then Ok None
    else if too_long cap capcheck (length (w_edges w)) then Ok None
    else match interleave (w_holes w) (w_nodes w) 0 (length (w_nodes w) + length (w_holes w)) [] with
         | None => Ok None
         | Some slots => if too_long cap capcheck (length slots) then Ok None
                         else build slots (w_edges w)
         end.
  Proof. reflexivity. Qed.

  Lemma build_spec slots es :
    length slots <= cap -> length es <= cap ->
    (exists s, build slots es = Ok (Some s) /\ loaded slots es s /\ ends_ok slots es) \/
    (build slots es = Ok None /\ ~ ends_ok slots es).
  Proof.
    intros HN HM. unfold build.
    set (nodes0 := map (fun o => mkNode o (cap, cap)) slots).
    set (edges0 := map (edge0 cap) es).
    assert (HM' : length edges0 <= cap) by (unfold edges0; rewrite map_length; auto).
    destruct (@lfn_ok cap slots edges0 HN nodes0 0 cap (mkGraph nodes0 edges0))
      as [g1 [fn [Hrun1 I1]]].
    { apply NInv_init. auto. }
    { intros j. reflexivity. }
    { unfold nodes0. rewrite map_length. reflexivity. }
    assert (Hns : nsome (map (@nwt _) nodes0) = nsome slots) by (unfold nodes0; rewrite nodes0_nwt; reflexivity).
    rewrite Hns in Hrun1. rewrite Hrun1. cbn [rbind].
    pose proof (EInv_init HM' I1 HN) as E0.
    destruct (@lse_spec cap slots edges0 HM' edges0 0 _ E0)
      as [[s' [Hrun2 [E' Hocc]]]|[Hrun2 [e [Hin [Hw Hn]]]]].
    { intros j. reflexivity. }
    { reflexivity. }
    - left. exists s'. split; [exact Hrun2|]. split.
      + split; [eapply EInv_final; eauto|]. split; [apply (ei_nwt E')|apply (ei_data E')].
      + intros a b x Hin.
        assert (Hin' : In (edge0 cap (Some (a, b, x))) edges0) by (apply in_map; auto).
        apply (Hocc _ Hin'). cbn [edge0 ewt]. discriminate.
    - right. split; [exact Hrun2|]. intros Hends. apply Hn.
      apply in_map_iff in Hin. destruct Hin as [o [<- Ho]].
      destruct o as [[[a b] x]|]; [|exfalso; apply Hw; reflexivity].
      apply (Hends a b x Ho).
  Qed.

  (* ---------------- T3 ---------------- *)

  Theorem deser_stable_accepts directed (w : wire) slots :
    (capcheck = false -> length (w_nodes w) + length (w_holes w) <= cap /\ length (w_edges w) <= cap) ->
    stable_wire_ok cap capcheck directed w slots ->
    exists s, deser_stable cap capcheck directed w = Ok (Some s) /\ loaded slots (w_edges w) s.
  Proof.
    intros Hcap [Hd [Hfe [Hho [Hsp [Hfs Hends]]]]].
    assert (Hsl : length slots = length (w_nodes w) + length (w_holes w)) by apply Hsp.
    assert (Hn : length slots <= cap /\ length (w_edges w) <= cap).
    { destruct capcheck eqn:Ec.
      - specialize (Hfe eq_refl). specialize (Hfs eq_refl). lia.
      - rewrite Hsl. auto. }
    rewrite deser_stable_unfold. rewrite Hd, Bool.eqb_reflx. cbn [negb].
    rewrite (proj2 (too_long_false _ _ _) Hfe).
    rewrite (proj2 (interleave_spec _ _ _) (conj Hho Hsp)).
    rewrite (proj2 (too_long_false _ _ _) Hfs).
    destruct (@build_spec slots (w_edges w) (proj1 Hn) (proj2 Hn)) as [[s [Hrun [Hl _]]]|[_ Hbad]].
    - exists s. auto.
    - exfalso. apply Hbad. exact Hends.
  Qed.

  Theorem deser_stable_some_inv directed (w : wire) s :
    (capcheck = false -> length (w_nodes w) + length (w_holes w) <= cap /\ length (w_edges w) <= cap) ->
    deser_stable cap capcheck directed w = Ok (Some s) ->
    exists slots, stable_wire_ok cap capcheck directed w slots /\ loaded slots (w_edges w) s.
  Proof.
    intros Hcap. rewrite deser_stable_unfold. intros H.
    destruct (Bool.eqb (w_directed w) directed) eqn:Hd; [|discriminate]. cbn [negb] in H.
    destruct (too_long cap capcheck (length (w_edges w))) eqn:Hle; [discriminate|].
    destruct (interleave _ _ _ _ _) as [slots|] eqn:Hil; [|discriminate].
    destruct (too_long cap capcheck (length slots)) eqn:Hls; [discriminate|].
    apply interleave_spec in Hil. destruct Hil as [Hho Hsp].
    apply too_long_false in Hle. apply too_long_false in Hls.
    assert (Hsl : length slots = length (w_nodes w) + length (w_holes w)) by apply Hsp.
    assert (Hn : length slots <= cap /\ length (w_edges w) <= cap).
    { destruct capcheck eqn:Ec.
      - specialize (Hle eq_refl). specialize (Hls eq_refl). lia.
      - rewrite Hsl. auto. }
    destruct (@build_spec slots (w_edges w) (proj1 Hn) (proj2 Hn)) as [[s' [Hrun [Hl He]]]|[Hrun _]];
      [|congruence].
    assert (s' = s) by congruence. subst s'.
    exists slots. split; auto.
    split; [apply Bool.eqb_prop; auto|]. split; auto.
  Qed.

  (* never a panic, never out of fuel *)
  Theorem deser_stable_total directed (w : wire) :
    (capcheck = false -> length (w_nodes w) + length (w_holes w) <= cap /\ length (w_edges w) <= cap) ->
    (deser_stable cap capcheck directed w = Ok None /\
       forall slots, ~ stable_wire_ok cap capcheck directed w slots) \/
    (exists s slots, deser_stable cap capcheck directed w = Ok (Some s) /\
       stable_wire_ok cap capcheck directed w slots /\ loaded slots (w_edges w) s).
  Proof.
    intros Hcap.
    assert (Hres : exists r, deser_stable cap capcheck directed w = Ok r).
    { rewrite deser_stable_unfold.
      destruct (negb _); [eauto|]. destruct (too_long _ _ _) eqn:Hle; [eauto|].
      destruct (interleave _ _ _ _ _) as [slots|] eqn:Hil; [|eauto].
      destruct (too_long cap capcheck (length slots)) eqn:Hls; [eauto|].
      apply interleave_spec in Hil. destruct Hil as [Hho Hsp].
      apply too_long_false in Hle. apply too_long_false in Hls.
      assert (Hsl : length slots = length (w_nodes w) + length (w_holes w)) by apply Hsp.
      assert (Hn : length slots <= cap /\ length (w_edges w) <= cap).
      { destruct capcheck eqn:Ec.
        - specialize (Hle eq_refl). specialize (Hls eq_refl). lia.
        - rewrite Hsl. auto. }
      destruct (@build_spec slots (w_edges w) (proj1 Hn) (proj2 Hn)) as [[s' [Hrun _]]|[Hrun _]]; eauto. }
    destruct Hres as [[s|] Hr].
    - right. destruct (deser_stable_some_inv _ _ Hcap Hr) as [slots [Hok Hl]]. exists s, slots. auto.
    - left. split; auto. intros slots Hok.
      destruct (deser_stable_accepts Hcap Hok) as [s [Hr' _]]. congruence.
  Qed.

  Theorem deser_stable_rejects directed (w : wire) :
    (capcheck = false -> length (w_nodes w) + length (w_holes w) <= cap /\ length (w_edges w) <= cap) ->
    (forall slots, ~ stable_wire_ok cap capcheck directed w slots) ->
    deser_stable cap capcheck directed w = Ok None.
  Proof.
    intros Hcap Hno. destruct (deser_stable_total directed w Hcap) as [[H _]|[s [slots [_ [Hok _]]]]]; auto.
    exfalso. eapply Hno; eauto.
  Qed.

  (* the acceptance condition, slot vector eliminated: the conditions one reads off the wire *)
  Theorem stable_wire_ok_iff directed (w : wire) :
    (exists slots, stable_wire_ok cap capcheck directed w slots) <->
    w_directed w = directed /\
    fits cap capcheck (length (w_edges w)) /\
    holes_ok (length (w_nodes w) + length (w_holes w)) (w_holes w) /\
    fits cap capcheck (length (w_nodes w) + length (w_holes w)) /\
    (forall slots, slots_spec (w_holes w) (w_nodes w) slots ->
       forall a b x, In (Some (a, b, x)) (w_edges w) -> occupied slots a /\ occupied slots b).
  Proof.
    split.
    - intros [slots [Hd [Hfe [Hho [Hsp [Hfs Hends]]]]]]. split; auto. split; auto. split; auto.
      assert (Hsl : length slots = length (w_nodes w) + length (w_holes w)) by apply Hsp.
      split; [rewrite <- Hsl; auto|].
      intros slots' Hsp'. replace slots' with slots; auto.
      destruct Hsp as [L1 [N1 S1]], Hsp' as [L2 [N2 S2]]. apply slots_unique.
      + lia.
      + intros i. rewrite N1, N2. reflexivity.
      + congruence.
    - intros [Hd [Hfe [Hho [Hfs Hends]]]].
      destruct (interleave (w_holes w) (w_nodes w) 0 (length (w_nodes w) + length (w_holes w)) [])
        as [slots|] eqn:Hil.
      + apply interleave_spec in Hil. destruct Hil as [_ Hsp]. exists slots.
        assert (Hsl : length slots = length (w_nodes w) + length (w_holes w)) by apply Hsp.
        split; auto. split; auto. split; auto. split; auto. split; [rewrite Hsl; auto|].
        exact (Hends slots Hsp).
      + exfalso. apply interleave_none in Hil. contradiction.
  Qed.

  (* ---- views of a loaded graph ---- *)

  Lemma loaded_s_node slots es s : loaded slots es s -> forall i, s_node s i = slot_at slots i.
  Proof.
    intros [_ [Hn _]] i. unfold s_node, slot_at. rewrite <- Hn, nth_error_map.
    destruct (nth_error (gnodes (sg s)) i); reflexivity.
  Qed.

  Lemma loaded_s_edge slots es s : loaded slots es s -> forall x, s_edge s x = wedge_at es x.
  Proof.
    intros [_ [_ He]] x. unfold s_edge, wedge_at.
    apply (f_equal (fun l => nth_error l x)) in He. rewrite !nth_error_map in He. unfold iedge in *.
    destruct (nth_error (gedges (sg s)) x) as [e|], (nth_error es x) as [o|]; simpl in He;
      try discriminate; auto.
    injection He as Hw Hn. destruct o as [[[a b] v]|]; cbn [edge0 ewt enode] in *.
    - rewrite Hw, Hn. reflexivity.
    - rewrite Hw. reflexivity.
  Qed.

  Lemma loaded_lengths slots es s : loaded slots es s ->
    length (gnodes (sg s)) = length slots /\ length (gedges (sg s)) = length es.
  Proof.
    intros [_ [Hn He]]. split.
    - rewrite <- Hn, map_length. reflexivity.
    - apply (f_equal (@length _)) in He. rewrite !map_length in He. auto.
  Qed.

  Lemma loaded_counts slots es s : loaded slots es s ->
    ncount s = nsome slots /\ ecount s = nsome (map (fun o => ewt (edge0 cap o)) es).
  Proof.
    intros [I [Hn He]]. split.
    - rewrite (si_nc I), Hn. simpl. lia.
    - rewrite (si_ec I). f_equal.
      apply (f_equal (map fst)) in He. rewrite !map_map in He. cbn [edata fst] in He. exact He.
  Qed.
End SerdeSQ.
