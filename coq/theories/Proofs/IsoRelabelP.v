(* C13, S4: all answers of the reference are invariant under relabeling the nodes of either argument. *)
From PG Require Import Lib.Io Model.IsoM Spec.IsoSpec Proofs.IsoRefP Proofs.IsoEquivP.
From Coq Require Import Permutation.

(* ------------------------------------------------------------------ *)
(* permutations of 0..n-1 as lists                                      *)

Lemma perm_length p n : is_perm p n -> length p = n.
Proof. intros H. apply Permutation_length in H. rewrite seq_length in H. exact H. Qed.

Lemma perm_NoDup p n : is_perm p n -> NoDup p.
Proof. intros H. apply (Permutation_NoDup (Permutation_sym H)). apply seq_NoDup. Qed.

Lemma perm_In p n x : is_perm p n -> (In x p <-> x < n).
Proof.
  intros H. split.
  - intros Hi. apply (Permutation_in _ H) in Hi. apply in_seq in Hi. lia.
  - intros Hx. apply (Permutation_in _ (Permutation_sym H)). apply in_seq. lia.
Qed.

Lemma pimg_lt p n i : is_perm p n -> i < n -> pimg p i < n.
Proof.
  intros H Hi. apply (perm_In p n _ H). unfold pimg. apply nth_In.
  rewrite (perm_length p n H). exact Hi.
Qed.

Lemma pimg_inj p n a b : is_perm p n -> a < n -> b < n -> pimg p a = pimg p b -> a = b.
Proof.
  intros H Ha Hb E. unfold pimg in E.
  pose proof (perm_NoDup p n H) as Hnd. rewrite (NoDup_nth p 0) in Hnd.
  apply Hnd; auto; rewrite (perm_length p n H); auto.
Qed.

Lemma index_of_lt p n j : is_perm p n -> j < n -> index_of j p < n.
Proof.
  intros H Hj. apply (perm_In p n j H) in Hj.
  destruct (index_of_In j p Hj) as [H1 _]. rewrite (perm_length p n H) in H1. exact H1.
Qed.

Lemma pimg_index_of p n j : is_perm p n -> j < n -> pimg p (index_of j p) = j.
Proof.
  intros H Hj. apply (perm_In p n j H) in Hj.
  destruct (index_of_In j p Hj) as [_ H2]. exact H2.
Qed.

Lemma index_of_pimg p n i : is_perm p n -> i < n -> index_of (pimg p i) p = i.
Proof.
  intros H Hi. apply (pimg_inj p n); auto.
  - apply index_of_lt; auto. apply pimg_lt; auto.
  - apply (pimg_index_of p n); auto. apply pimg_lt; auto.
Qed.

(* ------------------------------------------------------------------ *)
(* edges through a relabeling                                           *)

Lemma has_edge_cons dir e r a b w :
  has_edge dir (e :: r) a b w <->
  (snd e = w /\ ekey dir e = nkey dir a b) \/ has_edge dir r a b w.
Proof.
  unfold has_edge. split.
  - intros [s [t [[Hin|Hin] Hk]]].
    + left. subst e. auto.
    + right. exists s, t. auto.
  - intros [[Hw Hk]|[s [t [Hin Hk]]]].
    + destruct e as [[s t] w0]. simpl in Hw. subst w0. exists s, t. split; simpl; auto.
    + exists s, t. split; simpl; auto.
Qed.

Lemma edge_variant_same dir e e' :
  edge_variant dir e e' -> snd e' = snd e /\ ekey dir e' = ekey dir e.
Proof.
  intros [->|[Hd ->]]; auto.
  destruct e as [[s t] w]. split; auto.
  unfold ekey; simpl. apply nkey_eq_iff. right. auto.
Qed.

Lemma has_edge_variant dir es1 es2 a b w :
  Forall2 (edge_variant dir) es1 es2 -> (has_edge dir es1 a b w <-> has_edge dir es2 a b w).
Proof.
  induction 1 as [|e e' r r' Hv Hr IH].
  - tauto.
  - rewrite !has_edge_cons, IH. destruct (edge_variant_same dir e e' Hv) as [-> ->]. tauto.
Qed.

Lemma has_edge_perm dir es1 es2 a b w :
  Permutation es1 es2 -> (has_edge dir es1 a b w <-> has_edge dir es2 a b w).
Proof.
  intros HP. unfold has_edge. split; intros [s [t [Hin Hk]]]; exists s, t; split; auto.
  - exact (Permutation_in _ HP Hin).
  - exact (Permutation_in _ (Permutation_sym HP) Hin).
Qed.

Lemma has_edge_map dir (f : nat -> nat) n es a b w :
  (forall x y, x < n -> y < n -> f x = f y -> x = y) ->
  (forall s t w, In (s, t, w) es -> s < n /\ t < n) ->
  a < n -> b < n ->
  (has_edge dir (map (map_edge f) es) (f a) (f b) w <-> has_edge dir es a b w).
Proof.
  intros Hinj Hends Ha Hb. unfold has_edge. split.
  - intros [s' [t' [Hin Hk]]]. apply in_map_iff in Hin.
    destruct Hin as [[[s t] w0] [E Hin]]. simpl in E. inversion E; subst.
    exists s, t. split; auto. destruct (Hends _ _ _ Hin) as [Hs Ht].
    apply (nkey_map_inj dir f n); auto.
  - intros [s [t [Hin Hk]]]. exists (f s), (f t). split.
    + apply in_map_iff. exists (s, t, w). auto.
    + apply nkey_map; auto.
Qed.

Lemma Forall2_in_r {A B} (R : A -> B -> Prop) l1 l2 y :
  Forall2 R l1 l2 -> In y l2 -> exists x, In x l1 /\ R x y.
Proof.
  induction 1 as [|a b r r' Hab Hr IH]; simpl; [tauto|].
  intros [->|Hin]; [exists a; auto|].
  destruct (IH Hin) as [x [Hx HR]]. exists x; auto.
Qed.

Lemma Forall2_variant_keys dir es1 es2 :
  Forall2 (edge_variant dir) es1 es2 -> map (ekey dir) es2 = map (ekey dir) es1.
Proof.
  induction 1 as [|e e' r r' Hv Hr IH]; simpl; auto.
  destruct (edge_variant_same dir e e' Hv) as [_ ->]. rewrite IH. reflexivity.
Qed.

Section Relabeling.
  Variables (p : list nat) (g g' : sgraph6).
  Hypothesis Hp : is_perm p (s_n g).
  Hypothesis Hwf : wf g.
  Hypothesis Hrel : relabeling p g g'.

  Lemma relabeling_edge a b :
    a < s_n g -> b < s_n g -> ew g' (pimg p a) (pimg p b) = ew g a b.
  Proof.
    intros Ha Hb. destruct Hrel as [Hd [Hn [Hw [es [Hv HP]]]]]. destruct Hwf as [Hends Hnd].
    unfold ew. rewrite Hd. apply edge_w_ext; auto.
    intros w. rewrite <- (has_edge_perm (s_dir g) es (s_es g') _ _ w HP).
    rewrite <- (has_edge_variant (s_dir g) _ es _ _ w Hv).
    apply (has_edge_map (s_dir g) (pimg p) (s_n g)); auto.
    intros x y Hx Hy. apply (pimg_inj p (s_n g)); auto.
  Qed.

  Lemma relabeling_wf : wf g'.
  Proof.
    destruct Hrel as [Hd [Hn [Hw [es [Hv HP]]]]]. destruct Hwf as [Hends Hnd]. split.
    - intros s' t' w Hin. apply (Permutation_in _ (Permutation_sym HP)) in Hin.
      destruct (Forall2_in_r _ _ _ _ Hv Hin) as [e [He Hvar]].
      apply in_map_iff in He. destruct He as [[[s t] w0] [<- He]].
      destruct (Hends _ _ _ He) as [Hs Ht]. rewrite Hn.
      pose proof (pimg_lt p (s_n g) s Hp Hs) as Hs'.
      pose proof (pimg_lt p (s_n g) t Hp Ht) as Ht'.
      destruct Hvar as [E|[_ E]]; simpl in E; inversion E; subst; auto.
    - rewrite Hd. apply (Permutation_NoDup (Permutation_map _ HP)).
      rewrite (Forall2_variant_keys _ _ _ Hv).
      apply (simple_map_edge (s_dir g) (pimg p) (s_n g)); auto.
      intros x y Hx Hy. apply (pimg_inj p (s_n g)); auto.
  Qed.

  (* the relabeling itself is an isomorphism, whatever the predicates *)
  Lemma relabeling_embedding nm em : embedding nm em g g' (pimg p).
  Proof.
    pose proof relabeling_edge as He.
    destruct Hrel as [Hd [Hn [Hw _]]].
    split; [|split; [|split]].
    - intros a Ha. rewrite Hn. apply pimg_lt; auto.
    - intros a b Ha Hb. apply (pimg_inj p (s_n g)); auto.
    - intros a b Ha Hb. rewrite He; auto. apply edge_ok_refl.
    - intros a Ha. rewrite Hw; auto. apply wmatch_refl.
  Qed.

  Lemma relabeling_embedding_inv nm em : embedding nm em g' g (fun j => index_of j p).
  Proof.
    assert (Hn : s_n g = s_n g') by (destruct Hrel as [_ [Hn _]]; auto).
    destruct (embedding_inv nm em g g' (pimg p) Hn (relabeling_embedding nm em)) as [h [Hh [H1 H2]]].
    apply (embedding_ext nm em g' g h); auto.
    intros b Hb. rewrite <- Hn in Hb.
    rewrite <- (pimg_index_of p (s_n g) b Hp Hb) at 1.
    apply H1. apply index_of_lt; auto.
  Qed.

  Lemma relabeling_Isomorphic nm em : Isomorphic nm em g g'.
  Proof.
    split; [destruct Hrel as [_ [Hn _]]; auto|].
    exists (pimg p). apply relabeling_embedding.
  Qed.

  Lemma is_iso_relabeling nm em : is_iso nm em g g' = true.
  Proof. apply is_iso_iff. apply relabeling_Isomorphic. Qed.

  (* relabeling the second argument *)
  Lemma is_iso_relabeling_r nm em g0 : is_iso nm em g0 g' = is_iso nm em g0 g.
  Proof.
    apply bool_eq_iff. rewrite !is_iso_iff. symmetry.
    apply Isomorphic_iso_r. apply relabeling_Isomorphic.
  Qed.

  Lemma is_sub_iso_relabeling_r nm em g0 : is_sub_iso nm em g0 g' = is_sub_iso nm em g0 g.
  Proof.
    apply bool_eq_iff. rewrite !is_sub_iso_iff. symmetry.
    apply SubIsomorphic_iso_r. apply relabeling_Isomorphic.
  Qed.

  (* relabeling the first argument *)
  Lemma is_iso_relabeling_l nm em g1 : is_iso nm em g' g1 = is_iso nm em g g1.
  Proof.
    apply bool_eq_iff. rewrite !is_iso_iff. symmetry.
    apply Isomorphic_iso_l. apply relabeling_Isomorphic.
  Qed.

  Lemma is_sub_iso_relabeling_l nm em g1 : is_sub_iso nm em g' g1 = is_sub_iso nm em g g1.
  Proof.
    apply bool_eq_iff. rewrite !is_sub_iso_iff. symmetry.
    apply SubIsomorphic_iso_l. apply relabeling_Isomorphic.
  Qed.

  (* the mappings into the relabeled graph are the relabeled mappings *)
  Lemma sub_isos_range nm em g0 g1 m x : In m (sub_isos nm em g0 g1) -> In x m -> x < s_n g1.
  Proof.
    unfold sub_isos. rewrite filter_In.
    rewrite (injections_In (s_n g0) (seq 0 (s_n g1)) m (seq_NoDup (s_n g1) 0)).
    intros [[_ [_ Hincl]] _] Hx. apply Hincl in Hx. apply in_seq in Hx. lia.
  Qed.

  Lemma map_pimg_inj n m m' :
    is_perm p n -> (forall x, In x m -> x < n) -> (forall x, In x m' -> x < n) ->
    map (pimg p) m = map (pimg p) m' -> m = m'.
  Proof.
    intros HP. revert m'. induction m as [|h t IH]; intros [|h' t'] H1 H2 E; simpl in E;
      try discriminate; auto.
    inversion E as [[E1 E2]]. f_equal.
    - apply (pimg_inj p n); auto; [apply H1 | apply H2]; simpl; auto.
    - apply IH; auto; intros x Hx; [apply H1 | apply H2]; simpl; auto.
  Qed.

  Lemma nth_map_pimg m a : a < length m -> nth a (map (pimg p) m) 0 = pimg p (nth a m 0).
  Proof.
    intros Ha. rewrite (nth_indep _ 0 (pimg p 0)) by (rewrite map_length; auto).
    apply map_nth.
  Qed.

  Lemma sub_isos_relabeling_r nm em g0 :
    Permutation (sub_isos nm em g0 g') (map (map (pimg p)) (sub_isos nm em g0 g)).
  Proof.
    assert (Hn : s_n g' = s_n g) by (destruct Hrel as [_ [Hn _]]; auto).
    apply NoDup_Permutation.
    - apply sub_isos_NoDup.
    - apply NoDup_map_inj_in; [|apply sub_isos_NoDup].
      intros m m' Hm Hm'. apply (map_pimg_inj (s_n g)); auto.
      + intros x. apply (sub_isos_range nm em g0 g m x Hm).
      + intros x. apply (sub_isos_range nm em g0 g m' x Hm').
    - intros m'. split.
      + intros Hm'. apply in_map_iff.
        exists (map (fun j => index_of j p) m'). split.
        * rewrite map_map. rewrite <- (map_id m') at 2. apply map_ext_in.
          intros x Hx. apply (pimg_index_of p (s_n g)); auto.
          rewrite <- Hn. apply (sub_isos_range nm em g0 g' m' x Hm' Hx).
        * apply sub_isos_In in Hm'. destruct Hm' as [Hl He].
          apply sub_isos_In. split; [rewrite map_length; auto|].
          apply (embedding_ext nm em g0 g (fun a => index_of (nth a m' 0) p)).
          -- intros a Ha. symmetry.
             rewrite (nth_indep (map (fun j => index_of j p) m') 0 (index_of 0 p))
               by (rewrite map_length; lia).
             apply (map_nth (fun j => index_of j p)).
          -- apply (embedding_comp nm em g0 g' g (fun a => nth a m' 0) (fun j => index_of j p)); auto.
             apply relabeling_embedding_inv.
      + intros Hm'. apply in_map_iff in Hm'. destruct Hm' as [m [<- Hm]].
        apply sub_isos_In in Hm. destruct Hm as [Hl He].
        apply sub_isos_In. split; [rewrite map_length; auto|].
        apply (embedding_ext nm em g0 g' (fun a => pimg p (nth a m 0))).
        * intros a Ha. symmetry. apply nth_map_pimg. lia.
        * apply (embedding_comp nm em g0 g g' (fun a => nth a m 0) (pimg p)); auto.
          apply relabeling_embedding.
  Qed.

  (* the mappings out of the relabeled graph are the mappings precomposed with the inverse *)
  Lemma sub_isos_relabeling_l_In nm em g1 m' :
    In m' (sub_isos nm em g' g1) <->
    exists m, In m (sub_isos nm em g g1) /\
              m' = map (fun j => nth (index_of j p) m 0) (seq 0 (s_n g)).
  Proof.
    assert (Hn : s_n g' = s_n g) by (destruct Hrel as [_ [Hn _]]; auto).
    split.
    - intros Hm'. apply sub_isos_In in Hm'. destruct Hm' as [Hl He].
      exists (map (fun i => nth (pimg p i) m' 0) (seq 0 (s_n g))). split.
      + apply (sub_isos_complete nm em g g1 (fun i => nth (pimg p i) m' 0)).
        apply (embedding_comp nm em g g' g1 (pimg p) (fun a => nth a m' 0)); auto.
        apply relabeling_embedding.
      + apply (nth_ext _ _ 0 0).
        * rewrite map_length, seq_length. lia.
        * intros j Hj. rewrite Hl, Hn in Hj.
          rewrite (nth_map_seq (fun j0 => nth (index_of j0 p) _ 0)) by auto.
          rewrite (nth_map_seq (fun i => nth (pimg p i) m' 0)) by (apply index_of_lt; auto).
          rewrite (pimg_index_of p (s_n g)); auto.
    - intros [m [Hm ->]]. apply sub_isos_In in Hm. destruct Hm as [Hl He].
      rewrite <- Hn.
      apply (sub_isos_complete nm em g' g1 (fun j => nth (index_of j p) m 0)).
      apply (embedding_comp nm em g' g g1 (fun j => index_of j p) (fun a => nth a m 0)); auto.
      apply relabeling_embedding_inv.
  Qed.

  Lemma sub_isos_relabeling_l nm em g1 :
    Permutation (sub_isos nm em g' g1)
                (map (fun m => map (fun j => nth (index_of j p) m 0) (seq 0 (s_n g)))
                     (sub_isos nm em g g1)).
  Proof.
    apply NoDup_Permutation.
    - apply sub_isos_NoDup.
    - apply NoDup_map_inj_in; [|apply sub_isos_NoDup].
      intros m m' Hm Hm' E.
      apply sub_isos_In in Hm. destruct Hm as [Hl _].
      apply sub_isos_In in Hm'. destruct Hm' as [Hl' _].
      apply (nth_ext _ _ 0 0); [lia|].
      intros i Hi. rewrite Hl in Hi.
      assert (Hpi : pimg p i < s_n g) by (apply pimg_lt; auto).
      assert (E' : nth (pimg p i) (map (fun j => nth (index_of j p) m 0) (seq 0 (s_n g))) 0 =
                   nth (pimg p i) (map (fun j => nth (index_of j p) m' 0) (seq 0 (s_n g))) 0)
        by (rewrite E; reflexivity).
      rewrite (nth_map_seq (fun j => nth (index_of j p) m 0)) in E' by auto.
      rewrite (nth_map_seq (fun j => nth (index_of j p) m' 0)) in E' by auto.
      rewrite (index_of_pimg p (s_n g)) in E'; auto.
    - intros m'. rewrite sub_isos_relabeling_l_In. rewrite in_map_iff.
      split; intros [m [H1 H2]]; exists m; auto.
  Qed.
End Relabeling.

(* ------------------------------------------------------------------ *)
(* the canonical relabeling                                             *)

Lemma nth_map_seq_Z (f : nat -> Z) n a : a < n -> nth a (map f (seq 0 n)) 0%Z = f a.
Proof.
  intros Ha. rewrite (nth_indep _ 0%Z (f 0)) by (rewrite map_length, seq_length; auto).
  rewrite map_nth. rewrite seq_nth; auto.
Qed.

Lemma Forall2_variant_refl dir es : Forall2 (edge_variant dir) es es.
Proof. induction es; constructor; auto. left; reflexivity. Qed.

Lemma relabel_relabeling p g : is_perm p (s_n g) -> relabeling p g (relabel p g).
Proof.
  intros Hp.
  assert (Hn : s_n (relabel p g) = s_n g).
  { unfold relabel, s_n; simpl. rewrite map_length, seq_length. reflexivity. }
  split; [reflexivity|]. split; [exact Hn|]. split.
  - intros i Hi. unfold nwt, relabel; simpl.
    rewrite nth_map_seq_Z by (apply pimg_lt; auto).
    rewrite (index_of_pimg p (s_n g)); auto.
  - exists (map (map_edge (pimg p)) (s_es g)). split.
    + apply Forall2_variant_refl.
    + apply Permutation_refl.
Qed.

(* flipping every edge of an undirected graph, reversing the edge list: other presentations
   of the same graph are relabelings by the identity *)
Lemma seq_is_perm n : is_perm (seq 0 n) n.
Proof. apply Permutation_refl. Qed.

Lemma relabel_wf p g : is_perm p (s_n g) -> wf g -> wf (relabel p g).
Proof. intros Hp Hw. exact (relabeling_wf p g (relabel p g) Hp Hw (relabel_relabeling p g Hp)). Qed.

Lemma is_iso_relabel_self nm em p g :
  is_perm p (s_n g) -> wf g -> is_iso nm em g (relabel p g) = true.
Proof. intros Hp Hw. exact (is_iso_relabeling p g _ Hp Hw (relabel_relabeling p g Hp) nm em). Qed.

Lemma is_iso_relabel_r nm em p g0 g1 :
  is_perm p (s_n g1) -> wf g1 -> is_iso nm em g0 (relabel p g1) = is_iso nm em g0 g1.
Proof. intros Hp Hw. exact (is_iso_relabeling_r p g1 _ Hp Hw (relabel_relabeling p g1 Hp) nm em g0). Qed.

Lemma is_iso_relabel_l nm em p g0 g1 :
  is_perm p (s_n g0) -> wf g0 -> is_iso nm em (relabel p g0) g1 = is_iso nm em g0 g1.
Proof. intros Hp Hw. exact (is_iso_relabeling_l p g0 _ Hp Hw (relabel_relabeling p g0 Hp) nm em g1). Qed.

Lemma is_sub_iso_relabel_r nm em p g0 g1 :
  is_perm p (s_n g1) -> wf g1 -> is_sub_iso nm em g0 (relabel p g1) = is_sub_iso nm em g0 g1.
Proof. intros Hp Hw. exact (is_sub_iso_relabeling_r p g1 _ Hp Hw (relabel_relabeling p g1 Hp) nm em g0). Qed.

Lemma is_sub_iso_relabel_l nm em p g0 g1 :
  is_perm p (s_n g0) -> wf g0 -> is_sub_iso nm em (relabel p g0) g1 = is_sub_iso nm em g0 g1.
Proof. intros Hp Hw. exact (is_sub_iso_relabeling_l p g0 _ Hp Hw (relabel_relabeling p g0 Hp) nm em g1). Qed.

Lemma sub_isos_relabel_r nm em p g0 g1 :
  is_perm p (s_n g1) -> wf g1 ->
  Permutation (sub_isos nm em g0 (relabel p g1))
              (map (map (fun x => nth x p 0)) (sub_isos nm em g0 g1)).
Proof. intros Hp Hw. exact (sub_isos_relabeling_r p g1 _ Hp Hw (relabel_relabeling p g1 Hp) nm em g0). Qed.

Lemma sub_isos_relabel_l nm em p g0 g1 :
  is_perm p (s_n g0) -> wf g0 ->
  Permutation (sub_isos nm em (relabel p g0) g1)
              (map (fun m => map (fun j => nth (index_of j p) m 0) (seq 0 (s_n g0)))
                   (sub_isos nm em g0 g1)).
Proof. intros Hp Hw. exact (sub_isos_relabeling_l p g0 _ Hp Hw (relabel_relabeling p g0 Hp) nm em g1). Qed.

(* ------------------------------------------------------------------ *)
(* readable forms of the definitions                                    *)

Lemma preserves_def nm em g0 g1 f :
  preserves nm em g0 g1 f <->
  (forall a b, a < s_n g0 -> b < s_n g0 ->
     match edge_w (s_dir g0) (s_es g0) a b, edge_w (s_dir g1) (s_es g1) (f a) (f b) with
     | Some w0, Some w1 => wmatch em w0 w1 = true
     | None, None => True
     | _, _ => False
     end) /\
  (forall a, a < s_n g0 -> wmatch nm (nth a (s_nw g0) 0%Z) (nth (f a) (s_nw g1) 0%Z) = true).
Proof. reflexivity. Qed.

Lemma wf_iff g :
  wf g <->
  (forall s t w, In (s, t, w) (s_es g) -> s < s_n g /\ t < s_n g) /\
  NoDup (s_es g) /\
  (forall s t w s' t' w', In (s, t, w) (s_es g) -> In (s', t', w') (s_es g) ->
     (s = s' /\ t = t') \/ (s_dir g = false /\ s = t' /\ t = s') -> (s, t, w) = (s', t', w')).
Proof.
  unfold wf. split; intros [He H]; split; auto.
  - split; [exact (NoDup_map_inv _ _ H)|].
    intros s t w s' t' w' Hi Hi' Hc.
    apply (NoDup_map_In_inj (ekey (s_dir g)) (s_es g) H); auto.
    unfold ekey; simpl. apply nkey_eq_iff. exact Hc.
  - destruct H as [Hnd Hu]. apply NoDup_map_inj_in; auto.
    intros [[s t] w] [[s' t'] w'] Hx Hy E. apply Hu; auto.
    unfold ekey in E; simpl in E. apply nkey_eq_iff in E. exact E.
Qed.

Lemma Isomorphic_bijection nm em g0 g1 :
  Isomorphic nm em g0 g1 ->
  exists f h, embedding nm em g0 g1 f /\ embedding nm em g1 g0 h /\
              (forall a, a < s_n g0 -> h (f a) = a) /\ (forall b, b < s_n g1 -> f (h b) = b).
Proof.
  intros [Hn [f Hf]]. destruct (embedding_inv nm em g0 g1 f Hn Hf) as [h [Hh [H1 H2]]].
  exists f, h. auto.
Qed.

(* ------------------------------------------------------------------ *)
(* boolean checks of the hypotheses (for examples and generated inputs)  *)

Definition pair_eqb (x y : nat * nat) : bool := andb (Nat.eqb (fst x) (fst y)) (Nat.eqb (snd x) (snd y)).
Fixpoint nodupb (l : list (nat * nat)) : bool :=
  match l with [] => true | h :: t => andb (negb (existsb (pair_eqb h) t)) (nodupb t) end.
Definition wfb (g : sgraph6) : bool :=
  andb (forallb (fun e => andb (Nat.ltb (fst (fst e)) (s_n g)) (Nat.ltb (snd (fst e)) (s_n g))) (s_es g))
       (nodupb (map (ekey (s_dir g)) (s_es g))).
Definition is_permb (p : list nat) (n : nat) : bool :=
  andb (Nat.leb (length p) n) (forallb (fun i => existsb (Nat.eqb i) p) (seq 0 n)).

Lemma pair_eqb_eq x y : pair_eqb x y = true <-> x = y.
Proof.
  destruct x as [a b], y as [c d]. unfold pair_eqb; simpl.
  rewrite andb_true_iff, !Nat.eqb_eq. split; [intros [-> ->]; auto | intros E; inversion E; auto].
Qed.

Lemma nodupb_sound l : nodupb l = true -> NoDup l.
Proof.
  induction l as [|h t IH]; simpl; [constructor|].
  rewrite andb_true_iff, negb_true_iff. intros [H1 H2]. constructor; auto.
  intros Hin. assert (E : existsb (pair_eqb h) t = true).
  { apply existsb_exists. exists h. split; auto. apply pair_eqb_eq; auto. }
  congruence.
Qed.

Lemma wfb_sound g : wfb g = true -> wf g.
Proof.
  unfold wfb, wf. rewrite andb_true_iff, forallb_forall. intros [H1 H2]. split.
  - intros s t w Hin. specialize (H1 _ Hin). simpl in H1.
    rewrite andb_true_iff, !Nat.ltb_lt in H1. exact H1.
  - apply nodupb_sound; auto.
Qed.

Lemma is_permb_sound p n : is_permb p n = true -> is_perm p n.
Proof.
  unfold is_permb, is_perm. rewrite andb_true_iff, Nat.leb_le, forallb_forall. intros [H1 H2].
  apply Permutation_sym. apply NoDup_Permutation_bis.
  - apply seq_NoDup.
  - rewrite seq_length; auto.
  - intros i Hi. specialize (H2 i Hi). apply existsb_exists in H2.
    destruct H2 as [x [Hx E]]. apply Nat.eqb_eq in E. subst; auto.
Qed.
