(* Forests and connected components, for C12: connectivity is decidable (a functional
   quick-find computes a canonical representative), a forest on V has |V| - c edges,
   a forest whose connectivity is contained in another's has no more edges (the
   exchange property of graphic matroids), and the majorization lemma that turns
   "no more edges below every threshold" into "no more total weight". *)
From Coq Require Import Lia ZArith Permutation.
From PG Require Import Lib.Io Model.View Spec.Partition Spec.Forest Proofs.UnionFindH.

(* ------------------------------------------------------------------ *)
(* conn is monotone                                                    *)

Lemma conn_sub A B : (forall x y, In (x, y) A -> conn B x y) ->
  forall x y, conn A x y -> conn B x y.
Proof.
  intros H x y C. induction C as [x | x y Hi | x y C IH | x y z C1 IH1 C2 IH2].
  - apply c_refl.
  - apply H; auto.
  - apply c_sym; auto.
  - eapply c_trans; eauto.
Qed.

Lemma conn_incl A B : incl A B -> forall x y, conn A x y -> conn B x y.
Proof. intros H. apply conn_sub. intros x y Hi. apply c_base. apply H; auto. Qed.

Lemma conn_cons_connected prs a b : conn prs a b ->
  forall x y, conn ((a, b) :: prs) x y <-> conn prs x y.
Proof.
  intros Cab x y. split.
  - apply conn_sub. intros p q [Hi|Hi].
    + inversion Hi; subst; auto.
    + apply c_base; auto.
  - apply conn_weaken.
Qed.

(* ------------------------------------------------------------------ *)
(* quick-find: a canonical representative for every class              *)

Fixpoint qf (es : list (nat * nat)) (z : nat) : nat :=
  match es with
  | [] => z
  | (a, b) :: t => if Nat.eqb (qf t z) (qf t b) then qf t a else qf t z
  end.

Lemma qf_self es : forall x, conn es x (qf es x).
Proof.
  induction es as [|[a b] t IH]; intros x; simpl.
  - apply c_refl.
  - destruct (Nat.eqb_spec (qf t x) (qf t b)) as [E|E].
    + eapply c_trans; [apply conn_weaken, (IH x)|]. rewrite E.
      eapply c_trans; [apply c_sym, conn_weaken, (IH b)|].
      eapply c_trans; [apply c_sym, c_base; left; reflexivity|].
      apply conn_weaken, IH.
    + apply conn_weaken, IH.
Qed.

Lemma qf_step_eq t a b x y : qf t x = qf t y -> qf ((a, b) :: t) x = qf ((a, b) :: t) y.
Proof. simpl. intros E. rewrite E. reflexivity. Qed.

Lemma qf_base es : forall x y, In (x, y) es -> qf es x = qf es y.
Proof.
  induction es as [|[a b] t IH]; intros x y Hi.
  - destruct Hi.
  - destruct Hi as [Hi|Hi].
    + inversion Hi; subst. simpl. rewrite Nat.eqb_refl.
      destruct (Nat.eqb (qf t x) (qf t y)); reflexivity.
    + apply qf_step_eq, IH; auto.
Qed.

Lemma qf_conn es x y : conn es x y <-> qf es x = qf es y.
Proof.
  split.
  - intros C. induction C as [x | x y Hi | x y C IH | x y z C1 IH1 C2 IH2].
    + reflexivity.
    + apply qf_base; auto.
    + symmetry; auto.
    + congruence.
  - intros E. eapply c_trans; [apply qf_self|]. rewrite E. apply c_sym, qf_self.
Qed.

Lemma conn_dec es x y : {conn es x y} + {~ conn es x y}.
Proof.
  destruct (Nat.eq_dec (qf es x) (qf es y)) as [E|E].
  - left. apply qf_conn; auto.
  - right. intros C. apply E, qf_conn; auto.
Qed.

Lemma qf_idem es x : qf es (qf es x) = qf es x.
Proof. symmetry. apply qf_conn, qf_self. Qed.

Definition ends_in (V : list nat) (es : list (nat * nat)) : Prop :=
  forall a b, In (a, b) es -> In a V /\ In b V.

Lemma qf_in V es : ends_in V es -> forall x, In x V -> In (qf es x) V.
Proof.
  induction es as [|[a b] t IH]; intros HV x Hx; simpl; auto.
  assert (HV' : ends_in V t) by (intros p q Hi; apply HV; right; auto).
  destruct (Nat.eqb (qf t x) (qf t b)).
  - apply IH; auto. apply (HV a b); left; auto.
  - apply IH; auto.
Qed.

(* ------------------------------------------------------------------ *)
(* number of classes among V                                           *)

Definition distinct (f : nat -> nat) (V : list nat) : nat :=
  length (nodup Nat.eq_dec (map f V)).

Definition ncl (V : list nat) (es : list (nat * nat)) : nat := distinct (qf es) V.

Lemma distinct_mono (f g : nat -> nat) V :
  (forall x y, In x V -> In y V -> f x = f y -> g x = g y) ->
  distinct g V <= distinct f V.
Proof.
  unfold distinct. induction V as [|z V IH]; intros H; simpl; auto.
  assert (IH' : length (nodup Nat.eq_dec (map g V)) <= length (nodup Nat.eq_dec (map f V))).
  { apply IH. intros x y Hx Hy. apply H; simpl; auto. }
  destruct (in_dec Nat.eq_dec (f z) (map f V)) as [Hf|Hf].
  - apply in_map_iff in Hf. destruct Hf as [y [Ey Hy]].
    assert (Eg : g y = g z) by (apply H; simpl; auto).
    destruct (in_dec Nat.eq_dec (g z) (map g V)) as [Hg|Hg]; auto.
    exfalso. apply Hg. rewrite <- Eg. apply in_map; auto.
  - destruct (in_dec Nat.eq_dec (g z) (map g V)) as [Hg|Hg]; simpl; lia.
Qed.

Lemma ncl_mono V es es' :
  (forall x y, In x V -> In y V -> conn es x y -> conn es' x y) -> ncl V es' <= ncl V es.
Proof.
  intros H. apply distinct_mono. intros x y Hx Hy E.
  apply qf_conn. apply H; auto. apply qf_conn; auto.
Qed.

Lemma ncl_equiv V es es' : (forall x y, conn es x y <-> conn es' x y) -> ncl V es = ncl V es'.
Proof.
  intros H. apply Nat.le_antisymm; apply ncl_mono; intros x y _ _ C; apply H; auto.
Qed.

Lemma ncl_nil V : NoDup V -> ncl V [] = length V.
Proof.
  intros ND. unfold ncl, distinct.
  change (map (qf []) V) with (map (fun z : nat => z) V).
  rewrite map_id, nodup_fixed_point; auto.
Qed.

(* merging the class of b into the class of a removes exactly one class *)
Lemma relabel_count (r : nat -> nat) V a b : In a V -> In b V -> r a <> r b ->
  S (distinct (fun z => if Nat.eqb (r z) (r b) then r a else r z) V) = distinct r V.
Proof.
  intros Ha Hb Hne. unfold distinct.
  set (r' := fun z => if Nat.eqb (r z) (r b) then r a else r z).
  assert (P : Permutation (r b :: nodup Nat.eq_dec (map r' V)) (nodup Nat.eq_dec (map r V))).
  { apply NoDup_Permutation.
    - constructor; [|apply NoDup_nodup].
      intros Hi. apply nodup_In, in_map_iff in Hi. destruct Hi as [z [Ez Hz]].
      unfold r' in Ez. destruct (Nat.eqb_spec (r z) (r b)); congruence.
    - apply NoDup_nodup.
    - intros c. split.
      + intros [Hc|Hc].
        * subst c. apply nodup_In, in_map; auto.
        * apply nodup_In, in_map_iff in Hc. destruct Hc as [z [Ez Hz]].
          apply nodup_In. unfold r' in Ez. destruct (Nat.eqb (r z) (r b)); subst c; apply in_map; auto.
      + intros Hc. apply nodup_In, in_map_iff in Hc. destruct Hc as [z [Ez Hz]].
        destruct (Nat.eq_dec (r z) (r b)) as [E|E].
        * left. congruence.
        * right. apply nodup_In, in_map_iff. exists z; split; auto.
          unfold r'. destruct (Nat.eqb_spec (r z) (r b)); congruence. }
  apply Permutation_length in P. simpl in P. exact P.
Qed.

Lemma ncl_step V prs a b : In a V -> In b V -> ~ conn prs a b ->
  S (ncl V ((a, b) :: prs)) = ncl V prs.
Proof.
  intros Ha Hb Hn.
  assert (Hne : qf prs a <> qf prs b) by (intros E; apply Hn, qf_conn; auto).
  exact (relabel_count (qf prs) V a b Ha Hb Hne).
Qed.

Lemma ends_in_tail V p t : ends_in V (p :: t) -> ends_in V t.
Proof. intros H a b Hi. apply H; right; auto. Qed.

Lemma forest_count_from V : forall es prev, ends_in V es -> acyclic_from prev es ->
  ncl V (rev es ++ prev) + length es = ncl V prev.
Proof.
  induction es as [|[a b] t IH]; intros prev HV Hac; simpl.
  - lia.
  - destruct Hac as [Hn Hac]. rewrite <- app_assoc. simpl.
    pose proof (IH ((a, b) :: prev) (ends_in_tail V (a, b) t HV) Hac) as E.
    assert (Hab : In a V /\ In b V) by (apply HV; left; auto).
    destruct Hab as [Ha Hb].
    pose proof (ncl_step V prev a b Ha Hb Hn) as E2. lia.
Qed.

(* a forest on V has |V| - c edges *)
Lemma forest_count V es : NoDup V -> ends_in V es -> acyclic_edges es ->
  ncl V es + length es = length V.
Proof.
  intros ND HV Hac.
  pose proof (forest_count_from V es [] HV Hac) as E.
  rewrite app_nil_r, (ncl_nil V ND) in E.
  rewrite (ncl_equiv V es (rev es)); auto.
  intros x y; split; apply conn_incl; intros p Hp; [apply in_rev in Hp | apply in_rev]; auto.
Qed.

(* the exchange property: a forest connecting no more than another forest has no more edges *)
Lemma forest_rank A B : acyclic_edges A -> acyclic_edges B ->
  (forall x y, conn A x y -> conn B x y) -> length A <= length B.
Proof.
  intros HA HB Hsub.
  set (V := nodup Nat.eq_dec (map fst (A ++ B) ++ map snd (A ++ B))).
  assert (ND : NoDup V) by apply NoDup_nodup.
  assert (VA : ends_in V A).
  { intros a b Hi. split; apply nodup_In, in_app_iff.
    - left. apply in_map_iff. exists (a, b); split; auto. apply in_app_iff; auto.
    - right. apply in_map_iff. exists (a, b); split; auto. apply in_app_iff; auto. }
  assert (VB : ends_in V B).
  { intros a b Hi. split; apply nodup_In, in_app_iff.
    - left. apply in_map_iff. exists (a, b); split; auto. apply in_app_iff; auto.
    - right. apply in_map_iff. exists (a, b); split; auto. apply in_app_iff; auto. }
  pose proof (forest_count V A ND VA HA) as EA.
  pose proof (forest_count V B ND VB HB) as EB.
  assert (M : ncl V B <= ncl V A) by (apply ncl_mono; intros x y _ _; apply Hsub).
  lia.
Qed.

(* ------------------------------------------------------------------ *)
(* transversals: the number of components does not depend on the choice *)

Lemma NoDup_map_on {A B} (f : A -> B) l : NoDup l ->
  (forall x y, In x l -> In y l -> f x = f y -> x = y) -> NoDup (map f l).
Proof.
  induction 1 as [|a l Hn ND IH]; intros Hinj; simpl; constructor.
  - intros Hi. apply in_map_iff in Hi. destruct Hi as [y [Ey Hy]].
    assert (y = a) by (apply Hinj; simpl; auto). subst y. auto.
  - apply IH. intros x y Hx Hy. apply Hinj; simpl; auto.
Qed.

Lemma transversal_length V es reps : transversal V es reps -> length reps = ncl V es.
Proof.
  intros [ND [Hin [Hcov Hsep]]]. unfold ncl, distinct.
  rewrite <- (map_length (qf es) reps).
  apply Permutation_length, NoDup_Permutation.
  - apply NoDup_map_on; auto. intros x y Hx Hy E. apply Hsep; auto. apply qf_conn; auto.
  - apply NoDup_nodup.
  - intros c. split.
    + intros Hc. apply in_map_iff in Hc. destruct Hc as [r [Er Hr]].
      apply nodup_In, in_map_iff. exists r; split; auto.
    + intros Hc. apply nodup_In, in_map_iff in Hc. destruct Hc as [x [Ex Hx]].
      destruct (Hcov x Hx) as [r [Hr C]]. apply in_map_iff. exists r; split; auto.
      rewrite <- Ex. symmetry. apply qf_conn; auto.
Qed.

Lemma transversal_exists V es : ends_in V es ->
  transversal V es (nodup Nat.eq_dec (map (qf es) V)).
Proof.
  intros HV. split; [apply NoDup_nodup|]. split; [|split].
  - intros r Hr. apply nodup_In, in_map_iff in Hr. destruct Hr as [x [Ex Hx]].
    subst r. apply qf_in; auto.
  - intros x Hx. exists (qf es x). split; [apply nodup_In, in_map; auto | apply qf_self].
  - intros r r' Hr Hr' C.
    apply nodup_In, in_map_iff in Hr. destruct Hr as [x [Ex Hx]].
    apply nodup_In, in_map_iff in Hr'. destruct Hr' as [y [Ey Hy]].
    apply qf_conn in C. subst r r'. rewrite !qf_idem in C. auto.
Qed.

(* ------------------------------------------------------------------ *)
(* a part of a forest is a forest                                       *)

Lemma acyclic_filter (f : nat * nat * Z -> bool) : forall l prev prev',
  incl prev' prev -> acyclic_from prev (ends l) -> acyclic_from prev' (ends (filter f l)).
Proof.
  induction l as [|[[a b] w] t IH]; intros prev prev' Hi Hac; simpl; auto.
  simpl in Hac. destruct Hac as [Hn Hac].
  assert (Hi2 : incl ((a, b) :: prev') ((a, b) :: prev)).
  { intros p [Hp|Hp]; [left; auto | right; apply Hi; auto]. }
  destruct (f (a, b, w)); simpl.
  - split.
    + intros C. apply Hn. eapply conn_incl; eauto.
    + apply IH with (prev := (a, b) :: prev); auto.
  - apply IH with (prev := (a, b) :: prev); auto.
    intros p Hp. right. apply Hi; auto.
Qed.

Lemma acyclic_from_snoc : forall es prev a b,
  acyclic_from prev es -> ~ conn (es ++ prev) a b -> acyclic_from prev (es ++ [(a, b)]).
Proof.
  induction es as [|[c d] t IH]; intros prev a b Hac Hn; simpl.
  - split; auto.
  - simpl in Hac. destruct Hac as [Hn1 Hac]. split; auto.
    apply IH; auto. intros C. apply Hn. eapply conn_incl; [|exact C].
    intros p Hp. apply in_app_iff in Hp. simpl. destruct Hp as [Hp|[Hp|Hp]]; auto.
    + right. apply in_app_iff; auto.
    + right. apply in_app_iff; auto.
Qed.

(* ------------------------------------------------------------------ *)
(* majorization                                                         *)

Fixpoint cntle (t : Z) (l : list Z) : nat :=
  match l with
  | [] => 0
  | z :: r => (if Z.leb z t then 1 else 0) + cntle t r
  end.

Definition zsum (l : list Z) : Z := fold_right Z.add 0%Z l.

Lemma cntle_perm t l l' : Permutation l l' -> cntle t l = cntle t l'.
Proof.
  induction 1 as [|x l l' P IH|x y l|l l' l'' P1 IH1 P2 IH2]; simpl; try lia.
Qed.

Lemma zsum_perm l l' : Permutation l l' -> zsum l = zsum l'.
Proof.
  unfold zsum.
  induction 1 as [|x l l' P IH|x y l|l l' l'' P1 IH1 P2 IH2]; simpl; try lia.
Qed.

Lemma cntle_le_length t l : cntle t l <= length l.
Proof. induction l as [|z r IH]; simpl; auto. destruct (Z.leb z t); lia. Qed.

Lemma cntle_all t l : Forall (fun z => (z <= t)%Z) l -> cntle t l = length l.
Proof.
  induction 1 as [|z r Hz Hr IH]; simpl; auto.
  destruct (Z.leb_spec z t); lia.
Qed.

Lemma max_extract : forall l : list Z, l <> [] ->
  exists m l', Permutation l (m :: l') /\ Forall (fun z => (z <= m)%Z) l'.
Proof.
  induction l as [|z r IH]; intros Hne; [congruence|].
  destruct r as [|z2 r].
  - exists z, []. split; auto.
  - destruct IH as [m [l' [P F]]]; [discriminate|].
    destruct (Z_le_gt_dec z m) as [Hle|Hgt].
    + exists m, (z :: l'). split.
      * eapply perm_trans; [apply perm_skip, P|]. apply perm_swap.
      * constructor; auto.
    + exists z, (m :: l'). split.
      * apply perm_skip; auto.
      * constructor; [lia|]. eapply Forall_impl; [|exact F]. simpl. intros z0 Hz0; lia.
Qed.

Lemma majorize : forall n lk lf, length lk = n -> length lf = n ->
  (forall t, cntle t lf <= cntle t lk) -> (zsum lk <= zsum lf)%Z.
Proof.
  induction n as [|n IH]; intros lk lf Lk Lf H.
  - destruct lk; [|discriminate]. destruct lf; [|discriminate]. simpl. lia.
  - destruct (max_extract lk) as [km [lk' [Pk Fk]]]; [intros E; subst; discriminate|].
    destruct (max_extract lf) as [fm [lf' [Pf Ff]]]; [intros E; subst; discriminate|].
    pose proof (Permutation_length Pk) as Lk'. pose proof (Permutation_length Pf) as Lf'.
    simpl in Lk', Lf'.
    rewrite (zsum_perm _ _ Pk), (zsum_perm _ _ Pf).
    assert (H' : forall t, (if Z.leb fm t then 1 else 0) + cntle t lf'
                            <= (if Z.leb km t then 1 else 0) + cntle t lk').
    { intros t. specialize (H t). rewrite (cntle_perm t _ _ Pk), (cntle_perm t _ _ Pf) in H. exact H. }
    assert (Hkf : (km <= fm)%Z).
    { destruct (Z_le_gt_dec km fm) as [Hle|Hgt]; auto. exfalso.
      specialize (H' fm). rewrite (cntle_all fm lf' Ff) in H'.
      pose proof (cntle_le_length fm lk') as B.
      destruct (Z.leb_spec fm fm); try lia. destruct (Z.leb_spec km fm); lia. }
    assert (S' : (zsum lk' <= zsum lf')%Z).
    { apply IH; try lia. intros t.
      specialize (H' t).
      pose proof (cntle_le_length t lf') as B.
      destruct (Z.leb_spec fm t) as [Hft|Hft].
      - rewrite (cntle_all t lk'); [lia|].
        eapply Forall_impl; [|exact Fk]. simpl. intros z0 Hz0; lia.
      - destruct (Z.leb_spec km t) as [Hkt|Hkt]; [|lia].
        rewrite (cntle_all t lk'); [lia|].
        eapply Forall_impl; [|exact Fk]. simpl. intros z0 Hz0; lia. }
    unfold zsum in *. simpl. lia.
Qed.

Lemma cntle_filter t (l : list (nat * nat * Z)) :
  cntle t (map snd l) = length (filter (fun e => Z.leb (snd e) t) l).
Proof.
  induction l as [|e r IH]; simpl; auto.
  destruct (Z.leb (snd e) t); simpl; lia.
Qed.
