(* C20e, part 1: the graph-free lemmas behind the steiner_tree mirror (Model/SteinerM.v):
   - being a forest does not depend on the order of the edges;
   - forest_ids (stable sort + union-find) keeps a spanning forest of its input;
   - prune (the iterated removal of non-terminal leaves) keeps a tree a tree, never removes a
     terminal, and reaches its fixpoint with the fuel it is given. *)
From Coq Require Import Lia ZArith Bool Permutation.
From PG Require Import Lib.Io Model.View Model.UnionFindM Model.MstM Model.MiscM Model.SteinerM
  Spec.Partition Spec.Forest Spec.MiscSpec
  Proofs.UnionFindP Proofs.UnionFindH Proofs.ForestP Proofs.MstP Proofs.MiscSteinerP1.

Definition edge4 := (nat * nat * nat * Z)%type.
Definition id4 (q : edge4) : nat := let '(e, _, _, _) := q in e.
Definition ends4 (l : list edge4) : list (nat * nat) := map (fun '(_, a, b, _) => (a, b)) l.
Definition strip4 (l : list edge4) : list (nat * nat * Z) := map (fun '(_, a, b, w) => (a, b, w)) l.

Lemma ends4_strip l : ends (strip4 l) = ends4 l.
Proof.
  unfold ends, strip4, ends4. rewrite map_map. apply map_ext. intros [[[e a] b] w]. reflexivity.
Qed.

Lemma ends4_In a b l : In (a, b) (ends4 l) <-> exists e w, In (e, a, b, w) l.
Proof.
  unfold ends4. rewrite in_map_iff. split.
  - intros [[[[e a'] b'] w] [E Hin]]. injection E as -> ->. exists e, w. exact Hin.
  - intros [e [w Hin]]. exists (e, a, b, w). split; [reflexivity | exact Hin].
Qed.

Lemma ends4_app l1 l2 : ends4 (l1 ++ l2) = ends4 l1 ++ ends4 l2.
Proof. apply map_app. Qed.

(* ------------------------------------------------------------------ *)
(* acyclic_from: order independence                                    *)

Lemma acyclic_from_not_conn : forall es prev x y, acyclic_from prev es -> In (x, y) es -> ~ conn prev x y.
Proof.
  induction es as [|[a b] t IH]; intros prev x y Hac Hin; [destruct Hin|].
  cbn [acyclic_from] in Hac. destruct Hac as [Hn Hac]. destruct Hin as [E|Hin].
  - injection E as <- <-. exact Hn.
  - intros C. apply (IH _ x y Hac Hin). apply conn_weaken. exact C.
Qed.

Lemma acyclic_from_perm : forall l l', Permutation l l' -> forall prev, acyclic_from prev l -> acyclic_from prev l'.
Proof.
  intros l l' P. induction P as [|[a b] l l' P IH|[a b] [c d] l|l l' l'' P1 IH1 P2 IH2]; intros prev Hac.
  - exact Hac.
  - cbn [acyclic_from] in *. destruct Hac as [Hn Hac]. split; [exact Hn | apply IH, Hac].
  - cbn [acyclic_from] in *. destruct Hac as [Hn1 [Hn2 Hac]]. split; [|split].
    + intros C. apply Hn2. apply conn_weaken. exact C.
    + intros C. apply conn_cons in C. destruct C as [C|[[C1 C2]|[C1 C2]]].
      * apply Hn1. exact C.
      * apply Hn2. apply conn_cons. right. left. split; apply c_sym; assumption.
      * apply Hn2. apply conn_cons. right. right. split; assumption.
    + apply (acyclic_from_equiv l ((a, b) :: (c, d) :: prev)); [|exact Hac].
      intros x y. split; apply ForestP.conn_incl; intros p [E|[E|Hp]]; cbn [In]; auto.
  - apply IH2, IH1, Hac.
Qed.

Lemma acyclic_edges_perm l l' : Permutation l l' -> acyclic_edges l -> acyclic_edges l'.
Proof. intros P. apply (acyclic_from_perm l l' P). Qed.

Lemma acyclic_from_no_loop : forall es prev x, acyclic_from prev es -> ~ In (x, x) es.
Proof.
  intros es prev x Hac Hin. apply (acyclic_from_not_conn es prev x x Hac Hin). apply c_refl.
Qed.

(* a forest has no two edges on the same pair of nodes *)
Lemma acyclic_from_tail : forall es prev a b, acyclic_from prev ((a, b) :: es) ->
  ~ In (a, b) es /\ ~ In (b, a) es.
Proof.
  intros es prev a b Hac. cbn [acyclic_from] in Hac. destruct Hac as [_ Hac]. split; intros Hin.
  - apply (acyclic_from_not_conn es _ a b Hac Hin). apply c_base. left. reflexivity.
  - apply (acyclic_from_not_conn es _ b a Hac Hin). apply c_sym, c_base. left. reflexivity.
Qed.

Lemma acyclic_from_weaken : forall es prev prev', incl prev' prev -> acyclic_from prev es -> acyclic_from prev' es.
Proof.
  induction es as [|[a b] t IH]; intros prev prev' Hi Hac; cbn [acyclic_from] in *; [exact I|].
  destruct Hac as [Hn Hac]. split.
  - intros C. apply Hn. apply (ForestP.conn_incl prev' prev Hi). exact C.
  - apply (IH ((a, b) :: prev)); [|exact Hac]. intros p [E|Hp]; [left; exact E | right; apply Hi, Hp].
Qed.

Lemma acyclic4_filter (f : edge4 -> bool) : forall l prev, acyclic_from prev (ends4 l) -> acyclic_from prev (ends4 (filter f l)).
Proof.
  induction l as [|[[[e a] b] w] t IH]; intros prev Hac; [exact Hac|].
  change (ends4 ((e, a, b, w) :: t)) with ((a, b) :: ends4 t) in Hac. cbn [acyclic_from] in Hac.
  destruct Hac as [Hn Hac]. cbn [filter]. destruct (f (e, a, b, w)).
  - change (ends4 ((e, a, b, w) :: filter f t)) with ((a, b) :: ends4 (filter f t)). cbn [acyclic_from].
    split; [exact Hn | apply IH, Hac].
  - apply IH. apply (acyclic_from_weaken _ ((a, b) :: prev)); [|exact Hac]. intros p Hp. right. exact Hp.
Qed.

(* ------------------------------------------------------------------ *)
(* the greedy choice of forest_ids                                      *)

Fixpoint greedy (prs : list (nat * nat)) (l : list edge4) : list edge4 :=
  match l with
  | [] => []
  | (e, a, b, w) :: t =>
      if conn_dec prs a b then greedy prs t else (e, a, b, w) :: greedy ((a, b) :: prs) t
  end.

Lemma greedy_acyclic : forall l prs, acyclic_from prs (ends4 (greedy prs l)).
Proof.
  induction l as [|[[[e a] b] w] t IH]; intros prs; cbn [greedy]; [exact I|].
  destruct (conn_dec prs a b) as [C|Hn]; [apply IH|].
  change (ends4 ((e, a, b, w) :: greedy ((a, b) :: prs) t)) with ((a, b) :: ends4 (greedy ((a, b) :: prs) t)).
  cbn [acyclic_from]. split; [exact Hn | apply IH].
Qed.

Lemma greedy_sub : forall l prs q, In q (greedy prs l) -> In q l.
Proof.
  induction l as [|[[[e a] b] w] t IH]; intros prs q Hin; cbn [greedy] in Hin; [exact Hin|].
  destruct (conn_dec prs a b) as [C|Hn].
  - right. apply (IH prs), Hin.
  - destruct Hin as [E|Hin]; [left; exact E | right; apply (IH _ q Hin)].
Qed.

Lemma greedy_ids_nodup : forall l prs, NoDup (map id4 l) -> NoDup (map id4 (greedy prs l)).
Proof.
  induction l as [|[[[e a] b] w] t IH]; intros prs ND; cbn [greedy]; [constructor|].
  cbn [map id4] in ND. inversion ND as [|x r Hx Hr]; subst.
  destruct (conn_dec prs a b) as [C|Hn]; [apply IH, Hr|].
  cbn [map id4]. constructor; [|apply IH, Hr].
  intros Hin. apply Hx. apply in_map_iff in Hin. destruct Hin as [q [Eq Hq]].
  apply in_map_iff. exists q. split; [exact Eq | apply (greedy_sub _ _ _ Hq)].
Qed.

Lemma conn_app_comm A B x y : conn (A ++ B) x y <-> conn (B ++ A) x y.
Proof.
  split; apply ForestP.conn_incl; intros p Hp; apply in_app_iff in Hp; apply in_app_iff; tauto.
Qed.

Lemma greedy_spanning : forall l prs x y,
  conn (ends4 l ++ prs) x y <-> conn (ends4 (greedy prs l) ++ prs) x y.
Proof.
  induction l as [|[[[e a] b] w] t IH]; intros prs x y; cbn [greedy]; [reflexivity|].
  change (ends4 ((e, a, b, w) :: t)) with ((a, b) :: ends4 t). cbn [app].
  destruct (conn_dec prs a b) as [C|Hn].
  - rewrite <- IH. apply conn_cons_connected.
    apply (ForestP.conn_incl prs (ends4 t ++ prs)); [|exact C]. intros p Hp. apply in_app_iff. right. exact Hp.
  - change (ends4 ((e, a, b, w) :: greedy ((a, b) :: prs) t)) with ((a, b) :: ends4 (greedy ((a, b) :: prs) t)).
    cbn [app].
    assert (G : forall L, conn ((a, b) :: L ++ prs) x y <-> conn (L ++ (a, b) :: prs) x y).
    { intros L. split; apply ForestP.conn_incl; intros p Hp.
      - destruct Hp as [E|Hp]; [apply in_app_iff; right; left; exact E|].
        apply in_app_iff in Hp. apply in_app_iff. destruct Hp as [Hp|Hp]; [left; exact Hp | right; right; exact Hp].
      - apply in_app_iff in Hp. destruct Hp as [Hp|[E|Hp]]; [right; apply in_app_iff; left; exact Hp | left; exact E |
          right; apply in_app_iff; right; exact Hp]. }
    rewrite !G. apply IH.
Qed.

(* the fold of forest_ids *)
Definition fi_step : list nat * uf -> edge4 -> list nat * uf :=
  fun '(ids, u) '(e, a, b, _) =>
    match union u a b with
    | (Ok true, u') => (ids ++ [e], u')
    | (_, u') => (ids, u')
    end.

Definition in_range4 (n : nat) (l : list edge4) : Prop :=
  forall e a b w, In (e, a, b, w) l -> a < n /\ b < n.

Lemma abs_equiv u n prs prs' : Abs u (n, prs) ->
  (forall x y, In (x, y) prs' -> x < n /\ y < n) ->
  (forall x y, conn prs x y <-> conn prs' x y) -> Abs u (n, prs').
Proof.
  intros [W [L [Rg Eq]]] Rg' He. cbn [fst snd] in *.
  split; [exact W|]. split; [exact L|]. split; [exact Rg'|].
  cbn [fst snd]. intros x y Hx Hy. rewrite (Eq x y Hx Hy). apply He.
Qed.

Lemma fi_fold_spec n : forall l ids u prs, Abs u (n, prs) -> in_range4 n l ->
  fst (fold_left fi_step l (ids, u)) = ids ++ map id4 (greedy prs l).
Proof.
  induction l as [|[[[e a] b] w] t IH]; intros ids u prs A Hr.
  - cbn [fold_left fst greedy map]. rewrite app_nil_r. reflexivity.
  - cbn [fold_left]. cbn [fi_step greedy].
    destruct (Hr e a b w (or_introl eq_refl)) as [Ha Hb].
    assert (Hr' : in_range4 n t). { intros e' a' b' w' Hin. apply (Hr e' a' b' w'). right. exact Hin. }
    destruct (MstP.union_step u n prs a b A Ha Hb) as [r [u' [E [A' Hc]]]]. rewrite E.
    destruct r.
    + destruct (conn_dec prs a b) as [C|Hn]; [exfalso; apply Hc, C|].
      rewrite (IH (ids ++ [e]) u' ((a, b) :: prs) A' Hr'). cbn [map id4]. rewrite <- app_assoc. reflexivity.
    + destruct (conn_dec prs a b) as [C|Hn]; [|exfalso; apply Hn, Hc].
      assert (A2 : Abs u' (n, prs)).
      { apply (abs_equiv u' n ((a, b) :: prs) prs A').
        - destruct A as [_ [_ [Rg _]]]. exact Rg.
        - intros x y. apply conn_cons_connected. exact C. }
      apply (IH ids u' prs A2 Hr').
Qed.

(* the stable sort is a permutation *)
Lemma ins_w_perm x : forall l, Permutation (x :: l) (ins_w x l).
Proof.
  induction l as [|h t IH]; cbn [ins_w]; [apply Permutation_refl|].
  destruct (Z.ltb (snd x) (snd h)); [apply Permutation_refl|].
  apply (perm_trans (perm_swap h x t)). apply perm_skip. exact IH.
Qed.

Lemma sort_w_perm_gen : forall l acc, Permutation (l ++ acc) (fold_left (fun acc x => ins_w x acc) l acc).
Proof.
  induction l as [|x t IH]; intros acc; cbn [fold_left app]; [apply Permutation_refl|].
  apply (perm_trans (Permutation_middle t acc x)). apply (perm_trans (Permutation_app_head t (ins_w_perm x acc))).
  apply IH.
Qed.

Lemma sort_w_perm l : Permutation l (sort_w l).
Proof. unfold sort_w. pose proof (sort_w_perm_gen l []) as P. rewrite app_nil_r in P. exact P. Qed.

Lemma forest_ids_spec bound l : in_range4 bound l ->
  forest_ids bound l = map id4 (greedy [] (sort_w l)).
Proof.
  intros Hr. unfold forest_ids.
  change (fold_left _ (sort_w l) ([], uf_new bound)) with (fold_left fi_step (sort_w l) ([], uf_new bound)).
  rewrite (fi_fold_spec bound (sort_w l) [] (uf_new bound) [] (abs_new bound)); [reflexivity|].
  intros e a b w Hin. apply (Hr e a b w). apply (Permutation_in _ (Permutation_sym (sort_w_perm l))). exact Hin.
Qed.

(* the edges retained by their ids: a spanning forest of l *)
Definition forest_of (bound : nat) (l : list edge4) : list edge4 :=
  filter (fun '(e, _, _, _) => mem e (forest_ids bound l)) l.

Lemma filter_ids_perm : forall (l g : list edge4), NoDup (map id4 l) -> NoDup g -> incl g l ->
  Permutation (filter (fun q => mem (id4 q) (map id4 g)) l) g.
Proof.
  intros l g NDl NDg Hi. apply NoDup_Permutation; [| exact NDg |].
  - apply NoDup_filter. apply (NoDup_map_inv id4). exact NDl.
  - intros q. rewrite filter_In. split.
    + intros [Hq Hm]. apply mem_In in Hm. apply in_map_iff in Hm. destruct Hm as [q' [Eq Hq']].
      assert (q' = q); [|subst q'; exact Hq'].
      revert NDl Hq Eq. generalize (Hi q' Hq'). clear. induction l as [|h t IH]; intros H1 ND H2 Eq; [destruct H1|].
      cbn [map] in ND. inversion ND as [|x r Hx Hr]; subst.
      destruct H1 as [<-|H1]; destruct H2 as [<-|H2]; auto.
      * exfalso. apply Hx. rewrite Eq. apply in_map. exact H2.
      * exfalso. apply Hx. rewrite <- Eq. apply in_map. exact H1.
    + intros Hq. split; [apply Hi, Hq|]. apply mem_In. apply in_map. exact Hq.
Qed.

Lemma forest_of_perm bound l : in_range4 bound l -> NoDup (map id4 l) ->
  Permutation (forest_of bound l) (greedy [] (sort_w l)).
Proof.
  intros Hr ND. unfold forest_of. rewrite (forest_ids_spec bound l Hr).
  assert (E : filter (fun '(e, _, _, _) => mem e (map id4 (greedy [] (sort_w l)))) l =
              filter (fun q => mem (id4 q) (map id4 (greedy [] (sort_w l)))) l).
  { apply filter_ext. intros [[[e a] b] w]. reflexivity. }
  rewrite E. apply filter_ids_perm; [exact ND| |].
  - apply (NoDup_map_inv id4). apply greedy_ids_nodup.
    apply (Permutation_NoDup (Permutation_map id4 (sort_w_perm l))). exact ND.
  - intros q Hq. apply greedy_sub in Hq. apply (Permutation_in _ (Permutation_sym (sort_w_perm l))). exact Hq.
Qed.

Lemma ends4_perm l l' : Permutation l l' -> Permutation (ends4 l) (ends4 l').
Proof. apply Permutation_map. Qed.

Lemma conn_perm2 A B : Permutation A B -> forall x y, conn A x y <-> conn B x y.
Proof.
  intros P x y. split; apply ForestP.conn_incl; intros p Hp.
  - apply (Permutation_in _ P Hp).
  - apply (Permutation_in _ (Permutation_sym P) Hp).
Qed.

Theorem forest_of_acyclic bound l : in_range4 bound l -> NoDup (map id4 l) ->
  acyclic_edges (ends4 (forest_of bound l)).
Proof.
  intros Hr ND. apply (acyclic_edges_perm (ends4 (greedy [] (sort_w l)))).
  - apply Permutation_sym, ends4_perm, forest_of_perm; assumption.
  - apply greedy_acyclic.
Qed.

Theorem forest_of_spanning bound l : in_range4 bound l -> NoDup (map id4 l) ->
  forall x y, conn (ends4 l) x y <-> conn (ends4 (forest_of bound l)) x y.
Proof.
  intros Hr ND x y.
  rewrite (conn_perm2 _ _ (ends4_perm _ _ (forest_of_perm bound l Hr ND)) x y).
  rewrite (conn_perm2 _ _ (ends4_perm _ _ (sort_w_perm l)) x y).
  pose proof (greedy_spanning (sort_w l) [] x y) as G. rewrite !app_nil_r in G. exact G.
Qed.

Lemma forest_of_sub bound l q : In q (forest_of bound l) -> In q l.
Proof. unfold forest_of. intros H. apply filter_In in H. tauto. Qed.
