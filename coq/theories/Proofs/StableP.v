(* Proofs about the StableGraph model: the structural invariant [SInvP] (adjacency lists of
   the live nodes, the doubly linked free node list, the singly linked free edge list, the
   counters), the empty graph and add_node (T1). *)
From PG Require Import Lib.ListArr Lib.Walk Model.GraphM Model.StableM Proofs.GraphP Proofs.GraphRE.
Set Implicit Arguments.

(* ------------------------------------------------------------------ *)
(* Generic facts                                                       *)

Fixpoint nsome {A} (l : list (option A)) : nat :=
  match l with
  | [] => 0
  | Some _ :: t => S (nsome t)
  | None :: t => nsome t
  end.

Definition osome {A} (o : option A) : nat := match o with Some _ => 1 | None => 0 end.

Lemma nsome_app {A} (l1 l2 : list (option A)) : nsome (l1 ++ l2) = nsome l1 + nsome l2.
Proof.
  induction l1 as [|x l1 IH]; simpl; auto. destruct x; simpl; rewrite IH; reflexivity.
Qed.

Lemma nsome_upd {A} (l : list (option A)) i x v :
  nth_error l i = Some x -> nsome (upd l i v) + osome x = nsome l + osome v.
Proof.
  revert i; induction l as [|h t IH]; intros [|i] H; simpl in *; try discriminate.
  - injection H as ->. destruct x, v; simpl; lia.
  - specialize (IH _ H). destruct h; simpl; lia.
Qed.

Lemma nsome_le {A} (l : list (option A)) : nsome l <= length l.
Proof. induction l as [|x l IH]; simpl; auto. destruct x; simpl; lia. Qed.

Lemma nsome_map_all {A B} (f : A -> option B) (l : list A) :
  (forall x, In x l -> f x <> None) -> nsome (map f l) = length l.
Proof.
  induction l as [|x l IH]; intros H; simpl; auto.
  destruct (f x) eqn:E.
  - rewrite IH; auto. intros y Hy. apply H. simpl; auto.
  - exfalso. apply (H x); simpl; auto.
Qed.

Lemma upd_map_nth {A B} (f : A -> B) (l : list A) i v :
  nth_error (map f (upd l i v)) = nth_error (upd (map f l) i (f v)).
Proof. rewrite map_upd. reflexivity. Qed.

Lemma lseg_neq_cons nx h l t : lseg nx h l t -> h <> t -> nx t = None ->
  exists h' l', l = h :: l' /\ nx h = Some h' /\ lseg nx h' l' t.
Proof.
  intros H Hne Ht. destruct l as [|x l].
  - apply lseg_nil_inv in H. contradiction.
  - apply lseg_cons_inv in H. destruct H as [-> [h' [Hh Hl]]]. eauto.
Qed.

Lemma remove_filter (e : nat) l : remove Nat.eq_dec e l = filter (fun x => negb (Nat.eqb x e)) l.
Proof.
  induction l as [|x l IH]; simpl; auto.
  destruct (Nat.eq_dec e x) as [->|Hne].
  - rewrite Nat.eqb_refl. simpl. auto.
  - destruct (Nat.eqb_spec x e) as [->|_]; [congruence|]. simpl. rewrite IH. reflexivity.
Qed.

Lemma in_remove_iff (e x : nat) l : In x (remove Nat.eq_dec e l) <-> In x l /\ x <> e.
Proof.
  split.
  - apply in_remove.
  - intros [H1 H2]. apply in_in_remove; auto.
Qed.

(* ------------------------------------------------------------------ *)
(* Views                                                               *)

Definition nwo (g : IG) (i : nat) : option nat :=
  match nth_error (gnodes g) i with Some n => nwt n | None => None end.
Definition ewo (g : IG) (x : nat) : option nat :=
  match nth_error (gedges g) x with Some e => ewt e | None => None end.

(* successor along the free node list / free edge list: defined on vacant slots only *)
Definition fnx (g : IG) (i : nat) : option nat :=
  match nth_error (gnodes g) i with
  | Some n => match nwt n with None => Some (fst (nnext n)) | Some _ => None end
  | None => None
  end.
Definition fex (g : IG) (x : nat) : option nat :=
  match nth_error (gedges g) x with
  | Some e => match ewt e with None => Some (fst (enext e)) | Some _ => None end
  | None => None
  end.

(* back pointers of the doubly linked free node list *)
Fixpoint bkp (g : IG) (prev : nat) (l : list nat) : Prop :=
  match l with
  | [] => True
  | x :: t => hdn (gnodes g) 1 x = Some prev /\ bkp g x t
  end.

Lemma nwo_nth g i n : nth_error (gnodes g) i = Some n -> nwo g i = nwt n.
Proof. intros H. unfold nwo. rewrite H. reflexivity. Qed.

Lemma ewo_nth g x e : nth_error (gedges g) x = Some e -> ewo g x = ewt e.
Proof. intros H. unfold ewo. rewrite H. reflexivity. Qed.

Lemma nwo_oob g i : length (gnodes g) <= i -> nwo g i = None.
Proof. intros H. unfold nwo. rewrite (proj2 (nth_error_None _ _)); auto. Qed.

Lemma ewo_oob g x : length (gedges g) <= x -> ewo g x = None.
Proof. intros H. unfold ewo. rewrite (proj2 (nth_error_None _ _)); auto. Qed.

Lemma nwo_Some_lt g i : nwo g i <> None -> i < length (gnodes g).
Proof.
  intros H. destruct (Nat.lt_ge_cases i (length (gnodes g))); auto.
  rewrite nwo_oob in H; auto. congruence.
Qed.

Lemma ewo_Some_lt g x : ewo g x <> None -> x < length (gedges g).
Proof.
  intros H. destruct (Nat.lt_ge_cases x (length (gedges g))); auto.
  rewrite ewo_oob in H; auto. congruence.
Qed.

Lemma nwo_map g i : nwo g i = match nth_error (map (@nwt _) (gnodes g)) i with Some o => o | None => None end.
Proof. unfold nwo. rewrite nth_error_map. destruct (nth_error (gnodes g) i); reflexivity. Qed.

Lemma ewo_map g x : ewo g x = match nth_error (map (@ewt _) (gedges g)) x with Some o => o | None => None end.
Proof. unfold ewo. rewrite nth_error_map. destruct (nth_error (gedges g) x); reflexivity. Qed.

Lemma fnx_Some g i y : fnx g i = Some y ->
  exists n, nth_error (gnodes g) i = Some n /\ nwt n = None /\ fst (nnext n) = y.
Proof.
  unfold fnx. destruct (nth_error (gnodes g) i) as [n|]; [|discriminate].
  destruct (nwt n) eqn:E; [discriminate|]. intros [= <-]. eauto.
Qed.

Lemma fnx_vacant g i n : nth_error (gnodes g) i = Some n -> nwt n = None -> fnx g i = Some (fst (nnext n)).
Proof. intros H E. unfold fnx. rewrite H, E. reflexivity. Qed.

Lemma fnx_oob g i : length (gnodes g) <= i -> fnx g i = None.
Proof. intros H. unfold fnx. rewrite (proj2 (nth_error_None _ _)); auto. Qed.

Lemma fnx_live g i : nwo g i <> None -> fnx g i = None.
Proof.
  unfold nwo, fnx. destruct (nth_error (gnodes g) i) as [n|]; auto.
  destruct (nwt n); auto. congruence.
Qed.

Lemma fex_Some g x y : fex g x = Some y ->
  exists e, nth_error (gedges g) x = Some e /\ ewt e = None /\ fst (enext e) = y.
Proof.
  unfold fex. destruct (nth_error (gedges g) x) as [e|]; [|discriminate].
  destruct (ewt e) eqn:E; [discriminate|]. intros [= <-]. eauto.
Qed.

Lemma fex_vacant g x e : nth_error (gedges g) x = Some e -> ewt e = None -> fex g x = Some (fst (enext e)).
Proof. intros H E. unfold fex. rewrite H, E. reflexivity. Qed.

Lemma fex_oob g x : length (gedges g) <= x -> fex g x = None.
Proof. intros H. unfold fex. rewrite (proj2 (nth_error_None _ _)); auto. Qed.

Lemma fex_live g x : ewo g x <> None -> fex g x = None.
Proof.
  unfold ewo, fex. destruct (nth_error (gedges g) x) as [e|]; auto.
  destruct (ewt e); auto. congruence.
Qed.

Lemma lseg_fnx_in g h l t x : lseg (fnx g) h l t -> In x l -> x < length (gnodes g) /\ nwo g x = None.
Proof.
  intros H Hin. destruct (lseg_in_some x H Hin) as [y Hy].
  apply fnx_Some in Hy. destruct Hy as [n [Hn [Hw _]]]. split.
  - eapply nth_error_Some_lt; eauto.
  - rewrite (nwo_nth _ _ Hn). auto.
Qed.

Lemma lseg_fex_in g h l t x : lseg (fex g) h l t -> In x l -> x < length (gedges g) /\ ewo g x = None.
Proof.
  intros H Hin. destruct (lseg_in_some x H Hin) as [y Hy].
  apply fex_Some in Hy. destruct Hy as [e [He [Hw _]]]. split.
  - eapply nth_error_Some_lt; eauto.
  - rewrite (ewo_nth _ _ He). auto.
Qed.

Lemma bkp_frame g g' prev l :
  (forall x, In x l -> hdn (gnodes g') 1 x = hdn (gnodes g) 1 x) -> bkp g prev l -> bkp g' prev l.
Proof.
  revert prev; induction l as [|x l IH]; intros prev F H; simpl in *; auto.
  destruct H as [H1 H2]. split.
  - rewrite F; auto.
  - apply IH; auto.
Qed.

Lemma bkp_app g prev l1 x l2 : bkp g prev (l1 ++ x :: l2) -> bkp g x l2.
Proof.
  revert prev; induction l1 as [|y l1 IH]; intros prev H; simpl in *.
  - tauto.
  - destruct H as [_ H]. eapply IH; eauto.
Qed.

(* ------------------------------------------------------------------ *)
(* The invariant                                                       *)

Section SP.
  Variable cap : nat.

  Notation adj := (@adj (option nat) (option nat) cap).

  (* [p] = a node whose weight has been taken by remove_node but whose lists are still being
     drained: it still carries adjacency lists and is not yet in the free list. *)
  Definition lv (p : option nat) (g : IG) (i : nat) : Prop :=
    nwo g i <> None \/ (p = Some i /\ i < length (gnodes g)).

  Record GI (p : option nat) (g : IG) : Prop := {
    sgi_ncap : length (gnodes g) <= cap;
    sgi_ecap : length (gedges g) <= cap;
    sgi_ends : forall k x i, ewo g x <> None -> epo (gedges g) k x = Some i -> lv p g i;
    sgi_adj : forall k i, lv p g i ->
                exists l, adj g k i l /\
                          forall x, In x l <-> (ewo g x <> None /\ epo (gedges g) k x = Some i)
  }.

  Definition FNL (p : option nat) (g : IG) (fn : nat) : Prop :=
    exists l, lseg (fnx g) fn l cap /\ bkp g cap l /\
      forall i, In i l <-> (i < length (gnodes g) /\ nwo g i = None /\ p <> Some i).

  Definition FEL (g : IG) (fe : nat) : Prop :=
    exists l, lseg (fex g) fe l cap /\
      forall x, In x l <-> (x < length (gedges g) /\ ewo g x = None).

  Record SInvP (p : option nat) (s : sgraph) : Prop := {
    si_g : GI p (sg s);
    si_p : forall a, p = Some a -> a < length (gnodes (sg s)) /\ nwo (sg s) a = None;
    si_nc : ncount s = nsome (map (@nwt _) (gnodes (sg s))) + osome p;
    si_ec : ecount s = nsome (map (@ewt _) (gedges (sg s)));
    si_fn : FNL p (sg s) (free_node s);
    si_fe : FEL (sg s) (free_edge s)
  }.

  Definition SInv : sgraph -> Prop := SInvP None.

  (* ------------------------------------------------------------------ *)
  (* Elementary facts                                                    *)

  Lemma lv_lt p g i : lv p g i -> i < length (gnodes g).
  Proof. intros [H|[_ H]]; auto. apply nwo_Some_lt; auto. Qed.

  Lemma lv_None g i : lv None g i <-> nwo g i <> None.
  Proof. unfold lv. split; [intros [H|[H _]]; [auto|discriminate]|auto]. Qed.

  Lemma lv_dec p g i : lv p g i \/ ~ lv p g i.
  Proof.
    unfold lv. destruct (nwo g i) eqn:E.
    - left. left. congruence.
    - destruct p as [a|].
      + destruct (Nat.eq_dec a i) as [->|Hne].
        * destruct (Nat.lt_ge_cases i (length (gnodes g))); [left; right; auto|].
          right. intros [H'|[_ H']]; [congruence|lia].
        * right. intros [H'|[H' _]]; congruence.
      + right. intros [H'|[H' _]]; congruence.
  Qed.

  Lemma lv_same_nwt p g g' i :
    map (@nwt _) (gnodes g') = map (@nwt _) (gnodes g) -> lv p g i -> lv p g' i.
  Proof.
    intros E [H|[H1 H2]].
    - left. rewrite nwo_map, E, <- nwo_map. auto.
    - right. split; auto. rewrite (map_eq_length _ _ _ E). auto.
  Qed.

  Lemma fnx_cap g : length (gnodes g) <= cap -> fnx g cap = None.
  Proof. apply fnx_oob. Qed.

  Lemma fex_cap g : length (gedges g) <= cap -> fex g cap = None.
  Proof. apply fex_oob. Qed.

  Lemma GI_adj_NoDup p g k i l : GI p g -> adj g k i l -> NoDup l.
  Proof. intros I H. exact (adj_NoDup (sgi_ecap I) H). Qed.

  Lemma GI_adj_in p g k i l x : GI p g -> lv p g i -> adj g k i l ->
    (In x l <-> (ewo g x <> None /\ epo (gedges g) k x = Some i)).
  Proof.
    intros I Hl H. destruct (sgi_adj I k Hl) as [l0 [H0 C0]].
    rewrite (adj_det (sgi_ecap I) H H0). apply C0.
  Qed.

  Lemma GI_adj_disjoint p g k i j li lj x :
    GI p g -> lv p g i -> lv p g j -> adj g k i li -> adj g k j lj -> In x li -> In x lj -> i = j.
  Proof.
    intros I Li Lj Hi Hj Xi Xj.
    apply (GI_adj_in x I Li Hi) in Xi. apply (GI_adj_in x I Lj Hj) in Xj.
    destruct Xi as [_ Xi]. destruct Xj as [_ Xj]. congruence.
  Qed.

  Lemma FNL_NoDup g fn l : length (gnodes g) <= cap -> lseg (fnx g) fn l cap -> NoDup l.
  Proof. intros Hc H. eapply lseg_NoDup; eauto. apply fnx_cap; auto. Qed.

  Lemma FEL_NoDup g fe l : length (gedges g) <= cap -> lseg (fex g) fe l cap -> NoDup l.
  Proof. intros Hc H. eapply lseg_NoDup; eauto. apply fex_cap; auto. Qed.

  (* Frames: the free lists only depend on the vacant slots *)
  Lemma fnx_same g g' i :
    nth_error (gnodes g') i = nth_error (gnodes g) i -> fnx g' i = fnx g i.
  Proof. intros E. unfold fnx. rewrite E. reflexivity. Qed.

  Lemma fex_same g g' x :
    nth_error (gedges g') x = nth_error (gedges g) x -> fex g' x = fex g x.
  Proof. intros E. unfold fex. rewrite E. reflexivity. Qed.

  Lemma hdn_same (ns ns' : list (node (option nat))) k i :
    nth_error ns' i = nth_error ns i -> hdn ns' k i = hdn ns k i.
  Proof. intros E. unfold hdn. rewrite E. reflexivity. Qed.

  Lemma FNL_frame p g g' fn :
    map (@nwt _) (gnodes g') = map (@nwt _) (gnodes g) ->
    (forall j, nwo g j = None -> p <> Some j -> nth_error (gnodes g') j = nth_error (gnodes g) j) ->
    FNL p g fn -> FNL p g' fn.
  Proof.
    intros Ew F [l [Hl [Hb C]]]. exists l.
    assert (Fl : forall x, In x l -> nth_error (gnodes g') x = nth_error (gnodes g) x).
    { intros x Hx. apply C in Hx. destruct Hx as [_ [H1 H2]]. apply F; auto. }
    split; [|split].
    - eapply lseg_frame; [exact Hl|]. intros x Hx. apply fnx_same. auto.
    - eapply bkp_frame; [|exact Hb]. intros x Hx. apply hdn_same. auto.
    - intros i. rewrite C. rewrite (map_eq_length _ _ _ Ew).
      rewrite (nwo_map g' i), Ew, <- nwo_map. tauto.
  Qed.

  Lemma FEL_frame g g' fe :
    map (@ewt _) (gedges g') = map (@ewt _) (gedges g) ->
    (forall x, ewo g x = None -> nth_error (gedges g') x = nth_error (gedges g) x) ->
    FEL g fe -> FEL g' fe.
  Proof.
    intros Ew F [l [Hl C]]. exists l. split.
    - eapply lseg_frame; [exact Hl|]. intros x Hx. apply fex_same. apply F. apply C in Hx. tauto.
    - intros x. rewrite C. rewrite (map_eq_length _ _ _ Ew).
      rewrite (ewo_map g' x), Ew, <- ewo_map. tauto.
  Qed.

  Lemma FNL_head_cap g l : length (gnodes g) <= cap -> lseg (fnx g) cap l cap -> l = [].
  Proof.
    intros Hc H. destruct (lseg_none_start (fnx_cap g Hc) H) as [E _]. auto.
  Qed.

  Lemma FEL_head_cap g l : length (gedges g) <= cap -> lseg (fex g) cap l cap -> l = [].
  Proof.
    intros Hc H. destruct (lseg_none_start (fex_cap g Hc) H) as [E _]. auto.
  Qed.

  (* uniform description of the conditional back-pointer update *)
  Lemma upd_back_ptr (g : IG) i v :
    length (gnodes g) <= cap -> i < length (gnodes g) \/ i = cap ->
    (if Nat.eqb i cap then Ok g
     else upd_node g i (fun n => set_nnext n (fst (nnext n), v)))
    = Ok (mkGraph (set_hd (gnodes g) 1 i v) (gedges g)).
  Proof.
    intros Hc H. destruct (Nat.eqb_spec i cap) as [E|Hne].
    - unfold set_hd. rewrite (proj2 (nth_error_None _ _)) by lia. destruct g; reflexivity.
    - destruct H as [H|H]; [|contradiction].
      destruct (nth_error_lt_Some _ H) as [n En].
      unfold upd_node, set_hd. rewrite En. reflexivity.
  Qed.
End SP.

(* ------------------------------------------------------------------ *)
(* T1: the empty graph and add_node                                    *)

Lemma fnx_alt g i :
  fnx g i = match nth_error (map (@nwt _) (gnodes g)) i with
            | Some None => hdn (gnodes g) 0 i
            | _ => None
            end.
Proof.
  unfold fnx, hdn. rewrite nth_error_map. destruct (nth_error (gnodes g) i) as [n|]; simpl; auto.
Qed.

Lemma fnx_same2 g g' i :
  nth_error (map (@nwt _) (gnodes g')) i = nth_error (map (@nwt _) (gnodes g)) i ->
  hdn (gnodes g') 0 i = hdn (gnodes g) 0 i -> fnx g' i = fnx g i.
Proof. intros E1 E2. rewrite !fnx_alt, E1, E2. reflexivity. Qed.

Section AddNode.
  Variable cap : nat.
  Variable capcheck : bool.
  Variable debug : bool.

  Notation adj := (@adj (option nat) (option nat) cap).

  Lemma SInv_empty : SInv cap (sg_empty cap).
  Proof.
    constructor; simpl.
    - constructor; simpl; try lia.
      + intros k x i H. exfalso. apply H. unfold ewo. simpl. destruct x; reflexivity.
      + intros k i H. apply lv_lt in H. simpl in H. lia.
    - intros a H. discriminate.
    - reflexivity.
    - reflexivity.
    - exists []. split; [constructor|]. split; [exact I|].
      intros i. simpl. split; [intros []|lia].
    - exists []. split; [constructor|]. intros x. simpl. split; [intros []|lia].
  Qed.

  Lemma FEL_same_edges g g' fe : gedges g' = gedges g -> FEL cap g fe -> FEL cap g' fe.
  Proof. intros E. apply FEL_frame; rewrite E; auto. Qed.

  (* the result of a successful add_node *)
  Record add_node_post (s : sgraph) (w i : nat) (s' : sgraph) : Prop := {
    an_fresh : nwo (sg s) i = None;
    an_new : nwo (sg s') i = Some w;
    an_old : forall j, j <> i -> nwo (sg s') j = nwo (sg s) j;
    an_edges : gedges (sg s') = gedges (sg s);
    an_adj_old : forall k j l, nwo (sg s) j <> None -> adj (sg s) k j l -> adj (sg s') k j l;
    an_adj_new : forall k, adj (sg s') k i [];
    an_nc : ncount s' = S (ncount s);
    an_ec : ecount s' = ecount s;
    an_nlen : length (gnodes (sg s)) <= length (gnodes (sg s')) <= S (length (gnodes (sg s)))
  }.

  Lemma add_node_fresh s w :
    SInv cap s -> free_node s = cap -> length (gnodes (sg s)) < cap ->
    exists s', s_try_add_node cap capcheck debug s w = Ok (inr (length (gnodes (sg s))), s') /\
      SInv cap s' /\ add_node_post s w (length (gnodes (sg s))) s'.
  Proof.
    intros I Hfn Hlt.
    set (g := sg s) in *. set (m := length (gnodes g)) in *.
    set (g' := mkGraph (gnodes g ++ [mkNode (Some w) (cap, cap)]) (gedges g)).
    unfold s_try_add_node. rewrite Hfn, Nat.eqb_refl. cbn [negb].
    fold g. rewrite (@try_add_node_ok _ _ cap capcheck g (Some w)) by (right; fold m; lia).
    fold g'. eexists; split; [reflexivity|].
    assert (Hnw : forall j, nwo g' j = if Nat.eqb j m then Some w else nwo g j).
    { intros j. unfold nwo, g'. cbn [gnodes].
      destruct (Nat.eqb_spec j m) as [E|Hne]; [subst j|].
      - rewrite nth_error_app2 by (unfold m; lia). unfold m. rewrite Nat.sub_diag. reflexivity.
      - destruct (Nat.lt_ge_cases j m) as [Hj|Hj].
        + rewrite nth_error_app1 by auto. reflexivity.
        + rewrite !(proj2 (nth_error_None _ _)); auto.
          rewrite app_length. simpl. fold m. lia. }
    destruct (si_fn I) as [fl [Hfl [Hfb Cf]]]. fold g in Hfl, Hfb, Cf.
    rewrite Hfn in Hfl. apply (FNL_head_cap (sgi_ncap (si_g I))) in Hfl. subst fl.
    assert (Hfull : forall j, j < m -> nwo g j <> None).
    { intros j Hj E. apply (Cf j). split; auto. split; auto. discriminate. }
    assert (Hfresh : nwo g m = None) by (apply nwo_oob; unfold m; lia).
    split; [constructor|constructor]; cbn [sg ncount ecount free_node free_edge].
    - (* GI *)
      constructor.
      + unfold g'. cbn [gnodes]. rewrite app_length. simpl. fold m. lia.
      + apply (sgi_ecap (si_g I)).
      + intros k x i Hx Hep. apply lv_None. rewrite Hnw.
        destruct (Nat.eqb_spec i m); [discriminate|].
        apply lv_None. apply (sgi_ends (si_g I) k x); auto.
      + intros k i Hi. apply lv_None in Hi. rewrite Hnw in Hi.
        destruct (Nat.eqb_spec i m) as [E|Hne]; [subst i|].
        * exists []. split; [apply add_node_adj_new|].
          intros x. split; [intros []|]. intros [Hx Hep]. exfalso.
          assert (Hl : lv None g m) by (apply (sgi_ends (si_g I) k x); auto).
          apply lv_None in Hl. contradiction.
        * destruct (sgi_adj (si_g I) k (i := i)) as [l [Hl C]]; [apply lv_None; auto|].
          exists l. split; auto. apply add_node_adj_old; auto.
    - intros a H. discriminate.
    - unfold g'. cbn [gnodes]. rewrite map_app, nsome_app. cbn [map nwt nsome osome].
      rewrite (si_nc I). fold g. cbn [osome]. lia.
    - apply (si_ec I).
    - exists []. split; [constructor|]. split; [exact Logic.I|].
      intros i. split; [intros []|]. intros [Hi [Hv _]]. exfalso.
      rewrite Hnw in Hv. destruct (Nat.eqb_spec i m); [discriminate|].
      apply (Hfull i); auto. unfold g' in Hi. cbn [gnodes] in Hi. rewrite app_length in Hi.
      simpl in Hi. fold m in Hi. lia.
    - apply (@FEL_same_edges g g'); [reflexivity|apply (si_fe I)].
    - exact Hfresh.
    - rewrite Hnw, Nat.eqb_refl. reflexivity.
    - intros j Hj. rewrite Hnw. destruct (Nat.eqb_spec j m); [contradiction|reflexivity].
    - reflexivity.
    - intros k j l _ Hl. apply add_node_adj_old; auto.
    - intros k. apply add_node_adj_new.
    - reflexivity.
    - reflexivity.
    - unfold g', m, g. cbn [gnodes]. rewrite app_length. cbn [length]. lia.
  Qed.

  Lemma add_node_limit s w :
    free_node s = cap -> capcheck = true -> length (gnodes (sg s)) = cap ->
    s_try_add_node cap capcheck debug s w = Ok (inl NodeIxLimit, s).
  Proof.
    intros Hfn Hc Hl. unfold s_try_add_node. rewrite Hfn, Nat.eqb_refl. cbn [negb].
    rewrite (@try_add_node_limit _ _ cap capcheck (sg s) (Some w)); auto.
  Qed.

  (* a vacancy exists: the head of the free list is reused *)
  Lemma add_node_reuse s w :
    SInv cap s -> free_node s <> cap ->
    exists s', s_try_add_node cap capcheck debug s w = Ok (inr (free_node s), s') /\
      SInv cap s' /\ add_node_post s w (free_node s) s'.
  Proof.
    intros I Hfn.
    set (g := sg s) in *. set (fn := free_node s) in *.
    pose proof (sgi_ncap (si_g I)) as Hncap. fold g in Hncap.
    destruct (si_fn I) as [fl [Hfl [Hfb Cf]]]. fold g fn in Hfl, Hfb, Cf.
    destruct (lseg_neq_cons Hfl Hfn (fnx_cap g Hncap)) as [nxt [l' [-> [Hfx Hl']]]].
    destruct (fnx_Some _ _ Hfx) as [slot [Hslot [Hw Hnx]]].
    destruct Hfb as [Hb0 Hb'].
    assert (Hprev : snd (nnext slot) = cap).
    { unfold hdn in Hb0. rewrite Hslot in Hb0. simpl in Hb0. congruence. }
    pose proof (FNL_NoDup Hncap Hfl) as Hnd.
    assert (Hfnl' : ~ In fn l') by (inversion Hnd; auto).
    assert (Hfnlt : fn < length (gnodes g)) by (eapply nth_error_Some_lt; eauto).
    assert (Hnxt : nxt < length (gnodes g) \/ nxt = cap).
    { destruct l' as [|y l''].
      - right. apply lseg_nil_inv in Hl'. auto.
      - left. apply lseg_cons_inv in Hl'. destruct Hl' as [-> _].
        apply (lseg_fnx_in nxt Hfl). simpl; auto. }
    assert (Hnf : nxt <> fn).
    { destruct l' as [|y l''].
      - apply lseg_nil_inv in Hl'. congruence.
      - apply lseg_cons_inv in Hl'. destruct Hl' as [-> _]. intros E. apply Hfnl'. rewrite E. simpl; auto. }
    set (newn := mkNode (Some w) (cap, cap) : node (option nat)).
    set (ns1 := upd (gnodes g) fn newn).
    set (ns2 := set_hd ns1 1 nxt cap).
    set (g' := mkGraph ns2 (gedges g) : IG).
    assert (Hrun : s_try_add_node cap capcheck debug s w =
                   Ok (inr fn, mkSG g' (S (ncount s)) (ecount s) nxt (free_edge s))).
    { unfold s_try_add_node. fold fn. destruct (Nat.eqb_spec fn cap) as [|_]; [contradiction|].
      cbn [negb]. unfold occupy_vacant_node. fold g. rewrite Hslot, Hw, andb_false_r.
      unfold upd_node at 1. rewrite Hslot. cbn [rbind]. rewrite Hprev, Nat.eqb_refl. cbn [rbind].
      rewrite Hnx. fold newn ns1.
      rewrite (@upd_back_ptr cap (mkGraph ns1 (gedges g)) nxt cap).
      - cbn [rbind rmap gnodes gedges]. fold fn. rewrite Nat.eqb_refl. reflexivity.
      - cbn [gnodes]. unfold ns1. rewrite upd_length. auto.
      - cbn [gnodes]. unfold ns1. rewrite upd_length. auto. }
    rewrite Hrun. eexists; split; [reflexivity|].
    assert (Hlen : length ns2 = length (gnodes g)).
    { rewrite <- (map_length (@nwt _)). unfold ns2. rewrite set_hd_nwt, map_length.
      unfold ns1. apply upd_length. }
    assert (Hmw : map (@nwt _) ns2 = upd (map (@nwt _) (gnodes g)) fn (Some w)).
    { unfold ns2. rewrite set_hd_nwt. unfold ns1. rewrite map_upd. reflexivity. }
    assert (Hnw : forall j, nwo g' j = if Nat.eqb j fn then Some w else nwo g j).
    { intros j. rewrite (nwo_map g' j). unfold g'. cbn [gnodes]. rewrite Hmw, nth_error_upd.
      rewrite map_length. rewrite (Nat.eqb_sym j fn).
      destruct (Nat.eqb_spec fn j) as [<-|Hne].
      - destruct (Nat.ltb_spec fn (length (gnodes g))); [reflexivity|lia].
      - rewrite <- nwo_map. reflexivity. }
    assert (Hoth : forall j, j <> fn -> j <> nxt -> nth_error ns2 j = nth_error (gnodes g) j).
    { intros j H1 H2. unfold ns2, set_hd. destruct (nth_error ns1 nxt) as [nn|].
      - rewrite nth_error_upd_neq by auto. unfold ns1. apply nth_error_upd_neq. auto.
      - unfold ns1. apply nth_error_upd_neq. auto. }
    assert (Hnew : nth_error ns2 fn = Some newn).
    { unfold ns2, set_hd. destruct (nth_error ns1 nxt) as [nn|].
      - rewrite nth_error_upd_neq by auto. unfold ns1. apply nth_error_upd_eq. auto.
      - unfold ns1. apply nth_error_upd_eq. auto. }
    assert (Hh0 : forall j, j <> fn -> hdn ns2 0 j = hdn (gnodes g) 0 j).
    { intros j Hj. unfold ns2. change 0 with (1 - 1) at 1. rewrite hdn_set_hd_other.
      simpl. apply hdn_same. unfold ns1. apply nth_error_upd_neq. auto. }
    assert (Hfx' : forall j, j <> fn -> fnx g' j = fnx g j).
    { intros j Hj. apply fnx_same2.
      - unfold g'. cbn [gnodes]. rewrite Hmw. apply nth_error_upd_neq. auto.
      - apply Hh0; auto. }
    assert (Hlive_oth : forall j, nwo g j <> None -> j <> fn /\ j <> nxt).
    { intros j Hj. split.
      - intros ->. apply Hj. rewrite (nwo_nth _ _ Hslot). auto.
      - intros ->. destruct Hnxt as [Hn|Hn].
        + destruct l' as [|y l'']; [apply lseg_nil_inv in Hl'; lia|].
          apply lseg_cons_inv in Hl'. destruct Hl' as [-> _].
          destruct (lseg_fnx_in nxt Hfl) as [_ Hv]; [simpl; auto|]. contradiction.
        + apply Hj. apply nwo_oob. lia. }
    assert (Hadj_old : forall k j l, nwo g j <> None -> adj g k j l -> adj g' k j l).
    { intros k j l Hj [n [Hn Hl]]. destruct (Hlive_oth j Hj) as [H1 H2].
      exists n. split; auto. unfold g'. cbn [gnodes]. rewrite Hoth; auto. }
    assert (Hadj_new : forall k, adj g' k fn []).
    { intros k. exists newn. split; [exact Hnew|]. destruct k; simpl; constructor. }
    assert (Hvac : nwo g fn = None) by (rewrite (nwo_nth _ _ Hslot); auto).
    split; [constructor|constructor]; cbn [sg ncount ecount free_node free_edge].
    - constructor.
      + unfold g'. cbn [gnodes]. lia.
      + apply (sgi_ecap (si_g I)).
      + intros k x i Hx Hep. apply lv_None. rewrite Hnw.
        destruct (Nat.eqb_spec i fn); [discriminate|].
        apply lv_None. apply (sgi_ends (si_g I) k x); auto.
      + intros k i Hi. apply lv_None in Hi. rewrite Hnw in Hi.
        destruct (Nat.eqb_spec i fn) as [E|Hne]; [subst i|].
        * exists []. split; [apply Hadj_new|].
          intros x. split; [intros []|]. intros [Hx Hep]. exfalso.
          assert (Hl : lv None g fn) by (apply (sgi_ends (si_g I) k x); auto).
          apply lv_None in Hl. contradiction.
        * destruct (sgi_adj (si_g I) k (i := i)) as [l [Hl C]]; [apply lv_None; auto|].
          exists l. split; auto.
    - intros a H. discriminate.
    - unfold g'. cbn [gnodes]. rewrite Hmw.
      assert (Hn0 : nth_error (map (@nwt _) (gnodes g)) fn = Some None).
      { rewrite nth_error_map, Hslot. simpl. rewrite Hw. reflexivity. }
      pose proof (@nsome_upd _ _ _ _ (Some w) Hn0) as Hc. cbn [osome] in Hc.
      rewrite (si_nc I). fold g. cbn [osome]. lia.
    - apply (si_ec I).
    - exists l'. split; [|split].
      + eapply lseg_frame; [exact Hl'|]. intros x Hx. apply Hfx'. intros ->. contradiction.
      + destruct l' as [|y l'']; [exact Logic.I|].
        pose proof Hl' as Hl2. apply lseg_cons_inv in Hl2. destruct Hl2 as [-> _].
        destruct Hb' as [_ Hb'']. split.
        * unfold g'. cbn [gnodes]. unfold ns2. apply hdn_set_hd_same.
          unfold ns1. rewrite upd_length. destruct Hnxt; [auto|].
          exfalso. destruct (lseg_fnx_in nxt Hfl) as [Hlt _]; [simpl; auto|]. lia.
        * eapply bkp_frame; [|exact Hb'']. intros x Hx. apply hdn_same.
          unfold g'. cbn [gnodes]. apply Hoth.
          -- intros ->. apply Hfnl'. simpl; auto.
          -- intros ->. inversion Hnd as [|? ? _ Hnd']. inversion Hnd'; auto.
      + intros i. unfold g'. cbn [gnodes]. rewrite Hlen. fold g'. rewrite Hnw.
        pose proof (Cf i) as Ci. simpl in Ci.
        destruct (Nat.eqb_spec i fn) as [E|Hne]; [subst i|].
        * split; [intros; contradiction|]. intros [_ [H _]]. discriminate.
        * split.
          -- intros Hin. apply Ci. auto.
          -- intros H. apply Ci in H. destruct H as [H|H]; [congruence|auto].
    - apply (@FEL_same_edges g g'); [reflexivity|apply (si_fe I)].
    - exact Hvac.
    - rewrite Hnw, Nat.eqb_refl. reflexivity.
    - intros j Hj. rewrite Hnw. destruct (Nat.eqb_spec j fn); [contradiction|reflexivity].
    - reflexivity.
    - exact Hadj_old.
    - exact Hadj_new.
    - reflexivity.
    - reflexivity.
    - unfold g'. cbn [gnodes]. rewrite Hlen. unfold g. lia.
  Qed.
End AddNode.
