(* maximum_matching (Gabow): the sequence of non-outer vertices of a path P(u) (followed by the
   dummy), which find_join walks with step_inner.  Facts derived from the search invariant SI. *)
From PG Require Import Lib.Io Model.View Model.Traversal Model.MatchM Spec.Reach Spec.MatchSpec
  Proofs.TravBase Proofs.MatchGreedyP Proofs.MatchShapeP Proofs.MatchAugP Proofs.MatchFlipP
  Proofs.MatchInvP.

(* ------------------------------------------------------------------ *)
(* lists                                                               *)

Lemma nodup_split_unique (l a1 b1 a2 b2 : list nat) x :
  NoDup l -> l = a1 ++ x :: b1 -> l = a2 ++ x :: b2 -> a1 = a2 /\ b1 = b2.
Proof.
  intros Hnd E1. subst l. revert a2. induction a1 as [|h t IH]; intros a2 E2.
  - destruct a2 as [|h2 t2].
    + cbn [app] in E2. injection E2 as <-. auto.
    + cbn [app] in E2. injection E2 as -> E2. exfalso.
      cbn [app] in Hnd. inversion Hnd as [|? ? Hn _]; subst. apply Hn.
      apply in_or_app; right; left; reflexivity.
  - destruct a2 as [|h2 t2].
    + cbn [app] in E2. injection E2 as -> E2. exfalso.
      cbn [app] in Hnd. inversion Hnd as [|? ? Hn _]; subst. apply Hn.
      apply in_or_app; right; left; reflexivity.
    + cbn [app] in E2. injection E2 as -> E2.
      cbn [app] in Hnd. inversion Hnd as [|? ? _ Hnd']; subst.
      destruct (IH Hnd' t2 E2) as [-> ->]. auto.
Qed.

Definition nonout (labs : list label) (x : nat) : bool := negb (outb labs x).
Definition iseq (labs : list label) (l : list nat) : list nat := filter (nonout labs) l.

Lemma fno_hd labs d l : fno labs d l = hd d (iseq labs l).
Proof.
  induction l as [|x t IH]; cbn [fno iseq filter]; [reflexivity|].
  unfold nonout at 1. destruct (outb labs x); cbn [negb hd]; [exact IH | reflexivity].
Qed.

Lemma iseq_app labs l1 l2 : iseq labs (l1 ++ l2) = iseq labs l1 ++ iseq labs l2.
Proof. apply filter_app. Qed.

Lemma iseq_In labs l x : In x (iseq labs l) <-> In x l /\ ~ outerv labs x.
Proof.
  unfold iseq. rewrite filter_In. unfold nonout. rewrite negb_true_iff. split; intros [H1 H2]; split; auto.
  - intros H. apply outerv_outb in H. congruence.
  - destruct (outb labs x) eqn:E; [|reflexivity]. exfalso. apply H2. apply outerv_outb. exact E.
Qed.

Lemma iseq_cons_outer labs x t : outerv labs x -> iseq labs (x :: t) = iseq labs t.
Proof.
  intros H. unfold iseq. cbn [filter]. unfold nonout at 1.
  rewrite (proj1 (outerv_outb _ _) H). reflexivity.
Qed.

Lemma iseq_cons_non labs x t : ~ outerv labs x -> iseq labs (x :: t) = x :: iseq labs t.
Proof.
  intros H. unfold iseq. cbn [filter]. unfold nonout at 1.
  destruct (outb labs x) eqn:E; [exfalso; apply H, outerv_outb, E | reflexivity].
Qed.

(* the part of a list before the first occurrence of u *)
Fixpoint before (u : nat) (l : list nat) : list nat :=
  match l with
  | [] => []
  | x :: t => if Nat.eqb x u then [] else x :: before u t
  end.

Lemma before_split u : forall l, In u l -> exists b, l = before u l ++ u :: b.
Proof.
  induction l as [|x t IH]; intros Hin; [destruct Hin|]. cbn [before].
  destruct (Nat.eqb_spec x u) as [->|Hne].
  - exists t. reflexivity.
  - destruct Hin as [E|Hin]; [contradiction|]. destruct (IH Hin) as [b Hb]. exists b.
    cbn [app]. f_equal. exact Hb.
Qed.

Lemma before_unique u (l a b : list nat) : NoDup l -> l = a ++ u :: b -> before u l = a.
Proof.
  intros Hnd E. assert (Hin : In u l) by (rewrite E; apply in_or_app; right; left; reflexivity).
  destruct (before_split u l Hin) as [b' Hb']. symmetry.
  apply (nodup_split_unique l a b (before u l) b' u Hnd E Hb').
Qed.

(* ------------------------------------------------------------------ *)
(* states that differ from s only at non-outer vertices                *)

Definition Agree (s s' : mst) : Prop :=
  mate s' = mate s /\
  forall u, outerv (lab s) u ->
    nth_error (lab s') u = nth_error (lab s) u /\ nth_error (fin s') u = nth_error (fin s) u.

Lemma Agree_refl s : Agree s s.
Proof. split; auto. Qed.

(* ------------------------------------------------------------------ *)
(* the sequence of a path                                              *)

Section Seq.
Variable v : view.
Variable start : nat.
Variable s : mst.
Variable pth : nat -> list nat.
Variable rk : nat -> nat.
Hypothesis I : SI v start s pth rk.

Let HL := si_lab _ _ _ _ _ I.
Let d := vbound v.

Definition xs (u : nat) : list nat := iseq (lab s) (pth u) ++ [d].

Lemma dummy_not_outer : ~ outerv (lab s) d.
Proof.
  intros H. destruct (lo_hd HL d H) as [rest Hr].
  assert (d < vbound v); [|unfold d in *; lia].
  apply (lo_range HL d d H). rewrite Hr. left; reflexivity.
Qed.

Lemma xs_range u x : outerv (lab s) u -> In x (xs u) -> x <= vbound v /\ ~ outerv (lab s) x.
Proof.
  intros Hu Hx. unfold xs in Hx. apply in_app_or in Hx. destruct Hx as [Hx|[<-|[]]].
  - apply iseq_In in Hx. destruct Hx as [Hx Hn]. split; [|exact Hn].
    pose proof (lo_range HL u x Hu Hx). lia.
  - split; [unfold d; lia | apply dummy_not_outer].
Qed.

Lemma xs_nodup u : outerv (lab s) u -> NoDup (xs u).
Proof.
  intros Hu. unfold xs. apply NoDup_app_intro.
  - apply NoDup_filter. apply (lo_nodup HL u Hu).
  - repeat constructor. intros [].
  - intros x Hx [<-|[]]. apply iseq_In in Hx. destruct Hx as [Hx _].
    pose proof (lo_range HL u d Hu Hx). unfold d in *. lia.
Qed.

Lemma xs_hd u : outerv (lab s) u -> nth_error (fin s) u = Some (hd d (xs u)).
Proof.
  intros Hu. destruct (lo_hd HL u Hu) as [rest Hr].
  rewrite (si_fin _ _ _ _ _ I u [] u rest Hu Hr Hu). f_equal. rewrite fno_hd.
  unfold xs. rewrite Hr, (iseq_cons_outer _ _ _ Hu).
  destruct (iseq (lab s) rest); reflexivity.
Qed.

(* a non-dummy element f of the sequence: its mate o is outer with label LVertex x, and the
   sequence goes on as the sequence of x *)
Lemma xs_inner u f : outerv (lab s) u -> In f (xs u) -> f <> d ->
  exists o x l1, outerv (lab s) o /\ outerv (lab s) x /\ m_mate (mate s) f = Some o /\
                 nth_error (lab s) o = Some (LVertex x) /\ xs u = l1 ++ f :: xs x.
Proof.
  intros Hu Hf Hfd. unfold xs in Hf. apply in_app_or in Hf. destruct Hf as [Hf|[E|[]]]; [|congruence].
  apply iseq_In in Hf. destruct Hf as [Hf Hn].
  destruct (si_inner _ _ _ _ _ I u f Hu Hf Hn) as [pre [o [x [H1 [_ [H2 H3]]]]]].
  assert (Ho : outerv (lab s) o) by (exists (LVertex x); auto).
  destruct (lo_vertex HL o x H3) as [Hx _].
  exists o, x, (iseq (lab s) pre). split; [exact Ho|]. split; [exact Hx|]. split; [|split; [exact H3|]].
  - apply (lo_sym HL o f). rewrite (lo_mate HL o 0 o Ho) by (rewrite H2; reflexivity). rewrite H2. reflexivity.
  - unfold xs. rewrite H1, H2, iseq_app, (iseq_cons_outer _ _ _ Ho), (iseq_cons_non _ _ _ Hn).
    rewrite <- app_assoc. reflexivity.
Qed.

(* two sequences that meet go on together *)
Lemma xs_common u u' f a1 b1 a2 b2 : outerv (lab s) u -> outerv (lab s) u' ->
  xs u = a1 ++ f :: b1 -> xs u' = a2 ++ f :: b2 -> b1 = b2.
Proof.
  intros Hu Hu' E1 E2.
  assert (Hin1 : In f (xs u)) by (rewrite E1; apply in_or_app; right; left; reflexivity).
  assert (Hin2 : In f (xs u')) by (rewrite E2; apply in_or_app; right; left; reflexivity).
  destruct (Nat.eq_dec f d) as [->|Hfd].
  - assert (F1 : xs u = iseq (lab s) (pth u) ++ d :: []) by reflexivity.
    assert (F2 : xs u' = iseq (lab s) (pth u') ++ d :: []) by reflexivity.
    destruct (nodup_split_unique _ _ _ _ _ _ (xs_nodup u Hu) E1 F1) as [_ ->].
    destruct (nodup_split_unique _ _ _ _ _ _ (xs_nodup u' Hu') E2 F2) as [_ ->]. reflexivity.
  - destruct (xs_inner u f Hu Hin1 Hfd) as [o [x [l1 [_ [_ [Hm [Hl F1]]]]]]].
    destruct (xs_inner u' f Hu' Hin2 Hfd) as [o' [x' [l1' [_ [_ [Hm' [Hl' F2]]]]]]].
    rewrite Hm in Hm'. injection Hm' as <-. rewrite Hl in Hl'. injection Hl' as <-.
    destruct (nodup_split_unique _ _ _ _ _ _ (xs_nodup u Hu) E1 F1) as [_ ->].
    destruct (nodup_split_unique _ _ _ _ _ _ (xs_nodup u' Hu') E2 F2) as [_ ->]. reflexivity.
Qed.

(* step_inner moves to the next element of the sequence, in any state that agrees with s *)
Lemma xs_step u a f y b s' : outerv (lab s) u -> xs u = a ++ f :: y :: b -> Agree s s' ->
  step_inner s' f = Ok y.
Proof.
  intros Hu E [Am Ao].
  assert (Hin : In f (xs u)) by (rewrite E; apply in_or_app; right; left; reflexivity).
  assert (Hfd : f <> d).
  { intros ->. assert (F1 : xs u = iseq (lab s) (pth u) ++ d :: []) by reflexivity.
    destruct (nodup_split_unique _ _ _ _ _ _ (xs_nodup u Hu) E F1) as [_ Hb]. discriminate. }
  destruct (xs_inner u f Hu Hin Hfd) as [o [x [l1 [Ho [Hx [Hm [Hl F1]]]]]]].
  destruct (nodup_split_unique _ _ _ _ _ _ (xs_nodup u Hu) E F1) as [_ Hb].
  pose proof (xs_hd x Hx) as Hfx. rewrite <- Hb in Hfx. cbn [hd] in Hfx.
  unfold step_inner. rewrite Am.
  assert (Hfl : f < length (mate s)) by (eapply m_mate_lt; eauto).
  rewrite getp_mate by exact Hfl. cbn [rbind]. rewrite Hm. cbn [unwrap rbind].
  destruct (Ao o Ho) as [Lo _]. destruct (Ao x Hx) as [_ Fx].
  unfold getp. rewrite Lo, Hl. cbn [rbind to_vertex]. rewrite Fx, Hfx. reflexivity.
Qed.

(* the dummy is the last element *)
Lemma xs_last u a b : xs u = a ++ d :: b -> outerv (lab s) u -> b = [].
Proof.
  intros E Hu. assert (F1 : xs u = iseq (lab s) (pth u) ++ d :: []) by reflexivity.
  destruct (nodup_split_unique _ _ _ _ _ _ (xs_nodup u Hu) E F1) as [_ ->]. reflexivity.
Qed.

End Seq.

Print Assumptions xs_step.
Print Assumptions xs_common.
