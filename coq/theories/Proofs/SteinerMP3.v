(* C20e, part 3: the result of steiner_for for one spanning tree of the metric closure.
   walk_back follows floyd_warshall's predecessor chain; the union of the paths connects the
   terminals; forest_ids keeps a spanning tree of that union; prune does the rest (part 2). *)
From Coq Require Import Lia ZArith Bool Permutation.
From PG Require Import Lib.Io Model.View Model.ShortestM Model.UnionFindM Model.MstM Model.MiscM Model.SteinerM
  Spec.Partition Spec.Forest Spec.MiscSpec Spec.EPaths
  Proofs.UnionFindH Proofs.ForestP Proofs.MstP Proofs.PrimP Proofs.FloydP Proofs.FloydCompleteP
  Proofs.MiscSteinerP1 Proofs.SteinerMP1 Proofs.SteinerMP2.
Local Open Scope nat_scope.

(* ------------------------------------------------------------------ *)
(* rmapm                                                                *)

Lemma rmapm_In {A B} (f : A -> res B) : forall l ys, rmapm f l = Ok ys ->
  (forall y, In y ys -> exists x, In x l /\ f x = Ok y) /\
  (forall x, In x l -> exists y, In y ys /\ f x = Ok y).
Proof.
  induction l as [|x t IH]; intros ys E; cbn [rmapm] in E.
  - injection E as <-. split; [intros y [] | intros x []].
  - destruct (f x) as [y0| |] eqn:Ex; cbn [rbind] in E; try discriminate E.
    destruct (rmapm f t) as [ys0| |] eqn:Et; cbn [rbind] in E; try discriminate E.
    injection E as <-. destruct (IH ys0 eq_refl) as [H1 H2]. split.
    + intros y [<-|Hy]; [exists x; split; [left; reflexivity | exact Ex]|].
      destruct (H1 y Hy) as [x' [Hx' Ex']]. exists x'. split; [right; exact Hx' | exact Ex'].
    + intros x' [<-|Hx']; [exists y0; split; [left; reflexivity | exact Ex]|].
      destruct (H2 x' Hx') as [y [Hy Ey]]. exists y. split; [right; exact Hy | exact Ey].
Qed.

Lemma rmapm_total {A B} (f : A -> res B) : forall l,
  (forall x, In x l -> exists y, f x = Ok y) -> exists ys, rmapm f l = Ok ys.
Proof.
  induction l as [|x t IH]; intros H; cbn [rmapm]; [exists []; reflexivity|].
  destruct (H x (or_introl eq_refl)) as [y Ey]. rewrite Ey. cbn [rbind].
  destruct IH as [ys Eys]; [intros x' Hx'; apply H; right; exact Hx'|]. rewrite Eys. cbn [rbind].
  exists (y :: ys). reflexivity.
Qed.

Lemma rmapm_length {A B} (f : A -> res B) : forall l ys, rmapm f l = Ok ys -> length ys = length l.
Proof.
  induction l as [|x t IH]; intros ys E; cbn [rmapm] in E.
  - injection E as <-. reflexivity.
  - destruct (f x) as [y0| |]; cbn [rbind] in E; try discriminate E.
    destruct (rmapm f t) as [ys0| |] eqn:Et; cbn [rbind] in E; try discriminate E.
    injection E as <-. cbn [length]. rewrite (IH ys0 eq_refl). reflexivity.
Qed.

(* ------------------------------------------------------------------ *)
(* the predecessor chain                                                *)

Fixpoint chainp (s : nat) (l : list nat) : list (nat * nat) :=
  match l with [] => [] | x :: t => (s, x) :: chainp x t end.

Lemma last_cons_default {A} : forall (t : list A) x s, last (x :: t) s = last t x.
Proof.
  induction t as [|n t IH]; intros x s; [reflexivity|].
  change (last (x :: n :: t) s) with (last (n :: t) s). rewrite (IH n s), (IH n x). reflexivity.
Qed.

Lemma chainp_snoc : forall l s c, chainp s (l ++ [c]) = chainp s l ++ [(last l s, c)].
Proof.
  induction l as [|x t IH]; intros s c; [reflexivity|].
  cbn [app chainp]. rewrite IH, last_cons_default. reflexivity.
Qed.

Lemma fw_chain_last p s : forall f m l, fw_chain f p s m = Some l -> last l s = m.
Proof.
  intros [|f] m l E; [discriminate E|]. cbn [fw_chain] in E.
  destruct (Nat.eqb_spec s m) as [->|Hne]; [injection E as <-; reflexivity|].
  destruct (pm p s m) as [k|]; [|discriminate E].
  destruct (fw_chain f p s k) as [l0|]; [|discriminate E]. cbn [option_map] in E. injection E as <-.
  apply last_last.
Qed.

Lemma pm_mget (p : list (list (option nat))) i j m : pm p i j = Some m -> mget p i j = Ok (Some m).
Proof.
  unfold mg, mget, eget. intros E.
  destruct (nth_error p i) as [r|] eqn:Er.
  - rewrite (nth_error_nth p i [] Er) in E.
    destruct (nth_error r j) as [o|] eqn:Eo.
    + rewrite (nth_error_nth r j None Eo) in E. rewrite E. reflexivity.
    + apply nth_error_None in Eo. rewrite (nth_overflow r None Eo) in E. discriminate E.
  - apply nth_error_None in Er. rewrite (nth_overflow p [] Er) in E. destruct j; discriminate E.
Qed.

Lemma walk_back_chain p s : forall f cur acc l, fw_chain (S f) p s cur = Some l ->
  walk_back f p s cur acc = Ok (chainp s l ++ acc).
Proof.
  induction f as [|f IH]; intros cur acc l E.
  - cbn [fw_chain] in E. destruct (Nat.eqb_spec s cur) as [->|Hne].
    + injection E as <-. cbn [walk_back]. rewrite Nat.eqb_refl. reflexivity.
    + destruct (pm p s cur); discriminate E.
  - change (fw_chain (S (S f)) p s cur) with
      (if Nat.eqb s cur then Some [] else match pm p s cur with None => None
         | Some m => option_map (fun l => l ++ [cur]) (fw_chain (S f) p s m) end) in E.
    cbn [walk_back]. rewrite (Nat.eqb_sym cur s).
    destruct (Nat.eqb s cur); [injection E as <-; reflexivity|].
    destruct (pm p s cur) as [m|] eqn:Em; [|discriminate E].
    destruct (fw_chain (S f) p s m) as [l0|] eqn:E0; [|discriminate E].
    cbn [option_map] in E. injection E as <-.
    rewrite (pm_mget p s cur m Em). cbn [rbind].
    rewrite (IH m ((m, cur) :: acc) l0 E0).
    rewrite chainp_snoc, (fw_chain_last p s _ _ _ E0), <- app_assoc. reflexivity.
Qed.

Lemma chainp_steps v : forall q s t, ewalk v s q t ->
  forall x y, In (x, y) (chainp s (map fst q)) -> exists w, estep v x y w.
Proof.
  induction q as [|[b w] q IH]; intros s t W x y Hin; [destruct Hin|].
  inversion W as [|a b' w' p' c Hs Hp]; subst. cbn [map fst chainp] in Hin.
  destruct Hin as [E|Hin]; [injection E as <- <-; exists w; exact Hs|].
  apply (IH b t Hp x y Hin).
Qed.

Lemma chainp_conn : forall l s x, In x l -> conn (chainp s l) s x.
Proof.
  induction l as [|h t IH]; intros s x Hin; [destruct Hin|]. cbn [chainp].
  destruct Hin as [<-|Hin]; [apply c_base; left; reflexivity|].
  apply (c_trans _ s h x); [apply c_base; left; reflexivity|]. apply conn_weaken. apply IH, Hin.
Qed.

Lemma chainp_nodes : forall l s x y, In (x, y) (chainp s l) -> (x = s \/ In x l) /\ In y l.
Proof.
  induction l as [|h t IH]; intros s x y Hin; [destruct Hin|]. cbn [chainp] in Hin.
  destruct Hin as [E|Hin]; [injection E as <- <-; split; [left; reflexivity | left; reflexivity]|].
  destruct (IH h x y Hin) as [[->|H1] H2].
  - split; [right; left; reflexivity | right; exact H2].
  - split; [right; right; exact H1 | right; exact H2].
Qed.

Lemma chainp_first v s q t : ewalk v s q t -> q <> [] -> exists y, In (s, y) (chainp s (map fst q)).
Proof. intros W Hne. destruct q as [|[b w] q]; [congruence|]. exists b. left. reflexivity. Qed.

Lemma chainp_lastp v : forall q s t, ewalk v s q t -> q <> [] -> exists x, In (x, t) (chainp s (map fst q)).
Proof.
  induction q as [|[b w] q IH]; intros s t W Hne; [congruence|].
  inversion W as [|a b' w' p' c Hs Hp]; subst. cbn [map fst chainp].
  destruct q as [|e q'].
  - apply ewalk_nil_inv in Hp. subst t. exists s. left. reflexivity.
  - destruct (IH b t Hp) as [x Hx]; [discriminate|]. exists x. right. exact Hx.
Qed.

(* ------------------------------------------------------------------ *)
(* the intermediate values of steiner_for                               *)

Definition keep_of (v : view) (pp : list (nat * nat)) : list nat :=
  filter (fun n => existsb (fun '(x, y) => orb (Nat.eqb x n) (Nat.eqb y n)) pp) (vnodes v).
Definition es1_of (v : view) (pp : list (nat * nat)) : list edge4 :=
  filter (fun '(_, a, b, _) => orb (pair_mem a b pp) (pair_mem b a pp)) (verefs v).
Definition es2_of (v : view) (pp : list (nat * nat)) : list edge4 :=
  filter (fun '(_, a, b, _) => andb (mem a (keep_of v pp)) (mem b (keep_of v pp))) (es1_of v pp).
Definition es3_of (v : view) (pp : list (nat * nat)) : list edge4 := forest_of (vbound v) (es2_of v pp).

Lemma steiner_for_unfold v terms prev tree :
  steiner_for v terms prev tree =
  rbind (path_pairs v prev tree) (fun pp =>
    let K := keep_of v pp in let E := es3_of v pp in let R := pruned K E terms in
    Ok (alive_nodes K R, strip4 (rest_of R E))).
Proof. reflexivity. Qed.

Lemma pair_mem_In a b l : pair_mem a b l = true <-> In (a, b) l.
Proof.
  unfold pair_mem. rewrite existsb_exists. split.
  - intros [[x y] [Hin E]]. apply andb_true_iff in E. destruct E as [E1 E2].
    apply Nat.eqb_eq in E1. apply Nat.eqb_eq in E2. subst. exact Hin.
  - intros Hin. exists (a, b). split; [exact Hin|]. rewrite !Nat.eqb_refl. reflexivity.
Qed.

Lemma keep_of_In v pp n : In n (keep_of v pp) <->
  In n (vnodes v) /\ exists x y, In (x, y) pp /\ (x = n \/ y = n).
Proof.
  unfold keep_of. rewrite filter_In, existsb_exists. split.
  - intros [Hn [[x y] [Hin E]]]. split; [exact Hn|]. exists x, y. split; [exact Hin|].
    apply orb_true_iff in E. rewrite !Nat.eqb_eq in E. exact E.
  - intros [Hn [x [y [Hin E]]]]. split; [exact Hn|]. exists (x, y). split; [exact Hin|].
    apply orb_true_iff. rewrite !Nat.eqb_eq. exact E.
Qed.

Lemma NoDup_map_filter {A B} (f : A -> B) (g : A -> bool) : forall l, NoDup (map f l) -> NoDup (map f (filter g l)).
Proof.
  induction l as [|h t IH]; intros ND; [constructor|]. cbn [map] in ND. inversion ND as [|x r Hx Hr]; subst.
  cbn [filter]. destruct (g h); [|apply IH, Hr]. cbn [map]. constructor; [|apply IH, Hr].
  intros Hin. apply Hx. apply in_map_iff in Hin. destruct Hin as [q [Eq Hq]]. apply filter_In in Hq.
  apply in_map_iff. exists q. tauto.
Qed.

(* what the paths are, once walk_back has run *)
Definition PathsOk (v : view) (terms : list nat) (prev : list (list (option nat))) : Prop :=
  forall s t, In s terms -> In t terms ->
    exists q, fw_chain (vnode_count v) prev s t = Some (map fst q) /\ ewalk v s q t.

Section OneTree.
  Variables (v : view) (terms : list nat) (prev : list (list (option nat))) (tree : list (nat * nat * Z)).
  Hypothesis HM : MOk v.
  Hypothesis Hids : NoDup (map id4 (verefs v)).
  Hypothesis HP : PathsOk v terms prev.
  Hypothesis HTn : incl terms (vnodes v).
  Hypothesis HT2 : 2 <= length terms.
  Hypothesis HTree : IsTree terms (ends tree).

  Lemma count_le_bound : vnode_count v <= vbound v.
  Proof.
    destruct HM as [ND [Hb _]]. unfold vnode_count.
    rewrite <- (seq_length (vbound v) 0). apply NoDup_incl_length; [exact ND|].
    intros a Ha. apply in_seq. specialize (Hb a Ha). lia.
  Qed.

  Lemma tree_ends s t d : In (s, t, d) tree -> In s terms /\ In t terms /\ s <> t.
  Proof.
    intros Hin. destruct HTree as [_ [_ [He [Hac _]]]].
    assert (Hi : In (s, t) (ends tree)) by (apply ends_In; exists d; exact Hin).
    destruct (He s t Hi) as [Hs Ht]. split; [exact Hs|]. split; [exact Ht|].
    intros ->. apply (acyclic_from_no_loop (ends tree) [] t Hac Hi).
  Qed.

  Lemma walk_back_ok s t d : In (s, t, d) tree ->
    exists q, walk_back (S (vbound v)) prev s t [] = Ok (chainp s (map fst q)) /\ ewalk v s q t /\ q <> [].
  Proof.
    intros Hin. destruct (tree_ends s t d Hin) as [Hs [Ht Hne]].
    destruct (HP s t Hs Ht) as [q [Ec W]]. exists q.
    assert (E2 : fw_chain (S (S (vbound v))) prev s t = Some (map fst q)).
    { apply (fw_chain_mono prev (vnode_count v)); [exact Ec|]. pose proof count_le_bound. lia. }
    rewrite (walk_back_chain prev s (S (vbound v)) t [] _ E2), app_nil_r.
    split; [reflexivity|]. split; [exact W|]. intros ->. apply ewalk_nil_inv in W. apply Hne, W.
  Qed.

  Lemma path_pairs_ok : exists pp, path_pairs v prev tree = Ok pp /\
    (forall x y, In (x, y) pp -> exists s t d q, In (s, t, d) tree /\ ewalk v s q t /\ q <> [] /\
                                   In (x, y) (chainp s (map fst q)) /\ incl (chainp s (map fst q)) pp) /\
    (forall s t d, In (s, t, d) tree -> exists q, ewalk v s q t /\ q <> [] /\ incl (chainp s (map fst q)) pp).
  Proof.
    unfold path_pairs.
    destruct (rmapm_total (fun '(s, t, _) => walk_back (S (vbound v)) prev s t []) tree) as [cs Ecs].
    { intros [[s t] d] Hin. destruct (walk_back_ok s t d Hin) as [q [E _]]. eexists. exact E. }
    rewrite Ecs. cbn [rmap]. exists (concat cs). split; [reflexivity|].
    destruct (rmapm_In _ _ _ Ecs) as [H1 H2]. split.
    - intros x y Hin. apply in_concat in Hin. destruct Hin as [c [Hc Hxy]].
      destruct (H1 c Hc) as [[[s t] d] [Hin Ec]].
      destruct (walk_back_ok s t d Hin) as [q [E [W Hne]]]. rewrite E in Ec. injection Ec as <-.
      exists s, t, d, q. split; [exact Hin|]. split; [exact W|]. split; [exact Hne|]. split; [exact Hxy|].
      intros p0 Hp0. apply in_concat. exists (chainp s (map fst q)). split; assumption.
    - intros s t d Hin. destruct (H2 (s, t, d) Hin) as [c [Hc Ec]].
      destruct (walk_back_ok s t d Hin) as [q [E [W Hne]]]. rewrite E in Ec. injection Ec as <-.
      exists q. split; [exact W|]. split; [exact Hne|]. intros p Hp. apply in_concat.
      exists (chainp s (map fst q)). split; assumption.
  Qed.

  Variable pp : list (nat * nat).
  Hypothesis Epp : path_pairs v prev tree = Ok pp.

  Lemma pp_from x y : In (x, y) pp -> exists s t d q, In (s, t, d) tree /\ ewalk v s q t /\ q <> [] /\
                                   In (x, y) (chainp s (map fst q)) /\ incl (chainp s (map fst q)) pp.
  Proof. destruct path_pairs_ok as [pp' [E [H1 H2]]]. rewrite Epp in E. injection E as <-. apply H1. Qed.

  Lemma pp_to s t d : In (s, t, d) tree -> exists q, ewalk v s q t /\ q <> [] /\ incl (chainp s (map fst q)) pp.
  Proof. destruct path_pairs_ok as [pp' [E [H1 H2]]]. rewrite Epp in E. injection E as <-. apply H2. Qed.

  Lemma pp_step x y : In (x, y) pp -> exists w, estep v x y w.
  Proof.
    intros Hin. destruct (pp_from x y Hin) as [s [t [d [q [_ [W [_ [Hc _]]]]]]]]. apply (chainp_steps v q s t W x y Hc).
  Qed.

  Lemma estep_ref x y w : estep v x y w -> exists i, In (i, x, y, w) (verefs v) \/ In (i, y, x, w) (verefs v).
  Proof. intros [i [H|[_ H]]]; exists i; [left | right]; exact H. Qed.

  Lemma pp_nodes x y : In (x, y) pp -> In x (vnodes v) /\ In y (vnodes v).
  Proof.
    intros Hin. destruct (pp_step x y Hin) as [w Hs]. destruct (estep_ref x y w Hs) as [i [H|H]];
      destruct HM as [_ [_ Hr]]; destruct (Hr _ _ _ _ H); tauto.
  Qed.

  Notation K := (keep_of v pp).
  Notation E2 := (es2_of v pp).
  Notation E3 := (es3_of v pp).

  Lemma pp_keep x y : In (x, y) pp -> In x K /\ In y K.
  Proof.
    intros Hin. destruct (pp_nodes x y Hin) as [Hx Hy]. split; apply keep_of_In; split; try assumption;
      exists x, y; split; auto.
  Qed.

  Lemma es2_In e a b w : In (e, a, b, w) E2 <-> In (e, a, b, w) (verefs v) /\ (In (a, b) pp \/ In (b, a) pp).
  Proof.
    unfold es2_of, es1_of. rewrite !filter_In, andb_true_iff, orb_true_iff, !mem_In, !pair_mem_In. split; [tauto|].
    intros [H1 H2]. split; [tauto|]. destruct H2 as [H2|H2]; destruct (pp_keep _ _ H2); tauto.
  Qed.

  Lemma es2_range : in_range4 (vbound v) E2.
  Proof.
    intros e a b w Hin. apply es2_In in Hin. destruct Hin as [Hin _].
    destruct HM as [_ [Hb Hr]]. destruct (Hr _ _ _ _ Hin). split; apply Hb; assumption.
  Qed.

  Lemma es2_ids : NoDup (map id4 E2).
  Proof. unfold es2_of, es1_of. apply NoDup_map_filter, NoDup_map_filter, Hids. Qed.

  Lemma es2_ends_in : ends_in K (ends4 E2).
  Proof.
    intros a b Hin. apply ends4_In in Hin. destruct Hin as [e [w Hin]]. apply es2_In in Hin.
    destruct Hin as [_ [H|H]]; destruct (pp_keep _ _ H); tauto.
  Qed.

  Lemma pp_conn_es2 x y : conn pp x y -> conn (ends4 E2) x y.
  Proof.
    apply ForestP.conn_sub. clear x y. intros x y Hin.
    destruct (pp_step x y Hin) as [w Hs]. destruct (estep_ref x y w Hs) as [i [H|H]].
    - apply c_base. apply ends4_In. exists i, w. apply es2_In. tauto.
    - apply c_sym, c_base. apply ends4_In. exists i, w. apply es2_In. tauto.
  Qed.

  Lemma tree_conn_pp x y : conn (ends tree) x y -> conn pp x y.
  Proof.
    apply ForestP.conn_sub. clear x y. intros s t Hin. apply ends_In in Hin. destruct Hin as [d Hin].
    destruct (pp_to s t d Hin) as [q [W [Hne Hi]]].
    apply (ForestP.conn_incl _ _ Hi). apply chainp_conn. apply (ewalk_end_in W Hne).
  Qed.

  Lemma pp_to_terminal x y : In (x, y) pp -> exists s, In s terms /\ conn pp s x /\ conn pp s y.
  Proof.
    intros Hin. destruct (pp_from x y Hin) as [s [t [d [q [Ht [W [Hne [Hc Hi]]]]]]]].
    destruct (tree_ends s t d Ht) as [Hs _]. exists s. split; [exact Hs|].
    assert (Cy : conn pp s y).
    { destruct (chainp_nodes _ _ _ _ Hc) as [_ Hy]. apply (ForestP.conn_incl _ _ Hi). apply chainp_conn, Hy. }
    split; [|exact Cy].
    apply (c_trans _ s y x); [exact Cy|]. apply c_sym, c_base, Hin.
  Qed.

  Lemma two_terms t : In t terms -> exists t', In t' terms /\ t' <> t.
  Proof.
    destruct HTree as [_ [ND _]]. intros Ht.
    destruct terms as [|a [|b r]]; cbn [length] in HT2; try lia.
    inversion ND as [|x l Hx Hl]; subst.
    destruct (Nat.eq_dec t a) as [->|Hne].
    - exists b. split; [right; left; reflexivity|]. intros ->. apply Hx. left. reflexivity.
    - exists a. split; [left; reflexivity|]. congruence.
  Qed.

  Lemma term_keep t : In t terms -> In t K.
  Proof.
    intros Ht. destruct (two_terms t Ht) as [t' [Ht' Hne]].
    destruct HTree as [_ [_ [_ [_ Hc]]]]. pose proof (Hc t t' Ht Ht') as C.
    destruct (conn_inside (fun x => exists a b, In (a, b) (ends tree) /\ (a = x \/ b = x)) (ends tree)) with (x := t) (y := t')
      as [E|[[a [b [Hab Hx]]] _]]; [|exact C|congruence|].
    { intros a b Hab. split; exists a, b; split; auto. }
    apply ends_In in Hab. destruct Hab as [d Hab].
    destruct (pp_to a b d Hab) as [q [W [Hq Hi]]].
    destruct Hx as [<-|<-].
    - destruct (chainp_first v a q b W Hq) as [y Hy]. apply Hi in Hy. apply (pp_keep _ _ Hy).
    - destruct (chainp_lastp v q a b W Hq) as [x Hx]. apply Hi in Hx. apply (pp_keep _ _ Hx).
  Qed.

  Lemma keep_terminal x : In x K -> exists s, In s terms /\ conn pp s x.
  Proof.
    intros Hx. apply keep_of_In in Hx. destruct Hx as [_ [a [b [Hin Hx]]]].
    destruct (pp_to_terminal a b Hin) as [s [Hs [Ca Cb]]]. exists s. split; [exact Hs|].
    destruct Hx as [<-|<-]; assumption.
  Qed.

  Lemma keep_connected x y : In x K -> In y K -> conn (ends4 E2) x y.
  Proof.
    intros Hx Hy. destruct (keep_terminal x Hx) as [s [Hs Cs]]. destruct (keep_terminal y Hy) as [s' [Hs' Cs']].
    destruct HTree as [_ [_ [_ [_ Hc]]]].
    apply pp_conn_es2. apply (c_trans _ x s y); [apply c_sym, Cs|].
    apply (c_trans _ s s' y); [apply tree_conn_pp, Hc; assumption | exact Cs'].
  Qed.

  Lemma terms_nonempty : terms <> [].
  Proof. intros E. pose proof HT2 as H. rewrite E in H. cbn [length] in H. lia. Qed.

  Lemma a_term : exists t0, In t0 terms.
  Proof.
    pose proof terms_nonempty as H. destruct terms as [|t0 ts]; [exfalso; apply H; reflexivity|].
    exists t0. left. reflexivity.
  Qed.

  Lemma keep_nodup : NoDup K.
  Proof. apply NoDup_filter. destruct HM as [ND _]. exact ND. Qed.

  Lemma es3_ends_in : ends_in K (ends4 E3).
  Proof.
    intros a b Hin. apply es2_ends_in. apply ends4_In in Hin. destruct Hin as [e [w Hin]].
    apply ends4_In. exists e, w. apply (forest_of_sub _ _ _ Hin).
  Qed.

  Lemma es3_acyclic : acyclic_edges (ends4 E3).
  Proof. apply forest_of_acyclic; [exact es2_range | exact es2_ids]. Qed.

  Lemma es3_tree : IsTree K (ends4 E3).
  Proof.
    split; [|split; [exact keep_nodup|split; [exact es3_ends_in|split; [exact es3_acyclic|]]]].
    - destruct a_term as [t0 Ht0].
      intros E0. assert (H : In t0 K) by (apply term_keep, Ht0). rewrite E0 in H. destruct H.
    - intros x y Hx Hy. apply (forest_of_spanning (vbound v) E2 es2_range es2_ids). apply keep_connected; assumption.
  Qed.

  Lemma es3_count : S (length E3) = length K.
  Proof. pose proof (IsTree_count _ _ es3_tree) as E. unfold ends4 in E. rewrite map_length in E. exact E. Qed.

  Lemma es3_refs e a b w : In (e, a, b, w) E3 -> In (e, a, b, w) (verefs v).
  Proof. intros Hin. apply forest_of_sub in Hin. apply es2_In in Hin. tauto. Qed.

  Lemma terms_keep : incl terms K.
  Proof. intros t Ht. apply term_keep, Ht. Qed.

  Notation R := (pruned K E3 terms).
  Notation nodes := (alive_nodes K R).
  Notation res_edges := (strip4 (rest_of R E3)).

  Lemma res_tree : IsTree nodes (ends res_edges).
  Proof.
    rewrite ends4_strip.
    apply (pruned_tree K E3 terms keep_nodup es3_ends_in es3_acyclic es3_count terms_keep terms_nonempty).
  Qed.

  Lemma res_terms : incl terms nodes.
  Proof. apply (pruned_terminals K E3 terms keep_nodup es3_ends_in es3_acyclic es3_count terms_keep terms_nonempty). Qed.

  Lemma res_leaves x : In x nodes -> degree x res_edges = 1 -> In x terms.
  Proof.
    rewrite degree_strip.
    apply (pruned_leaves K E3 terms keep_nodup es3_ends_in es3_acyclic es3_count terms_keep terms_nonempty).
  Qed.

  Lemma res_nodes : incl nodes (vnodes v).
  Proof.
    intros x Hx. apply filter_In in Hx. destruct Hx as [Hx _]. apply keep_of_In in Hx. tauto.
  Qed.

  Lemma res_edges_refs a b w : In (a, b, w) res_edges -> exists i, In (i, a, b, w) (verefs v).
  Proof.
    intros Hin. unfold strip4 in Hin. apply in_map_iff in Hin. destruct Hin as [[[[e a'] b'] w'] [Eq Hin]].
    injection Eq as -> -> ->. exists e. apply filter_In in Hin. destruct Hin as [Hin _]. apply es3_refs, Hin.
  Qed.

  Lemma res_tree_check : tree_check nodes res_edges (vbound v) = true.
  Proof.
    pose proof res_tree as HT. pose proof HT as [Hne [ND [He _]]].
    apply tree_check_tree; try assumption.
    - intros a b w Hin. apply He. apply ends_In. exists w. exact Hin.
    - intros a Ha. destruct HM as [_ [Hb _]]. apply Hb, res_nodes, Ha.
  Qed.
End OneTree.

(* the result for one closure tree *)
Theorem steiner_for_spec v terms prev tree :
  MOk v -> NoDup (map id4 (verefs v)) -> PathsOk v terms prev -> incl terms (vnodes v) -> 2 <= length terms ->
  IsTree terms (ends tree) ->
  exists nodes es, steiner_for v terms prev tree = Ok (nodes, es) /\
    incl nodes (vnodes v) /\
    (forall a b w, In (a, b, w) es -> exists i, In (i, a, b, w) (verefs v)) /\
    IsTree nodes (ends es) /\ tree_check nodes es (vbound v) = true /\
    incl terms nodes /\
    (forall x, In x nodes -> degree x es = 1 -> In x terms).
Proof.
  intros HM Hids HP HTn HT2 HTree.
  destruct (path_pairs_ok v terms prev tree) as [pp [Epp _]]; try assumption.
  rewrite steiner_for_unfold, Epp. cbn [rbind].
  eexists. eexists. split; [reflexivity|].
  split; [eapply res_nodes; eassumption|].
  split; [eapply res_edges_refs; eassumption|].
  split; [eapply res_tree; eassumption|].
  split; [eapply res_tree_check; eassumption|].
  split; [eapply res_terms; eassumption|].
  eapply res_leaves; eassumption.
Qed.
