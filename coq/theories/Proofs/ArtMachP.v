(* articulation_points (Model/CutM.v): the micro-steps of the explicit-stack machine as state
   transformers, and the equations ap_loop satisfies for each kind of stack entry. *)
From PG Require Import Lib.Io Model.View Model.Traversal Model.MatchM Model.CutM
                       Spec.Reach Proofs.TravBase.

Lemma getp_nth {A} (l : list A) i d : i < length l -> getp l i = Ok (nth i l d).
Proof.
  intros H. unfold getp. destruct (nth_error l i) as [x|] eqn:E.
  - rewrite (nth_error_nth l i d E). reflexivity.
  - apply nth_error_None in E. lia.
Qed.

Lemma setp_ok {A} (l : list A) i x : i < length l -> setp l i x = Ok (upd l i x).
Proof. intros H. unfold setp. apply Nat.ltb_lt in H. rewrite H. reflexivity. Qed.

Lemma nth_upd_same {A} (l : list A) i x d : i < length l -> nth i (upd l i x) d = x.
Proof. intros H. rewrite nth_upd, Nat.eqb_refl. apply Nat.ltb_lt in H. rewrite H. reflexivity. Qed.

Lemma nth_upd_other {A} (l : list A) i j x d : i <> j -> nth j (upd l i x) d = nth j l d.
Proof. intros H. rewrite nth_upd. destruct (Nat.eqb_spec i j); [congruence | reflexivity]. Qed.

Definition vis (t : apt) (x : nat) : bool := nth x (a_vis t) false.
Definition dsc (t : apt) (x : nat) : option nat := nth x (a_disc t) None.
Definition lw (t : apt) (x : nat) : option nat := nth x (a_low t) None.
Definition par (t : apt) (x : nat) : option nat := nth x (a_parent t) None.

Definition st_base (cur : nat) (t : apt) : apt :=
  mkApt (upd (a_vis t) cur true) (upd (a_low t) cur (Some (a_time t)))
        (upd (a_disc t) cur (Some (a_time t))) (a_parent t) (S (a_time t)) (a_pts t).
Definition st_tree (cur ch : nat) (t : apt) : apt :=
  mkApt (a_vis t) (a_low t) (a_disc t) (upd (a_parent t) ch (Some cur)) (a_time t) (a_pts t).
Definition st_low (cur : nat) (x : option nat) (t : apt) : apt :=
  mkApt (a_vis t) (upd (a_low t) cur x) (a_disc t) (a_parent t) (a_time t) (a_pts t).
Definition st_pts (pts : list nat) (t : apt) : apt :=
  mkApt (a_vis t) (a_low t) (a_disc t) (a_parent t) (a_time t) pts.

Definition is_some {A} (o : option A) : bool := match o with Some _ => true | None => false end.

Definition st_ret (cur ch : nat) (t : apt) : apt :=
  st_pts (if andb (is_some (par t cur)) (oge (lw t ch) (dsc t cur)) then add_set cur (a_pts t) else a_pts t)
         (st_low cur (omin (lw t cur) (lw t ch)) t).
Definition cc_cnt (cc : list (nat * nat)) (cur : nat) : nat :=
  match assoc_nat cc cur with Some c => c | None => 0 end.
Definition st_root (cur : nat) (cc : list (nat * nat)) (t : apt) : apt :=
  st_pts (if andb (negb (is_some (par t cur))) (Nat.ltb 1 (cc_cnt cc cur)) then add_set cur (a_pts t) else a_pts t) t.

Section Mach.
Variable v : view.
Notation sz := (vbound v).

Record Sized (t : apt) : Prop := {
  z_vis : length (a_vis t) = sz;
  z_low : length (a_low t) = sz;
  z_disc : length (a_disc t) = sz;
  z_par : length (a_parent t) = sz
}.

Lemma sized_base cur t : Sized t -> Sized (st_base cur t).
Proof. intros [H1 H2 H3 H4]. constructor; cbn [st_base a_vis a_low a_disc a_parent]; rewrite ?upd_length; assumption. Qed.
Lemma sized_tree cur ch t : Sized t -> Sized (st_tree cur ch t).
Proof. intros [H1 H2 H3 H4]. constructor; cbn [st_tree a_vis a_low a_disc a_parent]; rewrite ?upd_length; assumption. Qed.
Lemma sized_low cur x t : Sized t -> Sized (st_low cur x t).
Proof. intros [H1 H2 H3 H4]. constructor; cbn [st_low a_vis a_low a_disc a_parent]; rewrite ?upd_length; assumption. Qed.
Lemma sized_pts pts t : Sized t -> Sized (st_pts pts t).
Proof. intros [H1 H2 H3 H4]. constructor; cbn [st_pts a_vis a_low a_disc a_parent]; assumption. Qed.

Lemma E_base f cur rest cc t : Sized t -> cur < sz ->
  ap_loop (S f) v (BaseStep cur :: rest) cc t =
  ap_loop f v (map (ProcessChild cur) (rev (neighbors v cur)) ++ RootCheck cur :: rest) cc (st_base cur t).
Proof.
  intros [H1 H2 H3 H4] Hc. cbn [ap_loop].
  rewrite (setp_ok (a_vis t) cur true) by lia. cbn [rbind].
  rewrite (setp_ok (a_disc t) cur) by lia. cbn [rbind].
  rewrite (setp_ok (a_low t) cur) by lia. cbn [rbind].
  rewrite <- map_rev. reflexivity.
Qed.

Lemma E_tree f cur ch rest cc t : Sized t -> ch < sz -> vis t ch = false ->
  ap_loop (S f) v (ProcessChild cur ch :: rest) cc t =
  ap_loop f v (BaseStep ch :: NoBackEdge cur ch :: rest) (bump cc cur) (st_tree cur ch t).
Proof.
  intros [H1 H2 H3 H4] Hc Hv. cbn [ap_loop]. unfold vis in Hv. rewrite Hv. cbn [negb].
  rewrite (setp_ok (a_parent t) ch) by lia. reflexivity.
Qed.

Lemma E_skip f cur ch rest cc t : Sized t -> cur < sz -> vis t ch = true -> par t cur = Some ch ->
  ap_loop (S f) v (ProcessChild cur ch :: rest) cc t = ap_loop f v rest cc t.
Proof.
  intros [H1 H2 H3 H4] Hc Hv Hp. cbn [ap_loop]. unfold vis in Hv. rewrite Hv. cbn [negb].
  rewrite (getp_nth (a_parent t) cur None) by lia. cbn [rbind]. fold (par t cur). rewrite Hp.
  rewrite Nat.eqb_refl. reflexivity.
Qed.

Lemma E_back f cur ch rest cc t : Sized t -> cur < sz -> ch < sz -> vis t ch = true ->
  par t cur <> Some ch ->
  ap_loop (S f) v (ProcessChild cur ch :: rest) cc t =
  ap_loop f v rest cc (st_low cur (omin (lw t cur) (dsc t ch)) t).
Proof.
  intros [H1 H2 H3 H4] Hc Hch Hv Hp. cbn [ap_loop]. unfold vis in Hv. rewrite Hv. cbn [negb].
  rewrite (getp_nth (a_parent t) cur None) by lia. cbn [rbind]. fold (par t cur).
  assert (E : match par t cur with Some p => Nat.eqb p ch | None => false end = false).
  { destruct (par t cur) as [p|]; [|reflexivity]. apply Nat.eqb_neq. congruence. }
  rewrite E.
  rewrite (getp_nth (a_low t) cur None) by lia. cbn [rbind].
  rewrite (getp_nth (a_disc t) ch None) by lia. cbn [rbind].
  rewrite (setp_ok (a_low t) cur) by lia. reflexivity.
Qed.

Lemma E_ret f cur ch rest cc t : Sized t -> cur < sz -> ch < sz ->
  ap_loop (S f) v (NoBackEdge cur ch :: rest) cc t = ap_loop f v rest cc (st_ret cur ch t).
Proof.
  intros [H1 H2 H3 H4] Hc Hch. cbn [ap_loop].
  rewrite (getp_nth (a_low t) cur None) by lia. cbn [rbind].
  rewrite (getp_nth (a_low t) ch None) by lia. cbn [rbind].
  rewrite (setp_ok (a_low t) cur) by lia. cbn [rbind].
  rewrite (getp_nth (a_parent t) cur None) by lia. cbn [rbind].
  rewrite (getp_nth (a_disc t) cur None) by lia. cbn [rbind].
  unfold st_ret, st_pts, st_low, par, lw, dsc, is_some. cbn [a_vis a_low a_disc a_parent a_time a_pts].
  destruct (nth cur (a_parent t) None); reflexivity.
Qed.

Lemma E_root f cur rest cc t : Sized t -> cur < sz ->
  ap_loop (S f) v (RootCheck cur :: rest) cc t = ap_loop f v rest cc (st_root cur cc t).
Proof.
  intros [H1 H2 H3 H4] Hc. cbn [ap_loop].
  rewrite (getp_nth (a_parent t) cur None) by lia. cbn [rbind].
  unfold st_root, st_pts, par, cc_cnt, is_some.
  destruct (nth cur (a_parent t) None); reflexivity.
Qed.

Lemma E_nil f cc t : ap_loop (S f) v [] cc t = Ok t.
Proof. reflexivity. Qed.
End Mach.

(* ---- bump ---- *)
Lemma bump_same cc k : cc_cnt (bump cc k) k = S (cc_cnt cc k).
Proof.
  unfold cc_cnt, bump. destruct (assoc_nat cc k) as [c|] eqn:E.
  - assert (G : forall m, assoc_nat m k = Some c ->
              assoc_nat (map (fun '(k', c0) => if Nat.eqb k' k then (k', S c0) else (k', c0)) m) k = Some (S c)).
    { induction m as [|[k0 c0] m IH]; cbn [assoc_nat map]; [discriminate|].
      destruct (Nat.eqb_spec k0 k) as [->|Hn]; cbn [assoc_nat].
      - rewrite Nat.eqb_refl. intros H; injection H as ->. reflexivity.
      - destruct (Nat.eqb_spec k0 k); [congruence|]. exact IH. }
    rewrite (G cc E). reflexivity.
  - assert (G : forall m, assoc_nat m k = None -> assoc_nat (m ++ [(k, 1)]) k = Some 1).
    { induction m as [|[k0 c0] m IH]; cbn [assoc_nat app].
      - rewrite Nat.eqb_refl. reflexivity.
      - destruct (Nat.eqb k0 k); [discriminate | exact IH]. }
    rewrite (G cc E). reflexivity.
Qed.

Lemma bump_other cc k z : z <> k -> assoc_nat (bump cc k) z = assoc_nat cc z.
Proof.
  intros Hn. unfold bump. destruct (assoc_nat cc k) as [c|] eqn:E.
  - clear E. induction cc as [|[k0 c0] m IH]; cbn [assoc_nat map]; [reflexivity|].
    destruct (Nat.eqb_spec k0 k) as [->|Hn']; cbn [assoc_nat].
    + destruct (Nat.eqb_spec k z); [congruence | exact IH].
    + destruct (Nat.eqb k0 z); [reflexivity | exact IH].
  - clear E. induction cc as [|[k0 c0] m IH]; cbn [assoc_nat app].
    + destruct (Nat.eqb_spec k z); [congruence | reflexivity].
    + destruct (Nat.eqb k0 z); [reflexivity | exact IH].
Qed.

Lemma add_set_In' x y l : In y (add_set x l) <-> In y l \/ y = x.
Proof.
  unfold add_set. destruct (mem x l) eqn:E.
  - apply mem_In in E. split; [intros H; left; exact H | intros [H| ->]; assumption].
  - rewrite in_app_iff. cbn [In]. split.
    + intros [H|[H|[]]]; [left; exact H | right; symmetry; exact H].
    + intros [H|H]; [left; exact H | right; left; symmetry; exact H].
Qed.

Lemma add_set_NoDup x l : NoDup l -> NoDup (add_set x l).
Proof.
  intros H. unfold add_set. destruct (mem x l) eqn:E; [exact H|].
  apply mem_false in E. apply NoDup_app_intro; [exact H | constructor; [intros [] | constructor]|].
  intros y Hy [<-|[]]. exact (E Hy).
Qed.
