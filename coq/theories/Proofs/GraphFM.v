(* Graph::extend_with_edges and Graph::filter_map: both build with add_node / add_edge only, so
   the result is described by the preorder [grown]: nodes appended, edges appended, and every
   adjacency list = the appended edges incident to the node, most recent (= highest index)
   first, in front of the old list. *)
From PG Require Import Lib.ListArr Lib.ListExtra Lib.Walk Model.GraphM
  Proofs.GraphP Proofs.GraphQ Proofs.GraphRE Proofs.GraphRN Proofs.GraphH Proofs.GraphT.
Set Implicit Arguments.

(* ------------------------------------------------------------------ *)
(* filter_map over a list with the running index                        *)

Fixpoint omapi {A B} (f : nat -> A -> option B) (i : nat) (l : list A) : list B :=
  match l with
  | [] => []
  | x :: r => match f i x with
              | Some y => y :: omapi f (S i) r
              | None => omapi f (S i) r
              end
  end.

Lemma omapi_length {A B} (f : nat -> A -> option B) l : forall i, length (omapi f i l) <= length l.
Proof.
  induction l as [|x l IH]; intros i; simpl; auto.
  destruct (f i x); simpl; specialize (IH (S i)); lia.
Qed.

Lemma omapi_ext {A B} (f f' : nat -> A -> option B) l :
  forall i, (forall p x, nth_error l p = Some x -> f (i + p) x = f' (i + p) x) ->
  omapi f i l = omapi f' i l.
Proof.
  induction l as [|x l IH]; intros i H; simpl; auto.
  pose proof (H 0 x eq_refl) as H0. rewrite Nat.add_0_r in H0. rewrite H0.
  rewrite (IH (S i)); auto.
  intros p y Hp. replace (S i + p) with (i + S p) by lia. apply H. exact Hp.
Qed.

(* the p-th element, when kept, lands at position (number of kept elements before p) *)
Lemma omapi_firstn_nth {A B} (f : nat -> A -> option B) l : forall i p x y,
  nth_error l p = Some x -> f (i + p) x = Some y ->
  nth_error (omapi f i l) (length (omapi f i (firstn p l))) = Some y.
Proof.
  induction l as [|x0 l IH]; intros i p x y Hp Hf.
  - destruct p; discriminate.
  - destruct p as [|p]; simpl in Hp.
    + injection Hp as ->. rewrite Nat.add_0_r in Hf. simpl. rewrite Hf. reflexivity.
    + replace (i + S p) with (S i + p) in Hf by lia.
      cbn [firstn omapi]. destruct (f i x0); cbn [length nth_error]; eapply IH; eauto.
Qed.

Lemma omapi_rank_lt {A B} (f : nat -> A -> option B) l i p q x :
  p < q -> nth_error l p = Some x -> f (i + p) x <> None ->
  length (omapi f i (firstn p l)) < length (omapi f i (firstn q l)).
Proof.
  intros Hpq Hp Hf. destruct (f (i + p) x) as [y|] eqn:E; [|congruence].
  assert (Hq : nth_error (firstn q l) p = Some x).
  { rewrite nth_error_firstn'. destruct (Nat.ltb_spec p q); [auto|lia]. }
  pose proof (omapi_firstn_nth f (firstn q l) i p Hq E) as H.
  rewrite firstn_firstn in H. replace (Nat.min p q) with p in H by lia.
  eapply nth_error_Some_lt; eauto.
Qed.

Lemma omapi_rank_le {A B} (f : nat -> A -> option B) l i : forall p,
  length (omapi f i (firstn p l)) <= length (omapi f i l).
Proof.
  revert i. induction l as [|x l IH]; intros i p.
  - rewrite firstn_nil. simpl. lia.
  - destruct p as [|p]; [simpl; lia|]. cbn [firstn omapi].
    destruct (f i x); cbn [length]; specialize (IH (S i) p); lia.
Qed.

Lemma omapi_app {A B} (f : nat -> A -> option B) l1 l2 : forall i,
  omapi f i (l1 ++ l2) = omapi f i l1 ++ omapi f (i + length l1) l2.
Proof.
  induction l1 as [|x l1 IH]; intros i; simpl.
  - rewrite Nat.add_0_r. reflexivity.
  - rewrite IH. replace (S i + length l1) with (i + S (length l1)) by lia.
    destruct (f i x); reflexivity.
Qed.

Lemma repeat_snoc {A} (x : A) n : repeat x (S n) = repeat x n ++ [x].
Proof. induction n as [|n IH]; simpl; auto. f_equal. exact IH. Qed.

(* highest node index named by a list of edges, plus one *)
Fixpoint need {W} (es : list (nat * nat * W)) : nat :=
  match es with
  | [] => 0
  | (a, b, _) :: r => Nat.max (S (Nat.max a b)) (need r)
  end.

Lemma need_app {W} (l1 l2 : list (nat * nat * W)) : need (l1 ++ l2) = Nat.max (need l1) (need l2).
Proof.
  induction l1 as [|[[a b] w] l1 IH]; cbn [need app]; [lia|]. rewrite IH. lia.
Qed.

Definition trip_of {W} (t : nat * nat * W) : (nat * nat) * W := t.

Section Grow.
  Context {NW EW : Type}.
  Variable cap : nat.
  Variable capcheck : bool.

  Notation node := (node NW).
  Notation edge := (edge EW).
  Notation graph := (graph NW EW).
  Notation adj := (@adj NW EW cap).
  Notation GInv := (@GInv NW EW cap).
  Notation adjf := (@adjf NW EW cap).

  Lemma etrip_length (g : graph) : length (etrip g) = length (gedges g).
  Proof. unfold etrip. apply map_length. Qed.

  Lemma ept_etrip (g : graph) k x :
    ept g k x = match nth_error (etrip g) x with Some t => sel (fst t) k | None => 0 end.
  Proof.
    unfold ept, etrip. rewrite nth_error_map. destruct (nth_error (gedges g) x); reflexivity.
  Qed.

  Lemma ept_prefix (g g' : graph) new k x :
    etrip g' = etrip g ++ new -> x < length (gedges g) -> ept g' k x = ept g k x.
  Proof.
    intros H Hx. rewrite !ept_etrip, H, nth_error_app1; auto. rewrite etrip_length. auto.
  Qed.

  Lemma etrip_prefix_len (g g' : graph) new :
    etrip g' = etrip g ++ new -> length (gedges g') = length (gedges g) + length new.
  Proof.
    intros H. apply (f_equal (@length _)) in H. rewrite app_length, !etrip_length in H. auto.
  Qed.

  (* the edges m .. m+n-1 of g' that have node i as endpoint k, highest index first *)
  Definition pushed (g' : graph) (k i m n : nat) : list nat :=
    rev (filter (fun x => Nat.eqb (ept g' k x) i) (seq m n)).

  Record grown (g g' : graph) : Prop := mk_grown {
    gr_inv : GInv g';
    gr_nodes : exists ws, map (@nwt NW) (gnodes g') = map (@nwt NW) (gnodes g) ++ ws;
    gr_edges : exists new, etrip g' = etrip g ++ new;
    gr_adj : forall k i,
      adjf g' k i =
        pushed g' k i (length (gedges g)) (length (gedges g') - length (gedges g)) ++ adjf g k i
  }.

  Lemma grown_refl g : GInv g -> grown g g.
  Proof.
    intros I. constructor; auto.
    - exists []. rewrite app_nil_r. reflexivity.
    - exists []. rewrite app_nil_r. reflexivity.
    - intros k i. rewrite Nat.sub_diag. reflexivity.
  Qed.

  Lemma grown_nlen g g' : grown g g' -> length (gnodes g) <= length (gnodes g').
  Proof.
    intros H. destruct (gr_nodes H) as [ws E]. apply (f_equal (@length _)) in E.
    rewrite app_length, !map_length in E. lia.
  Qed.

  Lemma grown_elen g g' : grown g g' -> length (gedges g) <= length (gedges g').
  Proof.
    intros H. destruct (gr_edges H) as [new E]. rewrite (etrip_prefix_len _ _ _ E). lia.
  Qed.

  Lemma grown_trans g1 g2 g3 : grown g1 g2 -> grown g2 g3 -> grown g1 g3.
  Proof.
    intros H1 H2. constructor.
    - apply (gr_inv H2).
    - destruct (gr_nodes H1) as [w1 E1]. destruct (gr_nodes H2) as [w2 E2].
      exists (w1 ++ w2). rewrite E2, E1, app_assoc. reflexivity.
    - destruct (gr_edges H1) as [n1 E1]. destruct (gr_edges H2) as [n2 E2].
      exists (n1 ++ n2). rewrite E2, E1, app_assoc. reflexivity.
    - intros k i. rewrite (gr_adj H2 k i), (gr_adj H1 k i), app_assoc. f_equal.
      pose proof (grown_elen H1) as L1. pose proof (grown_elen H2) as L2.
      destruct (gr_edges H2) as [n2 E2].
      unfold pushed.
      replace (length (gedges g3) - length (gedges g1))
        with ((length (gedges g2) - length (gedges g1)) + (length (gedges g3) - length (gedges g2)))
        by lia.
      rewrite seq_app, filter_app, rev_app_distr.
      replace (length (gedges g1) + (length (gedges g2) - length (gedges g1)))
        with (length (gedges g2)) by lia.
      f_equal. f_equal. apply filter_ext_in. intros x Hx. apply in_seq in Hx.
      rewrite (ept_prefix _ _ _ k E2); [reflexivity|lia].
  Qed.

  Lemma grown_add_node g w :
    GInv g -> length (gnodes g) < cap ->
    grown g (mkGraph (gnodes g ++ [mkNode w (cap, cap)]) (gedges g)).
  Proof.
    intros I Hlt. constructor.
    - apply add_node_GInv; auto.
    - exists [w]. cbn [gnodes]. rewrite map_app. reflexivity.
    - exists []. rewrite app_nil_r. reflexivity.
    - intros k i. rewrite add_node_adjf by auto. cbn [gedges]. rewrite Nat.sub_diag. reflexivity.
  Qed.

  Lemma grown_add_edge g a b w :
    GInv g -> length (gedges g) < cap -> a < length (gnodes g) -> b < length (gnodes g) ->
    exists g', try_add_edge cap capcheck g a b w = (inr (length (gedges g)), g') /\
      grown g g' /\
      map (@nwt NW) (gnodes g') = map (@nwt NW) (gnodes g) /\
      etrip g' = etrip g ++ [((a, b), w)].
  Proof.
    intros I Hlt Ha Hb.
    destruct (proj2 (proj2 (@T1_add_edge NW EW cap capcheck g a b w I)) Hlt Ha Hb)
      as [g' [Eq [I' [Hn [Het Hadj]]]]].
    exists g'. split; auto. split; [|auto].
    pose proof (etrip_prefix_len _ _ _ Het) as Hlen. cbn [length] in Hlen.
    assert (Hnl : length (gnodes g') = length (gnodes g)) by (eapply map_eq_length; eauto).
    assert (Hept : forall k, ept g' k (length (gedges g)) = sel (a, b) k).
    { intros k. rewrite ept_etrip, Het, nth_error_app2 by (rewrite etrip_length; lia).
      rewrite etrip_length, Nat.sub_diag. reflexivity. }
    constructor; auto.
    - exists []. rewrite app_nil_r. auto.
    - eauto.
    - intros k i. replace (length (gedges g') - length (gedges g)) with 1 by lia.
      unfold pushed. cbn [seq filter]. rewrite Hept.
      assert (Hs : sel (a, b) k < length (gnodes g)) by (destruct k; simpl; auto).
      destruct (Nat.lt_ge_cases i (length (gnodes g))) as [Hi|Hi].
      + rewrite (Hadj k i Hi), (Nat.eqb_sym i). destruct (Nat.eqb (sel (a, b) k) i); reflexivity.
      + rewrite !adjf_oob; try apply (gi_ecap I); try apply (gi_ecap I'); try lia.
        destruct (Nat.eqb_spec (sel (a, b) k) i); [lia|reflexivity].
  Qed.

  (* appending nodes *)
  Definition padw (g : graph) (ws : list NW) : graph :=
    mkGraph (gnodes g ++ map (fun w => mkNode w (cap, cap)) ws) (gedges g).

  Lemma padw_nil g : padw g [] = g.
  Proof. destruct g as [ns es]. unfold padw. simpl. rewrite app_nil_r. reflexivity. Qed.

  Lemma padw_cons g w ws :
    padw g (w :: ws) = padw (mkGraph (gnodes g ++ [mkNode w (cap, cap)]) (gedges g)) ws.
  Proof. unfold padw. cbn [gnodes gedges map]. rewrite <- app_assoc. reflexivity. Qed.

  Lemma padw_grown ws : forall g,
    GInv g -> length (gnodes g) + length ws <= cap -> grown g (padw g ws).
  Proof.
    induction ws as [|w ws IH]; intros g I H.
    - rewrite padw_nil. apply grown_refl; auto.
    - rewrite padw_cons. cbn [length] in H.
      pose proof (@grown_add_node g w I ltac:(lia)) as G1.
      eapply grown_trans; [exact G1|]. apply IH; [apply (gr_inv G1)|].
      cbn [gnodes]. rewrite app_length. simpl. lia.
  Qed.

  Lemma padw_nwt g ws : map (@nwt NW) (gnodes (padw g ws)) = map (@nwt NW) (gnodes g) ++ ws.
  Proof.
    unfold padw. cbn [gnodes]. rewrite map_app, map_map. cbn [nwt]. rewrite map_id. reflexivity.
  Qed.

  Lemma padw_nlen g ws : length (gnodes (padw g ws)) = length (gnodes g) + length ws.
  Proof. unfold padw. cbn [gnodes]. rewrite app_length, map_length. reflexivity. Qed.

  (* ------------------------------------------------------------------ *)
  (* extend_with_edges                                                   *)

  Variable dflt : NW.

  Lemma anu_ok nx : forall fuel (g : graph),
    S nx - length (gnodes g) < fuel -> capcheck = false \/ nx < cap ->
    add_nodes_until cap capcheck fuel dflt g nx =
      (Ok (padw g (repeat dflt (S nx - length (gnodes g)))),
       padw g (repeat dflt (S nx - length (gnodes g)))).
  Proof.
    induction fuel as [|f IH]; intros g Hf Hc; [lia|]. cbn [add_nodes_until].
    destruct (Nat.ltb_spec nx (length (gnodes g))) as [Hlt|Hge].
    - replace (S nx - length (gnodes g)) with 0 by lia. simpl. rewrite padw_nil. reflexivity.
    - rewrite try_add_node_ok by (destruct Hc; [left; auto|right; lia]).
      rewrite IH; [|cbn [gnodes]; rewrite app_length; cbn [length]; lia|auto].
      cbn [gnodes]. rewrite app_length. cbn [length].
      replace (S nx - length (gnodes g)) with (S (S nx - (length (gnodes g) + 1))) by lia.
      cbn [repeat]. rewrite padw_cons. reflexivity.
  Qed.

  Lemma anu_limit nx : forall fuel (g : graph),
    capcheck = true -> cap <= nx -> length (gnodes g) <= cap -> cap - length (gnodes g) < fuel ->
    add_nodes_until cap capcheck fuel dflt g nx =
      (Panic, padw g (repeat dflt (cap - length (gnodes g)))).
  Proof.
    induction fuel as [|f IH]; intros g Hc Hnx Hn Hf; [lia|]. cbn [add_nodes_until].
    destruct (Nat.ltb_spec nx (length (gnodes g))) as [Hlt|Hge]; [lia|].
    destruct (Nat.eq_dec (length (gnodes g)) cap) as [E|E].
    - rewrite try_add_node_limit by auto. rewrite E, Nat.sub_diag. simpl. rewrite padw_nil. reflexivity.
    - rewrite try_add_node_ok by (right; auto).
      rewrite IH; auto; [|cbn [gnodes]; rewrite app_length; cbn [length]; lia
                          |cbn [gnodes]; rewrite app_length; cbn [length]; lia].
      cbn [gnodes]. rewrite app_length. cbn [length].
      replace (cap - length (gnodes g)) with (S (cap - (length (gnodes g) + 1))) by lia.
      cbn [repeat]. rewrite padw_cons. reflexivity.
  Qed.

  (* what extend_with_edges leaves: [pre] = the processed edges, [post] = the rest *)
  Record ext_result (g : graph) (es : list (nat * nat * EW)) (ok : bool) (g' : graph)
         (pre post : list (nat * nat * EW)) : Prop := {
    er_split : es = pre ++ post;
    er_grown : grown g g';
    er_nwt : map (@nwt NW) (gnodes g') =
             map (@nwt NW) (gnodes g) ++ repeat dflt (length (gnodes g') - length (gnodes g));
    er_nlen : length (gnodes g') =
              Nat.min cap (Nat.max (length (gnodes g)) (need (pre ++ firstn 1 post)));
    er_etrip : etrip g' = etrip g ++ map trip_of pre;
    er_ok : if ok then post = [] /\ Nat.max (length (gnodes g)) (need es) <= cap
            else capcheck = true /\
                 exists a b w post', post = (a, b, w) :: post' /\
                   (cap <= Nat.max a b \/
                    (Nat.max a b < cap /\ length (gedges g) + length pre = cap))
  }.

  Theorem extend_with_edges_spec es : forall (g : graph),
    GInv g ->
    (capcheck = false ->
       Nat.max (length (gnodes g)) (need es) <= cap /\ length (gedges g) + length es <= cap) ->
    exists ok g' pre post,
      extend_with_edges cap capcheck dflt g es = (ok, g') /\ ext_result g es ok g' pre post.
  Proof.
    induction es as [|[[s t] w] rest IH]; intros g I Hroom.
    - exists true, g, [], []. split; [reflexivity|]. constructor; auto.
      + apply grown_refl; auto.
      + rewrite Nat.sub_diag. simpl. rewrite app_nil_r. reflexivity.
      + simpl. pose proof (gi_ncap I). lia.
      + simpl. rewrite app_nil_r. reflexivity.
      + split; auto. simpl. pose proof (gi_ncap I). lia.
    - cbn [extend_with_edges]. set (nx := Nat.max s t).
      pose proof (gi_ncap I) as Hn. pose proof (gi_ecap I) as He.
      destruct (Nat.lt_ge_cases nx cap) as [Hnx|Hnx].
      + (* the nodes fit *)
        rewrite anu_ok by (try lia; right; auto).
        set (g1 := padw g (repeat dflt (S nx - length (gnodes g)))).
        assert (G1 : grown g g1).
        { apply padw_grown; auto. rewrite repeat_length. lia. }
        assert (L1 : length (gnodes g1) = Nat.max (length (gnodes g)) (S nx)).
        { unfold g1. rewrite padw_nlen, repeat_length. lia. }
        assert (W1 : map (@nwt NW) (gnodes g1) =
                     map (@nwt NW) (gnodes g) ++ repeat dflt (length (gnodes g1) - length (gnodes g))).
        { unfold g1 at 1. rewrite padw_nwt. f_equal. f_equal. rewrite L1. lia. }
        destruct (Nat.eq_dec (length (gedges g)) cap) as [Ee|Ee].
        * (* edge index limit *)
          assert (Hc : capcheck = true).
          { destruct capcheck; auto. destruct (Hroom eq_refl) as [_ H]. simpl in H. lia. }
          rewrite try_add_edge_limit by auto.
          exists false, g1, [], ((s, t, w) :: rest). split; [reflexivity|].
          constructor; auto.
          -- rewrite L1. cbn [app firstn need]. fold nx. lia.
          -- simpl. rewrite app_nil_r. reflexivity.
          -- split; auto. exists s, t, w, rest. split; auto. right. fold nx. simpl. lia.
        * destruct (@grown_add_edge g1 s t w (gr_inv G1)) as [g2 [Eq [G2 [W2 T2]]]];
            [change (gedges g1) with (gedges g); lia|rewrite L1; unfold nx; lia
            |rewrite L1; unfold nx; lia|].
          change (gedges g1) with (gedges g) in Eq. rewrite Eq.
          assert (L2 : length (gnodes g2) = length (gnodes g1)) by (eapply map_eq_length; eauto).
          assert (E2 : length (gedges g2) = S (length (gedges g))).
          { rewrite (etrip_prefix_len _ _ _ T2). change (gedges g1) with (gedges g). simpl. lia. }
          destruct (IH g2 (gr_inv G2)) as [ok [g' [pre [post [Hrun R]]]]].
          { intros Hc. destruct (Hroom Hc) as [H1 H2]. cbn [need length] in H1, H2. fold nx in H1.
            rewrite L2, L1, E2. lia. }
          exists ok, g', ((s, t, w) :: pre), post. split; [exact Hrun|].
          pose proof (er_nlen R) as Ln. rewrite L2, L1 in Ln.
          constructor.
          -- rewrite (er_split R). reflexivity.
          -- eapply grown_trans; [exact G1|]. eapply grown_trans; [exact G2|]. apply (er_grown R).
          -- rewrite (er_nwt R), W2, W1, <- app_assoc, <- repeat_app. f_equal. f_equal.
             rewrite L2, L1. lia.
          -- rewrite Ln. cbn [app need]. fold nx. lia.
          -- rewrite (er_etrip R), T2. change (etrip g1) with (etrip g).
             rewrite <- app_assoc. reflexivity.
          -- pose proof (er_ok R) as Hok. destruct ok.
             ++ destruct Hok as [Hp Hm]. split; auto. cbn [need]. fold nx. rewrite L2, L1 in Hm. lia.
             ++ destruct Hok as [Hc [a [b [w' [post' [Hp Hor]]]]]]. split; auto.
                exists a, b, w', post'. split; auto.
                destruct Hor as [Hor|[Hor1 Hor2]]; [left; auto|right]. split; auto.
                rewrite E2 in Hor2. cbn [length]. lia.
      + (* node index limit *)
        assert (Hc : capcheck = true).
        { destruct capcheck; auto. destruct (Hroom eq_refl) as [H _]. cbn [need] in H.
          fold nx in H. lia. }
        rewrite anu_limit by (auto; lia).
        set (g1 := padw g (repeat dflt (cap - length (gnodes g)))).
        assert (L1 : length (gnodes g1) = cap).
        { unfold g1. rewrite padw_nlen, repeat_length. lia. }
        exists false, g1, [], ((s, t, w) :: rest). split; [reflexivity|].
        constructor; auto.
        * apply padw_grown; auto. rewrite repeat_length. lia.
        * unfold g1 at 1. rewrite padw_nwt, L1. reflexivity.
        * rewrite L1. cbn [app firstn need]. fold nx. lia.
        * simpl. rewrite app_nil_r. reflexivity.
        * split; auto. exists s, t, w, rest. split; auto.
  Qed.

  (* the boolean: false exactly when an index limit is in the way *)
  Corollary extend_with_edges_ok_iff es (g : graph) ok g' :
    GInv g -> capcheck = true ->
    extend_with_edges cap capcheck dflt g es = (ok, g') ->
    (ok = true <-> need es <= cap /\ length (gedges g) + length es <= cap).
  Proof.
    intros I Hc Hrun.
    destruct (@extend_with_edges_spec es g I) as [ok' [g'' [pre [post [Hrun' R]]]]];
      [congruence|].
    rewrite Hrun in Hrun'. injection Hrun' as <- <-.
    pose proof (er_ok R) as Hok. pose proof (er_split R) as Hs.
    pose proof (gr_inv (er_grown R)) as I'.
    pose proof (etrip_prefix_len _ _ _ (er_etrip R)) as Hl. rewrite map_length in Hl.
    destruct ok.
    - destruct Hok as [-> Hm]. rewrite app_nil_r in Hs. subst pre.
      split; auto. intros _. pose proof (gi_ecap I'). split; lia.
    - split; [discriminate|]. intros [H1 H2]. exfalso.
      destruct Hok as [_ [a [b [w [post' [-> Hor]]]]]]. subst es.
      rewrite need_app in H1. cbn [need] in H1. rewrite app_length in H2. cbn [length] in H2.
      destruct Hor as [Hor|[_ Hor]]; lia.
  Qed.
End Grow.

(* ------------------------------------------------------------------ *)
(* filter_map                                                          *)
Section FilterMap.
  Context {NW EW NW2 EW2 : Type}.
  Variable cap : nat.
  Variable capcheck : bool.
  Variable nmap : nat -> NW -> option NW2.
  Variable emap : nat -> EW -> option EW2.

  (* the index map filter_map builds while adding the kept nodes: new index, or cap *)
  Fixpoint imap_of (i : nat) (ns : list (node NW)) (j0 : nat) : list nat :=
    match ns with
    | [] => []
    | n :: r => match nmap i (nwt n) with
                | None => cap :: imap_of (S i) r j0
                | Some _ => j0 :: imap_of (S i) r (S j0)
                end
    end.

  Lemma imap_of_length ns : forall i j0, length (imap_of i ns j0) = length ns.
  Proof.
    induction ns as [|n ns IH]; intros i j0; simpl; auto.
    destruct (nmap i (nwt n)); simpl; rewrite IH; reflexivity.
  Qed.

  Lemma imap_of_nth ns : forall i j0 p n,
    nth_error ns p = Some n ->
    nth_error (imap_of i ns j0) p =
      Some (match nmap (i + p) (nwt n) with
            | Some _ => j0 + length (omapi nmap i (firstn p (map (@nwt NW) ns)))
            | None => cap
            end).
  Proof.
    induction ns as [|n0 ns IH]; intros i j0 p n Hp.
    - destruct p; discriminate.
    - destruct p as [|p]; simpl in Hp.
      + injection Hp as ->. rewrite Nat.add_0_r. cbn [imap_of].
        destruct (nmap i (nwt n)); cbn [nth_error firstn omapi length]; f_equal. lia.
      + replace (i + S p) with (S i + p) by lia. cbn [imap_of map firstn omapi].
        destruct (nmap i (nwt n0)); cbn [nth_error length]; rewrite (IH _ _ _ _ Hp);
          f_equal; destruct (nmap (S i + p) (nwt n)); auto; lia.
  Qed.

  Lemma fm_nodes_eq ns : forall i (g : graph NW2 EW2) imap,
    length (gnodes g) + length (omapi nmap i (map (@nwt NW) ns)) <= cap ->
    fm_nodes cap capcheck nmap i ns g imap =
      Some (padw cap g (omapi nmap i (map (@nwt NW) ns)),
            imap ++ imap_of i ns (length (gnodes g))).
  Proof.
    induction ns as [|n ns IH]; intros i g imap H.
    - cbn [fm_nodes map omapi imap_of]. rewrite padw_nil, app_nil_r. reflexivity.
    - cbn [fm_nodes map omapi imap_of] in *. destruct (nmap i (nwt n)) as [w2|].
      + cbn [length] in H. rewrite try_add_node_ok by (right; lia).
        rewrite IH; [|cbn [gnodes]; rewrite app_length; cbn [length]; lia].
        rewrite padw_cons. cbn [gnodes]. rewrite app_length. cbn [length].
        rewrite <- app_assoc. cbn [app]. rewrite Nat.add_1_r. reflexivity.
      + rewrite IH by auto. rewrite <- app_assoc. reflexivity.
  Qed.

  (* the edge stage, for an abstract index map [im] *)
  Definition fm_edge (im : nat -> nat) (x : nat) (t : (nat * nat) * EW) : option ((nat * nat) * EW2) :=
    if orb (Nat.eqb (im (fst (fst t))) cap) (Nat.eqb (im (snd (fst t))) cap) then None
    else option_map (fun w2 => ((im (fst (fst t)), im (snd (fst t))), w2)) (emap x (snd t)).

  Lemma fm_edges_spec (im : nat -> nat) imap es : forall i (g : graph NW2 EW2),
    GInv cap g ->
    (forall ed, In ed es ->
       nth_error imap (fst (enode ed)) = Some (im (fst (enode ed))) /\
       nth_error imap (snd (enode ed)) = Some (im (snd (enode ed)))) ->
    (forall a, im a <> cap -> im a < length (gnodes g)) ->
    length (gedges g) + length es <= cap ->
    exists g', fm_edges cap capcheck emap i es imap g = Some g' /\
      grown cap g g' /\
      map (@nwt NW2) (gnodes g') = map (@nwt NW2) (gnodes g) /\
      etrip g' = etrip g ++ omapi (fm_edge im) i (map (@etr EW) es).
  Proof.
    induction es as [|ed es IH]; intros i g I Him Hlt Hcap.
    - exists g. split; [reflexivity|]. split; [apply grown_refl; auto|]. split; auto.
      simpl. rewrite app_nil_r. reflexivity.
    - cbn [fm_edges map omapi]. destruct (Him ed (or_introl eq_refl)) as [H1 H2].
      rewrite H1, H2. unfold fm_edge at 1. cbn [etr fst snd].
      assert (Him' : forall ed0, In ed0 es ->
                nth_error imap (fst (enode ed0)) = Some (im (fst (enode ed0))) /\
                nth_error imap (snd (enode ed0)) = Some (im (snd (enode ed0)))).
      { intros ed0 Hin. apply Him. simpl; auto. }
      cbn [length] in Hcap.
      destruct (orb (Nat.eqb (im (fst (enode ed))) cap) (Nat.eqb (im (snd (enode ed))) cap)) eqn:Eo.
      + apply IH; auto. lia.
      + destruct (emap i (ewt ed)) as [w2|]; cbn [option_map].
        * apply orb_false_iff in Eo. destruct Eo as [Ea Eb].
          apply Nat.eqb_neq in Ea. apply Nat.eqb_neq in Eb.
          destruct (@grown_add_edge NW2 EW2 cap capcheck g (im (fst (enode ed))) (im (snd (enode ed))) w2 I)
            as [g2 [Eq [G2 [W2 T2]]]]; [lia|auto|auto|].
          rewrite Eq.
          assert (L2 : length (gnodes g2) = length (gnodes g)) by (eapply map_eq_length; eauto).
          destruct (IH (S i) g2 (gr_inv G2) Him') as [g' [Hrun [G' [W' T']]]].
          { intros a Ha. rewrite L2. auto. }
          { rewrite (etrip_prefix_len _ _ _ T2). simpl. lia. }
          exists g'. split; auto. split; [eapply grown_trans; eauto|]. split; [congruence|].
          rewrite T', T2, <- app_assoc. reflexivity.
        * apply IH; auto. lia.
  Qed.

  (* ---- the specification vocabulary ---- *)
  Definition keptb (g : graph NW EW) (i : nat) : bool :=
    match nth_error (gnodes g) i with
    | Some n => match nmap i (nwt n) with Some _ => true | None => false end
    | None => false
    end.
  (* new index of a kept node: the number of kept nodes before it *)
  Definition rank (g : graph NW EW) (i : nat) : nat :=
    length (omapi nmap 0 (firstn i (map (@nwt NW) (gnodes g)))).
  Definition fm_nodes_of (g : graph NW EW) : list NW2 := omapi nmap 0 (map (@nwt NW) (gnodes g)).
  Definition fm_edge_of (g : graph NW EW) (x : nat) (t : (nat * nat) * EW)
    : option ((nat * nat) * EW2) :=
    if andb (keptb g (fst (fst t))) (keptb g (snd (fst t)))
    then option_map (fun w2 => ((rank g (fst (fst t)), rank g (snd (fst t))), w2)) (emap x (snd t))
    else None.
  Definition fm_edges_of (g : graph NW EW) : list ((nat * nat) * EW2) :=
    omapi (fm_edge_of g) 0 (etrip g).

  Lemma rank_lt (g : graph NW EW) i : keptb g i = true -> rank g i < length (fm_nodes_of g).
  Proof.
    unfold keptb, rank, fm_nodes_of. intros H.
    destruct (nth_error (gnodes g) i) as [n|] eqn:Hn; [|discriminate].
    destruct (nmap i (nwt n)) as [w2|] eqn:Hm; [|discriminate].
    eapply nth_error_Some_lt.
    apply (omapi_firstn_nth nmap (map (@nwt NW) (gnodes g)) 0 i (x := nwt n)).
    - rewrite nth_error_map, Hn. reflexivity.
    - exact Hm.
  Qed.

  Theorem filter_map_spec (g : graph NW EW) :
    GInv cap g ->
    exists g', filter_map cap capcheck nmap emap g = Some g' /\
      GInv cap g' /\
      map (@nwt NW2) (gnodes g') = fm_nodes_of g /\
      etrip g' = fm_edges_of g /\
      (forall k i, adjf cap g' k i = pushed g' k i 0 (length (gedges g'))).
  Proof.
    intros I. unfold filter_map.
    pose proof (omapi_length nmap (map (@nwt NW) (gnodes g)) 0) as Hk. rewrite map_length in Hk.
    pose proof (gi_ncap I) as Hn. pose proof (gi_ecap I) as He.
    rewrite fm_nodes_eq by (simpl; lia). cbn [app gnodes length g_empty].
    set (g1 := padw cap g_empty (omapi nmap 0 (map (@nwt NW) (gnodes g)))).
    assert (G1 : grown cap g_empty g1).
    { apply padw_grown; [apply GInv_empty|simpl; lia]. }
    set (im := fun a => if keptb g a then rank g a else cap).
    assert (W1 : map (@nwt NW2) (gnodes g1) = fm_nodes_of g).
    { unfold g1. rewrite padw_nwt. reflexivity. }
    assert (Him : forall a, a < length (gnodes g) ->
              nth_error (imap_of 0 (gnodes g) 0) a = Some (im a)).
    { intros a Ha. destruct (nth_error_lt_Some _ Ha) as [n Hna].
      rewrite (imap_of_nth _ 0 0 _ Hna). cbn [Nat.add]. f_equal.
      unfold im, keptb, rank. rewrite Hna. destruct (nmap a (nwt n)); reflexivity. }
    assert (Hcap : forall a, im a = cap <-> keptb g a = false).
    { intros a. unfold im. destruct (keptb g a) eqn:K; [|tauto].
      pose proof (rank_lt _ _ K). unfold fm_nodes_of in *. split; [lia|discriminate]. }
    destruct (@fm_edges_spec im (imap_of 0 (gnodes g) 0) (gedges g) 0 g1 (gr_inv G1))
      as [g' [Hrun [G' [W' T']]]].
    - intros ed Hin. apply In_nth_error in Hin. destruct Hin as [x Hx].
      destruct (gi_ends I _ Hx). split; apply Him; auto.
    - intros a Ha. assert (K : keptb g a = true).
      { destruct (keptb g a) eqn:K; auto. exfalso. apply Ha. apply Hcap. auto. }
      unfold im. rewrite K. apply (f_equal (@length _)) in W1. rewrite map_length in W1.
      rewrite W1. apply rank_lt; auto.
    - unfold g1. cbn [padw gedges g_empty length]. lia.
    - exists g'. split; [exact Hrun|]. split; [apply (gr_inv G')|]. split; [congruence|].
      pose proof (grown_trans G1 G') as G. split.
      + rewrite T'. unfold g1. cbn [padw etrip gedges g_empty map app].
        unfold fm_edges_of. fold (etrip g). apply omapi_ext.
        intros p [[a b] w] _. cbn [Nat.add]. unfold fm_edge, fm_edge_of. cbn [fst snd].
        pose proof (Hcap a) as Ca. pose proof (Hcap b) as Cb.
        destruct (Nat.eqb_spec (im a) cap) as [Ea|Ea]; destruct (Nat.eqb_spec (im b) cap) as [Eb|Eb];
          destruct (keptb g a) eqn:Ka; destruct (keptb g b) eqn:Kb; cbn [orb andb];
          try reflexivity; try (exfalso; intuition congruence).
        unfold im. rewrite Ka, Kb. reflexivity.
      + intros k i. rewrite (gr_adj G k i). cbn [g_empty gedges length].
        rewrite Nat.sub_0_r. rewrite (proj2 (@T1_empty NW2 EW2 cap)), app_nil_r. reflexivity.
  Qed.

  (* where the kept elements land *)
  Lemma fm_node_at (g : graph NW EW) i n w2 :
    nth_error (gnodes g) i = Some n -> nmap i (nwt n) = Some w2 ->
    nth_error (fm_nodes_of g) (rank g i) = Some w2.
  Proof.
    intros Hn Hm. unfold fm_nodes_of, rank.
    apply (omapi_firstn_nth nmap (map (@nwt NW) (gnodes g)) 0 i (x := nwt n)); auto.
    rewrite nth_error_map, Hn. reflexivity.
  Qed.

  Lemma rank_mono (g : graph NW EW) i j : i < j -> keptb g i = true -> rank g i < rank g j.
  Proof.
    unfold keptb, rank. intros Hij H.
    destruct (nth_error (gnodes g) i) as [n|] eqn:Hn; [|discriminate].
    destruct (nmap i (nwt n)) as [w2|] eqn:Hm; [|discriminate].
    apply (@omapi_rank_lt _ _ nmap (map (@nwt NW) (gnodes g)) 0 i j (nwt n)); auto.
    - rewrite nth_error_map, Hn. reflexivity.
    - simpl. congruence.
  Qed.

  Lemma fm_edge_at (g : graph NW EW) x t t2 :
    nth_error (etrip g) x = Some t -> fm_edge_of g x t = Some t2 ->
    nth_error (fm_edges_of g)
      (length (omapi (fm_edge_of g) 0 (firstn x (etrip g)))) = Some t2.
  Proof.
    intros Hx Hf. unfold fm_edges_of.
    apply (omapi_firstn_nth (fm_edge_of g) (etrip g) 0 x (x := t)); auto.
  Qed.
End FilterMap.
