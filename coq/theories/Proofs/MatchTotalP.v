(* maximum_matching (Gabow): totality.  The model neither panics nor runs out of fuel, when the
   visit map has room for every index below node_bound.  (M3, totality) *)
From PG Require Import Lib.Io Model.View Model.Traversal Model.MatchM Spec.Reach Spec.MatchSpec
  Proofs.TravBase Proofs.MatchGreedyP Proofs.MatchShapeP Proofs.MatchAugP Proofs.MatchFlipP
  Proofs.MatchInvP Proofs.MatchSeqP Proofs.MatchJoinP Proofs.MatchBlossomP Proofs.MatchMaxP
  Proofs.MatchFindJoinP.

(* every index below node_bound fits the visit map *)
Definition CapOk (v : view) : Prop := forall x, x < vbound v -> in_cap v x.

Lemma label_visit_total v s x : in_cap v x -> exists s', label_visit v s x = Ok s'.
Proof. intros H. unfold label_visit. rewrite (visit_ok v (vis s) x H). cbn [rbind]. eauto. Qed.

(* ------------------------------------------------------------------ *)
(* join_loop and relabel, over abstract sequences as in MatchJoinP     *)

Section JoinTotal.
Variable v : view.
Variable s : mst.
Variable e es et : nat.
Let d := vbound v.
Hypothesis HC : CapOk v.
Hypothesis Hlab : length (lab s) = S (vbound v).

Variable Sq : list nat -> Prop.
Hypothesis Q1 : forall X, Sq X -> NoDup X.
Hypothesis Q2 : forall X, Sq X -> exists X0, X = X0 ++ [d].
Hypothesis Q4 : forall X a f y b s', Sq X -> X = a ++ f :: y :: b -> Agree s s' -> step_inner s' f = Ok y.
Hypothesis Q5 : forall X x, Sq X -> In x X -> x < length (lab s) /\ ~ outerv (lab s) x.
Hypothesis NoFlag : forall z, nth_error (lab s) z <> Some (LFlag e).

Lemma join_loop_total : forall fuel X Y Xv Xr Yv Yr s',
  Sq X -> Sq Y -> X = Xv ++ Xr -> Y = Yv ++ Yr -> Xv <> [] -> Yv <> [] ->
  (forall x, In x Xv -> ~ In x Yv) ->
  mate s' = mate s -> fin s' = fin s -> FL s e (Xv ++ Yv) (lab s') ->
  length Xr + length Yr < fuel ->
  exists j s1, join_loop v fuel s' e (last Xv d) (last Yv d) = Ok (j, s1).
Proof.
  induction fuel as [|f IH]; intros X Y Xv Xr Yv Yr s' HX HY EX EY Xne Yne Hdis Hm Hf HFL Hfuel; [lia|].
  (* one step on side Z, the other side being W *)
  assert (Hbody : forall Z W Zv Zr Wv Wr,
            Sq Z -> Sq W -> Z = Zv ++ Zr -> W = Wv ++ Wr -> Zv <> [] -> Wv <> [] ->
            (forall x, In x Zv -> ~ In x Wv) -> FL s e (Zv ++ Wv) (lab s') ->
            length Zr + length Wr < S f -> last Zv d <> d ->
            exists j s1, jl_body v e f s' (last Zv d) (last Wv d) = Ok (j, s1)).
  { intros Z W Zv Zr Wv Wr HZ HW EZ EW Zne Wne Hd HFL' Hfu Hcd.
    pose proof (Q1 Z HZ) as NZ.
    destruct (exists_last Zne) as [Zv' [c EZv]]. rewrite EZv in Hcd |- *. rewrite last_snoc in Hcd |- *.
    destruct Zr as [|y Zr'].
    { exfalso. destruct (Q2 Z HZ) as [Z0 EZ0]. rewrite app_nil_r in EZ. rewrite EZ, EZv in EZ0.
      apply app_inj_tail in EZ0. destruct EZ0 as [_ E]. contradiction. }
    assert (EZ' : Z = Zv' ++ c :: y :: Zr') by (rewrite EZ, EZv, <- app_assoc; reflexivity).
    assert (HVno : forall z, In z (Zv ++ Wv) -> ~ outerv (lab s) z).
    { intros z Hz. apply in_app_or in Hz. destruct Hz as [Hz|Hz].
      - apply (Q5 Z z HZ). rewrite EZ. apply in_or_app; left; exact Hz.
      - apply (Q5 W z HW). rewrite EW. apply in_or_app; left; exact Hz. }
    pose proof (FL_Agree s e _ s' Hm Hf HFL' HVno) as HA.
    unfold jl_body. rewrite (Q4 Z Zv' c y Zr' s' HZ EZ' HA). cbn [rbind].
    assert (HyZ : In y Z) by (rewrite EZ; apply in_or_app; right; left; reflexivity).
    destruct HFL' as [HFLl HFLz].
    assert (Hyl : y < length (lab s')) by (rewrite HFLl; apply (Q5 Z y HZ HyZ)).
    destruct (getp_lt (lab s') y Hyl) as [l [El El']]. rewrite El. cbn [rbind].
    destruct (is_flagged l e) eqn:Efl; [eauto|].
    rewrite (setp_lt (lab s') y (LFlag e) Hyl). cbn [rbind].
    assert (HynV : ~ In y (Zv ++ Wv)).
    { intros Hin. rewrite (proj1 (HFLz y) Hin) in El'. injection El' as <-.
      cbn [is_flagged] in Efl. rewrite Nat.eqb_refl in Efl. discriminate. }
    set (s'' := mkMst (mate s') (upd (lab s') y (LFlag e)) (fin s') (vis s') (queue s') (nedges s')).
    pose proof (IH Z W ((Zv' ++ [c]) ++ [y]) Zr' Wv Wr s'') as IH'. rewrite last_snoc in IH'.
    apply IH'; auto.
    - rewrite EZ, EZv, <- !app_assoc. reflexivity.
    - intros E. apply app_eq_nil in E. destruct E; discriminate.
    - intros x Hx. apply in_app_or in Hx. destruct Hx as [Hx|[<-|[]]].
      + rewrite <- EZv in Hx. apply Hd, Hx.
      + intros Hin. apply HynV. apply in_or_app; right; exact Hin.
    - rewrite <- EZv. split; [cbn [lab s'']; rewrite upd_length; exact HFLl|].
      intros z. cbn [lab s'']. rewrite nth_error_upd, (proj2 (Nat.ltb_lt _ _) Hyl).
      destruct (Nat.eqb_spec y z) as [<-|Hne].
      + split; [reflexivity|]. intros Hn. exfalso. apply Hn.
        apply in_or_app; left. apply in_or_app; right; left; reflexivity.
      + split.
        * intros Hin. apply (proj1 (HFLz z)). apply in_app_or in Hin. destruct Hin as [Hin|Hin].
          -- apply in_app_or in Hin. destruct Hin as [Hin|[E|[]]]; [|contradiction].
             apply in_or_app; left; exact Hin.
          -- apply in_or_app; right; exact Hin.
        * intros Hn. apply (proj2 (HFLz z)). intros Hin. apply Hn.
          apply in_app_or in Hin. destruct Hin as [Hin|Hin].
          -- apply in_or_app; left. apply in_or_app; left; exact Hin.
          -- apply in_or_app; right; exact Hin.
    - cbn [length] in Hfu. lia. }
  rewrite join_loop_S. fold d. destruct (Nat.eqb_spec (last Yv d) d) as [Ed|Ed].
  - apply (Hbody X Y Xv Xr Yv Yr); auto.
    intros Ex. apply (Hdis d).
    + rewrite <- Ex. apply last_In_ne. exact Xne.
    + rewrite <- Ed. apply last_In_ne. exact Yne.
  - apply (Hbody Y X Yv Yr Xv Xr); auto.
    + intros x Hx Hx'. apply (Hdis x Hx' Hx).
    + apply (FL_perm s e (Xv ++ Yv)); [|exact HFL]. intros z. rewrite !in_app_iff. tauto.
    + lia.
Qed.

Lemma relabel_total X j Xb : Sq X ->
  forall fuel A1 A2 s2,
    X = (A1 ++ A2) ++ j :: Xb -> Agree s s2 ->
    length (lab s2) = S (vbound v) -> length (fin s2) = S (vbound v) ->
    length A2 < fuel ->
    exists s3, relabel v fuel s2 e es et j (hd d (A2 ++ [j])) = Ok s3.
Proof.
  intros HX. pose proof (Q1 X HX) as NX.
  induction fuel as [|f IH]; intros A1 A2 s2 EX HA Ll Lf Hfuel; [lia|]. cbn [relabel].
  destruct A2 as [|x A2'].
  - cbn [app hd]. rewrite Nat.eqb_refl. eauto.
  - cbn [app hd].
    assert (Hxj : x <> j).
    { intros ->. rewrite EX in NX. apply (nodup_app_disj _ _ NX j); [|left; reflexivity].
      apply in_or_app; right; left; reflexivity. }
    destruct (Nat.eqb_spec x j) as [E|_]; [contradiction|].
    assert (EX' : X = A1 ++ x :: (A2' ++ j :: Xb)) by (rewrite EX, <- app_assoc; reflexivity).
    assert (Hxd : x <> d).
    { intros ->. destruct (Q2 X HX) as [X0 EX0].
      destruct (nodup_split_unique X _ _ _ _ d NX EX' EX0) as [_ Hb]. destruct A2'; discriminate. }
    fold d. destruct (Nat.eqb_spec x d) as [E|_]; [contradiction|].
    assert (HxX : In x X) by (rewrite EX'; apply in_or_app; right; left; reflexivity).
    destruct (Q5 X x HX HxX) as [Hxl Hxno]. rewrite Hlab in Hxl.
    assert (Hxc : in_cap v x) by (apply HC; unfold d in Hxd; lia).
    destruct (label_visit_total v s2 x Hxc) as [s2a E1]. rewrite E1. cbn [rbind].
    apply label_visit_same in E1 as E1'. destruct E1' as [V1 [V2 [V3 V4]]].
    rewrite (setp_lt (lab s2a) x) by (rewrite V2, Ll; exact Hxl). cbn [rbind].
    rewrite (setp_lt (fin s2a) x) by (rewrite V3, Lf; exact Hxl). cbn [rbind].
    set (s2b := mkMst (mate s2a) (upd (lab s2a) x (LEdge e es et)) (upd (fin s2a) x j)
                      (vis s2a) (queue s2a) (nedges s2a)).
    assert (HAg : Agree s s2b).
    { destruct HA as [Am Ao]. split; [cbn [mate s2b]; congruence|].
      intros u Hu. cbn [lab fin s2b]. rewrite !nth_error_upd_neq by (intros ->; contradiction).
      rewrite V2, V3. apply Ao, Hu. }
    assert (Hnext : step_inner s2b x = Ok (hd d (A2' ++ [j]))).
    { destruct A2' as [|y A2''].
      - cbn [app hd]. apply (Q4 X A1 x j Xb s2b HX); [|exact HAg]. rewrite EX'. reflexivity.
      - cbn [app hd]. apply (Q4 X A1 x y (A2'' ++ j :: Xb) s2b HX); [|exact HAg]. rewrite EX'. reflexivity. }
    rewrite Hnext. cbn [rbind].
    apply (IH (A1 ++ [x]) A2' s2b); auto.
    + rewrite EX, <- !app_assoc. reflexivity.
    + cbn [lab s2b]. rewrite upd_length, V2. exact Ll.
    + cbn [fin s2b]. rewrite upd_length, V3. exact Lf.
    + cbn [length] in Hfuel. lia.
Qed.

End JoinTotal.

Lemma refresh_total v : forall labs s idx join acc,
  (forall k lb, nth_error labs k = Some lb ->
     exists cur, nth_error (fin s) (idx + k) = Some cur /\
       (negb (Nat.eqb (idx + k) (vbound v)) && is_outer lb = true -> cur < length (lab s))) ->
  exists r, refresh v labs s idx join acc = Ok r.
Proof.
  induction labs as [|l rest IH]; intros s idx join acc H; cbn [refresh]; [eauto|].
  destruct (H 0 l eq_refl) as [cur [Hc Hb]]. rewrite Nat.add_0_r in Hc, Hb.
  unfold getp at 1. rewrite Hc. cbn [rbind].
  assert (Hrest : forall k lb, nth_error rest k = Some lb ->
            exists cur, nth_error (fin s) (S idx + k) = Some cur /\
              (negb (Nat.eqb (S idx + k) (vbound v)) && is_outer lb = true -> cur < length (lab s))).
  { intros k lb Hk. destruct (H (S k) lb Hk) as [c [H1 H2]].
    exists c. replace (S idx + k) with (idx + S k) by lia. auto. }
  destruct (negb (Nat.eqb idx (vbound v)) && is_outer l) eqn:Ec.
  - destruct (getp_lt (lab s) cur (Hb eq_refl)) as [l2 [E2 _]]. rewrite E2. cbn [rbind].
    apply IH. exact Hrest.
  - apply IH. exact Hrest.
Qed.

(* ------------------------------------------------------------------ *)
(* find_join                                                           *)

Section FindJoinTotal.
Variable v : view.
Hypothesis HC : CapOk v.
Variable start : nat.
Variable s : mst.
Variable pth : nat -> list nat.
Variable rk : nat -> nat.
Hypothesis I : SI v start s pth rk.
Variables e es et : nat.
Variable er : eref.
Hypothesis Her : In er (out_edges v es).
Hypothesis Heid : eid er = e.
Hypothesis Htgt : tgt er = et.
Hypothesis Hes : outerv (lab s) es.
Hypothesis Het : outerv (lab s) et.

Let d := vbound v.
Let Sq (X : list nat) : Prop := exists u, outerv (lab s) u /\ X = xs v s pth u.

Lemma xs_len u : outerv (lab s) u -> length (xs v s pth u) <= S (vbound v).
Proof.
  intros Hu. rewrite <- (seq_length (S (vbound v)) 0).
  apply NoDup_incl_length; [apply (xs_nodup v start s pth rk I u Hu)|].
  intros x Hx. apply in_seq. destruct (xs_range v start s pth rk I u x Hu Hx). lia.
Qed.

Lemma TQ1 : forall X, Sq X -> NoDup X.
Proof. intros X [u [Hu ->]]. apply (xs_nodup v start s pth rk I u Hu). Qed.

Lemma TQ2 : forall X, Sq X -> exists X0, X = X0 ++ [vbound v].
Proof. intros X [u [Hu ->]]. eexists. reflexivity. Qed.

Lemma TQ3 : forall X Y f a1 b1 a2 b2, Sq X -> Sq Y -> X = a1 ++ f :: b1 -> Y = a2 ++ f :: b2 -> b1 = b2.
Proof.
  intros X Y f a1 b1 a2 b2 [u [Hu ->]] [u' [Hu' ->]] E1 E2.
  apply (xs_common v start s pth rk I u u' f a1 b1 a2 b2 Hu Hu' E1 E2).
Qed.

Lemma TQ4 : forall X a f y b s', Sq X -> X = a ++ f :: y :: b -> Agree s s' -> step_inner s' f = Ok y.
Proof.
  intros X a f y b s' [u [Hu ->]] E HA. apply (xs_step v start s pth rk I u a f y b s' Hu E HA).
Qed.

Lemma TQ5 : forall X x, Sq X -> In x X -> x < length (lab s) /\ ~ outerv (lab s) x.
Proof.
  intros X x [u [Hu ->]] Hx. destruct (xs_range v start s pth rk I u x Hu Hx) as [H1 H2].
  split; [rewrite (si_lablen _ _ _ _ _ I); lia | exact H2].
Qed.

Lemma txs_cons u : outerv (lab s) u -> exists r, xs v s pth u = hd (vbound v) (xs v s pth u) :: r.
Proof.
  intros Hu. destruct (xs v s pth u) as [|x r] eqn:E.
  - unfold xs in E. apply app_eq_nil in E. destruct E; discriminate.
  - exists r. reflexivity.
Qed.

Lemma find_join_total : exists s', find_join v s e es et = Ok s'.
Proof.
  pose proof TQ1 as Q1. pose proof TQ2 as Q2. pose proof TQ3 as Q3. pose proof TQ4 as Q4. pose proof TQ5 as Q5.
  pose proof (si_lablen _ _ _ _ _ I) as Ll. pose proof (si_finlen _ _ _ _ _ I) as Lf.
  assert (SqX : Sq (xs v s pth es)) by (exists es; auto).
  assert (SqY : Sq (xs v s pth et)) by (exists et; auto).
  pose proof (xs_hd v start s pth rk I es Hes) as Fes. pose proof (xs_hd v start s pth rk I et Het) as Fet.
  destruct (txs_cons es Hes) as [Xr EXr]. destruct (txs_cons et Het) as [Yr EYr].
  set (lft := hd (vbound v) (xs v s pth es)) in *. set (rgt := hd (vbound v) (xs v s pth et)) in *.
  assert (Hlft : lft < length (lab s)).
  { apply (Q5 _ lft SqX). rewrite EXr. left; reflexivity. }
  assert (Hrgt : rgt < length (lab s)).
  { apply (Q5 _ rgt SqY). rewrite EYr. left; reflexivity. }
  unfold find_join. unfold getp at 1. rewrite Fes. cbn [rbind]. unfold getp at 1. rewrite Fet. cbn [rbind].
  destruct (Nat.eqb_spec lft rgt) as [Heq|Hlr]; [eauto|].
  assert (NoFlag : forall z, nth_error (lab s) z <> Some (LFlag e)).
  { intros z Hz. destruct (si_flag _ _ _ _ _ I z e Hz es er Her Heid) as [_ [_ Hf]].
    rewrite Htgt, Fes, Fet in Hf. injection Hf as Hf. contradiction. }
  rewrite (setp_lt (lab s) lft (LFlag e) Hlft). cbn [rbind].
  rewrite (setp_lt _ rgt (LFlag e)) by (rewrite upd_length; exact Hrgt). cbn [rbind].
  set (s0 := mkMst (mate s) (upd (upd (lab s) lft (LFlag e)) rgt (LFlag e)) (fin s) (vis s) (queue s) (nedges s)).
  assert (HFL0 : FL s e ([lft] ++ [rgt]) (lab s0)).
  { split; [cbn [lab s0]; rewrite !upd_length; reflexivity|].
    intros z. cbn [lab s0]. rewrite !nth_error_upd, upd_length.
    rewrite (proj2 (Nat.ltb_lt _ _) Hlft), (proj2 (Nat.ltb_lt _ _) Hrgt).
    destruct (Nat.eqb_spec rgt z) as [<-|N1].
    - split; [reflexivity|]. intros Hn. exfalso. apply Hn. right; left; reflexivity.
    - destruct (Nat.eqb_spec lft z) as [<-|N2].
      + split; [reflexivity|]. intros Hn. exfalso. apply Hn. left; reflexivity.
      + split; [|reflexivity]. intros [E|[E|[]]]; congruence. }
  assert (Hd0 : forall x, In x [lft] -> ~ In x [rgt]) by (intros x [<-|[]] [E|[]]; congruence).
  pose proof (xs_len es Hes) as LX. pose proof (xs_len et Het) as LY.
  rewrite EXr in LX. rewrite EYr in LY. cbn [length] in LX, LY.
  destruct (join_loop_total v s e Ll Sq Q1 Q2 Q4 Q5 (4 * (vbound v + 2))
              (xs v s pth es) (xs v s pth et) [lft] Xr [rgt] Yr s0) as [join [s1 E5]]; auto;
    try discriminate; [lia|].
  cbn [last] in E5. rewrite E5. cbn [rbind].
  assert (J : JRes s e (xs v s pth es) (xs v s pth et) join s0 s1).
  { apply (join_loop_ok v s e Sq Q1 Q2 Q3 Q4 Q5 NoFlag (4 * (vbound v + 2))
             (xs v s pth es) (xs v s pth et) [lft] Xr [rgt] Yr s0 join s1); auto; discriminate. }
  destruct J as [Xa [Xb [Ya [Yb [V [EX [EY [DX [DY [M1 [F1 [FL1 [HV _]]]]]]]]]]]]].
  assert (HVno : forall z, In z V -> ~ outerv (lab s) z).
  { intros z Hz. destruct (HV z Hz) as [Hin|Hin]; [apply (Q5 _ z SqX Hin) | apply (Q5 _ z SqY Hin)]. }
  assert (A1 : Agree s s1) by (apply (FL_Agree s e V s1 M1 F1 FL1 HVno)).
  unfold getp at 1. rewrite F1, Fes. cbn [rbind]. fold lft.
  assert (Elft : lft = hd (vbound v) (Xa ++ [join])) by (apply (hd_split _ Xa Xb join _ EX)).
  assert (LXa : length Xa <= vbound v).
  { pose proof (xs_len es Hes) as L. rewrite EX, app_length in L. cbn [length] in L. lia. }
  assert (LYa : length Ya <= vbound v).
  { pose proof (xs_len et Het) as L. rewrite EY, app_length in L. cbn [length] in L. lia. }
  destruct FL1 as [FLl FLz].
  destruct (relabel_total v s e es et HC Ll Sq Q1 Q2 Q4 Q5 (xs v s pth es) join Xb SqX
              (4 * (vbound v + 2)) [] Xa s1) as [s2 E7]; auto.
  { rewrite FLl. exact Ll. }
  { rewrite F1. exact Lf. }
  { lia. }
  rewrite Elft, E7. cbn [rbind].
  assert (R2 : RL e es et join s1 s2 ([] ++ Xa)).
  { apply (relabel_ok v s e es et Sq Q1 Q2 Q4 Q5 (xs v s pth es) join Xb s1 SqX A1
             (4 * (vbound v + 2)) [] Xa s1 s2); [exact EX | apply RL_refl | exact E7]. }
  cbn [app] in R2.
  assert (HXano : forall z, In z Xa -> ~ outerv (lab s) z).
  { intros z Hz. apply (Q5 _ z SqX). rewrite EX. apply in_or_app; left; exact Hz. }
  assert (A2 : Agree s s2) by (apply (RL_Agree s e es et join s1 s2 Xa A1 R2 HXano)).
  destruct R2 as [R2m [R2n [R2l [R2f [R2a [R2b R2q]]]]]].
  pose proof A2 as [A2m A2o].
  unfold getp at 1. rewrite (proj2 (A2o et Het)), Fet. cbn [rbind]. fold rgt.
  assert (Ergt : rgt = hd (vbound v) (Ya ++ [join])) by (apply (hd_split _ Ya Yb join _ EY)).
  destruct (relabel_total v s e es et HC Ll Sq Q1 Q2 Q4 Q5 (xs v s pth et) join Yb SqY
              (4 * (vbound v + 2)) [] Ya s2) as [s3 E9]; auto.
  { rewrite R2l, FLl. exact Ll. }
  { rewrite R2f, F1. exact Lf. }
  { lia. }
  rewrite Ergt, E9. cbn [rbind].
  assert (R3 : RL e es et join s2 s3 ([] ++ Ya)).
  { apply (relabel_ok v s e es et Sq Q1 Q2 Q4 Q5 (xs v s pth et) join Yb s2 SqY A2
             (4 * (vbound v + 2)) [] Ya s2 s3); [exact EY | apply RL_refl | exact E9]. }
  cbn [app] in R3. destruct R3 as [R3m [R3n [R3l [R3f [R3a [R3b R3q]]]]]].
  assert (Hjle : join < S (vbound v)).
  { rewrite <- Ll. apply (Q5 _ join SqX). rewrite EX. apply in_or_app; right; left; reflexivity. }
  destruct (refresh_total v (lab s3) s3 0 join []) as [fin' E10].
  { intros k lb Hk. cbn [Nat.add].
    assert (Hkl : k < S (vbound v)).
    { apply nth_error_Some_lt in Hk. rewrite R3l, R2l, FLl, Ll in Hk. exact Hk. }
    destruct (@nth_error_lt_Some _ (fin s3) k) as [cur Hcur]; [rewrite R3f, R2f, F1, Lf; exact Hkl|].
    exists cur. split; [exact Hcur|]. intros Hc. apply andb_true_iff in Hc. destruct Hc as [_ Hlo].
    rewrite R3l, R2l, FLl, Ll.
    destruct (in_dec Nat.eq_dec k Ya) as [HY|HnY].
    { rewrite (proj2 (R3a k HY)) in Hcur. injection Hcur as <-. exact Hjle. }
    rewrite (proj2 (R3b k HnY)) in Hcur. rewrite (proj1 (R3b k HnY)) in Hk.
    destruct (in_dec Nat.eq_dec k Xa) as [HX|HnX].
    { rewrite (proj2 (R2a k HX)) in Hcur. injection Hcur as <-. exact Hjle. }
    rewrite (proj2 (R2b k HnX)), F1 in Hcur. rewrite (proj1 (R2b k HnX)) in Hk.
    assert (Hko : outerv (lab s) k).
    { destruct (in_dec Nat.eq_dec k V) as [Hin|Hnin].
      - rewrite (proj1 (FLz k) Hin) in Hk. injection Hk as <-. discriminate.
      - rewrite (proj2 (FLz k) Hnin) in Hk. exists lb. auto. }
    rewrite (xs_hd v start s pth rk I k Hko) in Hcur. injection Hcur as <-.
    destruct (txs_cons k Hko) as [r Er].
    assert (Hin : In (hd (vbound v) (xs v s pth k)) (xs v s pth k)) by (rewrite Er at 2; left; reflexivity).
    destruct (xs_range v start s pth rk I k _ Hko Hin). lia. }
  rewrite E10. cbn [rmap]. eauto.
Qed.

End FindJoinTotal.

(* ------------------------------------------------------------------ *)
(* the visit map and the queue: every push is a fresh mark             *)

(* queue and visit map grow together *)
Definition DQ (s s' : mst) : Prop :=
  length (queue s') + length (vis s) = length (queue s) + length (vis s').

Lemma label_visit_vq v s x s' : label_visit v s x = Ok s' ->
  lab s' = lab s /\ DQ s s' /\ (NoDup (vis s) -> NoDup (vis s')) /\
  (forall y, In y (vis s') -> y = x \/ In y (vis s)).
Proof.
  unfold label_visit. intros H. rb H as E [fresh m]. injection H as <-.
  apply visit_sound in E. destruct E as [-> ->]. unfold DQ. cbn [lab vis queue].
  split; [reflexivity|]. destruct (mem x (vis s)) eqn:Em; cbn [negb].
  - split; [lia|]. split; auto.
  - split; [rewrite app_length; cbn [length]; lia|]. split.
    + intros Hnd. constructor; [apply mem_false, Em | exact Hnd].
    + intros y [<-|Hy]; auto.
Qed.

Lemma join_loop_vq v : forall fuel s e l r j s',
  join_loop v fuel s e l r = Ok (j, s') -> vis s' = vis s /\ queue s' = queue s.
Proof.
  induction fuel as [|f IH]; intros s e l r j s' H; cbn [join_loop] in H; [discriminate|].
  destruct (Nat.eqb r (vbound v)).
  - rb H as E1 l'. rb H as E2 lb. destruct (is_flagged lb e).
    + injection H as <- <-. auto.
    + rb H as E3 lab'. apply IH in H. exact H.
  - rb H as E1 l'. rb H as E2 lb. destruct (is_flagged lb e).
    + injection H as <- <-. auto.
    + rb H as E3 lab'. apply IH in H. exact H.
Qed.

Lemma relabel_vq v e es et join : forall fuel s inner s',
  relabel v fuel s e es et join inner = Ok s' ->
  DQ s s' /\ (NoDup (vis s) -> NoDup (vis s')) /\
  (forall y, In y (vis s') -> In y (vis s) \/ nth_error (lab s') y = Some (LEdge e es et)) /\
  (forall z, nth_error (lab s) z = Some (LEdge e es et) -> nth_error (lab s') z = Some (LEdge e es et)).
Proof.
  induction fuel as [|f IH]; intros s inner s' H; cbn [relabel] in H; [discriminate|].
  destruct (Nat.eqb inner join).
  - injection H as <-. unfold DQ. repeat split; auto.
  - rb H as E1 s1. rb H as E2 lab'. rb H as E3 fin'. rb H as E4 inner'.
    apply setp_ok in E2. destruct E2 as [Hil ->]. apply setp_ok in E3. destruct E3 as [_ ->].
    apply IH in H. destruct H as [D [N [V K]]]. unfold DQ in D. cbn [vis queue lab] in D, N, V, K.
    assert (Hkeep : forall z, nth_error (lab s1) z = Some (LEdge e es et) ->
              nth_error (upd (lab s1) inner (LEdge e es et)) z = Some (LEdge e es et)).
    { intros z Hz. rewrite nth_error_upd, (proj2 (Nat.ltb_lt _ _) Hil).
      destruct (Nat.eqb inner z); [reflexivity | exact Hz]. }
    assert (Hinner : nth_error (lab s') inner = Some (LEdge e es et)).
    { apply K. apply nth_error_upd_eq. exact Hil. }
    destruct (Nat.eqb inner (vbound v)).
    + injection E1 as <-. split; [exact D|]. split; [exact N|]. split; [exact V|].
      intros z Hz. apply K, Hkeep, Hz.
    + apply label_visit_vq in E1. destruct E1 as [L1 [D1 [N1 V1]]]. unfold DQ in *.
      split; [lia|]. split; [intros Hn; apply N, N1, Hn|]. split.
      * intros y Hy. destruct (V y Hy) as [Hy'|Hy']; [|right; exact Hy'].
        destruct (V1 y Hy') as [->|Hy'']; [right; exact Hinner | left; exact Hy''].
      * intros z Hz. apply K, Hkeep. rewrite L1. exact Hz.
Qed.

Lemma find_join_vq v s e es et s' : find_join v s e es et = Ok s' ->
  DQ s s' /\ (NoDup (vis s) -> NoDup (vis s')) /\
  (forall y, In y (vis s') -> In y (vis s) \/ outerv (lab s') y).
Proof.
  unfold find_join. intros H. rb H as E1 lft. rb H as E2 rgt.
  destruct (Nat.eqb lft rgt).
  - injection H as <-. unfold DQ. repeat split; auto.
  - rb H as E3 lab1. rb H as E4 lab2. rb H as E5 [join s1]. rb H as E6 i1. rb H as E7 s2.
    rb H as E8 i2. rb H as E9 s3. rb H as E10 fin'. injection H as <-.
    apply join_loop_vq in E5. destruct E5 as [V1 Q1]. cbn [vis queue] in V1, Q1.
    apply relabel_vq in E7. destruct E7 as [D2 [N2 [V2 K2]]].
    apply relabel_vq in E9. destruct E9 as [D3 [N3 [V3 K3]]].
    unfold DQ in *. cbn [vis queue lab]. rewrite V1, Q1 in *.
    split; [lia|]. split; [intros Hn; apply N3, N2, Hn|].
    intros y Hy. destruct (V3 y Hy) as [Hy'|Hy']; [|right; exists (LEdge e es et); auto].
    destruct (V2 y Hy') as [Hy''|Hy'']; [left; exact Hy''|].
    right. exists (LEdge e es et). split; [apply K3, Hy'' | reflexivity].
Qed.

(* every marked vertex is outer *)
Definition VI (s : mst) : Prop := NoDup (vis s) /\ forall x, In x (vis s) -> outerv (lab s) x.

(* ------------------------------------------------------------------ *)
(* scan_edge, search, try_start, maximum_matching                      *)

Section MaxTotal.
Variable v : view.
Hypothesis HM : MOk v.
Hypothesis HE : EidOk v.
Hypothesis HC : CapOk v.

Let FJ := find_join_preserves_ok v HE.

Lemma DQ_refl s : DQ s s.
Proof. unfold DQ. lia. Qed.

Lemma scan_edge_full start outer s e :
  SInv v start s -> VI s -> outerv (lab s) outer -> In e (out_edges v outer) ->
  exists b s', scan_edge v start outer s e = Ok (b, s') /\ (b = false -> VI s' /\ DQ s s').
Proof.
  intros SI0 [Vn Vo] Hout He. pose proof SI0 as [pth [rk I]]. pose proof (si_lab _ _ _ _ _ I) as HL.
  assert (Hnb : In (tgt e) (neighbors v outer)) by (unfold neighbors; apply in_map; exact He).
  assert (Hot : tgt e < vbound v) by (apply (nb_lt v HM outer), Hnb).
  pose proof (lo_len HL) as Lm. pose proof (si_lablen _ _ _ _ _ I) as Ll. pose proof (si_finlen _ _ _ _ _ I) as Lf.
  unfold scan_edge. destruct (Nat.eqb_spec (tgt e) outer) as [Heq|Hneq].
  { exists false, s. split; [reflexivity|]. intros _. split; [split; assumption | apply DQ_refl]. }
  rewrite getp_mate by lia. cbn [rbind].
  destruct (m_mate (mate s) (tgt e)) as [mv|] eqn:Hmo.
  - (* other is matched *)
    cbn [andb]. destruct (getp_lt (lab s) (tgt e)) as [lo [Elo Elo']]; [lia|]. rewrite Elo. cbn [rbind].
    destruct (is_outer lo) eqn:Eo.
    + assert (Hoo : outerv (lab s) (tgt e)) by (exists lo; auto).
      destruct (find_join_total v HC start s pth rk I (eid e) outer (tgt e) e He eq_refl eq_refl Hout Hoo) as [s2 E2].
      rewrite E2. cbn [rmap]. exists false, s2. split; [reflexivity|]. intros _.
      destruct (FJ start s (eid e) outer (tgt e) e s2 SI0 Hout Hoo He eq_refl eq_refl (not_eq_sym Hneq) E2) as [_ Hmono].
      apply find_join_vq in E2. destruct E2 as [D [N V]].
      split; [|exact D]. split; [apply N, Vn|].
      intros x Hx. destruct (V x Hx) as [Hx'|Hx']; [apply Hmono, Vo, Hx' | exact Hx'].
    + destruct (GM_lt v (mate s) (tgt e) mv (SI_GM _ _ _ _ _ I) Hmo) as [_ Hmv].
      destruct (getp_lt (lab s) mv) as [lm [Elm Elm']]; [lia|]. rewrite Elm. cbn [rbind].
      destruct (is_outer lm) eqn:Em.
      * cbn [rbind]. destruct (label_visit_total v s mv (HC mv Hmv)) as [s2 E2]. rewrite E2. cbn [rmap].
        exists false, s2. split; [reflexivity|]. intros _.
        apply label_visit_vq in E2. destruct E2 as [L [D [N V]]].
        split; [|exact D]. split; [apply N, Vn|]. rewrite L.
        intros x Hx. destruct (V x Hx) as [->|Hx']; [exists lm; auto | apply Vo, Hx'].
      * rewrite (setp_lt (lab s) mv) by lia. cbn [rbind]. rewrite (setp_lt (fin s) mv) by lia. cbn [rbind].
        set (s1 := mkMst (mate s) (upd (lab s) mv (LVertex outer)) (upd (fin s) mv (tgt e)) (vis s) (queue s) (nedges s)).
        destruct (label_visit_total v s1 mv (HC mv Hmv)) as [s2 E2]. rewrite E2. cbn [rmap].
        exists false, s2. split; [reflexivity|]. intros _.
        apply label_visit_vq in E2. destruct E2 as [L [D [N V]]]. cbn [lab vis queue s1] in L, D, N, V.
        assert (Hnm : ~ outerv (lab s) mv).
        { intros [lb [H1 H2]]. rewrite Elm' in H1. injection H1 as <-. congruence. }
        split; [|exact D]. split; [apply N, Vn|]. rewrite L.
        intros x Hx. apply outerv_upd; [lia|]. destruct (V x Hx) as [->|Hx']; [left; auto|].
        right. split; [intros ->; apply Hnm, Vo, Hx' | apply Vo, Hx'].
  - (* other is unmatched *)
    cbn [andb]. destruct (Nat.eqb_spec (tgt e) start) as [Hst|Hst]; cbn [negb].
    + (* other is the start: a blossom *)
      unfold getp. rewrite Hst, (si_start _ _ _ _ _ I). cbn [rbind is_outer].
      assert (Hoo : outerv (lab s) (tgt e)).
      { rewrite Hst. exists LStart. split; [apply (si_start _ _ _ _ _ I) | reflexivity]. }
      destruct (find_join_total v HC start s pth rk I (eid e) outer (tgt e) e He eq_refl eq_refl Hout Hoo) as [s2 E2].
      rewrite <- Hst, E2. cbn [rmap]. exists false, s2. split; [reflexivity|]. intros _.
      destruct (FJ start s (eid e) outer (tgt e) e s2 SI0 Hout Hoo He eq_refl eq_refl (not_eq_sym Hneq) E2) as [_ Hmono].
      apply find_join_vq in E2. destruct E2 as [D [N V]].
      split; [|exact D]. split; [apply N, Vn|].
      intros x Hx. destruct (V x Hx) as [Hx'|Hx']; [apply Hmono, Vo, Hx' | exact Hx'].
    + (* an augmenting path *)
      rewrite (setp_lt (mate s) (tgt e)) by lia. cbn [rbind].
      assert (Hnotin : ~ In (tgt e) (pth outer)).
      { intros Hin. destruct (SI_tree _ _ _ _ _ outer (tgt e) I Hout Hin) as [Ho|[o [H1 _]]]; [|congruence].
        apply (SI_outer_matched _ _ _ _ _ (tgt e) I Ho Hst). exact Hmo. }
      destruct (augment_valid v (mate s) (lab s) pth rk HL (si_gm _ _ _ _ _ I) outer Hout
                  (S (S (4 * (4 * (vbound v + 2))))) (tgt e)) as [m2 [E3 _]].
      * pose proof (si_rk _ _ _ _ _ I outer Hout). pose proof (nout_le (lab s)). lia.
      * exact Hot.
      * exact Hmo.
      * exact Hnotin.
      * left. exact Hnb.
      * rewrite E3. cbn [rbind]. eexists true, _. split; [reflexivity | discriminate].
Qed.

Lemma DQ_trans s1 s2 s3 : DQ s1 s2 -> DQ s2 s3 -> DQ s1 s3.
Proof. unfold DQ. lia. Qed.

Lemma scan_edges_full start outer : forall es s,
  SInv v start s -> VI s -> outerv (lab s) outer -> (forall e, In e es -> In e (out_edges v outer)) ->
  exists b s', scan_edges v start outer s es = Ok (b, s') /\ (b = false -> VI s' /\ DQ s s').
Proof.
  induction es as [|e rest IH]; intros s SI0 V0 Hout Hes; cbn [scan_edges].
  - exists false, s. split; [reflexivity|]. intros _. split; [exact V0 | apply DQ_refl].
  - destruct (scan_edge_full start outer s e SI0 V0 Hout (Hes e (or_introl eq_refl))) as [b [s1 [E1 H1]]].
    rewrite E1. cbn [rbind]. destruct b.
    + exists true, s1. split; [reflexivity | discriminate].
    + destruct (H1 eq_refl) as [V1 D1].
      destruct (scan_edge_ok v HM FJ start outer s e false s1 SI0 Hout (Hes e (or_introl eq_refl)) E1) as [_ Hf].
      destruct (Hf eq_refl) as [SI1 Hmono].
      destruct (IH s1 SI1 V1 (Hmono outer Hout)) as [b [s2 [E2 H2]]].
      { intros e' He'. apply Hes. right; exact He'. }
      rewrite E2. exists b, s2. split; [reflexivity|]. intros Hb. destruct (H2 Hb) as [V2 D2].
      split; [exact V2 | eapply DQ_trans; eauto].
Qed.

Lemma vis_bound s start : SInv v start s -> VI s -> length (vis s) <= S (vbound v).
Proof.
  intros [pth [rk I]] [Vn Vo]. rewrite <- (seq_length (S (vbound v)) 0).
  apply NoDup_incl_length; [exact Vn|]. intros x Hx. apply in_seq.
  pose proof (outerv_lt _ _ (Vo x Hx)) as H. rewrite (si_lablen _ _ _ _ _ I) in H. lia.
Qed.

Lemma search_total start : forall fuel s,
  SInv v start s -> VI s -> length (queue s) + (S (vbound v) - length (vis s)) < fuel ->
  exists s', search v fuel start s = Ok s'.
Proof.
  induction fuel as [|f IH]; intros s SI0 V0 Hfuel; [lia|]. cbn [search].
  destruct (queue s) as [|outer q] eqn:Eq; [eauto|].
  pose proof SI0 as [pth [rk I]].
  assert (Hout : outerv (lab s) outer) by (apply (si_queue _ _ _ _ _ I); rewrite Eq; left; reflexivity).
  set (sq := mkMst (mate s) (lab s) (fin s) (vis s) q (nedges s)).
  assert (SIq : SInv v start sq).
  { exists pth, rk. apply (SI_same v start s sq pth rk); cbn [mate lab fin nedges queue sq]; auto.
    intros x Hx. apply (si_queue _ _ _ _ _ I). rewrite Eq. right; exact Hx. }
  assert (Vq : VI sq) by exact V0.
  destruct (scan_edges_full start outer (out_edges v outer) sq SIq Vq Hout (fun e He => He)) as [b [s1 [E1 H1]]].
  fold sq. rewrite E1. cbn [rbind]. destruct b; [eauto|].
  destruct (H1 eq_refl) as [V1 D1].
  destruct (scan_edges_ok v HM FJ start outer (out_edges v outer) sq false s1 SIq Hout (fun e He => He) E1) as [_ Hf].
  pose proof (Hf eq_refl) as SI1.
  apply (IH s1 SI1 V1).
  pose proof (vis_bound s start SI0 V0) as B0. pose proof (vis_bound s1 start SI1 V1) as B1.
  unfold DQ in D1. cbn [queue vis sq] in D1. cbn [length] in Hfuel. lia.
Qed.

Lemma try_start_total s start : BInv v s -> start < vbound v -> exists s', try_start v s start = Ok s'.
Proof.
  intros B Hst. pose proof B as [[Lm _] [_ [Hlab Hfl]]].
  unfold try_start. rewrite getp_mate by lia. cbn [rbind].
  destruct (m_mate (mate s) start) as [x|] eqn:Hm; [eauto|].
  rewrite (setp_lt (lab s) start) by (rewrite Hlab, repeat_length; lia). cbn [rbind].
  rewrite (setp_lt (fin s) start) by lia. cbn [rbind].
  rewrite (visit_ok v [] start (HC start Hst)). cbn [mem negb rbind].
  set (s0 := mkMst (mate s) (upd (lab s) start LStart) (upd (fin s) start (vbound v)) [start] [start] (nedges s)).
  pose proof (init_SInv v start s _ [start] B Hst Hm eq_refl) as I0. fold s0 in I0.
  destruct (search_total start (S (S (vbound v))) s0 I0) as [s1 E1].
  - split; cbn [vis lab s0]; [repeat constructor; intros []|].
    intros x [<-|[]]. apply outerv_upd; [rewrite Hlab, repeat_length; lia|]. left. auto.
  - cbn [queue vis length s0]. lia.
  - rewrite E1. cbn [rbind]. eauto.
Qed.

Lemma try_fold_total : forall l s,
  (forall x, In x l -> x < vbound v) -> BInv v s ->
  exists s', fold_left (fun acc start => rbind acc (fun s => try_start v s start)) l (Ok s) = Ok s'.
Proof.
  induction l as [|a t IH]; intros s Hl B; cbn [fold_left]; [eauto|]. cbn [rbind].
  destruct (try_start_total s a B (Hl a (or_introl eq_refl))) as [s1 E1]. rewrite E1.
  apply IH.
  - intros x Hx. apply Hl. right; exact Hx.
  - apply (try_start_ok v HM FJ s a s1 B (Hl a (or_introl eq_refl)) E1).
Qed.

Theorem maximum_matching_total_sec debug :
  exists m n, maximum_matching v debug = Ok (m, n) /\ valid_matching v m n.
Proof.
  assert (Hex : exists r, maximum_matching v debug = Ok r).
  { unfold maximum_matching.
    destruct (greedy_inner_valid v HM) as [m0 [n0 [Eg [Hl0 [Hs0 [Hj0 Hn0]]]]]]. rewrite Eg. cbn [rbind].
    assert (Hlen : Nat.eqb (length (m0 ++ [None])) (S (vbound v)) = true).
    { apply Nat.eqb_eq. rewrite app_length, Hl0. cbn [length]. lia. }
    rewrite Hlen. cbn [negb]. rewrite andb_false_r.
    destruct (try_fold_total (seq 0 (vbound v))
                (mkMst (m0 ++ [None]) (repeat LNone (S (vbound v))) (repeat (S (vbound v) + 1) (S (vbound v))) [] [] n0))
      as [s' E].
    - intros x Hx. apply in_seq in Hx. lia.
    - assert (Hsym : msym (m0 ++ [None])) by (intros i j; rewrite !m_mate_app_None; apply Hs0).
      split; cbn [mate lab fin nedges]; [split; [|split; [|split]]|split; [|split]].
      + rewrite app_length, Hl0. cbn [length]. lia.
      + rewrite m_mate_app_None. unfold m_mate. rewrite (proj2 (nth_error_None m0 (vbound v))) by lia. reflexivity.
      + exact Hsym.
      + intros i j. rewrite m_mate_app_None. intros Hij. apply (Hj0 i j Hij).
      + rewrite csum_app_None, (msym_csum m0 Hs0), Hn0. reflexivity.
      + reflexivity.
      + rewrite repeat_length. reflexivity.
    - rewrite E. cbn [rmap]. eauto. }
  destruct Hex as [[m n] E]. exists m, n. split; [exact E|].
  apply (maximum_matching_valid_sec v HM FJ debug m n E).
Qed.

End MaxTotal.

(* M3 with totality: for a view whose edge ids identify edges and whose visit map has room for
   every index below node_bound, maximum_matching returns, and what it returns is a valid matching *)
Theorem maximum_matching_total v debug :
  MOk v -> EidOk v -> CapOk v ->
  exists m n, maximum_matching v debug = Ok (m, n) /\ valid_matching v m n.
Proof. intros HM HE HC. apply maximum_matching_total_sec; assumption. Qed.


(* CapOk for concrete views, and why it is needed: MOk only puts the nodes inside the visit map,
   but maximum_matching tries every index below node_bound as a start *)
Definition cap_ok_b (v : view) : bool :=
  match vcap v with Some c => Nat.leb (vbound v) c | None => true end.

Lemma cap_ok_b_ok v : cap_ok_b v = true -> CapOk v.
Proof.
  unfold cap_ok_b, CapOk, in_cap. destruct (vcap v) as [c|]; [|auto].
  intros H x Hx. apply Nat.leb_le in H. lia.
Qed.

Theorem maximum_matching_needs_CapOk :
  exists v, MOk v /\ EidOk v /\ maximum_matching v true = Panic.
Proof.
  exists (mkView false 2 (Some 1) [0] [] [] 0 0 []). split; [|split].
  - split; [apply vok_check_ok; vm_compute; reflexivity|].
    intros a [<-|[]]. cbn [vbound]. lia.
  - intros a er b er' Ha. destruct Ha.
  - vm_compute. reflexivity.
Qed.

Print Assumptions maximum_matching_total.
Print Assumptions maximum_matching_needs_CapOk.
