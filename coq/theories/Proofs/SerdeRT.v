(* C17: round trips and cross loading.
   T4  ser_stable then deser_stable: observably the same StableGraph (indices, weights, endpoints,
       vacancies up to the bounds, counters, bounds; adjacency lists as sets).
   T5a ser_graph then deser_stable: a StableGraph with the Graph's indices and no vacancy.
   T5b ser_stable then deser_graph: accepted exactly when there is no vacancy below the bounds. *)
From Coq Require Import Permutation.
From PG Require Import Lib.ListArr Lib.ListExtra Lib.Walk Model.GraphM Model.StableM Model.StableIO
  Model.SerdeM Spec.SerdeSpec Proofs.GraphP Proofs.GraphRE Proofs.GraphRN Proofs.StableP Proofs.StableE
  Proofs.StableT Proofs.SerdeGP Proofs.SerdeIL Proofs.SerdeSP Proofs.SerdeSQ.
Set Implicit Arguments.

(* a StableGraph edge slot as it is written on the wire *)
Definition sedge (e : iedge) : option (nat * nat * nat) :=
  match ewt e with Some w => Some (fst (enode e), snd (enode e), w) | None => None end.

Lemma ser_stable_eq d s :
  ser_stable d s =
  mkWire (somes (map (@nwt _) (firstn (node_bound s) (gnodes (sg s)))))
         (holes_from 0 (map (@nwt _) (firstn (node_bound s) (gnodes (sg s)))))
         d
         (map sedge (firstn (edge_bound s) (gedges (sg s)))).
Proof.
  unfold ser_stable. cbv zeta. rewrite ser_nodes_somes, ser_holes_from. reflexivity.
Qed.

Lemma nsome_zero {A} (l : list (option A)) :
  (forall j v, nth_error l j <> Some (Some v)) -> nsome l = 0.
Proof.
  induction l as [|o l IH]; intros H; [reflexivity|].
  destruct o as [v|]; [exfalso; apply (H 0 v); reflexivity|].
  cbn [nsome]. apply IH. intros j v. apply (H (S j) v).
Qed.

Lemma nsome_firstn_bound {A} (l : list (option A)) b :
  (forall j v, b <= j -> nth_error l j <> Some (Some v)) -> nsome (firstn b l) = nsome l.
Proof.
  intros H. rewrite <- (firstn_skipn b l) at 2. rewrite nsome_app.
  rewrite (@nsome_zero _ (skipn b l)); [lia|].
  intros j v. rewrite nth_error_skipn'. apply H. lia.
Qed.

Lemma bound_unique (f : nat -> option nat) b b' :
  (forall i, f i <> None -> i < b) -> (b = 0 \/ f (b - 1) <> None) ->
  (forall i, f i <> None -> i < b') -> (b' = 0 \/ f (b' - 1) <> None) -> b = b'.
Proof.
  intros H1 H2 H1' H2'.
  destruct H2 as [->|H2], H2' as [->|H2']; auto.
  - specialize (H1 _ H2'). lia.
  - specialize (H1' _ H2). lia.
  - specialize (H1 _ H2'). specialize (H1' _ H2). lia.
Qed.

Lemma s_edge_view s x k i :
  (ewo (sg s) x <> None /\ epo (gedges (sg s)) k x = Some i) <->
  exists t, s_edge s x = Some t /\ sel (fst (fst t), snd (fst t)) k = i.
Proof.
  unfold ewo, epo, s_edge. destruct (nth_error (gedges (sg s)) x) as [e|]; simpl.
  - destruct (ewt e) as [w|]; simpl.
    + split.
      * intros [_ H]. injection H as <-. eexists; split; [reflexivity|]. simpl.
        destruct (enode e); destruct k; reflexivity.
      * intros [t [Ht Hs]]. injection Ht as <-. simpl in Hs. split; [discriminate|].
        f_equal. rewrite <- Hs. destruct (enode e); destruct k; reflexivity.
    + split; [intros [H _]; congruence|intros [t [Ht _]]; discriminate].
  - split; [intros [H _]; congruence|intros [t [Ht _]]; discriminate].
Qed.

Section SerdeRT.
  Variable cap : nat.
  Variable capcheck : bool.

  Notation adj := (@adj (option nat) (option nat) cap).
  Notation GInv := (@GInv nat nat cap).

  Lemma node_bound_le s : node_bound s <= length (gnodes (sg s)).
  Proof.
    destruct (node_bound_spec s) as [_ [E|H]]; [lia|]. apply nwo_Some_lt in H. lia.
  Qed.

  Lemma edge_bound_le s : edge_bound s <= length (gedges (sg s)).
  Proof.
    destruct (edge_bound_spec s) as [_ [E|H]]; [lia|]. apply ewo_Some_lt in H. lia.
  Qed.

  Lemma s_node_bound s i : node_bound s <= i -> s_node s i = None.
  Proof.
    intros H. change (s_node s i) with (nwo (sg s) i).
    destruct (nwo (sg s) i) eqn:E; auto. exfalso.
    assert (Hlt : i < node_bound s) by (apply (proj1 (node_bound_spec s)); congruence). lia.
  Qed.

  Lemma s_edge_live s x : s_edge s x <> None -> ewo (sg s) x <> None.
  Proof.
    unfold s_edge, ewo. destruct (nth_error (gedges (sg s)) x) as [e|]; auto.
    destruct (ewt e); congruence.
  Qed.

  Lemma s_edge_bound s x : edge_bound s <= x -> s_edge s x = None.
  Proof.
    intros H. destruct (s_edge s x) eqn:E; auto. exfalso.
    assert (Hl : ewo (sg s) x <> None) by (apply s_edge_live; congruence).
    apply (proj1 (edge_bound_spec s)) in Hl. lia.
  Qed.

  Lemma slot_at_ser s i :
    slot_at (map (@nwt _) (firstn (node_bound s) (gnodes (sg s)))) i = s_node s i.
  Proof.
    destruct (Nat.lt_ge_cases i (node_bound s)) as [H|H].
    - unfold slot_at, s_node. rewrite nth_error_map, nth_error_firstn_lt by auto.
      destruct (nth_error (gnodes (sg s)) i); reflexivity.
    - rewrite s_node_bound by auto. unfold slot_at.
      rewrite nth_error_map, nth_error_firstn_ge by auto. reflexivity.
  Qed.

  Lemma wedge_at_ser s x :
    wedge_at (map sedge (firstn (edge_bound s) (gedges (sg s)))) x = s_edge s x.
  Proof.
    destruct (Nat.lt_ge_cases x (edge_bound s)) as [H|H].
    - unfold wedge_at, s_edge. rewrite nth_error_map, nth_error_firstn_lt by auto. unfold iedge.
      destruct (nth_error (gedges (sg s)) x); reflexivity.
    - rewrite s_edge_bound by auto. unfold wedge_at.
      rewrite nth_error_map, nth_error_firstn_ge by auto. reflexivity.
  Qed.

  Lemma ser_nodes_length s : length (firstn (node_bound s) (gnodes (sg s))) = node_bound s.
  Proof. rewrite firstn_length. pose proof (node_bound_le s). lia. Qed.

  Lemma ser_edges_length s : length (firstn (edge_bound s) (gedges (sg s))) = edge_bound s.
  Proof. rewrite firstn_length. pose proof (edge_bound_le s). lia. Qed.

  (* a live edge written by the serializer has occupied endpoints *)
  Lemma ser_edge_ends s a b x :
    SInv cap s -> In (Some (a, b, x)) (map sedge (firstn (edge_bound s) (gedges (sg s)))) ->
    (s_node s a <> None /\ a < node_bound s) /\ (s_node s b <> None /\ b < node_bound s).
  Proof.
    intros I Hin. apply in_map_iff in Hin. destruct Hin as [e [He Hin]].
    apply nth_error_In' in Hin. destruct Hin as [y Hy].
    assert (Hyb : y < edge_bound s).
    { apply nth_error_Some_lt in Hy. rewrite ser_edges_length in Hy. auto. }
    rewrite nth_error_firstn_lt in Hy by auto.
    unfold sedge in He. destruct (ewt e) as [w|] eqn:Ew; [|discriminate]. injection He as Ha Hb Hx.
    assert (Hl : ewo (sg s) y <> None) by (rewrite (ewo_nth _ _ Hy), Ew; discriminate).
    assert (E0 : epo (gedges (sg s)) 0 y = Some a) by (rewrite (epo_nth _ 0 _ Hy); simpl; congruence).
    assert (E1 : epo (gedges (sg s)) 1 y = Some b) by (rewrite (epo_nth _ 1 _ Hy); simpl; congruence).
    pose proof (sgi_ends (si_g I) 0 y Hl E0) as La. apply lv_None in La.
    pose proof (sgi_ends (si_g I) 1 y Hl E1) as Lb. apply lv_None in Lb.
    split; (split; [assumption|apply (proj1 (node_bound_spec s)); assumption]).
  Qed.

  Lemma occupied_ser s a :
    s_node s a <> None -> occupied (map (@nwt _) (firstn (node_bound s) (gnodes (sg s)))) a.
  Proof.
    intros H. rewrite <- slot_at_ser in H. unfold slot_at in H. unfold occupied.
    destruct (nth_error _ a) as [[v|]|]; try congruence. eauto.
  Qed.

  Lemma ser_stable_ok d s :
    SInv cap s -> fits cap capcheck (node_bound s) -> fits cap capcheck (edge_bound s) ->
    stable_wire_ok cap capcheck d (ser_stable d s)
      (map (@nwt _) (firstn (node_bound s) (gnodes (sg s)))).
  Proof.
    intros I Hfn Hfe. rewrite ser_stable_eq. unfold stable_wire_ok.
    cbn [w_directed w_edges w_nodes w_holes].
    set (l := map (@nwt _) (firstn (node_bound s) (gnodes (sg s)))).
    assert (Hll : length l = node_bound s) by (unfold l; rewrite map_length; apply ser_nodes_length).
    split; [reflexivity|]. split; [rewrite map_length, ser_edges_length; auto|].
    rewrite somes_holes_length. split; [apply ser_holes_ok|]. split; [apply ser_slots_spec|].
    split; [rewrite Hll; auto|].
    intros a b x Hin. destruct (ser_edge_ends _ _ _ I Hin) as [[La _] [Lb _]].
    split; apply occupied_ser; auto.
  Qed.

  Lemma ser_stable_cap d s :
    SInv cap s ->
    length (w_nodes (ser_stable d s)) + length (w_holes (ser_stable d s)) <= cap /\
    length (w_edges (ser_stable d s)) <= cap.
  Proof.
    intros I. rewrite ser_stable_eq. cbn [w_edges w_nodes w_holes].
    rewrite somes_holes_length, !map_length, ser_nodes_length, ser_edges_length.
    pose proof (node_bound_le s). pose proof (edge_bound_le s).
    pose proof (sgi_ncap (si_g I)). pose proof (sgi_ecap (si_g I)). lia.
  Qed.

  Lemma sedge_ewt (e : iedge) : ewt (edge0 cap (sedge e)) = ewt e.
  Proof. unfold sedge. destruct (ewt e); reflexivity. Qed.

  (* same observable content => same adjacency sets *)
  Lemma adj_same_sets s s' :
    SInv cap s -> SInv cap s' ->
    (forall i, s_node s' i = s_node s i) -> (forall x, s_edge s' x = s_edge s x) ->
    forall k i, s_node s i <> None ->
      exists l l', adj (sg s) k i l /\ adj (sg s') k i l' /\ NoDup l /\ NoDup l' /\
        (forall x, In x l <-> In x l') /\ Permutation l l'.
  Proof.
    intros I I' Hn He k i Hi.
    assert (Li : lv None (sg s) i) by (apply lv_None; exact Hi).
    assert (Li' : lv None (sg s') i) by (apply lv_None; change (s_node s' i <> None); rewrite Hn; exact Hi).
    destruct (sgi_adj (si_g I) k Li) as [l [Hl C]].
    destruct (sgi_adj (si_g I') k Li') as [l' [Hl' C']].
    exists l, l'. split; auto. split; auto.
    pose proof (GI_adj_NoDup (si_g I) Hl) as N1. pose proof (GI_adj_NoDup (si_g I') Hl') as N2.
    assert (Hin : forall x, In x l <-> In x l').
    { intros x. rewrite C, C', !s_edge_view, He. reflexivity. }
    split; auto. split; auto. split; auto. apply NoDup_Permutation; auto.
  Qed.

  (* ---------------- T4 ---------------- *)

  Theorem stable_roundtrip d s :
    SInv cap s ->
    (capcheck = true -> node_bound s < cap /\ edge_bound s < cap) ->
    exists s', deser_stable cap capcheck d (ser_stable d s) = Ok (Some s') /\ SInv cap s' /\
      stable_obs_eq s s' /\
      length (gnodes (sg s')) = node_bound s /\
      length (gedges (sg s')) = edge_bound s /\
      (forall k i, s_node s i <> None ->
         exists l l', adj (sg s) k i l /\ adj (sg s') k i l' /\ NoDup l /\ NoDup l' /\
           (forall x, In x l <-> In x l') /\ Permutation l l').
  Proof.
    intros I Hb.
    assert (Hfn : fits cap capcheck (node_bound s)) by (intros Hc; apply (Hb Hc)).
    assert (Hfe : fits cap capcheck (edge_bound s)) by (intros Hc; apply (Hb Hc)).
    destruct (@deser_stable_accepts cap capcheck d (ser_stable d s) _ (fun _ => ser_stable_cap d I)
                (ser_stable_ok d I Hfn Hfe)) as [s' [Hrun Hl]].
    exists s'. split; auto.
    pose proof Hl as [I' _]. split; auto.
    assert (Hw : w_edges (ser_stable d s) = map sedge (firstn (edge_bound s) (gedges (sg s))))
      by (rewrite ser_stable_eq; reflexivity).
    rewrite Hw in Hl.
    assert (Hn : forall i, s_node s' i = s_node s i).
    { intros i. rewrite (loaded_s_node Hl). apply slot_at_ser. }
    assert (He : forall x, s_edge s' x = s_edge s x).
    { intros x. rewrite (loaded_s_edge Hl). apply wedge_at_ser. }
    destruct (loaded_lengths Hl) as [Hln Hle]. destruct (loaded_counts Hl) as [Hnc Hec].
    rewrite map_length in Hln, Hle. rewrite ser_nodes_length in Hln. rewrite ser_edges_length in Hle.
    split; [|split; [auto|split; [auto|apply adj_same_sets; auto]]].
    split; auto. split; auto.
    destruct (node_bound_spec s) as [B1 B2]. destruct (node_bound_spec s') as [B1' B2'].
    destruct (edge_bound_spec s) as [C1 C2]. destruct (edge_bound_spec s') as [C1' C2'].
    assert (Hew : forall x, ewo (sg s') x = ewo (sg s) x).
    { intros x. specialize (He x). unfold s_edge, ewo in *.
      destruct (nth_error (gedges (sg s')) x) as [e'|], (nth_error (gedges (sg s)) x) as [e|];
        try destruct (ewt e'); try destruct (ewt e); congruence. }
    split; [|split; [|split]].
    - apply (@bound_unique (fun i => nwo (sg s) i)); auto.
      + intros i Hi. apply B1'. change (s_node s' i <> None). rewrite Hn. exact Hi.
      + destruct B2' as [E|H]; [left; auto|right]. change (s_node s (node_bound s' - 1) <> None).
        rewrite <- Hn. exact H.
    - apply (@bound_unique (fun x => ewo (sg s) x)); auto.
      + intros x Hx. apply C1'. rewrite Hew. exact Hx.
      + destruct C2' as [E|H]; [left; auto|right]. rewrite <- Hew. exact H.
    - rewrite Hnc, (si_nc I). cbn [osome]. rewrite Nat.add_0_r, <- firstn_map.
      apply nsome_firstn_bound. intros j v Hj Hnth.
      assert (Hlt : j < node_bound s).
      { apply B1. rewrite nwo_map, Hnth. discriminate. }
      lia.
    - rewrite Hec, (si_ec I), map_map.
      rewrite (map_ext _ (@ewt _) sedge_ewt), <- firstn_map.
      apply nsome_firstn_bound. intros j v Hj Hnth.
      assert (Hlt : j < edge_bound s).
      { apply C1. rewrite ewo_map, Hnth. discriminate. }
      lia.
  Qed.

  (* ---------------- T5a ---------------- *)

  Lemma ser_graph_stable_ok d (g : graph nat nat) :
    GInv g ->
    (capcheck = true -> length (gnodes g) < cap /\ length (gedges g) < cap) ->
    stable_wire_ok cap capcheck d (ser_graph d g) (map Some (map (@nwt _) (gnodes g))).
  Proof.
    intros I Hlt. unfold stable_wire_ok, ser_graph. cbn [w_directed w_edges w_nodes w_holes].
    rewrite !map_length. cbn [length]. rewrite Nat.add_0_r.
    split; [reflexivity|]. split; [intros Hc; apply (Hlt Hc)|].
    split; [split; constructor|]. split.
    - split; [rewrite !map_length; cbn [length]; lia|]. split; [|apply somes_map_Some].
      intros i. split; [|intros []]. intros H. exfalso. eapply nth_error_map_Some_None; eauto.
    - split; [intros Hc; apply (Hlt Hc)|].
      intros a b x Hin. apply in_map_iff in Hin. destruct Hin as [ed [E Hed]].
      injection E as <- <- <-. apply nth_error_In' in Hed. destruct Hed as [y Hy].
      destruct (gi_ends I _ Hy) as [Ha Hb].
      destruct (nth_error_lt_Some _ Ha) as [na Hna]. destruct (nth_error_lt_Some _ Hb) as [nb Hnb].
      split; [exists (nwt na)|exists (nwt nb)]; rewrite !nth_error_map.
      + rewrite Hna. reflexivity.
      + rewrite Hnb. reflexivity.
  Qed.

  Theorem graph_loads_as_stable d (g : graph nat nat) :
    GInv g ->
    (capcheck = true -> length (gnodes g) < cap /\ length (gedges g) < cap) ->
    exists s', deser_stable cap capcheck d (ser_graph d g) = Ok (Some s') /\ SInv cap s' /\
      cross_obs_eq g s' /\
      length (gnodes (sg s')) = length (gnodes g) /\
      length (gedges (sg s')) = length (gedges g) /\
      (forall i, i < length (gnodes g) -> s_node s' i <> None) /\
      (forall x, x < length (gedges g) -> s_edge s' x <> None).
  Proof.
    intros I Hlt.
    assert (Hcap : capcheck = false ->
              length (w_nodes (ser_graph d g)) + length (w_holes (ser_graph d g)) <= cap /\
              length (w_edges (ser_graph d g)) <= cap).
    { intros _. unfold ser_graph. cbn [w_nodes w_holes w_edges]. rewrite !map_length. cbn [length].
      pose proof (gi_ncap I). pose proof (gi_ecap I). lia. }
    destruct (deser_stable_accepts Hcap (ser_graph_stable_ok d I Hlt)) as [s' [Hrun Hl]].
    exists s'. split; auto. pose proof Hl as [I' _]. split; auto.
    unfold ser_graph in Hl. cbn [w_edges] in Hl.
    assert (Hn : forall i, s_node s' i = g_node g i).
    { intros i. rewrite (loaded_s_node Hl). unfold slot_at, g_node. rewrite !nth_error_map.
      destruct (nth_error (gnodes g) i); reflexivity. }
    assert (He : forall x, s_edge s' x = g_edge g x).
    { intros x. rewrite (loaded_s_edge Hl). unfold wedge_at, g_edge. rewrite nth_error_map.
      destruct (nth_error (gedges g) x); reflexivity. }
    destruct (loaded_lengths Hl) as [Hln Hle]. destruct (loaded_counts Hl) as [Hnc Hec].
    repeat rewrite map_length in Hln. repeat rewrite map_length in Hle.
    split; [split; [auto|split; [auto|split]]|].
    - rewrite Hnc. rewrite nsome_map_all; [apply map_length|]. intros; discriminate.
    - rewrite Hec, map_map. rewrite nsome_map_all; auto. intros; discriminate.
    - split; auto. split; auto. split.
      + intros i Hi. rewrite Hn. unfold g_node. destruct (nth_error_lt_Some _ Hi) as [n ->]. discriminate.
      + intros x Hx. rewrite He. unfold g_edge. destruct (nth_error_lt_Some _ Hx) as [e ->]. discriminate.
  Qed.

  (* ---------------- T5b ---------------- *)

  Definition no_vacancy (s : sgraph) : Prop :=
    (forall i, i < node_bound s -> s_node s i <> None) /\
    (forall x, x < edge_bound s -> s_edge s x <> None).

  Section AsGraph.
    Variables (d : bool) (s : sgraph).
    Hypothesis I : SInv cap s.
    Let l := map (@nwt _) (firstn (node_bound s) (gnodes (sg s))).
    Let E := firstn (edge_bound s) (gedges (sg s)).

    Lemma l_length : length l = node_bound s.
    Proof. unfold l. rewrite map_length. apply ser_nodes_length. Qed.

    Lemma l_nth i : i < node_bound s -> nth_error l i = Some (s_node s i).
    Proof.
      intros Hi. unfold l, s_node. rewrite nth_error_map, nth_error_firstn_lt by auto.
      destruct (nth_error (gnodes (sg s)) i) eqn:En; [reflexivity|].
      apply nth_error_None in En. pose proof (node_bound_le s). lia.
    Qed.

    Lemma E_nth x : x < edge_bound s -> exists e, nth_error E x = Some e /\ sedge e = s_edge s x.
    Proof.
      intros Hx. unfold E, s_edge. rewrite nth_error_firstn_lt by auto.
      destruct (nth_error (gedges (sg s)) x) as [e|] eqn:En.
      - exists e. split; auto.
      - apply nth_error_None in En. pose proof (edge_bound_le s). lia.
    Qed.

    Lemma no_holes_iff : holes_from 0 l = [] <-> (forall i, i < node_bound s -> s_node s i <> None).
    Proof.
      rewrite holes_from_nil_iff. split.
      - intros H i Hi Hn. apply (H i). rewrite l_nth by auto. congruence.
      - intros H i Hn. assert (Hi : i < node_bound s).
        { rewrite <- l_length. eapply nth_error_Some_lt; eauto. }
        rewrite l_nth in Hn by auto. injection Hn as Hn. apply (H i Hi Hn).
    Qed.

    Lemma no_none_edges_iff :
      (forall e, In e (map sedge E) -> e <> None) <-> (forall x, x < edge_bound s -> s_edge s x <> None).
    Proof.
      split.
      - intros H x Hx. destruct (E_nth Hx) as [e [He <-]]. apply H. apply in_map.
        apply nth_error_In' . eauto.
      - intros H o Ho. apply in_map_iff in Ho. destruct Ho as [e [<- Hin]].
        apply nth_error_In' in Hin. destruct Hin as [x Hx].
        assert (Hxb : x < edge_bound s).
        { apply nth_error_Some_lt in Hx. unfold E in Hx. rewrite ser_edges_length in Hx. auto. }
        destruct (E_nth Hxb) as [e' [He' Hs]]. assert (e' = e) by (unfold iedge in *; congruence). subst e'.
        rewrite Hs. apply H. auto.
    Qed.

    Lemma somes_full : holes_from 0 l = [] -> length (somes l) = node_bound s.
    Proof.
      intros H. pose proof (somes_holes_length l 0) as Hs. rewrite H in Hs. cbn [length] in Hs.
      rewrite <- l_length. lia.
    Qed.

    Lemma stable_graph_wire_iff :
      graph_wire_ok cap capcheck d (ser_stable d s) <->
      no_vacancy s /\ fits cap capcheck (node_bound s) /\ fits cap capcheck (edge_bound s).
    Proof.
      rewrite ser_stable_eq. unfold graph_wire_ok. cbn [w_directed w_edges w_nodes w_holes].
      fold l. fold E.
      assert (HlE : length (map sedge E) = edge_bound s) by (rewrite map_length; apply ser_edges_length).
      rewrite HlE. split.
      - intros [Hh [Hnone [_ [Hfn [Hfe _]]]]]. split; [split|split; auto].
        + apply no_holes_iff; auto.
        + apply no_none_edges_iff; auto.
        + rewrite <- (somes_full Hh). auto.
      - intros [[Hv1 Hv2] [Hfn Hfe]].
        assert (Hh : holes_from 0 l = []) by (apply no_holes_iff; auto).
        split; auto. split; [apply no_none_edges_iff; auto|]. split; [reflexivity|].
        rewrite (somes_full Hh). split; auto. split; auto.
        intros a b x Hin. destruct (@ser_edge_ends s a b x I Hin) as [[_ La] [_ Lb]]. auto.
    Qed.

    Theorem stable_loads_as_graph_iff :
      (exists g', deser_graph cap capcheck d (ser_stable d s) = Some g') <->
      no_vacancy s /\ fits cap capcheck (node_bound s) /\ fits cap capcheck (edge_bound s).
    Proof.
      rewrite <- stable_graph_wire_iff. split.
      - intros [g' H]. eapply deser_graph_some_inv; eauto.
      - intros H. destruct (@deser_graph_accepts cap capcheck d (ser_stable d s)) as [g' [Hr _]]; eauto.
        intros _. pose proof (ser_stable_cap d I) as [H1 H2]. lia.
    Qed.

    Theorem stable_loads_as_graph g' :
      deser_graph cap capcheck d (ser_stable d s) = Some g' ->
      GInv g' /\ cross_obs_eq g' s /\
      length (gnodes g') = node_bound s /\ length (gedges g') = edge_bound s.
    Proof.
      intros Hrun. pose proof (@deser_graph_some_inv cap capcheck d _ _ Hrun) as Hok.
      destruct (@deser_graph_accepts cap capcheck d (ser_stable d s)) as [g2 [Hr [Ig [Hw He]]]]; auto.
      { intros _. pose proof (ser_stable_cap d I) as [H1 H2]. lia. }
      rewrite Hrun in Hr. injection Hr as <-.
      apply stable_graph_wire_iff in Hok. destruct Hok as [[Hv1 Hv2] _].
      rewrite ser_stable_eq in Hw, He. cbn [w_nodes w_edges] in Hw, He. fold l in Hw. fold E in He.
      assert (Hh : holes_from 0 l = []) by (apply no_holes_iff; auto).
      assert (Hnl : length (gnodes g') = node_bound s).
      { rewrite <- (map_length (@nwt _)), Hw. apply somes_full; auto. }
      assert (Hel : length (gedges g') = edge_bound s).
      { rewrite <- (map_length wedge), He, map_length. apply ser_edges_length. }
      assert (Hn : forall i, s_node s i = g_node g' i).
      { intros i. unfold g_node. rewrite <- nth_error_map, Hw.
        destruct (Nat.lt_ge_cases i (node_bound s)) as [Hi|Hi].
        - pose proof (l_nth Hi) as Hli. rewrite (somes_no_holes l Hh), nth_error_map in Hli.
          destruct (nth_error (somes l) i) as [v|]; simpl in Hli; [|discriminate].
          injection Hli as <-. reflexivity.
        - rewrite s_node_bound by auto. symmetry. apply nth_error_oob. rewrite (somes_full Hh). auto. }
      assert (Hed : forall x, s_edge s x = g_edge g' x).
      { intros x. unfold g_edge.
        apply (f_equal (fun l => nth_error l x)) in He. rewrite !nth_error_map in He.
        destruct (Nat.lt_ge_cases x (edge_bound s)) as [Hx|Hx].
        - destruct (E_nth Hx) as [e [Hne Hs]]. unfold iedge in *. rewrite Hne in He. rewrite <- Hs.
          destruct (nth_error (gedges g') x); simpl in He; congruence.
        - rewrite s_edge_bound by auto.
          rewrite (nth_error_oob (gedges g') x) by lia. reflexivity. }
      split; auto. split; [|auto]. split; auto. split; auto.
      destruct (node_bound_spec s) as [B1 _]. destruct (edge_bound_spec s) as [C1 _].
      split.
      - rewrite Hnl, (si_nc I). cbn [osome]. rewrite Nat.add_0_r.
        rewrite <- (@nsome_firstn_bound _ _ (node_bound s)).
        + rewrite firstn_map. fold l. rewrite (somes_no_holes l Hh), nsome_map_all.
          * apply somes_full; auto.
          * intros; discriminate.
        + intros j v Hj Hnth. assert (j < node_bound s); [|lia].
          apply B1. rewrite nwo_map, Hnth. discriminate.
      - rewrite Hel, (si_ec I).
        rewrite <- (@nsome_firstn_bound _ _ (edge_bound s)).
        + rewrite firstn_map. fold E. rewrite nsome_map_all.
          * apply ser_edges_length.
          * intros e He' Hw'. apply nth_error_In' in He'. destruct He' as [x Hx].
            assert (Hxb : x < edge_bound s).
            { apply nth_error_Some_lt in Hx. unfold E in Hx. rewrite ser_edges_length in Hx. auto. }
            destruct (E_nth Hxb) as [e' [He2 Hs]]. assert (e' = e) by (unfold iedge in *; congruence). subst e'.
            apply (Hv2 x Hxb). rewrite <- Hs. unfold sedge. rewrite Hw'. reflexivity.
        + intros j v Hj Hnth. assert (j < edge_bound s); [|lia].
          apply C1. rewrite ewo_map, Hnth. discriminate.
    Qed.
  End AsGraph.
End SerdeRT.
