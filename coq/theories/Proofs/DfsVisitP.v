(* depth_first_search (dfsvisit.rs) produces a trace accepted by the machine of
   Spec/DfsEvents.v, never panics (unless the visitor prunes on Finish) and never runs
   out of fuel. *)
From PG Require Import Lib.Io Model.View Model.Traversal Spec.Reach Spec.DfsEvents
                       Proofs.TravBase Proofs.DfsEventsP.

Section Refine.
Variable v : view.
Variable ctl : dfs_event -> control.
Variable debug : bool.
Variable starts : list nat.
Hypothesis Hcap : forall a b, step v a b -> in_cap v b.
Hypothesis Hnodes : nodes_ok v.
Hypothesis Hfin : forall u t, ctl (EvFinish u t) <> CPrune.

Notation estep := (ev_step v ctl starts).
Notation erun := (ev_run v ctl starts).
Notation TI := (Tinv v starts).

(* the machine state matching a model state, given the open stack and the pending node *)
Definition St (s : dvst) (o : list (nat * list nat)) (p : option nat) : tst :=
  mkT o (vdisc s) (vfin s) (vtime s) p.

(* ------------------------------------------------------------------ *)
(* Fuel: every undiscovered view node may cost its out-degree plus 2   *)

Definition psi (m : vmap) : nat := usum (fun a => outdeg v a + 2) m (vnodes v).

Lemma psi_app_le E m : psi (E ++ m) <= psi m.
Proof.
  induction E as [|a t IH]; cbn [app]; [lia|].
  pose proof (usum_mark_le (fun a => outdeg v a + 2) (t ++ m) a (vnodes v)). unfold psi in *. lia.
Qed.

Lemma fuel_vis m u f :
  psi m + 1 <= S f -> (In u (vnodes v) \/ psi m + 3 <= S f) -> ~ In u m ->
  outdeg v u + psi (u :: m) + 2 <= f.
Proof.
  intros H1 H2 Hu. apply mem_false in Hu.
  destruct (in_dec Nat.eq_dec u (vnodes v)) as [Hin|Hout].
  - pose proof (usum_mark_in (fun a => outdeg v a + 2) m u (vnodes v) Hin Hu) as H.
    cbn beta in H. unfold psi in *. lia.
  - destruct H2 as [H2|H2]; [contradiction|].
    assert (E : outdeg v u = 0).
    { unfold outdeg. destruct (neighbors v u) as [|b t] eqn:Eb; [reflexivity|].
      exfalso; apply Hout, (Hnodes u b). rewrite Eb. left; reflexivity. }
    pose proof (psi_app_le [u] m) as H. cbn [app] in H. lia.
Qed.

Lemma erun_psi s o p new s' o' p' : erun (St s o p) new (St s' o' p') -> psi (vdisc s') <= psi (vdisc s).
Proof.
  intros R. apply ev_run_disc in R. cbn [St tdisc] in R. rewrite R. apply psi_app_le.
Qed.

Lemma erun_disc_mono s o p new s' o' p' x :
  erun (St s o p) new (St s' o' p') -> In x (vdisc s) -> In x (vdisc s').
Proof.
  intros R Hx. apply ev_run_disc in R. cbn [St tdisc] in R. rewrite R. apply in_or_app; right; exact Hx.
Qed.

(* ------------------------------------------------------------------ *)
(* Outcomes of a model call, and how they compose                      *)

(* r succeeds; its new events are accepted from st0; without a break the machine ends with
   open stack fo and nothing pending, and the model state satisfies Post *)
Definition outcome (s : dvst) (st0 : tst) (fo : list (nat * list nat)) (Post : dvst -> Prop)
                   (r : res (bool * dvst)) : Prop :=
  exists brk s' new, r = Ok (brk, s') /\ vevs s' = rev new ++ vevs s /\ brk_ok ctl brk new /\
    if brk then exists st', erun st0 new st' else erun st0 new (St s' fo None) /\ Post s'.

Definition seq_brk (r : res (bool * dvst)) (k : dvst -> res (bool * dvst)) : res (bool * dvst) :=
  rbind r (fun '(brk, s2) => if brk then Ok (true, s2) else k s2).

Lemma outcome_ret s fo (Post : dvst -> Prop) :
  Post s -> outcome s (St s fo None) fo Post (Ok (false, s)).
Proof.
  intros HP. exists false, s, []. split; [reflexivity|]. split; [reflexivity|].
  split; [constructor|]. split; [constructor | exact HP].
Qed.

Lemma outcome_break s s1 st0 st1 e fo Post :
  estep st0 e st1 -> vevs s1 = e :: vevs s -> ctl e = CBreak ->
  outcome s st0 fo Post (Ok (true, s1)).
Proof.
  intros Hs Hv Hc. exists true, s1, [e]. split; [reflexivity|]. split; [exact Hv|]. split.
  - exists [], e. split; [reflexivity|]. split; [constructor | exact Hc].
  - exists st1. apply ev_run_one; exact Hs.
Qed.

Lemma outcome_cons s s1 st0 st1 e fo Post r :
  estep st0 e st1 -> vevs s1 = e :: vevs s -> ctl e <> CBreak ->
  outcome s1 st1 fo Post r -> outcome s st0 fo Post r.
Proof.
  intros Hs Hv Hc [brk [s' [new [Er [Ev [Hb Hr]]]]]].
  exists brk, s', (e :: new). split; [exact Er|]. split.
  - rewrite Ev, Hv. cbn [rev]. rewrite <- app_assoc. reflexivity.
  - split.
    + destruct brk; cbn [brk_ok] in *.
      * destruct Hb as [pre [e' [-> [Hq Hc']]]]. exists (e :: pre), e'.
        split; [reflexivity|]. split; [constructor; assumption | exact Hc'].
      * constructor; assumption.
    + destruct brk.
      * destruct Hr as [st' Hr]. exists st'. econstructor; [exact Hs | exact Hr].
      * destruct Hr as [Hr HP]. split; [econstructor; [exact Hs | exact Hr] | exact HP].
Qed.

Lemma quiet_app l1 l2 : quiet ctl l1 -> quiet ctl l2 -> quiet ctl (l1 ++ l2).
Proof. intros H1 H2. apply Forall_app. split; assumption. Qed.

Lemma outcome_seq s st0 fo1 fo2 (P1 P2 : dvst -> Prop) r1 k :
  outcome s st0 fo1 P1 r1 ->
  (forall s2 new, erun st0 new (St s2 fo1 None) -> P1 s2 -> outcome s2 (St s2 fo1 None) fo2 P2 (k s2)) ->
  outcome s st0 fo2 P2 (seq_brk r1 k).
Proof.
  intros [brk [s2 [new1 [Er [Ev [Hb Hr]]]]]] Hk. unfold seq_brk. rewrite Er. cbn [rbind].
  destruct brk.
  - exists true, s2, new1. split; [reflexivity|]. split; [exact Ev|]. split; [exact Hb | exact Hr].
  - destruct Hr as [Hr HP1]. destruct (Hk s2 new1 Hr HP1) as [brk [s' [new2 [Er2 [Ev2 [Hb2 Hr2]]]]]].
    exists brk, s', (new1 ++ new2). split; [exact Er2|]. split.
    + rewrite Ev2, Ev, rev_app_distr, <- app_assoc. reflexivity.
    + cbn [brk_ok] in Hb. split.
      * destruct brk; cbn [brk_ok] in *.
        -- destruct Hb2 as [pre [e' [-> [Hq Hc']]]]. exists (new1 ++ pre), e'.
           split; [rewrite app_assoc; reflexivity|]. split; [apply quiet_app; assumption | exact Hc'].
        -- apply quiet_app; assumption.
      * destruct brk.
        -- destruct Hr2 as [st' Hr2]. exists st'. eapply ev_run_app; [exact Hr | exact Hr2].
        -- destruct Hr2 as [Hr2 HP2]. split; [eapply ev_run_app; [exact Hr | exact Hr2] | exact HP2].
Qed.

Lemma outcome_post s st0 fo (P Q : dvst -> Prop) r :
  outcome s st0 fo P r ->
  (forall s' new, erun st0 new (St s' fo None) -> P s' -> Q s') ->
  outcome s st0 fo Q r.
Proof.
  intros [brk [s' [new [Er [Ev [Hb Hr]]]]]] HPQ. exists brk, s', new.
  split; [exact Er|]. split; [exact Ev|]. split; [exact Hb|].
  destruct brk; [exact Hr|]. destruct Hr as [Hr HP]. split; [exact Hr | eapply HPQ; eauto].
Qed.

(* ------------------------------------------------------------------ *)
(* The model functions, one layer unfolded                             *)

Definition vis_finish (u : nat) (s2 : dvst) : res (bool * dvst) :=
  rbind (visit v (vfin s2) u) (fun '(first, fin') =>
    if andb debug (negb first) then Panic else
    let s4 := mkDv (vdisc s2) fin' (S (vtime s2)) (EvFinish u (vtime s2) :: vevs s2) in
    match ctl (EvFinish u (vtime s2)) with
    | CBreak => Ok (true, s4)
    | CPrune => Panic
    | CContinue => Ok (false, s4)
    end).

Lemma vis_unfold f u s :
  dfs_visitor (S f) v ctl debug u s =
  rbind (visit v (vdisc s) u) (fun '(fresh, disc') =>
    if negb fresh then Ok (false, s) else
    let s1 := mkDv disc' (vfin s) (S (vtime s)) (EvDiscover u (vtime s) :: vevs s) in
    match ctl (EvDiscover u (vtime s)) with
    | CContinue => seq_brk (dfs_neighbors f v ctl debug u (neighbors v u) s1) (vis_finish u)
    | CPrune => seq_brk (Ok (false, s1)) (vis_finish u)
    | CBreak => Ok (true, s1)
    end).
Proof.
  cbn [dfs_visitor]. destruct (visit v (vdisc s) u) as [[fresh disc']| |]; cbn [rbind]; try reflexivity.
  destruct fresh; cbn [negb]; [|reflexivity]. unfold emit, seq_brk, vis_finish.
  destruct (ctl (EvDiscover u (vtime s))); reflexivity.
Qed.

Lemma nb_unfold_nil f u s : dfs_neighbors (S f) v ctl debug u [] s = Ok (false, s).
Proof. reflexivity. Qed.

Lemma nb_unfold_cons f u w rest s :
  dfs_neighbors (S f) v ctl debug u (w :: rest) s =
  if negb (mem w (vdisc s)) then
    let s1 := mkDv (vdisc s) (vfin s) (vtime s) (EvTree u w :: vevs s) in
    match ctl (EvTree u w) with
    | CContinue => seq_brk (dfs_visitor f v ctl debug w s1) (dfs_neighbors f v ctl debug u rest)
    | CPrune => dfs_neighbors f v ctl debug u rest s1
    | CBreak => Ok (true, s1)
    end
  else
    let ev := if negb (mem w (vfin s)) then EvBack u w else EvCross u w in
    let s1 := mkDv (vdisc s) (vfin s) (vtime s) (ev :: vevs s) in
    match ctl ev with
    | CBreak => Ok (true, s1)
    | _ => dfs_neighbors f v ctl debug u rest s1
    end.
Proof.
  cbn [dfs_neighbors]. unfold is_visited, emit, seq_brk.
  destruct (negb (mem w (vdisc s))).
  - destruct (ctl (EvTree u w)); reflexivity.
  - destruct (negb (mem w (vfin s))); reflexivity.
Qed.

(* ------------------------------------------------------------------ *)
(* The two mutually recursive functions                                *)

Lemma vis_finish_ok u s2 o :
  TI (St s2 ((u, []) :: o) None) -> in_cap v u ->
  outcome s2 (St s2 ((u, []) :: o) None) o (fun s' => In u (vdisc s')) (vis_finish u s2).
Proof.
  intros I Hc. unfold vis_finish.
  assert (Hnf : ~ In u (vfin s2)) by (apply (ti_open_fin _ _ _ I); left; reflexivity).
  assert (Hud : In u (vdisc s2)) by (apply (ti_open_disc _ _ _ I); left; reflexivity).
  rewrite (visit_ok v (vfin s2) u Hc). apply mem_false in Hnf. rewrite Hnf.
  cbn [rbind negb]. rewrite andb_false_r.
  set (e := EvFinish u (vtime s2)).
  set (s4 := mkDv (vdisc s2) (u :: vfin s2) (S (vtime s2)) (e :: vevs s2)).
  assert (Hstep : estep (St s2 ((u, []) :: o) None) e (St s4 o None)).
  { exact (es_finish v ctl starts u o (vdisc s2) (vfin s2) (vtime s2)). }
  destruct (ctl e) eqn:Ec.
  - apply outcome_cons with (s1 := s4) (st1 := St s4 o None) (e := e);
      [exact Hstep | reflexivity | congruence |].
    apply outcome_ret. exact Hud.
  - exfalso. exact (Hfin u (vtime s2) Ec).
  - eapply outcome_break; [exact Hstep | reflexivity | exact Ec].
Qed.

Definition vis_spec (fuel : nat) : Prop := forall u s o p,
  TI (St s o p) -> in_cap v u -> ~ In u (vdisc s) ->
  (p = Some u \/ (p = None /\ o = [] /\ In u starts)) ->
  psi (vdisc s) + 1 <= fuel -> (In u (vnodes v) \/ psi (vdisc s) + 3 <= fuel) ->
  outcome s (St s o p) o (fun s' => In u (vdisc s')) (dfs_visitor fuel v ctl debug u s).

Definition nb_spec (fuel : nat) : Prop := forall u ws s o,
  TI (St s ((u, ws) :: o) None) -> length ws + psi (vdisc s) + 2 <= fuel ->
  outcome s (St s ((u, ws) :: o) None) ((u, []) :: o) (fun _ => True)
          (dfs_neighbors fuel v ctl debug u ws s).

Lemma specs : forall fuel, vis_spec fuel /\ nb_spec fuel.
Proof.
  induction fuel as [|f [IHv IHn]].
  - split; [intros u s o p _ _ _ _ H _; lia | intros u ws s o _ H; lia].
  - split.
    + (* dfs_visitor *)
      intros u s o p I Hc Hu Hp Hf1 Hf2.
      rewrite vis_unfold, (visit_ok v (vdisc s) u Hc).
      pose proof Hu as Hm. apply mem_false in Hm. rewrite Hm. cbn [rbind negb].
      set (e := EvDiscover u (vtime s)).
      set (s1 := mkDv (u :: vdisc s) (vfin s) (S (vtime s)) (e :: vevs s)).
      assert (Hstep : estep (St s o p) e
                (St s1 ((u, if is_prune (ctl e) then [] else neighbors v u) :: o) None)).
      { exact (es_discover v ctl starts u o (vdisc s) (vfin s) (vtime s) p Hu Hp). }
      pose proof (ev_step_inv _ _ _ _ _ _ I Hstep) as I1.
      pose proof (fuel_vis _ _ _ Hf1 Hf2 Hu) as Hfn.
      destruct (ctl e) eqn:Ec; cbn [is_prune] in Hstep, I1.
      * apply outcome_cons with (s1 := s1) (st1 := St s1 ((u, neighbors v u) :: o) None) (e := e);
          [exact Hstep | reflexivity | congruence |].
        eapply outcome_seq.
        -- apply IHn; [exact I1|]. cbn [vdisc s1]. unfold outdeg in Hfn. lia.
        -- intros s2 new R _. apply vis_finish_ok; [|exact Hc]. eapply ev_run_inv; [exact I1 | exact R].
      * apply outcome_cons with (s1 := s1) (st1 := St s1 ((u, []) :: o) None) (e := e);
          [exact Hstep | reflexivity | congruence |].
        eapply outcome_seq.
        -- apply outcome_ret with (Post := fun _ => True). exact Logic.I.
        -- intros s2 new R _. apply vis_finish_ok; [|exact Hc]. eapply ev_run_inv; [exact I1 | exact R].
      * eapply outcome_break; [exact Hstep | reflexivity | exact Ec].
    + (* dfs_neighbors *)
      intros u ws s o I Hf. destruct ws as [|w rest].
      * rewrite nb_unfold_nil. apply outcome_ret. exact Logic.I.
      * rewrite nb_unfold_cons. cbn [length] in Hf.
        assert (Hsw : step v u w) by (apply (ti_frames _ _ _ I u (w :: rest)); left; reflexivity).
        destruct (mem w (vdisc s)) eqn:Ed; cbn [negb].
        -- (* discovered: back or cross edge *)
           apply mem_In in Ed.
           assert (Hedge : exists e, (if negb (mem w (vfin s)) then EvBack u w else EvCross u w) = e /\
                     estep (St s ((u, w :: rest) :: o) None) e (St s ((u, rest) :: o) None)).
           { destruct (mem w (vfin s)) eqn:Ef; cbn [negb]; eexists; (split; [reflexivity|]).
             - apply mem_In in Ef. exact (es_cross v ctl starts u w rest o (vdisc s) (vfin s) (vtime s) Ef).
             - apply mem_false in Ef.
               exact (es_back v ctl starts u w rest o (vdisc s) (vfin s) (vtime s) Ed Ef). }
           destruct Hedge as [e [-> Hstep]].
           pose proof (ev_step_inv _ _ _ _ _ _ I Hstep) as I1.
           set (s1 := mkDv (vdisc s) (vfin s) (vtime s) (e :: vevs s)).
           assert (Hrest : outcome s1 (St s1 ((u, rest) :: o) None) ((u, []) :: o) (fun _ => True)
                             (dfs_neighbors f v ctl debug u rest s1)).
           { apply (IHn u rest s1 o); [exact I1 | cbn [vdisc s1]; lia]. }
           destruct (ctl e) eqn:Ec.
           ++ apply outcome_cons with (s1 := s1) (st1 := St s1 ((u, rest) :: o) None) (e := e);
                [exact Hstep | reflexivity | congruence | exact Hrest].
           ++ apply outcome_cons with (s1 := s1) (st1 := St s1 ((u, rest) :: o) None) (e := e);
                [exact Hstep | reflexivity | congruence | exact Hrest].
           ++ eapply outcome_break; [exact Hstep | reflexivity | exact Ec].
        -- (* undiscovered: tree edge *)
           apply mem_false in Ed. set (e := EvTree u w).
           assert (Hstep : estep (St s ((u, w :: rest) :: o) None) e
                     (St s ((u, rest) :: o) (if is_continue (ctl e) then Some w else None))).
           { exact (es_tree v ctl starts u w rest o (vdisc s) (vfin s) (vtime s) Ed). }
           pose proof (ev_step_inv _ _ _ _ _ _ I Hstep) as I1.
           set (s1 := mkDv (vdisc s) (vfin s) (vtime s) (e :: vevs s)).
           destruct (ctl e) eqn:Ec; cbn [is_continue] in Hstep, I1.
           ++ apply outcome_cons with (s1 := s1) (st1 := St s1 ((u, rest) :: o) (Some w)) (e := e);
                [exact Hstep | reflexivity | congruence |].
              eapply outcome_seq.
              ** apply (IHv w s1 ((u, rest) :: o) (Some w)); cbn [vdisc s1].
                 --- exact I1.
                 --- apply (Hcap u w Hsw).
                 --- exact Ed.
                 --- left; reflexivity.
                 --- lia.
                 --- left. apply (Hnodes u w Hsw).
              ** intros s2 new R _. apply IHn; [eapply ev_run_inv; [exact I1 | exact R]|].
                 pose proof (erun_psi _ _ _ _ _ _ _ R) as Hpsi. cbn [vdisc s1] in Hpsi. lia.
           ++ apply outcome_cons with (s1 := s1) (st1 := St s1 ((u, rest) :: o) None) (e := e);
                [exact Hstep | reflexivity | congruence |].
              apply (IHn u rest s1 o); [exact I1 | cbn [vdisc s1]; lia].
           ++ eapply outcome_break; [exact Hstep | reflexivity | exact Ec].
Qed.

(* ------------------------------------------------------------------ *)
(* dfs_search and depth_first_search                                   *)

Lemma vis_seen fuel u s : 1 <= fuel -> in_cap v u -> In u (vdisc s) ->
  dfs_visitor fuel v ctl debug u s = Ok (false, s).
Proof.
  intros Hf Hc Hu. destruct fuel as [|f]; [lia|].
  rewrite vis_unfold, (visit_ok v (vdisc s) u Hc). apply mem_In in Hu. rewrite Hu. reflexivity.
Qed.

Lemma search_spec fuel : forall roots s,
  (forall r, In r roots -> In r starts /\ in_cap v r) ->
  TI (St s [] None) -> psi (vdisc s) + 3 <= fuel ->
  outcome s (St s [] None) [] (fun s' => forall r, In r roots -> In r (vdisc s'))
          (dfs_search fuel v ctl debug roots s).
Proof.
  induction roots as [|r rest IH]; intros s Hr I Hf.
  - cbn [dfs_search]. apply outcome_ret. intros r [].
  - change (dfs_search fuel v ctl debug (r :: rest) s)
      with (seq_brk (dfs_visitor fuel v ctl debug r s) (dfs_search fuel v ctl debug rest)).
    destruct (Hr r (or_introl eq_refl)) as [Hrs Hrc].
    assert (Hrest : forall x, In x rest -> In x starts /\ in_cap v x)
      by (intros x Hx; apply Hr; right; exact Hx).
    assert (Hcont : forall s2 new, erun (St s [] None) new (St s2 [] None) -> In r (vdisc s2) ->
              outcome s2 (St s2 [] None) [] (fun s' => forall x, In x (r :: rest) -> In x (vdisc s'))
                      (dfs_search fuel v ctl debug rest s2)).
    { intros s2 new R Hr2. eapply outcome_post.
      - apply IH; [exact Hrest | eapply ev_run_inv; [exact I | exact R]|].
        pose proof (erun_psi _ _ _ _ _ _ _ R). lia.
      - intros s' new' R' HP x [<-|Hx]; [|apply HP; exact Hx].
        eapply erun_disc_mono; [exact R' | exact Hr2]. }
    destruct (in_dec Nat.eq_dec r (vdisc s)) as [Hin|Hout].
    + rewrite vis_seen; [|lia|exact Hrc|exact Hin]. unfold seq_brk. cbn [rbind].
      apply (Hcont s []); [constructor | exact Hin].
    + eapply outcome_seq.
      * apply (proj1 (specs fuel) r s [] None).
        -- exact I.
        -- exact Hrc.
        -- exact Hout.
        -- right. split; [reflexivity|]. split; [reflexivity | exact Hrs].
        -- lia.
        -- right; lia.
      * exact Hcont.
Qed.

Lemma psi_nil : psi [] = length (all_out v) + 2 * vnode_count v.
Proof.
  unfold psi, vnode_count. rewrite <- usum_outdeg_all.
  induction (vnodes v) as [|a t IH]; cbn [usum mem length]; lia.
Qed.

Theorem dfs_search_main :
  (forall r, In r starts -> in_cap v r) ->
  exists brk evs st, depth_first_search v ctl debug starts = Ok (brk, evs) /\
    erun tinit evs st /\ brk_ok ctl brk evs /\
    (brk = false -> topen st = [] /\ tpend st = None /\ forall r, In r starts -> In r (tdisc st)).
Proof.
  intros Hst. unfold depth_first_search.
  assert (Hfuel : psi [] + 3 <= 4 * trav_fuel v).
  { rewrite psi_nil. unfold trav_fuel. lia. }
  destruct (search_spec (4 * trav_fuel v) starts (mkDv [] [] 0 [])) as [brk [s' [new [Er [Ev [Hb Hr]]]]]].
  - intros r Hr. split; [exact Hr | apply Hst; exact Hr].
  - apply tinv_init.
  - exact Hfuel.
  - rewrite Er. cbn [rmap]. cbn [vevs] in Ev. rewrite app_nil_r in Ev. rewrite Ev, rev_involutive.
    destruct brk.
    + destruct Hr as [st' Hr]. exists true, new, st'. split; [reflexivity|]. split; [exact Hr|].
      split; [exact Hb | discriminate].
    + destruct Hr as [Hr HP]. exists false, new, (St s' [] None). split; [reflexivity|].
      split; [exact Hr|]. split; [exact Hb|]. intros _. split; [reflexivity|]. split; [reflexivity|].
      exact HP.
Qed.

End Refine.
