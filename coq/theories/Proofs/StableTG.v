(* From<StableGraph> for Graph on an arbitrary state satisfying the invariant: the conversion never
   fails and yields a valid Graph; converting back (step code 27) yields a valid StableGraph. *)
From PG Require Import Lib.ListArr Lib.ListExtra Lib.Walk Model.GraphM Model.StableM
  Proofs.GraphP Proofs.GraphRN Proofs.GraphT Proofs.StableP Proofs.StableT Proofs.StableG Proofs.StableFM.
Set Implicit Arguments.

Section TG.
  Variable cap : nat.
  Variable capcheck : bool.
  Variable debug : bool.

  Notation GInv := (@GInv nat nat cap).

  (* nodes only, no links *)
  Definition plain (g : graph nat nat) : Prop :=
    gedges g = [] /\ forall n, In n (gnodes g) -> nnext n = (cap, cap).

  Lemma plain_GInv g : plain g -> length (gnodes g) <= cap -> GInv g.
  Proof.
    intros [He Hn] Hc. constructor.
    - exact Hc.
    - rewrite He. simpl. lia.
    - intros x ed H. rewrite He in H. destruct x; discriminate.
    - intros k i Hi. exists []. split.
      + destruct (nth_error_lt_Some _ Hi) as [n En]. exists n. split; auto.
        rewrite (Hn n) by (eapply nth_error_In; eauto). destruct k; simpl; constructor.
      + intros x. split; [intros []|]. unfold epo. rewrite He. destruct x; discriminate.
  Qed.

  Lemma to_graph_nodes_ok (ns : list (node (option nat))) : forall g imap,
    plain g -> length (gnodes g) + length ns <= cap ->
    exists g' imap', to_graph_nodes cap capcheck ns g imap = Some (g', imap') /\
      plain g' /\
      length (gnodes g) <= length (gnodes g') /\ length (gnodes g') <= length (gnodes g) + length ns /\
      (forall i, i < length imap -> nth_error imap' i = nth_error imap i) /\
      (forall i n, nth_error ns i = Some n -> nwt n <> None ->
         exists j, nth_error imap' (length imap + i) = Some j /\ j < length (gnodes g')).
  Proof.
    induction ns as [|n ns IH]; intros g imap Hp Hlen; cbn [to_graph_nodes].
    - exists g, imap. split; auto. split; auto. split; [lia|]. split; [simpl; lia|]. split; auto.
      intros i n H. destruct i; discriminate.
    - simpl in Hlen. destruct (nwt n) as [w|] eqn:Ew.
      + rewrite (@try_add_node_ok _ _ cap capcheck g w) by (right; lia).
        set (g1 := mkGraph (gnodes g ++ [mkNode w (cap, cap)]) (gedges g) : graph nat nat).
        assert (Hl1 : length (gnodes g1) = S (length (gnodes g))).
        { unfold g1. cbn [gnodes]. rewrite app_length. simpl. lia. }
        destruct (IH g1 (imap ++ [length (gnodes g)])) as [g' [imap' [Hrun [Hp' [H1 [H2 [H3 H4]]]]]]].
        { destruct Hp as [He Hn]. split; [exact He|]. unfold g1. cbn [gnodes]. intros n0 Hin.
          apply in_app_or in Hin. destruct Hin as [Hin|[<-|[]]]; [auto|reflexivity]. }
        { lia. }
        exists g', imap'. split; [exact Hrun|]. split; [exact Hp'|]. split; [lia|]. split; [simpl; lia|].
        split.
        * intros i Hi. rewrite H3 by (rewrite app_length; simpl; lia). apply nth_error_app1. auto.
        * intros [|i] n0 Hn0 Hw0; cbn [nth_error] in Hn0.
          -- exists (length (gnodes g)). split; [|lia].
             rewrite Nat.add_0_r, H3 by (rewrite app_length; simpl; lia).
             rewrite nth_error_app2 by lia. rewrite Nat.sub_diag. reflexivity.
          -- destruct (H4 i n0 Hn0 Hw0) as [j [Hj Hjl]]. exists j. split; auto.
             rewrite app_length in Hj. simpl in Hj.
             replace (length imap + S i) with (length imap + 1 + i) by lia. exact Hj.
      + destruct (IH g (imap ++ [cap]) Hp) as [g' [imap' [Hrun [Hp' [H1 [H2 [H3 H4]]]]]]]; [lia|].
        exists g', imap'. split; [exact Hrun|]. split; [exact Hp'|]. split; [lia|]. split; [simpl; lia|].
        split.
        * intros i Hi. rewrite H3 by (rewrite app_length; simpl; lia). apply nth_error_app1. auto.
        * intros [|i] n0 Hn0 Hw0; cbn [nth_error] in Hn0.
          -- injection Hn0 as <-. congruence.
          -- destruct (H4 i n0 Hn0 Hw0) as [j [Hj Hjl]]. exists j. split; auto.
             rewrite app_length in Hj. simpl in Hj.
             replace (length imap + S i) with (length imap + 1 + i) by lia. exact Hj.
  Qed.

  Lemma to_graph_edges_ok imap : forall (es : list (edge (option nat))) (g : graph nat nat),
    GInv g ->
    (forall e, In e es -> ewt e <> None ->
       exists s' t', nth_error imap (fst (enode e)) = Some s' /\
                     nth_error imap (snd (enode e)) = Some t' /\
                     s' < length (gnodes g) /\ t' < length (gnodes g)) ->
    length (gedges g) + length es <= cap ->
    exists g', to_graph_edges cap capcheck debug es imap g = Some g' /\ GInv g' /\
      length (gnodes g') = length (gnodes g) /\
      length (gedges g') <= length (gedges g) + length es.
  Proof.
    induction es as [|e es IH]; intros g I Hends Hlen; cbn [to_graph_edges].
    - exists g. split; [reflexivity|]. split; [exact I|]. split; [reflexivity|]. simpl. lia.
    - simpl in Hlen. destruct (ewt e) as [w|] eqn:Ew.
      + destruct (Hends e (or_introl eq_refl)) as [s' [t' [Hs [Ht [Hsl Htl]]]]]; [congruence|].
        rewrite Hs, Ht. pose proof (gi_ncap I) as Hnc.
        assert (Edbg : andb debug (orb (Nat.eqb s' cap) (Nat.eqb t' cap)) = false).
        { destruct (Nat.eqb_spec s' cap); [lia|]. destruct (Nat.eqb_spec t' cap); [lia|].
          apply andb_false_r. }
        rewrite Edbg.
        destruct (@T1_add_edge nat nat cap capcheck g s' t' w I) as [_ [_ Hok]].
        destruct Hok as [g2 [Hrun [I2 [Hw [Het _]]]]]; [lia|lia|lia|].
        rewrite Hrun.
        assert (Hn2 : length (gnodes g2) = length (gnodes g)).
        { rewrite <- (map_length (@nwt _)), Hw, map_length. reflexivity. }
        assert (Hl2 : length (gedges g2) = S (length (gedges g))).
        { apply (f_equal (@length _)) in Het. unfold etrip in Het.
          rewrite app_length, !map_length in Het. simpl in Het. lia. }
        destruct (IH g2 I2) as [g' [Hrun' [I' [Hn' He']]]]; [|lia|].
        { intros e' He' Hw'. rewrite Hn2. apply Hends; simpl; auto. }
        exists g'. split; [exact Hrun'|]. split; [exact I'|]. simpl. split; lia.
      + destruct (IH g I) as [g' [Hrun' [I' [Hn' He']]]]; [|lia|].
        { intros e' He' Hw'. apply Hends; simpl; auto. }
        exists g'. split; [exact Hrun'|]. split; [exact I'|]. simpl. split; lia.
  Qed.

  Theorem to_graph_total s :
    SInv cap s -> exists g, to_graph cap capcheck debug s = Some g /\ GInv g /\
      length (gnodes g) <= length (gnodes (sg s)) /\ length (gedges g) <= length (gedges (sg s)).
  Proof.
    intros I. unfold to_graph.
    pose proof (node_bound_le s) as Hnb. pose proof (sgi_ncap (si_g I)) as Hnc.
    set (ns := firstn (node_bound s) (gnodes (sg s))).
    assert (Hlns : length ns = node_bound s) by (unfold ns; apply firstn_length_le; auto).
    destruct (@to_graph_nodes_ok ns g_empty []) as [g1 [imap [Hrun [Hp [_ [H2 [_ H4]]]]]]].
    { split; [reflexivity|]. intros n []. }
    { simpl. lia. }
    rewrite Hrun. simpl in H2.
    destruct (@to_graph_edges_ok imap (gedges (sg s)) g1) as [g [Hrun2 [Ig [Hn He]]]].
    4: { exists g. split; [exact Hrun2|]. split; [exact Ig|]. destruct Hp as [Hp _]. rewrite Hp in He.
         simpl in He. split; lia. }
    - apply plain_GInv; auto. lia.
    - intros e He Hw. apply nth_error_In' in He. destruct He as [x Hx].
      assert (Hlive : ewo (sg s) x <> None) by (rewrite (ewo_nth _ _ Hx); auto).
      assert (Hend : forall k, exists n, nth_error ns (sel (enode e) k) = Some n /\ nwt n <> None).
      { intros k. pose proof (sgi_ends (si_g I) k x Hlive (epo_nth _ k _ Hx)) as L.
        apply lv_None in L. pose proof (proj1 (node_bound_spec s) _ L) as Hlt.
        unfold nwo in L. destruct (nth_error (gnodes (sg s)) (sel (enode e) k)) as [n|] eqn:En; [|congruence].
        exists n. split; auto. unfold ns. rewrite nth_error_firstn'.
        destruct (Nat.ltb_spec (sel (enode e) k) (node_bound s)); [auto|lia]. }
      destruct (Hend 0) as [n0 [Hn0 Hw0]]. destruct (Hend 1) as [n1 [Hn1 Hw1]].
      destruct (H4 _ _ Hn0 Hw0) as [j0 [Hj0 Hl0]]. destruct (H4 _ _ Hn1 Hw1) as [j1 [Hj1 Hl1]].
      exists j0, j1. simpl in Hj0, Hj1. auto.
    - destruct Hp as [-> _]. simpl. apply (sgi_ecap (si_g I)).
  Qed.

  (* step code 27 *)
  Theorem to_from_total s :
    SInv cap s ->
    exists g, to_graph cap capcheck debug s = Some g /\ SInv cap (from_graph cap g) /\
      length (gnodes (sg (from_graph cap g))) <= length (gnodes (sg s)) /\
      length (gedges (sg (from_graph cap g))) <= length (gedges (sg s)).
  Proof.
    intros I. destruct (to_graph_total I) as [g [Hrun [Ig [Hn He]]]]. exists g. split; auto.
    split; [apply from_graph_SInv; exact Ig|].
    unfold from_graph. cbn [sg gnodes gedges]. rewrite !map_length. auto.
  Qed.
End TG.
