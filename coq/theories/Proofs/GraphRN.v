(* T4: remove_node.  Draining both adjacency lists through remove_edge, Vec::swap_remove on
   the node vector, and re-pointing the endpoints of the moved node's edges. *)
From Coq Require Import Permutation.
From PG Require Import Lib.ListArr Lib.Walk Model.GraphM Proofs.GraphP Proofs.GraphRE.
Set Implicit Arguments.

(* ------------------------------------------------------------------ *)
(* Generic list facts                                                  *)

Lemma list_eq_nth {A} (l1 l2 : list A) : (forall i, nth_error l1 i = nth_error l2 i) -> l1 = l2.
Proof.
  revert l2; induction l1 as [|x l1 IH]; intros [|y l2] H; auto.
  - specialize (H 0); discriminate.
  - specialize (H 0); discriminate.
  - f_equal.
    + specialize (H 0). simpl in H. congruence.
    + apply IH. intros i. apply (H (S i)).
Qed.

Lemma upd_perm {A} (l : list A) e x z :
  nth_error l e = Some x -> Permutation (z :: l) (x :: upd l e z).
Proof.
  revert e; induction l as [|h t IH]; intros [|e] H; simpl in H; try discriminate.
  - injection H as ->. simpl. apply perm_swap.
  - simpl. eapply perm_trans; [apply perm_swap|].
    eapply perm_trans; [apply perm_skip; apply IH; eauto|]. apply perm_swap.
Qed.

Lemma swap_remove_perm {A} (l : list A) e x :
  nth_error l e = Some x -> Permutation l (x :: swap_remove l e).
Proof.
  intros H. destruct (list_rev_case l) as [->|[l' [z ->]]]; [destruct e; discriminate|].
  assert (He : e < length (l' ++ [z])) by (eapply nth_error_Some_lt; eauto).
  rewrite app_length in He; simpl in He.
  destruct (Nat.eq_dec e (length l')) as [->|Hne].
  - rewrite swap_remove_snoc_eq. rewrite nth_error_app2, Nat.sub_diag in H by lia.
    injection H as <-. apply Permutation_sym. apply Permutation_cons_append.
  - rewrite swap_remove_snoc_lt by lia. rewrite nth_error_app1 in H by lia.
    eapply perm_trans; [apply Permutation_sym; apply Permutation_cons_append|].
    apply upd_perm; auto.
Qed.

Lemma swap_remove_pair {A B C} (f : A -> B) (h : A -> C) (l l' : list A) e :
  e < length l ->
  map f l' = swap_remove (map f l) e -> map h l' = swap_remove (map h l) e ->
  map (fun x => (f x, h x)) l' = swap_remove (map (fun x => (f x, h x)) l) e.
Proof.
  intros He Hf Hh. apply list_eq_nth. intros i.
  pose proof (f_equal (fun l => nth_error l i) Hf) as Ef.
  pose proof (f_equal (fun l => nth_error l i) Hh) as Eh.
  cbv beta in Ef, Eh.
  rewrite swap_remove_nth in Ef by (rewrite map_length; auto).
  rewrite swap_remove_nth in Eh by (rewrite map_length; auto).
  rewrite swap_remove_nth by (rewrite map_length; auto).
  rewrite !map_length in *. rewrite !nth_error_map in *.
  destruct (Nat.eqb i e).
  - destruct (Nat.eqb e (length l - 1)).
    + destruct (nth_error l' i); simpl in *; [discriminate|reflexivity].
    + destruct (nth_error l' i), (nth_error l (length l - 1)); simpl in *;
        try discriminate; congruence.
  - destruct (Nat.ltb i (length l - 1)).
    + destruct (nth_error l' i), (nth_error l i); simpl in *; try discriminate; congruence.
    + destruct (nth_error l' i); simpl in *; [discriminate|reflexivity].
Qed.

Section GraphRN.
  Context {NW EW : Type}.
  Variable cap : nat.
  Variable debug : bool.

  Notation node := (node NW).
  Notation edge := (edge EW).
  Notation graph := (graph NW EW).
  Notation adj := (@adj NW EW cap).
  Notation GInv := (@GInv NW EW cap).

  (* an edge as the multigraph sees it: ((source, target), weight) *)
  Definition etr (ed : edge) : (nat * nat) * EW := (enode ed, ewt ed).
  Definition etrip (g : graph) : list ((nat * nat) * EW) := map etr (gedges g).

  Lemma remove_edge_etrip (g : graph) e :
    GInv g -> e < length (gedges g) ->
    exists ed g', nth_error (gedges g) e = Some ed /\
      remove_edge debug g e = Ok (Some (ewt ed), g') /\
      GInv g' /\
      map (@nwt NW) (gnodes g') = map (@nwt NW) (gnodes g) /\
      etrip g' = swap_remove (etrip g) e /\
      (forall k i l, adj g k i l ->
         adj g' k i (map (ren (length (gedges g) - 1) e) (remove Nat.eq_dec e l))).
  Proof.
    intros I He.
    destruct (remove_edge_spec debug I He) as [ed [g' [H1 [H2 [H3 [H4 [H5 [H6 H7]]]]]]]].
    exists ed, g'. repeat (split; auto).
    unfold etrip, etr. apply swap_remove_pair; auto.
  Qed.

  (* ------------------------------------------------------------------ *)
  (* drain_dir                                                           *)

  Lemma adj_nil_head (g : graph) k a n :
    length (gedges g) <= cap -> nth_error (gnodes g) a = Some n ->
    (adj g k a [] <-> sel (nnext n) k = cap).
  Proof.
    intros Hc Hn. split.
    - intros [n' [Hn' H]]. assert (n' = n) by congruence. subst n'.
      apply lseg_nil_inv in H. auto.
    - intros E. exists n. split; auto. rewrite E. constructor.
  Qed.

  (* g' is reached from g by successful remove_edge calls *)
  Inductive re_star : graph -> graph -> Prop :=
  | re_refl g : re_star g g
  | re_step g e w g1 g' :
      GInv g -> e < length (gedges g) -> remove_edge debug g e = Ok (Some w, g1) ->
      re_star g1 g' -> re_star g g'.

  Lemma re_star_trans g1 g2 g3 : re_star g1 g2 -> re_star g2 g3 -> re_star g1 g3.
  Proof.
    intros H; induction H as [g | g e w ga gb I He Hr Hs IH]; auto.
    intros H3. eapply re_step; eauto.
  Qed.

  Lemma drain_spec k a : forall fuel (g : graph),
    GInv g -> a < length (gnodes g) -> length (gedges g) < fuel ->
    exists g', drain_dir cap debug fuel g a k = Ok g' /\
      GInv g' /\
      map (@nwt NW) (gnodes g') = map (@nwt NW) (gnodes g) /\
      adj g' k a [] /\
      (forall k', adj g k' a [] -> adj g' k' a []) /\
      (exists removed, Permutation (etrip g) (removed ++ etrip g') /\
                       Forall (fun t => sel (fst t) k = a) removed) /\
      re_star g g'.
  Proof.
    induction fuel as [|f IH]; intros g I Ha Hf; [lia|].
    cbn [drain_dir].
    destruct (nth_error_lt_Some _ Ha) as [n Hn]. rewrite Hn.
    destruct (gi_adj I k Ha) as [l [Hl C]].
    destruct (Nat.eqb_spec (sel (nnext n) k) cap) as [E|E].
    - exists g. split; auto. split; auto. split; auto.
      split; [apply (adj_nil_head g k a (gi_ecap I) Hn); auto|].
      split; auto. split; [|constructor]. exists []. split; [reflexivity|constructor].
    - assert (Hne : l <> []).
      { intros ->. apply E. apply (adj_nil_head g k a (gi_ecap I) Hn); auto. }
      destruct Hl as [n' [Hn' Hls]]. assert (n' = n) by congruence. subst n'.
      destruct (lseg_head_in Hls Hne) as [l' El].
      set (e := sel (nnext n) k) in *.
      assert (Hin : In e l) by (rewrite El; simpl; auto).
      assert (He : e < length (gedges g)) by (eapply lseg_nxe_lt; eauto).
      destruct (remove_edge_etrip I He) as [ed [g1 [Hed [Hre [I1 [Hnw [Het Hadj]]]]]]].
      rewrite Hre. cbn [rbind].
      assert (Ha1 : a < length (gnodes g1)).
      { rewrite (map_eq_length _ _ _ Hnw). auto. }
      assert (Hl1 : length (gedges g1) < f).
      { unfold etrip in Het. apply (f_equal (@length _)) in Het.
        rewrite swap_remove_length in Het by (rewrite map_length; auto).
        rewrite !map_length in Het. lia. }
      destruct (IH g1 I1 Ha1 Hl1) as [g' [Hd [I' [Hnw' [Hnil [Hpres [[removed [Hperm Hall]] Hstar]]]]]]].
      exists g'. split; auto. split; auto. split; [congruence|]. split; auto.
      split; [|split; [|eapply re_step; eauto]].
      + intros k' Hk'. apply Hpres. apply (Hadj _ _ _ Hk').
      + exists (etr ed :: removed). split.
        * simpl. eapply perm_trans.
          -- apply (@swap_remove_perm _ (etrip g) e (etr ed)).
             unfold etrip. rewrite nth_error_map, Hed. reflexivity.
          -- apply perm_skip. rewrite <- Het. auto.
        * constructor; auto. simpl.
          apply C in Hin. rewrite (epo_nth _ k _ Hed) in Hin. congruence.
  Qed.

  (* ------------------------------------------------------------------ *)
  (* repoint_walk                                                        *)

  Lemma nxe_upd_enode (es : list edge) x ed p k' y :
    nth_error es x = Some ed ->
    nxe (upd es x (set_enode ed p)) k' y = nxe es k' y.
  Proof.
    intros H. unfold nxe. rewrite nth_error_upd.
    destruct (Nat.eqb_spec x y) as [->|]; auto.
    destruct (Nat.ltb_spec y (length es)) as [|Hge].
    - rewrite H. reflexivity.
    - apply nth_error_None in Hge. congruence.
  Qed.

  Lemma epo_upd_enode_neq (es : list edge) x ed p k' y :
    y <> x -> epo (upd es x (set_enode ed p)) k' y = epo es k' y.
  Proof. intros H. unfold epo. rewrite nth_error_upd_neq by auto. reflexivity. Qed.

  Lemma repoint_walk_spec k old new t : forall l (es : list edge) h fuel,
    lseg (nxe es k) h l t -> nxe es k t = None -> NoDup l ->
    (forall x, In x l -> epo es k x = Some old) ->
    length l < fuel ->
    exists es', repoint_walk debug fuel es h k old new = Ok es' /\
      (forall k' x, nxe es' k' x = nxe es k' x) /\
      map (@ewt EW) es' = map (@ewt EW) es /\
      (forall x, In x l -> epo es' k x = Some new) /\
      (forall x, ~ In x l -> epo es' k x = epo es k x) /\
      (forall x, epo es' (1 - k) x = epo es (1 - k) x).
  Proof.
    induction l as [|y l IH]; intros es h fuel H Ht Hnd Hold Hf;
      (destruct fuel as [|f]; [simpl in Hf; lia|]); cbn [repoint_walk].
    - apply lseg_nil_inv in H. subst h.
      unfold nxe in Ht. destruct (nth_error es t); [discriminate|].
      exists es. repeat split; auto. intros x [].
    - apply lseg_cons_inv in H. destruct H as [-> [h' [Hh Hl]]].
      destruct (nxe_Some_nth' _ _ _ Hh) as [ed [E1 E2]]. rewrite E1.
      pose proof (Hold h (or_introl eq_refl)) as Hoh. rewrite (epo_nth _ k _ E1) in Hoh.
      injection Hoh as Hoh. rewrite Hoh, Nat.eqb_refl. cbn [negb]. rewrite andb_false_r.
      rewrite E2.
      set (es1 := upd es h (set_enode ed (setp (enode ed) k new))).
      apply NoDup_cons_iff in Hnd. destruct Hnd as [Hnotin Hnd'].
      assert (N1 : forall k' x, nxe es1 k' x = nxe es k' x).
      { intros k' x. apply nxe_upd_enode; auto. }
      destruct (IH es1 h' f) as [es' [Hr [Hnx [Hw [Hin [Hout Hoth]]]]]]; auto.
      + eapply lseg_ext; eauto.
      + rewrite N1; auto.
      + intros x Hx. unfold es1. rewrite epo_upd_enode_neq; [apply Hold; simpl; auto|].
        intros ->; contradiction.
      + simpl in Hf. lia.
      + exists es'. split; auto.
        assert (Hhl : h < length es) by (eapply nth_error_Some_lt; eauto).
        split; [intros k' x; rewrite Hnx; apply N1|].
        split; [rewrite Hw; unfold es1; eapply map_upd_same; eauto|].
        split; [|split].
        * intros x [<-|Hx]; auto.
          rewrite Hout by auto. unfold es1, epo. rewrite nth_error_upd_eq by auto.
          simpl. rewrite sel_setp_same. reflexivity.
        * intros x Hx. rewrite Hout by (intros Hx'; apply Hx; simpl; auto).
          unfold es1. apply epo_upd_enode_neq. intros ->. apply Hx. simpl; auto.
        * intros x. rewrite Hoth. unfold es1, epo. rewrite nth_error_upd.
          destruct (Nat.eqb_spec h x) as [<-|]; auto.
          destruct (Nat.ltb_spec h (length es)); [|lia].
          rewrite E1. simpl. rewrite sel_setp_other. reflexivity.
  Qed.

  (* ------------------------------------------------------------------ *)
  (* The last phase of remove_node                                       *)

  Lemma GInv_intro (g : graph) :
    length (gnodes g) <= cap -> length (gedges g) <= cap ->
    (forall k x i, epo (gedges g) k x = Some i -> i < length (gnodes g)) ->
    (forall k i, i < length (gnodes g) ->
       exists l, adj g k i l /\ forall x, In x l <-> epo (gedges g) k x = Some i) ->
    GInv g.
  Proof.
    intros H1 H2 H3 H4. constructor; auto.
    intros x ed Hx. split.
    - apply (H3 0 x). apply (epo_nth _ 0 _ Hx).
    - apply (H3 1 x). apply (epo_nth _ 1 _ Hx).
  Qed.

  Lemma GInv_epo_lt (g : graph) k x i :
    GInv g -> epo (gedges g) k x = Some i -> i < length (gnodes g).
  Proof.
    intros I H. unfold epo in H. destruct (nth_error (gedges g) x) as [ed|] eqn:E; [|discriminate].
    simpl in H. injection H as <-. destruct (gi_ends I _ E). destruct k; simpl; auto.
  Qed.

  Definition finish_node (g2 : graph) (a : nat) : res (option NW * graph) :=
    match nth_error (gnodes g2) a with
    | None => Panic
    | Some removed =>
        let ns := swap_remove (gnodes g2) a in
        match nth_error ns a with
        | None => Ok (Some (nwt removed), mkGraph ns (gedges g2))
        | Some moved =>
            let old := length ns in
            rbind (repoint_walk debug (fuel_of g2) (gedges g2) (fst (nnext moved)) 0 old a) (fun es1 =>
            rbind (repoint_walk debug (fuel_of g2) es1 (snd (nnext moved)) 1 old a) (fun es2 =>
              Ok (Some (nwt removed), mkGraph ns es2)))
        end
    end.

  Lemma remove_node_unfold (g : graph) a :
    remove_node cap debug g a =
      match nth_error (gnodes g) a with
      | None => Ok (None, g)
      | Some _ =>
          rbind (drain_dir cap debug (fuel_of g) g a 0) (fun g1 =>
          rbind (drain_dir cap debug (fuel_of g1) g1 a 1) (fun g2 => finish_node g2 a))
      end.
  Proof. reflexivity. Qed.

  Definition not_inc (a : nat) (t : (nat * nat) * EW) : bool :=
    andb (negb (Nat.eqb (fst (fst t)) a)) (negb (Nat.eqb (snd (fst t)) a)).
  Definition ren_trip (n1 a : nat) (t : (nat * nat) * EW) : (nat * nat) * EW :=
    ((ren n1 a (fst (fst t)), ren n1 a (snd (fst t))), snd t).

  Lemma map_ren_trip_same n (l : list ((nat * nat) * EW)) : map (ren_trip n n) l = l.
  Proof.
    induction l as [|[[s t] w] l IH]; simpl; auto.
    unfold ren_trip at 1. simpl. rewrite !ren_same, IH. reflexivity.
  Qed.

  Lemma ren_cover (ep ep' : nat -> option nat) (L : list nat) n1 a :
    (forall x, In x L <-> ep x = Some n1) ->
    (forall x, In x L -> ep' x = Some a) ->
    (forall x, ~ In x L -> ep' x = ep x) ->
    forall x, ep' x = option_map (ren n1 a) (ep x).
  Proof.
    intros C Hin Hout x. destruct (in_dec Nat.eq_dec x L) as [Hx|Hx].
    - rewrite (Hin x Hx). rewrite (proj1 (C x) Hx). simpl. unfold ren. rewrite Nat.eqb_refl. auto.
    - rewrite (Hout x Hx). destruct (ep x) as [i|] eqn:E; simpl; auto.
      unfold ren. destruct (Nat.eqb_spec i n1) as [->|]; auto.
      exfalso. apply Hx. apply C. auto.
  Qed.

  Lemma finish_spec (g2 : graph) a :
    GInv g2 -> a < length (gnodes g2) -> adj g2 0 a [] -> adj g2 1 a [] ->
    exists n g', nth_error (gnodes g2) a = Some n /\
      finish_node g2 a = Ok (Some (nwt n), g') /\
      GInv g' /\
      map (@nwt NW) (gnodes g') = swap_remove (map (@nwt NW) (gnodes g2)) a /\
      etrip g' = map (ren_trip (length (gnodes g2) - 1) a) (etrip g2) /\
      (forall k i l, i < length (gnodes g2) - 1 ->
         adj g2 k (if Nat.eqb i a then length (gnodes g2) - 1 else i) l -> adj g' k i l).
  Proof.
    intros I Ha A0 A1.
    destruct (nth_error_lt_Some _ Ha) as [n Hn]. exists n.
    unfold finish_node. rewrite Hn.
    set (n1 := length (gnodes g2) - 1).
    set (ns' := swap_remove (gnodes g2) a).
    assert (Hno : forall k x, epo (gedges g2) k x <> Some a).
    { intros [|k] x Hx.
      - apply (GInv_adj_in x I A0) in Hx. contradiction.
      - apply (GInv_adj_in x I A1) in Hx. contradiction. }
    assert (Hlen' : length ns' = n1) by (unfold ns'; rewrite swap_remove_length; auto).
    assert (Hnth' : forall j, nth_error ns' j =
              if Nat.eqb j a then (if Nat.eqb a n1 then None else nth_error (gnodes g2) n1)
              else if Nat.ltb j n1 then nth_error (gnodes g2) j else None).
    { intros j. unfold ns'. rewrite swap_remove_nth by auto. reflexivity. }
    assert (Hnw : map (@nwt NW) ns' = swap_remove (map (@nwt NW) (gnodes g2)) a).
    { unfold ns'. apply map_swap_remove. }
    destruct (Nat.eq_dec a n1) as [Ean|Nan].
    - (* the last node: nothing moves *)
      rewrite Hnth', Nat.eqb_refl. destruct (Nat.eqb_spec a n1); [|contradiction].
      eexists; split; [reflexivity|]. split; [reflexivity|]. split; [|split; [auto|split]].
      + apply GInv_intro; simpl.
        * rewrite Hlen'. pose proof (gi_ncap I). lia.
        * apply (gi_ecap I).
        * intros k x i Hx. rewrite Hlen'.
          pose proof (GInv_epo_lt _ _ I Hx). assert (i <> a) by (intros ->; eapply Hno; eauto).
          unfold n1 in *. lia.
        * intros k i. rewrite Hlen'. intros Hi.
          destruct (gi_adj I k (i := i)) as [l [[ni [Hni Hl]] C]]; [unfold n1 in Hi; lia|].
          exists l. split; auto. exists ni. split; auto. simpl. rewrite Hnth'.
          destruct (Nat.eqb_spec i a); [lia|]. destruct (Nat.ltb_spec i n1); [auto|lia].
      + unfold etrip at 1. simpl. rewrite Ean. rewrite map_ren_trip_same. reflexivity.
      + intros k i l Hi. fold n1 in Hi. fold n1.
        destruct (Nat.eqb_spec i a); [lia|].
        intros [ni [Hni Hl]]. exists ni. split; auto. simpl. rewrite Hnth'.
        destruct (Nat.eqb_spec i a); [lia|]. destruct (Nat.ltb_spec i n1); [auto|lia].
    - (* the last node n1 moves into slot a *)
      assert (Han : a < n1) by (unfold n1 in *; lia).
      assert (Hn1 : n1 < length (gnodes g2)) by (unfold n1; lia).
      destruct (nth_error_lt_Some _ Hn1) as [moved Hmv].
      rewrite Hnth', Nat.eqb_refl. destruct (Nat.eqb_spec a n1); [contradiction|].
      rewrite Hmv. cbv zeta. rewrite Hlen'.
      destruct (gi_adj I 0 Hn1) as [L0 [HL0 C0]].
      destruct (gi_adj I 1 Hn1) as [L1 [HL1 C1]].
      pose proof (adj_NoDup (gi_ecap I) HL0) as Nd0.
      pose proof (adj_NoDup (gi_ecap I) HL1) as Nd1.
      pose proof (adj_length (gi_ecap I) HL0) as Le0.
      pose proof (adj_length (gi_ecap I) HL1) as Le1.
      destruct HL0 as [m0 [Hm0 Hl0]]. assert (m0 = moved) by congruence. subst m0.
      destruct HL1 as [m1 [Hm1 Hl1]]. assert (m1 = moved) by congruence. subst m1.
      assert (Hcapn : forall k, nxe (gedges g2) k cap = None).
      { intros k. apply nxe_oob. apply (gi_ecap I). }
      destruct (@repoint_walk_spec 0 n1 a cap L0 (gedges g2) (fst (nnext moved)) (fuel_of g2))
        as [es1 [R1 [N1 [W1 [In1 [Out1 Oth1]]]]]]; auto.
      { intros x Hx. apply C0; auto. }
      { unfold fuel_of. lia. }
      rewrite R1. cbn [rbind]. change (1 - 0) with 1 in Oth1.
      destruct (@repoint_walk_spec 1 n1 a cap L1 es1 (snd (nnext moved)) (fuel_of g2))
        as [es2 [R2 [N2 [W2 [In2 [Out2 Oth2]]]]]]; auto.
      { eapply lseg_ext; [|exact Hl1]. intros x. apply N1. }
      { rewrite N1. auto. }
      { intros x Hx. rewrite (Oth1 x). apply C1; auto. }
      { unfold fuel_of. lia. }
      rewrite R2. cbn [rbind]. change (1 - 1) with 0 in Oth2.
      eexists; split; [reflexivity|]. split; [reflexivity|].
      assert (NX : forall k x, nxe es2 k x = nxe (gedges g2) k x).
      { intros k x. rewrite N2, N1. reflexivity. }
      assert (EP : forall k x, epo es2 k x = option_map (ren n1 a) (epo (gedges g2) k x)).
      { intros [|k].
        - apply (@ren_cover (epo (gedges g2) 0) (epo es2 0) L0 n1 a); auto.
          + intros x Hx. rewrite (Oth2 x). auto.
          + intros x Hx. rewrite (Oth2 x). auto.
        - apply (@ren_cover (epo (gedges g2) 1) (epo es2 1) L1 n1 a); auto.
          intros x Hx. rewrite (Out2 x Hx). apply (Oth1 x). }
      assert (Hel : length es2 = length (gedges g2)).
      { rewrite <- (map_length (@ewt EW) es2), W2, W1, map_length. reflexivity. }
      split; [|split; [auto|split]].
      + apply GInv_intro; simpl.
        * rewrite Hlen'. pose proof (gi_ncap I). lia.
        * rewrite Hel. apply (gi_ecap I).
        * intros k x i. rewrite EP, Hlen'.
          destruct (epo (gedges g2) k x) as [i0|] eqn:E0; simpl; [|discriminate].
          intros [= <-]. pose proof (GInv_epo_lt _ _ I E0) as Hi0.
          unfold ren. destruct (Nat.eqb_spec i0 n1); [auto|unfold n1 in *; lia].
        * intros k i. rewrite Hlen'. intros Hi.
          set (i0 := if Nat.eqb i a then n1 else i).
          assert (Hi0 : i0 < length (gnodes g2)).
          { unfold i0. destruct (Nat.eqb i a); unfold n1 in *; lia. }
          assert (Hni : nth_error ns' i = nth_error (gnodes g2) i0).
          { rewrite Hnth'. unfold i0. destruct (Nat.eqb_spec i a) as [->|].
            - destruct (Nat.eqb_spec a n1); [contradiction|reflexivity].
            - destruct (Nat.ltb_spec i n1); [reflexivity|lia]. }
          destruct (gi_adj I k Hi0) as [l [[ni [Hnode Hl]] C]].
          exists l. split.
          -- exists ni. split; [simpl; rewrite Hni; auto|]. simpl.
             eapply lseg_ext; [|exact Hl]. intros x. apply NX.
          -- intros x. rewrite (C x), EP. unfold i0.
             destruct (epo (gedges g2) k x) as [j|] eqn:Ej; simpl; [|split; discriminate].
             unfold ren. destruct (Nat.eqb_spec i a) as [->|Hia].
             ++ destruct (Nat.eqb_spec j n1) as [->|Hj]; [tauto|].
                split; [intros [= ->]; contradiction|].
                intros [= ->]. exfalso. eapply Hno; eauto.
             ++ destruct (Nat.eqb_spec j n1) as [->|Hj].
                ** split; [intros [= ->]; lia|intros [= Hx]; congruence].
                ** tauto.
      + unfold etrip. simpl. rewrite map_map. apply list_eq_nth. intros x.
        rewrite !nth_error_map.
        destruct (nth_error (gedges g2) x) as [ed|] eqn:Ex.
        * assert (W : map (@ewt EW) es2 = map (@ewt EW) (gedges g2)) by congruence.
          destruct (map_eq_nth (@ewt EW) (gedges g2) es2 x W Ex) as [ed' [Ex' Hw]].
          rewrite Ex'. simpl. f_equal.
          pose proof (EP 0 x) as E0. pose proof (EP 1 x) as E1.
          rewrite (epo_nth _ 0 _ Ex'), (epo_nth _ 0 _ Ex) in E0.
          rewrite (epo_nth _ 1 _ Ex'), (epo_nth _ 1 _ Ex) in E1.
          simpl in E0, E1. injection E0 as E0. injection E1 as E1.
          unfold etr, ren_trip. simpl. rewrite <- E0, <- E1, Hw.
          destruct (enode ed'); reflexivity.
        * assert (Hx : nth_error es2 x = None).
          { apply nth_error_None. rewrite Hel. apply nth_error_None. auto. }
          rewrite Hx. reflexivity.
      + intros k i l Hi. fold n1 in Hi. fold n1. intros [ni [Hni Hl]].
        exists ni. split.
        * simpl. rewrite Hnth'. destruct (Nat.eqb_spec i a) as [->|].
          -- destruct (Nat.eqb_spec a n1); [contradiction|auto].
          -- destruct (Nat.ltb_spec i n1); [auto|lia].
        * simpl. eapply lseg_ext; [|exact Hl]. intros x. apply NX.
  Qed.

  (* ------------------------------------------------------------------ *)
  (* T4                                                                  *)

  Theorem remove_node_oob (g : graph) a :
    length (gnodes g) <= a -> remove_node cap debug g a = Ok (None, g).
  Proof.
    intros H. rewrite remove_node_unfold. rewrite (proj2 (nth_error_None (gnodes g) a)); auto.
  Qed.

  Lemma not_inc_false_fst a (t : (nat * nat) * EW) : fst (fst t) = a -> not_inc a t = false.
  Proof. intros H. unfold not_inc. rewrite H, Nat.eqb_refl. reflexivity. Qed.

  Lemma not_inc_false_snd a (t : (nat * nat) * EW) : snd (fst t) = a -> not_inc a t = false.
  Proof. intros H. unfold not_inc. rewrite H, Nat.eqb_refl. apply andb_false_r. Qed.

  Lemma filter_none {A} (f : A -> bool) l : Forall (fun x => f x = false) l -> filter f l = [].
  Proof.
    induction 1 as [|x l Hx Hl IH]; simpl; auto. rewrite Hx. auto.
  Qed.

  Lemma filter_all {A} (f : A -> bool) l : Forall (fun x => f x = true) l -> filter f l = l.
  Proof.
    induction 1 as [|x l Hx Hl IH]; simpl; auto. rewrite Hx, IH. auto.
  Qed.

  Lemma Permutation_filter {A} (f : A -> bool) l l' :
    Permutation l l' -> Permutation (filter f l) (filter f l').
  Proof.
    induction 1 as [|x l l' H IH|x y l|l1 l2 l3 H1 IH1 H2 IH2]; simpl; auto.
    - destruct (f x); auto.
    - destruct (f x), (f y); auto. apply perm_swap.
    - eapply perm_trans; eauto.
  Qed.

  Theorem remove_node_spec (g : graph) a :
    GInv g -> a < length (gnodes g) ->
    exists n g2 g', nth_error (gnodes g) a = Some n /\
      remove_node cap debug g a = Ok (Some (nwt n), g') /\
      GInv g' /\
      map (@nwt NW) (gnodes g') = swap_remove (map (@nwt NW) (gnodes g)) a /\
      Permutation (etrip g')
        (map (ren_trip (length (gnodes g) - 1) a) (filter (not_inc a) (etrip g))) /\
      (* how it got there: edge removals, then the node renumbering *)
      re_star g g2 /\ GInv g2 /\ length (gnodes g2) = length (gnodes g) /\
      etrip g' = map (ren_trip (length (gnodes g) - 1) a) (etrip g2) /\
      (forall k i l, i < length (gnodes g) - 1 ->
         adj g2 k (if Nat.eqb i a then length (gnodes g) - 1 else i) l -> adj g' k i l).
  Proof.
    intros I Ha.
    destruct (nth_error_lt_Some _ Ha) as [n Hn]. exists n.
    rewrite remove_node_unfold, Hn.
    destruct (@drain_spec 0 a (fuel_of g) g I Ha) as [g1 [D1 [I1 [W1 [Z1 [_ [[r1 [P1 F1]] S1]]]]]]];
      [unfold fuel_of; lia|].
    rewrite D1. cbn [rbind].
    assert (Ha1 : a < length (gnodes g1)) by (rewrite (map_eq_length _ _ _ W1); auto).
    destruct (@drain_spec 1 a (fuel_of g1) g1 I1 Ha1) as [g2 [D2 [I2 [W2 [Z2 [K2 [[r2 [P2 F2]] S2]]]]]]];
      [unfold fuel_of; lia|].
    rewrite D2. cbn [rbind].
    assert (Ha2 : a < length (gnodes g2)) by (rewrite (map_eq_length _ _ _ W2); auto).
    destruct (@finish_spec g2 a I2 Ha2 (K2 0 Z1) Z2) as [n2 [g' [Hn2 [Fin [I' [W' [T' A']]]]]]].
    exists g2, g'. split; auto.
    assert (Hw : nwt n2 = nwt n).
    { assert (W : map (@nwt NW) (gnodes g2) = map (@nwt NW) (gnodes g)) by congruence.
      destruct (map_eq_nth (@nwt NW) (gnodes g) (gnodes g2) a W Hn) as [n2' [Hn2' Hw]].
      congruence. }
    assert (Hnl : length (gnodes g2) = length (gnodes g)).
    { rewrite (map_eq_length _ _ _ W2). apply (map_eq_length _ _ _ W1). }
    split; [rewrite Fin, Hw; reflexivity|]. split; auto.
    split; [rewrite W'; congruence|].
    split; [|split; [eapply re_star_trans; eauto|split; [auto|split; [auto|
             split; [rewrite <- Hnl; auto|rewrite <- Hnl; auto]]]]].
    rewrite T', Hnl. apply Permutation_map.
    (* the surviving edges are exactly the old ones not incident to a *)
    assert (P : Permutation (etrip g) ((r1 ++ r2) ++ etrip g2)).
    { eapply perm_trans; [exact P1|]. rewrite <- app_assoc. apply Permutation_app_head. exact P2. }
    apply (Permutation_filter (not_inc a)) in P.
    rewrite filter_app in P.
    rewrite (@filter_none _ (not_inc a) (r1 ++ r2)) in P.
    - rewrite (@filter_all _ (not_inc a) (etrip g2)) in P; [apply Permutation_sym; exact P|].
      apply Forall_forall. intros t Ht. unfold etrip in Ht. apply in_map_iff in Ht.
      destruct Ht as [ed [<- Hed]]. apply In_nth_error in Hed. destruct Hed as [x Hx].
      unfold not_inc, etr. simpl.
      assert (N0 : fst (enode ed) <> a).
      { intros E. pose proof (epo_nth _ 0 _ Hx) as Ep. simpl in Ep. rewrite E in Ep.
        apply (GInv_adj_in x I2 (K2 0 Z1)) in Ep. contradiction. }
      assert (N1 : snd (enode ed) <> a).
      { intros E. pose proof (epo_nth _ 1 _ Hx) as Ep. simpl in Ep. rewrite E in Ep.
        apply (GInv_adj_in x I2 Z2) in Ep. contradiction. }
      apply Nat.eqb_neq in N0. apply Nat.eqb_neq in N1. rewrite N0, N1. reflexivity.
    - apply Forall_app. split.
      + eapply Forall_impl; [|exact F1]. intros t Ht. apply not_inc_false_fst. exact Ht.
      + eapply Forall_impl; [|exact F2]. intros t Ht. apply not_inc_false_snd. exact Ht.
  Qed.
End GraphRN.
