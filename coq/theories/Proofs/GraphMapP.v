(* C03, part 1: the structural invariant of GraphMap and its preservation by
   every mutating operation, with a set-level description of each new state. *)
From Coq Require Import Lia ZArith Permutation.
From PG Require Import Lib.Io Model.GraphMapM Spec.SimpleGraph Proofs.GraphMapL.
Local Open Scope Z_scope.

(* ------------------------------------------------------------------ *)
(* Definitions                                                         *)

Definition nkeys (g : gm) : list Z := map fst (gnodes g).
Definition ekeys (g : gm) : list (Z * Z) := map fst (gedges g).

(* What the adjacency vector [v] of node [a] must look like, given the edge keys. *)
Definition adj_inv (directed : bool) (ek : list (Z * Z)) (a : Z) (v : adjv) : Prop :=
  NoDup v /\
  if directed then
    (forall b, In (b, true) v <-> In (a, b) ek) /\
    (forall b, In (b, false) v <-> In (b, a) ek /\ a <> b)
  else
    NoDup (map fst v) /\
    (forall b, In b (map fst v) <-> In (edge_key false a b) ek) /\
    (forall b, In (b, false) v -> b <> a).

Record GInv (directed : bool) (g : gm) : Prop := mkGInv {
  gi_nodes_nodup : NoDup (nkeys g);
  gi_edges_nodup : NoDup (ekeys g);
  gi_canonical : forall a b, In (a, b) (ekeys g) -> edge_key directed a b = (a, b);
  gi_endpoints : forall a b, In (a, b) (ekeys g) -> In a (nkeys g) /\ In b (nkeys g);
  gi_adj : forall a v, In (a, v) (gnodes g) -> adj_inv directed (ekeys g) a v
}.

(* ------------------------------------------------------------------ *)
(* Tactics                                                             *)

Ltac pairs := rewrite ?pair_equal_spec in *.
Ltac zb :=
  repeat match goal with
  | H : (_ =? _) = true |- _ => apply Z.eqb_eq in H
  | H : (_ =? _) = false |- _ => apply Z.eqb_neq in H
  | H : (_ <=? _) = true |- _ => apply Z.leb_le in H
  | H : (_ <=? _) = false |- _ => apply Z.leb_gt in H
  end.

(* ------------------------------------------------------------------ *)
(* edge_key                                                            *)

Lemma s_key_edge_key d a b : s_key d a b = edge_key d a b.
Proof.
  unfold s_key, edge_key. destruct d; auto.
  destruct (a <=? b) eqn:E; zb; f_equal; lia.
Qed.

Lemma key_eqb_zpair p q : key_eqb p q = zpair_eqb p q.
Proof. reflexivity. Qed.

Lemma edge_key_false_sym a b : edge_key false a b = edge_key false b a.
Proof.
  unfold edge_key. destruct (a <=? b) eqn:E1, (b <=? a) eqn:E2; zb; auto; try lia.
  f_equal; lia.
Qed.

Lemma edge_key_false_eq c x a b :
  edge_key false c x = edge_key false a b <-> (c = a /\ x = b) \/ (c = b /\ x = a).
Proof.
  unfold edge_key. destruct (c <=? x) eqn:E1, (a <=? b) eqn:E2; zb; pairs; lia.
Qed.

Lemma edge_key_false_canon a b : edge_key false a b = (a, b) <-> a <= b.
Proof. unfold edge_key. destruct (a <=? b) eqn:E; zb; pairs; lia. Qed.

Lemma edge_key_false_cases a b :
  (edge_key false a b = (a, b) /\ a <= b) \/ (edge_key false a b = (b, a) /\ b < a).
Proof. unfold edge_key. destruct (a <=? b) eqn:E; zb; auto. Qed.

Lemma edge_key_idem d a b :
  edge_key d (fst (edge_key d a b)) (snd (edge_key d a b)) = edge_key d a b.
Proof.
  destruct d; auto. unfold edge_key.
  destruct (a <=? b) eqn:E; cbn [fst snd]; [rewrite E; auto|].
  zb. destruct (b <=? a) eqn:E2; zb; auto. lia.
Qed.

(* ------------------------------------------------------------------ *)
(* Node map: adjacency lookup, push_adj                                *)

Definition adjv_of (nodes : list (Z * adjv)) (a : Z) : adjv :=
  match im_get Z.eqb nodes a with Some v => v | None => [] end.

Lemma adj_of_adjv_of g a : adj_of g a = adjv_of (gnodes g) a.
Proof. reflexivity. Qed.

Lemma nkey_iff (nodes : list (Z * adjv)) c :
  In c (map fst nodes) <-> im_get Z.eqb nodes c <> None.
Proof.
  rewrite (im_get_none Z.eqb Zeqb_spec' nodes c).
  destruct (in_dec Z.eq_dec c (map fst nodes)); tauto.
Qed.

Lemma push_adj_get nodes a x c :
  im_get Z.eqb (push_adj nodes a x) c =
  if a =? c then Some (adjv_of nodes a ++ [x]) else im_get Z.eqb nodes c.
Proof.
  unfold push_adj, adjv_of. unfold adjv in *. destruct (im_get Z.eqb nodes a) as [v|] eqn:Ea.
  - apply (im_insert_get Z.eqb Zeqb_spec').
  - rewrite im_get_app_one. destruct (a =? c) eqn:E; zb.
    + subst. rewrite Ea. reflexivity.
    + destruct (im_get Z.eqb nodes c); reflexivity.
Qed.

Lemma push_adj_adjv nodes a x c :
  adjv_of (push_adj nodes a x) c = if a =? c then adjv_of nodes a ++ [x] else adjv_of nodes c.
Proof. unfold adjv_of at 1. rewrite push_adj_get. destruct (a =? c); reflexivity. Qed.

Lemma push_adj_keys nodes a x :
  map fst (push_adj nodes a x) =
  match im_get Z.eqb nodes a with Some _ => map fst nodes | None => map fst nodes ++ [a] end.
Proof.
  unfold push_adj. destruct (im_get Z.eqb nodes a) as [v|] eqn:Ea.
  - rewrite im_insert_keys, Ea. reflexivity.
  - rewrite map_app. reflexivity.
Qed.

Lemma push_adj_NoDup nodes a x : NoDup (map fst nodes) -> NoDup (map fst (push_adj nodes a x)).
Proof.
  intros HN. rewrite push_adj_keys. destruct (im_get Z.eqb nodes a) eqn:Ea; auto.
  apply NoDup_app_one; auto. apply (im_get_none Z.eqb Zeqb_spec'); auto.
Qed.

Lemma push_adj_keys_in nodes a x c :
  In c (map fst (push_adj nodes a x)) <-> In c (map fst nodes) \/ c = a.
Proof.
  rewrite push_adj_keys. destruct (im_get Z.eqb nodes a) eqn:Ea.
  - split; auto. intros [H| ->]; auto. apply nkey_iff. congruence.
  - rewrite in_app_iff. cbn [In]. intuition.
Qed.

(* ------------------------------------------------------------------ *)
(* remove_single_edge                                                  *)

(* Which adjacency entry remove_single_edge looks for. *)
Definition hit (d : bool) (b : Z) (dir : bool) (y : Z * bool) : Prop :=
  if d then y = (b, dir) else fst y = b.

(* At most one entry can be hit. *)
Definition uniq (d : bool) (v : list (Z * bool)) : Prop :=
  if d then NoDup v else NoDup (map fst v).

Definition rse_test (d : bool) (b : Z) (dir : bool) (e : Z * bool) : bool :=
  if d then andb (Z.eqb (fst e) b) (Bool.eqb (snd e) dir) else Z.eqb (fst e) b.

Lemma rse_test_hit d b dir y : rse_test d b dir y = true <-> hit d b dir y.
Proof.
  unfold rse_test, hit. destruct y as [y1 y2]. cbn [fst snd]. destruct d.
  - rewrite andb_true_iff, Z.eqb_eq, eqb_true_iff, pair_equal_spec. tauto.
  - apply Z.eqb_eq.
Qed.

Lemma uniq_nil d : uniq d [].
Proof. destruct d; constructor. Qed.

Lemma uniq_NoDup d v : uniq d v -> NoDup v.
Proof. destruct d; cbn [uniq]; auto. apply NoDup_map_inv. Qed.

Lemma vsr_hit d b dir (v : list (Z * bool)) i x :
  uniq d v -> nth_error v i = Some x -> hit d b dir x ->
  uniq d (vec_swap_remove v i) /\
  forall y, In y (vec_swap_remove v i) <-> In y v /\ ~ hit d b dir y.
Proof.
  intros HU Hx Hh. pose proof (vec_swap_remove_perm v i Hx) as HP.
  assert (HU' : uniq d (x :: vec_swap_remove v i)).
  { destruct d; cbn [uniq] in *.
    - eapply Permutation_NoDup; [apply Permutation_sym, HP | exact HU].
    - eapply Permutation_NoDup; [apply Permutation_map, Permutation_sym, HP | exact HU]. }
  split.
  - destruct d; cbn [uniq map] in *; inversion HU'; auto.
  - intros y. split.
    + intros HI. split.
      * eapply Permutation_in; [exact HP|]. right; exact HI.
      * intros Hy. destruct d; cbn [uniq hit map] in *.
        -- subst. inversion HU' as [|x0 l0 Hnotin HN]; subst. contradiction.
        -- inversion HU' as [|x0 l0 Hnotin HN]; subst. apply Hnotin.
           rewrite <- Hy. apply in_map. exact HI.
    + intros [HI Hn]. apply (Permutation_in _ (Permutation_sym HP)) in HI.
      destruct HI as [<-|HI]; [contradiction | exact HI].
Qed.

Lemma rse_unfold d (nodes : list (Z * list (Z * bool))) a b dir :
  remove_single_edge d nodes a b dir =
  match im_get Z.eqb nodes a with
  | None => (false, nodes)
  | Some sus =>
      match position (rse_test d b dir) sus 0 with
      | Some i => (true, snd (im_insert Z.eqb nodes a (vec_swap_remove sus i)))
      | None => (false, nodes)
      end
  end.
Proof. unfold remove_single_edge, rse_test. destruct d; reflexivity. Qed.

Lemma rse_spec d (nodes : list (Z * list (Z * bool))) a b dir ex nodes' :
  remove_single_edge d nodes a b dir = (ex, nodes') ->
  uniq d (adjv_of nodes a) ->
  map fst nodes' = map fst nodes /\
  (forall c, c <> a -> adjv_of nodes' c = adjv_of nodes c) /\
  uniq d (adjv_of nodes' a) /\
  (forall y, In y (adjv_of nodes' a) <-> In y (adjv_of nodes a) /\ ~ hit d b dir y) /\
  (ex = true <-> exists y, In y (adjv_of nodes a) /\ hit d b dir y).
Proof.
  rewrite rse_unfold. unfold adjv_of, adjv in *.
  destruct (im_get Z.eqb nodes a) as [sus|] eqn:Ea.
  - destruct (position (rse_test d b dir) sus 0) as [i|] eqn:Ep.
    + intros Heq HU. injection Heq as <- <-.
      destruct (position_some0 _ _ Ep) as [x [Hx Hfx]]. apply rse_test_hit in Hfx.
      destruct (vsr_hit d b dir sus i x HU Hx Hfx) as [HU' HI'].
      split; [rewrite im_insert_keys, Ea; reflexivity|].
      split; [intros c Hc; rewrite (im_insert_get Z.eqb Zeqb_spec'); rewrite (proj2 (Z.eqb_neq a c)); auto|].
      rewrite (im_insert_get Z.eqb Zeqb_spec'), Z.eqb_refl.
      split; [exact HU'|]. split; [exact HI'|].
      split; auto. intros _. exists x. split; auto. eapply nth_error_In; eauto.
    + intros Heq HU. injection Heq as <- <-. rewrite Ea.
      pose proof (position_none _ _ _ Ep) as Hnone.
      repeat split; auto; try tauto.
      * intros Hy. apply rse_test_hit in Hy. rewrite Hnone in Hy; [discriminate | tauto].
      * discriminate.
      * intros [y [HI Hy]]. apply rse_test_hit in Hy. rewrite Hnone in Hy; auto.
  - intros Heq HU. injection Heq as <- <-. rewrite Ea. cbn [In].
    repeat split; auto; try tauto; try discriminate.
    intros [y [[] _]].
Qed.

Lemma rse_keys d (nodes : list (Z * list (Z * bool))) a b dir :
  map fst (snd (remove_single_edge d nodes a b dir)) = map fst nodes.
Proof.
  rewrite rse_unfold. destruct (im_get Z.eqb nodes a) as [sus|] eqn:Ea; auto.
  destruct (position (rse_test d b dir) sus 0); auto. cbn [snd].
  rewrite im_insert_keys, Ea. reflexivity.
Qed.

(* ------------------------------------------------------------------ *)
(* remove_links (the loop of remove_node)                              *)

Definition link_key (d : bool) (n : Z) (l : Z * bool) : Z * Z :=
  if snd l then edge_key d n (fst l) else edge_key d (fst l) n.

Lemma remove_links_spec d n links :
  forall (nodes : list (Z * list (Z * bool))) edges nodes2 edges2,
  remove_links d n links nodes edges = (nodes2, edges2) ->
  (forall c, uniq d (adjv_of nodes c)) -> NoDup (map fst edges) ->
  map fst nodes2 = map fst nodes /\
  (forall c, uniq d (adjv_of nodes2 c)) /\
  (forall c y, In y (adjv_of nodes2 c) <->
     In y (adjv_of nodes c) /\ forall l, In l links -> fst l = c -> ~ hit d n (negb (snd l)) y) /\
  NoDup (map fst edges2) /\
  (forall k w, In (k, w) edges2 <-> In (k, w) edges /\ forall l, In l links -> k <> link_key d n l).
Proof.
  induction links as [|[succ dir] rest IH]; intros nodes edges nodes2 edges2 Heq HU HN;
    cbn [remove_links] in Heq.
  - injection Heq as <- <-. cbn [In]. repeat split; auto; tauto.
  - destruct (remove_single_edge d nodes succ n (negb dir)) as [ex nodes1] eqn:Er.
    cbn [snd] in Heq.
    destruct (rse_spec d nodes succ n (negb dir) ex nodes1 Er (HU succ)) as [Hk1 [Hother1 [HU1 [HI1 _]]]].
    set (key := if dir then edge_key d n succ else edge_key d succ n) in *.
    assert (HUall : forall c, uniq d (adjv_of nodes1 c)).
    { intros c. destruct (Z.eq_dec c succ) as [->|Hc]; auto. rewrite Hother1; auto. }
    pose proof (im_swap_remove_NoDup zpair_eqb zpair_eqb_spec edges key HN) as HN1.
    destruct (IH _ _ _ _ Heq HUall HN1) as [Hk2 [HU2 [HI2 [HN2 HE2]]]].
    split; [exact (eq_trans Hk2 Hk1)|]. split; [exact HU2|]. split; [|split; [exact HN2|]].
    + intros c y. rewrite HI2. cbn [In]. split.
      * intros [Hy Hrest]. destruct (Z.eq_dec c succ) as [->|Hc].
        -- apply HI1 in Hy. destruct Hy as [Hy Hnh]. split; auto.
           intros l [<-|Hl] Hfst; cbn [fst snd] in *; auto.
        -- rewrite Hother1 in Hy by auto. split; auto.
           intros l [<-|Hl] Hfst; cbn [fst snd] in *; [congruence | auto].
      * intros [Hy Hall]. split; [|intros l Hl; apply Hall; auto].
        destruct (Z.eq_dec c succ) as [->|Hc].
        -- apply HI1. split; auto. apply (Hall (succ, dir)); auto.
        -- rewrite Hother1; auto.
    + intros k w. rewrite HE2. rewrite (im_swap_remove_in zpair_eqb zpair_eqb_spec) by exact HN.
      cbn [In]. split.
      * intros [[Hin Hne] Hrest]. split; auto.
        intros l [<-|Hl]; auto.
      * intros [Hin Hall]. split; [split; auto|intros l Hl; apply Hall; auto].
        apply (Hall (succ, dir)); auto.
Qed.

(* ------------------------------------------------------------------ *)
(* The invariant in uniform form: every value [a] (node or not) has an
   adjacency vector (empty when absent) that mirrors the edge keys.    *)

Definition adj_ok (d : bool) (E : Z * Z -> Prop) (a : Z) (v : list (Z * bool)) : Prop :=
  uniq d v /\
  if d then
    (forall b, In (b, true) v <-> E (a, b)) /\
    (forall b, In (b, false) v <-> E (b, a) /\ a <> b)
  else
    (forall b, In b (map fst v) <-> E (edge_key false a b)) /\
    (forall b, In (b, false) v -> b <> a).

Definition GI (d : bool) (nodes : list (Z * list (Z * bool))) (edges : list ((Z * Z) * Z)) : Prop :=
  NoDup (map fst nodes) /\ NoDup (map fst edges) /\
  (forall a b, In (a, b) (map fst edges) -> edge_key d a b = (a, b)) /\
  (forall a, adj_ok d (fun k => In k (map fst edges)) a (adjv_of nodes a)).

Lemma adj_ok_ext d (E E' : Z * Z -> Prop) a v :
  (forall k, E k <-> E' k) -> adj_ok d E a v -> adj_ok d E' a v.
Proof.
  intros HE [HU H]. split; auto. destruct d.
  - destruct H as [Ho Hi]. split; intros b; rewrite <- HE; auto.
  - destruct H as [Ho Hi]. split; auto. intros b; rewrite <- HE; auto.
Qed.

Lemma adjv_in_key (nodes : list (Z * list (Z * bool))) a y :
  In y (adjv_of nodes a) -> In a (map fst nodes).
Proof.
  unfold adjv_of. intros H. apply nkey_iff. unfold adjv in *. destruct (im_get Z.eqb nodes a); [discriminate | destruct H].
Qed.

Lemma adjv_not_key (nodes : list (Z * list (Z * bool))) a :
  ~ In a (map fst nodes) -> adjv_of nodes a = [].
Proof.
  intros H. unfold adjv_of. apply (im_get_none Z.eqb Zeqb_spec') in H. unfold adjv in *. rewrite H. reflexivity.
Qed.

Lemma GI_endpoints d nodes edges a b :
  GI d nodes edges -> In (a, b) (map fst edges) -> In a (map fst nodes) /\ In b (map fst nodes).
Proof.
  intros [HNn [HNe [Hc Hadj]]] HE.
  pose proof (Hadj a) as [_ Ha]. pose proof (Hadj b) as [_ Hb]. destruct d.
  - destruct Ha as [Hao _]. destruct Hb as [_ Hbi]. split.
    + apply Hao in HE. eapply adjv_in_key; eauto.
    + destruct (Z.eq_dec a b) as [->|Hne].
      * apply Hao in HE. eapply adjv_in_key; eauto.
      * assert (Hx : In (a, false) (adjv_of nodes b)) by (apply Hbi; auto).
        eapply adjv_in_key; eauto.
  - destruct Ha as [Hao _]. destruct Hb as [Hbo _].
    pose proof (Hc _ _ HE) as Hcan. split.
    + rewrite <- Hcan in HE. apply Hao in HE. apply in_map_iff in HE.
      destruct HE as [y [_ Hy]]. eapply adjv_in_key; eauto.
    + rewrite <- Hcan, edge_key_false_sym in HE. apply Hbo in HE. apply in_map_iff in HE.
      destruct HE as [y [_ Hy]]. eapply adjv_in_key; eauto.
Qed.

Lemma GInv_GI d g : GInv d g <-> GI d (gnodes g) (gedges g).
Proof.
  split.
  - intros [HNn HNe Hc Hend Hadj]. unfold nkeys, ekeys in *.
    split; [exact HNn|]. split; [exact HNe|]. split; [exact Hc|].
    intros a. unfold adjv_of. destruct (im_get Z.eqb (gnodes g) a) as [v|] eqn:Ea.
    + apply (im_get_in Z.eqb Zeqb_spec') in Ea. apply Hadj in Ea.
      destruct Ea as [HNv Hrest]. destruct d.
      * split; [exact HNv | exact Hrest].
      * destruct Hrest as [HNf Hrest]. split; [exact HNf | exact Hrest].
    + assert (Hnot : ~ In a (map fst (gnodes g))) by (apply (im_get_none Z.eqb Zeqb_spec'); auto).
      split; [apply uniq_nil|]. destruct d; cbn [map In].
      * split; intros b; split; try tauto.
        -- intros HE. apply Hend in HE. tauto.
        -- intros [HE _]. apply Hend in HE. tauto.
      * split; [|tauto]. intros b. split; [tauto|]. intros HE.
        destruct (edge_key_false_cases a b) as [[Hk _]|[Hk _]]; rewrite Hk in HE;
          apply Hend in HE; tauto.
  - intros HGI. pose proof HGI as [HNn [HNe [Hc Hadj]]].
    constructor; unfold nkeys, ekeys; auto.
    + intros a b HE. eapply GI_endpoints; eauto.
    + intros a v Hin. apply (in_im_get Z.eqb Zeqb_spec' _ _ _ HNn) in Hin.
      pose proof (Hadj a) as [HU Hrest]. unfold adjv_of in *. unfold adjv in *. rewrite Hin in *.
      split; [eapply uniq_NoDup; eauto|]. destruct d; auto.
Qed.

(* ---- GI for the empty graph and add_node ---- *)

Lemma GI_new d : GI d [] [].
Proof.
  split; [constructor|]. split; [constructor|]. split; [intros a b []|].
  intros a. split; [apply uniq_nil|]. cbn. destruct d; split; intros b; tauto.
Qed.

Lemma adjv_of_app_empty (nodes : list (Z * list (Z * bool))) n c :
  im_get Z.eqb nodes n = None -> adjv_of (nodes ++ [(n, [])]) c = adjv_of nodes c.
Proof.
  intros Hn. unfold adjv_of. rewrite im_get_app_one. unfold adjv in *.
  destruct (im_get Z.eqb nodes c) eqn:Ec; auto. destruct (n =? c); auto.
Qed.

Lemma GI_add_node d nodes edges n :
  GI d nodes edges -> im_get Z.eqb nodes n = None -> GI d (nodes ++ [(n, [])]) edges.
Proof.
  intros [HNn [HNe [Hc Hadj]]] Hn. split; [|split; [exact HNe|split; [exact Hc|]]].
  - rewrite map_app. apply NoDup_app_one; auto. apply (im_get_none Z.eqb Zeqb_spec'); auto.
  - intros a. rewrite adjv_of_app_empty; auto.
Qed.

(* ------------------------------------------------------------------ *)
(* add_edge: a new key                                                 *)

Lemma adj_ok_add_dir (E : Z * Z -> Prop) a b c v :
  adj_ok true E c v -> ~ E (a, b) ->
  adj_ok true (fun k => E k \/ k = (a, b)) c
    (v ++ (if a =? c then [(b, true)] else []) ++
          (if (b =? c) && negb (a =? b) then [(a, false)] else [])).
Proof.
  intros [HU [Ho Hi]] HnE. cbn [uniq] in HU.
  assert (Hfin : forall v', NoDup v' ->
     (forall y, In y v' <-> In y v \/ (a = c /\ y = (b, true)) \/ (b = c /\ a <> b /\ y = (a, false))) ->
     adj_ok true (fun k => E k \/ k = (a, b)) c v').
  { intros v' HN' HI'. split; [exact HN'|]. split; intros x; rewrite HI'; specialize (Ho x); specialize (Hi x);
      pairs; intuition (congruence || lia). }
  apply Hfin.
  - destruct (a =? c) eqn:E1, (b =? c) eqn:E2, (a =? b) eqn:E3; zb; cbn [andb negb app]; try lia;
      rewrite ?app_nil_r; auto.
    + subst. apply NoDup_app_one; auto. intros HI. apply Ho in HI. auto.
    + subst. apply NoDup_app_one; auto. intros HI. apply Ho in HI. auto.
    + subst. apply NoDup_app_one; auto. intros HI. apply Hi in HI. tauto.
  - intros y. rewrite !in_app_iff.
    destruct (a =? c) eqn:E1, (b =? c) eqn:E2, (a =? b) eqn:E3; zb; cbn [andb negb In]; try lia;
      intuition (congruence || lia).
Qed.

Lemma adj_ok_add_undir (E : Z * Z -> Prop) a b c v :
  adj_ok false E c v -> ~ E (edge_key false a b) ->
  adj_ok false (fun k => E k \/ k = edge_key false a b) c
    (v ++ (if a =? c then [(b, true)] else []) ++
          (if (b =? c) && negb (a =? b) then [(a, false)] else [])).
Proof.
  intros [HU [Ho Hi]] HnE. cbn [uniq] in HU.
  assert (Hfin : forall v', NoDup (map fst v') ->
     (forall y, In y v' <-> In y v \/ (a = c /\ y = (b, true)) \/ (b = c /\ a <> b /\ y = (a, false))) ->
     adj_ok false (fun k => E k \/ k = edge_key false a b) c v').
  { intros v' HN' HI'. split; [exact HN'|]. split.
    - intros x. rewrite edge_key_false_eq, <- Ho. rewrite !in_map_iff. split.
      + intros [[y1 y2] [Hf Hy]]. cbn [fst] in Hf. subst y1. apply HI' in Hy.
        destruct Hy as [Hy|[[H1 H2]|[H1 [H2 H3]]]].
        * left. exists (x, y2); auto.
        * pairs. right. lia.
        * pairs. right. lia.
      + intros [[[y1 y2] [Hf Hy]]|Hr].
        * exists (y1, y2); split; auto. apply HI'; auto.
        * destruct (Z.eq_dec a b) as [Hab|Hab].
          -- exists (x, true); split; auto. apply HI'. right; left. pairs. lia.
          -- destruct Hr as [[H1 H2]|[H1 H2]].
             ++ exists (x, true); split; auto. apply HI'. right; left. pairs. lia.
             ++ exists (x, false); split; auto. apply HI'. right; right. pairs. lia.
    - intros x Hx. apply HI' in Hx. specialize (Hi x). pairs. intuition (congruence || lia). }
  assert (Hnb : a = c -> ~ In b (map fst v)).
  { intros <- HI. apply Ho in HI. auto. }
  assert (Hna : b = c -> ~ In a (map fst v)).
  { intros <- HI. apply Ho in HI. rewrite edge_key_false_sym in HI. auto. }
  apply Hfin.
  - rewrite !map_app.
    destruct (a =? c) eqn:E1, (b =? c) eqn:E2, (a =? b) eqn:E3; zb; cbn [andb negb app map fst]; try lia;
      rewrite ?app_nil_r; auto; apply NoDup_app_one; auto.
  - intros y. rewrite !in_app_iff.
    destruct (a =? c) eqn:E1, (b =? c) eqn:E2, (a =? b) eqn:E3; zb; cbn [andb negb In]; try lia;
      intuition (congruence || lia).
Qed.

Lemma adj_ok_add d (E : Z * Z -> Prop) a b c v :
  adj_ok d E c v -> ~ E (edge_key d a b) ->
  adj_ok d (fun k => E k \/ k = edge_key d a b) c
    (v ++ (if a =? c then [(b, true)] else []) ++
          (if (b =? c) && negb (a =? b) then [(a, false)] else [])).
Proof. destruct d; [apply adj_ok_add_dir | apply adj_ok_add_undir]. Qed.

Definition add_edge_nodes (nodes : list (Z * list (Z * bool))) (a b : Z) : list (Z * list (Z * bool)) :=
  let n1 := push_adj nodes a (b, true) in
  if a =? b then n1 else push_adj n1 b (a, false).

Lemma add_edge_nodes_adjv nodes a b c :
  adjv_of (add_edge_nodes nodes a b) c =
  adjv_of nodes c ++ (if a =? c then [(b, true)] else []) ++
                     (if (b =? c) && negb (a =? b) then [(a, false)] else []).
Proof.
  unfold add_edge_nodes. destruct (a =? b) eqn:E3; cbn [negb]; rewrite ?andb_false_r, ?andb_true_r.
  - rewrite push_adj_adjv. destruct (a =? c) eqn:E1; zb; subst; rewrite ?app_nil_r; auto.
  - rewrite !push_adj_adjv. rewrite E3.
    destruct (b =? c) eqn:E2, (a =? c) eqn:E1; zb; subst; try lia; rewrite ?app_nil_r; auto.
Qed.

Lemma add_edge_nodes_NoDup nodes a b :
  NoDup (map fst nodes) -> NoDup (map fst (add_edge_nodes nodes a b)).
Proof.
  intros HN. unfold add_edge_nodes. destruct (a =? b); auto using push_adj_NoDup.
Qed.

Lemma add_edge_nodes_keys_in nodes a b c :
  In c (map fst (add_edge_nodes nodes a b)) <-> In c (map fst nodes) \/ c = a \/ c = b.
Proof.
  unfold add_edge_nodes. destruct (a =? b) eqn:E; zb; rewrite ?push_adj_keys_in; intuition.
Qed.

Lemma GI_add_edge_new d nodes edges a b w :
  GI d nodes edges -> im_get zpair_eqb edges (edge_key d a b) = None ->
  GI d (add_edge_nodes nodes a b) (edges ++ [(edge_key d a b, w)]).
Proof.
  intros [HNn [HNe [Hc Hadj]]] Hnone.
  assert (HnE : ~ In (edge_key d a b) (map fst edges)) by (apply (im_get_none zpair_eqb zpair_eqb_spec); auto).
  split; [apply add_edge_nodes_NoDup; auto|].
  split; [rewrite map_app; apply NoDup_app_one; auto|].
  split.
  - intros x y. rewrite map_app, in_app_iff. cbn [map fst In]. intros [HI|[HI|[]]]; auto.
    pose proof (edge_key_idem d a b) as Hid. rewrite HI in Hid. exact Hid.
  - intros c. rewrite add_edge_nodes_adjv.
    apply adj_ok_ext with (E := fun k => In k (map fst edges) \/ k = edge_key d a b).
    + intros k. rewrite map_app, in_app_iff. cbn [map fst In]. intuition.
    + apply adj_ok_add; auto.
Qed.

(* add_edge / set_edge_weight on an existing key: the key list is unchanged. *)
Lemma GI_same_keys d nodes edges edges' :
  GI d nodes edges -> map fst edges' = map fst edges -> GI d nodes edges'.
Proof. intros H Hk. unfold GI. rewrite Hk. exact H. Qed.

(* ------------------------------------------------------------------ *)
(* remove_edge                                                         *)

Lemma GI_uniq d nodes edges c : GI d nodes edges -> uniq d (adjv_of nodes c).
Proof. intros [_ [_ [_ Hadj]]]. apply (Hadj c). Qed.

Lemma remove_edge_nodes_spec d (nodes : list (Z * list (Z * bool))) a b e1 n1 e2 n2 :
  (forall c, uniq d (adjv_of nodes c)) ->
  remove_single_edge d nodes a b true = (e1, n1) ->
  (if a =? b then (e1, n1) else remove_single_edge d n1 b a false) = (e2, n2) ->
  map fst n2 = map fst nodes /\
  (forall c, uniq d (adjv_of n2 c)) /\
  (forall c y, In y (adjv_of n2 c) <->
     In y (adjv_of nodes c) /\ ~ (a = c /\ hit d b true y) /\ ~ (b = c /\ a <> b /\ hit d a false y)) /\
  (e1 = true <-> exists y, In y (adjv_of nodes a) /\ hit d b true y) /\
  (e2 = true <-> if a =? b then e1 = true else exists y, In y (adjv_of nodes b) /\ hit d a false y).
Proof.
  intros HU Er1 Er2.
  destruct (rse_spec d nodes a b true e1 n1 Er1 (HU a)) as [Hk1 [Ho1 [HU1 [HI1 He1]]]].
  destruct (a =? b) eqn:Eab; zb.
  - injection Er2 as <- <-. subst b.
    split; [exact Hk1|]. split; [|split; [|split; [exact He1 | tauto]]].
    + intros c. destruct (Z.eq_dec c a) as [->|Hc]; auto. rewrite Ho1; auto.
    + intros c y. destruct (Z.eq_dec c a) as [->|Hc].
      * rewrite HI1. intuition.
      * rewrite Ho1 by auto. intuition.
  - assert (HUb : uniq d (adjv_of n1 b)) by (rewrite Ho1; auto).
    destruct (rse_spec d n1 b a false e2 n2 Er2 HUb) as [Hk2 [Ho2 [HU2 [HI2 He2]]]].
    split; [exact (eq_trans Hk2 Hk1)|]. split; [|split; [|split; [exact He1|]]].
    + intros c. destruct (Z.eq_dec c b) as [->|Hcb]; auto. rewrite Ho2 by auto.
      destruct (Z.eq_dec c a) as [->|Hca]; auto. rewrite Ho1; auto.
    + intros c y. destruct (Z.eq_dec c b) as [->|Hcb].
      * rewrite HI2, Ho1 by auto. intuition.
      * rewrite Ho2 by auto. destruct (Z.eq_dec c a) as [->|Hca].
        -- rewrite HI1. intuition.
        -- rewrite Ho1 by auto. intuition.
    + rewrite He2, Ho1 by auto. tauto.
Qed.

Lemma hit_out d (E : Z * Z -> Prop) a b v :
  adj_ok d E a v -> ((exists y, In y v /\ hit d b true y) <-> E (edge_key d a b)).
Proof.
  intros [_ H]. destruct d; cbn [hit edge_key].
  - destruct H as [Ho _]. rewrite <- Ho. split.
    + intros [y [Hy ->]]; auto.
    + intros Hy; eauto.
  - destruct H as [Ho _]. change (if a <=? b then (a, b) else (b, a)) with (edge_key false a b).
    rewrite <- Ho, in_map_iff. split; intros [y [H1 H2]]; eauto.
Qed.

Lemma hit_in d (E : Z * Z -> Prop) a b v : a <> b ->
  adj_ok d E b v -> ((exists y, In y v /\ hit d a false y) <-> E (edge_key d a b)).
Proof.
  intros Hab [_ H]. destruct d; cbn [hit edge_key].
  - destruct H as [_ Hi]. split.
    + intros [y [Hy ->]]. apply Hi in Hy. tauto.
    + intros HE. exists (a, false). split; auto. apply Hi. auto.
  - destruct H as [Ho _]. change (if a <=? b then (a, b) else (b, a)) with (edge_key false a b).
    rewrite edge_key_false_sym, <- Ho, in_map_iff. split; intros [y [H1 H2]]; eauto.
Qed.

Lemma in_map_fst_iff (v : list (Z * bool)) x : In x (map fst v) <-> exists dir, In (x, dir) v.
Proof.
  rewrite in_map_iff. split.
  - intros [[y1 y2] [Hf Hy]]. cbn [fst] in Hf. subst. eauto.
  - intros [dir Hy]. exists (x, dir); auto.
Qed.

Lemma adj_ok_del d (E : Z * Z -> Prop) a b c v v' :
  adj_ok d E c v -> uniq d v' ->
  (forall y, In y v' <->
     In y v /\ ~ (a = c /\ hit d b true y) /\ ~ (b = c /\ a <> b /\ hit d a false y)) ->
  adj_ok d (fun k => E k /\ k <> edge_key d a b) c v'.
Proof.
  intros [HU H] HU' HI'. split; [exact HU'|]. destruct d; cbn [hit] in *.
  - change (edge_key true a b) with (a, b).
    destruct H as [Ho Hi]. split; intros x; rewrite HI'; specialize (Ho x); specialize (Hi x);
      pairs; intuition (congruence || lia).
  - destruct H as [Ho Hi]. split.
    + intros x. rewrite edge_key_false_eq, <- Ho, !in_map_fst_iff. split.
      * intros [dir Hy]. apply HI' in Hy. cbn [fst] in Hy. split; [exists dir; tauto | lia].
      * intros [[dir Hy] Hne]. exists dir. apply HI'. cbn [fst]. split; auto. lia.
    + intros x Hx. apply HI' in Hx. apply Hi. tauto.
Qed.

Definition is_some {A} (o : option A) : bool := match o with Some _ => true | None => false end.

Lemma remove_edge_spec d debug g a b :
  GI d (gnodes g) (gedges g) ->
  exists nodes',
    remove_edge d debug g a b =
      Ok (im_get zpair_eqb (gedges g) (edge_key d a b),
          mkGm nodes' (snd (im_swap_remove zpair_eqb (gedges g) (edge_key d a b)))) /\
    map fst nodes' = map fst (gnodes g) /\
    GI d nodes' (snd (im_swap_remove zpair_eqb (gedges g) (edge_key d a b))).
Proof.
  intros HGI. pose proof HGI as [HNn [HNe [Hc Hadj]]].
  unfold remove_edge.
  destruct (remove_single_edge d (gnodes g) a b true) as [e1 n1] eqn:Er1.
  destruct (if a =? b then (e1, n1) else remove_single_edge d n1 b a false) as [e2 n2] eqn:Er2.
  destruct (remove_edge_nodes_spec d (gnodes g) a b e1 n1 e2 n2 (fun c => GI_uniq d (gnodes g) (gedges g) c HGI) Er1 Er2)
    as [Hk [HU2 [HI2 [He1 He2]]]].
  set (k := edge_key d a b) in *.
  destruct (im_swap_remove zpair_eqb (gedges g) k) as [w edges'] eqn:Es.
  assert (Hw : w = im_get zpair_eqb (gedges g) k).
  { rewrite <- (im_swap_remove_fst zpair_eqb), Es. reflexivity. }
  assert (He' : edges' = snd (im_swap_remove zpair_eqb (gedges g) k)) by (rewrite Es; reflexivity).
  assert (HwE : is_some w = true <-> In k (map fst (gedges g))).
  { rewrite Hw. pose proof (im_get_none zpair_eqb zpair_eqb_spec (gedges g) k) as Hn.
    destruct (im_get zpair_eqb (gedges g) k) eqn:Eg; cbn [is_some].
    - split; auto. intros _. eapply im_get_some_key; eauto using zpair_eqb_spec.
    - split; [discriminate|]. intros HI. apply Hn in HI; auto. }
  assert (H1E : e1 = true <-> In k (map fst (gedges g))).
  { rewrite He1. apply (hit_out d _ a b _ (Hadj a)). }
  assert (H2E : e2 = true <-> In k (map fst (gedges g))).
  { rewrite He2. destruct (a =? b) eqn:Eab; zb; auto. apply (hit_in d _ a b _ Eab (Hadj b)). }
  assert (Hflags : andb (Bool.eqb e1 e2) (Bool.eqb e1 (is_some w)) = true).
  { apply andb_true_iff. rewrite !eqb_true_iff.
    destruct e1, e2, (is_some w); intuition congruence. }
  fold (is_some w). rewrite Hflags. cbn [negb]. rewrite andb_false_r.
  cbn [snd]. exists n2. rewrite <- Hw. split; [reflexivity|]. split; [exact Hk|].
  unfold adjv in *. split; [rewrite Hk; exact HNn|].
  split; [rewrite He'; apply (im_swap_remove_NoDup zpair_eqb zpair_eqb_spec); exact HNe|].
  assert (HE' : forall k', In k' (map fst edges') <-> In k' (map fst (gedges g)) /\ k' <> k).
  { intros k'. rewrite He'. apply (im_swap_remove_keys_in zpair_eqb zpair_eqb_spec); exact HNe. }
  split.
  - intros x y HI. apply HE' in HI. apply Hc. tauto.
  - intros c. apply adj_ok_ext with (E := fun k' => In k' (map fst (gedges g)) /\ k' <> k).
    + intros k'. symmetry. apply HE'.
    + apply (adj_ok_del d _ a b c _ _ (Hadj c) (HU2 c) (HI2 c)).
Qed.

(* ------------------------------------------------------------------ *)
(* remove_node                                                         *)

Lemma link_key_undir n s dir : link_key false n (s, dir) = edge_key false n s.
Proof. unfold link_key. cbn [fst snd]. destruct dir; auto. apply edge_key_false_sym. Qed.

(* The keys removed by the loop are exactly the keys with an endpoint [n]. *)
Lemma links_keys d (E : Z * Z -> Prop) n v :
  adj_ok d E n v -> (forall x y, E (x, y) -> edge_key d x y = (x, y)) ->
  forall k, E k -> ((forall l, In l v -> k <> link_key d n l) <-> fst k <> n /\ snd k <> n).
Proof.
  intros [_ H] Hc [x y] HE. cbn [fst snd]. destruct d.
  - destruct H as [Ho Hi]. split.
    + intros Hall. split.
      * intros ->. apply Ho in HE. apply (Hall _ HE). reflexivity.
      * intros ->. destruct (Z.eq_dec x n) as [->|Hx].
        -- apply Ho in HE. apply (Hall _ HE). reflexivity.
        -- assert (HI : In (x, false) v) by (apply Hi; auto). apply (Hall _ HI). reflexivity.
    + intros [Hx Hy] [s dir] Hl. unfold link_key. cbn [fst snd edge_key].
      destruct dir; pairs; lia.
  - destruct H as [Ho _]. pose proof (Hc _ _ HE) as Hcan. split.
    + intros Hall. split.
      * intros ->. rewrite <- Hcan in HE. apply Ho in HE. apply in_map_fst_iff in HE.
        destruct HE as [dir HI]. apply (Hall _ HI). rewrite link_key_undir. auto.
      * intros ->. rewrite <- Hcan, edge_key_false_sym in HE. apply Ho in HE. apply in_map_fst_iff in HE.
        destruct HE as [dir HI]. apply (Hall _ HI). rewrite link_key_undir, edge_key_false_sym. auto.
    + intros [Hx Hy] [s dir] Hl. rewrite link_key_undir, <- Hcan, edge_key_false_eq. lia.
Qed.

Lemma adj_ok_nil d (E : Z * Z -> Prop) n :
  (forall b, ~ E (n, b)) -> (forall b, ~ E (b, n)) -> adj_ok d E n [].
Proof.
  intros H1 H2. split; [apply uniq_nil|]. destruct d; cbn [map In].
  - split; intros b; split; try tauto.
    + intros HE. apply H1 in HE. auto.
    + intros [HE _]. apply H2 in HE. auto.
  - split; [|tauto]. intros b. split; [tauto|]. intros HE.
    destruct (edge_key_false_cases n b) as [[Hk _]|[Hk _]]; rewrite Hk in HE.
    + apply H1 in HE. auto.
    + apply H2 in HE. auto.
Qed.

Lemma adj_ok_remove_node d (E : Z * Z -> Prop) n c v vn v' :
  c <> n -> adj_ok d E c v -> adj_ok d E n vn -> uniq d v' ->
  (forall y, In y v' <->
     In y v /\ forall l, In l vn -> fst l = c -> ~ hit d n (negb (snd l)) y) ->
  adj_ok d (fun k => E k /\ fst k <> n /\ snd k <> n) c v'.
Proof.
  intros Hcn [_ Hv] [_ Hvn] HU' HI'. split; [exact HU'|]. destruct d; cbn [hit fst snd] in *.
  - destruct Hv as [Ho Hi]. destruct Hvn as [Hno Hni]. split.
    + intros x. rewrite HI', Ho. split.
      * intros [HE Hall]. split; auto. split; auto. intros ->.
        assert (Hl : In (c, false) vn) by (apply Hni; auto).
        apply (Hall _ Hl); reflexivity.
      * intros [HE [_ Hx]]. split; auto. intros [s dir] Hl Hs. pairs. lia.
    + intros x. rewrite HI', Hi. split.
      * intros [[HE Hne] Hall]. repeat split; auto. intros ->.
        assert (Hl : In (c, true) vn) by (apply Hno; auto).
        apply (Hall _ Hl); reflexivity.
      * intros [[HE [Hx _]] Hne]. split; auto. intros [s dir] Hl Hs. pairs. lia.
  - destruct Hv as [Ho Hi]. destruct Hvn as [Hno _]. split.
    + intros x. rewrite !in_map_fst_iff. split.
      * intros [dir Hy]. apply HI' in Hy. destruct Hy as [Hy Hall]. cbn [fst] in Hall.
        assert (HE : E (edge_key false c x)) by (apply Ho, in_map_fst_iff; eauto).
        split; auto.
        assert (Hxn : x <> n).
        { intros ->. rewrite edge_key_false_sym in HE. apply Hno, in_map_fst_iff in HE.
          destruct HE as [dir' Hl]. apply (Hall _ Hl); reflexivity. }
        destruct (edge_key_false_cases c x) as [[Hk _]|[Hk _]]; rewrite Hk; cbn [fst snd]; auto.
      * intros [HE [H1 H2]]. apply Ho, in_map_fst_iff in HE. destruct HE as [dir Hy].
        exists dir. apply HI'. split; auto. intros l Hl Hf. cbn [fst].
        destruct (edge_key_false_cases c x) as [[Hk _]|[Hk _]]; rewrite Hk in *; cbn [fst snd] in *; auto.
    + intros x Hx. apply HI' in Hx. apply Hi. tauto.
Qed.

Lemma remove_node_absent d g n : im_get Z.eqb (gnodes g) n = None -> remove_node d g n = (false, g).
Proof.
  intros H. unfold remove_node, im_swap_remove. apply im_index_of_none in H.
  unfold adjv in *. rewrite H. reflexivity.
Qed.

Lemma remove_node_spec d g n links :
  GI d (gnodes g) (gedges g) -> im_get Z.eqb (gnodes g) n = Some links ->
  exists n2 e2,
    remove_node d g n = (true, mkGm n2 e2) /\ GI d n2 e2 /\
    (forall c, In c (map fst n2) <-> In c (map fst (gnodes g)) /\ c <> n) /\
    (forall k w, In (k, w) e2 <-> In (k, w) (gedges g) /\ fst k <> n /\ snd k <> n).
Proof.
  intros HGI Hn. pose proof HGI as [HNn [HNe [Hc Hadj]]].
  unfold remove_node.
  destruct (im_swap_remove Z.eqb (gnodes g) n) as [o nodes'] eqn:Es.
  assert (Ho : o = Some links).
  { rewrite <- Hn, <- (im_swap_remove_fst Z.eqb). unfold adjv in *. rewrite Es. reflexivity. }
  assert (Hn' : nodes' = snd (im_swap_remove Z.eqb (gnodes g) n)).
  { unfold adjv in *. rewrite Es. reflexivity. }
  subst o.
  destruct (remove_links d n links nodes' (gedges g)) as [n2 e2] eqn:Erl.
  exists n2, e2. split; [reflexivity|].
  assert (HA' : forall c, adjv_of nodes' c = if n =? c then [] else adjv_of (gnodes g) c).
  { intros c. unfold adjv_of. rewrite Hn'. unfold adjv in *.
    rewrite (im_swap_remove_get Z.eqb Zeqb_spec') by exact HNn. destruct (n =? c); reflexivity. }
  assert (HU' : forall c, uniq d (adjv_of nodes' c)).
  { intros c. rewrite HA'. destruct (n =? c); [apply uniq_nil | apply (Hadj c)]. }
  destruct (remove_links_spec d n links nodes' (gedges g) n2 e2 Erl HU' HNe)
    as [Hk2 [HU2 [HI2 [HN2 HE2]]]].
  assert (Hlinks : adjv_of (gnodes g) n = links).
  { unfold adjv_of. unfold adjv in *. rewrite Hn. reflexivity. }
  pose proof (Hadj n) as Hadjn. rewrite Hlinks in Hadjn.
  assert (HEk : forall k w, In (k, w) e2 <-> In (k, w) (gedges g) /\ fst k <> n /\ snd k <> n).
  { intros k w. rewrite HE2. split.
    - intros [HI Hall]. split; auto.
      apply (links_keys d _ n links Hadjn Hc k); auto. apply (in_map fst) in HI. exact HI.
    - intros [HI Hne]. split; auto.
      apply (links_keys d _ n links Hadjn Hc k); auto. apply (in_map fst) in HI. exact HI. }
  assert (HEk' : forall k, In k (map fst e2) <-> In k (map fst (gedges g)) /\ fst k <> n /\ snd k <> n).
  { intros k. rewrite !in_map_iff. split.
    - intros [[k0 w] [Hf HI]]. cbn [fst] in Hf. subst k0. apply HEk in HI.
      split; [exists (k, w); tauto | tauto].
    - intros [[[k0 w] [Hf HI]] Hne]. cbn [fst] in Hf. subst k0. exists (k, w). split; auto.
      apply HEk; auto. }
  assert (Hkeys : forall c, In c (map fst n2) <-> In c (map fst (gnodes g)) /\ c <> n).
  { intros c. unfold adjv in *. rewrite Hk2, Hn'.
    apply (im_swap_remove_keys_in Z.eqb Zeqb_spec'). exact HNn. }
  split; [|split; [exact Hkeys | exact HEk]].
  split; [|split; [exact HN2|split]].
  - unfold adjv in *. rewrite Hk2, Hn'. apply (im_swap_remove_NoDup Z.eqb Zeqb_spec'). exact HNn.
  - intros x y HI. apply HEk' in HI. apply Hc. tauto.
  - intros c. apply adj_ok_ext with (E := fun k => In k (map fst (gedges g)) /\ fst k <> n /\ snd k <> n).
    + intros k. symmetry. apply HEk'.
    + destruct (Z.eq_dec c n) as [->|Hcn].
      * assert (Hnil : adjv_of n2 n = []).
        { destruct (adjv_of n2 n) as [|y t] eqn:Ey; auto. exfalso.
          assert (HI : In y (adjv_of n2 n)) by (rewrite Ey; left; auto).
          apply HI2 in HI. rewrite HA', Z.eqb_refl in HI. tauto. }
        rewrite Hnil. apply adj_ok_nil; intros b; cbn [fst snd]; tauto.
      * apply (adj_ok_remove_node d _ n c (adjv_of (gnodes g) c) links (adjv_of n2 c) Hcn (Hadj c) Hadjn (HU2 c)).
        intros y. rewrite HI2, HA'. rewrite (proj2 (Z.eqb_neq n c)) by auto. reflexivity.
Qed.

(* ------------------------------------------------------------------ *)
(* T1: the invariant holds initially and is preserved; each lemma also
   describes the new node set and edge map at the level of membership. *)

Lemma edge_key_ends d a b : edge_key d a b = (a, b) \/ edge_key d a b = (b, a).
Proof. unfold edge_key. destruct d; auto. destruct (a <=? b); auto. Qed.

Theorem GInv_new d : GInv d gm_new.
Proof. apply GInv_GI. apply GI_new. Qed.

Lemma contains_node_iff g n : contains_node g n = true <-> In n (nkeys g).
Proof.
  unfold contains_node, nkeys. rewrite nkey_iff.
  destruct (im_get Z.eqb (gnodes g) n); split; congruence.
Qed.

Theorem add_node_full d g n : GInv d g ->
  GInv d (add_node g n) /\
  (forall c, In c (nkeys (add_node g n)) <-> In c (nkeys g) \/ c = n) /\
  gedges (add_node g n) = gedges g.
Proof.
  intros HI. pose proof (proj1 (GInv_GI d g) HI) as HGI. unfold add_node.
  destruct (im_get Z.eqb (gnodes g) n) as [v|] eqn:En.
  - split; [exact HI|]. split; [|reflexivity]. intros c. split; auto.
    intros [H| ->]; auto. apply nkey_iff. unfold nkeys, adjv in *. congruence.
  - split; [apply GInv_GI; cbn [gnodes gedges]; apply GI_add_node; auto|].
    split; [|reflexivity]. intros c. unfold nkeys. cbn [gnodes]. rewrite map_app, in_app_iff.
    cbn [map fst In]. intuition.
Qed.

Theorem add_edge_full d g a b w : GInv d g ->
  fst (add_edge d g a b w) = edge_weight d g a b /\
  GInv d (snd (add_edge d g a b w)) /\
  (forall c, In c (nkeys (snd (add_edge d g a b w))) <-> In c (nkeys g) \/ c = a \/ c = b) /\
  (forall k' w', In (k', w') (gedges (snd (add_edge d g a b w))) <->
     (k' = edge_key d a b /\ w' = w) \/ (k' <> edge_key d a b /\ In (k', w') (gedges g))).
Proof.
  intros HI. pose proof (proj1 (GInv_GI d g) HI) as HGI. pose proof HGI as [HNn [HNe [Hc Hadj]]].
  unfold add_edge, edge_weight. set (k := edge_key d a b).
  pose proof (im_insert_fst zpair_eqb (gedges g) k w) as Hfst.
  pose proof (im_insert_in zpair_eqb zpair_eqb_spec (gedges g) k w) as Hin.
  pose proof (im_insert_keys zpair_eqb (gedges g) k w) as Hkeys.
  pose proof (im_insert_new zpair_eqb (gedges g) k w) as Hnew.
  destruct (im_insert zpair_eqb (gedges g) k w) as [old edges'] eqn:Ei. cbn [fst snd] in *.
  destruct old as [w0|].
  - cbn [fst snd gnodes gedges]. split; [exact Hfst|]. rewrite <- Hfst in Hkeys.
    split; [apply GInv_GI; cbn [gnodes gedges]; eapply GI_same_keys; eauto|].
    split; [|intros k' w'; apply Hin; exact HNe].
    intros c. unfold nkeys; cbn [gnodes]. split; auto. intros [H|H]; auto.
    assert (HE : In k (map fst (gedges g))).
    { symmetry in Hfst. eapply im_get_some_key; eauto using zpair_eqb_spec. }
    unfold k in HE. destruct (edge_key_ends d a b) as [Hk|Hk]; rewrite Hk in HE;
      destruct (GI_endpoints d _ _ _ _ HGI HE) as [H1 H2]; destruct H as [-> | ->]; auto.
  - cbn [fst snd gnodes gedges]. split; [exact Hfst|]. symmetry in Hfst.
    rewrite (Hnew Hfst) in *.
    split; [apply GInv_GI; cbn [gnodes gedges]; apply (GI_add_edge_new d _ _ a b w HGI Hfst)|].
    split; [|intros k' w'; apply Hin; exact HNe].
    intros c. unfold nkeys; cbn [gnodes]. apply (add_edge_nodes_keys_in (gnodes g) a b c).
Qed.

Theorem remove_edge_full d debug g a b : GInv d g ->
  exists g', remove_edge d debug g a b = Ok (edge_weight d g a b, g') /\
    GInv d g' /\ nkeys g' = nkeys g /\
    (forall k' w', In (k', w') (gedges g') <-> In (k', w') (gedges g) /\ k' <> edge_key d a b).
Proof.
  intros HI. pose proof (proj1 (GInv_GI d g) HI) as HGI. pose proof HGI as [HNn [HNe [Hc Hadj]]].
  destruct (remove_edge_spec d debug g a b HGI) as [nodes' [Heq [Hk HGI']]].
  eexists. split; [exact Heq|]. split; [apply GInv_GI; exact HGI'|]. split; [exact Hk|].
  intros k' w'. cbn [gedges]. apply (im_swap_remove_in zpair_eqb zpair_eqb_spec). exact HNe.
Qed.

Theorem remove_node_full d g n : GInv d g ->
  fst (remove_node d g n) = contains_node g n /\
  GInv d (snd (remove_node d g n)) /\
  (forall c, In c (nkeys (snd (remove_node d g n))) <-> In c (nkeys g) /\ c <> n) /\
  (forall k w, In (k, w) (gedges (snd (remove_node d g n))) <->
     In (k, w) (gedges g) /\ fst k <> n /\ snd k <> n).
Proof.
  intros HI. pose proof (proj1 (GInv_GI d g) HI) as HGI. unfold contains_node.
  destruct (im_get Z.eqb (gnodes g) n) as [links|] eqn:En.
  - destruct (remove_node_spec d g n links HGI En) as [n2 [e2 [Heq [HGI' [Hk HE]]]]].
    rewrite Heq. cbn [fst snd]. split; [reflexivity|]. split; [apply GInv_GI; exact HGI'|].
    split; [exact Hk | exact HE].
  - rewrite remove_node_absent by exact En. cbn [fst snd]. split; [reflexivity|]. split; [exact HI|].
    assert (Hnot : ~ In n (nkeys g)) by (apply (im_get_none Z.eqb Zeqb_spec'); exact En).
    split.
    + intros c. split; [|tauto]. intros Hc. split; auto. intros ->. auto.
    + intros [x y] w. cbn [fst snd]. split; [|tauto]. intros HE. split; auto.
      apply (in_map fst) in HE. cbn [fst] in HE. apply (gi_endpoints d g HI) in HE.
      split; intros ->; tauto.
Qed.

Theorem set_edge_weight_full d g a b v : GInv d g ->
  fst (set_edge_weight d g a b v) = contains_edge d g a b /\
  GInv d (snd (set_edge_weight d g a b v)) /\
  nkeys (snd (set_edge_weight d g a b v)) = nkeys g /\
  (forall k' w', In (k', w') (gedges (snd (set_edge_weight d g a b v))) <->
     (k' = edge_key d a b /\ w' = v /\ In k' (ekeys g)) \/ (k' <> edge_key d a b /\ In (k', w') (gedges g))).
Proof.
  intros HI. pose proof (proj1 (GInv_GI d g) HI) as HGI. pose proof HGI as [HNn [HNe [Hc Hadj]]].
  unfold set_edge_weight, contains_edge, edge_weight. set (k := edge_key d a b).
  destruct (im_get zpair_eqb (gedges g) k) as [w0|] eqn:Ek; cbn [fst snd gnodes gedges].
  - split; [reflexivity|].
    assert (HE : In k (ekeys g)) by (eapply im_get_some_key; eauto using zpair_eqb_spec).
    split; [|split; [reflexivity|]].
    + apply GInv_GI; cbn [gnodes gedges]. eapply GI_same_keys; eauto.
      rewrite im_insert_keys, Ek. reflexivity.
    + intros k' w'. rewrite (im_insert_in zpair_eqb zpair_eqb_spec) by exact HNe.
      split; intros [[H1 H2]|H]; auto.
      * left. subst. auto.
      * left. tauto.
  - split; [reflexivity|]. split; [exact HI|]. split; [reflexivity|].
    assert (HnE : ~ In k (ekeys g)) by (apply (im_get_none zpair_eqb zpair_eqb_spec); exact Ek).
    intros k' w'. split.
    + intros HE. right. split; auto. intros ->. apply HnE. apply (in_map fst) in HE. exact HE.
    + intros [[-> [_ HE]]|[_ HE]]; tauto.
Qed.

Lemma extend_edges_ind (P : gm -> Prop) d :
  (forall g a b w, P g -> P (snd (add_edge d g a b w))) ->
  forall l g, P g -> P (extend_edges d g l).
Proof.
  intros Hstep l.
  assert (H : forall n l, (length l <= n)%nat -> forall g, P g -> P (extend_edges d g l)).
  { intros n. induction n as [|n IH]; intros l0 Hlen g HP.
    - destruct l0; [exact HP | cbn [length] in Hlen; lia].
    - destruct l0 as [|a [|b [|w rest]]]; cbn [extend_edges]; auto.
      apply IH; [cbn [length] in Hlen; lia | apply Hstep; exact HP]. }
  apply (H (length l)). lia.
Qed.

Theorem extend_edges_inv d l g : GInv d g -> GInv d (extend_edges d g l).
Proof.
  apply (extend_edges_ind (GInv d)). intros g0 a b w HI. apply add_edge_full; exact HI.
Qed.

Theorem add_node_inv d g n : GInv d g -> GInv d (add_node g n).
Proof. intros HI. apply (add_node_full d g n HI). Qed.

Theorem add_edge_inv d g a b w : GInv d g -> GInv d (snd (add_edge d g a b w)).
Proof. intros HI. apply (add_edge_full d g a b w HI). Qed.

Theorem remove_edge_inv d debug g a b : GInv d g ->
  exists g', remove_edge d debug g a b = Ok (edge_weight d g a b, g') /\ GInv d g'.
Proof.
  intros HI. destruct (remove_edge_full d debug g a b HI) as [g' [Heq [HI' _]]]. eauto.
Qed.

Theorem remove_node_inv d g n : GInv d g -> GInv d (snd (remove_node d g n)).
Proof. intros HI. apply (remove_node_full d g n HI). Qed.

Theorem set_edge_weight_inv d g a b v : GInv d g -> GInv d (snd (set_edge_weight d g a b v)).
Proof. intros HI. apply (set_edge_weight_full d g a b v HI). Qed.
