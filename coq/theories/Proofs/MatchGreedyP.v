(* greedy_matching (matching.rs): the mate vector returned by the model is a valid matching of
   the view, and the model neither panics nor runs out of fuel (M2). *)
From PG Require Import Lib.Io Model.View Model.Traversal Model.MatchM Spec.Reach Spec.MatchSpec
  Proofs.TravBase.

(* ------------------------------------------------------------------ *)
(* m_mate and upd                                                      *)

Lemma m_mate_upd m i o j :
  m_mate (upd m i o) j =
  if Nat.eqb i j then (if Nat.ltb i (length m) then o else None) else m_mate m j.
Proof.
  unfold m_mate. rewrite nth_error_upd.
  destruct (Nat.eqb i j); [destruct (Nat.ltb i (length m))|]; reflexivity.
Qed.

Lemma m_mate_lt m i j : m_mate m i = Some j -> i < length m.
Proof.
  unfold m_mate. intros H. destruct (nth_error m i) as [o|] eqn:E; [|discriminate].
  eapply nth_error_Some_lt; eauto.
Qed.

Lemma m_mate_repeat_None k i : m_mate (repeat None k) i = None.
Proof.
  unfold m_mate. destruct (nth_error (repeat None k) i) as [o|] eqn:E; [|reflexivity].
  apply nth_error_In, repeat_spec in E. exact E.
Qed.

Lemma m_mate_cons_S h t i : m_mate (h :: t) (S i) = m_mate t i.
Proof. reflexivity. Qed.

Lemma m_mate_cons_0 h t : m_mate (h :: t) 0 = h.
Proof. unfold m_mate. cbn [nth_error]. reflexivity. Qed.

(* ------------------------------------------------------------------ *)
(* length (m_edges m) as a sum of 0/1 weights                          *)

Definition ew (i : nat) (o : option nat) : nat :=
  match o with Some j => if Nat.ltb i j then 1 else 0 | None => 0 end.

Fixpoint esum (k : nat) (m : list (option nat)) : nat :=
  match m with [] => 0 | o :: t => ew k o + esum (S k) t end.

Lemma m_edges_len_gen : forall m k,
  length (flat_map (fun '(i, o) => match o with
                                   | Some j => if Nat.ltb i j then [(i, j)] else []
                                   | None => @nil (nat * nat) end)
                   (combine (seq k (length m)) m)) = esum k m.
Proof.
  induction m as [|o t IH]; intros k; cbn [length seq combine flat_map esum]; [reflexivity|].
  rewrite app_length, IH. f_equal. unfold ew.
  destruct o as [j|]; [destruct (Nat.ltb k j)|]; reflexivity.
Qed.

Lemma m_edges_length m : length (m_edges m) = esum 0 m.
Proof. unfold m_edges. apply m_edges_len_gen. Qed.

Lemma esum_upd : forall m k i o, i < length m ->
  esum k (upd m i o) + ew (k + i) (m_mate m i) = esum k m + ew (k + i) o.
Proof.
  induction m as [|h t IH]; intros k i o Hi; cbn [length] in Hi; [lia|].
  destruct i as [|i].
  - cbn [upd esum]. rewrite m_mate_cons_0, Nat.add_0_r. lia.
  - cbn [upd esum]. rewrite m_mate_cons_S.
    assert (Hi' : i < length t) by lia.
    specialize (IH (S k) i o Hi'). replace (k + S i) with (S k + i) by lia. lia.
Qed.

Lemma esum_repeat_None n : forall k, esum k (repeat None n) = 0.
Proof. induction n as [|n IH]; intros k; cbn [repeat esum ew]; [reflexivity|]. rewrite IH. reflexivity. Qed.

(* matching two unmatched, distinct, in-range nodes adds exactly one edge *)
Lemma m_edges_length_pair m p t :
  p < length m -> t < length m -> p <> t -> m_mate m p = None -> m_mate m t = None ->
  length (m_edges (upd (upd m p (Some t)) t (Some p))) = S (length (m_edges m)).
Proof.
  intros Hp Ht Hne Ep Et. rewrite !m_edges_length.
  pose proof (esum_upd m 0 p (Some t) Hp) as H1. rewrite Ep in H1.
  assert (Ht' : t < length (upd m p (Some t))) by (rewrite upd_length; exact Ht).
  pose proof (esum_upd (upd m p (Some t)) 0 t (Some p) Ht') as H2.
  rewrite m_mate_upd in H2. destruct (Nat.eqb_spec p t) as [E|_]; [contradiction|].
  rewrite Et in H2. cbn [ew Nat.add] in H1, H2.
  destruct (Nat.ltb_spec p t) as [L1|L1]; destruct (Nat.ltb_spec t p) as [L2|L2]; lia.
Qed.

(* ------------------------------------------------------------------ *)
(* symmetry is kept by matching two unmatched nodes                    *)

Lemma msym_pair m p t :
  p < length m -> t < length m -> p <> t -> m_mate m p = None -> m_mate m t = None ->
  msym m -> msym (upd (upd m p (Some t)) t (Some p)).
Proof.
  intros Hp Ht Hne Ep Et Hs i j H.
  assert (Hp' : Nat.ltb p (length m) = true) by (apply Nat.ltb_lt; exact Hp).
  assert (Ht' : Nat.ltb t (length (upd m p (Some t))) = true)
    by (apply Nat.ltb_lt; rewrite upd_length; exact Ht).
  rewrite !m_mate_upd, Hp', Ht' in *.
  destruct (Nat.eqb_spec t i) as [<-|Nti].
  - injection H as <-. split; [|congruence].
    destruct (Nat.eqb_spec t p) as [E|_]; [congruence|]. rewrite Nat.eqb_refl. reflexivity.
  - destruct (Nat.eqb_spec p i) as [<-|Npi].
    + injection H as <-. split; [|exact Hne]. rewrite Nat.eqb_refl. reflexivity.
    + destruct (Hs i j H) as [Hji Hij]. split; [|exact Hij].
      destruct (Nat.eqb_spec t j) as [<-|_]; [congruence|].
      destruct (Nat.eqb_spec p j) as [<-|_]; [congruence|]. exact Hji.
Qed.

Lemma first_unvisited_some m : forall l x,
  first_unvisited m l = Some x -> In x l /\ mem x m = false.
Proof.
  induction l as [|a t IH]; intros x H; cbn [first_unvisited] in H; [discriminate|].
  unfold is_visited in H. destruct (mem a m) eqn:Em.
  - destruct (IH x H) as [Hin Hm]. split; [right; exact Hin | exact Hm].
  - injection H as <-. split; [left; reflexivity | exact Em].
Qed.

(* ------------------------------------------------------------------ *)
(* the invariant                                                       *)

Section Greedy.
Variable v : view.
Hypothesis HM : MOk v.

Record GInv (s : gst) : Prop := {
  gi_len : length (g_mate s) = vbound v;
  gi_sym : msym (g_mate s);
  gi_join : forall i j, m_mate (g_mate s) i = Some j -> joined v i j;
  gi_n : g_n s = length (m_edges (g_mate s));
  gi_nd : NoDup (g_vis s);
  gi_incl : forall x, In x (g_vis s) -> In x (vnodes v)
}.

Lemma node_cap a : In a (vnodes v) -> in_cap v a.
Proof. destruct HM as [[[_ Hc] _] _]. apply Hc. Qed.

Lemma node_lt a : In a (vnodes v) -> a < vbound v.
Proof. destruct HM as [_ Hb]. apply Hb. Qed.

Lemma nb_node a b : In b (neighbors v a) -> In b (vnodes v).
Proof. destruct HM as [[_ [Hn _]] _]. intros H. apply (Hn a b H). Qed.

Lemma vis_length s : GInv s -> length (g_vis s) <= length (vnodes v).
Proof. intros I. apply NoDup_incl_length; [apply (gi_nd _ I) | intros x; apply (gi_incl _ I)]. Qed.

(* one neighbour-DFS: at entry the node held in g_last (if any) is the source itself; every
   matched node is visited, except possibly the source when g_last = None (it has just been
   matched by the caller and is about to be marked) *)
Lemma nb_dfs_ok : forall fuel source s,
  GInv s -> In source (vnodes v) ->
  (forall p, g_last s = Some p -> p = source) ->
  (forall i j, m_mate (g_mate s) i = Some j -> In i (g_vis s) \/ (i = source /\ g_last s = None)) ->
  length (vnodes v) + 1 <= fuel + length (g_vis s) ->
  exists s', nb_dfs fuel v source s = Ok s' /\ GInv s' /\
             (forall i j, m_mate (g_mate s') i = Some j -> In i (g_vis s')).
Proof.
  induction fuel as [|f IH]; intros source s I Hsrc Hlast Hvis Hfuel.
  - pose proof (vis_length s I). lia.
  - cbn [nb_dfs]. rewrite (visit_ok v (g_vis s) source (node_cap _ Hsrc)). cbn [rbind].
    destruct (mem source (g_vis s)) eqn:Em; cbn [negb].
    + (* already visited *)
      apply mem_In in Em. eexists; split; [reflexivity|]. split.
      * destruct I as [H1 H2 H3 H4 H5 H6]. constructor; cbn [g_mate g_n g_vis]; assumption.
      * cbn [g_mate g_vis]. intros i j Hij. destruct (Hvis i j Hij) as [Hi|[-> _]]; assumption.
    + apply mem_false in Em.
      assert (Hnd' : NoDup (source :: g_vis s)) by (constructor; [exact Em | apply (gi_nd _ I)]).
      assert (Hincl' : forall x, In x (source :: g_vis s) -> In x (vnodes v)).
      { intros x [<-|Hx]; [exact Hsrc | apply (gi_incl _ I), Hx]. }
      assert (Hvis' : forall i j, m_mate (g_mate s) i = Some j -> In i (source :: g_vis s)).
      { intros i j Hij. destruct (Hvis i j Hij) as [Hi|[-> _]]; [right; exact Hi | left; reflexivity]. }
      destruct (first_unvisited (source :: g_vis s) (neighbors v source)) as [target|] eqn:Ef.
      * apply first_unvisited_some in Ef. destruct Ef as [Hnb Hfresh].
        apply mem_false in Hfresh.
        assert (Htn : In target (vnodes v)) by (apply (nb_node source), Hnb).
        assert (Htm : m_mate (g_mate s) target = None).
        { destruct (m_mate (g_mate s) target) as [j|] eqn:E; [|reflexivity].
          exfalso. apply Hfresh. apply (Hvis' target j E). }
        assert (Hne : source <> target).
        { intros ->. apply Hfresh. left; reflexivity. }
        unfold g_visitor. cbn [g_last g_mate g_n g_vis].
        destruct (g_last s) as [p|] eqn:El.
        -- (* the edge (source, target) is matched *)
           assert (p = source) by (apply Hlast; reflexivity). subst p.
           assert (Hsm : m_mate (g_mate s) source = None).
           { destruct (m_mate (g_mate s) source) as [j|] eqn:E; [|reflexivity].
             exfalso. destruct (Hvis source j E) as [Hi|[_ Hn]]; [contradiction | discriminate]. }
           assert (Hsl : source < length (g_mate s)) by (rewrite (gi_len _ I); apply node_lt, Hsrc).
           assert (Htl : target < length (g_mate s)) by (rewrite (gi_len _ I); apply node_lt, Htn).
           unfold setp. rewrite (proj2 (Nat.ltb_lt _ _) Hsl). cbn [rbind].
           rewrite upd_length, (proj2 (Nat.ltb_lt _ _) Htl). cbn [rbind].
           apply IH; cbn [g_mate g_n g_vis g_last].
           ++ constructor; cbn [g_mate g_n g_vis].
              ** rewrite !upd_length. apply (gi_len _ I).
              ** apply msym_pair; auto. apply (gi_sym _ I).
              ** intros i j. rewrite !m_mate_upd, upd_length.
                 rewrite (proj2 (Nat.ltb_lt _ _) Hsl), (proj2 (Nat.ltb_lt _ _) Htl).
                 destruct (Nat.eqb_spec target i) as [<-|_].
                 --- intros H; injection H as <-. right. exact Hnb.
                 --- destruct (Nat.eqb_spec source i) as [<-|_].
                     +++ intros H; injection H as <-. left. exact Hnb.
                     +++ apply (gi_join _ I).
              ** rewrite m_edges_length_pair by auto. f_equal. apply (gi_n _ I).
              ** exact Hnd'.
              ** exact Hincl'.
           ++ exact Htn.
           ++ intros p H; discriminate.
           ++ intros i j. rewrite !m_mate_upd, upd_length.
              rewrite (proj2 (Nat.ltb_lt _ _) Hsl), (proj2 (Nat.ltb_lt _ _) Htl).
              destruct (Nat.eqb_spec target i) as [<-|_]; [intros _; right; split; reflexivity|].
              destruct (Nat.eqb_spec source i) as [<-|_]; [intros _; left; left; reflexivity|].
              intros H. left. apply (Hvis' i j H).
           ++ cbn [length]. lia.
        -- (* target becomes the pending node *)
           cbn [rbind]. apply IH; cbn [g_mate g_n g_vis g_last].
           ++ destruct I as [H1 H2 H3 H4 H5 H6]. constructor; cbn [g_mate g_n g_vis]; assumption.
           ++ exact Htn.
           ++ intros p H; injection H as <-; reflexivity.
           ++ intros i j H. left. apply (Hvis' i j H).
           ++ cbn [length]. lia.
      * eexists; split; [reflexivity|]. split.
        -- destruct I as [H1 H2 H3 H4 H5 H6]. constructor; cbn [g_mate g_n g_vis]; assumption.
        -- cbn [g_mate g_vis]. exact Hvis'.
Qed.

Definition gstep (acc : res gst) (start : nat) : res gst :=
  rbind acc (fun s =>
    nb_dfs (S (S (length (vnodes v)))) v start (mkGst (g_mate s) (g_n s) (g_vis s) (Some start))).

Lemma greedy_fold_ok : forall l s,
  (forall x, In x l -> In x (vnodes v)) -> GInv s ->
  (forall i j, m_mate (g_mate s) i = Some j -> In i (g_vis s)) ->
  exists s', fold_left gstep l (Ok s) = Ok s' /\ GInv s' /\
             (forall i j, m_mate (g_mate s') i = Some j -> In i (g_vis s')).
Proof.
  induction l as [|a t IH]; intros s Hl I Hvis; cbn [fold_left].
  - exists s. auto.
  - unfold gstep at 2. cbn [rbind].
    destruct (nb_dfs_ok (S (S (length (vnodes v)))) a (mkGst (g_mate s) (g_n s) (g_vis s) (Some a)))
      as [s1 [E1 [I1 V1]]]; cbn [g_mate g_n g_vis g_last].
    + destruct I as [H1 H2 H3 H4 H5 H6]. constructor; cbn [g_mate g_n g_vis]; assumption.
    + apply Hl; left; reflexivity.
    + intros p H; injection H as <-; reflexivity.
    + intros i j H. left. apply (Hvis i j H).
    + lia.
    + rewrite E1. apply IH; auto. intros x Hx; apply Hl; right; exact Hx.
Qed.

Theorem greedy_inner_valid_sec : exists m n, greedy_inner v = Ok (m, n) /\ valid_matching v m n.
Proof.
  destruct (greedy_fold_ok (vnodes v) (mkGst (repeat None (vbound v)) 0 [] None)) as [s' [E [I _]]].
  - auto.
  - constructor; cbn [g_mate g_n g_vis].
    + apply repeat_length.
    + intros i j H. rewrite m_mate_repeat_None in H. discriminate.
    + intros i j H. rewrite m_mate_repeat_None in H. discriminate.
    + rewrite m_edges_length, esum_repeat_None. reflexivity.
    + constructor.
    + intros x [].
  - cbn [g_mate]. intros i j H. rewrite m_mate_repeat_None in H. discriminate.
  - exists (g_mate s'), (g_n s'). split.
    + unfold greedy_inner. fold gstep. rewrite E. reflexivity.
    + split; [apply (gi_len _ I)|]. split; [apply (gi_sym _ I)|]. split; [|apply (gi_n _ I)].
      intros i j H. split; [apply (gi_join _ I i j H) | apply (gi_sym _ I i j H)].
Qed.

End Greedy.

Theorem greedy_inner_valid v : MOk v -> exists m n, greedy_inner v = Ok (m, n) /\ valid_matching v m n.
Proof. intros HM. apply greedy_inner_valid_sec. exact HM. Qed.

Print Assumptions greedy_inner_valid.
