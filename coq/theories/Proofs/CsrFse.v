(* from_sorted_edges: succeeds exactly on strictly sorted input, never panics or
   runs out of fuel, and then represents the graph built edge by edge. *)
From PG Require Import Lib.ListExtra Lib.Io Model.CsrM Spec.CsrSpec Proofs.CsrSearch Proofs.CsrP Proofs.CsrR Proofs.CsrH.
Set Implicit Arguments.

Definition edge := (nat * nat * nat)%type.

(* ------------------------------------------------------------------ *)
(* the sortedness test the two loops perform, as one chain             *)

(* e lies strictly above (node, last) *)
Definition above (node : nat) (last : option nat) (e : edge) : Prop :=
  node < esrc e \/ (node = esrc e /\ match last with None => True | Some x => x < etgt e end).

Definition aboveb (node : nat) (last : option nat) (e : edge) : bool :=
  if Nat.eqb (esrc e) node then match last with None => true | Some x => Nat.ltb x (etgt e) end
  else Nat.ltb node (esrc e).

Fixpoint chainb (node : nat) (last : option nat) (es : list edge) : bool :=
  match es with
  | [] => true
  | e :: rest => aboveb node last e && chainb (esrc e) (Some (etgt e)) rest
  end.

Lemma aboveb_spec node last e : aboveb node last e = true <-> above node last e.
Proof.
  unfold aboveb, above. destruct (Nat.eqb_spec (esrc e) node) as [E|E].
  - destruct last as [x|].
    + rewrite Nat.ltb_lt. split.
      * intros H. right. split; [lia|exact H].
      * intros [H|[_ H]]; [lia|exact H].
    + split; [intros _; right; split; [lia|exact I] | intros _; reflexivity].
  - rewrite Nat.ltb_lt. split.
    + intros H. left. exact H.
    + intros [H|[H _]]; [exact H|congruence].
Qed.

Lemma above_trans node last e e' : above node last e -> edge_lt e e' -> above node last e'.
Proof.
  unfold above, edge_lt. intros [H|[H1 H2]] [K|[K1 K2]]; try (left; lia).
  right. split; [lia|]. destruct last; auto. lia.
Qed.

Lemma chainb_iff es : forall node last,
  chainb node last es = true <-> Forall (above node last) es /\ strictly_sorted es.
Proof.
  induction es as [|e rest IH]; intros node last; cbn [chainb].
  - split; auto. intros _. split; constructor.
  - rewrite andb_true_iff, aboveb_spec, IH. split.
    + intros [Ha [Hf Hs]]. split.
      * constructor; auto. eapply Forall_impl; [|exact Hf]. intros e'. apply above_trans; auto.
      * constructor; auto.
    + intros [Hf Hs]. inversion Hf; subst. inversion Hs; subst. auto.
Qed.

Lemma chainb_sorted es : chainb 0 None es = true <-> strictly_sorted es.
Proof.
  rewrite chainb_iff. split; [tauto|]. intros H; split; auto.
  apply Forall_forall. intros e _. unfold above. destruct (esrc e) eqn:E; [right|left]; auto; lia.
Qed.

(* ------------------------------------------------------------------ *)
(* the inner loop                                                      *)

Definition last_ok (last : option nat) (m : nat) : bool :=
  match last with None => true | Some x => Nat.ltb x m end.

Fixpoint inner_ref (node : nat) (last : option nat) (es : list edge) (col wts : list nat) (rstart : nat)
  : option (list edge * list nat * list nat * nat) :=
  match es with
  | [] => Some ([], col, wts, rstart)
  | (n, m, w) :: rest =>
      if Nat.ltb n node then None
      else if negb (Nat.eqb n node) then Some (es, col, wts, rstart)
      else if negb (last_ok last m) then None
      else inner_ref node (Some m) rest (col ++ [m]) (wts ++ [w]) (S rstart)
  end.

Lemma fse_inner_ref es : forall fuel node last col wts rstart, length es < fuel ->
  fse_inner fuel node last es col wts rstart = Ok (inner_ref node last es col wts rstart).
Proof.
  induction es as [|[[n m] w] rest IH]; intros [|f] node last col wts rstart Hf;
    cbn [length] in Hf; try lia; cbn [fse_inner inner_ref]; auto.
  destruct (Nat.ltb n node); auto. destruct (negb (Nat.eqb n node)); auto.
  fold (last_ok last m). destruct (negb (last_ok last m)); auto.
  apply IH. lia.
Qed.

Lemma inner_ref_spec es : forall node last col wts rstart,
  match inner_ref node last es col wts rstart with
  | None => chainb node last es = false
  | Some (es', col', wts', rstart') =>
      exists grp, es = grp ++ es' /\ Forall (fun e => esrc e = node) grp /\
        col' = col ++ map etgt grp /\ wts' = wts ++ map ewt grp /\
        rstart' = rstart + length grp /\
        match es' with [] => True | e :: _ => node < esrc e end /\
        chainb node last es = chainb (S node) None es'
  end.
Proof.
  induction es as [|[[n m] w] rest IH]; intros node last col wts rstart; cbn [inner_ref].
  - exists []. cbn [app map length]. rewrite !app_nil_r. splits; auto.
  - destruct (Nat.ltb_spec n node) as [L|L].
    { cbn [chainb]. unfold aboveb; cbn [esrc fst].
      destruct (Nat.eqb_spec n node); try lia. destruct (Nat.ltb_spec node n); try lia; reflexivity. }
    destruct (Nat.eqb_spec n node) as [E|E]; cbn [negb].
    2: { exists []. cbn [app map length]. rewrite !app_nil_r. splits; auto.
         - cbn [esrc fst]. lia.
         - cbn [chainb]. f_equal. unfold aboveb; cbn [esrc fst].
           destruct (Nat.eqb_spec n node); try lia. destruct (Nat.ltb_spec node n); try lia.
           destruct (Nat.eqb_spec n (S node)); auto. destruct (Nat.ltb_spec (S node) n); auto; lia. }
    subst n. destruct (last_ok last m) eqn:Hok; cbn [negb].
    2: { cbn [chainb]. unfold aboveb; cbn [esrc etgt fst snd]. rewrite Nat.eqb_refl.
         unfold last_ok in Hok. destruct last; try discriminate. rewrite Hok. reflexivity. }
    specialize (IH node (Some m) (col ++ [m]) (wts ++ [w]) (S rstart)).
    destruct (inner_ref node (Some m) rest (col ++ [m]) (wts ++ [w]) (S rstart))
      as [[[[es' col'] wts'] rstart']|].
    + destruct IH as [grp [E1 [F [C1 [C2 [C3 [Hd Hc]]]]]]].
      exists ((node, m, w) :: grp). splits.
      * cbn [app]. f_equal. exact E1.
      * constructor; auto.
      * rewrite C1. cbn [map etgt fst snd]. rewrite <- app_assoc. reflexivity.
      * rewrite C2. cbn [map ewt snd]. rewrite <- app_assoc. reflexivity.
      * rewrite C3. cbn [length]. lia.
      * exact Hd.
      * cbn [chainb esrc etgt fst snd]. rewrite Hc.
        unfold aboveb; cbn [esrc etgt fst snd]. rewrite Nat.eqb_refl.
        unfold last_ok in Hok. destruct last; rewrite ?Hok; reflexivity.
    + cbn [chainb esrc etgt fst snd]. rewrite IH. apply andb_false_r.
Qed.

(* ------------------------------------------------------------------ *)
(* the outer loop                                                      *)

Definition cnt_lt (k : nat) (es : list edge) : nat :=
  length (filter (fun e => Nat.ltb (esrc e) k) es).

Definition offsets (todo node rstart : nat) (es : list edge) : list nat :=
  map (fun k => rstart + cnt_lt k es) (seq node todo).

Lemma cnt_lt_app k l1 l2 : cnt_lt k (l1 ++ l2) = cnt_lt k l1 + cnt_lt k l2.
Proof. unfold cnt_lt. rewrite filter_app, app_length. reflexivity. Qed.

Lemma cnt_lt_all k es : Forall (fun e => esrc e < k) es -> cnt_lt k es = length es.
Proof.
  unfold cnt_lt. induction 1 as [|e t H Ht IH]; auto. cbn [filter].
  destruct (Nat.ltb_spec (esrc e) k); try lia. cbn [length]. rewrite IH. reflexivity.
Qed.

Lemma cnt_lt_none k es : Forall (fun e => k <= esrc e) es -> cnt_lt k es = 0.
Proof.
  unfold cnt_lt. induction 1 as [|e t H Ht IH]; auto. cbn [filter].
  destruct (Nat.ltb_spec (esrc e) k); [lia|exact IH].
Qed.

Lemma above_src node last e : above node last e -> node <= esrc e.
Proof. unfold above. intros [H|[H _]]; lia. Qed.

Lemma map_const_repeat {A B} (c : B) (l : list A) : map (fun _ => c) l = repeat c (length l).
Proof. induction l as [|h t IH]; cbn [map length repeat]; auto. rewrite IH. reflexivity. Qed.

Lemma fse_outer_spec : forall todo node es col wts rows rstart,
  Forall (fun e => esrc e + 2 <= node + todo) es -> (todo = 0 -> es = []) ->
  fse_outer todo node es col wts rows rstart =
  Ok (if chainb node None es
      then Some (col ++ map etgt es, wts ++ map ewt es, rows ++ offsets todo node rstart es)
      else None).
Proof.
  induction todo as [|t IH]; intros node es col wts rows rstart H1 H2.
  - rewrite (H2 eq_refl). cbn [fse_outer chainb map offsets seq]. rewrite !app_nil_r. reflexivity.
  - destruct es as [|e0 es0].
    + cbn [fse_outer chainb map]. rewrite !app_nil_r. unfold offsets.
      rewrite (map_ext _ (fun _ => rstart)) by (intros k; cbn; lia).
      rewrite map_const_repeat, seq_length. reflexivity.
    + remember (e0 :: es0) as es eqn:Hes.
      assert (Hstep : fse_outer (S t) node es col wts rows rstart =
                rbind (fse_inner (S (length es)) node None es col wts rstart) (fun o =>
                  match o with
                  | None => Ok None
                  | Some (es', col', wts', rstart') =>
                      fse_outer t (S node) es' col' wts' (rows ++ [rstart]) rstart'
                  end)) by (subst es; reflexivity).
      rewrite Hstep, fse_inner_ref by lia. cbn [rbind].
      pose proof (inner_ref_spec es node None col wts rstart) as S.
      destruct (inner_ref node None es col wts rstart) as [[[[es' col'] wts'] rstart']|].
      2: { rewrite S. reflexivity. }
      destruct S as [grp [E1 [F [C1 [C2 [C3 [Hd Hc]]]]]]].
      assert (H1' : Forall (fun e => esrc e + 2 <= S node + t) es').
      { rewrite E1 in H1. apply Forall_app in H1. destruct H1 as [_ H1].
        eapply Forall_impl; [|exact H1]. cbn beta. intros e He; lia. }
      assert (H2' : t = 0 -> es' = []).
      { intros ->. destruct es' as [|e1 r1]; auto. inversion H1'; subst. lia. }
      rewrite (IH _ _ _ _ _ _ H1' H2'), Hc.
      destruct (chainb (S node) None es') eqn:Hch; auto.
      assert (Ecol : col' ++ map etgt es' = col ++ map etgt es)
        by (rewrite C1, E1, map_app, app_assoc; reflexivity).
      assert (Ewts : wts' ++ map ewt es' = wts ++ map ewt es)
        by (rewrite C2, E1, map_app, app_assoc; reflexivity).
      assert (Erows : (rows ++ [rstart]) ++ offsets t (S node) rstart' es' =
                      rows ++ offsets (S t) node rstart es).
      { rewrite <- app_assoc. f_equal. unfold offsets. cbn [seq map app]. f_equal.
        - assert (Hz : cnt_lt node es = 0).
          { apply cnt_lt_none.
            pose proof Hc as Hch'.
            apply chainb_iff in Hch'. destruct Hch' as [Hf _]. eapply Forall_impl; [|exact Hf]. intros e. apply above_src. }
          lia.
        - apply map_ext_in. intros k Hk. apply in_seq in Hk.
          rewrite E1, cnt_lt_app, C3.
          assert (Hg : cnt_lt k grp = length grp).
          { apply cnt_lt_all. eapply Forall_impl; [|exact F]. cbn beta. intros e He; lia. }
          lia. }
      rewrite Ecol, Ewts, Erows. reflexivity.
Qed.

(* ------------------------------------------------------------------ *)
(* max_node_id                                                         *)

Lemma fold_max_ge (es : list edge) : forall acc,
  acc <= fold_left (fun acc '(x, y, _) => Nat.max acc (Nat.max x y)) es acc /\
  Forall (fun e => esrc e <= fold_left (fun acc '(x, y, _) => Nat.max acc (Nat.max x y)) es acc /\
                   etgt e <= fold_left (fun acc '(x, y, _) => Nat.max acc (Nat.max x y)) es acc) es.
Proof.
  induction es as [|[[x y] w] t IH]; intros acc; cbn [fold_left].
  - split; auto.
  - destruct (IH (Nat.max acc (Nat.max x y))) as [Hacc Hf]. split; [lia|].
    constructor; auto. cbn [esrc etgt fst snd]. lia.
Qed.

Lemma edges_node_count_bound es : Forall (fun e => esrc e < edges_node_count es /\ etgt e < edges_node_count es) es.
Proof.
  unfold edges_node_count, max_node_id. destruct es as [|e t]; [constructor|].
  destruct (fold_max_ge (e :: t) 0) as [_ Hf].
  eapply Forall_impl; [|exact Hf]. cbn beta. intros e' [H1 H2]. lia.
Qed.

(* the graph from_sorted_edges builds *)
Definition fse_graph (es : list edge) : csr :=
  mkCsr (map etgt es) (map ewt es)
        (map (fun k => cnt_lt k es) (seq 0 (S (edges_node_count es))))
        (repeat 0 (edges_node_count es)) 0.

Theorem from_sorted_edges_eq es :
  from_sorted_edges es = Ok (if chainb 0 None es then Some (fse_graph es) else None).
Proof.
  unfold from_sorted_edges, fse_graph, edges_node_count.
  destruct (max_node_id es) as [mx|] eqn:M.
  - rewrite fse_outer_spec.
    + cbn [rmap]. destruct (chainb 0 None es); auto.
    + pose proof (edges_node_count_bound es) as B. unfold edges_node_count in B. rewrite M in B.
      eapply Forall_impl; [|exact B]. cbn beta. intros e [H1 H2]. lia.
    + discriminate.
  - destruct es; [|discriminate]. reflexivity.
Qed.

(* ------------------------------------------------------------------ *)
(* sorted edge lists                                                   *)

Lemma cnt_lt_cons k e es :
  cnt_lt k (e :: es) = (if Nat.ltb (esrc e) k then 1 else 0) + cnt_lt k es.
Proof. unfold cnt_lt. cbn [filter]. destruct (Nat.ltb (esrc e) k); reflexivity. Qed.

Lemma cnt_lt_mono es k k' : k <= k' -> cnt_lt k es <= cnt_lt k' es.
Proof.
  intros H. induction es as [|e t IH]; auto. rewrite !cnt_lt_cons.
  destruct (Nat.ltb_spec (esrc e) k); destruct (Nat.ltb_spec (esrc e) k'); lia.
Qed.

Lemma sorted_head_src e rest : strictly_sorted (e :: rest) ->
  Forall (fun e' => esrc e <= esrc e') rest.
Proof.
  intros H. inversion H; subst. eapply Forall_impl; [|eassumption].
  unfold edge_lt. intros e' [L|[L _]]; lia.
Qed.

Lemma sorted_tail e rest : strictly_sorted (e :: rest) -> strictly_sorted rest.
Proof. intros H. inversion H; auto. Qed.

Lemma sorted_app (l1 l2 : list edge) : strictly_sorted (l1 ++ l2) ->
  forall x y, In x l1 -> In y l2 -> edge_lt x y.
Proof.
  induction l1 as [|h t IH]; intros H x y Hx Hy; [destruct Hx|].
  cbn [app] in H. inversion H as [|? ? Hs Hf]; subst. destruct Hx as [<-|Hx].
  - rewrite Forall_forall in Hf. apply Hf. apply in_app_iff. auto.
  - apply IH; auto.
Qed.

Lemma filter_none {A} (p : A -> bool) l : Forall (fun x => p x = false) l -> filter p l = [].
Proof. induction 1 as [|x t H Ht IH]; auto. cbn [filter]. rewrite H. exact IH. Qed.

Lemma seg_cons_S {A} (h : A) l s e : seg (h :: l) (S s) (S e) = seg l s e.
Proof. reflexivity. Qed.

Lemma seg_cons_0 {A} (h : A) l e : seg (h :: l) 0 (S e) = h :: seg l 0 e.
Proof. unfold seg. rewrite !Nat.sub_0_r. reflexivity. Qed.

(* the slice of row a is the list of the edges leaving a *)
Lemma seg_rows {A} (f : edge -> A) es a : strictly_sorted es ->
  seg (map f es) (cnt_lt a es) (cnt_lt (S a) es) =
  map f (filter (fun e => Nat.eqb (esrc e) a) es).
Proof.
  induction es as [|e rest IH]; intros Hs; [reflexivity|].
  pose proof (sorted_head_src Hs) as Hh. specialize (IH (sorted_tail Hs)).
  rewrite !cnt_lt_cons. cbn [map filter].
  destruct (Nat.lt_trichotomy (esrc e) a) as [L|[E|L]].
  - destruct (Nat.ltb_spec (esrc e) a); try lia. destruct (Nat.ltb_spec (esrc e) (S a)); try lia.
    destruct (Nat.eqb_spec (esrc e) a); try lia. cbn [Nat.add]. rewrite seg_cons_S. exact IH.
  - destruct (Nat.ltb_spec (esrc e) a); try lia. destruct (Nat.ltb_spec (esrc e) (S a)); try lia.
    destruct (Nat.eqb_spec (esrc e) a); try lia. cbn [Nat.add map].
    assert (Hz : cnt_lt a rest = 0).
    { apply cnt_lt_none. eapply Forall_impl; [|exact Hh]. cbn beta. intros e' He'; lia. }
    rewrite Hz in *. rewrite seg_cons_0. f_equal. exact IH.
  - destruct (Nat.ltb_spec (esrc e) a); try lia. destruct (Nat.ltb_spec (esrc e) (S a)); try lia.
    destruct (Nat.eqb_spec (esrc e) a); try lia. cbn [Nat.add].
    assert (Hz : cnt_lt a rest = 0).
    { apply cnt_lt_none. eapply Forall_impl; [|exact Hh]. cbn beta. intros e' He'; lia. }
    assert (Hz' : cnt_lt (S a) rest = 0).
    { apply cnt_lt_none. eapply Forall_impl; [|exact Hh]. cbn beta. intros e' He'; lia. }
    rewrite Hz, Hz', seg_nil. rewrite filter_none; auto.
    eapply Forall_impl; [|exact Hh]. cbn beta. intros e' He'. apply Nat.eqb_neq. lia.
Qed.

Lemma sorted_row_asc es a : strictly_sorted es ->
  ascending (map etgt (filter (fun e => Nat.eqb (esrc e) a) es)).
Proof.
  induction 1 as [|e rest Hs IH Hf]; cbn [filter map]; [constructor|].
  destruct (Nat.eqb_spec (esrc e) a) as [E|E]; auto.
  cbn [map]. constructor; auto.
  rewrite Forall_forall in *. intros x Hx. apply in_map_iff in Hx. destruct Hx as [e' [<- He']].
  apply filter_In in He'. destruct He' as [Hin He']. apply Nat.eqb_eq in He'.
  destruct (Hf _ Hin) as [L|[_ L]]; [lia|exact L].
Qed.

Lemma same_pair_dir a b e : same_pair true a b e = true <-> esrc e = a /\ etgt e = b.
Proof.
  destruct e as [[x y] w]. cbn [same_pair negb andb esrc etgt fst snd]. rewrite orb_false_r.
  rewrite andb_true_iff, !Nat.eqb_eq. tauto.
Qed.

Lemma find_key es e : strictly_sorted es -> In e es ->
  find (same_pair true (esrc e) (etgt e)) es = Some e.
Proof.
  induction 1 as [|h rest Hs IH Hf]; intros Hin; [destruct Hin|]. cbn [find].
  destruct (same_pair true (esrc e) (etgt e) h) eqn:P.
  - apply same_pair_dir in P. destruct Hin as [->|Hin]; auto.
    rewrite Forall_forall in Hf. destruct (Hf _ Hin) as [L|[_ L]]; lia.
  - destruct Hin as [->|Hin]; auto.
    exfalso. assert (X : same_pair true (esrc e) (etgt e) e = true) by (apply same_pair_dir; auto).
    congruence.
Qed.

(* ------------------------------------------------------------------ *)
(* the graph built satisfies the invariant                             *)

Lemma fse_row_nth es k x : nth_error (row (fse_graph es)) k = Some x ->
  x = cnt_lt k es /\ k <= edges_node_count es.
Proof.
  cbn [fse_graph row]. rewrite nth_error_map.
  destruct (Nat.lt_ge_cases k (S (edges_node_count es))) as [L|L].
  - rewrite nth_error_seq0 by auto. cbn [option_map]. intros H; inversion H. split; auto; lia.
  - rewrite nth_error_oob by (rewrite seq_length; auto). discriminate.
Qed.

Lemma fse_row_at es k : k <= edges_node_count es ->
  nth_error (row (fse_graph es)) k = Some (cnt_lt k es).
Proof.
  intros H. cbn [fse_graph row]. rewrite nth_error_map, nth_error_seq0 by lia. reflexivity.
Qed.

Lemma fse_node_count es : node_count (fse_graph es) = edges_node_count es.
Proof. unfold node_count. cbn [fse_graph row]. rewrite map_length, seq_length. lia. Qed.

Lemma fse_graph_inv es : strictly_sorted es -> CInv (fse_graph es).
Proof.
  intros Hs. pose proof (edges_node_count_bound es) as B.
  constructor.
  - cbn [fse_graph row nweights]. rewrite map_length, seq_length, repeat_length. reflexivity.
  - rewrite fse_row_at by lia. f_equal. apply cnt_lt_none.
    apply Forall_forall. intros e _. lia.
  - intros i x y Hx Hy. apply fse_row_nth in Hx. apply fse_row_nth in Hy.
    destruct Hx as [-> _]. destruct Hy as [-> _]. apply cnt_lt_mono. lia.
  - cbn [fse_graph nweights column]. rewrite repeat_length, map_length.
    change (nth_error (row (fse_graph es)) (edges_node_count es) = Some (length es)).
    rewrite fse_row_at by lia. f_equal. apply cnt_lt_all.
    eapply Forall_impl; [|exact B]. cbn beta. tauto.
  - cbn [fse_graph cedges column]. rewrite !map_length. reflexivity.
  - rewrite fse_node_count. cbn [fse_graph column]. apply Forall_forall. intros t Ht.
    apply in_map_iff in Ht. destruct Ht as [e [<- He]].
    rewrite Forall_forall in B. apply B; auto.
  - intros a s e Hs' He'. apply fse_row_nth in Hs'. apply fse_row_nth in He'.
    destruct Hs' as [-> _]. destruct He' as [-> _].
    cbn [fse_graph column]. fold (seg (map etgt es) (cnt_lt a es) (cnt_lt (S a) es)).
    rewrite seg_rows by auto. apply sorted_row_asc; auto.
Qed.

(* ------------------------------------------------------------------ *)
(* the abstract graph built edge by edge                               *)

Lemma spec_of_edges_fold nodes : forall todo done,
  strictly_sorted (done ++ todo) ->
  Forall (fun e => esrc e < length nodes /\ etgt e < length nodes) todo ->
  fold_left (fun s e => snd (spec_try_add_edge true s (esrc e) (etgt e) (ewt e))) todo
            (mkSpec nodes done) = mkSpec nodes (done ++ todo).
Proof.
  induction todo as [|e t IH]; intros done Hs B; cbn [fold_left].
  - rewrite app_nil_r. reflexivity.
  - inversion B as [|? ? [B1 B2] Bt]; subst.
    assert (Hstep : snd (spec_try_add_edge true (mkSpec nodes done) (esrc e) (etgt e) (ewt e)) =
                    mkSpec nodes (done ++ [e])).
    { unfold spec_try_add_edge, spec_node_count. cbn [snodes sedges].
      destruct (Nat.ltb_spec (esrc e) (length nodes)); try lia.
      destruct (Nat.ltb_spec (etgt e) (length nodes)); try lia. cbn [andb negb].
      assert (Hc : spec_contains true (mkSpec nodes done) (esrc e) (etgt e) = false).
      { apply spec_contains_false. unfold spec_weight. cbn [sedges].
        destruct (find (same_pair true (esrc e) (etgt e)) done) as [d|] eqn:F; auto.
        exfalso. apply find_some in F. destruct F as [Hin P]. apply same_pair_dir in P.
        assert (L : edge_lt d e) by (apply (sorted_app _ _ Hs); cbn; auto).
        destruct L as [L|[_ L]]; lia. }
      rewrite Hc. cbn [snd]. destruct e as [[x y] w]. reflexivity. }
    rewrite Hstep, IH; auto.
    + rewrite <- app_assoc. reflexivity.
    + rewrite <- app_assoc. exact Hs.
Qed.

Lemma spec_of_edges_eq es : strictly_sorted es ->
  spec_of_edges es = mkSpec (repeat 0 (edges_node_count es)) es.
Proof.
  intros Hs. unfold spec_of_edges, spec_with_nodes.
  apply (@spec_of_edges_fold (repeat 0 (edges_node_count es)) es []); auto.
  rewrite repeat_length. apply edges_node_count_bound.
Qed.

Lemma fse_graph_rep es : strictly_sorted es -> Rep true (fse_graph es) (spec_of_edges es).
Proof.
  intros Hs. rewrite spec_of_edges_eq by auto.
  pose proof (fse_graph_inv Hs) as I. pose proof (edges_node_count_bound es) as B.
  rewrite Forall_forall in B.
  unfold Rep. splits.
  - intros a b w Hin. unfold spec_node_count. cbn [snodes]. rewrite repeat_length.
    apply (B _ Hin).
  - rewrite fse_node_count. unfold spec_node_count. cbn [snodes]. rewrite repeat_length. reflexivity.
  - reflexivity.
  - intros a Ha.
    destruct (row_view I Ha) as [s [e [Hs' [He' [_ [_ [_ [N [W _]]]]]]]]].
    apply fse_row_nth in Hs'. apply fse_row_nth in He'.
    destruct Hs' as [-> _]. destruct He' as [-> _].
    cbn [fse_graph column cedges] in N, W. rewrite seg_rows in N, W by auto.
    set (fa := filter (fun e => Nat.eqb (esrc e) a) es) in *.
    assert (Hfa : forall e, In e fa -> In e es /\ esrc e = a).
    { intros e He. apply filter_In in He. destruct He as [H1 H2]. apply Nat.eqb_eq in H2. auto. }
    assert (Hw : forall e, In e fa ->
               spec_weight true (mkSpec (repeat 0 (edges_node_count es)) es) a (etgt e) = Some (ewt e)).
    { intros e He. destruct (Hfa e He) as [Hin <-]. unfold spec_weight. cbn [sedges].
      rewrite find_key; auto. }
    exists (map etgt fa), (map ewt fa). splits; auto.
    + apply sorted_row_asc; auto.
    + intros b. split.
      * intros Hb. apply in_map_iff in Hb. destruct Hb as [e [<- He]]. rewrite Hw; auto. discriminate.
      * intros Hb. unfold spec_weight in Hb. cbn [sedges] in Hb.
        destruct (find (same_pair true a b) es) as [e|] eqn:F; [|exfalso; apply Hb; reflexivity].
        apply find_some in F. destruct F as [Hin P]. apply same_pair_dir in P. destruct P as [P1 P2].
        apply in_map_iff. exists e. split; auto. apply filter_In. split; auto. apply Nat.eqb_eq; auto.
    + rewrite !map_map. apply map_ext_in. intros e He. apply Hw; auto.
  - unfold edge_count, spec_edge_count. cbn [fse_graph column sedges]. apply map_length.
Qed.

(* ------------------------------------------------------------------ *)
(* the theorem                                                         *)

Theorem from_sorted_edges_sorted es : strictly_sorted es ->
  exists g, from_sorted_edges es = Ok (Some g) /\ CInv g /\ Rep true g (spec_of_edges es).
Proof.
  intros Hs. exists (fse_graph es). rewrite from_sorted_edges_eq.
  rewrite (proj2 (chainb_sorted es) Hs). splits; auto.
  - apply fse_graph_inv; auto.
  - apply fse_graph_rep; auto.
Qed.

Theorem from_sorted_edges_unsorted es : ~ strictly_sorted es -> from_sorted_edges es = Ok None.
Proof.
  intros Hn. rewrite from_sorted_edges_eq.
  destruct (chainb 0 None es) eqn:C; auto. apply chainb_sorted in C. tauto.
Qed.

Lemma strictly_sorted_dec es : {strictly_sorted es} + {~ strictly_sorted es}.
Proof.
  destruct (chainb 0 None es) eqn:C.
  - left. apply chainb_sorted; auto.
  - right. intros H. apply chainb_sorted in H. congruence.
Qed.

Theorem from_sorted_edges_iff es :
  (strictly_sorted es <-> exists g, from_sorted_edges es = Ok (Some g)) /\
  (~ strictly_sorted es <-> from_sorted_edges es = Ok None).
Proof.
  split; split.
  - intros Hs. destruct (from_sorted_edges_sorted Hs) as [g [E _]]. eauto.
  - intros [g E]. destruct (strictly_sorted_dec es) as [Hs|Hn]; auto.
    rewrite (from_sorted_edges_unsorted Hn) in E. discriminate.
  - apply from_sorted_edges_unsorted.
  - intros E Hs. destruct (from_sorted_edges_sorted Hs) as [g [E' _]]. congruence.
Qed.

(* the same edges inserted one by one through try_add_edge *)
Lemma fold_left_map {A B C} (f : A -> B -> A) (g : C -> B) l a :
  fold_left f (map g l) a = fold_left (fun a x => f a (g x)) l a.
Proof. revert a; induction l as [|h t IH]; intros a; cbn [map fold_left]; auto. Qed.

Lemma fold_left_ext {A B} (f f' : A -> B -> A) l a : (forall a x, f a x = f' a x) ->
  fold_left f l a = fold_left f' l a.
Proof. intros H. revert a; induction l as [|h t IH]; intros a; cbn [fold_left]; auto. rewrite H, IH. reflexivity. Qed.

Lemma spec_final_ops_of_edges es :
  spec_final true (spec_with_nodes (edges_node_count es)) (ops_of_edges es) = spec_of_edges es.
Proof.
  unfold spec_final, ops_of_edges, spec_of_edges. rewrite fold_left_map.
  apply fold_left_ext. intros s e. unfold spec_step, arg, nz, zn. cbn [nth].
  rewrite !Nat2Z.id. reflexivity.
Qed.

Lemma ops_of_edges_incremental es : incremental (ops_of_edges es).
Proof.
  unfold incremental, ops_of_edges. apply Forall_forall. intros o Ho.
  apply in_map_iff in Ho. destruct Ho as [e [<- _]]. cbn [fst]. discriminate.
Qed.

(* from_sorted_edges and edge-by-edge construction represent the same abstract
   graph, so (by rep_queries) they answer every query alike. *)
Theorem from_sorted_same_as_incremental es g : from_sorted_edges es = Ok (Some g) ->
  CInv g /\ Rep true g (spec_of_edges es) /\
  CInv (final true (with_nodes (edges_node_count es)) (ops_of_edges es)) /\
  Rep true (final true (with_nodes (edges_node_count es)) (ops_of_edges es)) (spec_of_edges es).
Proof.
  intros E.
  assert (Hs : strictly_sorted es) by (apply (proj1 (from_sorted_edges_iff es)); eauto).
  destruct (from_sorted_edges_sorted Hs) as [g' [E' [I R]]].
  assert (g' = g) by congruence. subst g'.
  destruct (@history_refines true (ops_of_edges es) (ops_of_edges_incremental es)
              (with_nodes (edges_node_count es)) (spec_with_nodes (edges_node_count es))
              (with_nodes_inv _) (rep_with_nodes true _)) as [I2 [R2 _]].
  rewrite spec_final_ops_of_edges in R2. auto.
Qed.
