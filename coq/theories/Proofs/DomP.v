(* dominators::simple_fast (Model/CutM.v) on a well-formed view: the post order, the
   predecessor lists and the index arithmetic are tied to the index-graph result of DomAlgP,
   and transferred to the view along post-order position -> node. *)
From PG Require Import Lib.Io Model.View Model.Traversal Model.MatchM Model.CutM
                       Spec.Reach Spec.DomSpec Proofs.TravBase Proofs.TraversalAll
                       Proofs.DomSpecP Proofs.DpoTreeP Proofs.DomAlgP.

(* ------------------------------------------------------------------ *)
(* association lists                                                   *)

Lemma assoc_nat_map_key {A} (f : A -> A) (g : nat * A -> nat * A) k :
  (forall k0 c, g (k0, c) = if Nat.eqb k0 k then (k0, f c) else (k0, c)) ->
  forall m k', assoc_nat (map g m) k' =
               if Nat.eqb k' k then option_map f (assoc_nat m k') else assoc_nat m k'.
Proof.
  intros Hg. induction m as [|[k0 c] m IH]; intros k'; cbn [map assoc_nat].
  - destruct (Nat.eqb k' k); reflexivity.
  - rewrite Hg. destruct (Nat.eqb_spec k0 k) as [->|Hn]; cbn [assoc_nat].
    + destruct (Nat.eqb_spec k k') as [<-|Hn'].
      * rewrite Nat.eqb_refl. reflexivity.
      * rewrite IH. reflexivity.
    + destruct (Nat.eqb_spec k0 k') as [<-|Hn'].
      * destruct (Nat.eqb_spec k0 k); [congruence | reflexivity].
      * rewrite IH. reflexivity.
Qed.

Lemma assoc_nat_app {A} (m1 m2 : list (nat * A)) k :
  assoc_nat (m1 ++ m2) k = match assoc_nat m1 k with Some x => Some x | None => assoc_nat m2 k end.
Proof.
  induction m1 as [|[k0 c] m1 IH]; cbn [app assoc_nat]; [reflexivity|].
  destruct (Nat.eqb k0 k); [reflexivity | exact IH].
Qed.

Lemma assoc_nat_None {A} (m : list (nat * A)) k : assoc_nat m k = None <-> ~ In k (map fst m).
Proof.
  induction m as [|[k0 c] m IH]; cbn [assoc_nat map fst In]; [tauto|].
  destruct (Nat.eqb_spec k0 k) as [->|Hn]; [split; [discriminate | tauto]|].
  rewrite IH. tauto.
Qed.

Lemma assoc_nat_nodup {A} (m : list (nat * A)) k a :
  NoDup (map fst m) -> In (k, a) m -> assoc_nat m k = Some a.
Proof.
  induction m as [|[k0 c] m IH]; intros Hnd Hin; [destruct Hin|].
  cbn [map fst] in Hnd. inversion Hnd as [|x l Hx Hl]; subst. cbn [assoc_nat].
  destruct Hin as [E|Hin].
  - injection E as -> ->. rewrite Nat.eqb_refl. reflexivity.
  - destruct (Nat.eqb_spec k0 k) as [->|Hn]; [|apply IH; assumption].
    exfalso. apply Hx. apply (in_map fst) in Hin. exact Hin.
Qed.

(* ------------------------------------------------------------------ *)
(* predecessor sets                                                    *)

Definition plook (m : list (nat * list nat)) (s : nat) : list nat :=
  match assoc_nat m s with Some l => l | None => [] end.

Lemma add_set_In x y l : In y (add_set x l) <-> In y l \/ y = x.
Proof.
  unfold add_set. destruct (mem x l) eqn:E.
  - apply mem_In in E. split; [intros H; left; exact H | intros [H| ->]; assumption].
  - rewrite in_app_iff. cbn [In]. split.
    + intros [H|[H|[]]]; [left; exact H | right; symmetry; exact H].
    + intros [H|H]; [left; exact H | right; left; symmetry; exact H].
Qed.

Lemma add_pred_look m s node s' y :
  In y (plook (add_pred m s node) s') <-> In y (plook m s') \/ (s' = s /\ y = node).
Proof.
  unfold add_pred, plook. destruct (assoc_nat m s) as [l|] eqn:El.
  - rewrite (assoc_nat_map_key (add_set node) _ s (fun k0 c => eq_refl)).
    destruct (Nat.eqb_spec s' s) as [->|Hn].
    + rewrite El. cbn [option_map]. rewrite add_set_In. tauto.
    + tauto.
  - rewrite assoc_nat_app. cbn [assoc_nat]. destruct (Nat.eqb_spec s s') as [<-|Hn].
    + rewrite El. cbn [In]. split; [intros [H|[]]; right; split; [reflexivity | symmetry; exact H]|].
      intros [[]|[_ ->]]. left; reflexivity.
    + destruct (assoc_nat m s') as [l'|]; cbn [In]; split; auto; intros [H|[H _]]; auto; congruence.
Qed.

Lemma pred_inner_look node ss : forall m s' y,
  In y (plook (fold_left (fun m' s => add_pred m' s node) ss m) s') <->
  In y (plook m s') \/ (In s' ss /\ y = node).
Proof.
  induction ss as [|s ss IH]; intros m s' y; cbn [fold_left In]; [tauto|].
  rewrite IH, add_pred_look. split.
  - intros [[H|[-> ->]]|[H ->]]; auto.
  - intros [H|[[<-|H] ->]]; auto.
Qed.

Lemma pred_sets_look v po : forall m s' y,
  In y (plook (fold_left (fun m node => fold_left (fun m' s => add_pred m' s node) (neighbors v node) m) po m) s') <->
  In y (plook m s') \/ (In y po /\ step v y s').
Proof.
  induction po as [|x po IH]; intros m s' y; cbn [fold_left In]; [tauto|].
  rewrite IH, pred_inner_look. unfold step. split.
  - intros [[H|[H ->]]|[H1 H2]]; auto.
  - intros [H|[[<-|H1] H2]]; auto.
Qed.

Lemma pred_sets_spec v po s y : In y (plook (pred_sets v po) s) <-> In y po /\ step v y s.
Proof.
  unfold pred_sets. rewrite pred_sets_look. unfold plook at 1. cbn [assoc_nat In]. tauto.
Qed.

(* ------------------------------------------------------------------ *)
(* positions in the post order                                         *)

Definition pidx (po : list nat) (x : nat) : nat :=
  match index_of x po 0 with Some i => i | None => 0 end.

Lemma index_of_spec x l : forall i, In x l ->
  exists j, index_of x l i = Some (i + j) /\ nth_error l j = Some x.
Proof.
  induction l as [|a l IH]; intros i Hin; [destruct Hin|]. cbn [index_of].
  destruct (Nat.eqb_spec a x) as [->|Hn].
  - exists 0. rewrite Nat.add_0_r. split; reflexivity.
  - destruct Hin as [E|Hin]; [congruence|]. destruct (IH (S i) Hin) as [j [E1 E2]].
    exists (S j). split; [rewrite E1; f_equal; lia | exact E2].
Qed.

Lemma pidx_spec po x : In x po ->
  index_of x po 0 = Some (pidx po x) /\ nth_error po (pidx po x) = Some x.
Proof.
  intros Hin. destruct (index_of_spec x po 0 Hin) as [j [E1 E2]]. unfold pidx. rewrite E1.
  cbn [Nat.add]. split; [reflexivity | exact E2].
Qed.

Lemma pidx_nth po i x : NoDup po -> nth_error po i = Some x -> pidx po x = i.
Proof.
  intros Hnd Hi. assert (Hin : In x po) by (eapply nth_error_In; exact Hi).
  destruct (pidx_spec po x Hin) as [_ E]. rewrite NoDup_nth_error in Hnd.
  symmetry. apply Hnd; [apply nth_error_Some; congruence | congruence].
Qed.

Lemma pidx_lt po x : In x po -> pidx po x < length po.
Proof. intros Hin. destruct (pidx_spec po x Hin) as [_ E]. apply nth_error_Some. congruence. Qed.

(* ------------------------------------------------------------------ *)
(* the folds of simple_fast                                            *)

Definition mkpreds (psets : list (nat * list nat)) (po q : list nat) : list (list nat) :=
  map (fun node => map (pidx po) (plook psets node)) q.

Lemma idx_fold po ps : (forall p, In p ps -> In p po) ->
  fold_right (fun p a => rbind a (fun t => match index_of p po 0 with
                                           | Some i => Ok (i :: t) | None => Panic end)) (Ok []) ps
  = Ok (map (pidx po) ps).
Proof.
  induction ps as [|p ps IH]; intros Hin; cbn [fold_right map]; [reflexivity|].
  rewrite IH by (intros q Hq; apply Hin; right; exact Hq). cbn [rbind].
  destruct (pidx_spec po p (Hin p (or_introl eq_refl))) as [E _]. rewrite E. reflexivity.
Qed.

Lemma preds_fold psets po q : (forall node p, In node q -> In p (plook psets node) -> In p po) ->
  fold_right (fun node acc =>
                rbind acc (fun tl =>
                  match assoc_nat psets node with
                  | None => Ok ([] :: tl)
                  | Some ps =>
                      rmap (fun l => l :: tl)
                           (fold_right (fun p a => rbind a (fun t =>
                                          match index_of p po 0 with
                                          | Some i => Ok (i :: t) | None => Panic end)) (Ok []) ps)
                  end)) (Ok []) q
  = Ok (mkpreds psets po q).
Proof.
  induction q as [|node q IH]; intros Hin; cbn [fold_right mkpreds map]; [reflexivity|].
  rewrite IH by (intros nd p Hn Hp; apply (Hin nd p); [right; exact Hn | exact Hp]). cbn [rbind].
  pose proof (Hin node) as Hnode. unfold plook in *.
  destruct (assoc_nat psets node) as [ps|].
  - rewrite idx_fold by (intros p Hp; apply Hnode; [left; reflexivity | exact Hp]). reflexivity.
  - reflexivity.
Qed.

Definition dval (d : option nat) : nat := match d with Some di => di | None => 0 end.

Lemma final_fold po : forall l : list (nat * option nat),
  (forall node d, In (node, d) l -> exists di, d = Some di /\ di < length po) ->
  fold_right (fun '(node, d) acc =>
                rbind acc (fun tl =>
                  match d with
                  | Some di => rmap (fun dn => (node, dn) :: tl) (getp po di)
                  | None => Panic
                  end)) (Ok []) l
  = Ok (map (fun nd => (fst nd, nth (dval (snd nd)) po 0)) l).
Proof.
  induction l as [|[node d] l IH]; intros H; cbn [fold_right map]; [reflexivity|].
  rewrite IH by (intros nd d' Hin; apply (H nd d'); right; exact Hin). cbn [rbind].
  destruct (H node d (or_introl eq_refl)) as [di [-> Hdi]].
  unfold getp. destruct (nth_error po di) as [x|] eqn:E; [|apply nth_error_None in E; lia].
  cbn [rmap fst snd dval]. rewrite (nth_error_nth po di 0 E). reflexivity.
Qed.

Lemma nth_error_combine {A B} (l : list A) : forall (l' : list B) i,
  nth_error (combine l l') i =
  match nth_error l i, nth_error l' i with Some a, Some b => Some (a, b) | _, _ => None end.
Proof.
  induction l as [|a l IH]; intros l' i.
  - destruct i; reflexivity.
  - destruct l' as [|b l']; destruct i as [|i]; cbn [combine nth_error]; try reflexivity.
    + destruct (nth_error l i); reflexivity.
    + apply IH.
Qed.

(* ------------------------------------------------------------------ *)
(* simple_fast                                                         *)
Section SimpleFast.
Variable v : view.
Variable root : nat.
Hypothesis Hv : VOk v.
Hypothesis Hc : in_cap v root.

Record PO (po : list nat) : Prop := {
  po_nd : NoDup po;
  po_reach : forall x, In x po <-> reachable v root x;
  po_last : exists l0, po = l0 ++ [root];
  po_par : forall l1 x l2, po = l1 ++ x :: l2 -> x <> root -> exists p, step v p x /\ In p l2
}.

Lemma dpo_po : exists po d, dpo_drain (4 * trav_fuel v + 4) v (mkDpo [root] [] []) = Ok (po, d) /\ PO po.
Proof.
  destruct (dpo_vok v root (4 * trav_fuel v + 4) Hv Hc ltac:(lia)) as [po [d [E [Hnd [Hr _]]]]].
  exists po, d. split; [exact E|]. destruct (dpo_tree v root _ po d E) as [H1 H2].
  constructor; assumption.
Qed.

Section WithPO.
Variable po : list nat.
Hypothesis P : PO po.

Notation n := (length po).
Notation f := (fun i => nth i po 0).
Notation preds := (mkpreds (pred_sets v po) po po).

Lemma po_pos : 0 < n.
Proof. destruct (po_last po P) as [l0 E]. rewrite E, app_length. cbn [length]. lia. Qed.

Lemma po_root : nth_error po (n - 1) = Some root.
Proof.
  destruct (po_last po P) as [l0 E]. rewrite E at 2. rewrite E, app_length. cbn [length].
  replace (length l0 + 1 - 1) with (length l0) by lia.
  rewrite nth_error_app2 by lia. rewrite Nat.sub_diag. reflexivity.
Qed.

Lemma f_nth i : i < n -> nth_error po i = Some (f i).
Proof. intros Hi. apply nth_error_nth'. exact Hi. Qed.

Lemma f_root : f (n - 1) = root.
Proof. apply nth_error_nth. exact po_root. Qed.

Lemma f_inj i j : i < n -> j < n -> f i = f j -> i = j.
Proof.
  intros Hi Hj E. pose proof (po_nd po P) as Hnd. rewrite NoDup_nth_error in Hnd.
  apply Hnd; [exact Hi|]. rewrite (f_nth i Hi), (f_nth j Hj). cbn beta. rewrite E. reflexivity.
Qed.

Lemma f_in i : i < n -> In (f i) po.
Proof. intros Hi. apply nth_In. exact Hi. Qed.

Lemma preds_len : length preds = n.
Proof. unfold mkpreds. apply map_length. Qed.

Lemma pedge_iff p i : pedge preds p i <-> p < n /\ i < n /\ step v (f p) (f i).
Proof.
  unfold pedge, mkpreds. split.
  - intros [ps [H1 H2]]. rewrite nth_error_map in H1.
    destruct (nth_error po i) as [x|] eqn:Ex; [|discriminate]. cbn [option_map] in H1.
    injection H1 as <-. apply in_map_iff in H2. destruct H2 as [y [<- Hy]].
    apply pred_sets_spec in Hy. destruct Hy as [Hy Hs].
    destruct (pidx_spec po y Hy) as [_ Ey].
    split; [apply pidx_lt; exact Hy|]. split; [apply nth_error_Some; congruence|].
    cbn beta. rewrite (nth_error_nth po _ 0 Ey), (nth_error_nth po _ 0 Ex). exact Hs.
  - intros [Hp [Hi Hs]]. exists (map (pidx po) (plook (pred_sets v po) (f i))).
    split; [rewrite nth_error_map, (f_nth i Hi); reflexivity|].
    apply in_map_iff. exists (f p). split; [apply pidx_nth; [apply (po_nd po P) | apply f_nth; exact Hp]|].
    apply pred_sets_spec. split; [apply f_in; exact Hp | exact Hs].
Qed.

Lemma preds_bound i ps p : nth_error preds i = Some ps -> In p ps -> p < n.
Proof. intros H1 H2. apply (pedge_iff p i). exists ps. split; assumption. Qed.

Lemma preds_parent i : i < n - 1 -> exists ps t, nth_error preds i = Some ps /\ In t ps /\ i < t.
Proof.
  intros Hi. assert (Hin : i < n) by lia.
  pose proof (f_nth i Hin) as Ei. apply nth_error_split in Ei. destruct Ei as [l1 [l2 [Epo Hl1]]].
  assert (Hne : f i <> root).
  { intros E. rewrite <- f_root in E. apply f_inj in E; lia. }
  destruct (po_par po P l1 (f i) l2 Epo Hne) as [p [Hp Hpl]].
  apply In_nth_error in Hpl. destruct Hpl as [k Hk].
  assert (Ep : nth_error po (S (i + k)) = Some p).
  { rewrite Epo at 1. rewrite nth_error_app2 by lia.
    replace (S (i + k) - length l1) with (S k) by lia. exact Hk. }
  assert (Hlt : S (i + k) < n) by (apply nth_error_Some; congruence).
  assert (E : pedge preds (S (i + k)) i).
  { apply pedge_iff. split; [exact Hlt|]. split; [exact Hin|]. cbn beta.
    rewrite (nth_error_nth po _ 0 Ep). exact Hp. }
  destruct E as [ps [H1 H2]]. exists ps, (S (i + k)). split; [exact H1|]. split; [exact H2 | lia].
Qed.

Lemma tr_HE i j : pedge preds i j -> i < n /\ j < n /\ step v (f i) (f j).
Proof. apply pedge_iff. Qed.

Lemma tr_HR i y : i < n -> step v (f i) y -> exists j, j < n /\ y = f j /\ pedge preds i j.
Proof.
  intros Hi Hs.
  assert (Hy : In y po).
  { apply (po_reach po P). eapply reach_step; [apply (po_reach po P), f_in; exact Hi | exact Hs]. }
  destruct (pidx_spec po y Hy) as [_ Ey]. exists (pidx po y).
  assert (Hj : pidx po y < n) by (apply pidx_lt; exact Hy).
  assert (Efy : y = f (pidx po y)) by (symmetry; apply nth_error_nth; exact Ey).
  split; [exact Hj|]. split; [exact Efy|]. apply pedge_iff. split; [exact Hi|]. split; [exact Hj|].
  rewrite <- Efy. exact Hs.
Qed.

Lemma idx_idom d i : i < n -> d < n -> gidom (pedge preds) (n - 1) d i -> idom v root (f d) (f i).
Proof.
  intros Hi Hd H. apply idom_gidom.
  apply (gidom_transfer (pedge preds) (step v) f n (n - 1) root ltac:(pose proof po_pos; lia) f_root f_inj tr_HE tr_HR d i Hd Hi H).
Qed.
End WithPO.
End SimpleFast.

Section Run.
Variable v : view.
Variable root : nat.
Hypothesis Hv : VOk v.
Hypothesis Hc : in_cap v root.

Theorem simple_fast_char debug :
  exists m po, simple_fast v root debug = Ok m /\ PO v root po /\ map fst m = po /\
    forall i x d, nth_error m i = Some (x, d) ->
      (x = root /\ d = root) \/
      (x <> root /\ idom v root d x /\ exists j, i < j /\ nth_error po j = Some d).
Proof.
  destruct (dpo_po v root Hv Hc) as [po [d0 [Edpo P]]].
  unfold simple_fast. rewrite Edpo. cbn [rbind].
  pose proof (po_pos v root po P) as Hpos.
  assert (Elen : Nat.eqb (length po) 0 = false) by (apply Nat.eqb_neq; lia).
  assert (Elast : last po root = root).
  { destruct (po_last v root po P) as [l0 ->]. apply last_last. }
  rewrite Elen, Elast, Nat.eqb_refl. cbn [negb orb]. rewrite andb_false_r.
  rewrite preds_fold.
  2:{ intros node p _ Hp. apply pred_sets_spec in Hp. apply Hp. }
  cbn [rbind]. unfold setp. rewrite repeat_length.
  assert (Hlt : Nat.ltb (length po - 1) (length po) = true) by (apply Nat.ltb_lt; lia).
  rewrite Hlt. cbn [rbind].
  destruct (dom_fix_conv (length po) (mkpreds (pred_sets v po) po po) Hpos (preds_len v po)
              (preds_bound v root po P) (preds_parent v root po P))
    as [doms [Ef [Hdl [Hdr Hdi]]]]. rewrite Ef. cbn [rbind].
  assert (Hall : forall i, i < length po -> exists d, dget doms i = Some d /\ d < length po).
  { intros i Hi. destruct (Nat.eq_dec i (length po - 1)) as [->|Hne].
    - exists (length po - 1). split; [exact Hdr | lia].
    - destruct (Hdi i ltac:(lia)) as [d [H1 [_ [H2 _]]]]. exists d. split; assumption. }
  assert (Hex : existsb (fun d : option nat => match d with Some _ => false | None => true end) doms = false).
  { destruct (existsb _ doms) eqn:Ex; [|reflexivity]. exfalso.
    apply existsb_exists in Ex. destruct Ex as [o [Hin Ho]]. destruct o as [x|]; [discriminate|].
    apply In_nth_error in Hin. destruct Hin as [i Hi].
    assert (Hil : i < length po) by (rewrite <- Hdl; apply nth_error_Some; congruence).
    destruct (Hall i Hil) as [d [Hd _]]. unfold dget in Hd. rewrite Hi in Hd. discriminate. }
  rewrite Hex, andb_false_r.
  rewrite final_fold.
  2:{ intros node d Hin. apply In_nth_error in Hin. destruct Hin as [i Hi].
      rewrite nth_error_combine in Hi.
      destruct (nth_error po i) as [x|] eqn:Ex; [|discriminate].
      destruct (nth_error doms i) as [o|] eqn:Eo; [|discriminate]. injection Hi as -> ->.
      assert (Hil : i < length po) by (apply nth_error_Some; congruence).
      destruct (Hall i Hil) as [d' [Hd Hd']]. unfold dget in Hd. rewrite Eo in Hd.
      destruct d as [di|]; [|discriminate]. injection Hd as ->. exists d'. split; [reflexivity | exact Hd']. }
  eexists. exists po. split; [reflexivity|]. split; [exact P|]. split.
  - rewrite map_map. cbn [fst]. 
    assert (G : forall (l1 : list nat) (l2 : list (option nat)), length l1 = length l2 ->
                map (fun x : nat * option nat => fst x) (combine l1 l2) = l1).
    { induction l1 as [|a l1 IH]; intros [|b l2] Hl; cbn [combine map length] in *; try lia; [reflexivity|].
      cbn [fst]. f_equal. apply IH. lia. }
    apply G. symmetry; exact Hdl.
  - intros i x d Hi. rewrite nth_error_map, nth_error_combine in Hi.
    destruct (nth_error po i) as [x'|] eqn:Ex; [|discriminate].
    destruct (nth_error doms i) as [o|] eqn:Eo; [|discriminate].
    cbn [option_map fst snd] in Hi. injection Hi as <- <-.
    assert (Hil : i < length po) by (apply nth_error_Some; congruence).
    assert (Exf : x' = nth i po 0) by (symmetry; apply nth_error_nth; exact Ex).
    destruct (Nat.eq_dec i (length po - 1)) as [->|Hne].
    + left. unfold dget in Hdr. rewrite Eo in Hdr. destruct o as [di|]; [|discriminate].
      injection Hdr as ->. cbn [dval]. rewrite (po_root v root po P) in Ex. injection Ex as <-.
      split; [reflexivity | apply (f_root v root po P)].
    + right. destruct (Hdi i ltac:(lia)) as [di [H1 [H2 [H3 H4]]]].
      unfold dget in H1. rewrite Eo in H1. destruct o as [di'|]; [|discriminate]. injection H1 as ->.
      cbn [dval]. split; [|split].
      * rewrite Exf, <- (f_root v root po P). intros E. apply (f_inj v root po P) in E; lia.
      * rewrite Exf. apply (idx_idom v root po P di i Hil H3 H4).
      * exists di. split; [exact H2 | apply (f_nth po di H3)].
Qed.
End Run.
