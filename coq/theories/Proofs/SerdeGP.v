(* C17, Graph side: Graph::deserialize (from_deserialized + link_edges) is total, returns an error
   or a graph satisfying GInv with exactly the node weights and the edge list of the wire value;
   exact acceptance condition; round trip; the full-graph boundary. *)
From Coq Require Import Permutation.
From PG Require Import Lib.ListArr Lib.ListExtra Lib.Walk Model.GraphM Model.StableM Model.SerdeM
  Spec.SerdeSpec
  Proofs.GraphP Proofs.GraphQ Proofs.GraphRE Proofs.GraphRN Proofs.GraphRev Proofs.GraphH Proofs.GraphT.
Set Implicit Arguments.

Definition wtr (t : (nat * nat) * nat) : option (nat * nat * nat) :=
  Some (fst (fst t), snd (fst t), snd t).

Lemma map_wedge (g : graph nat nat) : map wedge (gedges g) = map wtr (etrip g).
Proof. unfold etrip. rewrite map_map. reflexivity. Qed.

Lemma map_wtr_inj l1 l2 : map wtr l1 = map wtr l2 -> l1 = l2.
Proof.
  revert l2; induction l1 as [|[[a b] c] l1 IH]; intros [|[[a' b'] c'] l2] H; simpl in H;
    try discriminate; auto.
  injection H as Ha Hb Hc Ht. subst. f_equal. auto.
Qed.

Lemma existsb_none_map_wedge (es : list (edge nat)) :
  existsb (fun e : option (nat * nat * nat) => match e with None => true | Some _ => false end)
          (map wedge es) = false.
Proof. induction es as [|e es IH]; simpl; auto. Qed.

Lemma existsb_none_false (es : list (option (nat * nat * nat))) :
  existsb (fun e => match e with None => true | Some _ => false end) es = false <->
  (forall e, In e es -> e <> None).
Proof.
  induction es as [|e es IH]; simpl.
  - split; [intros _ e []|reflexivity].
  - destruct e as [p|]; simpl.
    + rewrite IH. split.
      * intros H e [<-|He]; [discriminate|auto].
      * intros H e He. apply H. auto.
    + split; [discriminate|]. intros H. exfalso. apply (H None); auto.
Qed.

Section SerdeGP.
  Variable cap : nat.
  Variable capcheck : bool.

  Notation GInv := (@GInv nat nat cap).
  Notation adjf := (@adjf nat nat cap).

  Lemma too_long_false len : too_long cap capcheck len = false <-> fits cap capcheck len.
  Proof.
    unfold too_long, fits. destruct capcheck; cbn [andb].
    - destruct (Nat.leb_spec cap len) as [H|H].
      + split; [discriminate|]. intros F. specialize (F eq_refl). lia.
      + split; auto.
    - split; [intros _ F; discriminate|reflexivity].
  Qed.

  Lemma try_add_edge_inr_inv (g : graph nat nat) a b w x g' :
    try_add_edge cap false g a b w = (inr x, g') ->
    a < length (gnodes g) /\ b < length (gnodes g) /\ length (gnodes g') = length (gnodes g).
  Proof.
    intros H.
    destruct (Nat.lt_ge_cases a (length (gnodes g))) as [Ha|Ha];
      [destruct (Nat.lt_ge_cases b (length (gnodes g))) as [Hb|Hb]|].
    - destruct (@try_add_edge_ok nat nat cap false g a b w) as [g2 [E Sh]]; auto.
      rewrite E in H. injection H as _ <-. split; auto. split; auto. apply (ae_nlen Sh).
    - rewrite (@try_add_edge_oob nat nat cap false g a b w) in H; auto. discriminate.
    - rewrite (@try_add_edge_oob nat nat cap false g a b w) in H; auto. discriminate.
  Qed.

  (* the linking loop, success *)
  Lemma link_graph_edges_ok : forall (es : list (option (nat * nat * nat))) (g1 : graph nat nat),
    GInv g1 -> length (gedges g1) + length es <= cap ->
    (forall e, In e es -> exists s t w, e = Some (s, t, w) /\
                                        s < length (gnodes g1) /\ t < length (gnodes g1)) ->
    exists gf, link_graph_edges cap g1 es = Some gf /\ GInv gf /\
      map (@nwt _) (gnodes gf) = map (@nwt _) (gnodes g1) /\
      map wedge (gedges gf) = map wedge (gedges g1) ++ es.
  Proof.
    induction es as [|e es IH]; intros g1 I1 Hlen Hes; cbn [link_graph_edges].
    - exists g1. rewrite app_nil_r. auto.
    - destruct (Hes e (or_introl eq_refl)) as [s [t [w [-> [Hs Ht]]]]].
      destruct (@T1_add_edge nat nat cap false g1 s t w I1) as [_ [_ Hok]].
      destruct Hok as [g2 [Hrun [I2 [Hw [Het _]]]]]; [simpl in Hlen; lia|auto|auto|].
      rewrite Hrun.
      assert (Hn2 : length (gnodes g2) = length (gnodes g1)).
      { rewrite <- (map_length (@nwt _)), Hw, map_length. reflexivity. }
      assert (Hl2 : length (gedges g2) = S (length (gedges g1))).
      { apply (f_equal (@length _)) in Het. unfold etrip in Het.
        rewrite app_length, !map_length in Het. simpl in Het. lia. }
      destruct (IH g2 I2) as [gf [Hrunf [If [Hwf Hef]]]].
      + simpl in Hlen. lia.
      + intros e He. rewrite Hn2. apply Hes. simpl; auto.
      + exists gf. split; auto. split; auto. split; [congruence|].
        rewrite Hef, !map_wedge, Het, map_app, <- app_assoc. reflexivity.
  Qed.

  (* the linking loop, what a success implies about the input *)
  Lemma link_graph_edges_some_inv : forall (es : list (option (nat * nat * nat))) (g1 gf : graph nat nat),
    link_graph_edges cap g1 es = Some gf ->
    forall e, In e es -> exists s t w, e = Some (s, t, w) /\
                                       s < length (gnodes g1) /\ t < length (gnodes g1).
  Proof.
    induction es as [|e es IH]; intros g1 gf H e0 He0; [contradiction|].
    cbn [link_graph_edges] in H. destruct e as [[[s t] w]|]; [|discriminate].
    destruct (try_add_edge cap false g1 s t w) as [[err|x] g2] eqn:E; [discriminate|].
    apply try_add_edge_inr_inv in E. destruct E as [Hs [Ht Hn]].
    destruct He0 as [<-|He0].
    - exists s, t, w. auto.
    - rewrite <- Hn. eapply IH; eauto.
  Qed.

  Lemma init_graph_GInv (ws : list nat) :
    length ws <= cap -> GInv (mkGraph (map (fun x => mkNode x (cap, cap)) ws) []).
  Proof.
    intros Hlen. constructor; cbn [gnodes gedges].
    - rewrite map_length. auto.
    - simpl. lia.
    - intros x ed Hx. destruct x; discriminate.
    - intros k i Hi. exists []. split.
      + destruct (nth_error_lt_Some _ Hi) as [n Hn]. exists n. split; auto.
        cbn [gnodes] in Hn. rewrite nth_error_map in Hn.
        destruct (nth_error ws i); [|discriminate]. simpl in Hn. injection Hn as <-.
        destruct k; simpl; constructor.
      + intros x. split; [intros []|]. unfold epo. simpl. destruct x; discriminate.
  Qed.

  (* ---------------- T1 ---------------- *)

  Theorem deser_graph_accepts directed (w : wire) :
    (capcheck = false -> length (w_nodes w) <= cap /\ length (w_edges w) <= cap) ->
    graph_wire_ok cap capcheck directed w ->
    exists g, deser_graph cap capcheck directed w = Some g /\ GInv g /\
      map (@nwt _) (gnodes g) = w_nodes w /\ map wedge (gedges g) = w_edges w.
  Proof.
    intros Hcap [Hh [Hnone [Hd [Hfn [Hfe Hends]]]]].
    assert (Hn : length (w_nodes w) <= cap /\ length (w_edges w) <= cap).
    { destruct capcheck eqn:Ec; [|auto]. specialize (Hfn eq_refl). specialize (Hfe eq_refl). lia. }
    unfold deser_graph. rewrite Hh.
    rewrite (proj2 (existsb_none_false _) Hnone).
    rewrite Hd, Bool.eqb_reflx. cbn [negb].
    rewrite (proj2 (too_long_false _) Hfn), (proj2 (too_long_false _) Hfe). cbn [orb].
    set (g0 := mkGraph (map (fun x => mkNode x (cap, cap)) (w_nodes w)) [] : graph nat nat).
    destruct (@link_graph_edges_ok (w_edges w) g0) as [gf [Hrun [If [Hwf Hef]]]].
    - apply init_graph_GInv. lia.
    - simpl. lia.
    - intros e He. destruct e as [[[s t] x]|]; [|exfalso; apply (Hnone None); auto].
      exists s, t, x. split; auto. unfold g0. cbn [gnodes]. rewrite map_length. apply (Hends s t x). auto.
    - exists gf. split; auto. split; auto. split.
      + rewrite Hwf. unfold g0. cbn [gnodes]. rewrite map_map. cbn [nwt]. apply map_id.
      + rewrite Hef. reflexivity.
  Qed.

  Theorem deser_graph_some_inv directed (w : wire) g :
    deser_graph cap capcheck directed w = Some g -> graph_wire_ok cap capcheck directed w.
  Proof.
    unfold deser_graph. intros H.
    destruct (w_holes w) as [|h hs] eqn:Hh; [|discriminate].
    destruct (existsb _ (w_edges w)) eqn:Hex; [discriminate|].
    destruct (Bool.eqb (w_directed w) directed) eqn:Hd; [|discriminate]. cbn [negb] in H.
    destruct (too_long cap capcheck (length (w_nodes w))) eqn:Hln; [discriminate|].
    destruct (too_long cap capcheck (length (w_edges w))) eqn:Hle; [discriminate|].
    cbn [orb] in H.
    split; [exact Hh|]. split; [apply existsb_none_false; auto|].
    split; [apply Bool.eqb_prop; auto|].
    split; [apply too_long_false; auto|]. split; [apply too_long_false; auto|].
    intros s t x Hin.
    destruct (link_graph_edges_some_inv _ _ H _ Hin) as [s' [t' [x' [E [Hs Ht]]]]].
    injection E as <- <- <-. cbn [gnodes] in Hs, Ht. rewrite map_length in Hs, Ht. auto.
  Qed.

  Theorem deser_graph_rejects directed (w : wire) :
    ~ graph_wire_ok cap capcheck directed w -> deser_graph cap capcheck directed w = None.
  Proof.
    intros H. destruct (deser_graph cap capcheck directed w) as [g|] eqn:E; auto.
    exfalso. apply H. eapply deser_graph_some_inv; eauto.
  Qed.

  (* T1 in one statement *)
  Theorem deser_graph_total directed (w : wire) :
    (capcheck = false -> length (w_nodes w) <= cap /\ length (w_edges w) <= cap) ->
    (deser_graph cap capcheck directed w = None /\ ~ graph_wire_ok cap capcheck directed w) \/
    (exists g, deser_graph cap capcheck directed w = Some g /\
       graph_wire_ok cap capcheck directed w /\ GInv g /\
       map (@nwt _) (gnodes g) = w_nodes w /\ map wedge (gedges g) = w_edges w).
  Proof.
    intros Hcap. destruct (deser_graph cap capcheck directed w) as [g|] eqn:E.
    - right. pose proof (deser_graph_some_inv _ _ E) as Hok.
      destruct (deser_graph_accepts Hcap Hok) as [g' [E' R]].
      rewrite E in E'. injection E' as <-. exists g. auto.
    - left. split; auto. intros Hok.
      destruct (deser_graph_accepts Hcap Hok) as [g' [E' _]]. congruence.
  Qed.

  (* ---------------- T2 ---------------- *)

  Lemma ser_graph_ok d (g : graph nat nat) :
    GInv g ->
    (capcheck = true -> length (gnodes g) < cap /\ length (gedges g) < cap) ->
    graph_wire_ok cap capcheck d (ser_graph d g).
  Proof.
    intros I Hlt. unfold graph_wire_ok, ser_graph. cbn [w_holes w_edges w_directed w_nodes].
    rewrite !map_length. split; [reflexivity|]. split.
    - intros e He. apply in_map_iff in He. destruct He as [ed [<- _]]. discriminate.
    - split; [reflexivity|]. split; [intros Hc; apply (Hlt Hc)|]. split; [intros Hc; apply (Hlt Hc)|].
      intros s t x Hin. apply in_map_iff in Hin. destruct Hin as [ed [E Hed]].
      injection E as <- <- <-. apply nth_error_In' in Hed. destruct Hed as [i Hi].
      apply (gi_ends I _ Hi).
  Qed.

  Lemma ept_etrip (g g' : graph nat nat) k x : etrip g' = etrip g -> ept g' k x = ept g k x.
  Proof.
    intros E. apply (f_equal (fun l => nth_error l x)) in E. unfold etrip in E.
    rewrite !nth_error_map in E. unfold ept.
    destruct (nth_error (gedges g') x) as [e'|], (nth_error (gedges g) x) as [e|];
      simpl in E; try discriminate; auto.
    injection E as E1 _. unfold etr in *. rewrite E1. reflexivity.
  Qed.

  Theorem graph_roundtrip d (g : graph nat nat) :
    GInv g ->
    (capcheck = true -> length (gnodes g) < cap /\ length (gedges g) < cap) ->
    exists g', deser_graph cap capcheck d (ser_graph d g) = Some g' /\ GInv g' /\
      map (@nwt _) (gnodes g') = map (@nwt _) (gnodes g) /\
      etrip g' = etrip g /\
      graph_obs_eq g g' /\
      (forall k i, i < length (gnodes g) ->
         NoDup (adjf g' k i) /\ NoDup (adjf g k i) /\
         (forall x, In x (adjf g' k i) <-> In x (adjf g k i)) /\
         Permutation (adjf g' k i) (adjf g k i)).
  Proof.
    intros I Hlt.
    destruct (@deser_graph_accepts d (ser_graph d g)) as [g' [Hrun [I' [Hw He]]]].
    - intros _. unfold ser_graph. cbn [w_nodes w_edges]. rewrite !map_length.
      split; [apply (gi_ncap I)|apply (gi_ecap I)].
    - apply ser_graph_ok; auto.
    - unfold ser_graph in Hw, He. cbn [w_nodes w_edges] in Hw, He.
      assert (Het : etrip g' = etrip g).
      { apply map_wtr_inj. rewrite <- !map_wedge. exact He. }
      assert (Hnl : length (gnodes g') = length (gnodes g)).
      { rewrite <- (map_length (@nwt _)), Hw, map_length. reflexivity. }
      assert (Hel : length (gedges g') = length (gedges g)).
      { apply (f_equal (@length _)) in Het. unfold etrip in Het. rewrite !map_length in Het. auto. }
      exists g'. split; auto. split; auto. split; auto. split; auto. split.
      + split; auto. split; auto. split.
        * intros i. unfold g_node. rewrite <- !nth_error_map, Hw. reflexivity.
        * intros x. unfold g_edge.
          apply (f_equal (fun l => nth_error l x)) in He. rewrite !nth_error_map in He.
          destruct (nth_error (gedges g') x), (nth_error (gedges g) x); simpl in He;
            try discriminate; auto. unfold wedge in *. congruence.
      + intros k i Hi.
        assert (Hi' : i < length (gnodes g')) by lia.
        assert (Hin : forall x, In x (adjf g' k i) <-> In x (adjf g k i)).
        { intros x. rewrite (adjf_in k x I' Hi'), (adjf_in k x I Hi).
          rewrite Hel, (ept_etrip g g' k x Het). tauto. }
        pose proof (adjf_NoDup k i I') as N1. pose proof (adjf_NoDup k i I) as N2.
        split; auto. split; auto. split; auto.
        apply NoDup_Permutation; auto.
  Qed.

  (* the boundary: a graph with exactly max nodes (or edges) cannot be reloaded *)
  Theorem full_graph_not_reloadable d (g : graph nat nat) :
    capcheck = true ->
    length (gnodes g) = cap \/ length (gedges g) = cap ->
    deser_graph cap capcheck d (ser_graph d g) = None.
  Proof.
    intros Hc Hfull. unfold deser_graph, ser_graph. cbn [w_holes w_edges w_directed w_nodes].
    change (map (fun e : edge nat => Some (fst (enode e), snd (enode e), ewt e)) (gedges g))
      with (map wedge (gedges g)).
    rewrite (existsb_none_map_wedge (gedges g)).
    rewrite Bool.eqb_reflx. cbn [negb]. rewrite !map_length.
    unfold too_long. rewrite Hc. cbn [andb].
    destruct Hfull as [E|E]; rewrite E, Nat.leb_refl; [reflexivity|rewrite orb_true_r; reflexivity].
  Qed.
End SerdeGP.
