(* floyd_warshall over a view: totality, soundness of Err(NegativeCycle), and exact distances
   when there is no negative cycle and no arithmetic overflow. *)
From Coq Require Import Lia ZArith List Permutation.
From PG Require Import Lib.Io Model.View Model.Traversal Model.ShortestM.
Set Implicit Arguments.
Unset Strict Implicit.
Open Scope Z_scope.

(* ------------------------------------------------------------------ square matrices as lists of rows *)
Definition mg {A} (dflt : A) (m : list (list A)) (i j : nat) : A := nth j (nth i m []) dflt.

Definition Shape {A} (n : nat) (m : list (list A)) : Prop :=
  length m = n /\ forall r, In r m -> length r = n.

Lemma Shape_row {A} n (m : list (list A)) i r : Shape n m -> nth_error m i = Some r -> length r = n.
Proof. intros [_ H] Hr. apply H. eapply nth_error_In; eauto. Qed.

Lemma Shape_repeat {A} n (a : A) : Shape n (repeat (repeat a n) n).
Proof.
  split; [apply repeat_length|]. intros r Hr. apply repeat_spec in Hr. subst r. apply repeat_length.
Qed.

Lemma mg_repeat {A} (dflt a : A) n i j : (i < n)%nat -> (j < n)%nat -> mg dflt (repeat (repeat a n) n) i j = a.
Proof.
  intros Hi Hj. unfold mg.
  rewrite (@nth_error_nth_default _ _ _ [] _ (@nth_error_repeat _ (repeat a n) n i Hi)).
  apply (@nth_error_nth_default _ _ _ dflt _ (@nth_error_repeat _ a n j Hj)).
Qed.

Lemma mget_ok {A} (dflt : A) n m i j : Shape n m -> (i < n)%nat -> (j < n)%nat ->
  mget m i j = Ok (mg dflt m i j).
Proof.
  intros HS Hi Hj. unfold mget, mg, eget.
  destruct (@nth_error_lt_Some _ m i) as [r Hr]; [destruct HS; lia|].
  rewrite Hr, (@nth_error_nth_default _ _ _ [] _ Hr).
  destruct (@nth_error_lt_Some _ r j) as [x Hx]; [rewrite (Shape_row HS Hr); auto|].
  rewrite Hx, (@nth_error_nth_default _ _ _ dflt _ Hx). reflexivity.
Qed.

Lemma mset_ok {A} (dflt : A) n m i j x : Shape n m -> (i < n)%nat -> (j < n)%nat ->
  exists m', mset m i j x = Ok m' /\ Shape n m' /\
    forall i' j', mg dflt m' i' j' = if andb (Nat.eqb i i') (Nat.eqb j j') then x else mg dflt m i' j'.
Proof.
  intros HS Hi Hj. unfold mset.
  destruct (@nth_error_lt_Some _ m i) as [r Hr]; [destruct HS; lia|].
  pose proof (Shape_row HS Hr) as Hlr. rewrite Hr.
  destruct (Nat.ltb_spec j (length r)) as [_|Hge]; [|lia].
  exists (upd m i (upd r j x)). split; auto. split.
  - destruct HS as [Hl Hrows]. split; [rewrite upd_length; auto|].
    intros r' Hr'. apply In_nth_error in Hr'. destruct Hr' as [i' Hi'].
    rewrite nth_error_upd in Hi'. destruct (Nat.eqb i i').
    + destruct (Nat.ltb i (length m)); [|discriminate]. injection Hi' as <-. rewrite upd_length; auto.
    + apply Hrows. eapply nth_error_In; eauto.
  - intros i' j'. unfold mg. rewrite nth_upd.
    destruct (Nat.eqb_spec i i') as [<-|Hne]; cbn [andb].
    + destruct (Nat.ltb_spec i (length m)) as [_|Hge]; [|destruct HS; lia].
      rewrite nth_upd, (@nth_error_nth_default _ _ _ [] _ Hr).
      destruct (Nat.eqb j j'); cbn [andb]; auto.
      destruct (Nat.ltb_spec j (length r)); [reflexivity|lia].
    + reflexivity.
Qed.

From PG Require Import Spec.EPaths.

Section Floyd.
  Variables kmin kmax : Z.
  Variable v : view.
  Let n := vnode_count v.

  (* nodes are the indices 0 .. node_count-1, edge references join nodes *)
  Record FOk : Prop := {
    fk_all : forall i, (i < n)%nat -> In i (vnodes v);
    fk_lt : forall i, In i (vnodes v) -> (i < n)%nat;
    fk_refs : forall id a b w, In (id, a, b, w) (verefs v) -> (a < n)%nat /\ (b < n)%nat
  }.
  Hypothesis HF : FOk.

  Notation dm := (mg 0%Z).

  (* entries are at most kmax; an entry below kmax is the cost of a walk *)
  Definition Wt (d : list (list Z)) : Prop :=
    forall i j, (i < n)%nat -> (j < n)%nat ->
      dm d i j <= kmax /\ (dm d i j < kmax -> exists q, ewalk v i q j /\ ecost q = dm d i j).

  Definition St (s : fwst) : Prop := Shape n (fst s) /\ Shape n (snd s) /\ Wt (fst s).
  Definition Mono (s s' : fwst) : Prop := forall i j, dm (fst s') i j <= dm (fst s) i j.

  Lemma Mono_refl s : Mono s s.
  Proof. intros i j; lia. Qed.
  Lemma Mono_trans s1 s2 s3 : Mono s1 s2 -> Mono s2 s3 -> Mono s1 s3.
  Proof. intros H1 H2 i j. specialize (H1 i j). specialize (H2 i j). lia. Qed.

  (* setting one entry to the cost of a walk *)
  Lemma Wt_set d d' a b x : Wt d -> (a < n)%nat -> (b < n)%nat ->
    (forall i j, dm d' i j = if andb (Nat.eqb a i) (Nat.eqb b j) then x else dm d i j) ->
    x <= kmax -> (exists q, ewalk v a q b /\ ecost q = x) -> Wt d'.
  Proof.
    intros HW Ha Hb Hd' Hx Hq i j Hi Hj. rewrite Hd'.
    destruct (Nat.eqb_spec a i) as [<-|Hne]; cbn [andb]; [|apply HW; auto].
    destruct (Nat.eqb_spec b j) as [<-|Hne]; [|apply HW; auto].
    split; auto.
  Qed.

  (* ---------------------------------------------------------------- loading the edge references *)
  Definition Sym (d : list (list Z)) : Prop := forall i j, (i < n)%nat -> (j < n)%nat -> dm d i j = dm d j i.

  Lemma fw_load_spec dir : dir = vdirected v -> forall es s,
    St s -> (dir = false -> Sym (fst s)) -> (forall e, In e es -> In e (verefs v)) ->
    exists s', fw_load dir es s = Ok s' /\ St s' /\ Mono s s' /\ (dir = false -> Sym (fst s')) /\
      forall id a b w, In (id, a, b, w) es ->
        dm (fst s') a b <= w /\ (dir = false -> dm (fst s') b a <= w).
  Proof.
    intros Hdir. induction es as [|[[[id a] b] w] rest IH]; intros [d p] [HSd [HSp HW]] Hsym Hes.
    - exists (d, p). cbn [fw_load]. split; auto. split; [split; auto|]. split; [apply Mono_refl|].
      split; auto. intros id a b w [].
    - assert (Hin : In (id, a, b, w) (verefs v)) by (apply Hes; left; auto).
      assert (Hrest : forall e, In e rest -> In e (verefs v)) by (intros e H; apply Hes; right; auto).
      destruct (fk_refs HF Hin) as [Ha Hb]. cbn [fst snd] in *.
      cbn [fw_load]. rewrite (mget_ok 0 HSd Ha Hb). cbn [rbind].
      destruct (Z.ltb_spec w (dm d a b)) as [Hlt|Hge].
      + destruct (mset_ok 0 w HSd Ha Hb) as [d1 [E1 [HS1 Hd1]]].
        destruct (mset_ok None (Some a) HSp Ha Hb) as [p1 [Ep1 [HSp1 _]]].
        rewrite E1, Ep1. cbn [rbind].
        assert (Hle : w <= kmax) by (destruct (HW a b Ha Hb); lia).
        assert (HW1 : Wt d1).
        { apply (Wt_set HW Ha Hb Hd1 Hle). exists [(b, w)]. split; [|cbn [ecost snd]; lia].
          constructor; [exists id; left; auto|constructor]. }
        destruct dir eqn:Ed.
        * destruct (IH (d1, p1)) as [s' [E [HSt [HM [Hsy Hld]]]]]; auto.
          { split; auto. } { discriminate. }
          exists s'. split; auto. split; auto. split.
          { eapply Mono_trans; [|apply HM]. intros i j. cbn [fst]. rewrite Hd1.
            destruct (Nat.eqb_spec a i) as [<-|]; cbn [andb]; [|lia].
            destruct (Nat.eqb_spec b j) as [<-|]; lia. }
          split; auto. intros id0 a0 b0 w0 [Heq|Hin0]; [|apply (Hld _ _ _ _ Hin0)].
          injection Heq as <- <- <- <-. split; [|discriminate].
          pose proof (HM a b) as H. cbn [fst] in H. rewrite Hd1, !Nat.eqb_refl in H. cbn [andb] in H. auto.
        * destruct (mset_ok 0 w HS1 Hb Ha) as [d2 [E2 [HS2 Hd2]]].
          destruct (mset_ok None (Some b) HSp1 Hb Ha) as [p2 [Ep2 [HSp2 _]]].
          rewrite E2, Ep2. cbn [rbind].
          assert (HW2 : Wt d2).
          { apply (Wt_set HW1 Hb Ha Hd2 Hle). exists [(a, w)]. split; [|cbn [ecost snd]; lia].
            constructor; [exists id; right; split; auto|constructor]. }
          assert (Hd2' : forall i j, dm d2 i j =
                    if orb (andb (Nat.eqb a i) (Nat.eqb b j)) (andb (Nat.eqb b i) (Nat.eqb a j)) then w else dm d i j).
          { intros i j. rewrite Hd2, Hd1.
            destruct (andb (Nat.eqb b i) (Nat.eqb a j)); [rewrite Bool.orb_true_r; auto|].
            rewrite Bool.orb_false_r; auto. }
          destruct (IH (d2, p2)) as [s' [E [HSt [HM [Hsy Hld]]]]]; auto.
          { split; auto. }
          { intros _ i j Hi Hj. cbn [fst]. rewrite !Hd2', (Hsym eq_refl i j Hi Hj).
            destruct (Nat.eqb a i), (Nat.eqb b j), (Nat.eqb b i), (Nat.eqb a j); reflexivity. }
          exists s'. split; auto. split; auto. split.
          { eapply Mono_trans; [|apply HM]. intros i j. cbn [fst]. rewrite Hd2'.
            destruct (orb (andb (Nat.eqb a i) (Nat.eqb b j)) (andb (Nat.eqb b i) (Nat.eqb a j))) eqn:Eo; [|lia].
            apply Bool.orb_true_iff in Eo. destruct Eo as [Eo|Eo]; apply andb_prop in Eo; destruct Eo as [E3 E4];
              apply Nat.eqb_eq in E3; apply Nat.eqb_eq in E4; subst i j; [lia|].
            rewrite (Hsym eq_refl b a Hb Ha). lia. }
          split; auto. intros id0 a0 b0 w0 [Heq|Hin0]; [|apply (Hld _ _ _ _ Hin0)].
          injection Heq as <- <- <- <-.
          pose proof (HM a b) as H1. pose proof (HM b a) as H2. cbn [fst] in H1, H2.
          rewrite Hd2' in H1, H2. rewrite !Nat.eqb_refl in H1, H2. cbn [andb orb] in H1.
          rewrite Bool.orb_true_r in H2. split; auto.
      + destruct (IH (d, p)) as [s' [E [HSt [HM [Hsy Hld]]]]]; auto.
        { split; auto. }
        exists s'. split; auto. split; auto. split; auto. split; auto.
        intros id0 a0 b0 w0 [Heq|Hin0]; [|apply (Hld _ _ _ _ Hin0)].
        injection Heq as <- <- <- <-.
        pose proof (HM a b) as H1. pose proof (HM b a) as H2. cbn [fst] in H1, H2. split; [lia|].
        intros Hd. rewrite (Hsym Hd b a Hb Ha) in H2. lia.
  Qed.

  (* ---------------------------------------------------------------- the diagonal *)
  Lemma fw_diag_spec : forall ids s, St s -> (forall i, In i ids -> (i < n)%nat) ->
    exists s', fw_diag ids s = Ok s' /\ St s' /\ Mono s s' /\ forall i, In i ids -> dm (fst s') i i <= 0.
  Proof.
    induction ids as [|i rest IH]; intros [d p] [HSd [HSp HW]] Hids; cbn [fst snd] in *.
    - exists (d, p). cbn [fw_diag]. split; auto. split; [split; auto|]. split; [apply Mono_refl|]. intros i [].
    - assert (Hi : (i < n)%nat) by (apply Hids; left; auto).
      assert (Hrest : forall i', In i' rest -> (i' < n)%nat) by (intros i' H; apply Hids; right; auto).
      cbn [fw_diag]. rewrite (mget_ok 0 HSd Hi Hi). cbn [rbind].
      destruct (mset_ok None (Some i) HSp Hi Hi) as [p1 [Ep1 [HSp1 _]]].
      destruct (Z.ltb_spec 0 (dm d i i)) as [Hlt|Hge].
      + destruct (mset_ok 0 0 HSd Hi Hi) as [d1 [E1 [HS1 Hd1]]].
        rewrite E1. cbn [rbind]. rewrite Ep1. cbn [rbind].
        assert (HW1 : Wt d1).
        { apply (Wt_set HW Hi Hi Hd1); [destruct (HW i i Hi Hi); lia|].
          exists []. split; [constructor|reflexivity]. }
        destruct (IH (d1, p1)) as [s' [E [HSt [HM Hdg]]]]; auto. { split; auto. }
        exists s'. split; auto. split; auto. split.
        * eapply Mono_trans; [|apply HM]. intros a b. cbn [fst]. rewrite Hd1.
          destruct (Nat.eqb_spec i a) as [<-|]; cbn [andb]; [|lia].
          destruct (Nat.eqb_spec i b) as [<-|]; lia.
        * intros i' [<-|Hin]; [|apply Hdg; auto].
          pose proof (HM i i) as H. cbn [fst] in H. rewrite Hd1, !Nat.eqb_refl in H. cbn [andb] in H. auto.
      + cbn [rbind]. rewrite Ep1. cbn [rbind].
        destruct (IH (d, p1)) as [s' [E [HSt [HM Hdg]]]]; auto. { split; auto. }
        exists s'. split; auto. split; auto. split; auto.
        intros i' [<-|Hin]; [|apply Hdg; auto].
        pose proof (HM i i) as H. cbn [fst] in H. lia.
  Qed.

  (* ---------------------------------------------------------------- one relaxation *)
  Lemma fw_relax_spec s k i j : St s -> (k < n)%nat -> (i < n)%nat -> (j < n)%nat ->
    exists s', fw_relax kmin kmax s k i j = Ok s' /\ St s' /\ Mono s s' /\
      (dm (fst s) i k < kmax -> dm (fst s) k j < kmax ->
       kmin <= dm (fst s) i k + dm (fst s) k j <= kmax ->
       dm (fst s') i j <= dm (fst s) i k + dm (fst s) k j).
  Proof.
    destruct s as [d p]. intros [HSd [HSp HW]] Hk Hi Hj; cbn [fst snd] in *.
    unfold fw_relax. rewrite (mget_ok 0 HSd Hi Hk), (mget_ok 0 HSd Hk Hj). cbn [rbind].
    set (dik := dm d i k). set (dkj := dm d k j).
    assert (Hsame : St (d, p)) by (split; [|split]; auto).
    destruct (Z.ltb_spec dik kmax) as [Hik|Hik]; cbn [andb negb];
      [|exists (d, p); split; auto; split; auto; split; [apply Mono_refl|]; cbn [fst]; lia].
    destruct (Z.ltb_spec dkj kmax) as [Hkj|Hkj]; cbn [andb negb];
      [|exists (d, p); split; auto; split; auto; split; [apply Mono_refl|]; cbn [fst]; lia].
    unfold ov_add.
    destruct (Z.ltb_spec kmax (dik + dkj)) as [Hov|Hnov];
      [rewrite (mget_ok 0 HSd Hi Hj); cbn [rbind negb andb];
       exists (d, p); split; auto; split; auto; split; [apply Mono_refl|]; cbn [fst]; lia|].
    destruct (Z.ltb_spec (dik + dkj) kmin) as [Hun|Hnun];
      [rewrite (mget_ok 0 HSd Hi Hj); cbn [rbind negb andb];
       exists (d, p); split; auto; split; auto; split; [apply Mono_refl|]; cbn [fst]; lia|].
    rewrite (mget_ok 0 HSd Hi Hj). cbn [rbind negb andb].
    destruct (Z.ltb_spec (dik + dkj) (dm d i j)) as [Hlt|Hge];
      [|exists (d, p); split; auto; split; auto; split; [apply Mono_refl|]; cbn [fst]; lia].
    destruct (mset_ok 0 (dik + dkj) HSd Hi Hj) as [d1 [E1 [HS1 Hd1]]].
    rewrite E1. cbn [rbind]. rewrite (mget_ok None HSp Hk Hj). cbn [rbind].
    destruct (mset_ok None (mg None p k j) HSp Hi Hj) as [p1 [Ep1 [HSp1 _]]].
    rewrite Ep1. cbn [rmap].
    exists (d1, p1). split; auto. split; [|split].
    - split; auto. split; auto. cbn [fst].
      apply (Wt_set HW Hi Hj Hd1); [lia|].
      destruct (HW i k Hi Hk) as [_ H1]. destruct (HW k j Hk Hj) as [_ H2].
      destruct (H1 Hik) as [q1 [W1 C1]]. destruct (H2 Hkj) as [q2 [W2 C2]].
      exists (q1 ++ q2). split; [eapply ewalk_app; eauto|]. rewrite ecost_app. subst dik dkj. lia.
    - intros a b. cbn [fst]. rewrite Hd1.
      destruct (Nat.eqb_spec i a) as [<-|]; cbn [andb]; [|lia].
      destruct (Nat.eqb_spec j b) as [<-|]; lia.
    - intros _ _ _. cbn [fst]. rewrite Hd1, !Nat.eqb_refl. cbn [andb]. lia.
  Qed.

  (* ---------------------------------------------------------------- the triple loop never fails *)
  Lemma fw_fold_total : forall l s, St s ->
    (forall k i j, In (k, i, j) l -> (k < n)%nat /\ (i < n)%nat /\ (j < n)%nat) ->
    exists s', fw_fold kmin kmax l s = Ok s' /\ St s' /\ Mono s s'.
  Proof.
    induction l as [|[[k i] j] rest IH]; intros s HSt Hl.
    - exists s. cbn [fw_fold]. split; auto. split; auto. apply Mono_refl.
    - destruct (Hl k i j (or_introl eq_refl)) as [Hk [Hi Hj]].
      destruct (fw_relax_spec HSt Hk Hi Hj) as [s1 [E1 [HSt1 [HM1 _]]]].
      destruct (IH s1 HSt1) as [s' [E [HSt' HM]]].
      { intros k' i' j' H. apply Hl; right; auto. }
      exists s'. cbn [fw_fold]. rewrite E1. cbn [rbind]. split; auto. split; auto.
      eapply Mono_trans; eauto.
  Qed.

  Lemma fw_fold_app l1 l2 s : fw_fold kmin kmax (l1 ++ l2) s = rbind (fw_fold kmin kmax l1 s) (fw_fold kmin kmax l2).
  Proof.
    revert s; induction l1 as [|[[k i] j] rest IH]; intros s; cbn [app fw_fold rbind]; auto.
    destruct (fw_relax kmin kmax s k i j) as [s1| |]; cbn [rbind]; auto.
  Qed.

  Definition phase (k : nat) : list (nat * nat * nat) :=
    flat_map (fun i => map (fun j => (k, i, j)) (seq 0 n)) (seq 0 n).

  Lemma in_phase k k' i j : In (k', i, j) (phase k) <-> k' = k /\ (i < n)%nat /\ (j < n)%nat.
  Proof.
    unfold phase. rewrite in_flat_map. split.
    - intros [i0 [Hi0 Hin]]. apply in_map_iff in Hin. destruct Hin as [j0 [Heq Hj0]].
      injection Heq as <- <- <-. apply in_seq in Hi0. apply in_seq in Hj0. repeat split; lia.
    - intros [-> [Hi Hj]]. exists i. split; [apply in_seq; lia|].
      apply in_map_iff. exists j. split; auto. apply in_seq; lia.
  Qed.

  Lemma triples_phases : triples_kij n = flat_map phase (seq 0 n).
  Proof. reflexivity. Qed.

  Lemma in_triples k i j : In (k, i, j) (triples_kij n) -> (k < n)%nat /\ (i < n)%nat /\ (j < n)%nat.
  Proof.
    rewrite triples_phases, in_flat_map. intros [k0 [Hk0 Hin]]. apply in_phase in Hin.
    apply in_seq in Hk0. destruct Hin as [-> [Hi Hj]]. repeat split; auto; lia.
  Qed.

  (* ---------------------------------------------------------------- vertices of walks are nodes *)
  Lemma estep_lt a b w : estep v a b w -> (a < n)%nat /\ (b < n)%nat.
  Proof. intros [id [H|[_ H]]]; destruct (fk_refs HF H); auto. Qed.

  Lemma ewalk_lt i p j : ewalk v i p j -> p <> [] -> (i < n)%nat /\ (j < n)%nat.
  Proof.
    intros W; induction W as [a | a b w p c Hs Hp IH]; intros Hne; [congruence|].
    destruct (estep_lt Hs) as [Ha Hb]. split; auto.
    destruct p as [|e p']; [apply ewalk_nil_inv in Hp; subst; auto|].
    apply IH. discriminate.
  Qed.

  (* ---------------------------------------------------------------- lower bounds, phase by phase *)
  Section Exact.
    Hypothesis HNN : ~ eneg_cycle v.
    Hypothesis HB1 : forall i p j, ewalk v i p j -> esimple i p -> ecost p < kmax.
    Hypothesis HB2 : forall i p k q j, ewalk v i p k -> ewalk v k q j -> kmin <= ecost p + ecost q.

    (* d[i][j] is below every simple path i -> j whose inner vertices are all < k *)
    Definition LowP (k : nat) (d : list (list Z)) (i j : nat) : Prop :=
      forall p, ewalk v i p j -> esimple i p -> i <> j ->
        (forall x, In x (map fst p) -> x = j \/ (x < k)%nat) -> dm d i j <= ecost p.
    Definition Low (k : nat) (d : list (list Z)) : Prop := forall i j, LowP k d i j.

    Lemma Low_mono k s s' : Low k (fst s) -> Mono s s' -> Low k (fst s').
    Proof. intros HL HM i j p W Hs Hne Hin. specialize (HM i j). specialize (HL i j p W Hs Hne Hin). lia. Qed.

    Lemma relax_low s s' k i j : St s -> Low k (fst s) -> (k < n)%nat ->
      (dm (fst s) i k < kmax -> dm (fst s) k j < kmax ->
       kmin <= dm (fst s) i k + dm (fst s) k j <= kmax ->
       dm (fst s') i j <= dm (fst s) i k + dm (fst s) k j) ->
      Mono s s' -> LowP (S k) (fst s') i j.
    Proof.
      intros [HSd [HSp HW]] HL Hk Hrel HM p W Hs Hne Hin.
      assert (Hpne : p <> []) by (intros ->; apply ewalk_nil_inv in W; congruence).
      destruct (ewalk_lt W Hpne) as [Hi Hj].
      destruct (in_dec Nat.eq_dec k (map fst p)) as [Hkin|Hknin].
      - destruct (Nat.eq_dec k j) as [Hkj|Hkj].
        + specialize (HM i j). assert (dm (fst s) i j <= ecost p); [|lia].
          apply (HL i j p W Hs Hne). intros x Hx. destruct (Hin x Hx) as [->|Hlt]; auto.
          destruct (Nat.eq_dec x j); auto. right; lia.
        + destruct (esplit_at W Hs Hkin Hkj) as [p1 [p2 [Hp [W1 [W2 [Hs1 [Hs2 [Hik [Hin1 Hin2]]]]]]]]].
          assert (L1 : dm (fst s) i k <= ecost p1).
          { apply (HL i k p1 W1 Hs1 Hik). intros x Hx. destruct (Hin1 x Hx) as [->|[Hxp [Hxk Hxj]]]; auto.
            destruct (Hin x Hxp) as [->|Hlt]; [congruence|]. right; lia. }
          assert (L2 : dm (fst s) k j <= ecost p2).
          { apply (HL k j p2 W2 Hs2 Hkj). intros x Hx. destruct (Hin2 x Hx) as [Hxp Hxk].
            destruct (Hin x Hxp) as [->|Hlt]; auto. right; lia. }
          pose proof (HB1 W1 Hs1) as B1. pose proof (HB1 W2 Hs2) as B2. pose proof (HB1 W Hs) as B.
          rewrite Hp, ecost_app in *.
          destruct (HW i k Hi Hk) as [_ Hq1]. destruct (HW k j Hk Hj) as [_ Hq2].
          destruct Hq1 as [q1 [Wq1 Cq1]]; [lia|]. destruct Hq2 as [q2 [Wq2 Cq2]]; [lia|].
          pose proof (HB2 Wq1 Wq2) as B3.
          assert (dm (fst s') i j <= dm (fst s) i k + dm (fst s) k j) by (apply Hrel; lia).
          lia.
      - specialize (HM i j). assert (dm (fst s) i j <= ecost p); [|lia].
        apply (HL i j p W Hs Hne). intros x Hx. destruct (Hin x Hx) as [->|Hlt]; auto.
        right. assert (x <> k) by (intros ->; auto). lia.
    Qed.

    Lemma fw_fold_phase k : (k < n)%nat -> forall l s, St s -> Low k (fst s) ->
      (forall k' i j, In (k', i, j) l -> k' = k /\ (i < n)%nat /\ (j < n)%nat) ->
      exists s', fw_fold kmin kmax l s = Ok s' /\ St s' /\ Mono s s' /\
        forall i j, In (k, i, j) l -> LowP (S k) (fst s') i j.
    Proof.
      intros Hk. induction l as [|[[k0 i0] j0] rest IH]; intros s HSt HL Hl.
      - exists s. cbn [fw_fold]. split; auto. split; auto. split; [apply Mono_refl|]. intros i j [].
      - destruct (Hl k0 i0 j0 (or_introl eq_refl)) as [-> [Hi Hj]].
        destruct (fw_relax_spec HSt Hk Hi Hj) as [s1 [E1 [HSt1 [HM1 Hrel]]]].
        destruct (IH s1 HSt1 (Low_mono HL HM1)) as [s' [E [HSt' [HM HLow]]]].
        { intros k' i' j' H. apply Hl; right; auto. }
        exists s'. cbn [fw_fold]. rewrite E1. cbn [rbind]. split; auto. split; auto.
        split; [eapply Mono_trans; eauto|].
        intros i j [Heq|Hin]; [|apply HLow; auto].
        injection Heq as <- <-.
        pose proof (relax_low HSt HL Hk Hrel HM1) as H1.
        intros p W Hs Hne Hin. specialize (H1 p W Hs Hne Hin). specialize (HM i0 j0). lia.
    Qed.

    Lemma fw_fold_phases : forall len a s, (a + len <= n)%nat -> St s -> Low a (fst s) ->
      exists s', fw_fold kmin kmax (flat_map phase (seq a len)) s = Ok s' /\ St s' /\ Mono s s' /\
                 Low (a + len) (fst s').
    Proof.
      induction len as [|len IH]; intros a s Hle HSt HL.
      - exists s. cbn [seq flat_map fw_fold]. split; auto. split; auto. split; [apply Mono_refl|].
        rewrite Nat.add_0_r; auto.
      - cbn [seq flat_map]. rewrite fw_fold_app.
        destruct (@fw_fold_phase a) with (l := phase a) (s := s) as [s1 [E1 [HSt1 [HM1 HL1]]]]; auto; [lia| |].
        { intros k' i j H. apply in_phase in H. auto. }
        rewrite E1. cbn [rbind].
        assert (HLa : Low (S a) (fst s1)).
        { intros i j p W Hs Hne Hin.
          assert (Hpne : p <> []) by (intros ->; apply ewalk_nil_inv in W; congruence).
          destruct (ewalk_lt W Hpne) as [Hi Hj].
          apply (HL1 i j); auto. apply in_phase. auto. }
        destruct (IH (S a) s1) as [s' [E [HSt' [HM HL']]]]; auto; [lia|].
        exists s'. split; auto. split; auto. split; [eapply Mono_trans; eauto|].
        replace (a + S len)%nat with (S a + len)%nat by lia. auto.
    Qed.
  End Exact.

  (* ---------------------------------------------------------------- the prefix: init, load, diagonal *)
  Definition s_init : fwst := (repeat (repeat kmax n) n, repeat (repeat None n) n).

  Lemma St_init : St s_init.
  Proof.
    split; [apply Shape_repeat|]. split; [apply Shape_repeat|].
    intros i j Hi Hj. cbn [fst s_init]. rewrite (mg_repeat 0 kmax Hi Hj). split; lia.
  Qed.

  Lemma Sym_init : Sym (fst s_init).
  Proof. intros i j Hi Hj. cbn [fst s_init]. rewrite !mg_repeat; auto. Qed.

  (* after load and diagonal: entries are below every single reference and the diagonal is <= 0 *)
  Lemma fw_prefix :
    exists s2, rbind (fw_load (vdirected v) (verefs v) s_init) (fw_diag (vnodes v)) = Ok s2 /\ St s2 /\
      (forall a b w, estep v a b w -> dm (fst s2) a b <= w) /\
      (forall i, (i < n)%nat -> dm (fst s2) i i <= 0).
  Proof.
    destruct (@fw_load_spec (vdirected v) eq_refl (verefs v) s_init St_init (fun _ => Sym_init) (fun e H => H))
      as [s1 [E1 [HSt1 [HM1 [_ Hld]]]]].
    destruct (fw_diag_spec HSt1 (fk_lt HF)) as [s2 [E2 [HSt2 [HM2 Hdg]]]].
    exists s2. rewrite E1. cbn [rbind]. split; auto. split; auto. split.
    - intros a b w [id [Hin|[Hd Hin]]].
      + destruct (Hld _ _ _ _ Hin) as [H _]. specialize (HM2 a b). lia.
      + destruct (Hld _ _ _ _ Hin) as [_ H]. specialize (H Hd). specialize (HM2 a b). lia.
    - intros i Hi. apply Hdg. apply (fk_all HF Hi).
  Qed.

  Lemma diag_lookup d i : Shape n d -> (i < n)%nat ->
    match nth_error d i with
    | Some r => match nth_error r i with Some x => Z.ltb x 0 | None => false end
    | None => false
    end = Z.ltb (dm d i i) 0.
  Proof.
    intros HS Hi. pose proof (mget_ok 0 HS Hi Hi) as H. unfold mget, eget in H.
    destruct (nth_error d i) as [r|]; [|discriminate].
    destruct (nth_error r i) as [x|]; [|discriminate]. injection H as ->. reflexivity.
  Qed.

  (* ---------------------------------------------------------------- totality and soundness of Err *)
  Theorem fw_total_sound : 0 <= kmax ->
    exists r, floyd_warshall kmin kmax v = Ok r /\ (r = None -> eneg_cycle v).
  Proof.
    intros Hk0. destruct fw_prefix as [s2 [E2 [HSt2 _]]].
    destruct (@fw_fold_total (triples_kij n) s2 HSt2 in_triples) as [s3 [E3 [HSt3 _]]].
    unfold floyd_warshall. fold n. fold s_init.
    destruct (fw_load (vdirected v) (verefs v) s_init) as [s1| |]; cbn [rbind] in *; try discriminate.
    rewrite E2. cbn [rbind]. rewrite E3. cbn [rbind].
    destruct (existsb _ (seq 0 n)) eqn:Ex.
    - exists None. split; auto. intros _.
      apply existsb_exists in Ex. destruct Ex as [i [Hi Hneg]]. apply in_seq in Hi.
      destruct HSt3 as [HS3 [_ HW3]].
      rewrite (diag_lookup HS3) in Hneg by lia. apply Z.ltb_lt in Hneg.
      destruct (HW3 i i) as [_ Hq]; try lia. destruct Hq as [q [W C]]; [lia|].
      exists i, q. split; auto. lia.
    - eexists. split; [reflexivity|discriminate].
  Qed.

  (* ---------------------------------------------------------------- exactness *)
  Lemma ewalk_vertices_lt i p j : ewalk v i p j -> forall x, In x (map fst p) -> (x < n)%nat.
  Proof.
    intros W; induction W as [a | a b w p c Hs Hp IH]; intros x Hx; [destruct Hx|].
    destruct Hx as [<-|Hx]; auto. cbn [fst]. apply (estep_lt Hs).
  Qed.

  Theorem fw_exact : ~ eneg_cycle v ->
    (forall i p j, ewalk v i p j -> esimple i p -> ecost p < kmax) ->
    (forall i p k q j, ewalk v i p k -> ewalk v k q j -> kmin <= ecost p + ecost q) ->
    exists d p, floyd_warshall kmin kmax v = Ok (Some (d, p)) /\ Shape n d /\ Shape n p /\
      forall i j, (i < n)%nat -> (j < n)%nat ->
        (dm d i j = kmax <-> ~ ereachable v i j) /\
        (ereachable v i j -> edist v i j (dm d i j)).
  Proof.
    intros HNN HB1 HB2.
    assert (Hk0 : 0 < kmax).
    { apply (HB1 0%nat [] 0%nat); [constructor|]. constructor; [intros []|constructor]. }
    destruct fw_prefix as [s2 [E2 [HSt2 [Hstep Hdiag]]]].
    assert (HL0 : Low 0 (fst s2)).
    { intros i j p W Hs Hne Hin.
      destruct p as [|[b w] p']; [apply ewalk_nil_inv in W; congruence|].
      inversion W as [|a b' w' p'' c Hst Hp']; subst.
      assert (b = j) by (destruct (Hin b (or_introl eq_refl)); [auto|lia]). subst b.
      destruct p' as [|[b2 w2] p3].
      - cbn [ecost snd]. pose proof (Hstep _ _ _ Hst). lia.
      - exfalso. assert (b2 = j) by (destruct (Hin b2 (or_intror (or_introl eq_refl))); [auto|lia]). subst b2.
        unfold esimple in Hs. cbn [map fst] in Hs. inversion Hs as [|a l _ Hnd]; subst.
        inversion Hnd as [|a l Hnin _]; subst. apply Hnin. left; auto. }
    destruct (@fw_fold_phases HB1 HB2 n 0%nat s2) as [s3 [E3 [HSt3 [HM3 HL3]]]]; auto.
    rewrite <- triples_phases in E3. cbn [Nat.add] in HL3.
    destruct s3 as [d p]. exists d, p.
    destruct HSt3 as [HS3 [HSp3 HW3]]. cbn [fst snd] in *.
    assert (Hdii : forall i, (i < n)%nat -> dm d i i = 0).
    { intros i Hi. pose proof (Hdiag i Hi) as H1. pose proof (HM3 i i) as H2. cbn [fst] in H2.
      destruct (HW3 i i Hi Hi) as [_ Hq]. destruct Hq as [q [W C]]; [lia|].
      destruct (Z_lt_le_dec (ecost q) 0) as [Hneg|Hpos]; [|lia].
      exfalso. apply HNN. exists i, q; auto. }
    split.
    - unfold floyd_warshall. fold n. fold s_init.
      destruct (fw_load (vdirected v) (verefs v) s_init) as [s1| |]; cbn [rbind] in *; try discriminate.
      rewrite E2. cbn [rbind]. rewrite E3. cbn [rbind fst].
      destruct (existsb _ (seq 0 n)) eqn:Ex; auto.
      apply existsb_exists in Ex. destruct Ex as [i [Hi Hneg]]. apply in_seq in Hi.
      rewrite (diag_lookup HS3) in Hneg by lia. apply Z.ltb_lt in Hneg. rewrite Hdii in Hneg; lia.
    - split; auto. split; auto. intros i j Hi Hj.
      assert (Hlow : forall q, ewalk v i q j -> i <> j -> dm d i j <= ecost q).
      { intros q W Hne. destruct (eshorten HNN (le_n _) W) as [q' [W' [Hs' Hc]]].
        assert (dm d i j <= ecost q'); [|lia].
        apply (HL3 i j q' W' Hs' Hne). intros x Hx. right. apply (ewalk_vertices_lt W' Hx). }
      destruct (Nat.eq_dec i j) as [<-|Hne].
      + rewrite (Hdii i Hi). split.
        * split; [lia|]. intros Hnr. exfalso; apply Hnr. exists []; constructor.
        * intros _. apply (edist_self i HNN).
      + split; [split|].
        * intros Hmax [q W]. destruct (eshorten HNN (le_n _) W) as [q' [W' [Hs' Hc]]].
          pose proof (HB1 _ _ _ W' Hs'). pose proof (Hlow q' W' Hne). lia.
        * intros Hnr. destruct (HW3 i j Hi Hj) as [Hle Hq].
          destruct (Z_lt_le_dec (dm d i j) kmax) as [Hlt|Hge]; [|lia].
          exfalso; apply Hnr. destruct (Hq Hlt) as [q [W _]]. exists q; auto.
        * intros [q W]. destruct (HW3 i j Hi Hj) as [Hle Hq].
          destruct (eshorten HNN (le_n _) W) as [q' [W' [Hs' Hc]]].
          pose proof (HB1 _ _ _ W' Hs'). pose proof (Hlow q' W' Hne).
          split; [apply Hq; lia|]. intros q0 W0. apply (Hlow q0 W0 Hne).
  Qed.
End Floyd.

(* ------------------------------------------------------------------ sufficient conditions for the hypotheses *)
(* a feasible potential excludes negative cycles *)
Lemma potential_no_neg_cycle v (h : nat -> Z) :
  (forall a b w, estep v a b w -> h b <= h a + w) -> ~ eneg_cycle v.
Proof.
  intros Hh [a [c [W C]]].
  assert (H : forall i p j, ewalk v i p j -> h j <= h i + ecost p).
  { intros i p j Wp. induction Wp as [x | x b w p y Hs Hp IH]; cbn [ecost snd]; [lia|].
    pose proof (Hh _ _ _ Hs). lia. }
  pose proof (H _ _ _ W). lia.
Qed.

Lemma ecost_bound v M : (forall a b w, estep v a b w -> - M <= w <= M) ->
  forall i p j, ewalk v i p j -> - (Z.of_nat (length p) * M) <= ecost p <= Z.of_nat (length p) * M.
Proof.
  intros HM i p j W. induction W as [x | x b w p y Hs Hp IH]; cbn [ecost snd length]; [lia|].
  pose proof (HM _ _ _ Hs). lia.
Qed.

(* weights bounded by M, and room for node_count * M on both sides: no overflow can happen *)
Lemma bounds_from_weights kmin kmax v M : FOk v -> ~ eneg_cycle v -> 0 <= M ->
  (forall a b w, estep v a b w -> - M <= w <= M) ->
  Z.of_nat (vnode_count v) * M < kmax -> kmin <= - (2 * (Z.of_nat (vnode_count v) * M)) -> 0 < kmax ->
  (forall i p j, ewalk v i p j -> esimple i p -> ecost p < kmax) /\
  (forall i p k q j, ewalk v i p k -> ewalk v k q j -> kmin <= ecost p + ecost q).
Proof.
  intros HF HNN HM0 HM Hmax Hmin Hk0.
  assert (Hlen : forall i p j, ewalk v i p j -> esimple i p -> (length p <= vnode_count v)%nat).
  { intros i p j W Hs. destruct p as [|e p']; [cbn [length]; lia|].
    assert (Hincl : incl (map fst (e :: p')) (seq 0 (vnode_count v))).
    { intros x Hx. apply in_seq. pose proof (ewalk_vertices_lt HF W Hx). lia. }
    unfold esimple in Hs. inversion Hs as [|a l _ Hnd]; subst.
    pose proof (NoDup_incl_length Hnd Hincl) as Hle. rewrite seq_length in Hle.
    cbn [map length] in Hle. rewrite map_length in Hle. cbn [length]. lia. }
  assert (Hsimple : forall i p j, ewalk v i p j -> esimple i p ->
            - (Z.of_nat (vnode_count v) * M) <= ecost p <= Z.of_nat (vnode_count v) * M).
  { intros i p j W Hs. pose proof (Hlen _ _ _ W Hs). pose proof (ecost_bound HM W). nia. }
  split.
  - intros i p j W Hs. pose proof (Hsimple _ _ _ W Hs). lia.
  - intros i p k q j Wp Wq.
    destruct (eshorten HNN (le_n _) Wp) as [p' [Wp' [Hsp Hcp]]].
    destruct (eshorten HNN (le_n _) Wq) as [q' [Wq' [Hsq Hcq]]].
    pose proof (Hsimple _ _ _ Wp' Hsp). pose proof (Hsimple _ _ _ Wq' Hsq). lia.
Qed.
