(* Graph-side facts for the articulation-points proof: paths in symmetric views, and the
   potential that bounds the fuel of the stack machine. *)
From PG Require Import Lib.Io Model.View Model.Traversal Model.MatchM Model.CutM
                       Spec.Reach Spec.CutSpec Proofs.TravBase Proofs.DomSpecP Proofs.ArtMachP.

Section Paths.
Variable v : view.

Lemma reach_in_trans (P : nat -> Prop) a b c :
  reach_in P v a b -> reach_in P v b c -> reach_in P v a c.
Proof.
  intros H1 H2. induction H2 as [Hb | x y Hx IH Hxy Hy]; [exact H1|].
  eapply ri_step; [exact IH | exact Hxy | exact Hy].
Qed.

Lemma reach_in_step1 (P : nat -> Prop) a b : P a -> P b -> step v a b -> reach_in P v a b.
Proof. intros Ha Hb Hs. eapply ri_step; [apply ri_refl; exact Ha | exact Hs | exact Hb]. Qed.

Lemma reach_in_closed (P Q : nat -> Prop) a b :
  (forall x y, Q x -> step v x y -> P y -> Q y) -> Q a -> reach_in P v a b -> Q b.
Proof.
  intros Hc Ha H. induction H as [Hp | x y Hx IH Hxy Hy]; [exact Ha|].
  apply (Hc x y IH Hxy Hy).
Qed.

Hypothesis Hsym : symmetric v.

Lemma step_sym a b : step v a b -> step v b a.
Proof. unfold step. apply Hsym. Qed.

Lemma reach_in_sym (P : nat -> Prop) a b : reach_in P v a b -> reach_in P v b a.
Proof.
  intros H. induction H as [Ha | x y Hx IH Hxy Hy]; [apply ri_refl; exact Ha|].
  apply (reach_in_left P v y x a Hy (step_sym x y Hxy) IH).
Qed.

Lemma reachable_sym a b : reachable v a b -> reachable v b a.
Proof. rewrite !reachable_reach_in. apply reach_in_sym. Qed.
End Paths.

(* ------------------------------------------------------------------ *)
(* Potential: unvisited view nodes, each weighted 3 + degree           *)
Section Potential.
Variable v : view.

Fixpoint phi_l (f : nat -> bool) (l : list nat) : nat :=
  match l with
  | [] => 0
  | a :: t => (if f a then 0 else 3 + outdeg v a) + phi_l f t
  end.
Definition phi (t : apt) : nat := phi_l (vis t) (vnodes v).

Lemma phi_l_mono f g l : (forall x, f x = true -> g x = true) -> phi_l g l <= phi_l f l.
Proof.
  intros H. induction l as [|a l IH]; cbn [phi_l]; [lia|].
  specialize (H a).
  destruct (f a); [rewrite H by reflexivity; lia | destruct (g a); lia].
Qed.

Lemma phi_l_mark f g l cur : (forall x, f x = true -> g x = true) ->
  In cur l -> f cur = false -> g cur = true -> phi_l g l + 3 + outdeg v cur <= phi_l f l.
Proof.
  intros H Hin Hf Hg. induction l as [|a l IH]; [destruct Hin|].
  cbn [phi_l].
  destruct Hin as [->|Hin].
  - rewrite Hf, Hg. pose proof (phi_l_mono f g l H). lia.
  - specialize (IH Hin). pose proof (H a) as Ha.
    destruct (f a); [rewrite Ha by reflexivity; lia | destruct (g a); lia].
Qed.

Fixpoint degsum (l : list nat) : nat := match l with [] => 0 | a :: t => outdeg v a + degsum t end.

Lemma phi_l_bound f l : phi_l f l <= 3 * length l + degsum l.
Proof.
  induction l as [|a l IH]; cbn [phi_l degsum length]; [lia|].
  destruct (f a); lia.
Qed.

Lemma all_out_length : length (all_out v) = degsum (vnodes v).
Proof.
  unfold all_out. induction (vnodes v) as [|a l IH]; cbn [flat_map degsum]; [reflexivity|].
  rewrite app_length, map_length, IH. unfold outdeg, neighbors. rewrite map_length. reflexivity.
Qed.

Lemma phi_fuel t : phi t + 1 < ap_fuel v.
Proof.
  unfold phi, ap_fuel, trav_fuel, vnode_count.
  pose proof (phi_l_bound (vis t) (vnodes v)). rewrite <- all_out_length in H. lia.
Qed.
End Potential.

(* ------------------------------------------------------------------ *)
(* A boolean check of symmetry, for concrete views                     *)
Definition sym_check (v : view) : bool :=
  forallb (fun ae : nat * list eref =>
             forallb (fun e => mem (fst ae) (neighbors v (tgt e))) (snd ae)) (vout v).

Lemma sym_check_ok v : sym_check v = true -> symmetric v.
Proof.
  unfold sym_check. rewrite forallb_forall. intros H a b Hb.
  unfold neighbors at 1 in Hb. unfold out_edges in Hb.
  destruct (assoc_nat (vout v) a) as [es|] eqn:E; [|destruct Hb].
  apply assoc_nat_In in E. specialize (H _ E). cbn [fst snd] in H. rewrite forallb_forall in H.
  apply in_map_iff in Hb. destruct Hb as [e [<- Hin]]. apply mem_In, H, Hin.
Qed.
