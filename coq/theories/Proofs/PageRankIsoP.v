(* C20b, part 2: page_rank is equivariant under view_iso: the rank of a node depends only on
   the abstract graph, so symmetric nodes (related by an automorphism) get equal rank. *)
From Coq Require Import QArith Permutation Lia List Lqa.
From PG Require Import Lib.Io Model.View Model.PageRankM Spec.ViewIso Spec.PageRankSpec Proofs.PageRankP.
Import ListNotations.
Local Open Scope Q_scope.

(* ------------------------------------------------------------------ *)
(* the views page_rank addresses correctly: nodes are exactly 0 .. node_count-1 *)

(* pr_view: Spec/PageRankSpec.v *)

Lemma pr_view_nodes v : pr_view v -> forall x, In x (vnodes v) <-> (x < vnode_count v)%nat.
Proof. intros (Hc & Hn & _) x. rewrite Hn. apply Hc. Qed.

Lemma pr_view_closed_targets v : pr_view v -> closed_view v -> targets_in v (vnode_count v).
Proof.
  intros Hv Hc w e _ He. apply (pr_view_nodes v Hv). apply (Hc w e He).
Qed.

(* ------------------------------------------------------------------ *)
(* what view_iso gives                                                  *)

Lemma NoDup_map_inj_on (p : nat -> nat) l : inj_on p l -> NoDup l -> NoDup (map p l).
Proof.
  induction l as [|a t IH]; intros Hi Hn; cbn [map]; [constructor|].
  inversion Hn as [|a' t' Ha Ht]; subst. constructor.
  - intros H. apply in_map_iff in H. destruct H as [b [E Hb]].
    assert (b = a) by (apply Hi; [right; exact Hb|left; reflexivity|exact E]).
    subst b. exact (Ha Hb).
  - apply IH; [|exact Ht]. intros x y Hx Hy. apply Hi; right; assumption.
Qed.

Lemma iso_nodes_perm p v1 v2 : view_iso p v1 v2 -> NoDup (vnodes v1) -> NoDup (vnodes v2) ->
  Permutation (map p (vnodes v1)) (vnodes v2).
Proof.
  intros (Hinj & Hn & _) N1 N2. apply NoDup_Permutation.
  - apply NoDup_map_inj_on; assumption.
  - exact N2.
  - intros x. rewrite in_map_iff, Hn. split.
    + intros [a [E Ha]]. exists a. split; [exact Ha|symmetry; exact E].
    + intros [a [Ha E]]. exists a. split; [symmetry; exact E|exact Ha].
Qed.

Lemma iso_count p v1 v2 : view_iso p v1 v2 -> NoDup (vnodes v1) -> NoDup (vnodes v2) ->
  vnode_count v1 = vnode_count v2.
Proof.
  intros H N1 N2. unfold vnode_count.
  rewrite <- (Permutation_length (iso_nodes_perm p v1 v2 H N1 N2)). symmetry. apply map_length.
Qed.

Lemma iso_links p v1 v2 w x : view_iso p v1 v2 -> In w (vnodes v1) -> In x (vnodes v1) ->
  links v2 (p w) (p x) = links v1 w x.
Proof.
  intros (Hinj & Hn & Hperm & Ho1 & Ho2 & Ht1) Hw Hx.
  unfold links. apply Bool.eq_true_iff_eq. rewrite !existsb_exists. split.
  - intros [e2 [He2 Ht]]. apply Nat.eqb_eq in Ht.
    assert (Hin : In (entry e2) (map (entry_via p) (out_edges v1 w))).
    { eapply Permutation_in; [apply Permutation_sym, Hperm; exact Hw|]. apply in_map. exact He2. }
    apply in_map_iff in Hin. destruct Hin as [e1 [Ee He1]]. exists e1. split; [exact He1|].
    apply Nat.eqb_eq. unfold entry_via, entry in Ee. injection Ee as Ep _.
    apply Hinj; [apply (Ht1 w e1 He1)|exact Hx|congruence].
  - intros [e1 [He1 Ht]]. apply Nat.eqb_eq in Ht.
    assert (Hin : In (entry_via p e1) (map entry (out_edges v2 (p w)))).
    { eapply Permutation_in; [apply Hperm; exact Hw|]. apply in_map. exact He1. }
    apply in_map_iff in Hin. destruct Hin as [e2 [Ee He2]]. exists e2. split; [exact He2|].
    apply Nat.eqb_eq. unfold entry, entry_via in Ee. injection Ee as Ep _. congruence.
Qed.

Lemma iso_out_deg p v1 v2 w : view_iso p v1 v2 -> In w (vnodes v1) -> out_deg v2 (p w) = out_deg v1 w.
Proof.
  intros (_ & _ & Hperm & _) Hw. unfold out_deg.
  pose proof (Permutation_length (Hperm w Hw)) as E. rewrite !map_length in E. rewrite E. reflexivity.
Qed.

(* the targets of both views are nodes *)
Lemma iso_targets_in p v1 v2 : view_iso p v1 v2 -> pr_view v1 -> pr_view v2 ->
  targets_in v1 (vnode_count v1) /\ targets_in v2 (vnode_count v2).
Proof.
  intros H V1 V2. pose proof H as (Hinj & Hn & Hperm & Ho1 & Ho2 & Ht1). split.
  - intros w e _ He. apply (pr_view_nodes v1 V1). apply (Ht1 w e He).
  - intros y e2 Hy He2. apply (pr_view_nodes v2 V2).
    apply (pr_view_nodes v2 V2) in Hy. apply Hn in Hy. destruct Hy as [w [Hw ->]].
    assert (Hin : In (entry e2) (map (entry_via p) (out_edges v1 w))).
    { eapply Permutation_in; [apply Permutation_sym, Hperm; exact Hw|]. apply in_map. exact He2. }
    apply in_map_iff in Hin. destruct Hin as [e1 [Ee He1]].
    unfold entry_via, entry in Ee. injection Ee as Ep _. rewrite <- Ep.
    apply Hn. exists (tgt e1). split; [apply (Ht1 w e1 He1)|reflexivity].
Qed.

(* ------------------------------------------------------------------ *)
(* the correspondence p between two ways of addressing 0..n-1          *)

Record pr_corr (p : nat -> nat) (n : nat) (v1 v2 : view) : Prop := {
  pc_perm : Permutation (map p (seq 0 n)) (seq 0 n);
  pc_range : forall x, (x < n)%nat -> (p x < n)%nat;
  pc_links : forall w x, (w < n)%nat -> (x < n)%nat -> links v2 (p w) (p x) = links v1 w x;
  pc_deg : forall w, (w < n)%nat -> out_deg v2 (p w) = out_deg v1 w
}.

Lemma iso_pr_corr p v1 v2 : view_iso p v1 v2 -> pr_view v1 -> pr_view v2 ->
  vnode_count v2 = vnode_count v1 /\ pr_corr p (vnode_count v1) v1 v2.
Proof.
  intros H V1 V2.
  pose proof (pr_view_nodes v1 V1) as N1. pose proof (pr_view_nodes v2 V2) as N2.
  destruct V1 as (_ & _ & D1). destruct V2 as (_ & _ & D2).
  pose proof (iso_count p v1 v2 H D1 D2) as Ec. split; [symmetry; exact Ec|].
  pose proof H as (Hinj & Hn & _).
  assert (Hr : forall x, (x < vnode_count v1)%nat -> (p x < vnode_count v1)%nat).
  { intros x Hx. rewrite Ec. apply N2. apply Hn. exists x. split; [apply N1; exact Hx|reflexivity]. }
  constructor.
  - apply NoDup_Permutation.
    + apply NoDup_map_inj_on; [|apply seq_NoDup].
      intros a b Ha Hb. apply in_seq in Ha. apply in_seq in Hb. apply Hinj; apply N1; lia.
    + apply seq_NoDup.
    + intros y. rewrite in_map_iff. split.
      * intros [x [<- Hx]]. apply in_seq in Hx. apply in_seq. specialize (Hr x). lia.
      * intros Hy. apply in_seq in Hy.
        assert (Hy2 : In y (vnodes v2)) by (apply N2; lia).
        apply Hn in Hy2. destruct Hy2 as [a [Ha ->]]. exists a. split; [reflexivity|].
        apply in_seq. apply N1 in Ha. lia.
  - exact Hr.
  - intros w x Hw Hx. apply iso_links; [exact H|apply N1; exact Hw|apply N1; exact Hx].
  - intros w Hw. apply iso_out_deg; [exact H|apply N1; exact Hw].
Qed.

(* ------------------------------------------------------------------ *)
(* equivariance of one step                                            *)

Definition equi (p : nat -> nat) (n : nat) (r1 r2 : list Q) : Prop :=
  length r1 = n /\ length r2 = n /\ forall x, (x < n)%nat -> nth (p x) r2 0 == nth x r1 0.

Section Equi.
Variables (p : nat -> nat) (n : nat) (v1 v2 : view) (d : Q).
Hypothesis C : pr_corr p n v1 v2.

Lemma pr_sum_equi r1 r2 x : equi p n r1 r2 -> (x < n)%nat ->
  pr_sum v2 n d r2 (p x) == pr_sum v1 n d r1 x.
Proof.
  intros (_ & _ & Hr) Hx. unfold pr_sum.
  rewrite <- (qsum_reindex
     (fun w => pr_term d (inject_Z (Z.of_nat n)) (links v2 w (p x)) (out_deg v2 w) (nth w r2 0)) p n
     (pc_perm _ _ _ _ C)).
  apply qsum_map_ext. intros w Hw. apply in_seq in Hw.
  rewrite (pc_links _ _ _ _ C w x) by lia. rewrite (pc_deg _ _ _ _ C w) by lia.
  apply pr_term_comp. apply Hr. lia.
Qed.

Lemma pr_pi_sum_equi r1 r2 : equi p n r1 r2 -> qsum (pr_pi v2 n d r2) == qsum (pr_pi v1 n d r1).
Proof.
  intros Hr. rewrite !pr_pi_qsum.
  rewrite <- (qsum_reindex (pr_sum v2 n d r2) p n (pc_perm _ _ _ _ C)).
  apply qsum_map_ext. intros x Hx. apply in_seq in Hx. apply pr_sum_equi; [exact Hr|lia].
Qed.

Lemma Qeq_bool_comp a b : a == b -> Qeq_bool a 0 = Qeq_bool b 0.
Proof.
  intros E. destruct (Qeq_bool a 0) eqn:Ea, (Qeq_bool b 0) eqn:Eb; try reflexivity.
  - apply Qeq_bool_iff in Ea. apply Qeq_bool_neq in Eb. exfalso. apply Eb. rewrite <- E. exact Ea.
  - apply Qeq_bool_iff in Eb. apply Qeq_bool_neq in Ea. exfalso. apply Ea. rewrite E. exact Eb.
Qed.

Lemma pr_step_equi r1 r2 : equi p n r1 r2 ->
  match pr_step v1 n d r1, pr_step v2 n d r2 with
  | Some a, Some b => equi p n a b
  | None, None => True
  | _, _ => False
  end.
Proof.
  intros Hr. pose proof (pr_pi_sum_equi r1 r2 Hr) as Es.
  unfold pr_step. cbv zeta. rewrite (Qeq_bool_comp _ _ Es).
  destruct (Qeq_bool (qsum (pr_pi v1 n d r1)) 0); [exact I|].
  split; [rewrite map_length; apply pr_pi_length|].
  split; [rewrite map_length; apply pr_pi_length|].
  intros x Hx.
  rewrite !nth_map_Q by (rewrite pr_pi_length; try exact Hx; apply (pc_range _ _ _ _ C x Hx)).
  rewrite !Qred_correct. apply Qdiv_comp; [|exact Es].
  rewrite !pr_pi_nth by (try exact Hx; apply (pc_range _ _ _ _ C x Hx)).
  apply pr_sum_equi; assumption.
Qed.

Lemma pr_iter_equi k : forall r1 r2, equi p n r1 r2 ->
  equi p n (pr_iter v1 n d k r1) (pr_iter v2 n d k r2).
Proof.
  induction k as [|k IH]; intros r1 r2 Hr; cbn [pr_iter]; [exact Hr|].
  pose proof (pr_step_equi r1 r2 Hr) as Hs.
  destruct (pr_step v1 n d r1) as [a|], (pr_step v2 n d r2) as [b|]; try contradiction.
  - apply IH. exact Hs.
  - exact Hr.
Qed.

Lemma pr_init_equi : equi p n (pr_init n) (pr_init n).
Proof.
  split; [apply pr_init_length|]. split; [apply pr_init_length|].
  intros x Hx. unfold pr_init.
  rewrite !nth_repeat_Q by (try exact Hx; apply (pc_range _ _ _ _ C x Hx)). reflexivity.
Qed.

End Equi.

(* P5 *)
Theorem page_rank_equivariant p v1 v2 d k : view_iso p v1 v2 -> pr_view v1 -> pr_view v2 ->
  forall x, (x < vnode_count v1)%nat ->
  nth (p x) (page_rank_q v2 d k) 0 == nth x (page_rank_q v1 d k) 0.
Proof.
  intros H V1 V2 x Hx. destruct (iso_pr_corr p v1 v2 H V1 V2) as [Ec C].
  rewrite !page_rank_q_unfold by lia. rewrite Ec.
  apply (pr_iter_equi p _ v1 v2 d C k _ _ (pr_init_equi p _ v1 v2 C)). exact Hx.
Qed.

(* an automorphism maps every node to a node of equal rank *)
Corollary symmetric_nodes_equal_rank p v d k : view_iso p v v -> pr_view v ->
  forall x, (x < vnode_count v)%nat ->
  nth (p x) (page_rank_q v d k) 0 == nth x (page_rank_q v d k) 0.
Proof. intros H V. apply (page_rank_equivariant p v v d k H V V). Qed.

(* the sum of the ranks, and whether the break fires, do not depend on the numbering either *)
Theorem page_rank_step_corresponds p v1 v2 d k : view_iso p v1 v2 -> pr_view v1 -> pr_view v2 ->
  (pr_step v1 (vnode_count v1) d (page_rank_q v1 d k) = None <->
   pr_step v2 (vnode_count v2) d (page_rank_q v2 d k) = None).
Proof.
  intros H V1 V2. destruct (iso_pr_corr p v1 v2 H V1 V2) as [Ec C].
  destruct (vnode_count v1) as [|n] eqn:En.
  - unfold page_rank_q. rewrite Ec, En. reflexivity.
  - rewrite !page_rank_q_unfold by lia. rewrite Ec, En.
    pose proof (pr_step_equi p _ v1 v2 d C _ _
                  (pr_iter_equi p _ v1 v2 d C k _ _ (pr_init_equi p _ v1 v2 C))) as Hs.
    destruct (pr_step v1 (S n) d _), (pr_step v2 (S n) d _); try contradiction; split; congruence.
Qed.
