(* C07b, third part: floyd_warshall (walks along edge_references), the reference enumeration of
   maximal cliques, transitive closure / reduction of corresponding DAGs, all_simple_paths. *)
From Coq Require Import Permutation Lia ZArith NArith List.
From PG Require Import Lib.Io Model.View Model.Traversal Model.AlgoBasic Model.ShortestM Model.MiscM
                       Spec.Reach Spec.AlgoSpec Spec.Forest Spec.ViewIso Spec.EPaths Spec.MiscSpec
                       Proofs.AlgoAll Proofs.FloydP Proofs.FloydCompleteP
                       Proofs.MiscCliqueP Proofs.MiscTredViewP Proofs.MiscPathsP
                       Proofs.IsoP Proofs.InvarianceP Proofs.InvarianceP3.
Set Implicit Arguments.
Unset Strict Implicit.
Local Open Scope nat_scope.

(* ------------------------------------------------------------------ *)
(* J4b: floyd_warshall                                                 *)

Lemma gedges_in v a b w : In (a, b, w) (gedges v) <-> exists id, In (id, a, b, w) (verefs v).
Proof.
  unfold gedges. rewrite in_map_iff. split.
  - intros [[[[i a'] b'] w'] [E Hin]]. injection E as -> -> ->. exists i. exact Hin.
  - intros [i Hin]. exists (i, a, b, w). split; [reflexivity|exact Hin].
Qed.

(* oriented correspondence of edge_references, same directedness *)
Lemma estep_iso_fwd p v1 v2 a b w : view_iso_erefs p v1 v2 -> vdirected v1 = vdirected v2 ->
  estep v1 a b w -> estep v2 (p a) (p b) w.
Proof.
  intros HP Hd [i [Hin|[Hu Hin]]].
  - assert (G : In (p a, p b, w) (gedges v2)).
    { apply (Permutation_in _ HP). apply in_map_iff. exists (a, b, w).
      split; [reflexivity|apply gedges_in; exists i; exact Hin]. }
    apply gedges_in in G. destruct G as [i' G]. exists i'. left. exact G.
  - assert (G : In (p b, p a, w) (gedges v2)).
    { apply (Permutation_in _ HP). apply in_map_iff. exists (b, a, w).
      split; [reflexivity|apply gedges_in; exists i; exact Hin]. }
    apply gedges_in in G. destruct G as [i' G]. exists i'. right. split; [congruence|exact G].
Qed.

(* correspondence up to orientation, both views undirected *)
Lemma estep_iso_u_fwd p v1 v2 a b w : view_iso_erefs_u p v1 v2 ->
  vdirected v1 = false -> vdirected v2 = false ->
  estep v1 a b w -> estep v2 (p a) (p b) w.
Proof.
  intros HP D1 D2 St.
  assert (K : exists t, In t (gedges v1) /\ (t = (a, b, w) \/ t = (b, a, w))).
  { destruct St as [i [Hin|[_ Hin]]].
    - exists (a, b, w). split; [apply gedges_in; exists i; exact Hin|left; reflexivity].
    - exists (b, a, w). split; [apply gedges_in; exists i; exact Hin|right; reflexivity]. }
  destruct K as [t [Ht Et]]. destruct (erefs_u_counterpart HP Ht) as [t' [Ht' Fl]].
  assert (K' : t' = (p a, p b, w) \/ t' = (p b, p a, w)).
  { unfold flip_eq, triple_via in Fl. destruct Et as [-> | ->]; cbn [fst snd] in Fl; destruct Fl as [-> | ->]; auto. }
  destruct K' as [-> | ->]; apply gedges_in in Ht'; destruct Ht' as [i' G]; exists i'.
  - left. exact G.
  - right. split; [exact D2|exact G].
Qed.

Definition emap (f : nat -> nat) (c : list (nat * Z)) : list (nat * Z) :=
  map (fun bw => (f (fst bw), snd bw)) c.

Lemma ewalk_map (f : nat -> nat) v1 v2 :
  (forall a b w, estep v1 a b w -> estep v2 (f a) (f b) w) ->
  forall a c b, ewalk v1 a c b -> ewalk v2 (f a) (emap f c) (f b) /\ ecost (emap f c) = ecost c.
Proof.
  intros St a c b W. induction W as [a|a b w c d S W [IH1 IH2]]; cbn [emap map ecost fst snd].
  - split; [constructor|reflexivity].
  - split; [constructor; [apply St; exact S|exact IH1]|]. unfold emap in IH2. rewrite IH2. reflexivity.
Qed.

Lemma edist_unique v i j d1 d2 : edist v i j d1 -> edist v i j d2 -> d1 = d2.
Proof.
  intros [[c1 [W1 C1]] L1] [[c2 [W2 C2]] L2].
  pose proof (L1 _ W2). pose proof (L2 _ W1). lia.
Qed.

Section FwGen.
Variables (p q : nat -> nat) (v1 v2 : view).
Hypothesis Hq : forall i, i < vnode_count v1 -> p i < vnode_count v2 /\ q (p i) = i.
Hypothesis St12 : forall a b w, estep v1 a b w -> estep v2 (p a) (p b) w.
Hypothesis St21 : forall a b w, estep v2 a b w -> estep v1 (q a) (q b) w.

Lemma ereachable_iso_gen i j : i < vnode_count v1 -> j < vnode_count v1 ->
  (ereachable v1 i j <-> ereachable v2 (p i) (p j)).
Proof.
  intros Hi Hj. split.
  - intros [c W]. exists (emap p c). apply (ewalk_map St12 W).
  - intros [c W]. exists (emap q c). pose proof (proj1 (ewalk_map St21 W)) as W'.
    rewrite (proj2 (Hq Hi)), (proj2 (Hq Hj)) in W'. exact W'.
Qed.

Lemma edist_iso_gen i j d : i < vnode_count v1 -> j < vnode_count v1 ->
  (edist v1 i j d <-> edist v2 (p i) (p j) d).
Proof.
  intros Hi Hj. split.
  - intros [[c [W C]] L]. split.
    + destruct (ewalk_map St12 W) as [W' C']. exists (emap p c). split; [exact W'|lia].
    + intros c' W'. destruct (ewalk_map St21 W') as [W0 C0].
      rewrite (proj2 (Hq Hi)), (proj2 (Hq Hj)) in W0. rewrite <- C0. apply L. exact W0.
  - intros [[c [W C]] L]. split.
    + destruct (ewalk_map St21 W) as [W' C'].
      rewrite (proj2 (Hq Hi)), (proj2 (Hq Hj)) in W'. exists (emap q c). split; [exact W'|lia].
    + intros c' W'. destruct (ewalk_map St12 W') as [W0 C0]. rewrite <- C0. apply L. exact W0.
Qed.

Lemma eneg_cycle_iso_gen : eneg_cycle v1 <-> eneg_cycle v2.
Proof.
  split.
  - intros [a [c [W C]]]. destruct (ewalk_map St12 W) as [W' C']. exists (p a), (emap p c).
    split; [exact W'|lia].
  - intros [a [c [W C]]]. destruct (ewalk_map St21 W) as [W' C']. exists (q a), (emap q c).
    split; [exact W'|lia].
Qed.

Theorem floyd_warshall_iso_gen kmin kmax : FOk v1 -> FOk v2 ->
  (forall i c j, ewalk v1 i c j -> esimple i c -> (ecost c < kmax)%Z) ->
  (forall i c j, ewalk v2 i c j -> esimple i c -> (ecost c < kmax)%Z) ->
  (forall i c j, ewalk v1 i c j -> length c <= 2 * vnode_count v1 -> (kmin <= ecost c)%Z) ->
  (forall i c j, ewalk v2 i c j -> length c <= 2 * vnode_count v2 -> (kmin <= ecost c)%Z) ->
  (~ eneg_cycle v1 -> forall i c k d j, ewalk v1 i c k -> ewalk v1 k d j -> (kmin <= ecost c + ecost d)%Z) ->
  (~ eneg_cycle v2 -> forall i c k d j, ewalk v2 i c k -> ewalk v2 k d j -> (kmin <= ecost c + ecost d)%Z) ->
  exists r1 r2, floyd_warshall kmin kmax v1 = Ok r1 /\ floyd_warshall kmin kmax v2 = Ok r2 /\
    (r1 = None <-> r2 = None) /\
    forall d1 x1 d2 x2, r1 = Some (d1, x1) -> r2 = Some (d2, x2) ->
      forall i j, i < vnode_count v1 -> j < vnode_count v1 ->
        mg 0%Z d1 i j = mg 0%Z d2 (p i) (p j).
Proof.
  intros F1 F2 S1 S2 L1 L2 X1 X2.
  assert (K1 : (0 <= kmax)%Z).
  { assert (E : (0 < kmax)%Z); [|lia]. apply (S1 0 [] 0); [constructor|].
    unfold esimple. cbn [map]. constructor; [intros []|constructor]. }
  destruct (fw_total_sound kmin F1 K1) as [r1 [E1 _]].
  destruct (fw_total_sound kmin F2 K1) as [r2 [E2 _]].
  exists r1, r2. split; [exact E1|]. split; [exact E2|].
  pose proof (fw_err_iff kmin kmax v1 F1 S1 L1) as Z1.
  pose proof (fw_err_iff kmin kmax v2 F2 S2 L2) as Z2.
  split.
  - split; intros ->.
    + assert (K : floyd_warshall kmin kmax v2 = Ok None) by (apply Z2, eneg_cycle_iso_gen, Z1, E1).
      congruence.
    + assert (K : floyd_warshall kmin kmax v1 = Ok None) by (apply Z1, eneg_cycle_iso_gen, Z2, E2).
      congruence.
  - intros d1 x1 d2 x2 -> -> i j Hi Hj.
    assert (NC1 : ~ eneg_cycle v1) by (intros C; apply Z1 in C; congruence).
    assert (NC2 : ~ eneg_cycle v2) by (intros C; apply Z2 in C; congruence).
    destruct (fw_exact F1 NC1 S1 (X1 NC1)) as [d1' [x1' [G1 [_ [_ Y1]]]]].
    destruct (fw_exact F2 NC2 S2 (X2 NC2)) as [d2' [x2' [G2 [_ [_ Y2]]]]].
    rewrite E1 in G1. injection G1 as <- <-. rewrite E2 in G2. injection G2 as <- <-.
    destruct (Y1 i j Hi Hj) as [A1 B1].
    destruct (Y2 (p i) (p j) (proj1 (Hq Hi)) (proj1 (Hq Hj))) as [A2 B2].
    pose proof (ereachable_iso_gen Hi Hj) as ER.
    destruct (Z.eq_dec (mg 0%Z d1 i j) (mg 0%Z d2 (p i) (p j))) as [Eq|Ne]; [exact Eq|exfalso].
    assert (NN : ~ ~ ereachable v1 i j).
    { intros NR. apply Ne. rewrite (proj2 A1 NR). symmetry. apply A2. intros R. apply NR, ER, R. }
    apply NN. intros R. apply Ne.
    apply (edist_unique (proj1 (edist_iso_gen _ Hi Hj) (B1 R)) (B2 (proj1 ER R))).
Qed.
End FwGen.

Lemma FOk_ends_in_nodes v : FOk v -> ends_in_nodes v.
Proof.
  intros F a b w Hin. apply gedges_in in Hin. destruct Hin as [i Hin].
  destruct (fk_refs F Hin) as [Ha Hb]. split; apply (fk_all F); assumption.
Qed.

Lemma FOk_index_maps p v1 v2 : nodes_iso p v1 v2 -> FOk v1 -> FOk v2 ->
  forall i, i < vnode_count v1 -> p i < vnode_count v2 /\ inv_on p (vnodes v1) (p i) = i.
Proof.
  intros Hn F1 F2 i Hi. pose proof (fk_all F1 Hi) as Hin. split.
  - apply (fk_lt F2). apply (nodes_iso_img Hn Hin).
  - apply (nodes_iso_inv_left Hn Hin).
Qed.

(* floyd_warshall on two compact views (FOk: the nodes are the indices below node_count) whose
   edge_references correspond, both directed or both undirected; the side conditions of
   C11b_fw_err_iff and C11_fw_exact for both views, the same min() and max().  Then:
   Err(NegativeCycle) on both or on neither, and d1[i][j] = d2[p i][p j]. *)
Theorem floyd_warshall_iso p v1 v2 kmin kmax : nodes_iso p v1 v2 -> FOk v1 -> FOk v2 ->
  view_iso_erefs p v1 v2 -> vdirected v1 = vdirected v2 ->
  (forall i c j, ewalk v1 i c j -> esimple i c -> (ecost c < kmax)%Z) ->
  (forall i c j, ewalk v2 i c j -> esimple i c -> (ecost c < kmax)%Z) ->
  (forall i c j, ewalk v1 i c j -> length c <= 2 * vnode_count v1 -> (kmin <= ecost c)%Z) ->
  (forall i c j, ewalk v2 i c j -> length c <= 2 * vnode_count v2 -> (kmin <= ecost c)%Z) ->
  (~ eneg_cycle v1 -> forall i c k d j, ewalk v1 i c k -> ewalk v1 k d j -> (kmin <= ecost c + ecost d)%Z) ->
  (~ eneg_cycle v2 -> forall i c k d j, ewalk v2 i c k -> ewalk v2 k d j -> (kmin <= ecost c + ecost d)%Z) ->
  exists r1 r2, floyd_warshall kmin kmax v1 = Ok r1 /\ floyd_warshall kmin kmax v2 = Ok r2 /\
    (r1 = None <-> r2 = None) /\
    forall d1 x1 d2 x2, r1 = Some (d1, x1) -> r2 = Some (d2, x2) ->
      forall i j, i < vnode_count v1 -> j < vnode_count v1 ->
        mg 0%Z d1 i j = mg 0%Z d2 (p i) (p j).
Proof.
  intros Hn F1 F2 HP Hd. apply (@floyd_warshall_iso_gen p (inv_on p (vnodes v1)) v1 v2).
  - apply (FOk_index_maps Hn F1 F2).
  - intros a b w. apply (estep_iso_fwd HP Hd).
  - intros a b w. apply (estep_iso_fwd (erefs_iso_sym Hn (FOk_ends_in_nodes F1) HP)). symmetry; exact Hd.
  - exact F1.
  - exact F2.
Qed.

(* the same with edge_references corresponding up to orientation, both views undirected *)
Theorem floyd_warshall_iso_u p v1 v2 kmin kmax : nodes_iso p v1 v2 -> FOk v1 -> FOk v2 ->
  view_iso_erefs_u p v1 v2 -> vdirected v1 = false -> vdirected v2 = false ->
  (forall i c j, ewalk v1 i c j -> esimple i c -> (ecost c < kmax)%Z) ->
  (forall i c j, ewalk v2 i c j -> esimple i c -> (ecost c < kmax)%Z) ->
  (forall i c j, ewalk v1 i c j -> length c <= 2 * vnode_count v1 -> (kmin <= ecost c)%Z) ->
  (forall i c j, ewalk v2 i c j -> length c <= 2 * vnode_count v2 -> (kmin <= ecost c)%Z) ->
  (~ eneg_cycle v1 -> forall i c k d j, ewalk v1 i c k -> ewalk v1 k d j -> (kmin <= ecost c + ecost d)%Z) ->
  (~ eneg_cycle v2 -> forall i c k d j, ewalk v2 i c k -> ewalk v2 k d j -> (kmin <= ecost c + ecost d)%Z) ->
  exists r1 r2, floyd_warshall kmin kmax v1 = Ok r1 /\ floyd_warshall kmin kmax v2 = Ok r2 /\
    (r1 = None <-> r2 = None) /\
    forall d1 x1 d2 x2, r1 = Some (d1, x1) -> r2 = Some (d2, x2) ->
      forall i j, i < vnode_count v1 -> j < vnode_count v1 ->
        mg 0%Z d1 i j = mg 0%Z d2 (p i) (p j).
Proof.
  intros Hn F1 F2 HP D1 D2. apply (@floyd_warshall_iso_gen p (inv_on p (vnodes v1)) v1 v2).
  - apply (FOk_index_maps Hn F1 F2).
  - intros a b w. apply (estep_iso_u_fwd HP D1 D2).
  - intros a b w. apply (estep_iso_u_fwd (erefs_iso_u_sym Hn (FOk_ends_in_nodes F1) HP) D2 D1).
  - exact F1.
  - exact F2.
Qed.

(* ------------------------------------------------------------------ *)
(* J8a: maximal cliques (the reference enumeration)                     *)

Lemma adj_u_iso_fwd p v1 v2 a b : view_iso p v1 v2 -> adj_u v1 a b = true -> adj_u v2 (p a) (p b) = true.
Proof.
  intros H A. unfold adj_u in *. apply Bool.orb_true_iff in A. apply Bool.orb_true_iff.
  destruct A as [A|A]; [left|right]; apply mem_In; apply mem_In in A; apply (step_iso_fwd H A).
Qed.

Lemma adj_u_iso_bwd p v1 v2 a b : view_iso p v1 v2 -> In a (vnodes v1) -> In b (vnodes v1) ->
  adj_u v2 (p a) (p b) = true -> adj_u v1 a b = true.
Proof.
  intros H Ha Hb A. unfold adj_u in *. apply Bool.orb_true_iff in A. apply Bool.orb_true_iff.
  destruct A as [A|A]; [left|right]; apply mem_In; apply mem_In in A.
  - apply (step_iso_bwd H Ha Hb A).
  - apply (step_iso_bwd H Hb Ha A).
Qed.

Lemma clique_same_set v c c' : ViewIso.same_set c c' -> Clique v c -> Clique v c'.
Proof. intros S K a b Ha Hb. apply K; apply S; assumption. Qed.

Lemma clique_iso p v1 v2 c : view_iso p v1 v2 -> (forall x, In x c -> In x (vnodes v1)) ->
  (Clique v1 c <-> Clique v2 (map p c)).
Proof.
  intros H Hc. split.
  - intros K a' b' Ha' Hb' Hne. apply in_map_iff in Ha', Hb'.
    destruct Ha' as [a [<- Ha]]. destruct Hb' as [b [<- Hb]].
    apply (adj_u_iso_fwd H). apply K; [exact Ha|exact Hb|]. intros ->. apply Hne; reflexivity.
  - intros K a b Ha Hb Hne. apply (adj_u_iso_bwd H (Hc a Ha) (Hc b Hb)).
    apply K; [apply in_map; exact Ha|apply in_map; exact Hb|].
    intros E. apply Hne. apply (iso_inj H); [apply Hc; exact Ha|apply Hc; exact Hb|exact E].
Qed.

Lemma filter_sublist {A} (f : A -> bool) (l : list A) : sublist (filter f l) l.
Proof.
  induction l as [|x t IH]; cbn [filter]; [constructor|].
  destruct (f x); [apply sl_take|apply sl_skip]; exact IH.
Qed.

Lemma maximal_clique_iso_fwd p v1 v2 c1 : view_iso p v1 v2 -> MaximalClique v1 c1 ->
  exists c2, MaximalClique v2 c2 /\ ViewIso.same_set (map p c1) c2.
Proof.
  intros H [Sb [K Mx]].
  assert (Hc1 : forall x, In x c1 -> In x (vnodes v1)) by (apply (sublist_In Sb)).
  set (c2 := filter (fun y => mem y (map p c1)) (vnodes v2)).
  assert (S : ViewIso.same_set (map p c1) c2).
  { intros y. unfold c2. rewrite filter_In, mem_In. split; [|tauto].
    intros Hy. split; [|exact Hy]. apply in_map_iff in Hy. destruct Hy as [x [<- Hx]].
    apply (iso_img H (Hc1 x Hx)). }
  exists c2. split; [|exact S]. split; [apply filter_sublist|]. split.
  - apply (clique_same_set S). apply (clique_iso H Hc1). exact K.
  - intros x' Hx' Hnin K'. apply (iso_nodes H) in Hx'. destruct Hx' as [x [Hx ->]].
    apply (Mx x Hx).
    + intros Hin. apply Hnin. apply S. apply in_map. exact Hin.
    + apply (@clique_iso p v1 v2 (x :: c1) H).
      * intros z [<-|Hz]; [exact Hx|apply Hc1; exact Hz].
      * apply (@clique_same_set v2 (p x :: c2)); [|exact K'].
        intros y. cbn [map In]. rewrite (S y). tauto.
Qed.

(* the members of the two enumerations correspond as sets *)
Theorem maximal_cliques_sets_iso p v1 v2 : view_iso p v1 v2 ->
  (forall c1, In c1 (maximal_cliques_ref v1) ->
     exists c2, In c2 (maximal_cliques_ref v2) /\ ViewIso.same_set (map p c1) c2) /\
  (forall c2, In c2 (maximal_cliques_ref v2) ->
     exists c1, In c1 (maximal_cliques_ref v1) /\ ViewIso.same_set (map p c1) c2).
Proof.
  intros H. split.
  - intros c1 Hc1. apply cliques_iff in Hc1. destruct (maximal_clique_iso_fwd H Hc1) as [c2 [M S]].
    exists c2. split; [apply cliques_iff; exact M|exact S].
  - intros c2 Hc2. apply cliques_iff in Hc2.
    destruct (maximal_clique_iso_fwd (view_iso_sym H) Hc2) as [c1 [M S]].
    exists c1. split; [apply cliques_iff; exact M|].
    apply (same_set_inv H); [| |exact S].
    + destruct M as [Sb _]. apply (sublist_In Sb).
    + destruct Hc2 as [Sb _]. apply (sublist_In Sb).
Qed.

Lemma fop_of_nodup {A} (R : A -> A -> Prop) (l : list A) : NoDup l ->
  (forall a b, In a l -> In b l -> a <> b -> R a b) -> ForallOrdPairs R l.
Proof.
  induction l as [|a t IH]; intros N HR; constructor.
  - inversion N as [|a' t' Ha Ht]; subst. rewrite Forall_forall. intros b Hb.
    apply HR; [left; reflexivity|right; exact Hb|]. intros ->. contradiction.
  - inversion N; subst. apply IH; [assumption|]. intros x y Hx Hy. apply HR; right; assumption.
Qed.

Lemma cliques_count_le p v1 v2 : view_iso p v1 v2 -> NoDup (vnodes v1) ->
  length (maximal_cliques_ref v1) <= length (maximal_cliques_ref v2).
Proof.
  intros H N1.
  apply (@match_length_le _ _ (fun c1 c2 => ViewIso.same_set (map p c1) c2)).
  - apply (proj1 (maximal_cliques_sets_iso H)).
  - apply fop_of_nodup; [apply (cliques_NoDup v1 N1)|].
    intros c c' Hc Hc' Hne c2 M M'.
    apply (cliques_distinct_sets v1 c c' N1 Hc Hc' Hne).
    assert (I : forall d, In d (maximal_cliques_ref v1) -> forall x, In x d -> In x (vnodes v1)).
    { intros d Hd. apply cliques_iff in Hd. destruct Hd as [Sb _]. apply (sublist_In Sb). }
    assert (Half : forall d d' c2', In d (maximal_cliques_ref v1) -> In d' (maximal_cliques_ref v1) ->
              ViewIso.same_set (map p d) c2' -> ViewIso.same_set (map p d') c2' ->
              forall x, In x d -> In x d').
    { intros d d' c2' Hd Hd' S S' x Hx.
      assert (Hpx : In (p x) (map p d')) by (apply S', S, in_map, Hx).
      apply in_map_iff in Hpx. destruct Hpx as [y [E Hy]].
      apply (iso_inj H) in E; [subst y; exact Hy|apply (I d' Hd' y Hy)|apply (I d Hd x Hx)]. }
    intros x. split; [apply (Half c c' c2 Hc Hc' M M')|apply (Half c' c c2 Hc' Hc M' M)].
Qed.

(* with duplicate-free node lists there are equally many maximal cliques *)
Theorem maximal_cliques_iso p v1 v2 : view_iso p v1 v2 -> NoDup (vnodes v1) -> NoDup (vnodes v2) ->
  classes_correspond p (maximal_cliques_ref v1) (maximal_cliques_ref v2).
Proof.
  intros H N1 N2. destruct (maximal_cliques_sets_iso H) as [A B].
  split; [exact A|]. split; [exact B|].
  apply Nat.le_antisymm; [apply (cliques_count_le H N1)|apply (cliques_count_le (view_iso_sym H) N2)].
Qed.

(* ------------------------------------------------------------------ *)
(* J8b: transitive closure and reduction                                *)

Lemma vplus_iso_fwd p v1 v2 a b : view_iso p v1 v2 -> vplus v1 a b -> vplus v2 (p a) (p b).
Proof.
  intros H [c [S R]]. exists (p c). split; [apply (step_iso_fwd H S)|apply (reachable_iso_fwd H R)].
Qed.

Theorem vplus_iso p v1 v2 a b : view_iso p v1 v2 -> In a (vnodes v1) -> In b (vnodes v1) ->
  (vplus v1 a b <-> vplus v2 (p a) (p b)).
Proof.
  intros H Ha Hb. split; [apply (vplus_iso_fwd H)|].
  intros V. pose proof (vplus_iso_fwd (view_iso_sym H) V) as V'.
  rewrite !(iso_inv_left H) in V' by assumption. exact V'.
Qed.

Lemma vimplied_iso_fwd p v1 v2 a b : view_iso p v1 v2 ->
  (exists c, vplus v1 a c /\ vplus v1 c b) -> exists c', vplus v2 (p a) c' /\ vplus v2 c' (p b).
Proof.
  intros H [c [V1 V2]]. exists (p c). split; apply (vplus_iso_fwd H); assumption.
Qed.

Lemma vimplied_iso p v1 v2 a b : view_iso p v1 v2 -> In a (vnodes v1) -> In b (vnodes v1) ->
  ((exists c, vplus v1 a c /\ vplus v1 c b) <-> (exists c', vplus v2 (p a) c' /\ vplus v2 c' (p b))).
Proof.
  intros H Ha Hb. split; [apply (vimplied_iso_fwd H)|].
  intros V. pose proof (vimplied_iso_fwd (view_iso_sym H) V) as V'.
  rewrite !(iso_inv_left H) in V' by assumption. exact V'.
Qed.

(* toposort, dag_to_toposorted_adjacency_list and dag_transitive_reduction_closure on both views:
   the results are over ranks in the two topological orders, which may differ; read back on the
   nodes, closure and reduction are the same relations.  (i, j) and (i', j') are the ranks of a
   pair of nodes (a, b) and of its image. *)
Theorem tred_closure_iso p v1 v2 o1 o2 : view_iso p v1 v2 -> Reach.VOk v1 -> Reach.VOk v2 ->
  (forall a, In a (vnodes v1) -> a < vbound v1) -> (forall a, In a (vnodes v2) -> a < vbound v2) ->
  no_parallel_in v1 -> no_parallel_in v2 ->
  toposort v1 = Ok (inr o1) -> toposort v2 = Ok (inr o2) ->
  exists g1 rm1 tr1 tc1 g2 rm2 tr2 tc2,
    dag_to_toposorted_adjacency_list v1 o1 = Ok (g1, rm1) /\
    dag_transitive_reduction_closure g1 = Ok (tr1, tc1) /\
    dag_to_toposorted_adjacency_list v2 o2 = Ok (g2, rm2) /\
    dag_transitive_reduction_closure g2 = Ok (tr2, tc2) /\
    (forall i j a b, nth_error o1 i = Some a -> nth_error o1 j = Some b ->
       (In j (nth i tc1 []) <-> vplus v1 a b) /\
       (In j (nth i tr1 []) <-> (step v1 a b /\ ~ exists c, vplus v1 a c /\ vplus v1 c b))) /\
    (forall i j i' j' a b,
       nth_error o1 i = Some a -> nth_error o1 j = Some b ->
       nth_error o2 i' = Some (p a) -> nth_error o2 j' = Some (p b) ->
       (In j (nth i tc1 []) <-> In j' (nth i' tc2 [])) /\
       (In j (nth i tr1 []) <-> In j' (nth i' tr2 []))).
Proof.
  intros H V1 V2 B1 B2 P1 P2 E1 E2.
  destruct (tred_of_view v1 o1 V1 B1 P1 E1) as [g1 [rm1 [tr1 [tc1 [A1 [_ [_ [T1 [_ [_ [C1 [R1 _]]]]]]]]]]]].
  destruct (tred_of_view v2 o2 V2 B2 P2 E2) as [g2 [rm2 [tr2 [tc2 [A2 [_ [_ [T2 [_ [_ [C2 [R2 _]]]]]]]]]]]].
  exists g1, rm1, tr1, tc1, g2, rm2, tr2, tc2.
  split; [exact A1|]. split; [exact T1|]. split; [exact A2|]. split; [exact T2|].
  destruct (toposort_ok_sound v1 o1 V1 E1) as [_ [S1 _]].
  assert (Rd1 : forall i j a b, nth_error o1 i = Some a -> nth_error o1 j = Some b ->
     (In j (nth i tc1 []) <-> vplus v1 a b) /\
     (In j (nth i tr1 []) <-> (step v1 a b /\ ~ exists c, vplus v1 a c /\ vplus v1 c b))).
  { intros i j a b Ei Ej. rewrite C1, R1. split; split.
    - intros [a0 [b0 [Ea [Eb V]]]]. congruence.
    - intros V. exists a, b. auto.
    - intros [a0 [b0 [Ea [Eb V]]]]. rewrite Ei in Ea. rewrite Ej in Eb.
      injection Ea as <-. injection Eb as <-. exact V.
    - intros V. exists a, b. auto. }
  assert (Rd2 : forall i j a b, nth_error o2 i = Some a -> nth_error o2 j = Some b ->
     (In j (nth i tc2 []) <-> vplus v2 a b) /\
     (In j (nth i tr2 []) <-> (step v2 a b /\ ~ exists c, vplus v2 a c /\ vplus v2 c b))).
  { intros i j a b Ei Ej. rewrite C2, R2. split; split.
    - intros [a0 [b0 [Ea [Eb V]]]]. congruence.
    - intros V. exists a, b. auto.
    - intros [a0 [b0 [Ea [Eb V]]]]. rewrite Ei in Ea. rewrite Ej in Eb.
      injection Ea as <-. injection Eb as <-. exact V.
    - intros V. exists a, b. auto. }
  split; [exact Rd1|].
  intros i j i' j' a b Ei Ej Ei' Ej'.
  assert (Ha : In a (vnodes v1)) by (apply S1; apply (nth_error_In _ _ Ei)).
  assert (Hb : In b (vnodes v1)) by (apply S1; apply (nth_error_In _ _ Ej)).
  destruct (Rd1 i j a b Ei Ej) as [X1 Y1]. destruct (Rd2 i' j' (p a) (p b) Ei' Ej') as [X2 Y2].
  split.
  - rewrite X1, X2. apply (vplus_iso H Ha Hb).
  - rewrite Y1, Y2. rewrite (step_iso H Ha Hb), (vimplied_iso H Ha Hb). reflexivity.
Qed.

(* ------------------------------------------------------------------ *)
(* J8c: all_simple_paths                                               *)

Lemma last_map (f : nat -> nat) l d : last (map f l) (f d) = f (last l d).
Proof.
  induction l as [|x t IH]; [reflexivity|]. destruct t as [|y t']; [reflexivity|].
  change (map f (x :: y :: t')) with (f x :: map f (y :: t')).
  change (last (f x :: map f (y :: t')) (f d)) with (last (map f (y :: t')) (f d)).
  rewrite IH. reflexivity.
Qed.

Lemma simple_path_nodes v a b l : closed_view v -> In a (vnodes v) -> SimplePath v a b l ->
  forall x, In x l -> In x (vnodes v).
Proof.
  intros C Ha [Hh [_ [_ [_ St]]]] x Hx. apply In_nth_error in Hx. destruct Hx as [i Ei].
  revert x Ei. induction i as [|i IH]; intros x Ei.
  - destruct l as [|h t]; [discriminate Ei|]. cbn in Hh, Ei. congruence.
  - destruct (nth_error l i) as [y|] eqn:Ey.
    + apply (closed_step C (St i y x Ey Ei)).
    + exfalso. apply nth_error_None in Ey. assert (K : nth_error l (S i) <> None) by congruence.
      apply nth_error_Some in K. lia.
Qed.

Lemma simple_path_iso_fwd p v1 v2 a b l : view_iso p v1 v2 -> In a (vnodes v1) ->
  SimplePath v1 a b l -> SimplePath v2 (p a) (p b) (map p l).
Proof.
  intros H Ha SP. pose proof (simple_path_nodes (iso_closed1 H) Ha SP) as Hl.
  destruct SP as [Hh [Hlast [Hlen [Nd St]]]].
  split; [|split; [|split; [|split]]].
  - destruct l as [|h t]; [discriminate Hh|]. cbn in Hh |- *. congruence.
  - rewrite last_map, Hlast. reflexivity.
  - rewrite map_length. exact Hlen.
  - apply (NoDup_map_inj_on (iso_inj H)); [exact Hl|exact Nd].
  - intros i x' y' Ex Ey. rewrite nth_error_map in Ex, Ey.
    destruct (nth_error l i) as [x|] eqn:Gx; [|discriminate Ex].
    destruct (nth_error l (S i)) as [y|] eqn:Gy; [|discriminate Ey].
    cbn [option_map] in Ex, Ey. injection Ex as <-. injection Ey as <-.
    apply (step_iso_fwd H). apply (St i x y Gx Gy).
Qed.

Lemma map_inv_cancel p v1 v2 l' : view_iso p v1 v2 -> (forall y, In y l' -> In y (vnodes v2)) ->
  map p (map (inv_on p (vnodes v1)) l') = l'.
Proof.
  intros H Hl. rewrite map_map. rewrite <- (map_id l') at 2. apply map_ext_in.
  intros y Hy. apply (iso_inv_right H (Hl y Hy)).
Qed.

Theorem all_simple_paths_iso p v1 v2 from to min_i max_i dbg1 dbg2 ps1 ps2 : view_iso p v1 v2 ->
  NoDup (vnodes v1) -> NoDup (vnodes v2) ->
  In from (vnodes v1) -> In to (vnodes v1) -> from <> to ->
  all_simple_paths v1 from to min_i max_i dbg1 = Ok ps1 ->
  all_simple_paths v2 (p from) (p to) min_i max_i dbg2 = Ok ps2 ->
  (forall l, In l ps1 -> In (map p l) ps2) /\
  (forall l', In l' ps2 <-> exists l, In l ps1 /\ l' = map p l) /\
  (no_parallel v1 -> no_parallel v2 -> length ps1 = length ps2).
Proof.
  intros H N1 N2 Hf Ht Hne E1 E2.
  assert (Hne' : p from <> p to) by (intros E; apply Hne; apply (iso_inj H); assumption).
  assert (W1 : max_i = None -> vnodes v1 = [] -> ~ step v1 from to).
  { intros _ E. rewrite E in Hf. destruct Hf. }
  assert (W2 : max_i = None -> vnodes v2 = [] -> ~ step v2 (p from) (p to)).
  { intros _ E. pose proof (iso_img H Hf) as K. rewrite E in K. destruct K. }
  destruct (all_simple_paths_correct v1 min_i dbg1 Hne W1 E1) as [X1 D1].
  destruct (all_simple_paths_correct v2 min_i dbg2 Hne' W2 E2) as [X2 D2].
  assert (IB : inter_bound v1 max_i = inter_bound v2 max_i).
  { unfold inter_bound. destruct max_i; [reflexivity|].
    rewrite (nodes_iso_count (view_iso_nodes_iso H) N1 N2). reflexivity. }
  assert (Fwd : forall l, In l ps1 -> In (map p l) ps2).
  { intros l Hl. apply X1 in Hl. destruct Hl as [SP In1]. apply X2. split.
    - apply (simple_path_iso_fwd H Hf SP).
    - unfold inter in *. rewrite map_length, <- IB. exact In1. }
  assert (Bwd : forall l', In l' ps2 -> exists l, In l ps1 /\ l' = map p l).
  { intros l' Hl'. apply X2 in Hl'. destruct Hl' as [SP In2].
    pose proof (simple_path_nodes (iso_closed2 H) (iso_img H Hf) SP) as Hn'.
    pose proof (simple_path_iso_fwd (view_iso_sym H) (iso_img H Hf) SP) as SP'.
    rewrite !(iso_inv_left H) in SP' by assumption.
    exists (map (inv_on p (vnodes v1)) l'). split; [|symmetry; apply (map_inv_cancel H Hn')].
    apply X1. split; [exact SP'|]. unfold inter in *. rewrite map_length, IB. exact In2. }
  split; [exact Fwd|]. split.
  - intros l'. split; [apply Bwd|]. intros [l [Hl ->]]. apply Fwd; exact Hl.
  - intros NP1 NP2. rewrite <- (map_length (map p) ps1). apply Permutation_length.
    apply NoDup_Permutation.
    + apply NoDup_map_inj_in; [|apply D1; exact NP1].
      intros l l0 Hl Hl0 E. apply X1 in Hl, Hl0.
      pose proof (simple_path_nodes (iso_closed1 H) Hf (proj1 Hl)) as I1.
      pose proof (simple_path_nodes (iso_closed1 H) Hf (proj1 Hl0)) as I2.
      clear - E I1 I2 H. revert l0 E I2. induction l as [|x t IH]; intros [|y t0] E I2; try discriminate E; [reflexivity|].
      cbn [map] in E. injection E as Exy Et. f_equal.
      * apply (iso_inj H); [apply I1; left; reflexivity|apply I2; left; reflexivity|exact Exy].
      * apply IH; [intros z Hz; apply I1; right; exact Hz|exact Et|intros z Hz; apply I2; right; exact Hz].
    + apply D2; exact NP2.
    + intros l'. rewrite in_map_iff. split.
      * intros [l [<- Hl]]. apply Fwd; exact Hl.
      * intros Hl'. destruct (Bwd l' Hl') as [l [Hl ->]]. exists l. split; [reflexivity|exact Hl].
Qed.

(* ------------------------------------------------------------------ *)
(* Helpers for the examples of Props/C07b.v: boolean checks of FloydP.FOk and of a weight bound,
   and the side conditions of floyd_warshall_iso from a weight bound    *)

Definition fw_fok_b (v : view) : bool :=
  forallb (fun i => Nat.ltb i (vnode_count v)) (vnodes v)
  && forallb (fun i => mem i (vnodes v)) (seq 0 (vnode_count v))
  && forallb (fun q => Nat.ltb (esrc q) (vnode_count v) && Nat.ltb (etgt q) (vnode_count v)) (verefs v).

Lemma fw_fok_b_ok v : fw_fok_b v = true -> FOk v.
Proof.
  unfold fw_fok_b. rewrite !Bool.andb_true_iff, !forallb_forall. intros [[H1 H2] H3]. constructor.
  - intros i Hi. apply mem_In. apply H2. apply in_seq. lia.
  - intros i Hi. apply Nat.ltb_lt. apply H1; exact Hi.
  - intros id a b w Hin. specialize (H3 _ Hin). unfold esrc, etgt in H3. cbn [fst snd] in H3.
    apply Bool.andb_true_iff in H3. rewrite !Nat.ltb_lt in H3. exact H3.
Qed.

Definition estep_wbound_b (M : Z) (v : view) : bool :=
  forallb (fun q : nat * nat * nat * Z => Z.leb (- M) (snd q) && Z.leb (snd q) M) (verefs v).

Lemma estep_wbound_b_ok M v : estep_wbound_b M v = true ->
  forall a b w, estep v a b w -> (- M <= w <= M)%Z.
Proof.
  unfold estep_wbound_b. rewrite forallb_forall. intros Hb a b w [i [Hin|[_ Hin]]];
    specialize (Hb _ Hin); cbn [snd] in Hb; apply Bool.andb_true_iff in Hb;
    rewrite !Z.leb_le in Hb; exact Hb.
Qed.

Lemma fw_all_side_conditions kmin kmax v M : FOk v -> (0 <= M)%Z ->
  (forall a b w, estep v a b w -> (- M <= w <= M)%Z) ->
  (Z.of_nat (vnode_count v) * M < kmax)%Z -> (0 < kmax)%Z ->
  (kmin <= - (2 * (Z.of_nat (vnode_count v) * M)))%Z ->
  (forall i c j, ewalk v i c j -> esimple i c -> (ecost c < kmax)%Z) /\
  (forall i c j, ewalk v i c j -> length c <= 2 * vnode_count v -> (kmin <= ecost c)%Z) /\
  (~ eneg_cycle v -> forall i c k d j, ewalk v i c k -> ewalk v k d j -> (kmin <= ecost c + ecost d)%Z).
Proof.
  intros F HM HW H1 H2 H3.
  destruct (fw_complete_bounds kmin kmax v M F HM HW H1 H2 H3) as [A B].
  split; [exact A|]. split; [exact B|].
  intros NC. apply (bounds_from_weights F NC HM HW H1 H3 H2).
Qed.
