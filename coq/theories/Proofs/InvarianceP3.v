(* C07b, second part: matchings (maximum_matching, greedy_matching), ford_fulkerson (the capacity
   of a cut depends on the abstract graph only, hence so does the maximum flow), and
   k_shortest_path for every k (the walks of two corresponding views with duplicate-free
   out-lists are in a cost-preserving bijection). *)
From Coq Require Import Permutation Lia ZArith NArith List.
From PG Require Import Lib.Io Model.View Model.Traversal Model.ShortestM Model.MatchM Model.FlowM
                       Spec.Reach Spec.Paths Spec.ViewIso Spec.FlowSpec Spec.MatchSpec
                       Proofs.DijkstraP Proofs.KspP Proofs.KspGenP
                       Proofs.FlowSpecP Proofs.FlowP
                       Proofs.MatchOptP Proofs.MatchGreedyP Proofs.MatchFindJoinP Proofs.MatchTotalP
                       Proofs.GabowOptP
                       Proofs.IsoP Proofs.InvarianceP.
Set Implicit Arguments.
Unset Strict Implicit.
Local Open Scope nat_scope.

(* ------------------------------------------------------------------ *)
(* J6a: matchings                                                      *)

Lemma endpoints_map (f : nat -> nat) M : endpoints (map (pair_via f) M) = map f (endpoints M).
Proof.
  unfold endpoints. induction M as [|[i j] t IH]; [reflexivity|].
  cbn [map flat_map app pair_via fst snd]. rewrite IH. reflexivity.
Qed.

Lemma vadj_iso_fwd p v1 v2 i j : view_iso p v1 v2 -> vadj v1 i j = true -> vadj v2 (p i) (p j) = true.
Proof.
  intros H A. unfold vadj in *. apply mem_In. apply mem_In in A. apply (step_iso_fwd H A).
Qed.

Lemma is_matching_iso_fwd p v1 v2 M : view_iso p v1 v2 ->
  is_matching (vnodes v1) (vadj v1) M -> is_matching (vnodes v2) (vadj v2) (map (pair_via p) M).
Proof.
  intros H [N A]. split.
  - rewrite endpoints_map. apply (NoDup_map_inj_on (iso_inj H)); [|exact N].
    intros x Hx. unfold endpoints in Hx. apply in_flat_map in Hx. destruct Hx as [[i j] [Hij Hx]].
    destruct (A i j Hij) as [Hi [Hj _]]. cbn [fst snd] in Hx.
    destruct Hx as [<-|[<-|[]]]; assumption.
  - intros i' j' Hin. apply in_map_iff in Hin. destruct Hin as [[i j] [E Hij]].
    unfold pair_via in E. cbn [fst snd] in E. injection E as <- <-.
    destruct (A i j Hij) as [Hi [Hj U]]. split; [apply (iso_img H Hi)|]. split; [apply (iso_img H Hj)|].
    unfold uadj in *. apply Bool.orb_true_iff in U. apply Bool.orb_true_iff.
    destruct U as [U|U]; [left|right]; apply (vadj_iso_fwd H U).
Qed.

Lemma mms_iso_le p v1 v2 : view_iso p v1 v2 ->
  max_matching_size (vnodes v1) (vadj v1) <= max_matching_size (vnodes v2) (vadj v2).
Proof.
  intros H. destruct (mms_attained (vnodes v1) (vadj v1)) as [M [IM <-]].
  rewrite <- (map_length (pair_via p) M). apply mms_upper. apply (is_matching_iso_fwd H IM).
Qed.

(* the size of a maximum matching is a property of the abstract graph *)
Theorem max_matching_size_iso p v1 v2 : view_iso p v1 v2 ->
  max_matching_size (vnodes v1) (vadj v1) = max_matching_size (vnodes v2) (vadj v2).
Proof.
  intros H. apply Nat.le_antisymm; [apply (mms_iso_le H)|apply (mms_iso_le (view_iso_sym H))].
Qed.

(* maximum_matching: both runs return a maximum matching, of the same size (the pairs may differ) *)
Theorem maximum_matching_iso p v1 v2 dbg1 dbg2 : view_iso p v1 v2 ->
  MatchSpec.MOk v1 -> MatchSpec.MOk v2 -> EidOk v1 -> EidOk v2 -> CapOk v1 -> CapOk v2 ->
  vsymmetric v1 -> vsymmetric v2 ->
  exists m1 n1 m2 n2, maximum_matching v1 dbg1 = Ok (m1, n1) /\ maximum_matching v2 dbg2 = Ok (m2, n2) /\
    n1 = n2 /\ length (m_edges m1) = length (m_edges m2) /\
    valid_matching v1 m1 n1 /\ valid_matching v2 m2 n2 /\
    is_maximum (vnodes v1) (vadj v1) (m_edges m1) /\ is_maximum (vnodes v2) (vadj v2) (m_edges m2).
Proof.
  intros H M1 M2 I1 I2 C1 C2 S1 S2.
  destruct (maximum_matching_total_maximum v1 dbg1 M1 I1 C1 S1) as [m1 [n1 [E1 [V1 [Z1 [X1 _]]]]]].
  destruct (maximum_matching_total_maximum v2 dbg2 M2 I2 C2 S2) as [m2 [n2 [E2 [V2 [Z2 [X2 _]]]]]].
  exists m1, n1, m2, n2. split; [exact E1|]. split; [exact E2|].
  assert (En : n1 = n2) by (rewrite Z1, Z2; apply (max_matching_size_iso H)).
  split; [exact En|]. split.
  - destruct V1 as [_ [_ [_ L1]]]. destruct V2 as [_ [_ [_ L2]]]. rewrite <- L1, <- L2. exact En.
  - split; [exact V1|]. split; [exact V2|]. split; [exact X1|exact X2].
Qed.

(* greedy_matching: both runs return a valid matching; the sizes may differ (the result depends on
   the order of the nodes and of the out-lists: Props/C07b.v has an example) *)
Theorem greedy_matching_iso p v1 v2 : view_iso p v1 v2 -> MatchSpec.MOk v1 -> MatchSpec.MOk v2 ->
  exists m1 n1 m2 n2, greedy_inner v1 = Ok (m1, n1) /\ greedy_inner v2 = Ok (m2, n2) /\
    valid_matching v1 m1 n1 /\ valid_matching v2 m2 n2 /\
    n1 <= max_matching_size (vnodes v1) (vadj v1) /\ n2 <= max_matching_size (vnodes v1) (vadj v1).
Proof.
  intros H M1 M2.
  destruct (greedy_inner_valid v1 M1) as [m1 [n1 [E1 V1]]].
  destruct (greedy_inner_valid v2 M2) as [m2 [n2 [E2 V2]]].
  exists m1, n1, m2, n2. split; [exact E1|]. split; [exact E2|]. split; [exact V1|]. split; [exact V2|].
  destruct (valid_is_matching v1 m1 n1 (proj1 M1) V1) as [K1 L1].
  destruct (valid_is_matching v2 m2 n2 (proj1 M2) V2) as [K2 L2].
  split.
  - rewrite <- L1. apply mms_upper. exact K1.
  - rewrite (max_matching_size_iso H), <- L2. apply mms_upper. exact K2.
Qed.

(* ------------------------------------------------------------------ *)
(* J6b: cuts and ford_fulkerson                                        *)

Local Open Scope Z_scope.

Lemma sumZ_flat_map {A B} (h : A -> list B) (g : B -> Z) l :
  sumZ g (flat_map h l) = sumZ (fun a => sumZ g (h a)) l.
Proof.
  induction l as [|a t IH]; [reflexivity|]. cbn [flat_map sumZ]. rewrite sumZ_app, IH. reflexivity.
Qed.

(* what an out-entry (target, capacity) of the node a contributes to the cut U *)
Definition cut_term (U : nat -> bool) (a : nat) (tw : nat * Z) : Z :=
  if U a && negb (U (fst tw)) then snd tw else 0.

Lemma cut_cap_nodes v U :
  cut_cap (fedges v) U =
  sumZ (fun a => sumZ (cut_term U a) (map entry (out_edges v a))) (vnodes v).
Proof.
  unfold cut_cap, fedges, all_out. rewrite sumZ_flat_map. apply sumZ_ext. intros a _.
  rewrite !sumZ_map. apply sumZ_ext. intros e _. reflexivity.
Qed.

(* the capacity of the cut U of v2 is the capacity of its preimage in v1 *)
Theorem cut_cap_iso p v1 v2 U : view_iso p v1 v2 -> NoDup (vnodes v1) -> NoDup (vnodes v2) ->
  cut_cap (fedges v2) U = cut_cap (fedges v1) (fun x => U (p x)).
Proof.
  intros H N1 N2. rewrite !cut_cap_nodes.
  assert (PN : Permutation (vnodes v2) (map p (vnodes v1))).
  { apply NoDup_Permutation; [exact N2| |].
    - apply (NoDup_map_inj_on (iso_inj H)); [intros x Hx; exact Hx|exact N1].
    - intros y. rewrite (iso_nodes H), in_map_iff. split.
      + intros [a [Ha ->]]. exists a. split; [reflexivity|exact Ha].
      + intros [a [<- Ha]]. exists a. split; [exact Ha|reflexivity]. }
  rewrite (sumZ_perm _ _ _ PN), sumZ_map. apply sumZ_ext. intros a Ha.
  rewrite <- (sumZ_perm _ _ _ (iso_out H Ha)). rewrite !sumZ_map. apply sumZ_ext. intros e _.
  reflexivity.
Qed.

Lemma is_cut_pre p (U : nat -> bool) s t : is_cut U (p s) (p t) -> is_cut (fun x => U (p x)) s t.
Proof. intros [A B]. split; assumption. Qed.

Lemma ff_iso_le p v1 v2 s t w1 w2 tot1 fl1 tot2 fl2 : view_iso p v1 v2 -> FOk v1 -> FOk v2 ->
  In s (vnodes v1) -> In t (vnodes v1) -> s <> t ->
  ford_fulkerson v1 s t w1 = Ok (tot1, fl1) -> ford_fulkerson v2 (p s) (p t) w2 = Ok (tot2, fl2) ->
  tot1 <= tot2.
Proof.
  intros H F1 F2 Hs Ht Hst E1 E2.
  assert (Hst' : p s <> p t) by (intros E; apply Hst; apply (iso_inj H); assumption).
  destruct (ford_fulkerson_correct v1 s t w1 F1 Hs Ht Hst) as [a1 [b1 [G1 [_ [_ [_ [_ [U1 [_ [_ [_ Min1]]]]]]]]]]].
  destruct (ford_fulkerson_correct v2 (p s) (p t) w2 F2 (iso_img H Hs) (iso_img H Ht) Hst')
    as [a2 [b2 [G2 [_ [_ [_ [_ [U2 [C2 [T2 _]]]]]]]]]].
  rewrite E1 in G1. injection G1 as <- <-. rewrite E2 in G2. injection G2 as <- <-.
  rewrite T2, (cut_cap_iso U2 H (fok_nodup _ F1) (fok_nodup _ F2)).
  apply Min1. apply (is_cut_pre C2).
Qed.

(* ford_fulkerson: equal values for corresponding source and sink; each flow is a maximum flow
   of its own view, each value the capacity of a minimum cut (the flows may differ) *)
Theorem ford_fulkerson_iso p v1 v2 s t w1 w2 : view_iso p v1 v2 -> FOk v1 -> FOk v2 ->
  In s (vnodes v1) -> In t (vnodes v1) -> s <> t ->
  exists tot1 fl1 tot2 fl2,
    ford_fulkerson v1 s t w1 = Ok (tot1, fl1) /\ ford_fulkerson v2 (p s) (p t) w2 = Ok (tot2, fl2) /\
    tot1 = tot2 /\
    tot1 = value (fedges v1) (f_of fl1) s /\ tot2 = value (fedges v2) (f_of fl2) (p s) /\
    is_max_flow (fedges v1) (f_of fl1) s t /\ is_max_flow (fedges v2) (f_of fl2) (p s) (p t) /\
    (forall U, is_cut U s t -> tot1 <= cut_cap (fedges v1) U) /\
    (forall U, is_cut U (p s) (p t) -> tot2 <= cut_cap (fedges v2) U).
Proof.
  intros H F1 F2 Hs Ht Hst.
  assert (Hst' : p s <> p t) by (intros E; apply Hst; apply (iso_inj H); assumption).
  destruct (ford_fulkerson_correct v1 s t w1 F1 Hs Ht Hst)
    as [tot1 [fl1 [E1 [_ [Fe1 [Co1 [V1 [U1 [_ [_ [Mx1 Mn1]]]]]]]]]]].
  destruct (ford_fulkerson_correct v2 (p s) (p t) w2 F2 (iso_img H Hs) (iso_img H Ht) Hst')
    as [tot2 [fl2 [E2 [_ [Fe2 [Co2 [V2 [U2 [_ [_ [Mx2 Mn2]]]]]]]]]]].
  exists tot1, fl1, tot2, fl2. split; [exact E1|]. split; [exact E2|].
  split.
  - apply Z.le_antisymm; [apply (ff_iso_le H F1 F2 Hs Ht Hst E1 E2)|].
    pose proof (@ff_iso_le _ v2 v1 (p s) (p t) w2 w1 tot2 fl2 tot1 fl1 (view_iso_sym H) F2 F1
                  (iso_img H Hs) (iso_img H Ht) Hst' E2) as K.
    rewrite !(iso_inv_left H) in K by assumption. apply K. exact E1.
  - split; [exact V1|]. split; [exact V2|].
    split; [split; [exact Fe1|split; [exact Co1|rewrite <- V1; exact Mx1]]|].
    split; [split; [exact Fe2|split; [exact Co2|rewrite <- V2; exact Mx2]]|].
    split; assumption.
Qed.

Local Close Scope Z_scope.

(* ------------------------------------------------------------------ *)
(* J3: k_shortest_path, every k                                        *)

Lemma list_choice {B} (P : nat -> B -> Prop) (dflt : B) (l : list nat) :
  (forall a, In a l -> exists y, P a y) -> exists f : nat -> B, forall a, In a l -> P a (f a).
Proof.
  induction l as [|a t IH]; intros Hex.
  - exists (fun _ => dflt). intros a [].
  - destruct (Hex a (or_introl eq_refl)) as [y Hy].
    destruct IH as [f Hf]; [intros x Hx; apply Hex; right; exact Hx|].
    exists (fun x => if Nat.eqb x a then y else f x). intros x Hx.
    destruct (Nat.eqb_spec x a) as [->|Hn]; [exact Hy|].
    destruct Hx as [->|Hx]; [contradiction|apply Hf; exact Hx].
Qed.

Lemma NoDup_map_inj_in {A B} (f : A -> B) (l : list A) :
  (forall a b, In a l -> In b l -> f a = f b -> a = b) -> NoDup l -> NoDup (map f l).
Proof.
  induction l as [|a t IH]; intros Hi N; cbn [map]; [constructor|].
  inversion N as [|a' t' Ha Ht]; subst. constructor.
  - intros Hin. apply in_map_iff in Hin. destruct Hin as [b [E Hb]].
    apply Hi in E; [subst b; contradiction|right; exact Hb|left; reflexivity].
  - apply IH; [|exact Ht]. intros x y Hx Hy. apply Hi; right; assumption.
Qed.

Definition eref_eq_dec (x y : eref) : {x = y} + {x <> y}.
Proof. decide equality; [apply Z.eq_dec|decide equality; apply Nat.eq_dec]. Defined.

(* position of the first occurrence *)
Fixpoint idx (e : eref) (l : list eref) : nat :=
  match l with
  | [] => 0
  | h :: t => if eref_eq_dec h e then 0 else S (idx e t)
  end.

Lemma idx_lt e l : In e l -> idx e l < length l.
Proof.
  induction l as [|h t IH]; [intros []|]. cbn [idx length]. intros Hin.
  destruct (eref_eq_dec h e) as [_|Hn]; [lia|].
  destruct Hin as [E|Hin]; [contradiction|]. specialize (IH Hin). lia.
Qed.

Lemma idx_nth e l d : In e l -> nth (idx e l) l d = e.
Proof.
  induction l as [|h t IH]; [intros []|]. cbn [idx]. intros Hin.
  destruct (eref_eq_dec h e) as [E|Hn]; [exact E|].
  destruct Hin as [E|Hin]; [contradiction|]. cbn [nth]. apply IH; exact Hin.
Qed.

Section WalkMap.
Variables (p : nat -> nat) (v1 v2 : view).
Hypothesis H : view_iso p v1 v2.
Hypothesis ND2 : forall a, NoDup (out_edges v2 a).
(* F a: the out-list of p a in v2, reordered so that it matches the out-list of a entry by entry *)
Variable F : nat -> list eref.
Hypothesis HF : forall a, In a (vnodes v1) ->
  Permutation (out_edges v2 (p a)) (F a) /\
  map (entry_via p) (out_edges v1 a) = map entry (F a).

Definition em (a : nat) (e : eref) : eref := nth (idx e (out_edges v1 a)) (F a) e.

Fixpoint wm (a : nat) (w : list eref) : list eref :=
  match w with
  | [] => []
  | e :: t => em a e :: wm (tgt e) t
  end.

Lemma F_length a : In a (vnodes v1) -> length (F a) = length (out_edges v1 a).
Proof.
  intros Ha. destruct (HF Ha) as [_ E]. apply (f_equal (@length _)) in E.
  rewrite !map_length in E. symmetry. exact E.
Qed.

Lemma em_spec a e : In e (out_edges v1 a) ->
  In (em a e) (out_edges v2 (p a)) /\ tgt (em a e) = p (tgt e) /\ ewgt (em a e) = ewgt e.
Proof.
  intros He. pose proof (iso_src1 H He) as Ha. destruct (HF Ha) as [P E].
  pose proof (idx_lt He) as L. unfold em.
  assert (L' : idx e (out_edges v1 a) < length (F a)) by (rewrite (F_length Ha); exact L).
  split.
  - apply (Permutation_in _ (Permutation_sym P)). apply nth_In. exact L'.
  - assert (X : entry (nth (idx e (out_edges v1 a)) (F a) e) = entry_via p e).
    { rewrite <- (map_nth entry). rewrite <- E.
      rewrite (nth_indep _ (entry e) (entry_via p e)) by (rewrite map_length; exact L).
      rewrite (map_nth (entry_via p)). rewrite (idx_nth e He). reflexivity. }
    unfold entry, entry_via in X. injection X as X1 X2. split; assumption.
Qed.

Lemma em_inj a e e' : In e (out_edges v1 a) -> In e' (out_edges v1 a) -> em a e = em a e' -> e = e'.
Proof.
  intros He He' E. pose proof (iso_src1 H He) as Ha. destruct (HF Ha) as [P _].
  assert (NF : NoDup (F a)) by (apply (Permutation_NoDup P), ND2).
  pose proof (idx_lt He) as L. pose proof (idx_lt He') as L'.
  rewrite <- (F_length Ha) in L, L'. unfold em in E.
  rewrite (nth_indep (F a) e e' L) in E.
  apply (proj1 (NoDup_nth (F a) e') NF _ _ L L') in E.
  rewrite <- (idx_nth e He), <- (idx_nth e He'), E. reflexivity.
Qed.

Lemma wm_walk a w b : walk v1 a w b ->
  walk v2 (p a) (wm a w) (p b) /\ walk_cost (wm a w) = walk_cost w.
Proof.
  intros W. induction W as [a|a e t b He Wt [IH1 IH2]]; cbn [wm walk_cost].
  - split; [constructor|reflexivity].
  - destruct (em_spec He) as [Hin [Et Ew]]. split.
    + constructor; [exact Hin|]. rewrite Et. exact IH1.
    + rewrite Ew, IH2. reflexivity.
Qed.

Lemma wm_inj w : forall a b w' b', walk v1 a w b -> walk v1 a w' b' -> wm a w = wm a w' -> w = w'.
Proof.
  induction w as [|e t IH]; intros a b w' b' W W' E.
  - destruct w' as [|e' t']; [reflexivity|discriminate E].
  - destruct w' as [|e' t']; [discriminate E|]. cbn [wm] in E. injection E as E1 E2.
    inversion W as [|a0 e0 t0 b0 He Wt]; subst. inversion W' as [|a0 e0 t0 b0 He' Wt']; subst.
    pose proof (em_inj He He' E1) as <-. f_equal. apply (IH (tgt e) b t' b' Wt Wt' E2).
Qed.

Lemma at_least_walks_fwd_F s x k (P : Z -> Prop) :
  at_least_walks v1 s x k P -> at_least_walks v2 (p s) (p x) k P.
Proof.
  intros [l [N [L A]]]. exists (map (wm s) l). split; [|split].
  - apply NoDup_map_inj_in; [|exact N]. intros w w' Hw Hw' E.
    apply (wm_inj (proj1 (A w Hw)) (proj1 (A w' Hw')) E).
  - rewrite map_length. exact L.
  - intros q Hq. apply in_map_iff in Hq. destruct Hq as [w [<- Hw]].
    destruct (A w Hw) as [W Pw]. destruct (wm_walk W) as [W' C']. split; [exact W'|].
    rewrite C'. exact Pw.
Qed.
End WalkMap.

Lemma at_least_walks_iso_fwd p v1 v2 s x k (P : Z -> Prop) : view_iso p v1 v2 ->
  (forall a, NoDup (out_edges v2 a)) ->
  at_least_walks v1 s x k P -> at_least_walks v2 (p s) (p x) k P.
Proof.
  intros H ND2.
  destruct (@list_choice (list eref)
              (fun a l => Permutation (out_edges v2 (p a)) l /\
                          map (entry_via p) (out_edges v1 a) = map entry l) [] (vnodes v1)) as [F HF].
  { intros a Ha. destruct (Permutation_map_inv entry _ (iso_out H Ha)) as [l3 [E Pm]].
    exists l3. split; assumption. }
  apply (at_least_walks_fwd_F H ND2 HF).
Qed.

Theorem at_least_walks_iso p v1 v2 s x k (P : Z -> Prop) : view_iso p v1 v2 ->
  (forall a, NoDup (out_edges v1 a)) -> (forall a, NoDup (out_edges v2 a)) ->
  In s (vnodes v1) -> In x (vnodes v1) ->
  (at_least_walks v1 s x k P <-> at_least_walks v2 (p s) (p x) k P).
Proof.
  intros H ND1 ND2 Hs Hx. split; [apply (at_least_walks_iso_fwd H ND2)|].
  intros A. pose proof (at_least_walks_iso_fwd (view_iso_sym H) ND1 A) as A'.
  rewrite !(iso_inv_left H) in A' by assumption. exact A'.
Qed.

(* the k-th smallest cost of a walk (with multiplicity) is a property of the abstract graph *)
Theorem kth_walk_cost_iso p v1 v2 s x k d : view_iso p v1 v2 ->
  (forall a, NoDup (out_edges v1 a)) -> (forall a, NoDup (out_edges v2 a)) ->
  In s (vnodes v1) -> In x (vnodes v1) ->
  (kth_walk_cost v1 s x k d <-> kth_walk_cost v2 (p s) (p x) k d).
Proof.
  intros H ND1 ND2 Hs Hx. unfold kth_walk_cost.
  rewrite (at_least_walks_iso k (fun c => (c <= d)%Z) H ND1 ND2 Hs Hx).
  rewrite (at_least_walks_iso k (fun c => (c < d)%Z) H ND1 ND2 Hs Hx). reflexivity.
Qed.

Theorem ksp_iso p v1 v2 s k : view_iso p v1 v2 ->
  Paths.VOk v1 -> Paths.VOk v2 -> nonneg v1 ->
  (forall a e, In e (out_edges v1 a) -> tgt e < vbound v1) ->
  (forall a e, In e (out_edges v2 a) -> tgt e < vbound v2) ->
  s < vbound v1 -> p s < vbound v2 ->
  (forall a, NoDup (out_edges v1 a)) -> (forall a, NoDup (out_edges v2 a)) ->
  In s (vnodes v1) ->
  exists m1 m2, k_shortest_path v1 (vbound v1) s None k = Ok m1 /\
                k_shortest_path v2 (vbound v2) (p s) None k = Ok m2 /\
    (forall x, In x (vnodes v1) -> sget m1 x = sget m2 (p x)) /\
    (forall y d, sget m2 y = Some d -> exists x, In x (vnodes v1) /\ y = p x /\ sget m1 x = Some d) /\
    (forall x d, sget m1 x = Some d -> In x (vnodes v1)).
Proof.
  intros H V1 V2 N1 T1 T2 B1 B2 ND1 ND2 Hs.
  pose proof (proj1 (nonneg_iso H) N1) as N2.
  destruct (ksp_gen_exact k V1 N1 T1 B1 ND1) as [m1 [E1 [_ X1]]].
  destruct (ksp_gen_exact k V2 N2 T2 B2 ND2) as [m2 [E2 [_ X2]]].
  exists m1, m2. split; [exact E1|]. split; [exact E2|].
  assert (A : forall x, In x (vnodes v1) -> sget m1 x = sget m2 (p x)).
  { intros x Hx. apply option_eq_by_some. intros d.
    rewrite X1, X2. apply (kth_walk_cost_iso k d H ND1 ND2 Hs Hx). }
  split; [exact A|]. split.
  - intros y d Hy. pose proof Hy as Hy'. apply X2 in Hy'.
    destruct (kth_walk_cost_attained Hy') as [c [W _]].
    pose proof (closed_walk (iso_closed2 H) (iso_img H Hs) W) as Hn.
    apply (iso_nodes H) in Hn. destruct Hn as [x [Hx ->]].
    exists x. split; [exact Hx|]. split; [reflexivity|]. rewrite (A x Hx). exact Hy.
  - intros x d Hx. apply X1 in Hx. destruct (kth_walk_cost_attained Hx) as [c [W _]].
    apply (closed_walk (iso_closed1 H) Hs W).
Qed.
