(* T2: StableGraph::try_add_edge.  The endpoints are validated first; the edge takes the head of
   the free edge list when there is one, else a new slot; it is linked at the heads of the
   out-list of a and the in-list of b. *)
From PG Require Import Lib.ListArr Lib.ListExtra Lib.Walk Model.GraphM Model.StableM
  Proofs.GraphP Proofs.GraphRE Proofs.StableP.
Set Implicit Arguments.

Lemma wrong_index_spec (g : IG) a b :
  match wrong_index g a b with
  | None => nwo g a <> None /\ nwo g b <> None
  | Some i => (i = a \/ i = b) /\ nwo g i = None
  end.
Proof.
  unfold wrong_index.
  destruct (Nat.leb_spec (length (gnodes g)) (Nat.max a b)) as [Hle|Hlt].
  - split; [lia|]. apply nwo_oob; auto.
  - assert (Ha : a < length (gnodes g)) by lia. assert (Hb : b < length (gnodes g)) by lia.
    destruct (nth_error_lt_Some _ Ha) as [an Han]. destruct (nth_error_lt_Some _ Hb) as [bn Hbn].
    rewrite Han, Hbn. destruct (nwt an) as [wa|] eqn:Ea.
    + destruct (Nat.eqb_spec a b) as [Eab|Nab].
      * subst b. rewrite (nwo_nth _ _ Han), Ea. split; discriminate.
      * destruct (nwt bn) as [wb|] eqn:Eb.
        -- rewrite (nwo_nth _ _ Han), (nwo_nth _ _ Hbn), Ea, Eb. split; discriminate.
        -- split; auto. rewrite (nwo_nth _ _ Hbn). auto.
    + split; auto. rewrite (nwo_nth _ _ Han). auto.
Qed.

Section AddEdge.
  Variable cap : nat.
  Variable capcheck : bool.
  Variable debug : bool.

  Notation adj := (@adj (option nat) (option nat) cap).

  (* the graph after slot [eidx] (vacant, or one past the end) has received the edge (a,b,w)
     and has been linked *)
  Record link_post (g g' : IG) (eidx a b w : nat) : Prop := {
    lp_nlen : length (gnodes g') = length (gnodes g);
    lp_nodes : forall k j n, nth_error (gnodes g) j = Some n ->
       exists n', nth_error (gnodes g') j = Some n' /\ nwt n' = nwt n /\
          sel (nnext n') k = if Nat.eqb j (sel (a, b) k) then eidx else sel (nnext n) k;
    lp_nother : forall j, j <> a -> j <> b -> nth_error (gnodes g') j = nth_error (gnodes g) j;
    lp_eother : forall x, x <> eidx -> nth_error (gedges g') x = nth_error (gedges g) x;
    lp_enew : exists ed', nth_error (gedges g') eidx = Some ed' /\ ewt ed' = Some w /\
       enode ed' = (a, b) /\
       forall k nk, nth_error (gnodes g) (sel (a, b) k) = Some nk -> sel (enext ed') k = sel (nnext nk) k;
    lp_elen : length (gedges g') = Nat.max (length (gedges g)) (S eidx)
  }.

  Lemma link_edge_post (g g1 : IG) eidx a b w e0 :
    gnodes g1 = gnodes g ->
    (forall x, x <> eidx -> nth_error (gedges g1) x = nth_error (gedges g) x) ->
    nth_error (gedges g1) eidx = Some e0 -> ewt e0 = Some w -> enode e0 = (a, b) ->
    length (gedges g1) = Nat.max (length (gedges g)) (S eidx) ->
    a < length (gnodes g) -> b < length (gnodes g) ->
    exists g2, link_edge g1 eidx a b = Ok g2 /\ link_post g g2 eidx a b w.
  Proof.
    intros En Eo He0 Hw0 Hn0 Hlen Ha Hb.
    destruct (nth_error_lt_Some _ Ha) as [an Han]. destruct (nth_error_lt_Some _ Hb) as [bn Hbn].
    assert (Hel : eidx < length (gedges g1)) by (eapply nth_error_Some_lt; eauto).
    unfold link_edge. rewrite En, Han, Hbn.
    destruct (Nat.eqb_spec a b) as [Eab|Nab].
    - assert (bn = an) by congruence. subst bn.
      unfold upd_edge. rewrite He0. cbn [rbind]. unfold upd_node. cbn [gnodes gedges].
      rewrite En, Han. eexists; split; [reflexivity|]. constructor; cbn [gnodes gedges].
      + apply upd_length.
      + rewrite <- Eab. intros k j n Hj. rewrite nth_error_upd.
        assert (Hs : sel (a, a) k = a) by (destruct k; reflexivity). rewrite Hs.
        destruct (Nat.eqb_spec a j) as [<-|Hne].
        * destruct (Nat.ltb_spec a (length (gnodes g))); [|lia].
          assert (n = an) by congruence. subst n.
          eexists; split; [reflexivity|]. split; [reflexivity|].
          rewrite Nat.eqb_refl. destruct k; reflexivity.
        * exists n; split; auto. split; auto.
          destruct (Nat.eqb_spec j a); [congruence|reflexivity].
      + intros j Hja _. apply nth_error_upd_neq. auto.
      + intros x Hx. rewrite nth_error_upd_neq by auto. apply Eo; auto.
      + eexists; split; [apply nth_error_upd_eq; auto|]. cbn [ewt enode enext set_enext].
        split; auto. split; auto. rewrite <- Eab.
        intros k nk. assert (Hs : sel (a, a) k = a) by (destruct k; reflexivity). rewrite Hs.
        intros Hk. assert (nk = an) by congruence. subst nk. reflexivity.
      + rewrite upd_length. auto.
    - unfold upd_edge. rewrite He0. cbn [rbind]. unfold upd_node. cbn [gnodes gedges].
      rewrite En, Han. cbn [rbind gnodes gedges].
      rewrite nth_error_upd_neq by auto. rewrite Hbn.
      eexists; split; [reflexivity|]. constructor; cbn [gnodes gedges].
      + rewrite !upd_length. reflexivity.
      + intros k j n Hj. rewrite nth_error_upd, upd_length.
        destruct (Nat.eqb_spec b j) as [<-|Hnb].
        * destruct (Nat.ltb_spec b (length (gnodes g))); [|lia].
          assert (n = bn) by congruence. subst n.
          eexists; split; [reflexivity|]. split; [reflexivity|].
          destruct k; simpl.
          -- destruct (Nat.eqb_spec b a); [congruence|reflexivity].
          -- rewrite Nat.eqb_refl. reflexivity.
        * rewrite nth_error_upd.
          destruct (Nat.eqb_spec a j) as [<-|Hna].
          -- destruct (Nat.ltb_spec a (length (gnodes g))); [|lia].
             assert (n = an) by congruence. subst n.
             eexists; split; [reflexivity|]. split; [reflexivity|].
             destruct k; simpl.
             ++ rewrite Nat.eqb_refl. reflexivity.
             ++ destruct (Nat.eqb_spec a b); [congruence|reflexivity].
          -- exists n; split; auto. split; auto.
             destruct k; simpl.
             ++ destruct (Nat.eqb_spec j a); [congruence|reflexivity].
             ++ destruct (Nat.eqb_spec j b); [congruence|reflexivity].
      + intros j Hja Hjb. rewrite !nth_error_upd_neq by auto. reflexivity.
      + intros x Hx. rewrite nth_error_upd_neq by auto. apply Eo; auto.
      + eexists; split; [apply nth_error_upd_eq; auto|]. cbn [ewt enode enext set_enext].
        split; auto. split; auto.
        intros k nk Hk. destruct k; simpl in *.
        * assert (nk = an) by congruence. subst nk. reflexivity.
        * assert (nk = bn) by congruence. subst nk. reflexivity.
      + rewrite upd_length. auto.
  Qed.

  Section Post.
    Variables (g g' : IG) (eidx a b w : nat).
    Hypothesis P : link_post g g' eidx a b w.
    Hypothesis I : GI cap None g.
    Hypothesis La : nwo g a <> None.
    Hypothesis Lb : nwo g b <> None.
    Hypothesis Hvac : ewo g eidx = None.
    Hypothesis Hcap : length (gedges g') <= cap.

    Lemma lp_nwo j : nwo g' j = nwo g j.
    Proof.
      unfold nwo. destruct (nth_error (gnodes g) j) as [n|] eqn:E.
      - destruct (lp_nodes P 0 _ E) as [n' [Hn' [Hw _]]]. rewrite Hn'. auto.
      - rewrite (proj2 (nth_error_None _ _)); auto. rewrite (lp_nlen P). apply nth_error_None. auto.
    Qed.

    Lemma lp_nwt : map (@nwt _) (gnodes g') = map (@nwt _) (gnodes g).
    Proof.
      apply list_ext. intros j. rewrite !nth_error_map.
      destruct (nth_error (gnodes g) j) as [n|] eqn:E.
      - destruct (lp_nodes P 0 _ E) as [n' [Hn' [Hw _]]]. rewrite Hn'. simpl. congruence.
      - rewrite (proj2 (nth_error_None (gnodes g') j)); auto.
        rewrite (lp_nlen P). apply nth_error_None. auto.
    Qed.

    Lemma lp_ewo x : ewo g' x = if Nat.eqb x eidx then Some w else ewo g x.
    Proof.
      unfold ewo. destruct (Nat.eqb_spec x eidx) as [->|Hne].
      - destruct (lp_enew P) as [ed' [E [Hw _]]]. rewrite E. auto.
      - rewrite (lp_eother P); auto.
    Qed.

    Lemma lp_epo k x :
      epo (gedges g') k x = if Nat.eqb x eidx then Some (sel (a, b) k) else epo (gedges g) k x.
    Proof.
      unfold epo. destruct (Nat.eqb_spec x eidx) as [->|Hne].
      - destruct (lp_enew P) as [ed' [E [_ [Hn _]]]]. rewrite E. simpl. rewrite Hn. reflexivity.
      - rewrite (lp_eother P); auto.
    Qed.

    Lemma lp_adj k i l :
      nwo g i <> None -> adj g k i l ->
      adj g' k i (if Nat.eqb i (sel (a, b) k) then eidx :: l else l).
    Proof.
      intros Li Hadj. pose proof Hadj as [n [Hn H]].
      destruct (lp_nodes P k _ Hn) as [n' [Hn' [_ Hh]]].
      assert (Hnot : ~ In eidx l).
      { intros Hin. apply (GI_adj_in eidx I (proj2 (lv_None g i) Li) Hadj) in Hin.
        destruct Hin as [Hin _]. contradiction. }
      assert (F : lseg (nxe (gedges g') k) (sel (nnext n) k) l cap).
      { eapply lseg_frame; [exact H|]. intros x Hx. unfold nxe.
        rewrite (lp_eother P); auto. intros ->. contradiction. }
      exists n'; split; auto. rewrite Hh.
      destruct (Nat.eqb_spec i (sel (a, b) k)) as [Ei|Ni]; auto.
      econstructor; [|exact F].
      destruct (lp_enew P) as [ed' [E [_ [_ Enx]]]].
      unfold nxe. rewrite E. simpl. f_equal. apply Enx. rewrite <- Ei. auto.
    Qed.

    Lemma lp_sel_live k : nwo g (sel (a, b) k) <> None.
    Proof. destruct k; simpl; auto. Qed.

    Lemma lp_GI : GI cap None g'.
    Proof.
      constructor.
      - rewrite (lp_nlen P). apply (sgi_ncap I).
      - exact Hcap.
      - intros k x i Hx Hep. apply lv_None. rewrite lp_nwo.
        rewrite lp_ewo in Hx. rewrite lp_epo in Hep.
        destruct (Nat.eqb_spec x eidx) as [->|Hne].
        + injection Hep as <-. apply lp_sel_live.
        + apply lv_None. apply (sgi_ends I k x); auto.
      - intros k i Hi. apply lv_None in Hi. rewrite lp_nwo in Hi.
        destruct (sgi_adj I k (proj2 (lv_None g i) Hi)) as [l [Hl C]].
        eexists; split; [apply lp_adj; eauto|].
        intros x. rewrite lp_ewo, lp_epo.
        destruct (Nat.eqb_spec x eidx) as [->|Nx].
        + destruct (Nat.eqb_spec i (sel (a, b) k)) as [->|Ni].
          * split; [intros _; split; [discriminate|reflexivity]|intros _; simpl; auto].
          * split.
            -- intros Hin. apply C in Hin. destruct Hin as [Hin _]. contradiction.
            -- intros [_ Hs]. congruence.
        + rewrite <- C. destruct (Nat.eqb_spec i (sel (a, b) k)); [|tauto].
          simpl. split; [intros [Hx|Hx]; [congruence|auto]|auto].
    Qed.

    Lemma lp_FNL fn : FNL cap None g fn -> FNL cap None g' fn.
    Proof.
      apply FNL_frame.
      - apply lp_nwt.
      - intros j Hj _. apply (lp_nother P); intros ->; contradiction.
    Qed.
  End Post.

  (* the result of a successful add_edge *)
  Record add_edge_post (s : sgraph) (a b w e : nat) (s' : sgraph) : Prop := {
    ae_fresh : ewo (sg s) e = None;
    ae_new : ewo (sg s') e = Some w;
    ae_new_ends : forall k, epo (gedges (sg s')) k e = Some (sel (a, b) k);
    ae_old : forall x, x <> e -> ewo (sg s') x = ewo (sg s) x;
    ae_old_ends : forall k x, x <> e -> epo (gedges (sg s')) k x = epo (gedges (sg s)) k x;
    ae_nodes : forall j, nwo (sg s') j = nwo (sg s) j;
    ae_adj : forall k i l, nwo (sg s) i <> None -> adj (sg s) k i l ->
               adj (sg s') k i (if Nat.eqb i (sel (a, b) k) then e :: l else l);
    ae_nc : ncount s' = ncount s;
    ae_ec : ecount s' = S (ecount s);
    ae_nlen : length (gnodes (sg s')) = length (gnodes (sg s));
    ae_elen : length (gedges (sg s)) <= length (gedges (sg s')) <= S (length (gedges (sg s)))
  }.

  Lemma add_edge_missing s a b w i :
    wrong_index (sg s) a b = Some i ->
    (free_edge s <> cap \/ capcheck = false \/ length (gedges (sg s)) <> cap) ->
    s_try_add_edge cap capcheck debug s a b w = Ok (inl (NodeMissed i), s).
  Proof.
    intros Hw H. unfold s_try_add_edge.
    destruct (Nat.eqb_spec (free_edge s) cap) as [E|N]; cbn [negb].
    - assert (Ec : andb capcheck (Nat.eqb (length (gedges (sg s))) cap) = false).
      { destruct H as [H|[H|H]]; [contradiction|rewrite H; reflexivity|].
        apply Nat.eqb_neq in H. rewrite H. apply andb_false_r. }
      rewrite Ec, Hw. reflexivity.
    - rewrite Hw. reflexivity.
  Qed.

  Lemma add_edge_limit s a b w :
    free_edge s = cap -> capcheck = true -> length (gedges (sg s)) = cap ->
    s_try_add_edge cap capcheck debug s a b w = Ok (inl EdgeIxLimit, s).
  Proof.
    intros E Hc Hl. unfold s_try_add_edge. rewrite E, Nat.eqb_refl. cbn [negb].
    rewrite Hc, Hl, Nat.eqb_refl. reflexivity.
  Qed.

  Lemma add_edge_post_of s s' a b w e :
    link_post (sg s) (sg s') e a b w -> GI cap None (sg s) ->
    nwo (sg s) a <> None -> nwo (sg s) b <> None -> ewo (sg s) e = None ->
    ncount s' = ncount s -> ecount s' = S (ecount s) -> e <= length (gedges (sg s)) ->
    add_edge_post s a b w e s'.
  Proof.
    intros P I La Lb Hv Hnc Hec Hle. constructor; auto.
    - rewrite (lp_ewo P), Nat.eqb_refl. reflexivity.
    - intros k. rewrite (lp_epo P), Nat.eqb_refl. reflexivity.
    - intros x Hx. rewrite (lp_ewo P). destruct (Nat.eqb_spec x e); [contradiction|reflexivity].
    - intros k x Hx. rewrite (lp_epo P). destruct (Nat.eqb_spec x e); [contradiction|reflexivity].
    - intros j. apply (lp_nwo P).
    - intros k i l Hi Hl. eapply lp_adj; eauto.
    - apply (lp_nlen P).
    - rewrite (lp_elen P). lia.
  Qed.

  (* no vacancy: a new slot is appended *)
  Lemma add_edge_fresh s a b w :
    SInv cap s -> free_edge s = cap -> length (gedges (sg s)) < cap ->
    nwo (sg s) a <> None -> nwo (sg s) b <> None ->
    exists s', s_try_add_edge cap capcheck debug s a b w = Ok (inr (length (gedges (sg s))), s') /\
      SInv cap s' /\ add_edge_post s a b w (length (gedges (sg s))) s'.
  Proof.
    intros I Hfe Hlt La Lb.
    set (g := sg s) in *. set (m := length (gedges g)) in *.
    pose proof (wrong_index_spec g a b) as Hwi.
    destruct (wrong_index g a b) as [i|] eqn:Ewi.
    { destruct Hwi as [[->| ->] Hv]; contradiction. }
    set (e0 := mkEdge (Some w) (cap, cap) (a, b) : edge (option nat)).
    set (g1 := mkGraph (gnodes g) (gedges g ++ [e0]) : IG).
    destruct (@link_edge_post g g1 m a b w e0) as [g2 [Hlink P]]; auto.
    { intros x Hx. unfold g1. cbn [gedges].
      destruct (Nat.lt_ge_cases x m) as [Hxm|Hxm].
      - apply nth_error_app1; auto.
      - rewrite (nth_error_oob (gedges g) x) by (fold m; lia).
        apply nth_error_oob. rewrite app_length. simpl. fold m. lia. }
    { unfold g1. cbn [gedges]. rewrite nth_error_app2 by (fold m; lia). fold m.
      rewrite Nat.sub_diag. reflexivity. }
    { unfold g1. cbn [gedges]. rewrite app_length. simpl. fold m. lia. }
    { apply nwo_Some_lt; auto. }
    { apply nwo_Some_lt; auto. }
    assert (Hrun : s_try_add_edge cap capcheck debug s a b w =
              Ok (inr m, mkSG g2 (ncount s) (S (ecount s)) (free_node s) (free_edge s))).
    { unfold s_try_add_edge. rewrite Hfe, Nat.eqb_refl. cbn [negb]. fold g. fold m.
      destruct (Nat.eqb_spec m cap) as [|_]; [lia|]. rewrite andb_false_r.
      rewrite Ewi. fold e0 g1. rewrite Hlink. reflexivity. }
    rewrite Hrun. eexists; split; [reflexivity|].
    assert (Hvac : ewo g m = None) by (apply ewo_oob; fold m; lia).
    assert (Hlen2 : length (gedges g2) = S m) by (rewrite (lp_elen P); fold m; lia).
    assert (Hcap2 : length (gedges g2) <= cap) by lia.
    destruct (si_fe I) as [fl [Hfl Cf]]. fold g in Hfl, Cf. rewrite Hfe in Hfl.
    apply (FEL_head_cap (sgi_ecap (si_g I))) in Hfl. subst fl.
    assert (Hfull : forall x, x < m -> ewo g x <> None).
    { intros x Hx E. apply (Cf x). auto. }
    split; [constructor|]; cbn [sg ncount ecount free_node free_edge].
    - eapply lp_GI; eauto. apply (si_g I).
    - intros x H. discriminate.
    - rewrite (lp_nwt P). apply (si_nc I).
    - assert (El : map (@ewt _) (gedges g2) = map (@ewt _) (gedges g) ++ [Some w]).
      { apply list_ext. intros x. rewrite nth_error_app, map_length. fold m.
        destruct (Nat.ltb_spec x m) as [Hx|Hx].
        - rewrite !nth_error_map. rewrite (lp_eother P) by lia. reflexivity.
        - destruct (Nat.eq_dec x m) as [->|Hne].
          + rewrite Nat.sub_diag. destruct (lp_enew P) as [ed' [E [Hw' _]]].
            rewrite nth_error_map, E. simpl. congruence.
          + rewrite (proj2 (nth_error_None _ _)) by (rewrite map_length; lia).
            destruct (x - m) as [|d] eqn:Ed; [lia|]. simpl. destruct d; reflexivity. }
      rewrite El, nsome_app. cbn [nsome]. rewrite (si_ec I). fold g. lia.
    - eapply lp_FNL; eauto. apply (si_fn I).
    - rewrite Hfe. exists []. split; [constructor|]. intros x. split; [intros []|].
      intros [Hx Hv]. exfalso. rewrite (lp_ewo P) in Hv.
      destruct (Nat.eqb_spec x m); [discriminate|]. apply (Hfull x); auto. lia.
    - apply add_edge_post_of; auto; try apply (si_g I); fold g; unfold m; lia.
  Qed.

  (* a vacancy exists: the head of the free edge list is reused *)
  Lemma add_edge_reuse s a b w :
    SInv cap s -> free_edge s <> cap ->
    nwo (sg s) a <> None -> nwo (sg s) b <> None ->
    exists s', s_try_add_edge cap capcheck debug s a b w = Ok (inr (free_edge s), s') /\
      SInv cap s' /\ add_edge_post s a b w (free_edge s) s'.
  Proof.
    intros I Hfe La Lb.
    set (g := sg s) in *. set (fe := free_edge s) in *.
    pose proof (sgi_ecap (si_g I)) as Hecap. fold g in Hecap.
    pose proof (wrong_index_spec g a b) as Hwi.
    destruct (wrong_index g a b) as [i|] eqn:Ewi.
    { destruct Hwi as [[->| ->] Hv]; contradiction. }
    destruct (si_fe I) as [fl [Hfl Cf]]. fold g fe in Hfl, Cf.
    destruct (lseg_neq_cons Hfl Hfe (fex_cap g Hecap)) as [nxt [l' [-> [Hfx Hl']]]].
    destruct (fex_Some _ _ Hfx) as [ed [Hed [Hwv Hnx]]].
    pose proof (FEL_NoDup Hecap Hfl) as Hnd.
    assert (Hfel' : ~ In fe l') by (inversion Hnd; auto).
    assert (Hfelt : fe < length (gedges g)) by (eapply nth_error_Some_lt; eauto).
    set (e0 := mkEdge (Some w) (enext ed) (a, b) : edge (option nat)).
    set (g1 := mkGraph (gnodes g) (upd (gedges g) fe e0) : IG).
    destruct (@link_edge_post g g1 fe a b w e0) as [g2 [Hlink P]]; auto.
    { intros x Hx. unfold g1. cbn [gedges]. apply nth_error_upd_neq. auto. }
    { unfold g1. cbn [gedges]. apply nth_error_upd_eq. auto. }
    { unfold g1. cbn [gedges]. rewrite upd_length. lia. }
    { apply nwo_Some_lt; auto. }
    { apply nwo_Some_lt; auto. }
    assert (Hrun : s_try_add_edge cap capcheck debug s a b w =
              Ok (inr fe, mkSG g2 (ncount s) (S (ecount s)) (free_node s) nxt)).
    { unfold s_try_add_edge. fold fe. destruct (Nat.eqb_spec fe cap) as [|_]; [contradiction|].
      cbn [negb]. fold g. rewrite Ewi, Hed, Hwv, andb_false_r.
      unfold upd_edge at 1. rewrite Hed. cbn [rbind]. fold e0 g1. rewrite Hlink. cbn [rbind].
      rewrite Hnx. reflexivity. }
    rewrite Hrun. eexists; split; [reflexivity|].
    assert (Hvac : ewo g fe = None) by (rewrite (ewo_nth _ _ Hed); auto).
    assert (Hlen2 : length (gedges g2) = length (gedges g)) by (rewrite (lp_elen P); lia).
    assert (Hcap2 : length (gedges g2) <= cap) by lia.
    split; [constructor|]; cbn [sg ncount ecount free_node free_edge].
    - eapply lp_GI; eauto. apply (si_g I).
    - intros x H. discriminate.
    - rewrite (lp_nwt P). apply (si_nc I).
    - assert (El : map (@ewt _) (gedges g2) = upd (map (@ewt _) (gedges g)) fe (Some w)).
      { apply list_ext. intros x. rewrite nth_error_upd, map_length.
        destruct (Nat.eqb_spec fe x) as [<-|Hne].
        - destruct (Nat.ltb_spec fe (length (gedges g))); [|lia].
          destruct (lp_enew P) as [ed' [E [Hw' _]]]. rewrite nth_error_map, E. simpl. congruence.
        - rewrite !nth_error_map. rewrite (lp_eother P) by auto. reflexivity. }
      assert (Hn0 : nth_error (map (@ewt _) (gedges g)) fe = Some None).
      { rewrite nth_error_map, Hed. simpl. rewrite Hwv. reflexivity. }
      pose proof (@nsome_upd _ _ _ _ (Some w) Hn0) as Hc. cbn [osome] in Hc.
      rewrite El, (si_ec I). fold g. lia.
    - eapply lp_FNL; eauto. apply (si_fn I).
    - exists l'. split.
      + eapply lseg_frame; [exact Hl'|]. intros x Hx. apply fex_same.
        apply (lp_eother P). intros ->. contradiction.
      + intros x. rewrite Hlen2, (lp_ewo P). pose proof (Cf x) as Cx. simpl in Cx.
        destruct (Nat.eqb_spec x fe) as [->|Hne].
        * split; [intros; contradiction|]. intros [_ H]. discriminate.
        * split.
          -- intros Hin. apply Cx. auto.
          -- intros H. apply Cx in H. destruct H as [H|H]; [congruence|auto].
    - apply add_edge_post_of; auto; try apply (si_g I); fold g; lia.
  Qed.
End AddEdge.
