(* C06 / T6: the view of a Graph (Model/FullViewOf.v) is total and consistent under the C01
   invariant.  The iterator facts come from the C01 theorems (Props/C01.v). *)
From Coq Require Import Permutation.
From PG Require Import Lib.Io Model.GraphM Model.FullView Model.FullViewOf Spec.ViewSpec
  Proofs.GraphP Proofs.GraphQ Proofs.FullViewP Proofs.AdaptorP Props.C01.

Lemma map_combine_seq {A B} (F : nat * A -> B) (G : nat -> B) (l : list A) s :
  (forall i x, nth_error l i = Some x -> F (s + i, x) = G (s + i)) ->
  map F (combine (seq s (length l)) l) = map G (seq s (length l)).
Proof.
  revert s. induction l as [|h t IH]; intros s H; cbn [length seq combine map]; [reflexivity|].
  f_equal.
  - specialize (H 0 h eq_refl). rewrite Nat.add_0_r in H. exact H.
  - apply IH. intros i x Hi. specialize (H (S i) x Hi).
    replace (S s + i) with (s + S i) by lia. exact H.
Qed.

Lemma rmapM_ok {A B} (f : A -> res B) (F : A -> B) l :
  (forall a, In a l -> f a = Ok (F a)) -> rmapM f l = Ok (map F l).
Proof.
  intro H. induction l as [|h t IH]; cbn [rmapM map]; [reflexivity|].
  rewrite (H h (or_introl eq_refl)). cbn [rbind].
  rewrite IH by (intros a Ha; apply H; right; exact Ha). reflexivity.
Qed.

Lemma base_inj n a b s t : b < n -> t < n -> n * a + b = n * s + t -> a = s /\ b = t.
Proof.
  intros Hb Ht E.
  assert (a = s).
  { destruct (Nat.lt_trichotomy a s) as [L|[L|L]]; [exfalso; nia | exact L | exfalso; nia]. }
  subst. split; [reflexivity | nia].
Qed.

Lemma expect_in_undirected_flip erefs a :
  expect_in false erefs a = map q_flip (expect_out false erefs a).
Proof.
  unfold expect_in, expect_out. induction erefs as [|q t IH]; cbn [flat_map map]; [reflexivity|].
  rewrite map_app, IH. f_equal. cbn [negb andb].
  destruct (Nat.eqb_spec (q_src q) a) as [Es|Es], (Nat.eqb_spec (q_tgt q) a) as [Et|Et];
    cbn [map]; try reflexivity.
  - destruct q as [[[e s] t'] w]. cbn [q_src q_tgt] in Es, Et. subst. reflexivity.
  - rewrite q_flip_flip. reflexivity.
Qed.

Section Of.
  Variable cap : nat.
  Variable g : graph nat nat.
  Hypothesis I : GInv cap g.

  Notation n := (length (gnodes g)).
  Notation m := (length (gedges g)).

  (* the reference of edge x *)
  Definition qd (x : nat) : quad :=
    match nth_error (gedges g) x with
    | Some ed => (x, fst (enode ed), snd (enode ed), zn (ewt ed))
    | None => (x, 0, 0, 0%Z)
    end.

  Lemma qd_src x : q_src (qd x) = src g x.
  Proof. unfold qd, src, ept. destruct (nth_error (gedges g) x); reflexivity. Qed.
  Lemma qd_tgt x : q_tgt (qd x) = tgt g x.
  Proof. unfold qd, tgt, ept. destruct (nth_error (gedges g) x); reflexivity. Qed.
  Lemma qd_id x : q_id (qd x) = x.
  Proof. unfold qd. destruct (nth_error (gedges g) x); reflexivity. Qed.

  Lemma erefs_of_qd : erefs_of g = map qd (seq 0 m).
  Proof.
    unfold erefs_of. apply map_combine_seq. intros i ed Hi. cbn [Nat.add].
    unfold qd. rewrite Hi. reflexivity.
  Qed.

  Lemma nrefs_of_keys : map fst (nrefs_of g) = seq 0 n.
  Proof.
    unfold nrefs_of. rewrite map_map.
    rewrite (map_combine_seq (fun p : nat * node nat => fst (let '(i, nd) := p in (i, zn (nwt nd))))
               (fun i => i)).
    - apply map_id.
    - intros i x _. reflexivity.
  Qed.

  Lemma eref_quads {sw l r} :
    Forall2 (eref g sw) l r ->
    map quad_of r = map (fun e => if sw then q_flip (qd e) else qd e) l.
  Proof.
    induction 1 as [|e x l' r' He H IH]; cbn [map]; [reflexivity|].
    f_equal; [|exact IH]. destruct He as [ed [He ->]].
    unfold quad_of, qd. rewrite He. destruct sw; reflexivity.
  Qed.

  (* what edges(a) and edges_directed(a, Incoming) list, by edge index *)
  Definition OUT (d : bool) (a : nat) : list quad :=
    map qd (adjf cap g 0 a) ++
    (if d then []
     else map (fun e => q_flip (qd e))
              (filter (fun e => negb (src g e =? a)) (adjf cap g 1 a))).
  Definition INL (d : bool) (a : nat) : list quad :=
    if d then map qd (adjf cap g 1 a) else map q_flip (OUT false a).

  Lemma edges_out d a :
    rmap (fun l => (a, map quad_of l)) (edges_directed cap d g a 0) = Ok (a, OUT d a).
  Proof.
    destruct d.
    - destruct (proj1 (@C01_edges_directed nat nat cap g I a)) as (r & E & F).
      rewrite E. cbn [rmap]. rewrite (eref_quads F). unfold OUT. rewrite app_nil_r. reflexivity.
    - destruct (proj1 (@C01_edges_undirected nat nat cap g I a)) as (r1 & r2 & E & F1 & F2).
      rewrite E. cbn [rmap]. rewrite map_app, (eref_quads F1), (eref_quads F2). reflexivity.
  Qed.

  Lemma edges_in d a :
    rmap (fun l => (a, map quad_of l)) (edges_directed cap d g a 1) = Ok (a, INL d a).
  Proof.
    destruct d.
    - destruct (proj2 (@C01_edges_directed nat nat cap g I a) 0) as (r & E & F).
      rewrite E. cbn [rmap]. rewrite (eref_quads F). reflexivity.
    - destruct (proj2 (@C01_edges_undirected nat nat cap g I a) 0) as (r1 & r2 & E & F1 & F2).
      rewrite E. cbn [rmap]. rewrite map_app, (eref_quads F1), (eref_quads F2).
      unfold INL, OUT. rewrite map_app, !map_map. do 3 f_equal.
      apply map_ext. intro e. rewrite q_flip_flip. reflexivity.
  Qed.

  Lemma nb_lists a :
    map (@snd nat nat)
        (map (fun e => (e, tgt g e)) (adjf cap g 0 a) ++
         map (fun e => (e, src g e)) (filter (fun e => negb (src g e =? a)) (adjf cap g 1 a)))
    = map q_tgt (OUT false a).
  Proof.
    unfold OUT. rewrite !map_app, !map_map. f_equal; apply map_ext; intro e; cbn [snd].
    - symmetry. apply qd_tgt.
    - rewrite q_flip_tgt. symmetry. apply qd_src.
  Qed.

  Lemma nb_out d a :
    rmap (fun l => (a, map (@snd nat nat) l)) (neighbors_directed cap d g a 0)
    = Ok (a, map q_tgt (OUT d a)).
  Proof.
    destruct d.
    - rewrite (proj1 (@C01_neighbors_directed nat nat cap g I a)). cbn [rmap].
      unfold OUT. rewrite app_nil_r, !map_map. do 2 f_equal.
      apply map_ext. intro e. cbn [snd]. symmetry. apply qd_tgt.
    - destruct (@C01_neighbors_undirected nat nat cap g I a) as [E1 E2].
      rewrite E2, E1. cbn [rmap]. rewrite nb_lists. reflexivity.
  Qed.

  Lemma nb_in d a :
    rmap (fun l => (a, map (@snd nat nat) l)) (neighbors_directed cap d g a 1)
    = Ok (a, map q_src (INL d a)).
  Proof.
    destruct d.
    - rewrite (proj2 (@C01_neighbors_directed nat nat cap g I a) 0). cbn [rmap].
      unfold INL. rewrite !map_map. do 2 f_equal.
      apply map_ext. intro e. cbn [snd]. symmetry. apply qd_src.
    - destruct (@C01_neighbors_undirected nat nat cap g I a) as [E1 E2].
      rewrite E2, E1. cbn [rmap]. rewrite nb_lists. unfold INL. rewrite map_map.
      do 2 f_equal. apply map_ext. intro q. rewrite q_flip_src. reflexivity.
  Qed.

  (* the view, explicitly *)
  Definition F0 (d : bool) : fview :=
    mkFv d n (Some n) (Some m) (Some m) (Some n) true true true true
         (seq 0 n) (nrefs_of g)
         (map (fun a => (a, OUT d a)) (seq 0 n))
         (map (fun a => (a, INL d a)) (seq 0 n))
         (map (fun a => (a, map q_tgt (OUT d a))) (seq 0 n))
         (map (fun a => (a, map q_src (INL d a))) (seq 0 n))
         (erefs_of g)
         (map (fun a => (a, adj_row n (adj_bits d g) a)) (seq 0 n)).

  Lemma fview_of_graph_eq d : fview_of_graph cap d g = Ok (F0 d).
  Proof.
    unfold fview_of_graph, node_count, edge_count. cbv zeta.
    rewrite (rmapM_ok _ (fun a => (a, OUT d a))) by (intros a _; apply edges_out). cbn [rbind].
    rewrite (rmapM_ok _ (fun a => (a, INL d a))) by (intros a _; apply edges_in). cbn [rbind].
    rewrite (rmapM_ok _ (fun a => (a, map q_tgt (OUT d a)))) by (intros a _; apply nb_out).
    cbn [rbind].
    rewrite (rmapM_ok _ (fun a => (a, map q_src (INL d a)))) by (intros a _; apply nb_in).
    cbn [rbind]. reflexivity.
  Qed.

  (* ---- the adjacency lists are the edges with that endpoint ---- *)

  Lemma adjf_perm k a : a < n ->
    Permutation (adjf cap g k a) (filter (fun x => ept g k x =? a) (seq 0 m)).
  Proof.
    intro Ha. destruct (@C01_walks nat nat cap g I k a) as (_ & Hnd & Hin & _).
    apply NoDup_Permutation; [exact Hnd | apply NoDup_filter; apply seq_NoDup|].
    intro x. rewrite (Hin Ha x), filter_In, in_seq, Nat.eqb_eq. lia.
  Qed.

  Lemma adjf_in_perm a : a < n ->
    Permutation (filter (fun e => negb (src g e =? a)) (adjf cap g 1 a))
                (filter (fun x => andb (tgt g x =? a) (negb (src g x =? a))) (seq 0 m)).
  Proof.
    intro Ha. destruct (@C01_walks nat nat cap g I 1 a) as (_ & Hnd & Hin & _).
    apply NoDup_Permutation;
      [apply NoDup_filter; exact Hnd | apply NoDup_filter; apply seq_NoDup|].
    intro x. rewrite !filter_In, (Hin Ha x), in_seq, andb_true_iff, Nat.eqb_eq.
    unfold tgt. intuition lia.
  Qed.

  Lemma out_perm d a : a < n -> Permutation (OUT d a) (spec_out d (map qd (seq 0 m)) a).
  Proof.
    intro Ha. unfold OUT, spec_out. apply Permutation_app.
    - rewrite (map_filter_comm qd (fun q => q_src q =? a) (fun x => src g x =? a))
        by (intro x; rewrite qd_src; reflexivity).
      apply Permutation_map. apply (adjf_perm 0 a Ha).
    - destruct d; [constructor|].
      rewrite (map_filter_comm qd (fun q => andb (q_tgt q =? a) (negb (q_src q =? a)))
                 (fun x => andb (tgt g x =? a) (negb (src g x =? a))))
        by (intro x; rewrite qd_src, qd_tgt; reflexivity).
      rewrite map_map. apply Permutation_map. apply adjf_in_perm. exact Ha.
  Qed.

  Lemma in_perm_directed a : a < n ->
    Permutation (INL true a) (spec_in true (map qd (seq 0 m)) a).
  Proof.
    intro Ha. unfold INL, spec_in. rewrite app_nil_r.
    rewrite (map_filter_comm qd (fun q => q_tgt q =? a) (fun x => tgt g x =? a))
      by (intro x; rewrite qd_tgt; reflexivity).
    apply Permutation_map. apply (adjf_perm 1 a Ha).
  Qed.

  (* ---- the adjacency matrix ---- *)

  Lemma bits_in d v :
    In v (adj_bits d g) <->
    exists x ed, nth_error (gedges g) x = Some ed /\
      (v = n * fst (enode ed) + snd (enode ed) \/
       (d = false /\ v = n * snd (enode ed) + fst (enode ed))).
  Proof.
    unfold adj_bits, node_count. cbv zeta. rewrite in_flat_map. split.
    - intros (ed & Hed & Hv). apply In_nth_error in Hed. destruct Hed as [x Hx].
      exists x, ed. split; [exact Hx|]. destruct Hv as [Hv|Hv]; [left; symmetry; exact Hv|].
      destruct d; [destruct Hv|]. destruct Hv as [Hv|[]]. right. split; [reflexivity|].
      symmetry. exact Hv.
    - intros (x & ed & Hx & Hv). exists ed. split; [eapply nth_error_In; exact Hx|].
      destruct Hv as [Hv | [-> Hv]]; [left | right; left]; symmetry; exact Hv.
  Qed.

  Lemma between_qd d a b :
    edge_between d (map qd (seq 0 m)) a b <->
    exists x ed, nth_error (gedges g) x = Some ed /\
      ((fst (enode ed), snd (enode ed)) = (a, b) \/
       (d = false /\ (fst (enode ed), snd (enode ed)) = (b, a))).
  Proof.
    unfold edge_between. split.
    - intros (q & Hq & H). apply in_map_iff in Hq. destruct Hq as (x & <- & Hx).
      apply in_seq in Hx. destruct (nth_error (gedges g) x) as [ed|] eqn:E.
      + exists x, ed. split; [exact E|]. unfold qd in H. rewrite E in H. exact H.
      + apply nth_error_None in E. lia.
    - intros (x & ed & Hx & H). exists (qd x). split.
      + apply in_map. apply in_seq. pose proof (proj1 (nth_error_Some (gedges g) x)) as L.
        rewrite Hx in L. specialize (L ltac:(discriminate)). lia.
      + unfold qd. rewrite Hx. exact H.
  Qed.

  Lemma adj_row_spec d a b : a < n -> b < n ->
    (In b (adj_row n (adj_bits d g) a) <-> edge_between d (map qd (seq 0 m)) a b).
  Proof.
    intros Ha Hb. unfold adj_row. rewrite filter_In, in_seq, memn_In, bits_in, between_qd.
    split.
    - intros (_ & x & ed & Hx & H). exists x, ed. split; [exact Hx|].
      destruct (@gi_ends _ _ _ _ I _ _ Hx) as [Hs Ht].
      destruct H as [H | [Hd H]].
      + left. destruct (base_inj _ _ _ _ _ Hb Ht H) as [-> ->]. reflexivity.
      + right. split; [exact Hd|]. destruct (base_inj _ _ _ _ _ Hb Hs H) as [-> ->]. reflexivity.
    - intros (x & ed & Hx & H). split; [lia|]. exists x, ed. split; [exact Hx|].
      destruct H as [H | [Hd H]]; injection H as -> ->; [left | right; split; [exact Hd|]];
        reflexivity.
  Qed.

  (* ---- consistency ---- *)

  Theorem F0_consistent d : FConsistent (F0 d).
  Proof.
    constructor.
    - constructor; unfold F0; fvs.
      + apply seq_NoDup.
      + intros a Ha. apply in_seq in Ha. lia.
      + intros c Hc a Ha. injection Hc as <-. apply in_seq in Ha. lia.
      + intros c Hc. injection Hc as <-. rewrite seq_length. reflexivity.
      + intros _ i. rewrite in_seq. lia.
    - unfold NrefsOK, F0. fvs. apply nrefs_of_keys.
    - constructor; unfold F0; fvs; rewrite erefs_of_qd.
      + intros q Hq. apply in_map_iff in Hq. destruct Hq as (x & <- & Hx). apply in_seq in Hx.
        destruct (nth_error (gedges g) x) as [ed|] eqn:E.
        * destruct (@gi_ends _ _ _ _ I _ _ E) as [Hs Ht]. unfold qd. rewrite E.
          cbn [q_src q_tgt]. rewrite !in_seq. lia.
        * apply nth_error_None in E. lia.
      + intros c Hc. injection Hc as <-. rewrite map_length, seq_length. reflexivity.
      + intros _. rewrite map_map. rewrite (map_ext (fun x => q_id (qd x)) (fun x => x)) by apply qd_id.
        rewrite map_id. apply seq_NoDup.
      + intros _ c Hc q Hq. injection Hc as <-. apply in_map_iff in Hq.
        destruct Hq as (x & <- & Hx). rewrite qd_id. apply in_seq in Hx. lia.
    - constructor; unfold F0; fvs; intros; apply map_fst_tab.
    - constructor; unfold F0; fvs; intros a Ha.
      + rewrite (assocl_tab (fun a => OUT d a)) by exact Ha. rewrite erefs_of_qd.
        apply same_edges_perm. apply out_perm. apply in_seq in Ha. lia.
      + rewrite (assocl_tab (fun a => OUT d a)) by exact Ha.
        rewrite (assocl_tab (fun a => map q_tgt (OUT d a))) by exact Ha. reflexivity.
    - constructor; unfold F0; fvs; intros _ a Ha.
      + rewrite (assocl_tab (fun a => INL d a)) by exact Ha. rewrite erefs_of_qd.
        assert (Ha' : a < n) by (apply in_seq in Ha; lia).
        destruct d.
        * apply same_edges_perm. apply in_perm_directed. exact Ha'.
        * apply same_edges_expect_in. rewrite expect_in_undirected_flip.
          unfold INL. apply same_edges_flip. apply same_edges_expect_out.
          apply same_edges_perm. apply out_perm. exact Ha'.
      + rewrite (assocl_tab (fun a => INL d a)) by exact Ha.
        rewrite (assocl_tab (fun a => map q_src (INL d a))) by exact Ha. reflexivity.
    - intros _ a b Ha Hb. unfold F0 in *. fvs.
      rewrite (assocl_tab (fun a => adj_row n (adj_bits d g) a)) by exact Ha.
      rewrite erefs_of_qd. apply in_seq in Ha. apply in_seq in Hb. apply adj_row_spec; lia.
  Qed.

  Lemma F0_keyed d : AdjKeyed (F0 d).
  Proof. intros _. unfold F0. fvs. rewrite map_fst_tab. apply incl_refl. Qed.
End Of.

Theorem fview_of_graph_consistent cap directed (g : graph nat nat) :
  GInv cap g ->
  exists f, fview_of_graph cap directed g = Ok f /\ FConsistent f /\ AdjKeyed f /\
            f_directed f = directed /\
            f_nodes f = seq 0 (length (gnodes g)) /\
            f_bound f = length (gnodes g) /\
            f_erefs f = erefs_of g /\
            (f_compact f = true /\ f_ids_ok f = true /\ f_has_in f = true /\ f_has_adj f = true).
Proof.
  intro I. exists (F0 cap g directed).
  split; [apply fview_of_graph_eq; exact I|].
  split; [apply F0_consistent; exact I|].
  split; [apply F0_keyed|].
  repeat split.
Qed.

Theorem graph_adaptors cap directed (g : graph nat nat) f k1 p1 q1 k2 p2 q2 f1 f2 :
  GInv cap g -> fview_of_graph cap directed g = Ok f ->
  In k1 [1; 3; 4; 5] -> In k2 [1; 3; 4; 5] ->
  apply_adaptor k1 p1 q1 f = Some f1 -> apply_adaptor k2 p2 q2 f1 = Some f2 -> FConsistent f2.
Proof.
  intros I E H1 H2 E1 E2.
  destruct (fview_of_graph_consistent cap directed g I) as (f' & E' & Hc & Hk & _).
  rewrite E in E'. injection E' as <-.
  exact (adaptor_depth2 _ _ _ _ _ _ _ _ _ H1 H2 Hc (keyed_rows _ Hk) E1 E2).
Qed.
