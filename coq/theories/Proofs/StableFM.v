(* StableGraph, second round: filter_map (F1).  The new graph is built slot by slot with the same
   indices: a kept element is pushed live, a dropped or vacant one is pushed vacant and chained
   on a free list that is installed at the end. *)
From PG Require Import Lib.ListArr Lib.ListExtra Lib.Walk Model.GraphM Model.StableM
  Proofs.GraphP Proofs.GraphRE Proofs.StableP Proofs.StableE Proofs.StableT Proofs.StableH
  Proofs.StableU Proofs.StableX.
Set Implicit Arguments.

Lemma skipn_nth {A} (l : list A) : forall i x,
  nth_error l i = Some x -> skipn i l = x :: skipn (S i) l.
Proof.
  induction l as [|h t IH]; intros [|i] x H; simpl in *; try discriminate.
  - congruence.
  - apply IH; auto.
Qed.

(* strictly descending *)
Fixpoint desc (l : list nat) : Prop :=
  match l with
  | [] => True
  | x :: t => (forall y, In y t -> y < x) /\ desc t
  end.

Definition retag (r : sgraph) (fn fe : nat) : sgraph := mkSG (sg r) (ncount r) (ecount r) fn fe.

Lemma contains_node_nwo s a : contains_node s a = isS (nwo (sg s) a).
Proof.
  unfold contains_node, get_node, nwo. destruct (nth_error (gnodes (sg s)) a) as [n|]; auto.
  destruct (nwt n); reflexivity.
Qed.

Lemma sel_pair (p : nat * nat) k : sel (fst p, snd p) k = sel p k.
Proof. destruct k; reflexivity. Qed.

Section Push.
  Variable cap : nat.
  Variable capcheck : bool.
  Variable debug : bool.

  Notation adj := (@adj (option nat) (option nat) cap).
  Notation SInv := (SInv cap).

  (* a live node appended while the free list is not empty *)
  Lemma push_live_node s w :
    SInv s -> length (gnodes (sg s)) < cap ->
    let s' := mkSG (mkGraph (gnodes (sg s) ++ [mkNode (Some w) (cap, cap)]) (gedges (sg s)))
                   (S (ncount s)) (ecount s) (free_node s) (free_edge s) in
    SInv s' /\ add_node_post cap s w (length (gnodes (sg s))) s'.
  Proof.
    intros I Hlt s'.
    set (g := sg s) in *. set (m := length (gnodes g)) in *.
    set (g' := mkGraph (gnodes g ++ [mkNode (Some w) (cap, cap)]) (gedges g) : IG) in *.
    assert (Hnw : forall j, nwo g' j = if Nat.eqb j m then Some w else nwo g j).
    { intros j. unfold nwo, g'. cbn [gnodes].
      destruct (Nat.eqb_spec j m) as [E|Hne]; [subst j|].
      - rewrite nth_error_app2 by (unfold m; lia). unfold m. rewrite Nat.sub_diag. reflexivity.
      - destruct (Nat.lt_ge_cases j m) as [Hj|Hj].
        + rewrite nth_error_app1 by auto. reflexivity.
        + rewrite !(proj2 (nth_error_None _ _)); auto.
          rewrite app_length. simpl. fold m. lia. }
    destruct (si_fn I) as [fl [Hfl [Hfb Cf]]]. fold g in Hfl, Hfb, Cf.
    assert (Hfresh : nwo g m = None) by (apply nwo_oob; unfold m; lia).
    assert (Hfl_lt : forall x, In x fl -> x < m).
    { intros x Hx. apply (lseg_fnx_in x Hfl Hx). }
    assert (Hsame : forall x, x < m -> nth_error (gnodes g') x = nth_error (gnodes g) x).
    { intros x Hx. unfold g'. cbn [gnodes]. apply nth_error_app1. auto. }
    unfold s'. split; [constructor|constructor]; cbn [sg ncount ecount free_node free_edge].
    - constructor.
      + unfold g'. cbn [gnodes]. rewrite app_length. simpl. fold m. lia.
      + apply (sgi_ecap (si_g I)).
      + intros k x i Hx Hep. apply lv_None. rewrite Hnw.
        destruct (Nat.eqb_spec i m); [discriminate|].
        apply lv_None. apply (sgi_ends (si_g I) k x); auto.
      + intros k i Hi. apply lv_None in Hi. rewrite Hnw in Hi.
        destruct (Nat.eqb_spec i m) as [E|Hne]; [subst i|].
        * exists []. split; [apply add_node_adj_new|].
          intros x. split; [intros []|]. intros [Hx Hep]. exfalso.
          assert (Hl : lv None g m) by (apply (sgi_ends (si_g I) k x); auto).
          apply lv_None in Hl. contradiction.
        * destruct (sgi_adj (si_g I) k (i := i)) as [l [Hl C]]; [apply lv_None; auto|].
          exists l. split; auto. apply add_node_adj_old; auto.
    - intros a H. discriminate.
    - unfold g'. cbn [gnodes]. rewrite map_app, nsome_app. cbn [map nwt nsome osome].
      rewrite (si_nc I). fold g. cbn [osome]. lia.
    - apply (si_ec I).
    - exists fl. split; [|split].
      + eapply lseg_frame; [exact Hfl|]. intros x Hx. apply fnx_same. apply Hsame. auto.
      + eapply bkp_frame; [|exact Hfb]. intros x Hx. apply hdn_same. apply Hsame. auto.
      + intros i. rewrite Hnw. unfold g'. cbn [gnodes]. rewrite app_length. simpl. fold m.
        pose proof (Cf i) as Ci. fold m in Ci.
        destruct (Nat.eqb_spec i m) as [->|Hne].
        * split; [intros H; apply Hfl_lt in H; lia|intros [_ [H _]]; discriminate].
        * rewrite Ci. split; intros [H1 [H2 H3]]; (split; [lia|split; auto]).
    - apply (@FEL_same_edges cap g g'); [reflexivity|apply (si_fe I)].
    - exact Hfresh.
    - rewrite Hnw, Nat.eqb_refl. reflexivity.
    - intros j Hj. rewrite Hnw. destruct (Nat.eqb_spec j m); [contradiction|reflexivity].
    - reflexivity.
    - intros k j l _ Hl. apply add_node_adj_old; auto.
    - intros k. apply add_node_adj_new.
    - reflexivity.
    - reflexivity.
    - unfold g', m, g. cbn [gnodes]. rewrite app_length. cbn [length]. lia.
  Qed.

  (* a live edge appended while the free edge list is not empty *)
  Lemma push_live_edge s a b w :
    SInv s -> length (gedges (sg s)) < cap ->
    nwo (sg s) a <> None -> nwo (sg s) b <> None ->
    exists g2,
      link_edge (mkGraph (gnodes (sg s)) (gedges (sg s) ++ [mkEdge (Some w) (cap, cap) (a, b)]))
                (length (gedges (sg s))) a b = Ok g2 /\
      length (gedges g2) = S (length (gedges (sg s))) /\
      (forall x, fnx g2 x = fnx (sg s) x) /\ (forall x, fex g2 x = fex (sg s) x) /\
      SInv (mkSG g2 (ncount s) (S (ecount s)) (free_node s) (free_edge s)) /\
      add_edge_post cap s a b w (length (gedges (sg s)))
                    (mkSG g2 (ncount s) (S (ecount s)) (free_node s) (free_edge s)).
  Proof.
    intros I Hlt La Lb.
    set (g := sg s) in *. set (m := length (gedges g)) in *.
    set (e0 := mkEdge (Some w) (cap, cap) (a, b) : edge (option nat)).
    set (g1 := mkGraph (gnodes g) (gedges g ++ [e0]) : IG).
    destruct (@link_edge_post g g1 m a b w e0) as [g2 [Hlink P]]; auto.
    { intros x Hx. unfold g1. cbn [gedges].
      destruct (Nat.lt_ge_cases x m) as [Hxm|Hxm].
      - apply nth_error_app1; auto.
      - rewrite (nth_error_oob (gedges g) x) by (fold m; lia).
        apply nth_error_oob. rewrite app_length. simpl. fold m. lia. }
    { unfold g1. cbn [gedges]. rewrite nth_error_app2 by (fold m; lia). fold m.
      rewrite Nat.sub_diag. reflexivity. }
    { unfold g1. cbn [gedges]. rewrite app_length. simpl. fold m. lia. }
    { apply nwo_Some_lt; auto. }
    { apply nwo_Some_lt; auto. }
    exists g2. split; [exact Hlink|].
    assert (Hvac : ewo g m = None) by (apply ewo_oob; fold m; lia).
    assert (Hlen2 : length (gedges g2) = S m) by (rewrite (lp_elen P); fold m; lia).
    assert (Hcap2 : length (gedges g2) <= cap) by lia.
    destruct (si_fe I) as [fl [Hfl Cf]]. fold g in Hfl, Cf.
    assert (Hfl_lt : forall x, In x fl -> x < m).
    { intros x Hx. apply (lseg_fex_in x Hfl Hx). }
    split; [exact Hlen2|].
    assert (Hfnx : forall x, fnx g2 x = fnx g x).
    { intros x. rewrite !fnx_of, (lp_nwo P), (lp_nlen P). destruct (nwo g x) eqn:E; [reflexivity|].
      destruct (Nat.ltb x (length (gnodes g))); [|reflexivity]. apply hdn_same.
      apply (lp_nother P); intros ->; congruence. }
    assert (Hfex : forall x, fex g2 x = fex g x).
    { intros x. destruct (Nat.eq_dec x m) as [->|Hne].
      - rewrite (@fex_oob g m) by (fold m; lia). destruct (lp_enew P) as [ed' [E [Hw' _]]].
        unfold fex. rewrite E, Hw'. reflexivity.
      - apply fex_same. apply (lp_eother P). auto. }
    split; [exact Hfnx|]. split; [exact Hfex|].
    split; [constructor|]; cbn [sg ncount ecount free_node free_edge].
    - eapply lp_GI; eauto. apply (si_g I).
    - intros x H. discriminate.
    - rewrite (lp_nwt P). apply (si_nc I).
    - assert (El : map (@ewt _) (gedges g2) = map (@ewt _) (gedges g) ++ [Some w]).
      { apply list_ext. intros x. rewrite nth_error_app, map_length. fold m.
        destruct (Nat.ltb_spec x m) as [Hx|Hx].
        - rewrite !nth_error_map. rewrite (lp_eother P) by lia. reflexivity.
        - destruct (Nat.eq_dec x m) as [->|Hne].
          + rewrite Nat.sub_diag. destruct (lp_enew P) as [ed' [E [Hw' _]]].
            rewrite nth_error_map, E. simpl. congruence.
          + rewrite (proj2 (nth_error_None _ _)) by (rewrite map_length; lia).
            destruct (x - m) as [|d] eqn:Ed; [lia|]. simpl. destruct d; reflexivity. }
      rewrite El, nsome_app. cbn [nsome]. rewrite (si_ec I). fold g. lia.
    - eapply lp_FNL; eauto. apply (si_fn I).
    - exists fl. split.
      + eapply lseg_frame; [exact Hfl|]. intros x Hx. apply fex_same.
        apply (lp_eother P). apply Hfl_lt in Hx. lia.
      + intros x. rewrite Hlen2, (lp_ewo P). pose proof (Cf x) as Cx. fold m in Cx.
        destruct (Nat.eqb_spec x m) as [->|Hne].
        * split; [intros H; apply Hfl_lt in H; lia|intros [_ H]; discriminate].
        * rewrite Cx. split; intros [H1 H2]; (split; [lia|auto]).
    - apply add_edge_post_of; auto; try apply (si_g I); fold g; unfold m; lia.
  Qed.

  Lemma try_add_edge_nofree r a b w g2 :
    free_edge r = cap -> length (gedges (sg r)) < cap ->
    nwo (sg r) a <> None -> nwo (sg r) b <> None ->
    link_edge (mkGraph (gnodes (sg r)) (gedges (sg r) ++ [mkEdge (Some w) (cap, cap) (a, b)]))
              (length (gedges (sg r))) a b = Ok g2 ->
    s_try_add_edge cap capcheck debug r a b w =
      Ok (inr (length (gedges (sg r))), mkSG g2 (ncount r) (S (ecount r)) (free_node r) (free_edge r)).
  Proof.
    intros Hfe Hlt La Lb Hlink. unfold s_try_add_edge. rewrite Hfe at 1. rewrite Nat.eqb_refl. cbn [negb].
    destruct (Nat.eqb_spec (length (gedges (sg r))) cap) as [|_]; [lia|]. rewrite andb_false_r.
    pose proof (wrong_index_spec (sg r) a b) as Hwi.
    destruct (wrong_index (sg r) a b) as [i|].
    { destruct Hwi as [[->| ->] Hv]; contradiction. }
    rewrite Hlink. reflexivity.
  Qed.

  (* a vacant edge slot appended and pushed on the free edge list *)
  Lemma push_vacant_edge s :
    SInv s -> length (gedges (sg s)) < cap ->
    let g' := mkGraph (gnodes (sg s)) (gedges (sg s) ++ [mkEdge None (free_edge s, cap) (cap, cap)]) in
    let s' := mkSG g' (ncount s) (ecount s) (free_node s) (length (gedges (sg s))) in
    SInv s' /\
    (forall x, ewo g' x = ewo (sg s) x) /\
    (forall k x, x < length (gedges (sg s)) -> epo (gedges g') k x = epo (gedges (sg s)) k x) /\
    (forall k i l, adj (sg s) k i l -> adj g' k i l) /\
    (forall l, lseg (fex (sg s)) (free_edge s) l cap ->
               lseg (fex g') (length (gedges (sg s))) (length (gedges (sg s)) :: l) cap).
  Proof.
    intros I Hlt g' s'. set (g := sg s) in *. set (m := length (gedges g)) in *.
    set (fe := free_edge s) in *.
    set (ve := mkEdge None (fe, cap) (cap, cap) : edge (option nat)) in *.
    assert (Hsame : forall x, x < m -> nth_error (gedges g') x = nth_error (gedges g) x).
    { intros x Hx. unfold g'. cbn [gedges]. apply nth_error_app1. auto. }
    assert (Hnew : nth_error (gedges g') m = Some ve).
    { unfold g'. cbn [gedges]. rewrite nth_error_app2 by (unfold m; lia). unfold m.
      rewrite Nat.sub_diag. reflexivity. }
    assert (Hlen' : length (gedges g') = S m).
    { unfold g'. cbn [gedges]. rewrite app_length. simpl. fold m. lia. }
    assert (Hew : forall x, ewo g' x = ewo g x).
    { intros x. destruct (Nat.lt_ge_cases x m) as [Hx|Hx].
      - unfold ewo. rewrite Hsame; auto.
      - rewrite (@ewo_oob g x) by (fold m; lia). destruct (Nat.eq_dec x m) as [->|Hne].
        + unfold ewo. rewrite Hnew. reflexivity.
        + apply ewo_oob. lia. }
    assert (Hep : forall k x, x < m -> epo (gedges g') k x = epo (gedges g) k x).
    { intros k x Hx. unfold epo. rewrite Hsame; auto. }
    assert (Hadj : forall k i l, adj g k i l -> adj g' k i l).
    { intros k i l Hl. pose proof Hl as [n [Hn H]]. exists n. split; [exact Hn|].
      eapply lseg_frame; [exact H|]. intros x Hx. unfold nxe. rewrite Hsame; auto.
      eapply adj_in_lt; eauto. }
    destruct (si_fe I) as [fl [Hfl Cf]]. fold g fe in Hfl, Cf.
    assert (Hfl_lt : forall x, In x fl -> x < m).
    { intros x Hx. apply (lseg_fex_in x Hfl Hx). }
    assert (Hfree : forall l, lseg (fex g) fe l cap -> lseg (fex g') m (m :: l) cap).
    { intros l Hl. econstructor.
      - unfold fex. rewrite Hnew. reflexivity.
      - eapply lseg_frame; [exact Hl|]. intros x Hx. apply fex_same. apply Hsame.
        apply (lseg_fex_in x Hl Hx). }
    split; [|auto]. unfold s'. constructor; cbn [sg ncount ecount free_node free_edge].
    - constructor.
      + apply (sgi_ncap (si_g I)).
      + lia.
      + intros k x i Hx Hep'. rewrite Hew in Hx.
        assert (Hxm : x < m) by (apply ewo_Some_lt; auto).
        rewrite Hep in Hep' by auto. apply (sgi_ends (si_g I) k x); auto.
      + intros k i Hi.
        destruct (sgi_adj (si_g I) k (i := i)) as [l [Hl C]]; [exact Hi|].
        exists l. split; [apply Hadj; auto|]. intros x. rewrite C, Hew. split.
        * intros [H1 H2]. split; auto. rewrite Hep; auto. apply ewo_Some_lt; auto.
        * intros [H1 H2]. split; auto. rewrite Hep in H2; auto. apply ewo_Some_lt; auto.
    - intros a H. discriminate.
    - apply (si_nc I).
    - unfold g'. cbn [gedges]. rewrite map_app, nsome_app. unfold ve. cbn [map ewt nsome].
      rewrite (si_ec I). fold g. lia.
    - apply (@FNL_frame cap None g g'); [reflexivity|intros; reflexivity|apply (si_fn I)].
    - exists (m :: fl). split.
      + econstructor.
        * unfold fex. rewrite Hnew. reflexivity.
        * eapply lseg_frame; [exact Hfl|]. intros x Hx. apply fex_same. apply Hsame. auto.
      + intros x. rewrite Hlen', Hew. pose proof (Cf x) as Cx. fold m in Cx. simpl. split.
        * intros [<-|H]; [split; [lia|apply ewo_oob; fold m; lia]|].
          apply Cx in H. destruct H. split; [lia|auto].
        * intros [H1 H2]. destruct (Nat.eq_dec m x) as [E|Hne]; [left; auto|right].
          apply Cx. split; [lia|auto].
  Qed.
End Push.

(* ------------------------------------------------------------------ *)
(* The two loops                                                       *)

Section FilterMap.
  Variable cap : nat.
  Variable capcheck : bool.
  Variable debug : bool.
  Variables (nmap emap : nat -> option nat).
  Variable s : sgraph.
  Hypothesis Is : SInv cap s.

  Notation adj := (@adj (option nat) (option nat) cap).
  Notation SInv := (SInv cap).

  Definition fmn (j : nat) : option nat :=
    match nwo (sg s) j with Some w => nmap w | None => None end.

  Definition fme (x : nat) : option nat :=
    match nth_error (gedges (sg s)) x with
    | Some e =>
        match ewt e with
        | Some w => if andb (isS (fmn (fst (enode e)))) (isS (fmn (snd (enode e)))) then emap w else None
        | None => None
        end
    | None => None
    end.

  Record NInv (i : nat) (r : sgraph) (free : nat) : Prop := {
    ni_inv : SInv (retag r free cap);
    ni_fn : free_node r = cap;
    ni_fe : free_edge r = cap;
    ni_edges : gedges (sg r) = [];
    ni_len : length (gnodes (sg r)) = i;
    ni_nwo : forall j, j < i -> nwo (sg r) j = fmn j;
    ni_desc : forall l, lseg (fnx (sg r)) free l cap -> desc l
  }.

  Lemma fm_nodes_loop : forall t i r free,
    i + t <= length (gnodes (sg s)) -> NInv i r free ->
    exists r' free',
      fm_nodes cap capcheck debug nmap (skipn i (gnodes (sg s))) t r free = Ok (r', free') /\
      NInv (i + t) r' free'.
  Proof.
    pose proof (sgi_ncap (si_g Is)) as Hscap.
    induction t as [|t IH]; intros i r free Hle N.
    - exists r, free. split.
      + destruct (skipn i (gnodes (sg s))); reflexivity.
      + rewrite Nat.add_0_r. exact N.
    - destruct (nth_error_lt_Some (gnodes (sg s)) (i := i)) as [n Hn]; [lia|].
      rewrite (skipn_nth _ _ Hn). cbn [fm_nodes].
      assert (Hf : match nwt n with Some w => nmap w | None => None end = fmn i).
      { unfold fmn. rewrite (nwo_nth _ _ Hn). reflexivity. }
      rewrite Hf. replace (i + S t) with (S i + t) by lia.
      pose proof (ni_inv N) as Ir. pose proof (ni_len N) as Hlen.
      destruct (fmn i) as [w2|] eqn:Ef.
      + (* kept: pushed live *)
        destruct (@push_live_node cap (retag r free cap) w2 Ir) as [I1 P1].
        { cbn [retag sg]. lia. }
        unfold retag in I1, P1; cbn [sg ncount ecount free_node free_edge] in I1, P1.
        set (r1 := mkSG (mkGraph (gnodes (sg r) ++ [mkNode (Some w2) (cap, cap)]) (gedges (sg r)))
                        (S (ncount r)) (ecount r) (free_node r) (free_edge r)).
        assert (Hrun : s_try_add_node cap capcheck debug r w2 = Ok (inr i, r1)).
        { unfold s_try_add_node. rewrite (ni_fn N) at 1. rewrite Nat.eqb_refl. cbn [negb].
          rewrite (@try_add_node_ok _ _ cap capcheck (sg r) (Some w2)) by (right; lia).
          rewrite Hlen. reflexivity. }
        rewrite Hrun. cbn [rbind].
        apply IH; [lia|]. constructor.
        * unfold retag, r1. cbn [sg ncount ecount]. exact I1.
        * unfold r1. cbn [free_node]. apply (ni_fn N).
        * unfold r1. cbn [free_edge]. apply (ni_fe N).
        * unfold r1. cbn [sg gedges]. apply (ni_edges N).
        * unfold r1. cbn [sg gnodes]. rewrite app_length. simpl. lia.
        * pose proof (an_new P1) as Hnew. pose proof (an_old P1) as Hold. cbn [sg] in Hnew, Hold.
          intros j Hj. unfold r1. cbn [sg]. destruct (Nat.eq_dec j i) as [->|Hne].
          -- rewrite Ef. rewrite <- Hlen. exact Hnew.
          -- rewrite Hold by lia. apply (ni_nwo N). lia.
        * intros l Hl. unfold r1 in Hl. cbn [sg] in Hl.
          destruct (si_fn Ir) as [fl [Hfl _]]. unfold retag in Hfl. cbn [sg free_node] in Hfl.
          assert (Hfl' : lseg (fnx (mkGraph (gnodes (sg r) ++ [mkNode (Some w2) (cap, cap)]) (gedges (sg r))))
                              free fl cap).
          { eapply lseg_frame; [exact Hfl|]. intros x Hx. apply fnx_same. cbn [gnodes].
            apply nth_error_app1. apply (lseg_fnx_in x Hfl Hx). }
          assert (l = fl).
          { eapply lseg_det; [|exact Hl|exact Hfl']. apply fnx_cap. apply (sgi_ncap (si_g I1)). }
          subst l. apply (ni_desc N). exact Hfl.
      + (* dropped or vacant: pushed vacant *)
        destruct (@add_vacant_node_spec cap capcheck (retag r free cap) Ir) as [g' [Hrun [I1 P1]]].
        { cbn [retag sg]. lia. }
        unfold retag in Hrun, I1, P1; cbn [sg ncount ecount free_node free_edge] in Hrun, I1, P1.
        rewrite Hrun. cbn [rbind]. rewrite Hlen. rewrite Hlen in I1, P1.
        apply IH; [lia|]. constructor.
        * unfold retag, with_g. cbn [sg ncount ecount]. exact I1.
        * apply (ni_fn N).
        * apply (ni_fe N).
        * pose proof (av_edges P1) as He. cbn [sg] in He. cbn [with_g sg]. rewrite He. apply (ni_edges N).
        * pose proof (av_nlen P1) as Hl. cbn [sg] in Hl. cbn [with_g sg]. rewrite Hl. lia.
        * pose proof (av_nodes P1) as Hnodes. cbn [sg] in Hnodes.
          intros j Hj. cbn [with_g sg]. rewrite Hnodes.
          destruct (Nat.eq_dec j i) as [->|Hne].
          -- rewrite Ef. apply nwo_oob. lia.
          -- apply (ni_nwo N). lia.
        * intros l Hl. cbn [with_g sg] in Hl.
          destruct (si_fn Ir) as [fl [Hfl _]]. unfold retag in Hfl. cbn [sg free_node] in Hfl.
          pose proof (av_free P1 Hfl) as Hfl'. cbn [sg free_node] in Hfl'.
          assert (l = length (gnodes (sg r)) :: fl).
          { eapply lseg_det; [|exact Hl|exact Hfl']. apply fnx_cap. apply (sgi_ncap (si_g I1)). }
          subst l. split.
          -- intros y Hy. apply (lseg_fnx_in y Hfl Hy).
          -- apply (ni_desc N). exact Hfl.
  Qed.

  Variable fn : nat.
  Variable nlen : nat.

  Record EInv (i : nat) (r : sgraph) (free : nat) : Prop := {
    ei_inv : SInv (retag r fn free);
    ei_fn : free_node r = cap;
    ei_fe : free_edge r = cap;
    ei_nwo : forall j, nwo (sg r) j = fmn j;
    ei_nlen : length (gnodes (sg r)) = nlen;
    ei_len : length (gedges (sg r)) = i;
    ei_ewo : forall x, x < i -> ewo (sg r) x = fme x;
    ei_epo : forall k x, x < i -> ewo (sg r) x <> None ->
               epo (gedges (sg r)) k x = epo (gedges (sg s)) k x;
    ei_fdesc : forall l, lseg (fnx (sg r)) fn l cap -> desc l;
    ei_edesc : forall l, lseg (fex (sg r)) free l cap -> desc l;
    ei_adesc : forall k j l, nwo (sg r) j <> None -> adj (sg r) k j l -> desc l
  }.

  Lemma fm_edges_loop : forall t i r free,
    i + t <= length (gedges (sg s)) -> EInv i r free ->
    exists r' free',
      fm_edges cap capcheck debug emap (skipn i (gedges (sg s))) t r free = Ok (r', free') /\
      EInv (i + t) r' free'.
  Proof.
    pose proof (sgi_ecap (si_g Is)) as Hscap.
    induction t as [|t IH]; intros i r free Hle E.
    - exists r, free. split.
      + destruct (skipn i (gedges (sg s))); reflexivity.
      + rewrite Nat.add_0_r. exact E.
    - destruct (nth_error_lt_Some (gedges (sg s)) (i := i)) as [e Hn]; [lia|].
      rewrite (skipn_nth _ _ Hn). cbn [fm_edges].
      assert (Hf : match ewt e with
                   | Some w => if andb (contains_node r (fst (enode e))) (contains_node r (snd (enode e)))
                               then emap w else None
                   | None => None end = fme i).
      { unfold fme. rewrite Hn. rewrite !contains_node_nwo, !(ei_nwo E). reflexivity. }
      rewrite Hf. replace (i + S t) with (S i + t) by lia.
      pose proof (ei_inv E) as Ir. pose proof (ei_len E) as Hlen.
      destruct (fme i) as [w2|] eqn:Ef.
      + (* kept *)
        assert (Hlive : nwo (sg r) (fst (enode e)) <> None /\ nwo (sg r) (snd (enode e)) <> None).
        { unfold fme in Ef. rewrite Hn in Ef. destruct (ewt e); [|discriminate].
          rewrite !(ei_nwo E).
          destruct (fmn (fst (enode e))), (fmn (snd (enode e))); simpl in Ef; try discriminate.
          split; discriminate. }
        destruct Hlive as [La Lb].
        destruct (@push_live_edge cap (retag r fn free) (fst (enode e)) (snd (enode e)) w2 Ir)
          as [g2 [Hlink [Hlen2 [Hfnx [Hfex [I1 P1]]]]]]; auto.
        { cbn [retag sg]. lia. }
        unfold retag in Hlink, Hlen2, Hfnx, Hfex, I1, P1;
          cbn [sg ncount ecount free_node free_edge] in Hlink, Hlen2, Hfnx, Hfex, I1, P1.
        rewrite (@try_add_edge_nofree cap capcheck debug r _ _ w2 g2 (ei_fe E)); auto; [|lia].
        cbn [rbind]. try rewrite Hlen. rewrite Hlen in P1, Hlen2.
        pose proof (ae_nodes P1) as Q1. pose proof (ae_nlen P1) as Q2. pose proof (ae_new P1) as Q3.
        pose proof (ae_old P1) as Q4. pose proof (ae_new_ends P1) as Q5. pose proof (ae_old_ends P1) as Q6.
        pose proof (ae_adj P1) as Q7.
        cbn [sg] in Q1, Q2, Q3, Q4, Q5, Q6, Q7.
        apply IH; [lia|]. constructor; cbn [sg free_node free_edge].
        * unfold retag. cbn [sg ncount ecount]. exact I1.
        * apply (ei_fn E).
        * apply (ei_fe E).
        * intros j. rewrite Q1. apply (ei_nwo E).
        * rewrite Q2. apply (ei_nlen E).
        * exact Hlen2.
        * intros x Hx. destruct (Nat.eq_dec x i) as [->|Hne].
          -- rewrite Q3. auto.
          -- rewrite Q4 by auto. apply (ei_ewo E). lia.
        * intros k x Hx Hl. destruct (Nat.eq_dec x i) as [->|Hne].
          -- rewrite Q5. unfold epo. rewrite Hn. cbn [option_map].
             rewrite sel_pair. reflexivity.
          -- rewrite Q6 by auto. apply (ei_epo E); [lia|].
             rewrite Q4 in Hl by auto. exact Hl.
        * intros l Hl. apply (ei_fdesc E). eapply lseg_ext; [|exact Hl]. intros x. symmetry. apply Hfnx.
        * intros l Hl. apply (ei_edesc E). eapply lseg_ext; [|exact Hl]. intros x. symmetry. apply Hfex.
        * intros k j l Hj Hl. rewrite Q1 in Hj.
          destruct (sgi_adj (si_g Ir) k (i := j)) as [l0 [Hl0 _]]; [apply lv_None; exact Hj|].
          unfold retag in Hl0. cbn [sg] in Hl0.
          pose proof (Q7 k j l0 Hj Hl0) as Hl1.
          assert (El : l = if Nat.eqb j (sel (fst (enode e), snd (enode e)) k) then i :: l0 else l0).
          { eapply adj_det; [|exact Hl|exact Hl1]. apply (sgi_ecap (si_g I1)). }
          pose proof (ei_adesc E Hj Hl0) as Hd0.
          rewrite El. destruct (Nat.eqb j (sel (fst (enode e), snd (enode e)) k)); [|exact Hd0].
          split; [|exact Hd0]. intros y Hy. rewrite <- Hlen. eapply adj_in_lt; eauto.
      + (* dropped or vacant *)
        destruct (Nat.eqb_spec (length (gedges (sg r))) cap) as [|_]; [lia|].
        rewrite !andb_false_r. unfold add_vacant_edge.
        destruct (@push_vacant_edge cap (retag r fn free) Ir) as [I1 [Hew [Hep [Hadj Hfree]]]].
        { cbn [retag sg]. lia. }
        unfold retag in I1, Hew, Hep, Hadj, Hfree;
          cbn [sg ncount ecount free_node free_edge] in I1, Hew, Hep, Hadj, Hfree.
        rewrite Hlen. rewrite Hlen in I1, Hep, Hfree.
        apply IH; [lia|]. constructor; cbn [with_g sg free_node free_edge gnodes].
        * unfold retag, with_g. cbn [sg ncount ecount]. exact I1.
        * apply (ei_fn E).
        * apply (ei_fe E).
        * intros j. unfold nwo. cbn [gnodes]. apply (ei_nwo E).
        * apply (ei_nlen E).
        * cbn [gedges]. rewrite app_length. simpl. lia.
        * intros x Hx. rewrite Hew. destruct (Nat.eq_dec x i) as [->|Hne].
          -- rewrite Ef. apply ewo_oob. lia.
          -- apply (ei_ewo E). lia.
        * intros k x Hx Hl. rewrite Hew in Hl.
          assert (Hxi : x < i) by (rewrite <- Hlen; apply ewo_Some_lt; auto).
          rewrite Hep by auto. apply (ei_epo E); auto.
        * intros l Hl. apply (ei_fdesc E). exact Hl.
        * intros l Hl. destruct (si_fe Ir) as [fl [Hfl _]]. unfold retag in Hfl. cbn [sg free_edge] in Hfl.
          assert (l = i :: fl).
          { eapply lseg_det; [|exact Hl|exact (Hfree fl Hfl)]. apply fex_cap. apply (sgi_ecap (si_g I1)). }
          subst l. split.
          -- intros y Hy. rewrite <- Hlen. apply (lseg_fex_in y Hfl Hy).
          -- apply (ei_edesc E). exact Hfl.
        * intros k j l Hj Hl. unfold nwo in Hj. cbn [gnodes] in Hj.
          destruct (sgi_adj (si_g Ir) k (i := j)) as [l0 [Hl0 _]]; [apply lv_None; exact Hj|].
          unfold retag in Hl0. cbn [sg] in Hl0.
          assert (El : l = l0).
          { eapply adj_det; [|exact Hl|exact (Hadj k j l0 Hl0)]. apply (sgi_ecap (si_g I1)). }
          rewrite El. apply (ei_adesc E Hj Hl0).
  Qed.
End FilterMap.

(* ------------------------------------------------------------------ *)
(* F1: filter_map                                                      *)

Section FilterMapSpec.
  Variable cap : nat.
  Variable capcheck : bool.
  Variable debug : bool.

  Lemma node_bound_le s : node_bound s <= length (gnodes (sg s)).
  Proof.
    destruct (proj2 (node_bound_spec s)) as [E|H]; [lia|]. apply nwo_Some_lt in H. lia.
  Qed.

  Lemma edge_bound_le s : edge_bound s <= length (gedges (sg s)).
  Proof.
    destruct (proj2 (edge_bound_spec s)) as [E|H]; [lia|]. apply ewo_Some_lt in H. lia.
  Qed.

  Lemma fmn_beyond nmap s j : node_bound s <= j -> fmn nmap s j = None.
  Proof.
    intros H. unfold fmn. destruct (nwo (sg s) j) eqn:E; auto.
    assert (j < node_bound s) by (apply (proj1 (node_bound_spec s)); congruence). lia.
  Qed.

  Lemma fme_vacant nmap emap s x : ewo (sg s) x = None -> fme nmap emap s x = None.
  Proof.
    unfold fme, ewo. destruct (nth_error (gedges (sg s)) x) as [e|]; auto. intros ->. reflexivity.
  Qed.

  Lemma fme_beyond nmap emap s x : edge_bound s <= x -> fme nmap emap s x = None.
  Proof.
    intros H. apply fme_vacant. destruct (ewo (sg s) x) eqn:E; auto.
    assert (x < edge_bound s) by (apply (proj1 (edge_bound_spec s)); congruence). lia.
  Qed.

  Lemma fme_alt nmap emap s x :
    fme nmap emap s x =
    match ewo (sg s) x, epo (gedges (sg s)) 0 x, epo (gedges (sg s)) 1 x with
    | Some w, Some a, Some b => if andb (isS (fmn nmap s a)) (isS (fmn nmap s b)) then emap w else None
    | _, _, _ => None
    end.
  Proof.
    unfold fme, ewo, epo. destruct (nth_error (gedges (sg s)) x) as [e|]; [|reflexivity].
    cbn [option_map sel]. destruct (ewt e); reflexivity.
  Qed.

  Theorem s_filter_map_spec nmap emap s :
    SInv cap s ->
    exists s', s_filter_map cap capcheck debug nmap emap s = Ok s' /\ SInv cap s' /\
      (forall j, nwo (sg s') j = fmn nmap s j) /\
      (forall x, ewo (sg s') x = fme nmap emap s x) /\
      (forall k x, ewo (sg s') x <> None -> epo (gedges (sg s')) k x = epo (gedges (sg s)) k x) /\
      length (gnodes (sg s')) = node_bound s /\ length (gedges (sg s')) = edge_bound s /\
      (forall l, lseg (fnx (sg s')) (free_node s') l cap -> desc l) /\
      (forall l, lseg (fex (sg s')) (free_edge s') l cap -> desc l) /\
      (forall k j l, nwo (sg s') j <> None -> adj cap (sg s') k j l -> desc l).
  Proof.
    intros I. unfold s_filter_map.
    assert (N0 : NInv cap nmap s 0 (sg_empty cap) cap).
    { constructor; try reflexivity.
      - apply SInv_empty.
      - intros j Hj. lia.
      - intros l Hl. cbn [sg_empty sg] in Hl.
        apply (@FNL_head_cap cap g_empty l) in Hl; [subst l; exact Logic.I|simpl; lia]. }
    destruct (@fm_nodes_loop cap capcheck debug nmap s I (node_bound s) 0 (sg_empty cap) cap)
      as [r1 [fn1 [Hrun1 N1]]]; [pose proof (node_bound_le s); lia|exact N0|].
    cbn [skipn Nat.add] in Hrun1, N1. rewrite Hrun1. cbn [rbind].
    assert (E0 : EInv cap nmap emap s fn1 (node_bound s) 0 r1 cap).
    { constructor.
      - apply (ni_inv N1).
      - apply (ni_fn N1).
      - apply (ni_fe N1).
      - intros j. destruct (Nat.lt_ge_cases j (node_bound s)) as [Hj|Hj].
        + apply (ni_nwo N1). auto.
        + rewrite fmn_beyond by auto. apply nwo_oob. rewrite (ni_len N1). auto.
      - apply (ni_len N1).
      - rewrite (ni_edges N1). reflexivity.
      - intros x Hx. lia.
      - intros k x Hx. lia.
      - apply (ni_desc N1).
      - intros l Hl. apply FEL_head_cap in Hl; [subst l; exact Logic.I|].
        rewrite (ni_edges N1). simpl. lia.
      - intros k j l Hj [n [_ Hl]]. rewrite (ni_edges N1) in Hl.
        assert (Hnone : nxe (@nil (edge (option nat))) k (sel (nnext n) k) = None).
        { unfold nxe. destruct (sel (nnext n) k); reflexivity. }
        destruct (lseg_none_start Hnone Hl) as [-> _]. exact Logic.I. }
    destruct (@fm_edges_loop cap capcheck debug nmap emap s I fn1 (node_bound s) (edge_bound s) 0 r1 cap)
      as [r2 [fe2 [Hrun2 E2]]]; [pose proof (edge_bound_le s); lia|exact E0|].
    cbn [skipn Nat.add] in Hrun2, E2. rewrite Hrun2. cbn [rbind].
    pose proof (ei_inv E2) as I2. unfold retag in I2.
    rewrite (checked_ok debug I2). eexists; split; [reflexivity|]. split; [exact I2|].
    cbn [sg free_node free_edge]. split; [apply (ei_nwo E2)|]. split; [|split; [|split; [|split; [|split; [|split]]]]].
    - intros x. destruct (Nat.lt_ge_cases x (edge_bound s)) as [Hx|Hx].
      + apply (ei_ewo E2). auto.
      + rewrite fme_beyond by auto. apply ewo_oob. rewrite (ei_len E2). auto.
    - intros k x Hx. apply (ei_epo E2); auto. rewrite <- (ei_len E2). apply ewo_Some_lt. auto.
    - apply (ei_nlen E2).
    - apply (ei_len E2).
    - apply (ei_fdesc E2).
    - apply (ei_edesc E2).
    - apply (ei_adesc E2).
  Qed.
End FilterMapSpec.
