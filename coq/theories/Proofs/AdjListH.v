(* adj::List refines the insertion log: after every history the List is exactly
   the log filtered by source, and edge_count is the length of the log. *)
From PG Require Import Lib.ListExtra Lib.Io Model.AdjListM Spec.AdjListSpec Proofs.AdjListP.
Set Implicit Arguments.

Definition srcs (l : log) : list nat := map (fun e => fst (fst e)) l.
(* every logged edge leaves an existing node *)
Definition lwf (s : lspec) : Prop := forall x, In x (srcs (snd s)) -> x < fst s.

(* ------------------------------------------------------------------ *)
(* rows of a log                                                       *)

Lemma row_of_cons x y z t a :
  row_of ((x, y, z) :: t) a = if Nat.eqb x a then (y, z) :: row_of t a else row_of t a.
Proof. unfold row_of; cbn [filter fst]. destruct (Nat.eqb x a); reflexivity. Qed.

Lemma row_of_app l1 l2 a : row_of (l1 ++ l2) a = row_of l1 a ++ row_of l2 a.
Proof. unfold row_of. rewrite filter_app, map_app. reflexivity. Qed.

Lemma row_of_no_src l a : ~ In a (srcs l) -> row_of l a = [].
Proof.
  induction l as [|[[x y] z] t IH]; intros H; auto.
  rewrite row_of_cons. cbn [srcs map fst In] in H.
  destruct (Nat.eqb_spec x a); [tauto|]. apply IH. intros X; apply H; right; exact X.
Qed.

Lemma row_of_new n es : row_of (map (fun p : nat * nat => (n, fst p, snd p)) es) n = es.
Proof.
  induction es as [|[b w] t IH]; auto.
  cbn [map fst snd]. rewrite row_of_cons, Nat.eqb_refl, IH. reflexivity.
Qed.

Lemma srcs_new n (es : list (nat * nat)) x :
  In x (srcs (map (fun p : nat * nat => (n, fst p, snd p)) es)) -> x = n.
Proof.
  unfold srcs. rewrite map_map. cbn [fst]. intros H. apply in_map_iff in H.
  destruct H as [p [E _]]. auto.
Qed.

Lemma srcs_app l1 l2 : srcs (l1 ++ l2) = srcs l1 ++ srcs l2.
Proof. apply map_app. Qed.

(* ------------------------------------------------------------------ *)
(* the represented List                                                *)

Lemma nth_error_abs n l a :
  nth_error (al_abs (n, l)) a = if Nat.ltb a n then Some (row_of l a) else None.
Proof.
  unfold al_abs; cbn [fst snd]. rewrite nth_error_map.
  destruct (Nat.ltb_spec a n) as [H|H].
  - rewrite nth_error_seq0 by auto. reflexivity.
  - rewrite nth_error_oob by (rewrite seq_length; auto). reflexivity.
Qed.

Lemma abs_length n l : length (al_abs (n, l)) = n.
Proof. unfold al_abs; cbn [fst snd]. rewrite map_length, seq_length. reflexivity. Qed.

Lemma abs_rows_eq n l l' : (forall a, a < n -> row_of l' a = row_of l a) ->
  al_abs (n, l') = al_abs (n, l).
Proof.
  intros H. unfold al_abs; cbn [fst snd]. apply map_ext_in.
  intros a Ha. apply in_seq in Ha. apply H. lia.
Qed.

Lemma abs_upd n l l' a r : a < n -> r = row_of l' a ->
  (forall a', a' <> a -> row_of l' a' = row_of l a') ->
  upd (al_abs (n, l)) a r = al_abs (n, l').
Proof.
  intros Ha -> H. apply list_ext; intros j.
  rewrite nth_error_upd, !nth_error_abs, abs_length.
  destruct (Nat.eqb_spec a j) as [<-|Hne].
  - destruct (Nat.ltb_spec a n); try lia. reflexivity.
  - destruct (Nat.ltb j n); auto. rewrite H; auto.
Qed.

Lemma abs_snoc n l l' r : (forall a, a < n -> row_of l' a = row_of l a) -> r = row_of l' n ->
  al_abs (n, l) ++ [r] = al_abs (S n, l').
Proof.
  intros H ->. unfold al_abs; cbn [fst snd]. rewrite seq_S, map_app. cbn [map Nat.add]. f_equal.
  apply map_ext_in. intros a Ha. apply in_seq in Ha. symmetry. apply H. lia.
Qed.

(* ------------------------------------------------------------------ *)
(* log_update, log_set                                                 *)

Lemma log_update_some l a b w : forall l', log_update l a b w = Some l' ->
  exists i, find_suc (row_of l a) b 0 = Some i /\
    row_of l' a = upd (row_of l a) i (b, w) /\
    (forall a', a' <> a -> row_of l' a' = row_of l a') /\
    srcs l' = srcs l /\ length l' = length l.
Proof.
  induction l as [|[[x y] z] t IH]; intros l' H; cbn [log_update] in H; [discriminate|].
  destruct (Nat.eqb x a && Nat.eqb y b) eqn:C.
  - inversion H; subst l'. apply andb_true_iff in C. destruct C as [C1 C2].
    apply Nat.eqb_eq in C1. apply Nat.eqb_eq in C2. subst x y.
    exists 0. rewrite !row_of_cons, Nat.eqb_refl. cbn [find_suc]. rewrite Nat.eqb_refl.
    splits; auto. intros a' Hne. rewrite !row_of_cons.
    destruct (Nat.eqb_spec a a'); [congruence|reflexivity].
  - destruct (log_update t a b w) as [t'|] eqn:E; cbn [option_map] in H; [|discriminate].
    inversion H; subst l'. destruct (IH _ eq_refl) as [i [F [R1 [R2 [S1 L1]]]]].
    rewrite !row_of_cons. destruct (Nat.eqb_spec x a) as [->|Hxa].
    + exists (S i). cbn [find_suc].
      destruct (Nat.eqb_spec y b) as [->|Hyb].
      { cbn [andb] in C. discriminate. }
      rewrite find_suc_shift, F. splits; auto.
      * cbn [upd]. rewrite R1. reflexivity.
      * intros a' Hne. rewrite !row_of_cons, R2 by auto. reflexivity.
      * cbn [srcs map] in *. f_equal. exact S1.
      * cbn [length]. lia.
    + exists i. splits; auto.
      * intros a' Hne. rewrite !row_of_cons, R2 by auto. reflexivity.
      * cbn [srcs map] in *. f_equal. exact S1.
      * cbn [length]. lia.
Qed.

Lemma log_update_none l a b w : log_update l a b w = None -> find_suc (row_of l a) b 0 = None.
Proof.
  induction l as [|[[x y] z] t IH]; intros H; cbn [log_update] in H; auto.
  destruct (Nat.eqb_spec x a) as [->|Hxa]; cbn [andb] in H.
  - rewrite row_of_cons, Nat.eqb_refl. cbn [find_suc].
    destruct (Nat.eqb y b); [discriminate|].
    destruct (log_update t a b w); [discriminate|].
    rewrite find_suc_shift, IH; auto.
  - rewrite row_of_cons. destruct (Nat.eqb_spec x a); try congruence.
    destruct (log_update t a b w); [discriminate|]. auto.
Qed.

Lemma log_set_spec l a v : forall i,
  row_of (log_set l a i v) a =
    match nth_error (row_of l a) i with
    | Some (s, _) => upd (row_of l a) i (s, v)
    | None => row_of l a
    end /\
  (forall a', a' <> a -> row_of (log_set l a i v) a' = row_of l a') /\
  srcs (log_set l a i v) = srcs l /\ length (log_set l a i v) = length l.
Proof.
  induction l as [|[[x y] z] t IH]; intros i; cbn [log_set].
  - splits; auto. destruct i; reflexivity.
  - destruct (Nat.eqb_spec x a) as [->|Hxa].
    + destruct i as [|j].
      * rewrite !row_of_cons, Nat.eqb_refl. cbn [nth_error upd]. splits; auto.
        intros a' Hne. rewrite !row_of_cons.
        destruct (Nat.eqb_spec a a'); [congruence|reflexivity].
      * destruct (IH j) as [R1 [R2 [S1 L1]]].
        rewrite !row_of_cons, Nat.eqb_refl. cbn [nth_error]. splits.
        -- rewrite R1. destruct (nth_error (row_of t a) j) as [[s w0]|]; reflexivity.
        -- intros a' Hne. rewrite !row_of_cons, R2 by auto. reflexivity.
        -- cbn [srcs map] in *. f_equal. exact S1.
        -- cbn [length]. lia.
    + destruct (IH i) as [R1 [R2 [S1 L1]]].
      rewrite !row_of_cons. destruct (Nat.eqb_spec x a); try congruence. splits; auto.
      * intros a' Hne. rewrite !row_of_cons, R2 by auto. reflexivity.
      * cbn [srcs map] in *. f_equal. exact S1.
      * cbn [length]. lia.
Qed.

(* ------------------------------------------------------------------ *)
(* one step                                                            *)

Lemma lwf_snoc n l a b w : lwf (n, l) -> a < n -> lwf (n, l ++ [(a, b, w)]).
Proof.
  intros W Ha x Hx. cbn [fst snd] in *. rewrite srcs_app in Hx. apply in_app_iff in Hx.
  destruct Hx as [Hx|[Hx|[]]]; [apply (W x Hx)|]. cbn [fst] in Hx. lia.
Qed.

Lemma add_edge_abs n l a b w : a < n -> b < n ->
  al_add_edge (al_abs (n, l)) a b w =
  Ok ((a, length (row_of l a)), al_abs (n, l ++ [(a, b, w)])).
Proof.
  intros Ha Hb.
  destruct (@al_add_edge_ok (al_abs (n, l)) a b w) as [r [Hr E]]; try (rewrite abs_length; auto).
  rewrite nth_error_abs in Hr. destruct (Nat.ltb_spec a n); try lia. inversion Hr; subst r.
  rewrite E. do 2 f_equal. apply abs_upd; auto.
  - rewrite row_of_app, row_of_cons, Nat.eqb_refl. reflexivity.
  - intros a' Hne. rewrite row_of_app, row_of_cons.
    destruct (Nat.eqb_spec a a'); try congruence. cbn [row_of filter map]. apply app_nil_r.
Qed.

Lemma step_abs s o : lwf s ->
  fst (step (al_abs s) o) = al_abs (lspec_step s o) /\ lwf (lspec_step s o).
Proof.
  intros W. destruct s as [n l]. destruct o as [code x]. unfold step, lspec_step.
  destruct code as [|[|[|[|[|[|[|[|[|[|[|[|c]]]]]]]]]]]]; try (split; [reflexivity|exact W]).
  - (* add_node *)
    cbn [al_add_node fst]. split.
    + apply abs_snoc; auto. symmetry. apply row_of_no_src. intros X. apply W in X. cbn [fst] in X. lia.
    + intros y Hy. apply W in Hy. cbn [fst] in *. lia.
  - (* add_edge *)
    destruct (Nat.ltb_spec (arg x 0) n) as [Ha|Ha]; [destruct (Nat.ltb_spec (arg x 1) n) as [Hb|Hb]|];
      cbn [andb].
    + rewrite add_edge_abs by auto. cbn [fst]. split; auto. apply lwf_snoc; auto.
    + assert (E : al_add_edge (al_abs (n, l)) (arg x 0) (arg x 1) (arg x 2) = Panic).
      { apply al_add_edge_panics. rewrite abs_length. lia. }
      rewrite E. auto.
    + assert (E : al_add_edge (al_abs (n, l)) (arg x 0) (arg x 1) (arg x 2) = Panic).
      { apply al_add_edge_panics. rewrite abs_length. lia. }
      rewrite E. auto.
  - (* update_edge *)
    destruct (Nat.ltb_spec (arg x 0) n) as [Ha|Ha]; [destruct (Nat.ltb_spec (arg x 1) n) as [Hb|Hb]|];
      cbn [andb].
    + unfold al_update_edge. rewrite abs_length.
      destruct (Nat.leb_spec n (arg x 1)); try lia.
      rewrite nth_error_abs. destruct (Nat.ltb_spec (arg x 0) n); try lia.
      destruct (log_update l (arg x 0) (arg x 1) (arg x 2)) as [l'|] eqn:E.
      * destruct (log_update_some _ _ _ _ E) as [i [F [R1 [R2 [S1 L1]]]]].
        rewrite F. cbn [fst]. split.
        -- apply abs_upd; auto.
        -- intros y Hy. cbn [fst snd] in *. rewrite S1 in Hy. apply (W y Hy).
      * rewrite (log_update_none _ _ _ _ E). cbn [fst].
        pose proof (add_edge_abs l (arg x 2) Ha Hb) as A. unfold al_add_edge in A.
        rewrite abs_length in A. destruct (Nat.leb_spec n (arg x 1)); try lia.
        rewrite nth_error_abs in A. destruct (Nat.ltb_spec (arg x 0) n); try lia.
        inversion A as [A']. rewrite A'. split; auto. apply lwf_snoc; auto.
    + assert (E : al_update_edge (al_abs (n, l)) (arg x 0) (arg x 1) (arg x 2) = Panic).
      { apply al_update_edge_panics. rewrite abs_length. lia. }
      rewrite E. auto.
    + assert (E : al_update_edge (al_abs (n, l)) (arg x 0) (arg x 1) (arg x 2) = Panic).
      { apply al_update_edge_panics. rewrite abs_length. lia. }
      rewrite E. auto.
  - (* clear *)
    split; [reflexivity|]. intros y [].
  - (* set edge weight *)
    destruct (log_set_spec l (arg x 0) (arg x 2) (arg x 1)) as [R1 [R2 [S1 L1]]].
    assert (W' : lwf (n, log_set l (arg x 0) (arg x 1) (arg x 2))).
    { intros y Hy. cbn [fst snd] in *. rewrite S1 in Hy. apply (W y Hy). }
    split; auto.
    unfold al_set_edge_weight. cbn [fst snd]. rewrite nth_error_abs.
    destruct (Nat.ltb_spec (arg x 0) n) as [Ha|Ha].
    + destruct (nth_error (row_of l (arg x 0)) (arg x 1)) as [[s w0]|] eqn:E; cbn [fst].
      * apply abs_upd; auto.
      * symmetry. apply abs_rows_eq. intros a Ha'.
        destruct (Nat.eq_dec a (arg x 0)) as [->|Hne]; auto.
    + cbn [fst]. symmetry. apply abs_rows_eq. intros a Ha'. apply R2. lia.
  - (* add_node_from_edges *)
    cbn [al_add_node_from_edges fst]. split.
    + apply abs_snoc.
      * intros a Ha. rewrite row_of_app. rewrite (@row_of_no_src (map _ _) a), app_nil_r; auto.
        intros X. apply srcs_new in X. lia.
      * rewrite row_of_app, row_of_new, row_of_no_src; auto.
        intros X. apply W in X. cbn [fst] in X. lia.
    + intros y Hy. cbn [fst snd] in *. rewrite srcs_app in Hy. apply in_app_iff in Hy.
      destruct Hy as [Hy|Hy]; [apply W in Hy; cbn [fst] in Hy; lia|].
      apply srcs_new in Hy. lia.
Qed.

(* ------------------------------------------------------------------ *)
(* histories                                                           *)

Lemma al_history_from ops : forall s, lwf s ->
  al_final (al_abs s) ops = al_abs (fold_left lspec_step ops s) /\
  lwf (fold_left lspec_step ops s).
Proof.
  induction ops as [|o rest IH]; intros s W; [auto|].
  destruct (step_abs o W) as [E W'].
  change (al_final (al_abs s) (o :: rest)) with (al_final (fst (step (al_abs s) o)) rest).
  rewrite E. cbn [fold_left]. apply IH; auto.
Qed.

Theorem al_history_refines ops :
  al_final al_new ops = al_abs (lspec_final ops) /\ lwf (lspec_final ops).
Proof.
  apply (@al_history_from ops (0, [])). intros x [].
Qed.

(* ------------------------------------------------------------------ *)
(* edge_count                                                          *)

Lemma fold_left_sum (g : alist) k :
  fold_left (fun acc r => acc + length r) g k = k + list_sum (map (@length _) g).
Proof.
  revert k; induction g as [|r t IH]; intros k; simpl; [lia|].
  rewrite IH. lia.
Qed.

Lemma sum_indicator x (f : nat -> nat) n :
  list_sum (map (fun a => if Nat.eqb x a then S (f a) else f a) (seq 0 n)) =
  (if Nat.ltb x n then 1 else 0) + list_sum (map f (seq 0 n)).
Proof.
  induction n as [|n IH].
  - reflexivity.
  - rewrite seq_S, !map_app, !list_sum_app, IH. simpl.
    destruct (Nat.eqb_spec x n); destruct (Nat.ltb_spec x n); destruct (Nat.ltb_spec x (S n)); lia.
Qed.

Lemma row_lengths_sum n l : lwf (n, l) ->
  list_sum (map (fun a => length (row_of l a)) (seq 0 n)) = length l.
Proof.
  induction l as [|[[x y] z] t IH]; intros W.
  - cbn [row_of filter map length]. induction (seq 0 n) as [|h q IHq]; auto.
  - rewrite (map_ext _ (fun a => if Nat.eqb x a then S (length (row_of t a)) else length (row_of t a))).
    + rewrite sum_indicator, IH.
      * assert (Hx : x < n) by (apply (W x); cbn; auto).
        destruct (Nat.ltb_spec x n); try lia. reflexivity.
      * intros u Hu. apply (W u). cbn [snd srcs map In] in *. auto.
    + intros a. rewrite row_of_cons. destruct (Nat.eqb x a); reflexivity.
Qed.

Theorem al_edge_count_abs s : lwf s -> al_edge_count (al_abs s) = length (snd s).
Proof.
  intros W. destruct s as [n l]. unfold al_edge_count. rewrite fold_left_sum.
  unfold al_abs; cbn [fst snd]. rewrite map_map. rewrite row_lengths_sum; auto.
Qed.
