(* T8 (second half): From<Graph> for StableGraph establishes the invariant, and converting back
   with From<StableGraph> for Graph never fails and gives back the same node weights and the same
   edge list (index by index). *)
From Coq Require Import Permutation.
From PG Require Import Lib.ListArr Lib.ListExtra Lib.Walk Model.GraphM Model.StableM
  Proofs.GraphP Proofs.GraphQ Proofs.GraphRE Proofs.GraphRN Proofs.GraphRev Proofs.GraphH Proofs.GraphT
  Proofs.StableP.
Set Implicit Arguments.

Lemma last_live_all {A} (l : list (option A)) : forall i acc,
  (forall o, In o l -> o <> None) ->
  last_live l i acc = match l with [] => acc | _ :: _ => i + length l end.
Proof.
  induction l as [|o l IH]; intros i acc H; [reflexivity|].
  cbn [last_live]. destruct o as [v|]; [|exfalso; apply (H None); simpl; auto].
  rewrite IH by (intros o Ho; apply H; simpl; auto).
  destruct l; simpl; lia.
Qed.

Section StableG.
  Variable cap : nat.
  Variable capcheck : bool.
  Variable debug : bool.

  Notation gadj := (@adj nat nat cap).
  Notation sadj := (@adj (option nat) (option nat) cap).

  Section From.
    Variable g : graph nat nat.
    Hypothesis I : @GInv nat nat cap g.
    Let s := from_graph cap g.

    Lemma fg_nth_node i :
      nth_error (gnodes (sg s)) i = option_map (fun n => mkNode (Some (nwt n)) (nnext n)) (nth_error (gnodes g) i).
    Proof. unfold s, from_graph. cbn [sg gnodes]. apply nth_error_map. Qed.

    Lemma fg_nth_edge x :
      nth_error (gedges (sg s)) x =
      option_map (fun e => mkEdge (Some (ewt e)) (enext e) (enode e)) (nth_error (gedges g) x).
    Proof. unfold s, from_graph. cbn [sg gedges]. apply nth_error_map. Qed.

    Lemma fg_nlen : length (gnodes (sg s)) = length (gnodes g).
    Proof. unfold s, from_graph. cbn [sg gnodes]. apply map_length. Qed.

    Lemma fg_elen : length (gedges (sg s)) = length (gedges g).
    Proof. unfold s, from_graph. cbn [sg gedges]. apply map_length. Qed.

    Lemma fg_nwo i : nwo (sg s) i = option_map (@nwt _) (nth_error (gnodes g) i).
    Proof. unfold nwo. rewrite fg_nth_node. destruct (nth_error (gnodes g) i); reflexivity. Qed.

    Lemma fg_ewo x : ewo (sg s) x = option_map (@ewt _) (nth_error (gedges g) x).
    Proof. unfold ewo. rewrite fg_nth_edge. destruct (nth_error (gedges g) x); reflexivity. Qed.

    Lemma fg_nwo_live i : nwo (sg s) i <> None <-> i < length (gnodes g).
    Proof.
      rewrite fg_nwo. split.
      - intros H. destruct (nth_error (gnodes g) i) eqn:E; [|contradiction].
        eapply nth_error_Some_lt; eauto.
      - intros H. destruct (nth_error_lt_Some _ H) as [n ->]. discriminate.
    Qed.

    Lemma fg_ewo_live x : ewo (sg s) x <> None <-> x < length (gedges g).
    Proof.
      rewrite fg_ewo. split.
      - intros H. destruct (nth_error (gedges g) x) eqn:E; [|contradiction].
        eapply nth_error_Some_lt; eauto.
      - intros H. destruct (nth_error_lt_Some _ H) as [n ->]. discriminate.
    Qed.

    Lemma fg_epo k x : epo (gedges (sg s)) k x = epo (gedges g) k x.
    Proof. unfold epo. rewrite fg_nth_edge. destruct (nth_error (gedges g) x); reflexivity. Qed.

    Lemma fg_nxe k x : nxe (gedges (sg s)) k x = nxe (gedges g) k x.
    Proof. unfold nxe. rewrite fg_nth_edge. destruct (nth_error (gedges g) x); reflexivity. Qed.

    Lemma fg_adj k i l : gadj g k i l -> sadj (sg s) k i l.
    Proof.
      intros [n [Hn Hl]]. exists (mkNode (Some (nwt n)) (nnext n)). split.
      - rewrite fg_nth_node, Hn. reflexivity.
      - cbn [nnext]. eapply lseg_ext; [|exact Hl]. intros x. apply fg_nxe.
    Qed.

    Lemma from_graph_SInv : SInv cap s.
    Proof.
      constructor.
      - constructor.
        + rewrite fg_nlen. apply (gi_ncap I).
        + rewrite fg_elen. apply (gi_ecap I).
        + intros k x i Hx Hep. apply lv_None. apply fg_nwo_live.
          rewrite fg_epo in Hep. unfold epo in Hep.
          destruct (nth_error (gedges g) x) as [ed|] eqn:E; [|discriminate].
          simpl in Hep. injection Hep as <-. destruct (gi_ends I _ E). destruct k; simpl; auto.
        + intros k i Li. apply lv_None in Li. apply fg_nwo_live in Li.
          destruct (gi_adj I k Li) as [l [Hl C]]. exists l. split; [apply fg_adj; auto|].
          intros x. rewrite C, fg_epo. split; [|tauto]. intros H. split; auto.
          apply fg_ewo_live. eapply epo_Some; eauto.
      - intros a H. discriminate.
      - unfold s, from_graph. cbn [sg ncount gnodes osome]. rewrite map_map, nsome_map_all.
        + rewrite Nat.add_0_r. reflexivity.
        + intros n _. discriminate.
      - unfold s, from_graph. cbn [sg ecount gedges]. rewrite map_map, nsome_map_all; auto.
        intros e _. discriminate.
      - exists []. split; [constructor|]. split; [exact Logic.I|].
        intros i. split; [intros []|]. intros [Hi [Hv _]]. exfalso.
        rewrite fg_nlen in Hi. apply fg_nwo_live in Hi. contradiction.
      - exists []. split; [constructor|].
        intros x. split; [intros []|]. intros [Hx Hv]. exfalso.
        rewrite fg_elen in Hx. apply fg_ewo_live in Hx. contradiction.
    Qed.
  End From.

  (* to_graph on a state without vacancies *)
  Lemma to_graph_nodes_all (ns : list (node (option nat))) :
    (forall n, In n ns -> nwt n <> None) ->
    forall (g0 : graph nat nat) imap, length (gnodes g0) + length ns <= cap ->
    to_graph_nodes cap capcheck ns g0 imap =
      Some (mkGraph (gnodes g0 ++ map (fun n => mkNode (match nwt n with Some w => w | None => 0 end) (cap, cap)) ns)
                    (gedges g0),
            imap ++ seq (length (gnodes g0)) (length ns)).
  Proof.
    induction ns as [|n ns IH]; intros Hall g0 imap Hlen; cbn [to_graph_nodes].
    - simpl. rewrite !app_nil_r. destruct g0; reflexivity.
    - destruct (nwt n) as [w|] eqn:E; [|exfalso; apply (Hall n); simpl; auto].
      rewrite (@try_add_node_ok _ _ cap capcheck g0 w) by (right; simpl in Hlen; lia).
      rewrite IH.
      + cbn [gnodes gedges]. rewrite app_length. cbn [length map seq]. rewrite E.
        rewrite <- !app_assoc. cbn [app]. rewrite Nat.add_1_r. reflexivity.
      + intros n' Hn'. apply Hall. simpl; auto.
      + cbn [gnodes]. rewrite app_length. simpl in *. lia.
  Qed.

  Lemma to_graph_edges_all (n : nat) : forall (es : list (edge nat)) (g1 : graph nat nat),
    @GInv nat nat cap g1 -> length (gnodes g1) = n ->
    (forall e, In e es -> fst (enode e) < n /\ snd (enode e) < n) ->
    length (gedges g1) + length es <= cap ->
    exists gf, to_graph_edges cap capcheck debug
                 (map (fun e => mkEdge (Some (ewt e)) (enext e) (enode e)) es) (seq 0 n) g1 = Some gf /\
      @GInv nat nat cap gf /\
      map (@nwt _) (gnodes gf) = map (@nwt _) (gnodes g1) /\
      etrip gf = etrip g1 ++ map (@etr nat) es.
  Proof.
    induction es as [|e es IH]; intros g1 I1 Hn Hends Hlen; cbn [map to_graph_edges].
    - exists g1. split; auto. split; auto. split; auto. rewrite app_nil_r. reflexivity.
    - cbn [ewt enode]. destruct (Hends e (or_introl eq_refl)) as [Ha Hb].
      rewrite !nth_error_seq0 by auto.
      pose proof (gi_ncap I1) as Hnc. rewrite Hn in Hnc.
      assert (Edbg : andb debug (orb (Nat.eqb (fst (enode e)) cap) (Nat.eqb (snd (enode e)) cap)) = false).
      { destruct (Nat.eqb_spec (fst (enode e)) cap); [lia|].
        destruct (Nat.eqb_spec (snd (enode e)) cap); [lia|]. apply andb_false_r. }
      rewrite Edbg.
      destruct (@T1_add_edge nat nat cap capcheck g1 (fst (enode e)) (snd (enode e)) (ewt e) I1)
        as [_ [_ Hok]].
      destruct Hok as [g2 [Hrun [I2 [Hw [Het _]]]]]; [simpl in Hlen; lia|lia|lia|].
      rewrite Hrun.
      destruct (IH g2 I2) as [gf [Hrunf [If [Hwf Hetf]]]].
      + rewrite <- (map_length (@nwt _)), Hw, map_length. auto.
      + intros e' He'. apply Hends. simpl; auto.
      + assert (Hl2 : length (gedges g2) = S (length (gedges g1))).
        { apply (f_equal (@length _)) in Het. unfold etrip in Het.
          rewrite app_length, !map_length in Het. simpl in Het. lia. }
        simpl in Hlen. lia.
      + exists gf. split; auto. split; auto. split; [congruence|].
        rewrite Hetf, Het, <- app_assoc. cbn [app map]. unfold etr at 2.
        destruct (enode e). reflexivity.
  Qed.

  Theorem to_from_graph (g : graph nat nat) :
    @GInv nat nat cap g ->
    exists g', to_graph cap capcheck debug (from_graph cap g) = Some g' /\
      @GInv nat nat cap g' /\
      map (@nwt _) (gnodes g') = map (@nwt _) (gnodes g) /\
      etrip g' = etrip g.
  Proof.
    intros I. unfold to_graph.
    set (s := from_graph cap g).
    assert (Hnb : node_bound s = length (gnodes g)).
    { unfold node_bound, s, from_graph. cbn [sg gnodes]. rewrite map_map. cbn [nwt].
      rewrite last_live_all.
      - destruct (gnodes g); simpl; auto. rewrite map_length. reflexivity.
      - intros o Ho. apply in_map_iff in Ho. destruct Ho as [n [<- _]]. discriminate. }
    pose proof (fg_nlen g) as Hsl. fold s in Hsl.
    rewrite Hnb.
    assert (Hfirst : firstn (length (gnodes g)) (gnodes (sg s)) = gnodes (sg s)).
    { rewrite <- Hsl. apply firstn_all. }
    rewrite Hfirst.
    rewrite to_graph_nodes_all.
    - cbn [g_empty gnodes gedges app length]. rewrite Hsl.
      set (g1 := mkGraph (map (fun n : node (option nat) => mkNode (match nwt n with Some w => w | None => 0 end) (cap, cap))
                              (gnodes (sg s))) [] : graph nat nat).
      assert (Hg1n : map (@nwt _) (gnodes g1) = map (@nwt _) (gnodes g)).
      { unfold g1, s, from_graph. cbn [sg gnodes]. rewrite !map_map. reflexivity. }
      assert (Hl1 : length (gnodes g1) = length (gnodes g)).
      { rewrite <- (map_length (@nwt _)), Hg1n, map_length. reflexivity. }
      assert (I1 : @GInv nat nat cap g1).
      { constructor.
        - rewrite Hl1. apply (gi_ncap I).
        - simpl. lia.
        - intros x ed Hx. destruct x; discriminate.
        - intros k i Hi. exists []. split.
          + destruct (nth_error_lt_Some _ Hi) as [n Hn]. exists n. split; auto.
            unfold g1 in Hn. cbn [gnodes] in Hn. rewrite nth_error_map in Hn.
            destruct (nth_error (gnodes (sg s)) i); [|discriminate]. simpl in Hn. injection Hn as <-.
            destruct k; simpl; constructor.
          + intros x. split; [intros []|]. unfold epo. simpl. destruct x; discriminate. }
      destruct (@to_graph_edges_all (length (gnodes g)) (gedges g) g1 I1 Hl1) as [gf [Hrun [If [Hwf Hetf]]]].
      + intros e He. apply nth_error_In' in He. destruct He as [x Hx]. apply (gi_ends I _ Hx).
      + simpl. apply (gi_ecap I).
      + unfold s at 1. unfold from_graph at 1. cbn [sg gedges]. rewrite Hrun.
        exists gf. split; auto. split; auto. split; [congruence|].
        rewrite Hetf. reflexivity.
    - intros n Hn. unfold s, from_graph in Hn. cbn [sg gnodes] in Hn.
      apply in_map_iff in Hn. destruct Hn as [n0 [<- _]]. discriminate.
    - cbn [g_empty gnodes length]. rewrite Hsl. apply (gi_ncap I).
  Qed.
End StableG.
