(* Proofs for C12, Prim: on an undirected view the iterator of min_spanning_tree_prim
   never panics and emits a spanning tree of the component of the first node. *)
From Coq Require Import Lia ZArith Permutation.
From PG Require Import Lib.Io Model.View Model.Traversal Model.MstM
  Spec.Partition Spec.Forest Proofs.UnionFindH Proofs.ForestP Proofs.MstP.

(* ------------------------------------------------------------------ *)
(* edges(a) as a relation                                              *)

Lemma in_oedges v a b w :
  In (a, b, w) (oedges v) <-> In a (vnodes v) /\ exists ei, In (ei, b, w) (out_edges v a).
Proof.
  unfold oedges, all_out. rewrite in_map_iff. split.
  - intros [[[[i a'] b'] w'] [E Hi]]. inversion E; subst. clear E.
    apply in_flat_map in Hi. destruct Hi as [x [Hx Hi]].
    apply in_map_iff in Hi. destruct Hi as [[[ei t] w0] [E Hi]].
    unfold eid, tgt, ewgt in E. simpl in E. inversion E; subst.
    split; auto. eexists; eauto.
  - intros [Ha [ei Hi]]. exists (ei, a, b, w). split; auto.
    apply in_flat_map. exists a. split; auto.
    apply in_map_iff. exists (ei, b, w). split; auto.
Qed.

(* ------------------------------------------------------------------ *)
(* pushes                                                              *)

Fixpoint pushed (a : nat) (es : list eref) (k : nat) : mheap :=
  match es with
  | [] => []
  | e :: r => (ewgt e, k, (a, tgt e)) :: pushed a r (S k)
  end.

Lemma push_edges_spec a : forall es h k,
  push_edges a es h k = (h ++ pushed a es k, k + length es).
Proof.
  induction es as [|e r IH]; intros h k; simpl.
  - rewrite app_nil_r. f_equal. lia.
  - rewrite IH, <- app_assoc. simpl. f_equal. lia.
Qed.

Lemma pushed_seqs a : forall es k, map hseq (pushed a es k) = seq k (length es).
Proof.
  induction es as [|e r IH]; intros k; simpl; auto.
  unfold hseq at 1. simpl. f_equal. apply IH.
Qed.

Lemma pushed_length a es k : length (pushed a es k) = length es.
Proof. rewrite <- (map_length hseq), pushed_seqs, seq_length. reflexivity. Qed.

Lemma pushed_edges a : forall es k,
  map hedge (pushed a es k) = map (fun e => (a, tgt e, ewgt e)) es.
Proof.
  induction es as [|e r IH]; intros k; simpl; auto.
  unfold hedge at 1. simpl. f_equal. apply IH.
Qed.

Lemma pushed_in_oedges v a k x : In a (vnodes v) ->
  In x (map hedge (pushed a (out_edges v a) k)) -> In x (oedges v).
Proof.
  intros Ha Hx. rewrite pushed_edges in Hx. apply in_map_iff in Hx.
  destruct Hx as [[[ei t] w] [E Hi]]. subst x. unfold tgt, ewgt. simpl.
  apply in_oedges. split; auto. exists ei; auto.
Qed.

Lemma oedges_in_pushed v a b w k :
  In (a, b, w) (oedges v) -> In (a, b, w) (map hedge (pushed a (out_edges v a) k)).
Proof.
  intros Hi. apply in_oedges in Hi. destruct Hi as [_ [ei Hi]].
  rewrite pushed_edges. apply in_map_iff. exists (ei, b, w). split; auto.
Qed.

Lemma NoDup_app_disj {A} (l1 l2 : list A) :
  NoDup l1 -> NoDup l2 -> (forall x, In x l1 -> In x l2 -> False) -> NoDup (l1 ++ l2).
Proof.
  induction 1 as [|a l1 Hn ND IH]; intros ND2 D; simpl; auto.
  constructor.
  - intros Hi. apply in_app_iff in Hi. destruct Hi as [Hi|Hi]; auto.
    apply (D a); simpl; auto.
  - apply IH; auto. intros x H1 H2. apply (D x); simpl; auto.
Qed.

(* ------------------------------------------------------------------ *)
(* the fuel measure: out-degrees of the nodes not yet taken             *)

Fixpoint rem_out (v : view) (taken : list nat) (L : list nat) : nat :=
  match L with
  | [] => 0
  | a :: r => (if mem a taken then 0 else length (out_edges v a)) + rem_out v taken r
  end.

Lemma rem_out_nil v L :
  rem_out v [] L = length (flat_map (fun a => map (fun e => (eid e, a, tgt e, ewgt e)) (out_edges v a)) L).
Proof.
  induction L as [|a L IH]; [reflexivity|].
  cbn [rem_out flat_map]. rewrite app_length, map_length, <- IH. reflexivity.
Qed.

Lemma mem_cons a t taken : mem a (t :: taken) = orb (Nat.eqb t a) (mem a taken).
Proof. reflexivity. Qed.

Lemma rem_out_mono v t taken L : rem_out v (t :: taken) L <= rem_out v taken L.
Proof.
  induction L as [|a L IH]; [apply Nat.le_refl|].
  cbn [rem_out]. rewrite mem_cons.
  destruct (Nat.eqb t a); destruct (mem a taken); simpl orb; cbv iota; lia.
Qed.

Lemma rem_out_take v t taken : mem t taken = false -> forall L, In t L ->
  rem_out v (t :: taken) L + length (out_edges v t) <= rem_out v taken L.
Proof.
  intros Em. induction L as [|a L IH]; intros Hi; [destruct Hi|].
  cbn [rem_out]. rewrite mem_cons.
  destruct Hi as [Hi|Hi].
  - subst a. pose proof (rem_out_mono v t taken L) as M.
    rewrite Nat.eqb_refl, Em. simpl orb. cbv iota. lia.
  - specialize (IH Hi).
    destruct (Nat.eqb t a); destruct (mem a taken); simpl orb; cbv iota; lia.
Qed.

(* ------------------------------------------------------------------ *)
(* connectivity and sets of nodes                                       *)

Lemma conn_inside (S : nat -> Prop) es :
  (forall a b, In (a, b) es -> S a /\ S b) ->
  forall x y, conn es x y -> x = y \/ (S x /\ S y).
Proof.
  intros H x y C. induction C as [x | x y Hi | x y C IH | x y z C1 IH1 C2 IH2].
  - left; reflexivity.
  - right. apply H; auto.
  - destruct IH as [IH|[IH1 IH2]]; [left; auto | right; auto].
  - destruct IH1 as [E1|[A1 B1]]; destruct IH2 as [E2|[A2 B2]]; subst; auto.
Qed.

Lemma conn_respects (S : nat -> Prop) es :
  (forall a b, In (a, b) es -> (S a <-> S b)) ->
  forall x y, conn es x y -> (S x <-> S y).
Proof.
  intros H x y C. induction C as [x | x y Hi | x y C IH | x y z C1 IH1 C2 IH2].
  - reflexivity.
  - apply H; auto.
  - symmetry; auto.
  - rewrite IH1; auto.
Qed.

(* ------------------------------------------------------------------ *)
(* the loop invariant                                                  *)

Record PInv (v : view) (n0 : nat) (taken : list nat) (h : mheap) (k : nat)
            (acc : list (nat * nat * Z)) : Prop := {
  pi_nd : NoDup taken;
  pi_in : incl taken (vnodes v);
  pi_n0 : In n0 taken;
  pi_hnd : NoDup (map hseq h);
  pi_hlt : forall y, In y h -> hseq y < k;
  pi_hedge : forall y, In y h -> In (fst (fst (hedge y))) taken /\ In (hedge y) (oedges v);
  pi_closed : forall a b w, In a taken -> In (a, b, w) (oedges v) ->
                In b taken \/ In (a, b, w) (map hedge h);
  pi_pos : forall ao bo w, In (ao, bo, w) acc ->
             ao < length (vnodes v) /\ bo < length (vnodes v);
  pi_sub : incl (decode v acc) (oedges v);
  pi_ends : forall a b, In (a, b) (ends (decode v acc)) -> In a taken /\ In b taken;
  pi_conn : forall x, In x taken -> conn (ends (decode v acc)) n0 x;
  pi_acyc : acyclic_edges (ends (decode v acc));
  pi_len : S (length acc) = length taken
}.
Arguments pi_nd {v n0 taken h k acc} _.
Arguments pi_in {v n0 taken h k acc} _.
Arguments pi_n0 {v n0 taken h k acc} _.
Arguments pi_hnd {v n0 taken h k acc} _.
Arguments pi_hlt {v n0 taken h k acc} _ y _.
Arguments pi_hedge {v n0 taken h k acc} _ y _.
Arguments pi_closed {v n0 taken h k acc} _ a b w _ _.
Arguments pi_pos {v n0 taken h k acc} _ ao bo w _.
Arguments pi_sub {v n0 taken h k acc} _.
Arguments pi_ends {v n0 taken h k acc} _ a b _.
Arguments pi_conn {v n0 taken h k acc} _ x _.
Arguments pi_acyc {v n0 taken h k acc} _.
Arguments pi_len {v n0 taken h k acc} _.

Lemma pinv_init v n0 : In n0 (vnodes v) ->
  PInv v n0 [n0] (pushed n0 (out_edges v n0) 0) (length (out_edges v n0)) [].
Proof.
  intros Hn. constructor.
  - constructor; [intros [] | constructor].
  - intros x [Hx|[]]. subst x; auto.
  - simpl; auto.
  - rewrite pushed_seqs. apply seq_NoDup.
  - intros y Hy. apply (in_map hseq) in Hy. rewrite pushed_seqs in Hy.
    apply in_seq in Hy. lia.
  - intros y Hy. assert (Hy' := in_map hedge _ _ Hy). split.
    + rewrite pushed_edges in Hy'. apply in_map_iff in Hy'.
      destruct Hy' as [e [E _]]. rewrite <- E. simpl. auto.
    + eapply pushed_in_oedges; eauto.
  - intros a b w [Ha|[]] Hi. subst a. right. apply oedges_in_pushed; auto.
  - intros ao bo w [].
  - intros e [].
  - intros a b [].
  - intros x [Hx|[]]. subst x. apply c_refl.
  - exact I.
  - reflexivity.
Qed.

Lemma in_map_hedge_pop (m : Z * nat * (nat * nat)) l1 l2 x :
  In x (map hedge (l1 ++ m :: l2)) -> x = hedge m \/ In x (map hedge (l1 ++ l2)).
Proof.
  rewrite !map_app. simpl. rewrite !in_app_iff. simpl. intuition.
Qed.

Section Step.
  Variables (v : view) (n0 : nat) (taken : list nat) (h : mheap) (k : nat)
            (acc : list (nat * nat * Z)).
  Variables (w : Z) (q s t : nat) (l1 l2 : mheap).
  Hypothesis Hok : POk v.
  Hypothesis K : PInv v n0 taken h k acc.
  Hypothesis Eh : h = l1 ++ (w, q, (s, t)) :: l2.

  Let m : Z * nat * (nat * nat) := (w, q, (s, t)).

  Lemma pstep_in_h : forall y, In y (l1 ++ l2) -> In y h.
  Proof.
    intros y Hy. rewrite Eh. apply in_app_iff in Hy. apply in_app_iff. simpl. tauto.
  Qed.

  Lemma pstep_m : In s taken /\ In (s, t, w) (oedges v).
  Proof.
    apply (pi_hedge K m). rewrite Eh. apply in_app_iff. simpl. auto.
  Qed.

  (* the target is already in the tree: nothing is emitted *)
  Lemma pinv_skip : In t taken -> PInv v n0 taken (l1 ++ l2) k acc.
  Proof.
    intros Ht. constructor.
    - exact (pi_nd K).
    - exact (pi_in K).
    - exact (pi_n0 K).
    - apply (pop_nodup h m l1 l2 Eh (pi_hnd K)).
    - intros y Hy. apply (pi_hlt K). apply pstep_in_h; auto.
    - intros y Hy. apply (pi_hedge K). apply pstep_in_h; auto.
    - intros a b w' Ha Hi. destruct (pi_closed K a b w' Ha Hi) as [Hb|Hb]; auto.
      rewrite Eh in Hb. apply in_map_hedge_pop in Hb. destruct Hb as [Hb|Hb]; auto.
      unfold hedge in Hb. simpl in Hb. inversion Hb; subst. auto.
    - exact (pi_pos K).
    - exact (pi_sub K).
    - exact (pi_ends K).
    - exact (pi_conn K).
    - exact (pi_acyc K).
    - exact (pi_len K).
  Qed.

  (* the target is new: the edge is emitted, the edges of the target are pushed *)
  Lemma pinv_take so to_ :
    ~ In t taken ->
    nth_error (vnodes v) so = Some s -> nth_error (vnodes v) to_ = Some t ->
    PInv v n0 (t :: taken) ((l1 ++ l2) ++ pushed t (out_edges v t) k)
         (k + length (out_edges v t)) (acc ++ [(so, to_, w)]).
  Proof.
    intros Ht Hso Hto.
    destruct pstep_m as [Hs Hst].
    pose proof Hok as [_ [Htgt _]].
    assert (Htv : In t (vnodes v)) by (apply (Htgt s t w); auto).
    assert (Ed : decode v (acc ++ [(so, to_, w)]) = decode v acc ++ [(s, t, w)]).
    { rewrite decode_app. simpl. unfold node_at.
      rewrite (nth_error_nth (vnodes v) so 0 Hso), (nth_error_nth (vnodes v) to_ 0 Hto).
      reflexivity. }
    constructor.
    - constructor; [exact Ht | exact (pi_nd K)].
    - intros x [Hx|Hx]; [subst x; auto | apply (pi_in K); auto].
    - right. exact (pi_n0 K).
    - rewrite map_app. apply NoDup_app_disj.
      + apply (pop_nodup h m l1 l2 Eh (pi_hnd K)).
      + rewrite pushed_seqs. apply seq_NoDup.
      + intros x H1 H2. rewrite pushed_seqs in H2. apply in_seq in H2.
        apply in_map_iff in H1. destruct H1 as [y [Ey Hy]]. subst x.
        pose proof (pi_hlt K y (pstep_in_h y Hy)). lia.
    - intros y Hy. apply in_app_iff in Hy. destruct Hy as [Hy|Hy].
      + pose proof (pi_hlt K y (pstep_in_h y Hy)). lia.
      + apply (in_map hseq) in Hy. rewrite pushed_seqs in Hy. apply in_seq in Hy. lia.
    - intros y Hy. apply in_app_iff in Hy. destruct Hy as [Hy|Hy].
      + destruct (pi_hedge K y (pstep_in_h y Hy)) as [A B]. split; [right; auto | auto].
      + assert (Hy' := in_map hedge _ _ Hy). split.
        * rewrite pushed_edges in Hy'. apply in_map_iff in Hy'.
          destruct Hy' as [e [E _]]. rewrite <- E. simpl. auto.
        * eapply pushed_in_oedges; eauto.
    - intros a b w' Ha Hi. rewrite map_app, in_app_iff. destruct Ha as [Ha|Ha].
      + subst a. right. right. apply oedges_in_pushed; auto.
      + destruct (pi_closed K a b w' Ha Hi) as [Hb|Hb]; [left; right; auto|].
        rewrite Eh in Hb. apply in_map_hedge_pop in Hb. destruct Hb as [Hb|Hb]; auto.
        unfold hedge in Hb. simpl in Hb. inversion Hb; subst. left; left; auto.
    - intros ao' bo' w' Hi. apply in_app_iff in Hi. destruct Hi as [Hi|[Hi|[]]].
      + exact (pi_pos K ao' bo' w' Hi).
      + inversion Hi; subst. split; eapply nth_error_Some_lt; eauto.
    - rewrite Ed. intros e He. apply in_app_iff in He. destruct He as [He|[He|[]]].
      + apply (pi_sub K); auto.
      + subst e. exact Hst.
    - rewrite Ed, ends_app. simpl. intros a b Hi. apply in_app_iff in Hi.
      destruct Hi as [Hi|[Hi|[]]].
      + destruct (pi_ends K a b Hi). split; right; auto.
      + inversion Hi; subst. split; [right; auto | left; auto].
    - rewrite Ed, ends_app. simpl. intros x [Hx|Hx].
      + subst x. eapply c_trans.
        * eapply conn_incl; [|exact (pi_conn K s Hs)]. intros p Hp. apply in_app_iff; auto.
        * apply c_base. apply in_app_iff. simpl. auto.
      + eapply conn_incl; [|exact (pi_conn K x Hx)]. intros p Hp. apply in_app_iff; auto.
    - rewrite Ed, ends_app. simpl. apply acyclic_from_snoc; [exact (pi_acyc K)|].
      rewrite app_nil_r. intros C.
      destruct (conn_inside (fun x => In x taken) _ (pi_ends K) s t C) as [E|[_ B]].
      + subst t. auto.
      + auto.
    - rewrite app_length. simpl. pose proof (pi_len K). lia.
  Qed.
End Step.

(* ------------------------------------------------------------------ *)
(* the loop                                                            *)

Lemma prim_drive_ok v n0 : POk v -> forall fuel taken h k acc,
  PInv v n0 taken h k acc -> length h + rem_out v taken (vnodes v) < fuel ->
  exists l taken' h' k', prim_drive fuel v taken h k acc = Ok l /\
    PInv v n0 taken' h' k' l /\ (h' = [] \/ length taken' = length (vnodes v)).
Proof.
  intros Hok. induction fuel as [|f IH]; intros taken h k acc K Hf; [lia|].
  simpl. unfold vnode_count.
  destruct (Nat.eqb_spec (length taken) (length (vnodes v))) as [El|El].
  { simpl. exists acc, taken, h, k. auto. }
  destruct (mpop h) as [[m h']|] eqn:Em.
  - destruct (mpop_spec h m h' (pi_hnd K) Em) as [[l1 [l2 [Eh Eh']]] _].
    destruct m as [[w q] [s t]].
    assert (Hlen : length h = S (length (l1 ++ l2))).
    { rewrite Eh, !app_length. simpl. lia. }
    subst h'.
    destruct (pstep_m v n0 taken h k acc w q s t l1 l2 K Eh) as [Hs Hst].
    destruct (mem t taken) eqn:Et.
    + apply (IH taken (l1 ++ l2) k acc); [|lia].
      eapply pinv_skip; [exact K | exact Eh | apply mem_In; exact Et].
    + rewrite push_edges_spec.
      pose proof Hok as [_ [Htgt _]].
      assert (Htv : In t (vnodes v)) by (apply (Htgt s t w); auto).
      assert (Hsv : In s (vnodes v)) by (apply (pi_in K); auto).
      destruct (index_in_0 (vnodes v) s Hsv) as [so [Es Hso]].
      destruct (index_in_0 (vnodes v) t Htv) as [to_ [Et' Hto]].
      rewrite Es, Et'.
      apply (IH (t :: taken)).
      * eapply pinv_take; [exact Hok | exact K | exact Eh | | exact Hso | exact Hto].
        intros Hi. apply mem_In in Hi. congruence.
      * rewrite app_length, pushed_length.
        pose proof (rem_out_take v t taken Et (vnodes v) Htv). lia.
  - apply mpop_none in Em. subst h. exists acc, taken, [], k. auto.
Qed.

Lemma all_out_length v : length (all_out v) = rem_out v [] (vnodes v).
Proof. rewrite rem_out_nil. reflexivity. Qed.

(* ------------------------------------------------------------------ *)
(* T6                                                                  *)

Theorem prim_spanning_tree v n0 rest : POk v -> vnodes v = n0 :: rest ->
  exists l, prim v = Ok l /\
    incl (decode v l) (oedges v) /\
    acyclic_edges (ends (decode v l)) /\
    (forall x, uconn (ends (decode v l)) n0 x <-> uconn (ends (oedges v)) n0 x) /\
    (forall a b, In (a, b) (ends (decode v l)) -> uconn (ends (decode v l)) n0 a) /\
    exists comp, NoDup comp /\ (forall x, In x comp <-> uconn (ends (oedges v)) n0 x) /\
                 S (length l) = length comp.
Proof.
  intros Hok Ev.
  assert (Hn : In n0 (vnodes v)) by (rewrite Ev; left; auto).
  unfold prim. rewrite Ev. cbv iota. rewrite push_edges_spec. cbv beta iota.
  destruct (prim_drive_ok v n0 Hok (4 * trav_fuel v + 4) [n0]
              (pushed n0 (out_edges v n0) 0) (length (out_edges v n0)) [] (pinv_init v n0 Hn))
    as [l [taken [h [k [E [K Hend]]]]]].
  { rewrite pushed_length.
    assert (Em : mem n0 [] = false) by reflexivity.
    pose proof (rem_out_take v n0 [] Em (vnodes v) Hn) as R.
    rewrite <- all_out_length in R. unfold trav_fuel. lia. }
  exists l. split; [exact E|].
  assert (Sub : forall x y, conn (ends (decode v l)) x y -> conn (ends (oedges v)) x y).
  { apply conn_incl. intros [a b] Hi. apply in_ends in Hi. destruct Hi as [w Hi].
    apply in_ends. exists w. apply (pi_sub K); auto. }
  assert (All : forall x, conn (ends (oedges v)) n0 x -> In x taken).
  { destruct Hend as [Eh|El].
    - subst h. intros x C.
      apply (conn_respects (fun z => In z taken) (ends (oedges v))) with (x := n0) (y := x); auto.
      + intros a b Hi. apply in_ends in Hi. destruct Hi as [w Hi]. split; intros H.
        * destruct (pi_closed K a b w H Hi) as [Hb|[]]; auto.
        * pose proof Hok as [_ [_ Hsym]]. destruct (Hsym a b w Hi) as [w' Hi'].
          destruct (pi_closed K b a w' H Hi') as [Ha|[]]; auto.
      + exact (pi_n0 K).
    - intros x C.
      assert (Hincl : incl (vnodes v) taken).
      { apply NoDup_length_incl; [exact (pi_nd K) | lia | exact (pi_in K)]. }
      destruct (conn_inside (fun z => In z (vnodes v)) (ends (oedges v))) with (x := n0) (y := x)
        as [E0|[_ Hx]]; auto.
      + intros a b Hi. apply in_ends in Hi. destruct Hi as [w Hi]. split.
        * apply in_oedges in Hi. tauto.
        * pose proof Hok as [_ [Htgt _]]. apply (Htgt a b w); auto.
      + subst x. exact (pi_n0 K). }
  split; [exact (pi_sub K)|]. split; [exact (pi_acyc K)|]. split; [|split].
  - intros x. unfold uconn. split; [apply Sub|]. intros C. apply (pi_conn K). apply All; auto.
  - intros a b Hi. apply (pi_conn K). apply (pi_ends K a b Hi).
  - exists taken. split; [exact (pi_nd K)|]. split; [|exact (pi_len K)].
    intros x. unfold uconn. split; [|apply All].
    intros Hx. apply Sub. apply (pi_conn K); auto.
Qed.

Theorem prim_empty v : vnodes v = [] -> prim v = Ok [].
Proof. intros E. unfold prim. rewrite E. reflexivity. Qed.

(* ------------------------------------------------------------------ *)
(* a checker for POk (used for the concrete example)                    *)

Definition pok_b (v : view) : bool :=
  andb (nodupb (vnodes v))
    (forallb (fun e =>
                andb (mem (snd (fst e)) (vnodes v))
                     (existsb (fun e' => andb (Nat.eqb (fst (fst e')) (snd (fst e)))
                                              (Nat.eqb (snd (fst e')) (fst (fst e))))
                              (oedges v)))
             (oedges v)).

Lemma pok_b_sound v : pok_b v = true -> POk v.
Proof.
  unfold pok_b. intros H. apply andb_true_iff in H. destruct H as [H1 H2].
  rewrite forallb_forall in H2.
  split; [apply nodupb_NoDup; auto|]. split.
  - intros a b w Hi. specialize (H2 _ Hi). simpl in H2.
    apply andb_true_iff in H2. destruct H2 as [Mb _]. apply mem_In; auto.
  - intros a b w Hi. specialize (H2 _ Hi). simpl in H2.
    apply andb_true_iff in H2. destruct H2 as [_ Ex].
    apply existsb_exists in Ex. destruct Ex as [[[a' b'] w'] [Hi' E]]. simpl in E.
    apply andb_true_iff in E. destruct E as [E1 E2].
    apply Nat.eqb_eq in E1. apply Nat.eqb_eq in E2. subst a' b'. exists w'; auto.
Qed.
