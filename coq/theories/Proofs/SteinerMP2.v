(* C20e, part 2: prune (the iterated removal of non-terminal leaves of steiner_tree) keeps a tree a
   tree, never removes a terminal, and reaches its fixpoint with the fuel it is given. *)
From Coq Require Import Lia ZArith Bool Permutation.
From PG Require Import Lib.Io Model.View Model.UnionFindM Model.MstM Model.MiscM Model.SteinerM
  Spec.Partition Spec.Forest Spec.MiscSpec
  Proofs.UnionFindH Proofs.ForestP Proofs.MstP Proofs.PrimP Proofs.MiscSteinerP1 Proofs.SteinerMP1.

(* ------------------------------------------------------------------ *)
(* list facts                                                           *)

Lemma mem_false x l : mem x l = false <-> ~ In x l.
Proof.
  split.
  - intros E Hi. apply mem_In in Hi. rewrite Hi in E. discriminate E.
  - intros H. destruct (mem x l) eqn:E; [|reflexivity]. exfalso. apply H, mem_In, E.
Qed.

Lemma mem_app x l1 l2 : mem x (l1 ++ l2) = orb (mem x l1) (mem x l2).
Proof.
  induction l1 as [|h t IH]; cbn [app mem]; [reflexivity|]. rewrite IH. apply orb_assoc.
Qed.

Lemma filter_len_split {A} (f : A -> bool) l :
  length (filter f l) + length (filter (fun x => negb (f x)) l) = length l.
Proof.
  induction l as [|h t IH]; cbn [filter length]; [reflexivity|].
  destruct (f h); cbn [negb length]; lia.
Qed.

Lemma NoDup_app_intro {A} (l1 l2 : list A) : NoDup l1 -> NoDup l2 ->
  (forall x, In x l1 -> ~ In x l2) -> NoDup (l1 ++ l2).
Proof.
  induction l1 as [|h t IH]; intros N1 N2 Hd; cbn [app]; [exact N2|].
  inversion N1 as [|x r Hx Hr]; subst. constructor.
  - intros Hin. apply in_app_iff in Hin. destruct Hin as [Hin|Hin]; [apply Hx, Hin|].
    apply (Hd h); [left; reflexivity | exact Hin].
  - apply IH; [exact Hr | exact N2|]. intros x Hx'. apply Hd. right. exact Hx'.
Qed.

Lemma filter_notin_length K R : NoDup K -> NoDup R -> incl R K ->
  length (filter (fun n => negb (mem n R)) K) + length R = length K.
Proof.
  intros NK NR Hi.
  pose proof (filter_len_split (fun n => mem n R) K) as E.
  assert (P : Permutation (filter (fun n => mem n R) K) R).
  { apply NoDup_Permutation; [apply NoDup_filter, NK | exact NR |].
    intros x. rewrite filter_In, mem_In. split; [tauto|]. intros Hx. split; [apply Hi, Hx | exact Hx]. }
  apply Permutation_length in P. lia.
Qed.

Lemma length_one_eq {A} (l : list A) x y : length l = 1 -> In x l -> In y l -> x = y.
Proof.
  destruct l as [|a [|b t]]; cbn [length]; intros E Hx Hy; try discriminate E.
  destruct Hx as [<-|[]]. destruct Hy as [<-|[]]. reflexivity.
Qed.

(* ------------------------------------------------------------------ *)
(* vocabulary                                                           *)

Definition alive2 (R : list nat) : edge4 -> bool :=
  fun '(_, a, b, _) => andb (negb (mem a R)) (negb (mem b R)).
Definition rest_of (R : list nat) (E : list edge4) : list edge4 := filter (alive2 R) E.
Definition inc4 (x : nat) : edge4 -> bool := fun '(_, a, b, _) => orb (Nat.eqb a x) (Nat.eqb b x).
Definition deg4 (x : nat) (E : list edge4) : nat := length (filter (inc4 x) E).
Definition touch4 (L : list nat) : edge4 -> bool := fun '(_, a, b, _) => orb (mem a L) (mem b L).

Definition nb_list (E : list edge4) (x : nat) : list nat :=
  flat_map (fun '(_, a, b, _) => (if Nat.eqb a x then [b] else []) ++ (if Nat.eqb b x then [a] else [])) E.

Definition prune_cond (E : list edge4) (terms R : list nat) (n : nat) : bool :=
  andb (negb (mem n terms)) (andb (negb (mem n R))
       (Nat.eqb (length (filter (fun y => negb (mem y R)) (nbrs_of E n))) 1)).
Definition prune_rem (K : list nat) (E : list edge4) (terms R : list nat) : list nat :=
  filter (prune_cond E terms R) K.

Lemma prune_unfold f K E terms R :
  prune f K E terms R =
  match prune_rem K E terms R, f with
  | [], _ => R
  | _, O => R
  | _, S f' => prune f' K E terms (R ++ prune_rem K E terms R)
  end.
Proof. destruct f; reflexivity. Qed.

Lemma degree_strip x E : degree x (strip4 E) = deg4 x E.
Proof.
  unfold degree, deg4, strip4. induction E as [|[[[e a] b] w] t IH]; [reflexivity|].
  cbn [map filter inc4]. destruct (orb (Nat.eqb a x) (Nat.eqb b x)); cbn [length]; rewrite IH; reflexivity.
Qed.

(* ------------------------------------------------------------------ *)
(* neighbours of a node in a forest                                     *)

Lemma nb_list_In E x y : In y (nb_list E x) <-> exists e w, In (e, x, y, w) E \/ In (e, y, x, w) E.
Proof.
  unfold nb_list. rewrite in_flat_map. split.
  - intros [[[[e a] b] w] [Hin Hy]]. apply in_app_iff in Hy. destruct Hy as [Hy|Hy].
    + destruct (Nat.eqb_spec a x) as [->|]; [|destruct Hy]. destruct Hy as [<-|[]]. exists e, w. left. exact Hin.
    + destruct (Nat.eqb_spec b x) as [->|]; [|destruct Hy]. destruct Hy as [<-|[]]. exists e, w. right. exact Hin.
  - intros [e [w [Hin|Hin]]].
    + exists (e, x, y, w). split; [exact Hin|]. rewrite Nat.eqb_refl. apply in_app_iff. left. left. reflexivity.
    + exists (e, y, x, w). split; [exact Hin|]. rewrite Nat.eqb_refl. apply in_app_iff. right. left. reflexivity.
Qed.

Lemma nb_list_nodup : forall E prev x, acyclic_from prev (ends4 E) -> NoDup (nb_list E x).
Proof.
  induction E as [|[[[e a] b] w] t IH]; intros prev x Hac; [constructor|].
  change (ends4 ((e, a, b, w) :: t)) with ((a, b) :: ends4 t) in Hac.
  pose proof (acyclic_from_tail _ _ _ _ Hac) as [T1 T2].
  cbn [acyclic_from] in Hac. destruct Hac as [Hn Hac].
  assert (Hab : a <> b). { intros ->. apply Hn, c_refl. }
  change (nb_list ((e, a, b, w) :: t) x) with
    (((if Nat.eqb a x then [b] else []) ++ (if Nat.eqb b x then [a] else [])) ++ nb_list t x).
  pose proof (IH _ x Hac) as ND.
  assert (Nb : a = x -> ~ In b (nb_list t x)).
  { intros -> Hin. apply nb_list_In in Hin. destruct Hin as [e' [w' [Hin|Hin]]].
    - apply T1. apply ends4_In. exists e', w'. exact Hin.
    - apply T2. apply ends4_In. exists e', w'. exact Hin. }
  assert (Na : b = x -> ~ In a (nb_list t x)).
  { intros -> Hin. apply nb_list_In in Hin. destruct Hin as [e' [w' [Hin|Hin]]].
    - apply T2. apply ends4_In. exists e', w'. exact Hin.
    - apply T1. apply ends4_In. exists e', w'. exact Hin. }
  destruct (Nat.eqb_spec a x) as [Ea|Ea]; destruct (Nat.eqb_spec b x) as [Eb|Eb]; cbn [app].
  - exfalso. apply Hab. congruence.
  - constructor; [apply Nb, Ea | exact ND].
  - constructor; [apply Na, Eb | exact ND].
  - exact ND.
Qed.

Lemma nbrs_of_forest E x : acyclic_edges (ends4 E) -> nbrs_of E x = nb_list E x.
Proof.
  intros Hac. unfold nbrs_of. fold (nb_list E x). apply nodup_fixed_point. apply (nb_list_nodup E [] x Hac).
Qed.

Lemma nb_alive_deg : forall E R x, (forall e a w, ~ In (e, a, a, w) E) -> ~ In x R ->
  length (filter (fun y => negb (mem y R)) (nb_list E x)) = deg4 x (rest_of R E).
Proof.
  induction E as [|[[[e a] b] w] t IH]; intros R x Hl Hx; [reflexivity|].
  assert (Hl' : forall e a w, ~ In (e, a, a, w) t). { intros e' a' w' Hin. apply (Hl e' a' w'). right. exact Hin. }
  assert (Hab : a <> b). { intros ->. apply (Hl e b w). left. reflexivity. }
  change (nb_list ((e, a, b, w) :: t) x) with
    (((if Nat.eqb a x then [b] else []) ++ (if Nat.eqb b x then [a] else [])) ++ nb_list t x).
  rewrite filter_app, app_length, (IH R x Hl' Hx).
  unfold deg4, rest_of. cbn [filter alive2].
  apply mem_false in Hx.
  destruct (Nat.eqb_spec a x) as [Ea|Ea]; destruct (Nat.eqb_spec b x) as [Eb|Eb]; cbn [app filter].
  - exfalso. apply Hab. congruence.
  - subst a. rewrite Hx. cbn [negb andb]. destruct (mem b R); cbn [negb length filter inc4].
    + reflexivity.
    + rewrite Nat.eqb_refl. cbn [orb length]. reflexivity.
  - subst b. rewrite Hx. rewrite andb_true_r. destruct (mem a R); cbn [negb length filter inc4].
    + reflexivity.
    + rewrite Nat.eqb_refl. rewrite orb_true_r. cbn [length]. reflexivity.
  - destruct (andb (negb (mem a R)) (negb (mem b R))); cbn [length filter inc4]; [|reflexivity].
    apply Nat.eqb_neq in Ea. apply Nat.eqb_neq in Eb. rewrite Ea, Eb. cbn [orb]. reflexivity.
Qed.

(* ------------------------------------------------------------------ *)
(* double counting                                                      *)

Lemma list_sum_cons x l : list_sum (x :: l) = x + list_sum l.
Proof. reflexivity. Qed.

Lemma inc_sum a b : forall L, NoDup L -> ~ (In a L /\ In b L) ->
  list_sum (map (fun n => if orb (Nat.eqb a n) (Nat.eqb b n) then 1 else 0) L) =
  if orb (mem a L) (mem b L) then 1 else 0.
Proof.
  induction L as [|n L IH]; intros ND Hnb; [reflexivity|].
  inversion ND as [|x r Hx Hr]; subst. cbn [map mem]. rewrite list_sum_cons.
  destruct (Nat.eqb_spec a n) as [Ea|Ea]; destruct (Nat.eqb_spec b n) as [Eb|Eb]; cbn [orb].
  - exfalso. apply Hnb. subst. split; left; reflexivity.
  - subst a. rewrite Nat.eqb_refl. cbn [orb].
    rewrite IH; [|exact Hr|].
    + assert (Ma : mem n L = false) by (apply mem_false, Hx).
      assert (Mb : mem b L = false).
      { apply mem_false. intros Hb. apply Hnb. split; [left; reflexivity | right; exact Hb]. }
      rewrite Ma, Mb. reflexivity.
    + intros [H1 _]. apply Hx, H1.
  - subst b. rewrite Nat.eqb_refl. rewrite orb_true_r.
    rewrite IH; [|exact Hr|].
    + assert (Mb : mem n L = false) by (apply mem_false, Hx).
      assert (Ma : mem a L = false).
      { apply mem_false. intros Ha. apply Hnb. split; [right; exact Ha | left; reflexivity]. }
      rewrite Ma, Mb. reflexivity.
    + intros [_ H2]. apply Hx, H2.
  - assert (E1 : Nat.eqb n a = false) by (apply Nat.eqb_neq; congruence).
    assert (E2 : Nat.eqb n b = false) by (apply Nat.eqb_neq; congruence).
    rewrite E1, E2. cbn [orb]. apply IH; [exact Hr|].
    intros [H1 H2]. apply Hnb. split; right; assumption.
Qed.

Lemma list_sum_add {A} (f g : A -> nat) l :
  list_sum (map (fun n => f n + g n) l) = list_sum (map f l) + list_sum (map g l).
Proof. induction l as [|h t IH]; cbn [map]; [reflexivity|]. rewrite !list_sum_cons, IH. lia. Qed.

Lemma double_count L : NoDup L -> forall G,
  (forall e a b w, In (e, a, b, w) G -> ~ (In a L /\ In b L)) ->
  length (filter (touch4 L) G) = list_sum (map (fun n => deg4 n G) L).
Proof.
  intros ND. induction G as [|[[[e a] b] w] t IH]; intros Hnb.
  - cbn [filter length]. clear. induction L as [|n L IHL]; [reflexivity|].
    cbn [map]. rewrite list_sum_cons, <- IHL. reflexivity.
  - assert (E : forall n, deg4 n ((e, a, b, w) :: t) =
                          (if orb (Nat.eqb a n) (Nat.eqb b n) then 1 else 0) + deg4 n t).
    { intros n. unfold deg4. cbn [filter inc4]. destruct (orb (Nat.eqb a n) (Nat.eqb b n)); reflexivity. }
    rewrite (map_ext _ _ E), list_sum_add.
    rewrite (inc_sum a b L ND (Hnb e a b w (or_introl eq_refl))).
    rewrite <- IH; [|intros e' a' b' w' Hin; apply (Hnb e' a' b' w'); right; exact Hin].
    cbn [filter touch4]. destruct (orb (mem a L) (mem b L)); reflexivity.
Qed.

Lemma list_sum_ones {A} (f : A -> nat) l : (forall x, In x l -> f x = 1) -> list_sum (map f l) = length l.
Proof.
  induction l as [|h t IH]; intros H; [reflexivity|]. cbn [map length]. rewrite list_sum_cons.
  rewrite (H h (or_introl eq_refl)), IH; [reflexivity|]. intros x Hx. apply H. right. exact Hx.
Qed.

Lemma rest_of_app E R L : rest_of (R ++ L) E = filter (fun q => negb (touch4 L q)) (rest_of R E).
Proof.
  unfold rest_of. induction E as [|[[[e a] b] w] t IH]; [reflexivity|].
  cbn [filter alive2]. rewrite !mem_app.
  destruct (mem a R); destruct (mem b R); cbn [negb andb orb]; try exact IH.
  - rewrite andb_false_r. exact IH.
  - cbn [filter touch4]. rewrite negb_orb. destruct (andb (negb (mem a L)) (negb (mem b L))); [f_equal|]; exact IH.
Qed.

Lemma rest_of_nil E : rest_of [] E = E.
Proof.
  unfold rest_of. induction E as [|[[[e a] b] w] t IH]; [reflexivity|]. cbn [filter alive2 mem negb andb]. f_equal. exact IH.
Qed.

(* ------------------------------------------------------------------ *)
(* the invariant of the pruning loop                                    *)

Section Prune.
  Variables (K : list nat) (E : list edge4) (terms : list nat).
  Hypothesis HK : NoDup K.
  Hypothesis HE : ends_in K (ends4 E).
  Hypothesis Hac : acyclic_edges (ends4 E).
  Hypothesis Hcnt : S (length E) = length K.
  Hypothesis HT : incl terms K.
  Hypothesis HT0 : terms <> [].

  Definition PInv (R : list nat) : Prop :=
    NoDup R /\ incl R K /\ (forall x, In x R -> ~ In x terms) /\
    length (rest_of R E) + length R = length E.

  Definition alive_nodes (R : list nat) : list nat := filter (fun n => negb (mem n R)) K.

  Lemma E_no_loop : forall e a w, ~ In (e, a, a, w) E.
  Proof.
    intros e a w Hin. apply (acyclic_from_no_loop (ends4 E) [] a Hac). apply ends4_In. exists e, w. exact Hin.
  Qed.

  Lemma alive_nodes_In R x : In x (alive_nodes R) <-> In x K /\ ~ In x R.
  Proof. unfold alive_nodes. rewrite filter_In, negb_true_iff, mem_false. reflexivity. Qed.

  Lemma rest_of_In R e a b w : In (e, a, b, w) (rest_of R E) <-> In (e, a, b, w) E /\ ~ In a R /\ ~ In b R.
  Proof.
    unfold rest_of. rewrite filter_In. cbn [alive2]. rewrite andb_true_iff, !negb_true_iff, !mem_false. reflexivity.
  Qed.

  Lemma term0 : exists t0, In t0 terms.
  Proof. destruct terms as [|t0 ts]; [exfalso; apply HT0; reflexivity|]. exists t0. left. reflexivity. Qed.

  Lemma rest_tree R : PInv R -> IsTree (alive_nodes R) (ends4 (rest_of R E)).
  Proof.
    intros [NR [IR [TR CR]]].
    apply forest_count_tree.
    - destruct term0 as [t0 Ht0].
      intros E0. assert (Hin : In t0 (alive_nodes R)).
      { apply alive_nodes_In. split; [apply HT, Ht0|]. intros Hr. apply (TR t0 Hr Ht0). }
      rewrite E0 in Hin. destruct Hin.
    - apply NoDup_filter, HK.
    - intros a b Hin. apply ends4_In in Hin. destruct Hin as [e [w Hin]]. apply rest_of_In in Hin.
      destruct Hin as [Hin [Ha Hb]].
      assert (Hab : In a K /\ In b K). { apply HE. apply ends4_In. exists e, w. exact Hin. }
      split; apply alive_nodes_In; tauto.
    - apply acyclic4_filter. exact Hac.
    - unfold ends4. rewrite map_length. pose proof (filter_notin_length K R HK NR IR) as E1.
      unfold alive_nodes. unfold edge4 in *. lia.
  Qed.

  Lemma cond_deg R x : ~ In x R ->
    length (filter (fun y => negb (mem y R)) (nbrs_of E x)) = deg4 x (rest_of R E).
  Proof.
    intros Hx. rewrite (nbrs_of_forest E x Hac). apply nb_alive_deg; [exact E_no_loop | exact Hx].
  Qed.

  Lemma prune_rem_In R x : In x (prune_rem K E terms R) <->
    In x K /\ ~ In x terms /\ ~ In x R /\ deg4 x (rest_of R E) = 1.
  Proof.
    unfold prune_rem, prune_cond. rewrite filter_In, !andb_true_iff, !negb_true_iff, !mem_false, Nat.eqb_eq.
    split.
    - intros [H1 [H2 [H3 H4]]]. rewrite (cond_deg R x H3) in H4. tauto.
    - intros [H1 [H2 [H3 H4]]]. rewrite (cond_deg R x H3). tauto.
  Qed.

  (* two leaves of the remaining tree are never adjacent: the tree holds a terminal *)
  Lemma rem_not_adjacent R : PInv R -> forall e a b w, In (e, a, b, w) (rest_of R E) ->
    ~ (In a (prune_rem K E terms R) /\ In b (prune_rem K E terms R)).
  Proof.
    intros HP e a b w Hin [Ha Hb].
    apply prune_rem_In in Ha. destruct Ha as [Ka [Ta [Ra Da]]].
    apply prune_rem_In in Hb. destruct Hb as [Kb [Tb [Rb Db]]].
    destruct (rest_tree R HP) as [_ [_ [_ [_ Hconn]]]].
    destruct term0 as [t0 Ht00].
    assert (Ht0 : In t0 (alive_nodes R)).
    { apply alive_nodes_In. split; [apply HT, Ht00|]. destruct HP as [_ [_ [TR _]]].
      intros Hr. apply (TR t0 Hr Ht00). }
    assert (Ha' : In a (alive_nodes R)) by (apply alive_nodes_In; tauto).
    pose proof (Hconn t0 a Ht0 Ha') as C.
    assert (Hclosed : forall x y, In (x, y) (ends4 (rest_of R E)) -> ((x = a \/ x = b) <-> (y = a \/ y = b))).
    { intros x y Hxy. apply ends4_In in Hxy. destruct Hxy as [e' [w' Hin']].
      assert (Ia : In (e, a, b, w) (filter (inc4 a) (rest_of R E))).
      { apply filter_In. split; [exact Hin|]. cbn [inc4]. rewrite Nat.eqb_refl. reflexivity. }
      assert (Ib : In (e, a, b, w) (filter (inc4 b) (rest_of R E))).
      { apply filter_In. split; [exact Hin|]. cbn [inc4]. rewrite Nat.eqb_refl. apply orb_true_r. }
      split; intros [Hx|Hx].
      - subst x. assert (I2 : In (e', a, y, w') (filter (inc4 a) (rest_of R E))).
        { apply filter_In. split; [exact Hin'|]. cbn [inc4]. rewrite Nat.eqb_refl. reflexivity. }
        pose proof (length_one_eq _ _ _ Da Ia I2) as Eq. injection Eq as _ <- _. right. reflexivity.
      - subst x. assert (I2 : In (e', b, y, w') (filter (inc4 b) (rest_of R E))).
        { apply filter_In. split; [exact Hin'|]. cbn [inc4]. rewrite Nat.eqb_refl. reflexivity. }
        pose proof (length_one_eq _ _ _ Db Ib I2) as Eq. injection Eq as _ <- <- _. left. reflexivity.
      - subst y. assert (I2 : In (e', x, a, w') (filter (inc4 a) (rest_of R E))).
        { apply filter_In. split; [exact Hin'|]. cbn [inc4]. rewrite Nat.eqb_refl. apply orb_true_r. }
        pose proof (length_one_eq _ _ _ Da Ia I2) as Eq. injection Eq as _ <- <- _. left. reflexivity.
      - subst y. assert (I2 : In (e', x, b, w') (filter (inc4 b) (rest_of R E))).
        { apply filter_In. split; [exact Hin'|]. cbn [inc4]. rewrite Nat.eqb_refl. apply orb_true_r. }
        pose proof (length_one_eq _ _ _ Db Ib I2) as Eq. injection Eq as _ <- _. left. reflexivity. }
    pose proof (conn_respects (fun x => x = a \/ x = b) _ Hclosed t0 a C) as [_ H2].
    destruct (H2 (or_introl eq_refl)) as [H|H]; subst t0.
    - apply Ta, Ht00.
    - apply Tb, Ht00.
  Qed.

  Lemma pinv_round R : PInv R -> PInv (R ++ prune_rem K E terms R).
  Proof.
    intros HP. pose proof HP as [NR [IR [TR CR]]].
    set (rem := prune_rem K E terms R).
    assert (Nrem : NoDup rem) by (apply NoDup_filter, HK).
    split; [|split; [|split]].
    - apply NoDup_app_intro; [exact NR | exact Nrem|].
      intros x Hx Hx'. apply prune_rem_In in Hx'. tauto.
    - intros x Hx. apply in_app_iff in Hx. destruct Hx as [Hx|Hx]; [apply IR, Hx|].
      apply prune_rem_In in Hx. tauto.
    - intros x Hx. apply in_app_iff in Hx. destruct Hx as [Hx|Hx]; [apply TR, Hx|].
      apply prune_rem_In in Hx. tauto.
    - rewrite rest_of_app, app_length.
      pose proof (filter_len_split (touch4 rem) (rest_of R E)) as E1.
      assert (E2 : length (filter (touch4 rem) (rest_of R E)) = length rem).
      { rewrite (double_count rem Nrem (rest_of R E) (rem_not_adjacent R HP)).
        apply list_sum_ones. intros x Hx. apply prune_rem_In in Hx. tauto. }
      lia.
  Qed.

  Lemma pinv_nil : PInv [].
  Proof.
    split; [constructor|]. split; [intros x []|]. split; [intros x []|].
    rewrite rest_of_nil. cbn [length]. lia.
  Qed.

  Lemma prune_pinv : forall f R, PInv R -> PInv (prune f K E terms R).
  Proof.
    induction f as [|f IH]; intros R HP; rewrite prune_unfold.
    - destruct (prune_rem K E terms R); exact HP.
    - destruct (prune_rem K E terms R) as [|r0 rs] eqn:Er; [exact HP|].
      apply IH. rewrite <- Er. apply pinv_round, HP.
  Qed.

  Lemma pinv_len R : PInv R -> length R <= length K.
  Proof. intros [NR [IR _]]. apply NoDup_incl_length; assumption. Qed.

  Lemma prune_fix : forall f R, PInv R -> length K < f + length R ->
    prune_rem K E terms (prune f K E terms R) = [].
  Proof.
    induction f as [|f IH]; intros R HP Hf; rewrite prune_unfold.
    - pose proof (pinv_len R HP). lia.
    - destruct (prune_rem K E terms R) as [|r0 rs] eqn:Er; [exact Er|].
      apply IH; [rewrite <- Er; apply pinv_round, HP|].
      rewrite app_length. cbn [length]. lia.
  Qed.

  (* the result of the loop as steiner_for calls it *)
  Definition pruned : list nat := prune (S (length K)) K E terms [].

  Lemma pruned_pinv : PInv pruned.
  Proof. apply prune_pinv, pinv_nil. Qed.

  Lemma pruned_fix : prune_rem K E terms pruned = [].
  Proof. apply prune_fix; [apply pinv_nil | cbn [length]; lia]. Qed.

  Theorem pruned_tree : IsTree (alive_nodes pruned) (ends4 (rest_of pruned E)).
  Proof. apply rest_tree, pruned_pinv. Qed.

  Theorem pruned_terminals : incl terms (alive_nodes pruned).
  Proof.
    intros t Ht. apply alive_nodes_In. split; [apply HT, Ht|].
    destruct pruned_pinv as [_ [_ [TR _]]]. intros Hr. apply (TR t Hr Ht).
  Qed.

  Theorem pruned_leaves x : In x (alive_nodes pruned) -> deg4 x (rest_of pruned E) = 1 -> In x terms.
  Proof.
    intros Hx Hd. apply alive_nodes_In in Hx. destruct Hx as [Kx Rx].
    destruct (in_dec Nat.eq_dec x terms) as [Hi|Hn]; [exact Hi|]. exfalso.
    assert (Hin : In x (prune_rem K E terms pruned)) by (apply prune_rem_In; tauto).
    rewrite pruned_fix in Hin. destruct Hin.
  Qed.
End Prune.
