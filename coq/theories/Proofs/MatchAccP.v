(* M1: the accessors of a mate vector (m_mate, m_edges, m_nodes), and general facts about
   [endpoints] that the optimality proofs (MatchOptP.v) reuse. *)
From Coq Require Import Permutation.
From PG Require Import Lib.Io Model.View Model.MatchM Spec.Reach Spec.MatchSpec.

(* ------------------------------------------------------------------ *)
(* Lists indexed by position                                            *)

Lemma combine_seq_In {A} (m : list A) s i o :
  In (i, o) (combine (seq s (length m)) m) <-> s <= i /\ nth_error m (i - s) = Some o.
Proof.
  revert s; induction m as [|a t IH]; intros s.
  - cbn [length seq combine In]. split; [tauto|]. intros [_ H].
    destruct (i - s); cbn [nth_error] in H; discriminate.
  - cbn [length seq combine In]. rewrite IH. split.
    + intros [H | [Hle Hn]].
      * injection H as H1 H2. subst i o. split; [lia|]. rewrite Nat.sub_diag. reflexivity.
      * split; [lia|]. replace (i - s) with (S (i - S s)) by lia. exact Hn.
    + intros [Hle Hn]. destruct (Nat.eq_dec i s) as [He|Hne].
      * left. subst i. rewrite Nat.sub_diag in Hn. cbn [nth_error] in Hn. congruence.
      * right. split; [lia|]. replace (i - s) with (S (i - S s)) in Hn by lia. exact Hn.
Qed.

Lemma combine_seq0_In {A} (m : list A) i o :
  In (i, o) (combine (seq 0 (length m)) m) <-> nth_error m i = Some o.
Proof.
  rewrite combine_seq_In, Nat.sub_0_r. split; [tauto | intros H; split; [lia | exact H]].
Qed.

Lemma m_mate_Some m i j : m_mate m i = Some j <-> nth_error m i = Some (Some j).
Proof. unfold m_mate. destruct (nth_error m i) as [o|]; split; congruence. Qed.

Lemma nodup_app' {A} (l1 l2 : list A) :
  NoDup l1 -> NoDup l2 -> (forall x, In x l1 -> ~ In x l2) -> NoDup (l1 ++ l2).
Proof.
  induction l1 as [|a t IH]; cbn [app]; intros H1 H2 Hd; [exact H2|].
  inversion H1 as [|? ? Ha Ht]; subst. constructor.
  - rewrite in_app_iff. intros [Hin|Hin]; [contradiction|].
    apply (Hd a); [left; reflexivity | exact Hin].
  - apply IH; auto. intros x Hx. apply Hd. right; exact Hx.
Qed.

Lemma flat_map_idx_nodup {A B} (f : nat * A -> list B) (g : B -> nat) (m : list A) s :
  (forall p, NoDup (f p)) -> (forall p b, In b (f p) -> g b = fst p) ->
  NoDup (flat_map f (combine (seq s (length m)) m)).
Proof.
  intros Hn Hg. revert s; induction m as [|a t IH]; intros s; cbn [length seq combine flat_map].
  - constructor.
  - apply nodup_app'; auto. intros x Hx Hx'. apply in_flat_map in Hx'.
    destruct Hx' as [[i o] [Hin Hf]]. apply combine_seq_In in Hin.
    apply Hg in Hx. apply Hg in Hf. cbn [fst] in Hx, Hf. lia.
Qed.

Lemma NoDup_single {A} (a : A) : NoDup [a].
Proof. constructor; [intros [] | constructor]. Qed.

(* ------------------------------------------------------------------ *)
(* m_edges, m_nodes                                                     *)

Theorem m_edges_spec m i j : In (i, j) (m_edges m) <-> (i < j /\ m_mate m i = Some j).
Proof.
  unfold m_edges. rewrite in_flat_map. split.
  - intros [[i' o] [Hin Hf]]. apply combine_seq0_In in Hin.
    destruct o as [j'|]; [|destruct Hf].
    destruct (Nat.ltb_spec i' j') as [Hlt|Hge]; [|destruct Hf].
    destruct Hf as [Hf|[]]. injection Hf as H1 H2. subst i' j'.
    split; [exact Hlt|]. apply m_mate_Some; exact Hin.
  - intros [Hlt Hm]. exists (i, Some j). split.
    + apply combine_seq0_In, m_mate_Some; exact Hm.
    + apply Nat.ltb_lt in Hlt. rewrite Hlt. left; reflexivity.
Qed.

Theorem m_nodes_spec m i : In i (m_nodes m) <-> exists j, m_mate m i = Some j.
Proof.
  unfold m_nodes. rewrite in_flat_map. split.
  - intros [[i' o] [Hin Hf]]. apply combine_seq0_In in Hin.
    destruct o as [j'|]; [|destruct Hf].
    destruct Hf as [Hf|[]]. subst i'. exists j'. apply m_mate_Some; exact Hin.
  - intros [j Hm]. exists (i, Some j). split.
    + apply combine_seq0_In, m_mate_Some; exact Hm.
    + left; reflexivity.
Qed.

Theorem m_edges_nodup m : NoDup (m_edges m).
Proof.
  unfold m_edges. apply flat_map_idx_nodup with (g := fst).
  - intros [i [j|]]; [destruct (Nat.ltb i j)|]; try apply NoDup_single; constructor.
  - intros [i [j|]] b Hb; [destruct (Nat.ltb i j)|]; try (destruct Hb; fail).
    destruct Hb as [Hb|[]]. subst b. reflexivity.
Qed.

Theorem m_nodes_nodup m : NoDup (m_nodes m).
Proof.
  unfold m_nodes. apply flat_map_idx_nodup with (g := fun x => x).
  - intros [i [j|]]; [apply NoDup_single | constructor].
  - intros [i [j|]] b Hb; [|destruct Hb].
    destruct Hb as [Hb|[]]. subst b. reflexivity.
Qed.

(* ------------------------------------------------------------------ *)
(* endpoints                                                            *)

Lemma In_endpoints M x : In x (endpoints M) <-> exists i j, In (i, j) M /\ (x = i \/ x = j).
Proof.
  unfold endpoints. rewrite in_flat_map. split.
  - intros [[i j] [Hin Hx]]. cbn [fst snd In] in Hx. exists i, j. split; [exact Hin|].
    destruct Hx as [Hx|[Hx|[]]]; [left | right]; congruence.
  - intros [i [j [Hin Hx]]]. exists (i, j). split; [exact Hin|]. cbn [fst snd In].
    destruct Hx as [Hx|Hx]; [left | right; left]; congruence.
Qed.

Lemma endpoints_cons i j M : endpoints ((i, j) :: M) = i :: j :: endpoints M.
Proof. reflexivity. Qed.

Lemma endpoints_app M1 M2 : endpoints (M1 ++ M2) = endpoints M1 ++ endpoints M2.
Proof. unfold endpoints. apply flat_map_app. Qed.

Lemma endpoints_length M : length (endpoints M) = 2 * length M.
Proof.
  induction M as [|[i j] t IH]; [reflexivity|].
  rewrite endpoints_cons. cbn [length]. rewrite IH. lia.
Qed.

(* pairwise disjoint, irreflexive pairs have distinct endpoints *)
Lemma endpoints_nodup M :
  NoDup M ->
  (forall i j, In (i, j) M -> i <> j) ->
  (forall i j i' j', In (i, j) M -> In (i', j') M ->
     (i = i' \/ i = j' \/ j = i' \/ j = j') -> (i, j) = (i', j')) ->
  NoDup (endpoints M).
Proof.
  induction M as [|[a b] t IH]; intros Hnd Hirr Hdis; [constructor|].
  rewrite endpoints_cons. inversion Hnd as [|? ? Hab Ht]; subst.
  assert (Hnot : forall x, x = a \/ x = b -> ~ In x (endpoints t)).
  { intros x Hx Hin. apply In_endpoints in Hin. destruct Hin as [i' [j' [Hin Hx']]].
    assert (E : (a, b) = (i', j')).
    { apply Hdis; [left; reflexivity | right; exact Hin |].
      destruct Hx as [Hx|Hx]; destruct Hx' as [Hx'|Hx']; subst x; auto. }
    apply Hab. rewrite E. exact Hin. }
  constructor; [|constructor].
  - intros [Hba|Hin].
    + apply (Hirr a b); [left; reflexivity | congruence].
    + apply (Hnot a); auto.
  - apply Hnot; auto.
  - apply IH; auto.
    + intros i j Hin. apply Hirr. right; exact Hin.
    + intros i j i' j' H1 H2. apply Hdis; right; assumption.
Qed.

Theorem m_edges_endpoints_nodup m : msym m -> NoDup (endpoints (m_edges m)).
Proof.
  intros Hs. apply endpoints_nodup.
  - apply m_edges_nodup.
  - intros i j Hin. apply m_edges_spec in Hin. lia.
  - intros i j i' j' H1 H2 Hc.
    apply m_edges_spec in H1. apply m_edges_spec in H2.
    destruct H1 as [L1 E1]. destruct H2 as [L2 E2].
    destruct (Hs _ _ E1) as [S1 _]. destruct (Hs _ _ E2) as [S2 _].
    destruct Hc as [Hc|[Hc|[Hc|Hc]]]; subst.
    + f_equal. congruence.
    + exfalso. assert (j = i') by congruence. lia.
    + exfalso. assert (i = j') by congruence. lia.
    + f_equal. congruence.
Qed.

Lemma m_nodes_endpoints m x : msym m -> (In x (m_nodes m) <-> In x (endpoints (m_edges m))).
Proof.
  intros Hs. rewrite m_nodes_spec, In_endpoints. split.
  - intros [j Hm]. destruct (Hs _ _ Hm) as [Hm' Hne].
    destruct (Nat.lt_ge_cases x j) as [Hlt|Hge].
    + exists x, j. split; [apply m_edges_spec; auto | left; reflexivity].
    + exists j, x. split; [apply m_edges_spec; split; [lia | exact Hm'] | right; reflexivity].
  - intros [i [j [Hin Hx]]]. apply m_edges_spec in Hin. destruct Hin as [Hlt Hm].
    destruct (Hs _ _ Hm) as [Hm' _].
    destruct Hx as [Hx|Hx]; subst x; eauto.
Qed.

Theorem m_edges_nodes_len m : msym m -> 2 * length (m_edges m) = length (m_nodes m).
Proof.
  intros Hs. rewrite <- endpoints_length.
  apply Permutation_length. apply NoDup_Permutation.
  - apply m_edges_endpoints_nodup; exact Hs.
  - apply m_nodes_nodup.
  - intros x. symmetry. apply m_nodes_endpoints; exact Hs.
Qed.

Print Assumptions m_edges_spec.
Print Assumptions m_nodes_spec.
Print Assumptions m_edges_nodup.
Print Assumptions m_nodes_nodup.
Print Assumptions m_edges_nodes_len.
Print Assumptions m_edges_endpoints_nodup.
