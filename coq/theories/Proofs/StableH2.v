(* StableGraph, second round: histories over every state-changing operation of StableIO.step
   (H1), and the link between StableIO.step and the operation type used here. *)
From PG Require Import Lib.Io Lib.ListArr Lib.ListExtra Lib.Walk Model.GraphM Model.StableM Model.StableIO
  Proofs.GraphP Proofs.GraphRE Proofs.StableP Proofs.StableE Proofs.StableRE Proofs.StableRN
  Proofs.StableT Proofs.StableH Proofs.StableU Proofs.StableX Proofs.StableFM Proofs.StableTG.
Set Implicit Arguments.

Inductive sop2 :=
| PAddNode (w : nat) | PAddEdge (a b w : nat) | PUpdateEdge (a b w : nat)
| PRemoveNode (a : nat) | PRemoveEdge (e : nat)
| PReverse | PClear | PClearEdges
| PRetainNodes (keep : nat -> bool) | PRetainEdges (keep : nat -> bool)
| PExtend (es : list (nat * nat * nat))
| PFilterMap (nmap emap : nat -> option nat) | PMap (f : nat -> nat)
| PSetNodeWeight (a w : nat) | PSetEdgeWeight (e w : nat)
| PFindEdge (a b : nat) | PFindEdgeUndirected (a b : nat)
| PToFromGraph.

Inductive sout2 :=
| QIdx (r : gerr + nat) | QWt (o : option nat) | QUnit | QBool (b : bool)
| QEdge (o : option nat) | QEdgeDir (o : option (nat * nat)).

Section StableH2.
  Variable cap : nat.
  Variable capcheck : bool.
  Variable debug : bool.
  Variable directed : bool.

  Notation SInv := (SInv cap).

  Definition step2 (s : sgraph) (o : sop2) : res (sout2 * sgraph) :=
    match o with
    | PAddNode w => rmap (fun '(r, s') => (QIdx r, s')) (s_try_add_node cap capcheck debug s w)
    | PAddEdge a b w => rmap (fun '(r, s') => (QIdx r, s')) (s_try_add_edge cap capcheck debug s a b w)
    | PUpdateEdge a b w =>
        rmap (fun '(r, s') => (QIdx r, s')) (s_try_update_edge cap capcheck debug directed s a b w)
    | PRemoveNode a => rmap (fun '(r, s') => (QWt r, s')) (s_remove_node cap debug s a)
    | PRemoveEdge e => rmap (fun '(r, s') => (QWt r, s')) (s_remove_edge cap debug s e)
    | PReverse => Ok (QUnit, s_reverse s)
    | PClear => Ok (QUnit, sg_empty cap)
    | PClearEdges => Ok (QUnit, s_clear_edges cap s)
    | PRetainNodes keep => rmap (fun s' => (QUnit, s')) (s_retain_nodes cap debug keep s)
    | PRetainEdges keep => rmap (fun s' => (QUnit, s')) (s_retain_edges cap debug keep s)
    | PExtend es => let '(ok, s') := s_extend_with_edges cap capcheck debug s es in Ok (QBool ok, s')
    | PFilterMap nmap emap => rmap (fun s' => (QUnit, s')) (s_filter_map cap capcheck debug nmap emap s)
    | PMap f => Ok (QUnit, s_map f s)
    | PSetNodeWeight a w =>
        match get_node s a with
        | Some _ => rmap (fun g' => (QBool true, with_g s g'))
                         (upd_node (sg s) a (fun n => mkNode (Some w) (nnext n)))
        | None => Ok (QBool false, s)
        end
    | PSetEdgeWeight e w =>
        match nth_error (gedges (sg s)) e with
        | Some ed =>
            match ewt ed with
            | Some _ => rmap (fun g' => (QBool true, with_g s g'))
                             (upd_edge (sg s) e (fun e0 => mkEdge (Some w) (enext e0) (enode e0)))
            | None => Ok (QBool false, s)
            end
        | None => Ok (QBool false, s)
        end
    | PFindEdge a b => rmap (fun o => (QEdge o, s)) (s_find_edge directed s a b)
    | PFindEdgeUndirected a b => rmap (fun o => (QEdgeDir o, s)) (s_find_edge_undirected s a b)
    | PToFromGraph =>
        match to_graph cap capcheck debug s with
        | Some g => Ok (QUnit, from_graph cap g)
        | None => Panic
        end
    end.

  Fixpoint run2 (s : sgraph) (ops : list sop2) : res sgraph :=
    match ops with
    | [] => Ok s
    | o :: rest => rbind (step2 s o) (fun '(_, s') => run2 s' rest)
    end.

  (* upper bounds on the slot counts after an operation (used only for unchecked indices) *)
  Definition nbound (o : sop2) (n : nat) : nat :=
    match o with
    | PAddNode _ => S n
    | PClear => 0
    | PExtend es => Nat.max n (S (maxep es))
    | _ => n
    end.

  Definition ebound (o : sop2) (e : nat) : nat :=
    match o with
    | PAddEdge _ _ _ | PUpdateEdge _ _ _ => S e
    | PClear | PClearEdges => 0
    | PExtend es => e + length es
    | _ => e
    end.

  Fixpoint fits (n e : nat) (ops : list sop2) : Prop :=
    match ops with
    | [] => True
    | o :: rest => nbound o n <= cap /\ ebound o e <= cap /\ fits (nbound o n) (ebound o e) rest
    end.

  Lemma nbound_mono o n n' : n' <= n -> nbound o n' <= nbound o n.
  Proof. intros H. destruct o; simpl; lia. Qed.

  Lemma ebound_mono o e e' : e' <= e -> ebound o e' <= ebound o e.
  Proof. intros H. destruct o; simpl; lia. Qed.

  Lemma fits_mono ops : forall n e n' e', n' <= n -> e' <= e -> fits n e ops -> fits n' e' ops.
  Proof.
    induction ops as [|o ops IH]; intros n e n' e' Hn He H; simpl in *; auto.
    destruct H as [H1 [H2 H3]].
    pose proof (nbound_mono o Hn). pose proof (ebound_mono o He).
    split; [lia|]. split; [lia|]. eapply IH; eauto.
  Qed.

  Lemma maxep_in es a b w : In (a, b, w) es -> a <= maxep es /\ b <= maxep es.
  Proof.
    induction es as [|t es IH]; intros Hin; simpl in Hin; [contradiction|].
    cbn [maxep fold_right]. fold (maxep es). destruct Hin as [->|Hin].
    - cbn [fst snd]. lia.
    - specialize (IH Hin). lia.
  Qed.

  Lemma step2_ok s o :
    SInv s ->
    (capcheck = false ->
       nbound o (length (gnodes (sg s))) <= cap /\ ebound o (length (gedges (sg s))) <= cap) ->
    exists r s', step2 s o = Ok (r, s') /\ SInv s' /\
      length (gnodes (sg s')) <= nbound o (length (gnodes (sg s))) /\
      length (gedges (sg s')) <= ebound o (length (gedges (sg s))).
  Proof.
    intros I Hroom.
    destruct o as [w|a b w|a b w|a|e| | | |keep|keep|es|nmap emap|f|a w|e w|a b|a b|];
      cbn [step2 nbound ebound] in *.
    - (* add_node *)
      destruct (@s_try_add_node_total cap capcheck debug s w I) as [r [s' [Hrun [I' P]]]].
      { intros Hc _. destruct (Hroom Hc). lia. }
      rewrite Hrun. cbn [rmap]. eexists _, s'. split; [reflexivity|]. split; auto.
      destruct r as [e|i].
      + destruct P as [_ [-> _]]. lia.
      + destruct P as [_ P]. pose proof (an_nlen P). rewrite (an_edges P). lia.
    - (* add_edge *)
      destruct (@s_try_add_edge_total cap capcheck debug s a b w I) as [r [s' [Hrun [I' P]]]].
      { intros Hc _. destruct (Hroom Hc). lia. }
      rewrite Hrun. cbn [rmap]. eexists _, s'. split; [reflexivity|]. split; auto.
      destruct r as [e|x].
      + destruct P as [-> _]. lia.
      + destruct P as [_ [_ [_ P]]]. pose proof (ae_elen P). rewrite (ae_nlen P). lia.
    - (* update_edge *)
      destruct (@s_try_update_edge_spec cap capcheck debug directed s a b w I) as [o [Hf Ho]].
      destruct o as [ix|].
      + destruct Ho as [Hl Hrun]. rewrite Hrun. cbn [rmap].
        destruct (@set_ew_spec cap s ix w I Hl) as [I' [_ [_ [_ L]]]].
        eexists _, _. split; [reflexivity|]. split; [exact I'|].
        rewrite (sl_nlen L), (sl_elen L). lia.
      + rewrite Ho.
        destruct (@s_try_add_edge_total cap capcheck debug s a b w I) as [r [s' [Hrun [I' P]]]].
        { intros Hc _. destruct (Hroom Hc). lia. }
        rewrite Hrun. cbn [rmap]. eexists _, s'. split; [reflexivity|]. split; auto.
        destruct r as [e|x].
        * destruct P as [-> _]. lia.
        * destruct P as [_ [_ [_ P]]]. pose proof (ae_elen P). rewrite (ae_nlen P). lia.
    - (* remove_node *)
      destruct (nwo (sg s) a) as [w|] eqn:E.
      + destruct (@s_remove_node_spec cap debug s a w I E) as [s' [Hrun [I' P]]].
        rewrite Hrun. cbn [rmap]. eexists _, s'. split; [reflexivity|]. split; auto.
        rewrite (rn_nlen P), (rn_elen P). lia.
      + rewrite (s_remove_node_none cap debug s a E). cbn [rmap].
        eexists _, s. split; [reflexivity|]. split; auto.
    - (* remove_edge *)
      destruct (ewo (sg s) e) as [w|] eqn:E.
      + destruct (@s_remove_edge_spec cap debug None s e w I E) as [s' [Hrun [I' [P _]]]].
        rewrite Hrun. cbn [rmap]. eexists _, s'. split; [reflexivity|]. split; auto.
        rewrite (rm_nlen P), (rm_elen P). lia.
      + rewrite (s_remove_edge_none cap debug s e E). cbn [rmap].
        eexists _, s. split; [reflexivity|]. split; auto.
    - (* reverse *)
      eexists _, _. split; [reflexivity|]. split; [apply reverse_SInv; auto|].
      unfold s_reverse. cbn [with_g sg gnodes gedges]. rewrite !map_length. lia.
    - (* clear *)
      eexists _, _. split; [reflexivity|]. split; [apply SInv_empty|]. simpl. lia.
    - (* clear_edges *)
      eexists _, _. split; [reflexivity|]. split; [apply clear_edges_SInv; auto|].
      unfold s_clear_edges. cbn [sg gnodes gedges]. rewrite map_length. simpl. lia.
    - (* retain_nodes *)
      destruct (@s_retain_nodes_ok cap debug keep s I) as [s' [Hrun [I' Q]]].
      rewrite Hrun. cbn [rmap]. eexists _, s'. split; [reflexivity|]. split; auto.
      rewrite (rq_nlen Q), (rq_elen Q). lia.
    - (* retain_edges *)
      unfold s_retain_edges.
      destruct (@retain_edges_loop_ok cap debug keep (edge_bound s) 0 s I) as [s' [Hrun [I' R]]].
      rewrite Hrun. cbn [rbind]. rewrite (checked_ok debug I'). cbn [rmap].
      eexists _, s'. split; [reflexivity|]. split; auto.
      rewrite (rm_nlen R), (rm_elen R). lia.
    - (* extend_with_edges *)
      destruct (@s_extend_with_edges_spec cap capcheck debug es s I) as [ok [s' [Hrun R]]].
      { intros Hc. destruct (Hroom Hc) as [H1 H2]. split; [|lia].
        intros a b w Hin. destruct (maxep_in _ _ _ _ Hin). lia. }
      rewrite Hrun. eexists _, s'. split; [reflexivity|].
      destruct R as [I' [_ [[H1 H2] _]]]. auto.
    - (* filter_map *)
      destruct (@s_filter_map_spec cap capcheck debug nmap emap s I) as [s' [Hrun [I' [_ [_ [_ [H1 [H2 _]]]]]]]].
      rewrite Hrun. cbn [rmap]. eexists _, s'. split; [reflexivity|]. split; auto.
      rewrite H1, H2. pose proof (node_bound_le s). pose proof (edge_bound_le s). lia.
    - (* map *)
      destruct (@s_map_spec cap f s I) as [I' [_ [_ L]]].
      eexists _, _. split; [reflexivity|]. split; [exact I'|].
      rewrite (sl_nlen L), (sl_elen L). lia.
    - (* node weight *)
      destruct (nwo (sg s) a) as [w0|] eqn:E.
      + assert (Hl : nwo (sg s) a <> None) by congruence.
        destruct (get_node_live s a Hl) as [n [Hg _]]. rewrite Hg.
        rewrite (upd_node_set_nw _ _ w Hl). cbn [rmap].
        destruct (@set_nw_spec cap s a w I Hl) as [I' [_ [_ [_ L]]]].
        eexists _, _. split; [reflexivity|]. split; [exact I'|].
        rewrite (sl_nlen L), (sl_elen L). lia.
      + rewrite (get_node_vacant s a E). eexists _, s. split; [reflexivity|]. split; auto.
    - (* edge weight *)
      destruct (ewo (sg s) e) as [w0|] eqn:E.
      + assert (Hl : ewo (sg s) e <> None) by congruence.
        rewrite (upd_edge_set_ew _ _ w Hl).
        unfold ewo in E. destruct (nth_error (gedges (sg s)) e) as [ed|]; [|discriminate].
        rewrite E. cbn [rmap].
        destruct (@set_ew_spec cap s e w I Hl) as [I' [_ [_ [_ L]]]].
        eexists _, _. split; [reflexivity|]. split; [exact I'|].
        rewrite (sl_nlen L), (sl_elen L). lia.
      + unfold ewo in E. destruct (nth_error (gedges (sg s)) e) as [ed|].
        * rewrite E. eexists _, s. split; [reflexivity|]. split; auto.
        * eexists _, s. split; [reflexivity|]. split; auto.
    - (* find_edge *)
      destruct (@s_find_edge_sound_complete cap directed s a b I) as [o [Hf _]].
      rewrite Hf. cbn [rmap]. eexists _, s. split; [reflexivity|]. split; auto.
    - (* find_edge_undirected *)
      destruct (@s_find_edge_undirected_sound_complete cap s a b I) as [o [Hf _]].
      rewrite Hf. cbn [rmap]. eexists _, s. split; [reflexivity|]. split; auto.
    - (* Graph::from(stable).into() *)
      destruct (@to_from_total cap capcheck debug s I) as [g [Hrun [I' [Hn He]]]].
      rewrite Hrun. eexists _, _. split; [reflexivity|]. split; [exact I'|]. auto.
  Qed.

  Theorem run2_ok ops : forall s,
    SInv s ->
    (capcheck = false -> fits (length (gnodes (sg s))) (length (gedges (sg s))) ops) ->
    exists s', run2 s ops = Ok s' /\ SInv s'.
  Proof.
    induction ops as [|o ops IH]; intros s I Hfits; cbn [run2].
    - exists s. auto.
    - destruct (@step2_ok s o I) as [r [s1 [Hrun [I1 [Hn He]]]]].
      { intros Hc. destruct (Hfits Hc) as [H1 [H2 _]]. auto. }
      rewrite Hrun. cbn [rbind]. apply IH; auto.
      intros Hc. destruct (Hfits Hc) as [_ [_ H3]]. eapply fits_mono; [| |exact H3]; auto.
  Qed.

  Theorem history2_ok ops :
    (capcheck = false -> fits 0 0 ops) ->
    exists s', run2 (sg_empty cap) ops = Ok s' /\ SInv s'.
  Proof. intros H. apply run2_ok; [apply SInv_empty|exact H]. Qed.

  (* with checked indices (u8, u16, u32) extend_with_edges is the only operation that can stop
     early (the Rust code panics at the index limit); with unchecked indices it never does *)
  Lemma extend_false_checked s es s' :
    SInv s -> (capcheck = false -> nbound (PExtend es) (length (gnodes (sg s))) <= cap /\
                                   ebound (PExtend es) (length (gedges (sg s))) <= cap) ->
    step2 s (PExtend es) = Ok (QBool false, s') -> capcheck = true.
  Proof.
    intros I Hroom. cbn [step2 nbound ebound] in *.
    destruct (@s_extend_with_edges_spec cap capcheck debug es s I) as [ok [s1 [Hrun R]]].
    { intros Hc. destruct (Hroom Hc) as [H1 H2]. split; [|lia].
      intros a b w Hin. destruct (maxep_in _ _ _ _ Hin). lia. }
    rewrite Hrun. intros H. injection H as -> _.
    destruct R as [_ [_ [_ [_ [pre [post [xs [_ [_ [_ [_ [_ [_ [Hc _]]]]]]]]]]]]]]. exact Hc.
  Qed.
End StableH2.
